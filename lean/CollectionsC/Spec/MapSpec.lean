import CollectionsC.Base.Status
/-! Abstract spec of a finite map (property C02): an association list with pairwise distinct keys.
Keys are `Option Nat` (`none` = the NULL key).  Two maps are *the same map* when they are
permutations of each other (`List.Perm`): the order of an association list is not observable
through `lookup`/`size`, and the enumeration order of a hash table is unspecified. -/
namespace CC.Spec

abbrev Key := Option Nat
abbrev Map := List (Key × Nat)

namespace Map

def empty : Map := []
def lookup (m : Map) (k : Key) : Option Nat := (m.find? (fun e => e.1 == k)).map (·.2)
def contains (m : Map) (k : Key) : Bool := (lookup m k).isSome
/-- add-or-replace -/
def insert (m : Map) (k : Key) (v : Nat) : Map :=
  if contains m k then m.map (fun e => if e.1 = k then (k, v) else e) else (k, v) :: m
def erase (m : Map) (k : Key) : Map := m.filter (fun e => e.1 != k)
def size (m : Map) : Nat := m.length
def keys (m : Map) : List Key := m.map (·.1)
def vals (m : Map) : List Nat := m.map (·.2)
/-- well-formed: no key occurs twice -/
def WF (m : Map) : Prop := (keys m).Nodup

instance (m : Map) : Decidable (WF m) := by unfold WF; infer_instance

/-- operations of a table history (enumerations and iterators are treated separately) -/
inductive Op where
  | add (k : Key) (v : Nat)
  | get (k : Key)
  | containsKey (k : Key)
  | remove (k : Key)
  | removeAll
  deriving Repr, DecidableEq

/-- what a call returns: status (`none` for `void`/`bool` functions) and out-value -/
structure Out where
  st  : Option Stat
  val : Option Nat
  deriving Repr, DecidableEq

/-- One step of the ideal map.  `failed` is the only thing the environment decides: whether the
insertion was refused (allocator refusal or maximal capacity) with status `st`; a refused insertion
changes nothing. -/
def step (m : Map) (op : Op) (failed : Option Stat) : Out × Map :=
  match op with
  | .add k v =>
    match failed with
    | some st => (⟨some st, none⟩, m)
    | none => (⟨some .ok, none⟩, insert m k v)
  | .get k =>
    match lookup m k with
    | some v => (⟨some .ok, some v⟩, m)
    | none => (⟨some .errKeyNotFound, none⟩, m)
  | .containsKey k => (⟨none, some (if contains m k then 1 else 0)⟩, m)
  | .remove k =>
    match lookup m k with
    | some v => (⟨some .ok, some v⟩, erase m k)
    | none => (⟨some .errKeyNotFound, none⟩, m)
  | .removeAll => (⟨none, none⟩, [])

/-- a history of the ideal map; `fs` lists, per operation, the refusal decided by the environment -/
def run (m : Map) : List Op → List (Option Stat) → List Out × Map
  | [], _ => ([], m)
  | op :: ops, fs =>
    let r := step m op (fs.headD none)
    let rs := run r.2 ops fs.tail
    (r.1 :: rs.1, rs.2)

end Map

/-- ideal set = keys of the ideal map (the C set stores a dummy value) -/
abbrev Set := List Key

namespace Set
def insert (s : Set) (k : Key) : Set := if s.contains k then s else k :: s
def erase (s : Set) (k : Key) : Set := s.filter (fun x => x != k)
def size (s : Set) : Nat := s.length
/-- well-formed: no element occurs twice -/
def WF (s : Set) : Prop := s.Nodup

/-- operations of a set history -/
inductive Op where
  | add (e : Key)
  | contains (e : Key)
  | remove (e : Key)
  | removeAll
  deriving Repr, DecidableEq

/-- one step of the ideal set (`failed`: the insertion was refused with that status); the out-value
of `remove` is not part of the ideal set (the C set reports the table's dummy value) -/
def step (s : Set) (op : Op) (failed : Option Stat) : Map.Out × Set :=
  match op with
  | .add e =>
    match failed with
    | some st => (⟨some st, none⟩, s)
    | none => (⟨some .ok, none⟩, insert s e)
  | .contains e => (⟨none, some (if s.contains e then 1 else 0)⟩, s)
  | .remove e => if s.contains e then (⟨some .ok, none⟩, erase s e) else (⟨some .errKeyNotFound, none⟩, s)
  | .removeAll => (⟨none, none⟩, [])

def run (s : Set) : List Op → List (Option Stat) → List Map.Out × Set
  | [], _ => ([], s)
  | op :: ops, fs =>
    let r := step s op (fs.headD none)
    let rs := run r.2 ops fs.tail
    (r.1 :: rs.1, rs.2)
end Set

end CC.Spec
