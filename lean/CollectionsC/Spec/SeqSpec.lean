import CollectionsC.Base.Status
/-! Abstract spec of the dynamic array (`CC_Array`, property C01) and of the adapters built on it:
an ideal list of elements (`List Nat`, `0` is the NULL pointer) with the statuses the array API
documents.  Everything here is a plain list function; allocation refusals are not part of the
ideal list (the driver overrides the result of an allocating call with `CC_ERR_ALLOC`/unchanged
when the C run reports a fired refusal). -/
namespace CC.Spec.Seq

/-- `size_t` wrap-around of `x - 1` (what `cc_array_iter_index` reports before the first yield) -/
def wdec (x : Nat) : Nat := if x = 0 then 2 ^ 64 - 1 else x - 1

/-! ## mutators -/

/-- `cc_array_add` on an ideal list: append, always possible -/
def add (xs : List Nat) (x : Nat) : Stat × List Nat := (.ok, xs ++ [x])

/-- `cc_array_add_at`: positions `[0, size]` -/
def addAt (xs : List Nat) (x i : Nat) : Stat × List Nat :=
  if i ≤ xs.length then (.ok, xs.insertIdx i x) else (.errOutOfRange, xs)

/-- `cc_array_replace_at`: positions `[0, size)`, out = the replaced element -/
def replaceAt (xs : List Nat) (x i : Nat) : Stat × Option Nat × List Nat :=
  if i < xs.length then (.ok, some (xs.getD i 0), xs.set i x) else (.errOutOfRange, none, xs)

/-- `cc_array_swap_at` -/
def swapAt (xs : List Nat) (i j : Nat) : Stat × List Nat :=
  if i < xs.length ∧ j < xs.length then (.ok, (xs.set i (xs.getD j 0)).set j (xs.getD i 0))
  else (.errOutOfRange, xs)

/-- `cc_array_remove`: the first occurrence (pointer equality) -/
def remove (xs : List Nat) (x : Nat) : Stat × Option Nat × List Nat :=
  if x ∈ xs then (.ok, some x, xs.erase x) else (.errValueNotFound, none, xs)

/-- `cc_array_remove_at` -/
def removeAt (xs : List Nat) (i : Nat) : Stat × Option Nat × List Nat :=
  if i < xs.length then (.ok, some (xs.getD i 0), xs.eraseIdx i) else (.errOutOfRange, none, xs)

/-- `cc_array_remove_last` -/
def removeLast (xs : List Nat) : Stat × Option Nat × List Nat :=
  if xs = [] then (.errOutOfRange, none, xs) else (.ok, xs.getLast?, xs.dropLast)

def removeAll (_xs : List Nat) : List Nat := []

/-- `cc_array_remove_all_free`: number of non-NULL elements handed to `free` -/
def removeAllFree (xs : List Nat) : Nat × List Nat := (xs.countP (· != 0), [])

def reverse (xs : List Nat) : List Nat := xs.reverse

/-- `cc_array_filter_mut`: refuses the empty array -/
def filterMut (p : Nat → Bool) (xs : List Nat) : Stat × List Nat :=
  if xs = [] then (.errOutOfRange, xs) else (.ok, xs.filter p)

/-- `cc_array_sort` relative to the assumed `qsort` behaviour `sortFn` -/
def sort (sortFn : List Nat → List Nat) (xs : List Nat) : List Nat := sortFn xs

/-! ## observers -/

def getAt (xs : List Nat) (i : Nat) : Stat × Option Nat :=
  if i < xs.length then (.ok, some (xs.getD i 0)) else (.errOutOfRange, none)

def getLast (xs : List Nat) : Stat × Option Nat :=
  if xs = [] then (.errValueNotFound, none) else (.ok, xs.getLast?)

/-- `cc_array_index_of`: index of the first occurrence -/
def indexOf (xs : List Nat) (x : Nat) : Stat × Option Nat :=
  if x ∈ xs then (.ok, some (xs.idxOf x)) else (.errOutOfRange, none)

/-- `cc_array_contains`: occurrence count -/
def contains (xs : List Nat) (x : Nat) : Nat := xs.count x

/-- `cc_array_contains_value`: number of elements the comparator calls equal to `x` -/
def containsValue (cmp : Nat → Nat → Int) (xs : List Nat) (x : Nat) : Nat :=
  xs.countP fun y => cmp x y == 0

/-- `cc_array_map`: the elements in visiting order -/
def mapVisit (xs : List Nat) : List Nat := xs

/-- `cc_array_reduce`: the operand pairs handed to `fn` (flattened) and the final accumulator.
Size 1 calls `fn(e0, NULL)`, size ≥ 2 calls `fn(e0, e1)` then `fn(acc, ei)`; size 0 calls nothing. -/
def reduce (fn : Nat → Nat → Nat) (xs : List Nat) (r0 : Nat) : List Nat × Nat :=
  match xs with
  | [] => ([], r0)
  | [a] => ([a, 0], fn a 0)
  | a :: b :: rest =>
    rest.foldl (fun s x => (s.1 ++ [s.2, x], fn s.2 x)) ([a, b], fn a b)

/-! ## derived containers -/

/-- `cc_array_subarray`, both ends inclusive -/
def subarray (xs : List Nat) (b e : Nat) : Stat × Option (List Nat) :=
  if b ≤ e ∧ e < xs.length then (.ok, some ((xs.drop b).take (e - b + 1))) else (.errInvalidRange, none)

def copyShallow (xs : List Nat) : List Nat := xs
def copyDeep (cp : Nat → Nat) (xs : List Nat) : List Nat := xs.map cp

/-- `cc_array_filter`: refuses the empty array -/
def filter (p : Nat → Bool) (xs : List Nat) : Stat × Option (List Nat) :=
  if xs = [] then (.errOutOfRange, none) else (.ok, some (xs.filter p))

/-! ## ideal cursor: `done` = elements before the cursor (the last one is the element yielded
last, unless it was removed), `todo` = elements not yet visited.  The list is `done ++ todo`. -/

structure Cursor where
  done : List Nat
  todo : List Nat
  removed : Bool := false     -- the element yielded last is already gone
  deriving Repr, DecidableEq

namespace Cursor
def content (c : Cursor) : List Nat := c.done ++ c.todo

def next (c : Cursor) : Stat × Option Nat × Cursor :=
  match c.todo with
  | [] => (.iterEnd, none, c)
  | x :: t => (.ok, some x, { done := c.done ++ [x], todo := t, removed := false })

/-- remove the element yielded last -/
def remove (c : Cursor) : Stat × Option Nat × Cursor :=
  if c.removed then (.errValueNotFound, none, c)
  else if c.done = [] then (.errOutOfRange, none, c)
  else (.ok, c.done.getLast?, { c with done := c.done.dropLast, removed := true })

/-- insert directly after the element yielded last (before the unvisited ones) -/
def add (c : Cursor) (x : Nat) : Stat × Cursor := (.ok, { c with done := c.done ++ [x] })

/-- replace the element yielded last -/
def replace (c : Cursor) (x : Nat) : Stat × Option Nat × Cursor :=
  if c.done = [] then (.errOutOfRange, none, c)
  else (.ok, c.done.getLast?, { c with done := c.done.dropLast ++ [x] })

/-- position of the element yielded last -/
def index (c : Cursor) : Nat := wdec c.done.length
end Cursor

/-- lock-step cursor over two lists; both `done` parts always have the same length -/
structure ZipCursor where
  done1 : List Nat
  todo1 : List Nat
  done2 : List Nat
  todo2 : List Nat
  removed : Bool := false
  deriving Repr, DecidableEq

namespace ZipCursor
def content1 (c : ZipCursor) : List Nat := c.done1 ++ c.todo1
def content2 (c : ZipCursor) : List Nat := c.done2 ++ c.todo2

def next (c : ZipCursor) : Stat × Option (Nat × Nat) × ZipCursor :=
  match c.todo1, c.todo2 with
  | x :: t1, y :: t2 =>
    (.ok, some (x, y), { done1 := c.done1 ++ [x], todo1 := t1, done2 := c.done2 ++ [y], todo2 := t2, removed := false })
  | _, _ => (.iterEnd, none, c)

def remove (c : ZipCursor) : Stat × Option (Nat × Nat) × ZipCursor :=
  if c.done1 = [] ∨ c.done2 = [] then (.errOutOfRange, none, c)
  else if c.removed then (.errValueNotFound, none, c)
  else (.ok, some (c.done1.getLast?.getD 0, c.done2.getLast?.getD 0),
        { c with done1 := c.done1.dropLast, done2 := c.done2.dropLast, removed := true })

def add (c : ZipCursor) (x y : Nat) : Stat × ZipCursor :=
  (.ok, { c with done1 := c.done1 ++ [x], done2 := c.done2 ++ [y] })

def replace (c : ZipCursor) (x y : Nat) : Stat × Option (Nat × Nat) × ZipCursor :=
  if c.done1 = [] ∨ c.done2 = [] then (.errOutOfRange, none, c)
  else (.ok, some (c.done1.getLast?.getD 0, c.done2.getLast?.getD 0),
        { c with done1 := c.done1.dropLast ++ [x], done2 := c.done2.dropLast ++ [y] })

def index (c : ZipCursor) : Nat := wdec c.done1.length
end ZipCursor

/-! ## histories of a single array (C01) -/

/-- the user callbacks of a history: filter predicate, `contains_value` comparator, `reduce`
function, and the assumed behaviour of `qsort` under the sort comparator -/
structure Cfg where
  pred   : Nat → Bool
  cmp    : Nat → Nat → Int
  fn     : Nat → Nat → Nat
  sortFn : List Nat → List Nat

/-- the operations C01 names -/
inductive Op where
  | add (x : Nat) | addAt (x i : Nat) | replaceAt (x i : Nat) | swapAt (i j : Nat)
  | remove (x : Nat) | removeAt (i : Nat) | removeLast | removeAll | removeAllFree
  | reverse | filterMut | trimCapacity | sort
  | getAt (i : Nat) | getLast | indexOf (x : Nat) | contains (x : Nat) | containsValue (x : Nat)
  | size | map | reduce (r0 : Nat)
  deriving Repr, DecidableEq

/-- what a call reports: status (none for `void`/count functions), out-value, callback log -/
structure Out where
  st  : Option Stat := none
  val : Option Nat := none
  log : List Nat := []
  deriving Repr, DecidableEq

/-- the status of a call that was blocked by the allocator or by the capacity limit -/
def Out.blocked (o : Out) : Option Stat :=
  if o.st = some .errAlloc ∨ o.st = some .errMaxCapacity then o.st else none

/-- one step of the ideal list.  `blk` is the blocking status the implementation reported for this
call (`none`: not blocked): an allocating call (`add`, `add_at`, `trim_capacity`) that was blocked
reports that status and changes nothing; every other call ignores `blk`. -/
def step (cfg : Cfg) (xs : List Nat) (op : Op) (blk : Option Stat) : Out × List Nat :=
  match op with
  | .add x => match blk with
    | some st => ({ st := some st }, xs)
    | none => let r := add xs x; ({ st := some r.1 }, r.2)
  | .addAt x i => match blk with
    | some st => ({ st := some st }, xs)
    | none => let r := addAt xs x i; ({ st := some r.1 }, r.2)
  | .trimCapacity => match blk with
    | some st => ({ st := some st }, xs)
    | none => ({ st := some .ok }, xs)
  | .replaceAt x i => let r := replaceAt xs x i; ({ st := some r.1, val := r.2.1 }, r.2.2)
  | .swapAt i j => let r := swapAt xs i j; ({ st := some r.1 }, r.2)
  | .remove x => let r := remove xs x; ({ st := some r.1, val := r.2.1 }, r.2.2)
  | .removeAt i => let r := removeAt xs i; ({ st := some r.1, val := r.2.1 }, r.2.2)
  | .removeLast => let r := removeLast xs; ({ st := some r.1, val := r.2.1 }, r.2.2)
  | .removeAll => ({}, removeAll xs)
  | .removeAllFree => let r := removeAllFree xs; ({ val := some r.1 }, r.2)
  | .reverse => ({}, reverse xs)
  | .filterMut => let r := filterMut cfg.pred xs; ({ st := some r.1, log := if r.1 = .ok then xs.reverse else [] }, r.2)
  | .sort => ({}, sort cfg.sortFn xs)
  | .getAt i => let r := getAt xs i; ({ st := some r.1, val := r.2 }, xs)
  | .getLast => let r := getLast xs; ({ st := some r.1, val := r.2 }, xs)
  | .indexOf x => let r := indexOf xs x; ({ st := some r.1, val := r.2 }, xs)
  | .contains x => ({ val := some (contains xs x) }, xs)
  | .containsValue x => ({ val := some (containsValue cfg.cmp xs x) }, xs)
  | .size => ({ val := some xs.length }, xs)
  | .map => ({ log := mapVisit xs }, xs)
  | .reduce r0 => let r := reduce cfg.fn xs r0; ({ val := some r.2, log := r.1 }, xs)

/-- a history on the ideal list; `blks` lists the blocking status of each call (missing = none) -/
def run (cfg : Cfg) (xs : List Nat) : List Op → List (Option Stat) → List Out × List Nat
  | [], _ => ([], xs)
  | op :: ops, blks =>
    let r := step cfg xs op (blks.headD none)
    let rs := run cfg r.2 ops blks.tail
    (r.1 :: rs.1, rs.2)

/-! ## stack vocabulary (C09): the top of the stack is the end of the list -/
def push (xs : List Nat) (x : Nat) : Stat × List Nat := add xs x
def pop (xs : List Nat) : Stat × Option Nat × List Nat := removeLast xs
def peek (xs : List Nat) : Stat × Option Nat := getLast xs

/-! ## iterator-driving programs (C07) -/

inductive IterOp where
  | next | remove | add (x : Nat) | replace (x : Nat) | index
  deriving Repr, DecidableEq

/-- one iterator call on the ideal cursor (`blk`: blocking status of an `add`, as in `step`) -/
def Cursor.step (c : Cursor) (op : IterOp) (blk : Option Stat) : Out × Cursor :=
  match op with
  | .next => let r := c.next; ({ st := some r.1, val := r.2.1 }, r.2.2)
  | .remove => let r := c.remove; ({ st := some r.1, val := r.2.1 }, r.2.2)
  | .add x => match blk with
    | some st => ({ st := some st }, c)
    | none => let r := c.add x; ({ st := some r.1 }, r.2)
  | .replace x => let r := c.replace x; ({ st := some r.1, val := r.2.1 }, r.2.2)
  | .index => ({ val := some c.index }, c)

def Cursor.run (c : Cursor) : List IterOp → List (Option Stat) → List Out × Cursor
  | [], _ => ([], c)
  | op :: ops, blks =>
    let r := c.step op (blks.headD none)
    let rs := Cursor.run r.2 ops blks.tail
    (r.1 :: rs.1, rs.2)

/-- push/pop/peek/size interleavings -/
inductive SOp where
  | push (x : Nat) | pop | peek | size
  deriving Repr, DecidableEq

/-- one step of the ideal stack; `blk` as in `step` (only `push` can be blocked) -/
def sstep (xs : List Nat) (op : SOp) (blk : Option Stat) : Out × List Nat :=
  match op with
  | .push x => match blk with
    | some st => ({ st := some st }, xs)
    | none => let r := push xs x; ({ st := some r.1 }, r.2)
  | .pop => let r := pop xs; ({ st := some r.1, val := r.2.1 }, r.2.2)
  | .peek => let r := peek xs; ({ st := some r.1, val := r.2 }, xs)
  | .size => ({ val := some xs.length }, xs)

def srun (xs : List Nat) : List SOp → List (Option Stat) → List Out × List Nat
  | [], _ => ([], xs)
  | op :: ops, blks =>
    let r := sstep xs op (blks.headD none)
    let rs := srun r.2 ops blks.tail
    (r.1 :: rs.1, rs.2)

/-- well-bracketed push/pop programs: every push has its matching pop, peeks and size queries anywhere -/
inductive Bal : List SOp → Prop where
  | nil : Bal []
  | peek : Bal [.peek]
  | size : Bal [.size]
  | wrap (y : Nat) {ops : List SOp} : Bal ops → Bal (.push y :: ops ++ [.pop])
  | append {ops1 ops2 : List SOp} : Bal ops1 → Bal ops2 → Bal (ops1 ++ ops2)

/-- net effect of one reported call on the number of elements: +1 for a successful push, −1 for a
successful pop, 0 otherwise (blocked pushes and pops on the empty stack included) -/
def sizeEffect (op : SOp) (o : Out) : Int :=
  match op with
  | .push _ => if o.st = some .ok then 1 else 0
  | .pop => if o.st = some .ok then -1 else 0
  | _ => 0

/-! ## zip-iterator programs (C07) -/

inductive ZipOp where
  | next | remove | add (x y : Nat) | replace (x y : Nat) | index
  deriving Repr, DecidableEq

/-- what a zip-iterator call reports: status, the pair of out-values, the index -/
structure ZOut where
  st  : Option Stat := none
  val : Option (Nat × Nat) := none
  idx : Option Nat := none
  deriving Repr, DecidableEq

/-- the status of a zip call that was blocked (`zip_iter_add` whose growth step was refused) -/
def ZOut.blocked (o : ZOut) : Option Stat :=
  if o.st = some .errAlloc ∨ o.st = some .errMaxCapacity then o.st else none

/-- one zip-iterator call on the ideal lock-step cursor (`blk`: blocking status of an `add`) -/
def ZipCursor.step (c : ZipCursor) (op : ZipOp) (blk : Option Stat) : ZOut × ZipCursor :=
  match op with
  | .next => let r := c.next; ({ st := some r.1, val := r.2.1 }, r.2.2)
  | .remove => let r := c.remove; ({ st := some r.1, val := r.2.1 }, r.2.2)
  | .add x y => match blk with
    | some st => ({ st := some st }, c)
    | none => let r := c.add x y; ({ st := some r.1 }, r.2)
  | .replace x y => let r := c.replace x y; ({ st := some r.1, val := r.2.1 }, r.2.2)
  | .index => ({ idx := some c.index }, c)

def ZipCursor.run (c : ZipCursor) : List ZipOp → List (Option Stat) → List ZOut × ZipCursor
  | [], _ => ([], c)
  | op :: ops, blks =>
    let r := c.step op (blks.headD none)
    let rs := ZipCursor.run r.2 ops blks.tail
    (r.1 :: rs.1, rs.2)

end CC.Spec.Seq
