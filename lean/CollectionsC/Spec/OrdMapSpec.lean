import CollectionsC.Base.Status
/-! Abstract spec of an ordered map (properties C03/C17, `cc_treetable` / `cc_treeset`).

The ideal map is its list of entries in strictly ascending key order with respect to the user's
comparator `cmp : Nat → Nat → Int` (negative = "first argument is smaller").  Every operation is
written in the vocabulary of the property: the entries below a key, the entries above a key, the
least entry above, the greatest entry below. -/
namespace CC.Spec

/-- what the property calls a *total-order comparator* -/
structure TotalOrder (cmp : Nat → Nat → Int) : Prop where
  eq_zero  : ∀ a b, cmp a b = 0 ↔ a = b
  antisymm : ∀ a b, cmp a b < 0 ↔ 0 < cmp b a
  trans    : ∀ a b c, cmp a b < 0 → cmp b c < 0 → cmp a c < 0

abbrev OrdMap := List (Nat × Nat)

namespace OrdMap
variable (cmp : Nat → Nat → Int)

/-- strictly ascending keys -/
def Sorted (m : OrdMap) : Prop := m.Pairwise (fun a b => cmp a.1 b.1 < 0)
instance (m : OrdMap) : Decidable (Sorted cmp m) := by unfold Sorted; infer_instance

def keys (m : OrdMap) : List Nat := m.map (·.1)
def values (m : OrdMap) : List Nat := m.map (·.2)

def lookup (m : OrdMap) (k : Nat) : Option Nat := (m.find? (fun e => e.1 == k)).map (·.2)
def contains (m : OrdMap) (k : Nat) : Bool := m.any (fun e => e.1 == k)
def below (m : OrdMap) (k : Nat) : OrdMap := m.filter (fun e => decide (cmp e.1 k < 0))
def above (m : OrdMap) (k : Nat) : OrdMap := m.filter (fun e => decide (cmp k e.1 < 0))
/-- add-or-replace -/
def insert (m : OrdMap) (k v : Nat) : OrdMap := below cmp m k ++ (k, v) :: above cmp m k
def erase (m : OrdMap) (k : Nat) : OrdMap := m.filter (fun e => e.1 != k)
def first (m : OrdMap) : Option (Nat × Nat) := m.head?
def last (m : OrdMap) : Option (Nat × Nat) := m.getLast?
/-- the least entry strictly above `k` -/
def succ (m : OrdMap) (k : Nat) : Option (Nat × Nat) := (above cmp m k).head?
/-- the greatest entry strictly below `k` -/
def pred (m : OrdMap) (k : Nat) : Option (Nat × Nat) := (below cmp m k).getLast?
def countValue (m : OrdMap) (v : Nat) : Nat := (m.filter (fun e => e.2 == v)).length

/-! ### operations with the status codes of the C API -/

def opGet (m : OrdMap) (k : Nat) : Stat × Option Nat :=
  match lookup m k with
  | some v => (.ok, some v)
  | none => (.errKeyNotFound, none)

def opRemove (m : OrdMap) (k : Nat) : Stat × Option Nat × OrdMap :=
  match lookup m k with
  | some v => (.ok, some v, erase m k)
  | none => (.errKeyNotFound, none, m)

def opRemoveFirst (m : OrdMap) : Stat × Option Nat × OrdMap :=
  match m with
  | [] => (.errKeyNotFound, none, m)
  | e :: rest => (.ok, some e.2, rest)

def opRemoveLast (m : OrdMap) : Stat × Option Nat × OrdMap :=
  match m.getLast? with
  | none => (.errKeyNotFound, none, m)
  | some e => (.ok, some e.2, m.dropLast)

def opFirstKey (m : OrdMap) : Stat × Option Nat :=
  match first m with | some e => (.ok, some e.1) | none => (.errKeyNotFound, none)
def opLastKey (m : OrdMap) : Stat × Option Nat :=
  match last m with | some e => (.ok, some e.1) | none => (.errKeyNotFound, none)
def opFirstValue (m : OrdMap) : Stat × Option Nat :=
  match first m with | some e => (.ok, some e.2) | none => (.errValueNotFound, none)
def opLastValue (m : OrdMap) : Stat × Option Nat :=
  match last m with | some e => (.ok, some e.2) | none => (.errValueNotFound, none)

/-- strict successor of a *present* key; not-found at the maximum and for an absent key -/
def opGreaterThan (m : OrdMap) (k : Nat) : Stat × Option Nat :=
  if contains m k then
    match succ cmp m k with | some e => (.ok, some e.1) | none => (.errKeyNotFound, none)
  else (.errKeyNotFound, none)

def opLesserThan (m : OrdMap) (k : Nat) : Stat × Option Nat :=
  if contains m k then
    match pred cmp m k with | some e => (.ok, some e.1) | none => (.errKeyNotFound, none)
  else (.errKeyNotFound, none)

/-! ### history vocabulary (operations of the table that need no iterator) -/

inductive Op where
  | add (k v : Nat) | get (k : Nat) | containsKey (k : Nat) | containsValue (v : Nat)
  | remove (k : Nat) | removeFirst | removeLast | removeAll
  | firstKey | lastKey | firstValue | lastValue
  | greaterThan (k : Nat) | lesserThan (k : Nat)
  | foreachKey | foreachValue | size
  deriving Repr, DecidableEq

/-- result of one call: status (`none` for functions without a status), out-value,
the sequence handed to the callback -/
structure Out where
  st  : Option Stat := none
  val : Option Nat := none
  log : List Nat := []
  deriving Repr, DecidableEq

/-- one step of the ideal map; `refused` says that the allocator refused the request of this call
(only `add` of a new key allocates) -/
def step (m : OrdMap) (op : Op) (refused : Bool) : Out × OrdMap :=
  match op with
  | .add k v =>
    if !contains m k && refused then ({ st := some .errAlloc }, m)
    else ({ st := some .ok }, insert cmp m k v)
  | .get k => let r := opGet m k; ({ st := some r.1, val := r.2 }, m)
  | .containsKey k => ({ val := some (if contains m k then 1 else 0) }, m)
  | .containsValue v => ({ val := some (countValue m v) }, m)
  | .remove k => let r := opRemove m k; ({ st := some r.1, val := r.2.1 }, r.2.2)
  | .removeFirst => let r := opRemoveFirst m; ({ st := some r.1, val := r.2.1 }, r.2.2)
  | .removeLast => let r := opRemoveLast m; ({ st := some r.1, val := r.2.1 }, r.2.2)
  | .removeAll => ({}, [])
  | .firstKey => let r := opFirstKey m; ({ st := some r.1, val := r.2 }, m)
  | .lastKey => let r := opLastKey m; ({ st := some r.1, val := r.2 }, m)
  | .firstValue => let r := opFirstValue m; ({ st := some r.1, val := r.2 }, m)
  | .lastValue => let r := opLastValue m; ({ st := some r.1, val := r.2 }, m)
  | .greaterThan k => let r := opGreaterThan cmp m k; ({ st := some r.1, val := r.2 }, m)
  | .lesserThan k => let r := opLesserThan cmp m k; ({ st := some r.1, val := r.2 }, m)
  | .foreachKey => ({ log := keys m }, m)
  | .foreachValue => ({ log := values m }, m)
  | .size => ({ val := some m.length }, m)

/-- a history: every call comes with the answer of the allocator to its (single) request -/
def run (m : OrdMap) : List (Op × Bool) → List Out × OrdMap
  | [] => ([], m)
  | (op, refused) :: rest =>
    let r := step cmp m op refused
    let rs := run r.2 rest
    (r.1 :: rs.1, rs.2)

/-! ### ideal cursor: the keys still to be yielded are fixed when the iterator is created -/

structure Cursor where
  /-- last yielded key, while it may still be removed through the iterator -/
  last : Option Nat := none
  todo : List Nat := []
  deriving Repr, DecidableEq

def Cursor.init (m : OrdMap) : Cursor := { last := none, todo := keys m }

/-- `iter_next`: status, yielded key and value -/
def Cursor.next (c : Cursor) (m : OrdMap) : Stat × Option (Nat × Nat) × Cursor :=
  match c.todo with
  | [] => (.iterEnd, none, c)
  | k :: rest => (.ok, some (k, (lookup m k).getD 0), { last := some k, todo := rest })

/-- `iter_remove`: removes the last yielded entry once -/
def Cursor.remove (c : Cursor) (m : OrdMap) : Stat × Option Nat × Cursor × OrdMap :=
  match c.last with
  | none => (.errKeyNotFound, none, c, m)
  | some k => (.ok, lookup m k, { c with last := none }, erase m k)

/-- iterator programs -/
inductive IterOp where
  | next | remove
  deriving Repr, DecidableEq

/-- `next` reports the yielded key in `val` and its value in `log` -/
def Cursor.step (c : Cursor) (m : OrdMap) : IterOp → Out × Cursor × OrdMap
  | .next =>
    let r := c.next m
    ({ st := some r.1, val := r.2.1.map (·.1), log := (r.2.1.map (fun e => [e.2])).getD [] }, r.2.2, m)
  | .remove =>
    let r := c.remove m
    ({ st := some r.1, val := r.2.1 }, r.2.2.1, r.2.2.2)

def Cursor.run (c : Cursor) (m : OrdMap) : List IterOp → List Out × Cursor × OrdMap
  | [] => ([], c, m)
  | op :: rest =>
    let r := c.step m op
    let rs := Cursor.run r.2.1 r.2.2 rest
    (r.1 :: rs.1, rs.2)

/-- a session mixes histories of table calls with iterator sessions (each on a fresh iterator; while
an iterator is in use the table is modified only through it) -/
inductive Segment where
  | calls (ops : List (Op × List Bool))
  | iterate (prog : List IterOp)
  deriving Repr, DecidableEq

/-- the ideal map through a session; `refused` translates the allocator schedule of a call into
"the request of this call is refused" -/
def runSession (refused : List Bool → Bool) (m : OrdMap) : List Segment → List (List Out) × OrdMap
  | [] => ([], m)
  | .calls ops :: rest =>
    let r := run cmp m (ops.map fun p => (p.1, refused p.2))
    let rs := runSession refused r.2 rest
    (r.1 :: rs.1, rs.2)
  | .iterate prog :: rest =>
    let r := (Cursor.init m).run m prog
    let rs := runSession refused r.2.2 rest
    (r.1 :: rs.1, rs.2)

end OrdMap
end CC.Spec

/-! ## ordered set: the key list of an ordered map whose values are all the same dummy -/
namespace CC.Spec.OrdSet
open CC.Spec.OrdMap (Out)

/-- the value `cc_treeset` stores with every element (`(int*) 1`) -/
def dummy : Nat := 1

inductive Op where
  | add (e : Nat) | remove (e : Nat) | removeAll | contains (e : Nat) | size
  | first | last | greaterThan (e : Nat) | lesserThan (e : Nat) | foreach
  deriving Repr, DecidableEq

/-- the table operation a set operation is implemented by -/
def toMapOp : Op → OrdMap.Op
  | .add e => .add e dummy
  | .remove e => .remove e
  | .removeAll => .removeAll
  | .contains e => .containsKey e
  | .size => .size
  | .first => .firstKey
  | .last => .lastKey
  | .greaterThan e => .greaterThan e
  | .lesserThan e => .lesserThan e
  | .foreach => .foreachKey

/-- the set API reports an absent element as `CC_ERR_VALUE_NOT_FOUND` -/
def mapStat : Stat → Stat
  | .errKeyNotFound => .errValueNotFound
  | s => s

/-- one step of the ideal ordered set (represented as a map to `dummy`); `remove` hands back the
removed element -/
def step (cmp : Nat → Nat → Int) (m : OrdMap) (op : Op) (refused : Bool) : Out × OrdMap :=
  let r := OrdMap.step cmp m (toMapOp op) refused
  ({ r.1 with st := r.1.st.map mapStat,
              val := match op with | .remove e => r.1.val.map (fun _ => e) | _ => r.1.val }, r.2)

def isRemove : Op → Bool
  | .remove _ => true
  | _ => false

/-- what the C API hands back for a result of the ideal set: `cc_treeset_remove` stores the value the
wrapped table kept for the element — the dummy — in `*out`, not the element (an observation outside
the wording of C03, see DESIGN.md); everything else is handed back as it is -/
def apiOut (op : Op) (o : Out) : Out :=
  if isRemove op then { o with val := o.val.map (fun _ => dummy) } else o

def run (cmp : Nat → Nat → Int) (m : OrdMap) : List (Op × Bool) → List Out × OrdMap
  | [] => ([], m)
  | (op, refused) :: rest =>
    let r := step cmp m op refused
    let rs := run cmp r.2 rest
    (r.1 :: rs.1, rs.2)

/-- sessions of a set: histories of set calls interleaved with iterator sessions -/
inductive Segment where
  | calls (ops : List (Op × List Bool))
  | iterate (prog : List OrdMap.IterOp)
  deriving Repr, DecidableEq

/-- what the C API hands back call by call -/
def apiOuts : List Op → List Out → List Out
  | op :: ops, o :: os => apiOut op o :: apiOuts ops os
  | _, _ => []

/-- the ideal set through a session, results as the C API hands them back (a set iterator yields the
element only; its `remove` hands back what the table stored) -/
def runSession (cmp : Nat → Nat → Int) (refused : List Bool → Bool) (m : OrdMap) :
    List Segment → List (List Out) × OrdMap
  | [] => ([], m)
  | .calls ops :: rest =>
    let r := run cmp m (ops.map fun p => (p.1, refused p.2))
    let rs := runSession cmp refused r.2 rest
    (apiOuts (ops.map (·.1)) r.1 :: rs.1, rs.2)
  | .iterate prog :: rest =>
    let r := (OrdMap.Cursor.init m).run m prog
    let rs := runSession cmp refused r.2.2 rest
    (r.1.map (fun o => { st := o.st, val := o.val }) :: rs.1, rs.2)

end CC.Spec.OrdSet
