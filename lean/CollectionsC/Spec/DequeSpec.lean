import CollectionsC.Base.Status
/-! Abstract spec of `CC_Deque` (properties C05, C07, C15, C16): an ideal double-ended sequence is a
plain `List Nat`, index `i` is the `i`-th element from the front.  Every operation returns its status
(where the C function has one), its out-value and the new list.  Rejected calls return the list
unchanged.  Allocation refusals are not part of the ideal list; the driver/`step` overlay them. -/
namespace CC.Spec.DequeSpec

abbrev Seq := List Nat

def addFirst (l : Seq) (x : Nat) : Seq := x :: l
def addLast (l : Seq) (x : Nat) : Seq := l ++ [x]

/-- insert before position `i`; the documented range is `[0, size)` (use `addLast` to append) -/
def addAt (l : Seq) (x i : Nat) : Stat × Seq :=
  if i < l.length then (.ok, l.insertIdx i x) else (.errOutOfRange, l)

def replaceAt (l : Seq) (x i : Nat) : Stat × Option Nat × Seq :=
  if h : i < l.length then (.ok, some l[i], l.set i x) else (.errOutOfRange, none, l)

def removeAt (l : Seq) (i : Nat) : Stat × Option Nat × Seq :=
  if h : i < l.length then (.ok, some l[i], l.eraseIdx i) else (.errOutOfRange, none, l)

def removeFirst (l : Seq) : Stat × Option Nat × Seq :=
  match l with
  | [] => (.errOutOfRange, none, [])
  | x :: xs => (.ok, some x, xs)

def removeLast (l : Seq) : Stat × Option Nat × Seq :=
  match l.getLast? with
  | none => (.errOutOfRange, none, l)
  | some x => (.ok, some x, l.dropLast)

/-- position of the first occurrence -/
def indexOf (l : Seq) (x : Nat) : Stat × Option Nat :=
  match l.findIdx? (· == x) with
  | none => (.errOutOfRange, none)
  | some i => (.ok, some i)

/-- remove the first occurrence of a value -/
def remove (l : Seq) (x : Nat) : Stat × Option Nat × Seq :=
  match l.findIdx? (· == x) with
  | none => (.errOutOfRange, none, l)
  | some i => (.ok, some x, l.eraseIdx i)

def getAt (l : Seq) (i : Nat) : Stat × Option Nat :=
  match l[i]? with
  | none => (.errOutOfRange, none)
  | some x => (.ok, some x)

def getFirst (l : Seq) : Stat × Option Nat := getAt l 0
def getLast (l : Seq) : Stat × Option Nat :=
  match l.getLast? with
  | none => (.errOutOfRange, none)
  | some x => (.ok, some x)

def contains (l : Seq) (x : Nat) : Nat := l.count x
/-- number of elements equal to `x` under an equivalence given as a comparator (`cmp a b = 0`) -/
def containsValue (l : Seq) (x : Nat) (eqv : Nat → Nat → Bool) : Nat := (l.filter fun y => eqv y x).length

/-- in-place filter; the C function rejects an empty deque -/
def filterMut (l : Seq) (p : Nat → Bool) : Stat × Seq :=
  if l.isEmpty then (.errOutOfRange, l) else (.ok, l.filter p)

/-- non-mutating filter: a new sequence; rejected (no object) on an empty source -/
def filter (l : Seq) (p : Nat → Bool) : Stat × Option Seq :=
  if l.isEmpty then (.errOutOfRange, none) else (.ok, some (l.filter p))

def copyShallow (l : Seq) : Seq := l
def copyDeep (l : Seq) (cp : Nat → Nat) : Seq := l.map cp

/-! ## ideal cursor (C07): `pos` elements have been yielded/passed, `removed` = the last yielded
element was already removed through the cursor -/
structure Cur where
  pos : Nat := 0
  removed : Bool := false
  deriving Repr, DecidableEq

def curNext (l : Seq) (c : Cur) : Stat × Option Nat × Cur :=
  match l[c.pos]? with
  | none => (.iterEnd, none, c)
  | some x => (.ok, some x, { pos := c.pos + 1, removed := false })

/-- remove the element yielded last (position `pos - 1`) -/
def curRemove (l : Seq) (c : Cur) : Stat × Option Nat × Seq × Cur :=
  if c.removed then (.errValueNotFound, none, l, c) else
  if c.pos = 0 then (.errOutOfRange, none, l, c) else
  match l[c.pos - 1]? with
  | none => (.errOutOfRange, none, l, c)
  | some x => (.ok, some x, l.eraseIdx (c.pos - 1), { pos := c.pos - 1, removed := true })

/-- insert directly after the element yielded last, i.e. at position `pos` -/
def curAdd (l : Seq) (c : Cur) (x : Nat) : Stat × Seq × Cur :=
  if c.pos ≤ l.length then (.ok, l.insertIdx c.pos x, { c with pos := c.pos + 1 })
  else (.errOutOfRange, l, c)

/-- replace the element yielded last -/
def curReplace (l : Seq) (c : Cur) (x : Nat) : Stat × Option Nat × Seq :=
  if c.pos = 0 then (.errOutOfRange, none, l) else replaceAt l x (c.pos - 1)

/-- zip cursor over two sequences: lock-step, stops at the shorter one -/
def zipNext (l1 l2 : Seq) (c : Cur) : Stat × Option (Nat × Nat) × Cur :=
  match l1[c.pos]?, l2[c.pos]? with
  | some x, some y => (.ok, some (x, y), { pos := c.pos + 1, removed := false })
  | _, _ => (.iterEnd, none, c)

def zipRemove (l1 l2 : Seq) (c : Cur) : Stat × Option (Nat × Nat) × Seq × Seq × Cur :=
  if c.removed then (.errValueNotFound, none, l1, l2, c) else
  if c.pos = 0 then (.errOutOfRange, none, l1, l2, c) else
  match l1[c.pos - 1]?, l2[c.pos - 1]? with
  | some x, some y => (.ok, some (x, y), l1.eraseIdx (c.pos - 1), l2.eraseIdx (c.pos - 1),
                        { pos := c.pos - 1, removed := true })
  | _, _ => (.errOutOfRange, none, l1, l2, c)

/-- pair insertion at position `pos`; offered only while both sequences still have an element at
`pos` (the C function documents no insertion behind the end of the shorter deque) -/
def zipAdd (l1 l2 : Seq) (c : Cur) (x y : Nat) : Stat × Seq × Seq × Cur :=
  if c.pos < l1.length ∧ c.pos < l2.length then
    (.ok, l1.insertIdx c.pos x, l2.insertIdx c.pos y, { c with pos := c.pos + 1 })
  else (.errOutOfRange, l1, l2, c)

def zipReplace (l1 l2 : Seq) (c : Cur) (x y : Nat) : Stat × Option (Nat × Nat) × Seq × Seq :=
  if c.pos = 0 then (.errOutOfRange, none, l1, l2) else
  match l1[c.pos - 1]?, l2[c.pos - 1]? with
  | some a, some b => (.ok, some (a, b), l1.set (c.pos - 1) x, l2.set (c.pos - 1) y)
  | _, _ => (.errOutOfRange, none, l1, l2)

/-! ## zip cursor over one and the same sequence (the caller passed the same container twice): the one
sequence is threaded through both halves of each call, first half first -/

def zipNextSelf (l : Seq) (c : Cur) : Stat × Option (Nat × Nat) × Cur :=
  match l[c.pos]? with
  | some x => (.ok, some (x, x), { pos := c.pos + 1, removed := false })
  | none => (.iterEnd, none, c)

/-- removes the element yielded last and then — in the shortened sequence — the element at the same
position, if there is one -/
def zipRemoveSelf (l : Seq) (c : Cur) : Stat × Option Nat × Option Nat × Seq × Cur :=
  if c.removed then (.errValueNotFound, none, none, l, c) else
  if c.pos = 0 then (.errOutOfRange, none, none, l, c) else
  match l[c.pos - 1]? with
  | none => (.errOutOfRange, none, none, l, c)
  | some x =>
    let l1 := l.eraseIdx (c.pos - 1)
    (.ok, some x, l1[c.pos - 1]?, l1.eraseIdx (c.pos - 1), { pos := c.pos - 1, removed := true })

/-- inserts `x` and then `y` at the cursor position: the sequence reads `…, y, x, …` there afterwards -/
def zipAddSelf (l : Seq) (c : Cur) (x y : Nat) : Stat × Seq × Cur :=
  if c.pos < l.length then (.ok, (l.insertIdx c.pos x).insertIdx c.pos y, { c with pos := c.pos + 1 })
  else (.errOutOfRange, l, c)

def zipReplaceSelf (l : Seq) (c : Cur) (x y : Nat) : Stat × Option Nat × Option Nat × Seq :=
  if c.pos = 0 then (.errOutOfRange, none, none, l) else
  match l[c.pos - 1]? with
  | none => (.errOutOfRange, none, none, l)
  | some a => (.ok, some a, some x, l.set (c.pos - 1) y)

end CC.Spec.DequeSpec
