import CollectionsC.Base.Status
/-! Abstract specs of the two pool allocators (properties C12, C13).

A pool is described by the list of the blocks that are *live*: handed out since the last reset
and not rolled back (newest first), plus one roll-back slot (`undo`): only the most recent
successful allocation can be given back, once.  Addresses are offsets relative to the start of the
region (static pool) / of the page payload (dynamic pool).  The region content is a byte list so
that "calloc returns zeroed bytes" can be said. -/
namespace CC.Spec

/-- total length of a list of `(offset, length)` blocks -/
def blocksLen : List (Nat × Nat) → Nat
  | [] => 0
  | b :: bs => b.2 + blocksLen bs

/-- `bytes[off .. off+n) := v` (positions outside the list are ignored) -/
def fillBytes (bytes : List Nat) (off n v : Nat) : List Nat :=
  (List.range bytes.length).map fun j => if off ≤ j ∧ j < off + n then v else bytes.getD j 0

@[simp] theorem length_fillBytes (b : List Nat) (off n v : Nat) : (fillBytes b off n v).length = b.length := by
  simp [fillBytes]

theorem getD_fillBytes (b : List Nat) (off n v j : Nat) (hj : j < b.length) :
    (fillBytes b off n v).getD j 0 = if off ≤ j ∧ j < off + n then v else b.getD j 0 := by
  simp [fillBytes, List.getD_eq_getElem?_getD, hj]

theorem fillBytes_zero_len (b : List Nat) (off v : Nat) : fillBytes b off 0 v = b := by
  apply List.ext_getElem (by simp)
  intro j h1 h2
  have : ¬ (off ≤ j ∧ j < off) := by omega
  simp [fillBytes, List.getD_eq_getElem?_getD, this, h2]

/-- two blocks `(off, len)` share no byte -/
def disjoint (a b : Nat × Nat) : Prop := a.1 + a.2 ≤ b.1 ∨ b.1 + b.2 ≤ a.1

/-! ## Static pool -/

structure SPool where
  size   : Nat
  blocks : List (Nat × Nat)     -- live blocks `(offset, length)`, newest first
  undo   : Bool                 -- the newest live block can still be rolled back
  bytes  : List Nat             -- content of the region
  deriving Repr, DecidableEq

namespace SPool

def init (size : Nat) (bytes : List Nat) : SPool := { size, blocks := [], undo := false, bytes }

def used (s : SPool) : Nat := blocksLen s.blocks
def free (s : SPool) : Nat := s.size - s.used

/-- a request of `n` bytes: the block starts where the live blocks end -/
def malloc (s : SPool) (n : Nat) : Option Nat × SPool :=
  if n ≤ s.size - s.used then
    (some s.used, { s with blocks := (s.used, n) :: s.blocks, undo := true })
  else (none, s)

/-- a zero-initialised request of `count * size` bytes (the mathematical product) -/
def calloc (s : SPool) (count sz : Nat) : Option Nat × SPool :=
  if count * sz ≤ s.size - s.used then
    (some s.used, { s with blocks := (s.used, count * sz) :: s.blocks, undo := true,
                           bytes := fillBytes s.bytes s.used (count * sz) 0 })
  else (none, s)

/-- give a pointer back (`none` = NULL): only the newest block, only once -/
def release (s : SPool) (p : Option Nat) : SPool :=
  match s.undo, s.blocks, p with
  | true, b :: rest, some a => if a = b.1 then { s with blocks := rest, undo := false } else s
  | _, _, _ => s

def reset (s : SPool) : SPool := { s with blocks := [], undo := false }

/-- the user writes `v` into `n` bytes at `off` (used by the harness to dirty blocks) -/
def write (s : SPool) (off n v : Nat) : SPool := { s with bytes := fillBytes s.bytes off n v }

/-- the block at `off` of length `n` reads as zeros -/
def isZero (s : SPool) (off n : Nat) : Bool := (List.range n).all fun i => s.bytes.getD (off + i) 0 == 0

/-- well-formedness: the live blocks tile `[0, used)` in allocation order, and fit -/
def layout : List (Nat × Nat) → Prop
  | [] => True
  | b :: bs => b.1 = blocksLen bs ∧ layout bs

def WF (s : SPool) : Prop := layout s.blocks ∧ s.used ≤ s.size ∧ s.bytes.length = s.size

inductive Op where
  | malloc (n : Nat)
  | calloc (count sz : Nat)
  | release (p : Option Nat)
  | reset
  | write (off n v : Nat)
  deriving Repr, DecidableEq

/-- the returned pointer (`none` for NULL and for operations that return nothing) -/
def step (s : SPool) : Op → Option Nat × SPool
  | .malloc n => s.malloc n
  | .calloc c k => s.calloc c k
  | .release p => (none, s.release p)
  | .reset => (none, s.reset)
  | .write off n v => (none, s.write off n v)

def run (s : SPool) : List Op → List (Option Nat) × SPool
  | [] => ([], s)
  | op :: ops => let r := s.step op; let rs := run r.2 ops; (r.1 :: rs.1, rs.2)

end SPool
end CC.Spec
