import CollectionsC.Base.Status
/-! Abstract specs of the two pool allocators (properties C12, C13).

A pool is described by the list of the blocks that are *live*: handed out since the last reset
and not rolled back (newest first), plus one roll-back slot (`undo`): only the most recent
successful allocation can be given back, once.  Addresses are offsets relative to the start of the
region (static pool) / of the page payload (dynamic pool).  The region content is a byte list so
that "calloc returns zeroed bytes" can be said. -/
namespace CC.Spec

/-- total length of a list of `(offset, length)` blocks -/
def blocksLen : List (Nat × Nat) → Nat
  | [] => 0
  | b :: bs => b.2 + blocksLen bs

/-- `bytes[off .. off+n) := v` (positions outside the list are ignored) -/
def fillBytes (bytes : List Nat) (off n v : Nat) : List Nat :=
  (List.range bytes.length).map fun j => if off ≤ j ∧ j < off + n then v else bytes.getD j 0

@[simp] theorem length_fillBytes (b : List Nat) (off n v : Nat) : (fillBytes b off n v).length = b.length := by
  simp [fillBytes]

theorem getD_fillBytes (b : List Nat) (off n v j : Nat) (hj : j < b.length) :
    (fillBytes b off n v).getD j 0 = if off ≤ j ∧ j < off + n then v else b.getD j 0 := by
  simp [fillBytes, List.getD_eq_getElem?_getD, hj]

theorem fillBytes_zero_len (b : List Nat) (off v : Nat) : fillBytes b off 0 v = b := by
  apply List.ext_getElem (by simp)
  intro j h1 h2
  have : ¬ (off ≤ j ∧ j < off) := by omega
  simp [fillBytes, List.getD_eq_getElem?_getD, this, h2]

/-- one-pass implementation of `fillBytes` for compiled code (the definition looks every byte up by
index, which is quadratic in the region size); the compiler uses it through `@[csimp]` -/
def fillBytesFast (bytes : List Nat) (off n v : Nat) : List Nat :=
  bytes.zipIdx.map fun (x, j) => if off ≤ j ∧ j < off + n then v else x

@[csimp] theorem fillBytes_eq_fast : @fillBytes = @fillBytesFast := by
  funext bytes off n v
  apply List.ext_getElem
  · simp [fillBytes, fillBytesFast]
  · intro j h1 h2
    simp [fillBytes, fillBytesFast, List.getD_eq_getElem?_getD]
    have : j < bytes.length := by simpa [fillBytes] using h1
    simp [this]

/-- two blocks `(off, len)` share no byte -/
def disjoint (a b : Nat × Nat) : Prop := a.1 + a.2 ≤ b.1 ∨ b.1 + b.2 ≤ a.1

/-! ## Static pool -/

structure SPool where
  size   : Nat
  blocks : List (Nat × Nat)     -- live blocks `(offset, length)`, newest first
  undo   : Bool                 -- the newest live block can still be rolled back
  bytes  : List Nat             -- content of the region
  deriving Repr, DecidableEq

namespace SPool

def init (size : Nat) (bytes : List Nat) : SPool := { size, blocks := [], undo := false, bytes }

def used (s : SPool) : Nat := blocksLen s.blocks
def free (s : SPool) : Nat := s.size - s.used

/-- a request of `n` bytes: the block starts where the live blocks end -/
def malloc (s : SPool) (n : Nat) : Option Nat × SPool :=
  if n ≤ s.size - s.used then
    (some s.used, { s with blocks := (s.used, n) :: s.blocks, undo := true })
  else (none, s)

/-- a zero-initialised request of `count * size` bytes (the mathematical product) -/
def calloc (s : SPool) (count sz : Nat) : Option Nat × SPool :=
  if count * sz ≤ s.size - s.used then
    (some s.used, { s with blocks := (s.used, count * sz) :: s.blocks, undo := true,
                           bytes := fillBytes s.bytes s.used (count * sz) 0 })
  else (none, s)

/-- give a pointer back (`none` = NULL): only the newest block, only once -/
def release (s : SPool) (p : Option Nat) : SPool :=
  match s.undo, s.blocks, p with
  | true, b :: rest, some a => if a = b.1 then { s with blocks := rest, undo := false } else s
  | _, _, _ => s

def reset (s : SPool) : SPool := { s with blocks := [], undo := false }

/-- the user writes `v` into `n` bytes at `off` (used by the harness to dirty blocks) -/
def write (s : SPool) (off n v : Nat) : SPool := { s with bytes := fillBytes s.bytes off n v }

/-- the block at `off` of length `n` reads as zeros -/
def isZero (s : SPool) (off n : Nat) : Bool := (List.range n).all fun i => s.bytes.getD (off + i) 0 == 0

/-- well-formedness: the live blocks tile `[0, used)` in allocation order, and fit -/
def layout : List (Nat × Nat) → Prop
  | [] => True
  | b :: bs => b.1 = blocksLen bs ∧ layout bs

def WF (s : SPool) : Prop := layout s.blocks ∧ s.used ≤ s.size ∧ s.bytes.length = s.size

inductive Op where
  | malloc (n : Nat)
  | calloc (count sz : Nat)
  | release (p : Option Nat)
  | reset
  | write (off n v : Nat)
  deriving Repr, DecidableEq

/-- the returned pointer (`none` for NULL and for operations that return nothing) -/
def step (s : SPool) : Op → Option Nat × SPool
  | .malloc n => s.malloc n
  | .calloc c k => s.calloc c k
  | .release p => (none, s.release p)
  | .reset => (none, s.reset)
  | .write off n v => (none, s.write off n v)

def run (s : SPool) : List Op → List (Option Nat) × SPool
  | [] => ([], s)
  | op :: ops => let r := s.step op; let rs := run r.2 ops; (r.1 :: rs.1, rs.2)

end SPool

/-! ## Dynamic pool

A list of pages (newest first).  Every page has a payload size, its content, and the blocks that
are live in it (newest first).  A block is `(off, len, span)`: `len` bytes were requested, `span`
bytes are reserved (`len` rounded up to the alignment boundary in padded mode).  Only the newest
page takes new blocks; a pointer is `(page index counted from the oldest, offset)`. -/

structure PBlk where
  off  : Nat
  len  : Nat
  span : Nat
  deriving Repr, DecidableEq

structure PPage where
  size   : Nat
  bytes  : List Nat
  blocks : List PBlk       -- live blocks of this page, newest first
  deriving Repr, DecidableEq

def spanLen : List PBlk → Nat
  | [] => 0
  | b :: bs => b.span + spanLen bs

def pagesSize : List PPage → Nat
  | [] => 0
  | p :: ps => p.size + pagesSize ps

/-- bytes reserved after a block of `n` bytes: nothing in packed mode or for boundaries ≤ 1,
otherwise what is missing to the next multiple of the boundary -/
def padOf (packed : Bool) (ab n : Nat) : Nat :=
  if !packed && ab > 1 then (if n % ab ≠ 0 then ab - n % ab else 0) else 0

/-- the largest page payload: payload plus page header must be a representable byte count
(`SIZE_MAX - sizeof(PageInfo)`); larger pools are rejected, larger pages are never added -/
def pageLimit : Nat := 2 ^ 64 - 1 - 16

structure DPool where
  fixed  : Bool
  packed : Bool
  ab     : Nat
  pages  : List PPage      -- newest first
  undo   : Bool            -- the newest live block of the newest page can still be rolled back
  deriving Repr, DecidableEq

namespace DPool

def init (size : Nat) (fixed packed : Bool) (ab : Nat) (bytes : List Nat) : DPool :=
  { fixed, packed, ab, pages := [{ size, bytes, blocks := [] }], undo := false }

def top (s : DPool) : PPage := s.pages.headD { size := 0, bytes := [], blocks := [] }
def topUsed (s : DPool) : Nat := spanLen s.top.blocks
/-- as the library counts: earlier pages in full, plus what is reserved in the newest page -/
def used (s : DPool) : Nat := s.topUsed + pagesSize s.pages.tail
def free (s : DPool) : Nat := s.top.size - s.topUsed

def pushBlock (s : DPool) (b : PBlk) : DPool :=
  match s.pages with
  | p :: ps => { s with pages := { p with blocks := b :: p.blocks } :: ps, undo := true }
  | [] => s

/-- `grow` is the page-size law (`floor (top size × expansion factor)` in the library), `fresh` the
content of a new page, `refused` says that the allocator refuses the page if one is requested -/
def malloc (grow : Nat → Nat) (fresh : Nat) (s : DPool) (n : Nat) (refused : Bool) : Option (Nat × Nat) × DPool :=
  if n ≥ s.top.size then (none, s) else
  let span := n + padOf s.packed s.ab n
  if span ≤ s.top.size - s.topUsed then
    (some (s.pages.length - 1, s.topUsed), s.pushBlock ⟨s.topUsed, n, span⟩)
  else if s.fixed || span > grow s.top.size then (none, s)
  else if grow s.top.size > pageLimit then (none, s)
  else if refused then (none, s)
  else
    let pg : PPage := { size := grow s.top.size, bytes := List.replicate (grow s.top.size) fresh, blocks := [⟨0, n, span⟩] }
    (some (s.pages.length, 0), { s with pages := pg :: s.pages, undo := true })

/-- `v` is stored into `n` bytes at offset `off` of the newest page -/
def fillTop (s : DPool) (off n v : Nat) : DPool :=
  match s.pages with
  | p :: ps => { s with pages := { p with bytes := fillBytes p.bytes off n v } :: ps }
  | [] => s

def calloc (grow : Nat → Nat) (fresh : Nat) (s : DPool) (count sz : Nat) (refused : Bool) : Option (Nat × Nat) × DPool :=
  let r := malloc grow fresh s (count * sz) refused
  match r.1 with
  | some p => (some p, r.2.fillTop p.2 (count * sz) 0)
  | none => (none, r.2)

/-- give a pointer back: only the newest block of the newest page, only once -/
def release (s : DPool) (p : Option (Nat × Nat)) : DPool :=
  match s.undo, s.pages, p with
  | true, pg :: ps, some a =>
    match pg.blocks with
    | b :: rest => if a = (ps.length, b.off) then { s with pages := { pg with blocks := rest } :: ps, undo := false } else s
    | [] => s
  | _, _, _ => s

/-- one page is left: the oldest, with no live block -/
def reset (s : DPool) : DPool :=
  match s.pages.getLast? with
  | some p => { s with pages := [{ p with blocks := [] }], undo := false }
  | none => s

/-- the user writes into the newest page (the harness dirties each block right after it got it) -/
def write (s : DPool) (off n v : Nat) : DPool := s.fillTop off n v

def isZero (s : DPool) (off n : Nat) : Bool :=
  (List.range n).all fun i => s.top.bytes.getD (off + i) 0 == 0

/-- blocks of one page tile `[0, spanLen)`, each request fits its reservation -/
def layout : List PBlk → Prop
  | [] => True
  | b :: bs => b.off = spanLen bs ∧ b.len ≤ b.span ∧ layout bs

def pageWF (ab : Nat) (packed : Bool) (p : PPage) : Prop :=
  layout p.blocks ∧ spanLen p.blocks ≤ p.size ∧ p.bytes.length = p.size ∧
  (packed = false → 0 < ab → ∀ b ∈ p.blocks, b.off % ab = 0 ∧ b.span % ab = 0)

def WF (s : DPool) : Prop :=
  s.pages ≠ [] ∧ (∀ p ∈ s.pages, pageWF s.ab s.packed p) ∧ (s.fixed = true → s.pages.length = 1)

inductive Op where
  | malloc (n : Nat) (refused : Bool)
  | calloc (count sz : Nat) (refused : Bool)
  | release (p : Option (Nat × Nat))
  | reset
  | write (off n v : Nat)
  deriving Repr, DecidableEq

def step (grow : Nat → Nat) (fresh : Nat) (s : DPool) : Op → Option (Nat × Nat) × DPool
  | .malloc n r => malloc grow fresh s n r
  | .calloc c k r => calloc grow fresh s c k r
  | .release p => (none, s.release p)
  | .reset => (none, s.reset)
  | .write off n v => (none, s.write off n v)

def run (grow : Nat → Nat) (fresh : Nat) (s : DPool) : List Op → List (Option (Nat × Nat)) × DPool
  | [] => ([], s)
  | op :: ops => let r := step grow fresh s op; let rs := run grow fresh r.2 ops; (r.1 :: rs.1, rs.2)

end DPool
end CC.Spec
