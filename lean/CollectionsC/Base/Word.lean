/-! Index arithmetic normal forms: `%` by a variable capacity rewritten to if-then-else so that
`omega` can finish; `&&& (2^k - 1)` rewritten to `%`. -/
namespace CC

theorem mod_wrap {x c : Nat} (h : x < 2 * c) : x % c = if x < c then x else x - c := by
  split
  · exact Nat.mod_eq_of_lt ‹_›
  · rename_i h2
    have h3 : c ≤ x := Nat.le_of_not_lt h2
    rw [Nat.mod_eq_sub_mod h3]
    exact Nat.mod_eq_of_lt (by omega)

theorem and_mask_eq_mod (x k : Nat) : x &&& (2 ^ k - 1) = x % 2 ^ k :=
  Nat.and_two_pow_sub_one_eq_mod x k

/-- `(x - 1) & (c - 1)` with C's unsigned wrap-around at `x = 0`, for `c = 2^k ≤ 2^64`. -/
def decMask (x c : Nat) : Nat := if x = 0 then c - 1 else (x - 1) % c

end CC

namespace CC
/-- the facts `omega` needs about `x % c` when `x < 2c`: treat `x % c` as an atom afterwards -/
theorem mod_cases {x c : Nat} (h : x < 2 * c) :
    (x % c = x ∧ x < c) ∨ (x % c + c = x ∧ c ≤ x) := by
  have := @mod_wrap x c h
  split at this <;> omega
end CC
