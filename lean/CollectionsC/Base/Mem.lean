/-! Allocation ledger threaded through every model operation.

`sched` holds the outcomes of the next allocator calls (`true` = refuse, `[]` = succeed);
`live` counts blocks owned through the configured triple; `nalloc/nfree/nrefused` count the
events of the current operation (reset by the driver before each op); `libc` counts events
that went through the C library allocator instead of the configured triple; `fault` is a
sticky flag set by a checked access outside the allocated slots or a free with nothing live. -/
namespace CC

structure Mem where
  sched    : List Bool := []
  live     : Nat := 0
  nalloc   : Nat := 0
  nfree    : Nat := 0
  nrefused : Nat := 0
  libc     : Nat := 0
  fault    : Bool := false
  deriving Repr, DecidableEq

namespace Mem

/-- one allocator call through the configured triple -/
def alloc (m : Mem) : Bool × Mem :=
  match m.sched with
  | true :: rest  => (false, { m with sched := rest, nrefused := m.nrefused + 1 })
  | false :: rest => (true,  { m with sched := rest, live := m.live + 1, nalloc := m.nalloc + 1 })
  | []            => (true,  { m with live := m.live + 1, nalloc := m.nalloc + 1 })

/-- one release through the configured triple -/
def free (m : Mem) : Mem :=
  if m.live = 0 then { m with fault := true }
  else { m with live := m.live - 1, nfree := m.nfree + 1 }

/-- a checked access: faults when the condition is false -/
def check (m : Mem) (b : Bool) : Mem := if b then m else { m with fault := true }

/-- start of a new operation: event counters cleared, schedule installed -/
def begin (m : Mem) (sched : List Bool) : Mem :=
  { m with sched := sched, nalloc := 0, nfree := 0, nrefused := 0 }

@[simp] theorem check_true (m : Mem) : m.check true = m := rfl
@[simp] theorem check_fault (m : Mem) (b : Bool) : (m.check b).fault = (m.fault || !b) := by
  cases b <;> simp [check]
@[simp] theorem check_live (m : Mem) (b : Bool) : (m.check b).live = m.live := by
  cases b <;> simp [check]
@[simp] theorem check_libc (m : Mem) (b : Bool) : (m.check b).libc = m.libc := by
  cases b <;> simp [check]
@[simp] theorem check_sched (m : Mem) (b : Bool) : (m.check b).sched = m.sched := by
  cases b <;> simp [check]

theorem alloc_fst_false (m : Mem) (h : m.alloc.1 = false) :
    m.alloc.2.live = m.live ∧ m.alloc.2.fault = m.fault ∧ m.alloc.2.libc = m.libc := by
  unfold alloc at *; split <;> simp_all

theorem alloc_fst_true (m : Mem) (h : m.alloc.1 = true) :
    m.alloc.2.live = m.live + 1 ∧ m.alloc.2.fault = m.fault ∧ m.alloc.2.libc = m.libc := by
  unfold alloc at *; split <;> simp_all

/-- with an empty schedule the allocator never refuses -/
theorem alloc_nil (m : Mem) (h : m.sched = []) : m.alloc.1 = true ∧ m.alloc.2.sched = [] := by
  unfold alloc; simp [h]

end Mem
end CC
