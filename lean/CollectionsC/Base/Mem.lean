/-! Allocation ledger threaded through every model operation.

`sched` holds the outcomes of the next allocator calls (`true` = refuse, `[]` = succeed);
`live` counts blocks owned through the configured triple; `nalloc/nfree/nrefused` count the
events of the current operation (reset by the driver before each op); `libc` counts events
that went through the C library allocator instead of the configured triple; `fault` is a
sticky flag set by a checked access outside the allocated slots or a free with nothing live. -/
namespace CC

structure Mem where
  sched    : List Bool := []
  live     : Nat := 0
  nalloc   : Nat := 0
  nfree    : Nat := 0
  nrefused : Nat := 0
  libc     : Nat := 0
  fault    : Bool := false
  liveLibc : Nat := 0        -- blocks currently owned through the C library allocator
  lalloc   : Nat := 0        -- C-library allocations of the current operation
  lfree    : Nat := 0        -- C-library releases of the current operation
  deriving Repr, DecidableEq

/-- which allocator triple a container was given: the configured one (`*_new_conf` with the caller's
`mem_alloc/mem_calloc/mem_free`) or the C library's `malloc/calloc/free` (the default constructors).
A container copies the triple from its configuration and must use it for everything it allocates,
including derived containers; a model function that mirrored a call to a default constructor inside
the library (the repaired defects D10, L4, S1, Q3) would pass `.libc` here. -/
inductive Triple where
  | conf
  | libc
  deriving Repr, DecidableEq, Inhabited

namespace Mem

/-- one allocator call through the configured triple -/
def alloc (m : Mem) : Bool × Mem :=
  match m.sched with
  | true :: rest  => (false, { m with sched := rest, nrefused := m.nrefused + 1 })
  | false :: rest => (true,  { m with sched := rest, live := m.live + 1, nalloc := m.nalloc + 1 })
  | []            => (true,  { m with live := m.live + 1, nalloc := m.nalloc + 1 })

/-- one release through the configured triple -/
def free (m : Mem) : Mem :=
  if m.live = 0 then { m with fault := true }
  else { m with live := m.live - 1, nfree := m.nfree + 1 }

/-- one allocator call through the given triple.  C-library calls are never refused by the
schedule (the harness only injects failures into the configured allocator) and are counted
separately (`libc`, `lalloc`, `liveLibc`). -/
def allocT (m : Mem) (t : Triple) : Bool × Mem :=
  match t with
  | .conf => m.alloc
  | .libc => (true, { m with libc := m.libc + 1, lalloc := m.lalloc + 1, liveLibc := m.liveLibc + 1 })

/-- one release through the given triple -/
def freeT (m : Mem) (t : Triple) : Mem :=
  match t with
  | .conf => m.free
  | .libc =>
    if m.liveLibc = 0 then { m with fault := true }
    else { m with libc := m.libc + 1, lfree := m.lfree + 1, liveLibc := m.liveLibc - 1 }

/-- number of live blocks obtained through triple `t` (shared definition; do not redefine it) -/
def liveT (m : Mem) : Triple → Nat
  | .conf => m.live
  | .libc => m.liveLibc

@[simp] theorem allocT_conf (m : Mem) : m.allocT .conf = m.alloc := rfl
@[simp] theorem freeT_conf (m : Mem) : m.freeT .conf = m.free := rfl

/-- a checked access: faults when the condition is false -/
def check (m : Mem) (b : Bool) : Mem := if b then m else { m with fault := true }

/-- start of a new operation: event counters cleared, schedule installed -/
def begin (m : Mem) (sched : List Bool) : Mem :=
  { m with sched := sched, nalloc := 0, nfree := 0, nrefused := 0, lalloc := 0, lfree := 0 }

@[simp] theorem check_true (m : Mem) : m.check true = m := rfl
@[simp] theorem check_fault (m : Mem) (b : Bool) : (m.check b).fault = (m.fault || !b) := by
  cases b <;> simp [check]
@[simp] theorem check_live (m : Mem) (b : Bool) : (m.check b).live = m.live := by
  cases b <;> simp [check]
@[simp] theorem check_libc (m : Mem) (b : Bool) : (m.check b).libc = m.libc := by
  cases b <;> simp [check]
@[simp] theorem check_sched (m : Mem) (b : Bool) : (m.check b).sched = m.sched := by
  cases b <;> simp [check]

theorem alloc_fst_false (m : Mem) (h : m.alloc.1 = false) :
    m.alloc.2.live = m.live ∧ m.alloc.2.fault = m.fault ∧ m.alloc.2.libc = m.libc := by
  unfold alloc at *; split <;> simp_all

theorem alloc_fst_true (m : Mem) (h : m.alloc.1 = true) :
    m.alloc.2.live = m.live + 1 ∧ m.alloc.2.fault = m.fault ∧ m.alloc.2.libc = m.libc := by
  unfold alloc at *; split <;> simp_all

theorem alloc_keeps_libc (m : Mem) : m.alloc.2.libc = m.libc ∧ m.alloc.2.liveLibc = m.liveLibc := by
  unfold alloc; split <;> exact ⟨rfl, rfl⟩

theorem free_keeps_libc (m : Mem) : m.free.libc = m.libc ∧ m.free.liveLibc = m.liveLibc := by
  unfold free; split <;> exact ⟨rfl, rfl⟩

/-- a C-library allocation is visible in the `libc` event counter: the counter is not vacuous -/
theorem allocT_libc_counts (m : Mem) : (m.allocT .libc).2.libc = m.libc + 1 := rfl

/-- with an empty schedule the allocator never refuses -/
theorem alloc_nil (m : Mem) (h : m.sched = []) : m.alloc.1 = true ∧ m.alloc.2.sched = [] := by
  unfold alloc; simp [h]

end Mem
end CC
