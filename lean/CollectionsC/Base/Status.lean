import CollectionsC.Generated.Constants
/-! `enum cc_stat` as an inductive; the numeric codes come from the generated constants,
so `code_injective` is re-checked against the current `cc_common.h` on every build. -/
namespace CC

inductive Stat where
  | ok | errAlloc | errInvalidCapacity | errInvalidRange | errMaxCapacity
  | errKeyNotFound | errValueNotFound | errOutOfRange | iterEnd
  deriving DecidableEq, Repr, Inhabited

def Stat.code : Stat → Nat
  | .ok => Gen.CC_OK
  | .errAlloc => Gen.CC_ERR_ALLOC
  | .errInvalidCapacity => Gen.CC_ERR_INVALID_CAPACITY
  | .errInvalidRange => Gen.CC_ERR_INVALID_RANGE
  | .errMaxCapacity => Gen.CC_ERR_MAX_CAPACITY
  | .errKeyNotFound => Gen.CC_ERR_KEY_NOT_FOUND
  | .errValueNotFound => Gen.CC_ERR_VALUE_NOT_FOUND
  | .errOutOfRange => Gen.CC_ERR_OUT_OF_RANGE
  | .iterEnd => Gen.CC_ITER_END

def Stat.all : List Stat :=
  [.ok, .errAlloc, .errInvalidCapacity, .errInvalidRange, .errMaxCapacity,
   .errKeyNotFound, .errValueNotFound, .errOutOfRange, .iterEnd]

/-- The status codes of the C header are pairwise distinct and `CC_OK` is 0. -/
theorem Stat.code_injective : ∀ a ∈ Stat.all, ∀ b ∈ Stat.all, a.code = b.code → a = b := by
  decide

theorem Stat.code_ok : Stat.ok.code = 0 := by decide

end CC
