import CollectionsC.Base.Buf
import CollectionsC.Base.Mem
/-! HAND-WRITTEN prelude of the modules `Generated/Funcs*.lean` (one per C file, regenerated on every build by
`tools/gen_funcs.py`): the arithmetic of `size_t`, byte pointers, `memset`, block ids.

The generated modules hold whole functions translated from the C text statement by statement
(see tools/gen_funcs.py for the rules, and for what is still ignored).  A struct is a record with all its
fields; a function takes a record where the C function takes a struct pointer and returns (return value,
out-parameters as `Option`, the struct parameters it may modify, the ledger `Mem` if it allocates,
`fault`).  `fault` is true when the C execution would have had undefined behaviour (array index out of
range, `/ 0`, `% 0`, `int` overflow, NULL / out-of-region pointer use, NULL function pointer).  Only 64-bit
unsigned integers (`Nat`, wrapping at 2^64) and `int` are translated.  `Properties/C19Gen.lean` and
`C12Gen.lean` prove that under the invariant each definition is fault-free and agrees with the model. -/
set_option linter.unusedVariables false
namespace CC.GenF
/-- `a - b` on `size_t` (unsigned wrap-around; the convention of `Generated/Guards.lean`) -/
def wsub (a b : Nat) : Nat := if b ≤ a then a - b else 2^64 + a - b
/-- `a + b` on `size_t` -/
def wadd (a b : Nat) : Nat := (a + b) % 2^64
/-- `a * b` on `size_t` -/
def wmul (a b : Nat) : Nat := (a * b) % 2^64
/-- `a << b` on `size_t` (the bits shifted out are lost) -/
def wshl (a b : Nat) : Nat := (a <<< b) % 2^64
/-- `~a` on `size_t` -/
def wnot (a : Nat) : Nat := 2^64 - 1 - a % 2^64
/-- `(size_t) i` for an `int` (also the implicit conversion when an `int` meets a `size_t`) -/
def castSizeT (i : Int) : Nat := (i % 2^64).toNat
/-- the value is representable in `int` (otherwise the signed operation overflowed: undefined) -/
def intOk (i : Int) : Bool := decide (-2^31 ≤ i ∧ i < 2^31)
/-- a byte pointer: `none` is NULL, `some a` is the address `a` -/
abbrev Ptr := Option Nat
/-- `p + n` -/
def padd : Ptr → Nat → Ptr
  | some a, n => some (a + n)
  | none, _ => none
/-- `p + n` is defined: `p` is not NULL and the result is at most one past the end of the memory -/
def paddOk : Ptr → Nat → Nat → Bool
  | some a, n, len => decide (a + n ≤ len)
  | none, _, _ => false
/-- `p - q` as a `size_t` -/
def pdiff : Ptr → Ptr → Nat
  | some a, some b => wsub a b
  | _, _ => 0
/-- `p - q` is defined: neither is NULL -/
def pdiffOk (p q : Ptr) : Bool := p.isSome && q.isSome
/-- `memset(p, v, n)` on the memory -/
def memsetBytes (bytes : List Nat) (p : Ptr) (v n : Nat) : List Nat :=
  match p with
  | some a => (List.range bytes.length).map fun j => if a ≤ j ∧ j < a + n then v else bytes.getD j 0
  | none => bytes
/-- `memset(p, _, n)` is defined: `p` is not NULL and `[p, p+n)` lies inside the memory -/
def memsetOk (bytes : List Nat) (p : Ptr) (n : Nat) : Bool :=
  match p with
  | some a => decide (a + n ≤ bytes.length)
  | none => false
/-- a block id is dead: it was released earlier in this call (ghost; see tools/gen_funcs.py, "block identity") -/
def isDead (dead : List Nat) (id : Nat) : Bool := dead.contains id
end CC.GenF
