/-! Slot buffers: a `List` whose length is the number of *allocated* slots.
Total `get`/`set` with simp lemmas; `memmove`/`memcpy` with get-lemmas. -/
namespace CC

abbrev Buf (α : Type) := List α

namespace Buf
set_option linter.unusedSectionVars false
variable {α : Type} [Inhabited α]

def mk (n : Nat) : Buf α := List.replicate n default
def get (b : Buf α) (i : Nat) : α := b.getD i default
def put (b : Buf α) (i : Nat) (x : α) : Buf α := b.set i x

/-- `memmove(&b[dst], &b[src], n * sizeof slot)` -/
def memmove (b : Buf α) (dst src n : Nat) : Buf α :=
  (List.range b.length).map fun j => if dst ≤ j ∧ j < dst + n then b.get (j - dst + src) else b.get j

/-- `memcpy(&d[dst], &s[src], n * sizeof slot)` between different blocks -/
def memcpy (d : Buf α) (dst : Nat) (s : Buf α) (src n : Nat) : Buf α :=
  (List.range d.length).map fun j => if dst ≤ j ∧ j < dst + n then s.get (j - dst + src) else d.get j

@[simp] theorem length_mk (n : Nat) : (mk n : Buf α).length = n := by simp [mk]
@[simp] theorem length_put (b : Buf α) (i : Nat) (x : α) : (b.put i x).length = b.length := by simp [put]
@[simp] theorem length_memmove (b : Buf α) (d s n : Nat) : (b.memmove d s n).length = b.length := by
  simp [memmove]
@[simp] theorem length_memcpy (d : Buf α) (dst : Nat) (s : Buf α) (src n : Nat) :
    (d.memcpy dst s src n).length = d.length := by simp [memcpy]

theorem get_put (b : Buf α) (i j : Nat) (x : α) :
    (b.put i x).get j = if i = j ∧ i < b.length then x else b.get j := by
  simp only [get, put, List.getD_eq_getElem?_getD, List.getElem?_set]
  by_cases h : i = j
  · subst h; by_cases h2 : i < b.length <;> simp [h2]
  · simp [h]

@[simp] theorem get_put_eq (b : Buf α) (i : Nat) (x : α) (h : i < b.length) :
    (b.put i x).get i = x := by simp [get_put, h]

@[simp] theorem get_put_ne (b : Buf α) (i j : Nat) (x : α) (h : i ≠ j) :
    (b.put i x).get j = b.get j := by simp [get_put, h]

theorem get_mk (n i : Nat) : (mk n : Buf α).get i = default := by
  simp [get, mk, List.getD_eq_getElem?_getD, List.getElem?_replicate]
  split <;> rfl

theorem get_of_ge (b : Buf α) (i : Nat) (h : b.length ≤ i) : b.get i = default := by
  simp [get, List.getD_eq_getElem?_getD, List.getElem?_eq_none h]

theorem get_memmove (b : Buf α) (d s n j : Nat) (hj : j < b.length) :
    (b.memmove d s n).get j = if d ≤ j ∧ j < d + n then b.get (j - d + s) else b.get j := by
  simp [get, memmove, List.getD_eq_getElem?_getD, hj]

theorem get_memcpy (d : Buf α) (dst : Nat) (s : Buf α) (src n j : Nat) (hj : j < d.length) :
    (d.memcpy dst s src n).get j = if dst ≤ j ∧ j < dst + n then s.get (j - dst + src) else d.get j := by
  simp [get, memcpy, List.getD_eq_getElem?_getD, hj]

/-- the first `n` slots as a list -/
def firstN (b : Buf α) (n : Nat) : List α := (List.range n).map b.get

@[simp] theorem length_firstN (b : Buf α) (n : Nat) : (b.firstN n).length = n := by simp [firstN]

end Buf
end CC
