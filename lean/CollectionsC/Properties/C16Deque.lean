import CollectionsC.Properties.C06Deque
/-! # C16 (deque part) — rejected operations are inert, for every argument value

`size_t` arguments are modelled as ℕ, so "every index in the whole size_t domain" is "every `i : ℕ`"
(`size`, `size + 1`, `2^63`, `SIZE_MAX` are instances).  Documented range of every indexed deque function,
`add_at` included, is `[0, size)` (`add_at(size)` is rejected: append with `add_last`).  All statements
hold for every state satisfying `Deque.Inv`; most need no invariant at all. -/
namespace CC.Properties.C16Deque
open CC CC.Properties.C05

/-- **error_is_inert**: whenever an operation reports a status other than `CC_OK` — out of range, empty,
value not found, and also `CC_ERR_ALLOC` — the **whole physical state** of the deque is unchanged, and so is
the ledger (both balances, fault flag; the other triple untouched) -/
theorem error_is_inert (d : Deque) (m : Mem) (op : Op) (hi : d.Inv) (s : Stat)
    (hst : (stepM d m op).1.st = some s) (hne : s ≠ .ok) :
    (stepM d m op).2.1 = d ∧ Deque.memSame d.triple (stepM d m op).2.2 m := by
  refine ⟨?_, (C06Deque.step_safe d m op hi).2.1⟩
  have hra := refused_atomic d m
  cases op with
  | addFirst x =>
    simp only [stepM, Option.some.injEq] at hst ⊢
    exact ((hra x 0 hi).1 (by rw [hst]; exact hne)).1
  | addLast x =>
    simp only [stepM, Option.some.injEq] at hst ⊢
    exact ((hra x 0 hi).2.1 (by rw [hst]; exact hne)).1
  | addAt x i =>
    simp only [stepM, Option.some.injEq] at hst ⊢
    exact ((hra x i hi).2.2.1 (by rw [hst]; exact hne)).1
  | replaceAt x i =>
    simp only [stepM, Option.some.injEq] at hst ⊢
    rw [Deque.replaceAt_error_inert d x i m (by rw [hst]; exact hne)]
  | removeAt i =>
    simp only [stepM, Option.some.injEq] at hst ⊢
    rw [Deque.removeAt_error_inert d i m hi (by rw [hst]; exact hne)]
  | removeFirst =>
    simp only [stepM, Option.some.injEq] at hst ⊢
    rw [Deque.removeFirst_error_inert d m (by rw [hst]; exact hne)]
  | removeLast =>
    simp only [stepM, Option.some.injEq] at hst ⊢
    rw [Deque.removeLast_error_inert d m (by rw [hst]; exact hne)]
  | remove x =>
    simp only [stepM, Option.some.injEq] at hst ⊢
    exact (Deque.remove_spec d x m hi).2.2.2.2.2.2 (by rw [hst]; exact hne)
  | removeAll => simp [stepM] at hst
  | getAt i => rfl
  | getFirst => rfl
  | getLast => rfl
  | reverse => simp [stepM] at hst
  | filterMut p =>
    simp only [stepM, Option.some.injEq] at hst ⊢
    exact (Deque.filterMut_spec d p m hi).2.2.2.2.2 (by rw [hst]; exact hne)
  | trim =>
    simp only [stepM, Option.some.injEq] at hst ⊢
    exact ((hra 0 0 hi).2.2.2 (by rw [hst]; exact hne)).1
  | contains x => rfl
  | indexOf x => rfl
  | size => rfl
  | foreach => rfl
  | copySwap cp =>
    rcases Deque.copy_spec d cp m hi with ⟨n1, c, n2, _⟩ | ⟨_, n2, _⟩
    · simp only [stepM, n2, n1, Option.some.injEq] at hst
      exact absurd hst.symm hne
    · simp only [stepM, n2]

/-- **out_of_range_rejected**: every index outside `[0, size)` — in all of ℕ — is rejected by every
indexed function, and nothing at all changes (state and ledger) -/
theorem out_of_range_rejected (d : Deque) (m : Mem) (x i : Nat) (h : d.size ≤ i) :
    d.addAt x i m = (.errOutOfRange, d, m) ∧ d.replaceAt x i m = (.errOutOfRange, none, d, m) ∧
    d.removeAt i m = (.errOutOfRange, none, d, m) ∧ d.getAt i m = (.errOutOfRange, none, m) :=
  out_of_range_inert d m x i h

/-- and conversely every index inside the range is accepted (so the range is exactly `[0, size)`) -/
theorem in_range_accepted (d : Deque) (m : Mem) (x i : Nat) (hi : d.Inv) (h : i < d.size) :
    (d.replaceAt x i m).1 = .ok ∧ (d.removeAt i m).1 = .ok ∧ (d.getAt i m).1 = .ok := by
  have hl : i < d.abs.length := by simpa using h
  obtain ⟨r1, _⟩ := Deque.replaceAt_spec d x i m hi
  obtain ⟨q1, _⟩ := Deque.removeAt_spec d i m hi
  obtain ⟨g1, _⟩ := Deque.getAt_spec d i m hi
  unfold Spec.DequeSpec.replaceAt at r1
  unfold Spec.DequeSpec.removeAt at q1
  unfold Spec.DequeSpec.getAt at g1
  rw [dif_pos hl] at r1 q1
  rw [List.getElem?_eq_getElem hl] at g1
  exact ⟨r1, q1, g1⟩

/-- an absent value: `remove` and `index_of` report an error, the deque is unchanged -/
theorem absent_value_rejected (d : Deque) (m : Mem) (x : Nat) (hi : d.Inv) (h : x ∉ d.abs) :
    (d.remove x m).1 ≠ .ok ∧ (d.remove x m).2.2.1 = d ∧ (d.remove x m).2.2.2 = m ∧
    (d.indexOf x m).1 ≠ .ok ∧ (d.indexOf x m).2.2 = m := by
  have hnone : d.abs.findIdx? (· == x) = none := by
    rw [List.findIdx?_eq_none_iff]
    intro y hy
    have : ¬ y = x := fun e => h (e ▸ hy)
    simpa using this
  obtain ⟨r1, _, _, _, r5, _, r7⟩ := Deque.remove_spec d x m hi
  obtain ⟨i1, _, i3⟩ := Deque.indexOf_spec d x m hi
  unfold Spec.DequeSpec.remove at r1
  unfold Spec.DequeSpec.indexOf at i1
  rw [hnone] at r1 i1
  have hr : (d.remove x m).1 ≠ .ok := by rw [r1]; simp
  exact ⟨hr, r7 hr, r5, by rw [i1]; simp, i3⟩

/-- an empty deque: removal and lookup at the ends and `filter_mut`/`filter` report an error; state and
ledger unchanged, no object built -/
theorem empty_rejected (d : Deque) (m : Mem) (p : Nat → Bool) (h : d.size = 0) :
    d.removeFirst m = (.errOutOfRange, none, d, m) ∧ d.removeLast m = (.errOutOfRange, none, d, m) ∧
    d.getFirst m = (.errOutOfRange, none, m) ∧ d.getLast m = (.errOutOfRange, none, m) ∧
    d.filterMut p m = (.errOutOfRange, d, m) ∧ d.filter p m = (.errOutOfRange, none, m) := by
  refine ⟨?_, ?_, ?_, ?_, ?_, ?_⟩
  · unfold Deque.removeFirst; rw [if_pos h]
  · unfold Deque.removeLast; rw [if_pos h]
  · unfold Deque.getFirst; rw [if_pos h]
  · unfold Deque.getLast; rw [if_pos h]
  · unfold Deque.filterMut; rw [if_pos h]
  · unfold Deque.filter; rw [if_pos h]

/-- iterator mutators: any error (second removal, mutation before the first `next`, cursor beyond the
end) leaves the deque, the cursor and the ledger unchanged -/
theorem iterator_error_is_inert (it : Deque.Iter) (d : Deque) (x : Nat) (m : Mem) (hi : d.Inv) :
    ((Deque.iterRemove it d m).1 ≠ .ok → (Deque.iterRemove it d m).2.2.2.1 = d ∧
      (Deque.iterRemove it d m).2.2.1 = it ∧ (Deque.iterRemove it d m).2.2.2.2 = m) ∧
    ((Deque.iterReplace it d x m).1 ≠ .ok → Deque.iterReplace it d x m = (.errOutOfRange, none, d, m)) ∧
    ((Deque.iterAdd it d x m).1 ≠ .ok → (Deque.iterAdd it d x m).2.2.1 = d ∧ (Deque.iterAdd it d x m).2.1 = it ∧
      Deque.memSame d.triple (Deque.iterAdd it d x m).2.2.2 m) ∧
    (it.index = 0 → (Deque.iterRemove it d m).1 ≠ .ok ∧ (Deque.iterReplace it d x m).1 ≠ .ok) := by
  obtain ⟨_, _, _, _, _, r6, r7⟩ := Deque.iterRemove_spec it d m hi
  refine ⟨fun h => ⟨(r7 h).1, (r7 h).2, r6⟩, Deque.iterReplace_error_inert it d x m,
    fun h => ⟨((Deque.iterAdd_safe it d x m hi).2.2.1 h).1, ((Deque.iterAdd_safe it d x m hi).2.2.1 h).2,
      (Deque.iterAdd_safe it d x m hi).2.1⟩, fun h0 => ?_⟩
  obtain ⟨q1, _⟩ := Deque.iterRemove_spec it d m hi
  obtain ⟨p1, _⟩ := Deque.iterReplace_spec it d x m hi
  unfold Spec.DequeSpec.curRemove Deque.Iter.cur at q1
  unfold Spec.DequeSpec.curReplace Deque.Iter.cur at p1
  simp only [h0, if_true] at q1 p1
  refine ⟨?_, by rw [p1]; simp⟩
  rw [q1]; split <;> simp

/-- a cursor that stands beyond the deque — the deque was shortened directly (remove_last / remove_first /
remove_at / remove_all) behind a cursor that had already passed those elements — is outside the documented
range `[0, size]` of `cc_deque_iter_add`: the call is rejected (it does not append), and the deque, the cursor and
the ledger stay exactly as they were -/
theorem iter_add_beyond_size_rejected (it : Deque.Iter) (d : Deque) (x : Nat) (m : Mem)
    (hb : d.size < it.index) :
    Deque.iterAdd it d x m = (.errOutOfRange, it, d, m) := by
  unfold Deque.iterAdd
  rw [if_neg (by omega : ¬ it.index = d.size)]
  unfold Deque.addAt
  rw [if_pos (by omega : it.index ≥ d.size)]
  simp

/-- zip mutators: any error other than a refused growth leaves both deques physically unchanged, and the
cursor and ledger as they were; after a refused growth both contents and the cursor are unchanged -/
theorem zip_error_is_inert (it : Deque.Iter) (d1 d2 : Deque) (x y : Nat) (m : Mem) (h1 : d1.Inv) (h2 : d2.Inv) :
    ((Deque.zipRemove it d1 d2 m).1 ≠ .ok → (Deque.zipRemove it d1 d2 m).2.2.1 = it ∧
      (Deque.zipRemove it d1 d2 m).2.2.2.1 = d1 ∧ (Deque.zipRemove it d1 d2 m).2.2.2.2.1 = d2 ∧
      (Deque.zipRemove it d1 d2 m).2.2.2.2.2 = m) ∧
    ((Deque.zipReplace it d1 d2 x y m).1 ≠ .ok → (Deque.zipReplace it d1 d2 x y m).2.2.1 = d1 ∧
      (Deque.zipReplace it d1 d2 x y m).2.2.2.1 = d2 ∧ (Deque.zipReplace it d1 d2 x y m).2.2.2.2 = m) ∧
    ((Deque.zipAdd it d1 d2 x y m).1 = .errOutOfRange → (Deque.zipAdd it d1 d2 x y m).2.2.1 = d1 ∧
      (Deque.zipAdd it d1 d2 x y m).2.2.2.1 = d2) ∧
    ((Deque.zipAdd it d1 d2 x y m).1 ≠ .ok → (Deque.zipAdd it d1 d2 x y m).2.2.1.abs = d1.abs ∧
      (Deque.zipAdd it d1 d2 x y m).2.2.2.1.abs = d2.abs ∧ (Deque.zipAdd it d1 d2 x y m).2.1 = it) := by
  obtain ⟨_, _, _, a4, a5⟩ := Deque.zipAdd_safe it d1 d2 x y m h1 h2
  exact ⟨Deque.zipRemove_error_inert it d1 d2 m, Deque.zipReplace_error_inert it d1 d2 x y m, a5, a4⟩

/-- the constructor accepts every configured capacity (0 and non-powers of two are rounded up by
`upper_pow_two`), so there is no invalid-capacity status for the deque; the only failure is a refused
allocation, which yields no object -/
theorem constructor_accepts_every_capacity (confCap : Nat) (t : Triple) (m : Mem) (hn : Deque.neverRefuses t m)
    (hc : confCap ≤ Gen.MAX_POW_TWO) :
    (Deque.new confCap t m).1 = .ok ∧ ∃ d, (Deque.new confCap t m).2.1 = some d ∧ d.Inv ∧ confCap ≤ d.cap := by
  rcases Deque.new_spec confCap t m with ⟨n1, d, n2, n3, _, n5, _⟩ | ⟨_, _, _, n4⟩
  · exact ⟨n1, d, n2, n3, by rw [n5]; exact Deque.upperPow2_ge confCap hc⟩
  · exfalso
    have h1 := Deque.allocT_of_neverRefuses t m hn
    have h2 := Deque.allocT_of_neverRefuses t _ h1.2.1
    rcases n4 with n4 | n4
    · rw [n4] at h1; exact absurd h1.1 (by decide)
    · rw [n4] at h2; exact absurd h2.1 (by decide)

/-- non-vacuity: `get_at(size)` on an exactly full wrapped deque is rejected and inert -/
example : (stepM (Deque.mk 4 4 3 3 [12, 13, 14, 11] .conf) {} (.getAt 4)).1 = ⟨some .errOutOfRange, none, []⟩ ∧
    (stepM (Deque.mk 4 4 3 3 [12, 13, 14, 11] .conf) {} (.addAt 9 4)).2.1 = Deque.mk 4 4 3 3 [12, 13, 14, 11] .conf := by
  decide

end CC.Properties.C16Deque
