import CollectionsC.Properties.C20Array
import CollectionsC.Properties.C09Stack
/-! # C20 (stack part) — growth and capacity invariants of `CC_Stack`

Statements only.  The stack's capacity is that of the wrapped array: `size ≤ capacity ≤ allocated
slots` in every state satisfying the invariant (hence after every push/pop interleaving —
`C09Stack.history_refines`); a push changes the capacity only when the stack is exactly full, and then
strictly increases it, for every growth function; with a growth function that at least doubles
(the default factor 2) `n` pushes cost at most `log2 (size + n) + 1` buffer allocations. -/
namespace CC.Properties.C20Stack
open CC
open CC.Spec.Seq (SOp)

theorem size_le_capacity (s : Stack) (h : s.Inv) :
    s.size ≤ s.v.capacity ∧ s.v.capacity ≤ s.v.buf.length ∧ 1 ≤ s.v.capacity ∧ s.v.capacity * 8 ≤ Gen.CC_MAX_ELEMENTS :=
  ⟨h.1, h.2.1, h.2.2.1, C20Array.capacity_bytes_no_wrap s.v h⟩

/-- in every state reached by any interleaving from a state satisfying the invariant -/
theorem history_size_le_capacity (ops : List SOp) (s : Stack) (m : Mem) (hinv : s.Inv) :
    (s.run ops m).2.1.size ≤ (s.run ops m).2.1.v.capacity ∧
    (s.run ops m).2.1.v.capacity ≤ (s.run ops m).2.1.v.buf.length :=
  ⟨(C09Stack.history_refines ops s m hinv).2.2.1.1, (C09Stack.history_refines ops s m hinv).2.2.1.2.1⟩

/-- **growth is strict**: a push never shrinks the capacity and changes it only on an exactly full
stack, to a strictly larger value -/
theorem growth_strict (s : Stack) (x : Nat) (m : Mem) (hinv : s.Inv) :
    s.v.capacity ≤ (s.push x m).2.1.v.capacity ∧
    ((s.push x m).2.1.v.capacity ≠ s.v.capacity → s.v.size = s.v.capacity ∧ s.v.capacity < (s.push x m).2.1.v.capacity) :=
  C20Array.add_capacity s.v x m hinv

/-- pops never change the capacity (the stack has no trim) -/
theorem pop_keeps_capacity (s : Stack) (m : Mem) (hinv : s.Inv) : (s.pop m).2.2.1.v.capacity = s.v.capacity :=
  (Arr.removeLast_spec s.v m hinv).2.2.2.1.1

/-- pushing a list of elements one by one (`pushes_are_addAll`): at most `log2 (size + n) + 1` buffer
allocations through the stack's triple when the growth function at least doubles the capacities
below the final size, for every refusal schedule -/
theorem pushes_realloc_log (s : Stack) (xs : List Nat) (m : Mem) (hinv : s.Inv)
    (hd : ∀ c, c < s.size + xs.length → 2 * c ≤ s.v.grow c) :
    Arr.allocs s.v.triple (s.v.addAll xs m).2 - Arr.allocs s.v.triple m ≤ Nat.log2 (s.size + xs.length) + 1 :=
  C20Array.appends_realloc_log s.v xs m hinv hd

/-- every expansion factor `≥ 1 + 1/k`: at most `2k · (log2 (size + n) + 2)` -/
theorem pushes_realloc_geometric (k : Nat) (hk : 1 ≤ k) (s : Stack) (xs : List Nat) (m : Mem) (hinv : s.Inv)
    (hd : ∀ c, c < s.size + xs.length → c + c / k ≤ s.v.grow c) :
    Arr.allocs s.v.triple (s.v.addAll xs m).2 - Arr.allocs s.v.triple m ≤ 2 * k * (Nat.log2 (s.size + xs.length) + 2) :=
  C20Array.appends_realloc_geometric k hk s.v xs m hinv hd

/-- `addAll` on the wrapped array is what repeated `cc_stack_push` does -/
theorem pushes_are_addAll (s : Stack) (xs : List Nat) (m : Mem) :
    ((xs.foldl (fun (st : Stack × Mem) x => ((st.1.push x st.2).2.1, (st.1.push x st.2).2.2)) (s, m)).1.v,
     (xs.foldl (fun (st : Stack × Mem) x => ((st.1.push x st.2).2.1, (st.1.push x st.2).2.2)) (s, m)).2) =
    s.v.addAll xs m := by
  induction xs generalizing s m with
  | nil => rfl
  | cons x xs ih =>
    simp only [List.foldl_cons, Arr.addAll]
    exact ih _ _

/-! Non-vacuity: five pushes on a full stack of capacity 1 with the factor 2: capacities 1 → 2 → 4 → 8,
three buffer allocations, `size ≤ capacity` throughout; two pops keep the capacity. -/
example :
    let s : Stack := { v := Arr.mk 1 1 [7] (fun c => 2 * c) .conf }
    let r := s.run [SOp.push 1, SOp.push 2, SOp.push 3, SOp.push 4, SOp.push 5, SOp.pop, SOp.pop] {}
    s.Inv ∧ (r.2.1.size, r.2.1.v.capacity, r.2.2.nalloc) = (4, 8, 3) ∧
    (∀ c, c < s.size + 5 → 2 * c ≤ s.v.grow c) := by
  refine ⟨by decide, by decide, fun c _ => Nat.le_refl _⟩

end CC.Properties.C20Stack
