import CollectionsC.Proofs.PTSTIter
import CollectionsC.Properties.C11
/-! # C11 at pointer level — the ternary search trie as a heap of nodes with raw links

`Model/PTST.lean` is the pointer surgery of `cc_tsttable.c`: node records with `parent / left / mid / right`
ids, `get_last_node` as a loop over a `Slot` (the `CC_TSTTableNode **`), `make_mid_subtree`, the upward pruning
loop of `remove_eow_node`, `remove_all`, and the iterator's pointer comparisons.  This file states what is
**proved** about it (helpers: `Proofs/PTST.lean`, `PTSTAdd.lean`, `PTSTRemove.lean`, `PTSTRemoveAll.lean`,
`PTSTIter.lean`):

* `WF`: the heap holds exactly one id-annotated trie (`Represents`): every child's `parent` field is its
  parent, the links span a tree (no node reached twice, nothing else allocated), every leaf carries an entry
  (no dead branch), `size` counts the entries, same-level characters are ordered;
* `add`, `get` / `contains_key`, `remove` preserve `WF` and **commute with the inductive model**
  (`Model/TST.lean`) through the abstraction `absT`, for **every** key — the empty key aliases the root on
  both levels alike (X5), so no exclusion is needed here; the map-level corollaries compose with
  `Properties/C11.lean` and carry its `k ≠ []` (`…_partial`);
* `add` allocates exactly the suffix chain (fresh serials, top-down), a refused `add` changes nothing;
* `remove` frees exactly the nodes of one dead branch (entry-less, at most one child each), bottom-up, and the
  surviving nodes keep all their links (`parent` pointers after pruning).

* `remove_all` frees every node exactly once, in post-order, and leaves an empty heap.

* the iterator (`Proofs/PTSTIter.lean`): node ids are injective on node paths, the `parent` field of the node at
  a path is the node one step up, so every pointer comparison of `cc_tsttable_iter_next` decides like the path
  automaton of `Model/TST.lean`: `iter_init`, `iter_next` (both modes; the loop's fuel is never exhausted) and
  `iter_remove` commute; after `iter_remove` the saved `current_node` / `next_node` pointers — computed before
  the unlinking — are live nodes of the pruned heap and stand for the path iterator's position there, so all
  of `Proofs/TSTIter.lean` / `Properties/C08TST`, `C16TST` (nothing skipped, nothing twice) carries over.

**Only executed** (the Lean driver runs the pointer model alongside the inductive one; L3 compares the C
library's node identities in allocation order, `parent` ids and iterator pointers after every operation, and
the driver's `ptAgrees` flag checks `toNode` / sizes / heap count / path↔id agreement): the composition of
these per-call theorems over whole histories at pointer level (the history theorems of `Properties/C11.lean`
are about the inductive model; each step transfers by the commutation theorems here), `pathOf` (the dump
helper that recovers a path by walking `parent`), and `iter_next` from positions that violate the iterator
invariant (unreachable through the API). -/
namespace CC.Properties.C11PTST
open CC CC.TST CC.PTST

variable {cmp : Cmp}

/-- abstraction: the inductive table a pointer-level state stands for -/
def absT (st : PT) (tr : Triple) : Table := ⟨st.size, toNode st, tr⟩

/-- well-formedness of a pointer-level table -/
def WF (cmp : Cmp) (st : PT) : Prop :=
  ∃ t, Represents st t ∧ st.size = t.erase.marked ∧ t.erase.Pruned ∧ t.erase.Ordered cmp

theorem wf_inv (st : PT) (tr : Triple) (h : WF cmp st) : (absT st tr).Inv cmp := by
  obtain ⟨t, hr, h1, h2, h3⟩ := h
  simp only [absT, Table.Inv, hr.toNode]
  exact ⟨h1, h2, h3⟩

/-- the empty table is well-formed -/
theorem new_wf : WF cmp {} := ⟨.nil, new_represents, rfl, trivial, trivial⟩

/-! ## what well-formedness means on the heap -/

/-- **parent of every child is the node**: for every allocated node, each non-NULL child pointer leads to
a node whose `parent` field points back -/
theorem wf_parent_of_child (st : PT) (h : WF cmp st) (i : Nat) (hi : st.heap.has i = true) (ch : Nat)
    (hch : ch = (st.heap.get i).left ∨ ch = (st.heap.get i).mid ∨ ch = (st.heap.get i).right) (hne : ch ≠ 0) :
    (st.heap.get ch).parent = i := by
  obtain ⟨t, hr, _⟩ := h
  exact hr.rep.child_parent i ((hr.dom i).mp hi) ch hch hne

/-- **tree-shaped**: the allocated blocks are exactly the nodes of one trie reached from `root`, each once
(`ids.Nodup`), all with serials below `fresh`; the root's `parent` is NULL -/
theorem wf_tree_shaped (st : PT) (h : WF cmp st) :
    ∃ t : INode, st.root = t.rid ∧ t.ids.Nodup ∧ (∀ i, st.heap.has i = true ↔ i ∈ t.ids) ∧
      (∀ i ∈ t.ids, i ≠ 0 ∧ i < st.fresh) ∧ toNode st = t.erase ∧ (st.root ≠ 0 → (st.heap.get st.root).parent = 0) := by
  obtain ⟨t, hr, _⟩ := h
  refine ⟨t, hr.root, hr.nodup, hr.dom, fun i hi => ⟨hr.rep.ids_ne i hi, hr.fresh i hi⟩, hr.toNode, ?_⟩
  intro hne
  cases t with
  | nil => exact absurd hr.root hne
  | node id c d l m r => rw [hr.root]; simp only [INode.rid_node]; rw [hr.rep.2.1]

/-- **no dead branches**: every leaf of the trie carries an entry -/
theorem wf_no_dead_branch (st : PT) (h : WF cmp st) : (toNode st).Pruned := by
  obtain ⟨t, hr, _, h2, _⟩ := h
  rw [hr.toNode]; exact h2

/-! ## the operations commute with the inductive model -/

/-- **`get` / `contains_key`** (every key) -/
theorem get_commutes (st : PT) (tr : Triple) (h : WF cmp st) (key : Key) :
    PTST.get cmp st key = (absT st tr).root.lookup cmp key ∧
    (absT st tr).get cmp key = (match PTST.get cmp st key with
      | some e => (.ok, some e.2) | none => (.errKeyNotFound, none)) := by
  obtain ⟨t, hr, _⟩ := h
  have := get_represents cmp hr key
  simp only [absT, hr.toNode, Table.get, ← this]
  exact ⟨trivial, by cases PTST.get cmp st key <;> rfl⟩

/-- **`add`** (every key, every allocator schedule): told whether the inductive `add` succeeded, the pointer
level ends in the state the inductive result abstracts to; `WF` is kept; a success allocates exactly the
nodes of the suffix chain (serials `fresh, fresh+1, …`) and frees nothing, a refusal changes nothing -/
theorem add_commutes (st : PT) (tr : Triple) (h : WF cmp st) (key : Key) (v : Nat) (mem : Mem) :
    absT (PTST.add cmp st key v (((absT st tr).add cmp key v mem).1 == .ok)) tr = ((absT st tr).add cmp key v mem).2.1 ∧
    WF cmp (PTST.add cmp st key v (((absT st tr).add cmp key v mem).1 == .ok)) ∧
    (PTST.add cmp st key v (((absT st tr).add cmp key v mem).1 == .ok)).freed = [] ∧
    (∀ i, (PTST.add cmp st key v (((absT st tr).add cmp key v mem).1 == .ok)).heap.has i = true ↔
      (st.heap.has i = true ∨ (st.fresh ≤ i ∧
        i < (PTST.add cmp st key v (((absT st tr).add cmp key v mem).1 == .ok)).fresh))) := by
  have hinv := wf_inv st tr h
  obtain ⟨t, hr, h1, h2, h3⟩ := h
  by_cases hok : ((absT st tr).add cmp key v mem).1 = .ok
  · have hb : (((absT st tr).add cmp key v mem).1 == Stat.ok) = true := by simp [hok]
    rw [hb]
    obtain ⟨a1, a2, a3, a4⟩ := add_represents cmp hr key v
    have hspec := ins_spec (tr := tr) (cmp := cmp) key v (toNode st) key mem
    have hok' : ((toNode st).ins tr cmp key v key mem).st = .ok := hok
    obtain ⟨q1, _, q3⟩ := hspec.1 hok'
    have he := erase_insI cmp key (key, v) st.fresh t 0 (by omega)
    simp only [List.drop_zero] at he
    have hmk := marked_insI_top cmp key v st.fresh t
    have hroot : toNode (PTST.add cmp st key v true) = ((toNode st).ins tr cmp key v key mem).node := by
      rw [a1.toNode, he, q1, hr.toNode]
    have hsize : (PTST.add cmp st key v true).size =
        (if ((toNode st).ins tr cmp key v key mem).inc = true then st.size + 1 else st.size) := by
      rw [a2]
      have hm2 := q3
      rw [q1, hr.toNode, ← he, hmk] at hm2
      rw [hr.toNode]
      by_cases hl : (t.erase.lookup cmp key).isSome = true <;>
        by_cases hi : (t.erase.ins tr cmp key v key mem).inc = true <;> simp [hl, hi] at hm2 ⊢
    refine ⟨?_, ⟨_, a1, ?_, ?_, ?_⟩, a4, ?_⟩
    · show (⟨_, _, _⟩ : Table) = ⟨_, _, _⟩
      simp only [absT] at hroot hsize ⊢
      rw [hroot, hsize]; rfl
    · rw [a2, hmk, h1]
    · rw [he]; exact pruned_insPure _ _ _ h2
    · rw [he]; exact ordered_insPure _ _ _ h3
    · intro i
      rw [a1.dom, mem_ids_insI, hr.dom, a3]
  · have hb : (((absT st tr).add cmp key v mem).1 == Stat.ok) = false := by simp [hok]
    rw [hb, add_refused]
    have hat := Table.add_atomic_any (cmp := cmp) (absT st tr) key v mem hok
    refine ⟨by rw [hat.2.1]; rfl, ⟨t, ⟨hr.root, hr.rep, hr.nodup, hr.fresh, hr.count, hr.dom⟩, h1, h2, h3⟩, rfl, ?_⟩
    intro i
    constructor
    · intro hi; exact Or.inl hi
    · rintro (hi | hi)
      · exact hi
      · simp only at hi; omega

/-- **`remove`** (every key): the pointer level ends in the state the inductive result abstracts to; `WF` is
kept — in particular the `parent` pointers of all surviving nodes are right after pruning; the freed ids are
exactly the blocks that disappear from the heap, and they form one dead branch: entry-less nodes with at
most one child each (after the removed key's entry was cleared), freed bottom-up -/
theorem remove_commutes (st : PT) (tr : Triple) (h : WF cmp st) (key : Key) (mem : Mem) :
    absT (PTST.remove cmp st key) tr = ((absT st tr).remove cmp key mem).2.2.1 ∧
    WF cmp (PTST.remove cmp st key) ∧
    (∀ i, (PTST.remove cmp st key).heap.has i = true ↔ (st.heap.has i = true ∧ i ∉ (PTST.remove cmp st key).freed)) ∧
    (∀ i ∈ (PTST.remove cmp st key).freed, st.heap.has i = true) ∧
    (∃ t u : INode, Represents st t ∧ (u = .nil ∨ ∃ x q0, u = (t.setDataI x none).sub q0) ∧ Bare u ∧
      ∀ j, j ∈ (PTST.remove cmp st key).freed ↔ j ∈ u.ids) := by
  have hinv := wf_inv st tr h
  obtain ⟨t, hr, h1, h2, h3⟩ := h
  rcases remove_represents cmp tr hr key mem with ⟨p, x, e, f1, f2, f3, f4, f5, f6, f7, f8⟩ | ⟨f1, f2⟩
  · have hmem := mem_pruneI (t.setDataI x none) p (by rw [INode.setDataI_ids]; exact hr.nodup)
    rw [INode.setDataI_ids] at hmem
    have hfsub := pruneI_freed_sub (t.setDataI x none) p
    rw [INode.setDataI_ids] at hfsub
    -- the node at `p` carries the entry
    have hsubp : ∃ c l m r, t.sub p = .node x c (some e) l m r := by
      rw [← INode.erase_sub, INode.erase_data] at f2
      cases hh : t.sub p with
      | nil => rw [hh] at f2; simp [INode.data?] at f2
      | node id c d l m r =>
        rw [hh] at f2 f3; simp only [INode.data?, INode.rid_node] at f2 f3
        subst f2 f3; exact ⟨c, l, m, r, rfl⟩
    obtain ⟨c, l, m, r, hsubp⟩ := hsubp
    have hmk1 := marked_setDataI_target t p x c e l m r hr.nodup hsubp
    have hmk2 := marked_pruneI (t.setDataI x none) p
    have hrm : (absT st tr).remove cmp key mem =
        (.ok, some e.2, (⟨(if st.size > 0 then st.size - 1 else 0), (t.erase.remAt tr p mem).node, tr⟩ : Table),
          (t.erase.remAt tr p mem).mem) := by
      simp only [absT, Table.remove, hr.toNode, f1, f2]
    refine ⟨?_, ⟨_, f4, ?_, ?_, ?_⟩, ?_, ?_, ⟨t, ?_⟩⟩
    · rw [hrm]; simp only [absT, f4.toNode, f5, f7]
    · rw [f7, hmk2, h1]; split <;> omega
    · rw [f5]; exact pruned_remAt _ _ _ h2
    · rw [f5]; exact ordered_remAt _ _ _ h3
    · intro i; rw [f4.dom, hmem, hr.dom, f6]
    · intro i hi; rw [f6] at hi; exact (hr.dom i).mpr (hfsub i hi)
    · obtain ⟨u, hu, hb, hm⟩ := pruneI_freed_dead (t.setDataI x none) p
      refine ⟨u, hr, ?_, hb, by rw [f6]; exact hm⟩
      rcases hu with hu | ⟨q0, hu⟩
      · exact Or.inl hu
      · exact Or.inr ⟨x, q0, hu⟩
  · rw [f2]
    have hrm : ((absT st tr).remove cmp key mem).2.2.1 = absT st tr := by
      simp only [absT, Table.remove, hr.toNode]
      rcases f1 with f1 | ⟨p, f1, f1'⟩
      · simp [f1]
      · simp [f1, f1']
    refine ⟨by rw [hrm]; rfl, ⟨t, ⟨hr.root, hr.rep, hr.nodup, hr.fresh, hr.count, hr.dom⟩, h1, h2, h3⟩, ?_, ?_,
      ⟨t, .nil, hr, Or.inl rfl, trivial, ?_⟩⟩
    · intro i; simp
    · intro i hi; simp at hi
    · intro j; simp

/-- **`remove_all`**: the loop frees every node exactly once, in post-order (left, mid, right, node), the heap
is empty afterwards and `size` went down by one per entry — the inductive `remove_all` -/
theorem removeAll_commutes (st : PT) (tr : Triple) (h : WF cmp st) (mem : Mem) :
    absT (PTST.removeAll st) tr = ((absT st tr).removeAll mem).1 ∧ WF cmp (PTST.removeAll st) ∧
    (∀ i, (PTST.removeAll st).heap.has i = false) ∧
    (∀ i, i ∈ (PTST.removeAll st).freed ↔ st.heap.has i = true) ∧ (PTST.removeAll st).freed.Nodup := by
  obtain ⟨t, hr, h1, h2, h3⟩ := h
  obtain ⟨r1, r2, r3, r4⟩ := removeAll_represents hr
  have hperm := postI_perm t
  refine ⟨?_, ⟨.nil, r1, ?_, trivial, trivial⟩, ?_, ?_, ?_⟩
  · simp only [absT, Table.removeAll, r1.toNode, hr.toNode, freeAll_fst, r2]; rfl
  · rw [r2, h1]
    -- every entry is counted: `marked ≤ size` so the `size_t` decrements do not wrap
    have : ∀ (n : Node) (s : Nat), n.marked ≤ s → n.freeAllSize s = s - n.marked := by
      intro n
      induction n with
      | nil => intro s _; simp [Node.freeAllSize, Node.marked]
      | node c d l m r ihl ihm ihr =>
        intro s hs
        simp only [Node.marked] at hs
        simp only [Node.freeAllSize, Node.marked]
        rw [ihl s (by omega), ihm _ (by omega), ihr _ (by omega)]
        cases d with
        | none => simp; omega
        | some e =>
          simp only [Option.isSome_some, if_true] at hs ⊢
          simp only [decSize]
          split <;> omega
    rw [this _ _ (Nat.le_refl _)]; simp [Node.marked]
  · intro i
    cases hh : (PTST.removeAll st).heap.has i with
    | false => rfl
    | true => have := (r1.dom i).mp hh; simp at this
  · intro i; rw [r3, mem_postI, hr.dom]
  · rw [r3]; exact hperm.nodup_iff.mpr hr.nodup

/-- the structural half of `iter_remove`: `remove_eow_node` at any node that carries an entry — the same
pruning, for a node given by its address instead of its key -/
theorem removeEow_commutes (st : PT) (tr : Triple) (h : WF cmp st) (p : Path) (mem : Mem) (x : Nat) (e : Entry)
    (hx : ∃ t, Represents st t ∧ (t.sub p).rid = x ∧ (t.sub p).data? = some e) :
    toNode (removeEow st x) = ((toNode st).remAt tr p mem).node ∧
    (∃ t', Represents (removeEow st x) t' ∧ t'.erase.Pruned ∧ t'.erase.Ordered cmp) := by
  obtain ⟨t0, hr0, h1, h2, h3⟩ := h
  obtain ⟨t, hr, hx1, hx2⟩ := hx
  have hsubp : ∃ c l m r, t.sub p = .node x c (some e) l m r := by
    cases hh : t.sub p with
    | nil => rw [hh] at hx2; simp [INode.data?] at hx2
    | node id c d l m r =>
      rw [hh] at hx1 hx2; simp only [INode.data?, INode.rid_node] at hx1 hx2
      subst hx1 hx2; exact ⟨c, l, m, r, rfl⟩
  obtain ⟨c, l, m, r, hsubp⟩ := hsubp
  obtain ⟨r1, _, _, _⟩ := removeEow_represents hr p x c e l m r hsubp
  obtain ⟨e1, _⟩ := erase_pruneI tr t p mem e hr.nodup hx2
  rw [hx1] at e1
  have ht : t.erase = t0.erase := by rw [← hr.toNode, ← hr0.toNode]
  refine ⟨by rw [r1.toNode, e1, hr.toNode], _, r1, ?_, ?_⟩
  · rw [e1, ht]; exact pruned_remAt _ _ _ h2
  · rw [e1, ht]; exact ordered_remAt _ _ _ h3

/-! ## the iterator: node pointers against node paths -/

/-- a pointer iterator stands for a path iterator of `Model/TST.lean`: `current_node` / `next_node` are the
ids of the nodes at the two paths (NULL for none), the `advanced_on_remove` mode agrees -/
def IterRel (st : PT) (pit : PIter) (it : Iter) : Prop := ∃ t, Represents st t ∧ pit = absIt t it

/-- **`iter_init`** -/
theorem iter_init_commutes (st : PT) (tr : Triple) (h : WF cmp st) :
    IterRel st (PTST.iterInit st) (TST.iterInit (absT st tr)) := by
  obtain ⟨t, hr, _⟩ := h
  refine ⟨t, hr, ?_⟩
  simp only [absT, hr.toNode]
  exact (iterInit_corr hr st.size tr).1

/-- **`iter_next`** (either mode): the pointer comparisons of the `while (node)` loop (`previous_node ==
node->parent`, `== node->left`, …) decide like the path automaton, turn by turn — node ids are injective on
a well-formed heap —, so the status is the same, the node handed out is an allocated node whose record
carries exactly the yielded entry, and the new pointers stand for the new paths.  The pointer loop's fuel
(`2·fresh + 2`) is never exhausted. -/
theorem iter_next_commutes (st : PT) (tr : Triple) (pit : PIter) (it : Iter) (todo : List (Path × Entry))
    (mem : Mem) (hrel : IterRel st pit it) (hok : IterOk (toNode st) it todo) :
    (PTST.iterNext st pit).1 = (TST.iterNext (absT st tr) it mem).st ∧
    IterRel st (PTST.iterNext st pit).2.2 (TST.iterNext (absT st tr) it mem).it ∧
    ((TST.iterNext (absT st tr) it mem).st = .ok →
      st.heap.has (PTST.iterNext st pit).2.1 = true ∧
      (st.heap.get (PTST.iterNext st pit).2.1).data = (TST.iterNext (absT st tr) it mem).out ∧
      (TST.iterNext (absT st tr) it mem).out.isSome = true) := by
  obtain ⟨t, hr, rfl⟩ := hrel
  simp only [absT, hr.toNode] at hok ⊢
  have hv := iterOk_valid t hr.rep hr.nodup it todo hok
  obtain ⟨c1, c2, c3⟩ := iterNext_corr hr st.size tr it todo hok hv mem
  rw [c1]
  refine ⟨rfl, ⟨t, hr, rfl⟩, ?_⟩
  intro hst
  simp only [hst, if_true]
  have hk := iterNext_ok ⟨st.size, t.erase, tr⟩ it mem todo hok
  cases todo with
  | nil => simp only [] at hk; rw [hk.2.2.1] at hst; cases hst
  | cons x tl =>
    simp only [] at hk
    obtain ⟨_, _, _, k2, _, k4⟩ := hk
    refine ⟨?_, (c3 hst).symm, by rw [k2]; rfl⟩
    rw [hr.dom, k4]
    have := c2.1; rw [k4] at this
    exact INode.rid_sub_mem t x.1 this

/-- **`iter_remove`** of the entry yielded last: the heap afterwards abstracts to the inductive result
(the target's entry cleared, its dead ancestors freed through `parent`), `WF` is kept, and the saved
`current_node` / `next_node` pointers — computed by the inner `iter_next` *before* the unlinking — are, in the
pruned heap, the nodes the path iterator stands at: not dangling, nothing skipped (`IterOk … todo`) -/
theorem iter_remove_commutes (st : PT) (tr : Triple) (h : WF cmp st) (pit : PIter) (it : Iter) (w : Bool)
    (mem : Mem) (todo : List (Path × Entry)) (p : Path) (e : Entry) (hrel : IterRel st pit it)
    (hat : IterAt (toNode st) it todo) (hadv : it.adv = false) (hcur : it.cur = some p)
    (hd : ((toNode st).sub p).data? = some e) :
    absT (PTST.iterRemove st pit).1 tr = (TST.iterRemove (absT st tr) it w mem).2.2.1 ∧
    WF cmp (PTST.iterRemove st pit).1 ∧
    IterRel (PTST.iterRemove st pit).1 (PTST.iterRemove st pit).2 (TST.iterRemove (absT st tr) it w mem).2.2.2.1 ∧
    IterOk (toNode (PTST.iterRemove st pit).1) (TST.iterRemove (absT st tr) it w mem).2.2.2.1 todo ∧
    (∀ i ∈ (PTST.iterRemove st pit).1.freed, st.heap.has i = true ∧ (PTST.iterRemove st pit).1.heap.has i = false) := by
  obtain ⟨t0, hr0, h1, h2, h3⟩ := h
  obtain ⟨t, hr, rfl⟩ := hrel
  have ht : t.erase = t0.erase := by rw [← hr.toNode, ← hr0.toNode]
  simp only [absT, hr.toNode] at hat hd ⊢
  obtain ⟨q1, q2, q3, q4, q5, q6, q7⟩ := iterRemove_corr hr st.size tr it w mem todo p e hat hadv hcur hd
  have hdI : (t.sub p).data? = some e := by rw [← INode.erase_data, INode.erase_sub]; exact hd
  obtain ⟨x, c, l, m, r, hsub⟩ : ∃ x c l m r, t.sub p = .node x c (some e) l m r := by
    cases hh : t.sub p with
    | nil => rw [hh] at hdI; simp [INode.data?] at hdI
    | node id c d l m r =>
      rw [hh] at hdI; simp only [INode.data?] at hdI
      subst hdI; exact ⟨id, c, l, m, r, rfl⟩
  have e1 := (erase_pruneI tr t p mem e hr.nodup hdI).1
  have hmk1 := marked_setDataI_target t p x c e l m r hr.nodup hsub
  have hmk2 := marked_pruneI (t.setDataI x none) p
  rw [hsub, INode.rid_node] at q1 q2 q3 q4 q7 e1
  have hmem := mem_pruneI (t.setDataI x none) p (by rw [INode.setDataI_ids]; exact hr.nodup)
  rw [INode.setDataI_ids] at hmem
  have hfsub := pruneI_freed_sub (t.setDataI x none) p
  rw [INode.setDataI_ids] at hfsub
  refine ⟨?_, ⟨_, q1, ?_, ?_, ?_⟩, ⟨_, q1, q3⟩, by rw [q1.toNode]; exact q4, ?_⟩
  · rw [q2, q1.toNode, q6]
  · rw [q6, hmk2, h1, ← ht]; simp only [decSize]; split <;> omega
  · rw [e1, ht]; exact pruned_remAt _ _ _ h2
  · rw [e1, ht]; exact ordered_remAt _ _ _ h3
  · intro i hi
    rw [q7] at hi
    have hti := hfsub i hi
    refine ⟨(hr.dom i).mpr hti, ?_⟩
    cases hh : (PTST.iterRemove st (absIt t it)).1.heap.has i with
    | false => rfl
    | true =>
      have := (q1.dom i).mp hh
      rw [hmem] at this
      exact absurd hi this.2

/-- **`iter_remove`** with nothing yielded, or called again for the same entry (repair X7): no pointer is
touched -/
theorem iter_remove_inert (st : PT) (pit : PIter) (h : pit.cur = 0 ∨ pit.adv = true) :
    PTST.iterRemove st pit = ({ st with freed := [] }, pit) := by
  unfold PTST.iterRemove
  simp only [h, if_true]

/-! ## map-level corollaries (compose with `Properties/C11.lean`; the empty key is excluded there: X5) -/

/-- `get` on the heap answers like the ideal map -/
theorem get_refines_map_partial (hc : CmpLaw cmp) (st : PT) (tr : Triple) (h : WF cmp st) (key : Key)
    (hk : key ≠ []) (hko : (toNode st).KeysOk) :
    (PTST.get cmp st key).map (·.2) = (absT st tr).abs.get key := by
  have hinv := wf_inv st tr h
  have hg : (absT st tr).Good cmp := ⟨hinv, hko⟩
  have h1 := (get_commutes st tr h key).1
  rw [h1, abs_get hc (absT st tr) hinv.2.2 hko]
  simp [hk]

/-- after a successful `add` of a non-empty key the heap answers `get` like the map with the key added -/
theorem add_refines_map_partial (hc : CmpLaw cmp) (st : PT) (tr : Triple) (h : WF cmp st) (key : Key) (v : Nat)
    (mem : Mem) (hk : key ≠ []) (hko : (toNode st).KeysOk) (hok : ((absT st tr).add cmp key v mem).1 = .ok) (k' : Key) :
    (absT (PTST.add cmp st key v true) tr).abs.get k' = ((absT st tr).abs.add key v).get k' := by
  have hinv := wf_inv st tr h
  have hg : (absT st tr).Good cmp := ⟨hinv, hko⟩
  have hcm := (add_commutes st tr h key v mem).1
  have hb : (((absT st tr).add cmp key v mem).1 == Stat.ok) = true := by simp [hok]
  rw [hb] at hcm
  rw [hcm]
  exact ((C11.add_refines_partial hc (absT st tr) key v mem hk hg).2.1 hok).2.1 k'

/-! ## non-vacuity: the heap after `add "ab" 1; add "a" 2; add "ac" 3` from the empty table is well-formed and
abstracts to the inductive trie with nested prefixes (the hash-map heap itself is not evaluated by the kernel:
the facts come from the theorems above, the inductive side by `decide`) -/

def demo : PT := PTST.add cmpSigned (PTST.add cmpSigned (PTST.add cmpSigned {} [97, 98] 1 true) [97] 2 true) [97, 99] 3 true

theorem demo_spec : WF cmpSigned demo ∧
    absT demo .conf = ⟨3, .node 97 (some ([97], 2)) .nil
      (.node 98 (some ([97, 98], 1)) .nil .nil (.node 99 (some ([97, 99], 3)) .nil .nil .nil)) .nil, .conf⟩ := by
  have ok : ∀ (t : Table) (k : Key) (v : Nat), ((t.add cmpSigned k v {}).1 == Stat.ok) = true := by
    intro t k v; simp [Table.add_unrefused t k v {} rfl]
  have s0 : absT ({} : PT) .conf = ⟨0, .nil, .conf⟩ := by
    simp only [absT, (new_represents).toNode]; rfl
  have w0 : WF cmpSigned ({} : PT) := new_wf
  have a1 := add_commutes ({} : PT) .conf w0 [97, 98] 1 {}
  rw [ok] at a1
  have a2 := add_commutes _ .conf a1.2.1 [97] 2 {}
  rw [ok] at a2
  have a3 := add_commutes _ .conf a2.2.1 [97, 99] 3 {}
  rw [ok] at a3
  refine ⟨a3.2.1, ?_⟩
  show absT (PTST.add cmpSigned (PTST.add cmpSigned (PTST.add cmpSigned {} [97, 98] 1 true) [97] 2 true) [97, 99] 3 true) .conf = _
  rw [a3.1, a2.1, a1.1, s0]
  decide

/-- the inductive table `demo` stands for -/
def demoT : Table := ⟨3, .node 97 (some ([97], 2)) .nil
  (.node 98 (some ([97, 98], 1)) .nil .nil (.node 99 (some ([97, 99], 3)) .nil .nil .nil)) .nil, .conf⟩

/-- non-vacuity of the iterator theorems: on that heap the first `iter_next` hands out an allocated node whose
record carries `("a", 2)` (the root: first-arrival pre-order), the second one the node of `("ab", 1)` -/
example : (PTST.iterNext demo (PTST.iterInit demo)).1 = .ok ∧
    demo.heap.has (PTST.iterNext demo (PTST.iterInit demo)).2.1 = true ∧
    (demo.heap.get (PTST.iterNext demo (PTST.iterInit demo)).2.1).data = some ([97], 2) ∧
    (PTST.iterNext demo (PTST.iterNext demo (PTST.iterInit demo)).2.2).1 = .ok ∧
    (demo.heap.get (PTST.iterNext demo (PTST.iterNext demo (PTST.iterInit demo)).2.2).2.1).data = some ([97, 98], 1) := by
  obtain ⟨hw, ha⟩ := demo_spec
  have ha : absT demo .conf = demoT := ha
  have hT : toNode demo = demoT.root := congrArg Table.root ha
  have hE : demoT.root.entriesP = [([], ([97], 2)), ([.M], ([97, 98], 1)), ([.M, .R], ([97, 99], 3))] := by decide
  -- the path level, evaluated
  have hok' : IterOk demoT.root (TST.iterInit demoT) [([], ([97], 2)), ([.M], ([97, 98], 1)), ([.M, .R], ([97, 99], 3))] :=
    Or.inl ⟨rfl, hE ▸ iterInit_at demoT⟩
  have k1 := iterNext_ok demoT _ {} _ hok'
  simp only [] at k1
  obtain ⟨_, _, e1, e2, hok2', _⟩ := k1
  have k2 := iterNext_ok demoT _ {} _ hok2'
  simp only [] at k2
  obtain ⟨_, _, e3, e4, _, _⟩ := k2
  -- the pointer level, by the theorems
  have rel := iter_init_commutes demo .conf hw
  have hok : IterOk (toNode demo) (TST.iterInit (absT demo .conf))
      [([], ([97], 2)), ([.M], ([97, 98], 1)), ([.M, .R], ([97, 99], 3))] := by rw [ha, hT]; exact hok'
  obtain ⟨a1, a2, a3⟩ := iter_next_commutes demo .conf _ _ _ {} rel hok
  have hok2 : IterOk (toNode demo) (TST.iterNext (absT demo .conf) (TST.iterInit (absT demo .conf)) {}).it
      [([.M], ([97, 98], 1)), ([.M, .R], ([97, 99], 3))] := by
    rw [ha, hT]; exact hok2'
  obtain ⟨c1, _, c3⟩ := iter_next_commutes demo .conf _ _ _ {} a2 hok2
  rw [ha] at a1 a3 c1 c3
  obtain ⟨b1, b2, _⟩ := a3 e1
  exact ⟨by rw [a1, e1], b1, by rw [b2, e2], by rw [c1, e3], by rw [(c3 e3).2.1, e4]⟩

end CC.Properties.C11PTST
