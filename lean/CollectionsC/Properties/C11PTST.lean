import CollectionsC.Proofs.PTSTHistory
import CollectionsC.Properties.C11
/-! # C11 at pointer level — the ternary search trie as a heap of nodes with raw links

`Model/PTST.lean` is the pointer surgery of `cc_tsttable.c`: node records with `parent / left / mid / right`
ids, `get_last_node` as a loop over a `Slot` (the `CC_TSTTableNode **`), `make_mid_subtree`, the upward pruning
loop of `remove_eow_node`, `remove_all`, and the iterator's pointer comparisons.  This file states what is
**proved** about it (helpers: `Proofs/PTST.lean`, `PTSTAdd.lean`, `PTSTRemove.lean`, `PTSTRemoveAll.lean`,
`PTSTIter.lean`):

* `WF`: the heap holds exactly one id-annotated trie (`Represents`): every child's `parent` field is its
  parent, the links span a tree (no node reached twice, nothing else allocated), every leaf carries an entry
  (no dead branch), `size` counts the entries, same-level characters are ordered;
* `add`, `get` / `contains_key`, `remove` preserve `WF` and **commute with the inductive model**
  (`Model/TST.lean`) through the abstraction `absT`, for **every** key — the empty key aliases the root on
  both levels alike (X5), so no exclusion is needed here; the map-level corollaries compose with
  `Properties/C11.lean` and carry its `k ≠ []` (`…_partial`);
* `add` allocates exactly the suffix chain (fresh serials, top-down), a refused `add` changes nothing;
* `remove` frees exactly the nodes of one dead branch (entry-less, at most one child each), bottom-up, and the
  surviving nodes keep all their links (`parent` pointers after pruning).

* `remove_all` frees every node exactly once, in post-order, and leaves an empty heap.

* the iterator (`Proofs/PTSTIter.lean`): node ids are injective on node paths, the `parent` field of the node at
  a path is the node one step up, so every pointer comparison of `cc_tsttable_iter_next` decides like the path
  automaton of `Model/TST.lean`: `iter_init`, `iter_next` (both modes; the loop's fuel is never exhausted) and
  `iter_remove` commute; after `iter_remove` the saved `current_node` / `next_node` pointers — computed before
  the unlinking — are live nodes of the pruned heap and stand for the path iterator's position there, so all
  of `Proofs/TSTIter.lean` / `Properties/C08TST`, `C16TST` (nothing skipped, nothing twice) carries over.

* **histories** (`Model/PTSTHistory.lean`: `POp`, `pstep`, `prun`, iterator sessions `piterOp` / `piterRun`; the
  pointer level counts `add`'s allocator requests itself, `addNeeds`, and `Proofs/PTSTHistory.lean` proves that the
  inductive `add` succeeds exactly when none of those requests is refused):
  `pstep_refines`, `phistory_refines` — from any well-formed heap, every history, every key, every refusal schedule:
  call-by-call the results of the inductive model, `absT` of the final heap is the inductive final state, every
  reachable heap is `WF`; `new_phistory_refines_partial` (+ `…_nonempty_partial`) — from `new`, composed with
  `C11.new_history_refines_partial`: the results of the ideal string map, with the X5 exclusion explicit, and the
  exact allocator ledger (header + live heap nodes + entries); `phistory_ledger` — live blocks = nodes of the trie,
  `destroy` frees each exactly once; `piter_program_refines` (+ `…_map_partial`) — any next / remove / query program:
  the ideal cursor's statuses and values, saved node ids NULL or live after every prefix.

**Only executed** (the Lean driver runs the pointer model alongside the inductive one; L3 compares the C
library's node identities in allocation order, `parent` ids and iterator pointers after every operation, and
the driver's `ptAgrees` flag checks the agreement on the streams, the `scale` stream included): `pathOf` (the
dump helper that recovers a path by walking `parent`), `iter_next` from positions that violate the iterator
invariant (unreachable through the API), and the ORDER of `add`'s allocator requests (the pointer level counts them;
which request is the entry block only matters for refusals in the inductive model's ledger, `Model/TST.lean`). -/
namespace CC.Properties.C11PTST
open CC CC.TST CC.PTST

variable {cmp : Cmp}

/-- abstraction: the inductive table a pointer-level state stands for -/
def absT (st : PT) (tr : Triple) : Table := ⟨st.size, toNode st, tr⟩

/-- well-formedness of a pointer-level table -/
def WF (cmp : Cmp) (st : PT) : Prop :=
  ∃ t, Represents st t ∧ st.size = t.erase.marked ∧ t.erase.Pruned ∧ t.erase.Ordered cmp

theorem wf_inv (st : PT) (tr : Triple) (h : WF cmp st) : (absT st tr).Inv cmp := by
  obtain ⟨t, hr, h1, h2, h3⟩ := h
  simp only [absT, Table.Inv, hr.toNode]
  exact ⟨h1, h2, h3⟩

/-- the empty table is well-formed -/
theorem new_wf : WF cmp {} := ⟨.nil, new_represents, rfl, trivial, trivial⟩

/-! ## what well-formedness means on the heap -/

/-- **parent of every child is the node**: for every allocated node, each non-NULL child pointer leads to
a node whose `parent` field points back -/
theorem wf_parent_of_child (st : PT) (h : WF cmp st) (i : Nat) (hi : st.heap.has i = true) (ch : Nat)
    (hch : ch = (st.heap.get i).left ∨ ch = (st.heap.get i).mid ∨ ch = (st.heap.get i).right) (hne : ch ≠ 0) :
    (st.heap.get ch).parent = i := by
  obtain ⟨t, hr, _⟩ := h
  exact hr.rep.child_parent i ((hr.dom i).mp hi) ch hch hne

/-- **tree-shaped**: the allocated blocks are exactly the nodes of one trie reached from `root`, each once
(`ids.Nodup`), all with serials below `fresh`; the root's `parent` is NULL -/
theorem wf_tree_shaped (st : PT) (h : WF cmp st) :
    ∃ t : INode, st.root = t.rid ∧ t.ids.Nodup ∧ (∀ i, st.heap.has i = true ↔ i ∈ t.ids) ∧
      (∀ i ∈ t.ids, i ≠ 0 ∧ i < st.fresh) ∧ toNode st = t.erase ∧ (st.root ≠ 0 → (st.heap.get st.root).parent = 0) := by
  obtain ⟨t, hr, _⟩ := h
  refine ⟨t, hr.root, hr.nodup, hr.dom, fun i hi => ⟨hr.rep.ids_ne i hi, hr.fresh i hi⟩, hr.toNode, ?_⟩
  intro hne
  cases t with
  | nil => exact absurd hr.root hne
  | node id c d l m r => rw [hr.root]; simp only [INode.rid_node]; rw [hr.rep.2.1]

/-- **no dead branches**: every leaf of the trie carries an entry -/
theorem wf_no_dead_branch (st : PT) (h : WF cmp st) : (toNode st).Pruned := by
  obtain ⟨t, hr, _, h2, _⟩ := h
  rw [hr.toNode]; exact h2

/-! ## the operations commute with the inductive model -/

/-- **`get` / `contains_key`** (every key) -/
theorem get_commutes (st : PT) (tr : Triple) (h : WF cmp st) (key : Key) :
    PTST.get cmp st key = (absT st tr).root.lookup cmp key ∧
    (absT st tr).get cmp key = (match PTST.get cmp st key with
      | some e => (.ok, some e.2) | none => (.errKeyNotFound, none)) := by
  obtain ⟨t, hr, _⟩ := h
  have := get_represents cmp hr key
  simp only [absT, hr.toNode, Table.get, ← this]
  exact ⟨trivial, by cases PTST.get cmp st key <;> rfl⟩

/-- **`add`** (every key, every allocator schedule): told whether the inductive `add` succeeded, the pointer
level ends in the state the inductive result abstracts to; `WF` is kept; a success allocates exactly the
nodes of the suffix chain (serials `fresh, fresh+1, …`) and frees nothing, a refusal changes nothing -/
theorem add_commutes (st : PT) (tr : Triple) (h : WF cmp st) (key : Key) (v : Nat) (mem : Mem) :
    absT (PTST.add cmp st key v (((absT st tr).add cmp key v mem).1 == .ok)) tr = ((absT st tr).add cmp key v mem).2.1 ∧
    WF cmp (PTST.add cmp st key v (((absT st tr).add cmp key v mem).1 == .ok)) ∧
    (PTST.add cmp st key v (((absT st tr).add cmp key v mem).1 == .ok)).freed = [] ∧
    (∀ i, (PTST.add cmp st key v (((absT st tr).add cmp key v mem).1 == .ok)).heap.has i = true ↔
      (st.heap.has i = true ∨ (st.fresh ≤ i ∧
        i < (PTST.add cmp st key v (((absT st tr).add cmp key v mem).1 == .ok)).fresh))) := by
  have hinv := wf_inv st tr h
  obtain ⟨t, hr, h1, h2, h3⟩ := h
  by_cases hok : ((absT st tr).add cmp key v mem).1 = .ok
  · have hb : (((absT st tr).add cmp key v mem).1 == Stat.ok) = true := by simp [hok]
    rw [hb]
    obtain ⟨a1, a2, a3, a4⟩ := add_represents cmp hr key v
    have hspec := ins_spec (tr := tr) (cmp := cmp) key v (toNode st) key mem
    have hok' : ((toNode st).ins tr cmp key v key mem).st = .ok := hok
    obtain ⟨q1, _, q3⟩ := hspec.1 hok'
    have he := erase_insI cmp key (key, v) st.fresh t 0 (by omega)
    simp only [List.drop_zero] at he
    have hmk := marked_insI_top cmp key v st.fresh t
    have hroot : toNode (PTST.add cmp st key v true) = ((toNode st).ins tr cmp key v key mem).node := by
      rw [a1.toNode, he, q1, hr.toNode]
    have hsize : (PTST.add cmp st key v true).size =
        (if ((toNode st).ins tr cmp key v key mem).inc = true then st.size + 1 else st.size) := by
      rw [a2]
      have hm2 := q3
      rw [q1, hr.toNode, ← he, hmk] at hm2
      rw [hr.toNode]
      by_cases hl : (t.erase.lookup cmp key).isSome = true <;>
        by_cases hi : (t.erase.ins tr cmp key v key mem).inc = true <;> simp [hl, hi] at hm2 ⊢
    refine ⟨?_, ⟨_, a1, ?_, ?_, ?_⟩, a4, ?_⟩
    · show (⟨_, _, _⟩ : Table) = ⟨_, _, _⟩
      simp only [absT] at hroot hsize ⊢
      rw [hroot, hsize]; rfl
    · rw [a2, hmk, h1]
    · rw [he]; exact pruned_insPure _ _ _ h2
    · rw [he]; exact ordered_insPure _ _ _ h3
    · intro i
      rw [a1.dom, mem_ids_insI, hr.dom, a3]
  · have hb : (((absT st tr).add cmp key v mem).1 == Stat.ok) = false := by simp [hok]
    rw [hb, add_refused]
    have hat := Table.add_atomic_any (cmp := cmp) (absT st tr) key v mem hok
    refine ⟨by rw [hat.2.1]; rfl, ⟨t, ⟨hr.root, hr.rep, hr.nodup, hr.fresh, hr.count, hr.dom⟩, h1, h2, h3⟩, rfl, ?_⟩
    intro i
    constructor
    · intro hi; exact Or.inl hi
    · rintro (hi | hi)
      · exact hi
      · simp only at hi; omega

/-- **`remove`** (every key): the pointer level ends in the state the inductive result abstracts to; `WF` is
kept — in particular the `parent` pointers of all surviving nodes are right after pruning; the freed ids are
exactly the blocks that disappear from the heap, and they form one dead branch: entry-less nodes with at
most one child each (after the removed key's entry was cleared), freed bottom-up -/
theorem remove_commutes (st : PT) (tr : Triple) (h : WF cmp st) (key : Key) (mem : Mem) :
    absT (PTST.remove cmp st key) tr = ((absT st tr).remove cmp key mem).2.2.1 ∧
    WF cmp (PTST.remove cmp st key) ∧
    (∀ i, (PTST.remove cmp st key).heap.has i = true ↔ (st.heap.has i = true ∧ i ∉ (PTST.remove cmp st key).freed)) ∧
    (∀ i ∈ (PTST.remove cmp st key).freed, st.heap.has i = true) ∧
    (∃ t u : INode, Represents st t ∧ (u = .nil ∨ ∃ x q0, u = (t.setDataI x none).sub q0) ∧ Bare u ∧
      ∀ j, j ∈ (PTST.remove cmp st key).freed ↔ j ∈ u.ids) := by
  have hinv := wf_inv st tr h
  obtain ⟨t, hr, h1, h2, h3⟩ := h
  rcases remove_represents cmp tr hr key mem with ⟨p, x, e, f1, f2, f3, f4, f5, f6, f7, f8⟩ | ⟨f1, f2⟩
  · have hmem := mem_pruneI (t.setDataI x none) p (by rw [INode.setDataI_ids]; exact hr.nodup)
    rw [INode.setDataI_ids] at hmem
    have hfsub := pruneI_freed_sub (t.setDataI x none) p
    rw [INode.setDataI_ids] at hfsub
    -- the node at `p` carries the entry
    have hsubp : ∃ c l m r, t.sub p = .node x c (some e) l m r := by
      rw [← INode.erase_sub, INode.erase_data] at f2
      cases hh : t.sub p with
      | nil => rw [hh] at f2; simp [INode.data?] at f2
      | node id c d l m r =>
        rw [hh] at f2 f3; simp only [INode.data?, INode.rid_node] at f2 f3
        subst f2 f3; exact ⟨c, l, m, r, rfl⟩
    obtain ⟨c, l, m, r, hsubp⟩ := hsubp
    have hmk1 := marked_setDataI_target t p x c e l m r hr.nodup hsubp
    have hmk2 := marked_pruneI (t.setDataI x none) p
    have hrm : (absT st tr).remove cmp key mem =
        (.ok, some e.2, (⟨(if st.size > 0 then st.size - 1 else 0), (t.erase.remAt tr p mem).node, tr⟩ : Table),
          (t.erase.remAt tr p mem).mem) := by
      simp only [absT, Table.remove, hr.toNode, f1, f2]
    refine ⟨?_, ⟨_, f4, ?_, ?_, ?_⟩, ?_, ?_, ⟨t, ?_⟩⟩
    · rw [hrm]; simp only [absT, f4.toNode, f5, f7]
    · rw [f7, hmk2, h1]; split <;> omega
    · rw [f5]; exact pruned_remAt _ _ _ h2
    · rw [f5]; exact ordered_remAt _ _ _ h3
    · intro i; rw [f4.dom, hmem, hr.dom, f6]
    · intro i hi; rw [f6] at hi; exact (hr.dom i).mpr (hfsub i hi)
    · obtain ⟨u, hu, hb, hm⟩ := pruneI_freed_dead (t.setDataI x none) p
      refine ⟨u, hr, ?_, hb, by rw [f6]; exact hm⟩
      rcases hu with hu | ⟨q0, hu⟩
      · exact Or.inl hu
      · exact Or.inr ⟨x, q0, hu⟩
  · rw [f2]
    have hrm : ((absT st tr).remove cmp key mem).2.2.1 = absT st tr := by
      simp only [absT, Table.remove, hr.toNode]
      rcases f1 with f1 | ⟨p, f1, f1'⟩
      · simp [f1]
      · simp [f1, f1']
    refine ⟨by rw [hrm]; rfl, ⟨t, ⟨hr.root, hr.rep, hr.nodup, hr.fresh, hr.count, hr.dom⟩, h1, h2, h3⟩, ?_, ?_,
      ⟨t, .nil, hr, Or.inl rfl, trivial, ?_⟩⟩
    · intro i; simp
    · intro i hi; simp at hi
    · intro j; simp

/-- **`remove_all`**: the loop frees every node exactly once, in post-order (left, mid, right, node), the heap
is empty afterwards and `size` went down by one per entry — the inductive `remove_all` -/
theorem removeAll_commutes (st : PT) (tr : Triple) (h : WF cmp st) (mem : Mem) :
    absT (PTST.removeAll st) tr = ((absT st tr).removeAll mem).1 ∧ WF cmp (PTST.removeAll st) ∧
    (∀ i, (PTST.removeAll st).heap.has i = false) ∧
    (∀ i, i ∈ (PTST.removeAll st).freed ↔ st.heap.has i = true) ∧ (PTST.removeAll st).freed.Nodup := by
  obtain ⟨t, hr, h1, h2, h3⟩ := h
  obtain ⟨r1, r2, r3, r4⟩ := removeAll_represents hr
  have hperm := postI_perm t
  refine ⟨?_, ⟨.nil, r1, ?_, trivial, trivial⟩, ?_, ?_, ?_⟩
  · simp only [absT, Table.removeAll, r1.toNode, hr.toNode, freeAll_fst, r2]; rfl
  · rw [r2, h1]
    -- every entry is counted: `marked ≤ size` so the `size_t` decrements do not wrap
    have : ∀ (n : Node) (s : Nat), n.marked ≤ s → n.freeAllSize s = s - n.marked := by
      intro n
      induction n with
      | nil => intro s _; simp [Node.freeAllSize, Node.marked]
      | node c d l m r ihl ihm ihr =>
        intro s hs
        simp only [Node.marked] at hs
        simp only [Node.freeAllSize, Node.marked]
        rw [ihl s (by omega), ihm _ (by omega), ihr _ (by omega)]
        cases d with
        | none => simp; omega
        | some e =>
          simp only [Option.isSome_some, if_true] at hs ⊢
          simp only [decSize]
          split <;> omega
    rw [this _ _ (Nat.le_refl _)]; simp [Node.marked]
  · intro i
    cases hh : (PTST.removeAll st).heap.has i with
    | false => rfl
    | true => have := (r1.dom i).mp hh; simp at this
  · intro i; rw [r3, mem_postI, hr.dom]
  · rw [r3]; exact hperm.nodup_iff.mpr hr.nodup

/-- the structural half of `iter_remove`: `remove_eow_node` at any node that carries an entry — the same
pruning, for a node given by its address instead of its key -/
theorem removeEow_commutes (st : PT) (tr : Triple) (h : WF cmp st) (p : Path) (mem : Mem) (x : Nat) (e : Entry)
    (hx : ∃ t, Represents st t ∧ (t.sub p).rid = x ∧ (t.sub p).data? = some e) :
    toNode (removeEow st x) = ((toNode st).remAt tr p mem).node ∧
    (∃ t', Represents (removeEow st x) t' ∧ t'.erase.Pruned ∧ t'.erase.Ordered cmp) := by
  obtain ⟨t0, hr0, h1, h2, h3⟩ := h
  obtain ⟨t, hr, hx1, hx2⟩ := hx
  have hsubp : ∃ c l m r, t.sub p = .node x c (some e) l m r := by
    cases hh : t.sub p with
    | nil => rw [hh] at hx2; simp [INode.data?] at hx2
    | node id c d l m r =>
      rw [hh] at hx1 hx2; simp only [INode.data?, INode.rid_node] at hx1 hx2
      subst hx1 hx2; exact ⟨c, l, m, r, rfl⟩
  obtain ⟨c, l, m, r, hsubp⟩ := hsubp
  obtain ⟨r1, _, _, _⟩ := removeEow_represents hr p x c e l m r hsubp
  obtain ⟨e1, _⟩ := erase_pruneI tr t p mem e hr.nodup hx2
  rw [hx1] at e1
  have ht : t.erase = t0.erase := by rw [← hr.toNode, ← hr0.toNode]
  refine ⟨by rw [r1.toNode, e1, hr.toNode], _, r1, ?_, ?_⟩
  · rw [e1, ht]; exact pruned_remAt _ _ _ h2
  · rw [e1, ht]; exact ordered_remAt _ _ _ h3

/-! ## the iterator: node pointers against node paths -/

/-- a pointer iterator stands for a path iterator of `Model/TST.lean`: `current_node` / `next_node` are the
ids of the nodes at the two paths (NULL for none), the `advanced_on_remove` mode agrees -/
def IterRel (st : PT) (pit : PIter) (it : Iter) : Prop := ∃ t, Represents st t ∧ pit = absIt t it

/-- **`iter_init`** -/
theorem iter_init_commutes (st : PT) (tr : Triple) (h : WF cmp st) :
    IterRel st (PTST.iterInit st) (TST.iterInit (absT st tr)) := by
  obtain ⟨t, hr, _⟩ := h
  refine ⟨t, hr, ?_⟩
  simp only [absT, hr.toNode]
  exact (iterInit_corr hr st.size tr).1

/-- **`iter_next`** (either mode): the pointer comparisons of the `while (node)` loop (`previous_node ==
node->parent`, `== node->left`, …) decide like the path automaton, turn by turn — node ids are injective on
a well-formed heap —, so the status is the same, the node handed out is an allocated node whose record
carries exactly the yielded entry, and the new pointers stand for the new paths.  The pointer loop's fuel
(`2·fresh + 2`) is never exhausted. -/
theorem iter_next_commutes (st : PT) (tr : Triple) (pit : PIter) (it : Iter) (todo : List (Path × Entry))
    (mem : Mem) (hrel : IterRel st pit it) (hok : IterOk (toNode st) it todo) :
    (PTST.iterNext st pit).1 = (TST.iterNext (absT st tr) it mem).st ∧
    IterRel st (PTST.iterNext st pit).2.2 (TST.iterNext (absT st tr) it mem).it ∧
    ((TST.iterNext (absT st tr) it mem).st = .ok →
      st.heap.has (PTST.iterNext st pit).2.1 = true ∧
      (st.heap.get (PTST.iterNext st pit).2.1).data = (TST.iterNext (absT st tr) it mem).out ∧
      (TST.iterNext (absT st tr) it mem).out.isSome = true) := by
  obtain ⟨t, hr, rfl⟩ := hrel
  simp only [absT, hr.toNode] at hok ⊢
  have hv := iterOk_valid t hr.rep hr.nodup it todo hok
  obtain ⟨c1, c2, c3⟩ := iterNext_corr hr st.size tr it todo hok hv mem
  rw [c1]
  refine ⟨rfl, ⟨t, hr, rfl⟩, ?_⟩
  intro hst
  simp only [hst, if_true]
  have hk := iterNext_ok ⟨st.size, t.erase, tr⟩ it mem todo hok
  cases todo with
  | nil => simp only [] at hk; rw [hk.2.2.1] at hst; cases hst
  | cons x tl =>
    simp only [] at hk
    obtain ⟨_, _, _, k2, _, k4⟩ := hk
    refine ⟨?_, (c3 hst).symm, by rw [k2]; rfl⟩
    rw [hr.dom, k4]
    have := c2.1; rw [k4] at this
    exact INode.rid_sub_mem t x.1 this

/-- **`iter_remove`** of the entry yielded last: the heap afterwards abstracts to the inductive result
(the target's entry cleared, its dead ancestors freed through `parent`), `WF` is kept, and the saved
`current_node` / `next_node` pointers — computed by the inner `iter_next` *before* the unlinking — are, in the
pruned heap, the nodes the path iterator stands at: not dangling, nothing skipped (`IterOk … todo`) -/
theorem iter_remove_commutes (st : PT) (tr : Triple) (h : WF cmp st) (pit : PIter) (it : Iter) (w : Bool)
    (mem : Mem) (todo : List (Path × Entry)) (p : Path) (e : Entry) (hrel : IterRel st pit it)
    (hat : IterAt (toNode st) it todo) (hadv : it.adv = false) (hcur : it.cur = some p)
    (hd : ((toNode st).sub p).data? = some e) :
    absT (PTST.iterRemove st pit).1 tr = (TST.iterRemove (absT st tr) it w mem).2.2.1 ∧
    WF cmp (PTST.iterRemove st pit).1 ∧
    IterRel (PTST.iterRemove st pit).1 (PTST.iterRemove st pit).2 (TST.iterRemove (absT st tr) it w mem).2.2.2.1 ∧
    IterOk (toNode (PTST.iterRemove st pit).1) (TST.iterRemove (absT st tr) it w mem).2.2.2.1 todo ∧
    (∀ i ∈ (PTST.iterRemove st pit).1.freed, st.heap.has i = true ∧ (PTST.iterRemove st pit).1.heap.has i = false) := by
  obtain ⟨t0, hr0, h1, h2, h3⟩ := h
  obtain ⟨t, hr, rfl⟩ := hrel
  have ht : t.erase = t0.erase := by rw [← hr.toNode, ← hr0.toNode]
  simp only [absT, hr.toNode] at hat hd ⊢
  obtain ⟨q1, q2, q3, q4, q5, q6, q7⟩ := iterRemove_corr hr st.size tr it w mem todo p e hat hadv hcur hd
  have hdI : (t.sub p).data? = some e := by rw [← INode.erase_data, INode.erase_sub]; exact hd
  obtain ⟨x, c, l, m, r, hsub⟩ : ∃ x c l m r, t.sub p = .node x c (some e) l m r := by
    cases hh : t.sub p with
    | nil => rw [hh] at hdI; simp [INode.data?] at hdI
    | node id c d l m r =>
      rw [hh] at hdI; simp only [INode.data?] at hdI
      subst hdI; exact ⟨id, c, l, m, r, rfl⟩
  have e1 := (erase_pruneI tr t p mem e hr.nodup hdI).1
  have hmk1 := marked_setDataI_target t p x c e l m r hr.nodup hsub
  have hmk2 := marked_pruneI (t.setDataI x none) p
  rw [hsub, INode.rid_node] at q1 q2 q3 q4 q7 e1
  have hmem := mem_pruneI (t.setDataI x none) p (by rw [INode.setDataI_ids]; exact hr.nodup)
  rw [INode.setDataI_ids] at hmem
  have hfsub := pruneI_freed_sub (t.setDataI x none) p
  rw [INode.setDataI_ids] at hfsub
  refine ⟨?_, ⟨_, q1, ?_, ?_, ?_⟩, ⟨_, q1, q3⟩, by rw [q1.toNode]; exact q4, ?_⟩
  · rw [q2, q1.toNode, q6]
  · rw [q6, hmk2, h1, ← ht]; simp only [decSize]; split <;> omega
  · rw [e1, ht]; exact pruned_remAt _ _ _ h2
  · rw [e1, ht]; exact ordered_remAt _ _ _ h3
  · intro i hi
    rw [q7] at hi
    have hti := hfsub i hi
    refine ⟨(hr.dom i).mpr hti, ?_⟩
    cases hh : (PTST.iterRemove st (absIt t it)).1.heap.has i with
    | false => rfl
    | true =>
      have := (q1.dom i).mp hh
      rw [hmem] at this
      exact absurd hi this.2

/-- **`iter_remove`** with nothing yielded, or called again for the same entry (repair X7): no pointer is
touched -/
theorem iter_remove_inert (st : PT) (pit : PIter) (h : pit.cur = 0 ∨ pit.adv = true) :
    PTST.iterRemove st pit = ({ st with freed := [] }, pit) := by
  unfold PTST.iterRemove
  simp only [h, if_true]

/-! ## map-level corollaries (compose with `Properties/C11.lean`; the empty key is excluded there: X5) -/

/-- `get` on the heap answers like the ideal map -/
theorem get_refines_map_partial (hc : CmpLaw cmp) (st : PT) (tr : Triple) (h : WF cmp st) (key : Key)
    (hk : key ≠ []) (hko : (toNode st).KeysOk) :
    (PTST.get cmp st key).map (·.2) = (absT st tr).abs.get key := by
  have hinv := wf_inv st tr h
  have hg : (absT st tr).Good cmp := ⟨hinv, hko⟩
  have h1 := (get_commutes st tr h key).1
  rw [h1, abs_get hc (absT st tr) hinv.2.2 hko]
  simp [hk]

/-- after a successful `add` of a non-empty key the heap answers `get` like the map with the key added -/
theorem add_refines_map_partial (hc : CmpLaw cmp) (st : PT) (tr : Triple) (h : WF cmp st) (key : Key) (v : Nat)
    (mem : Mem) (hk : key ≠ []) (hko : (toNode st).KeysOk) (hok : ((absT st tr).add cmp key v mem).1 = .ok) (k' : Key) :
    (absT (PTST.add cmp st key v true) tr).abs.get k' = ((absT st tr).abs.add key v).get k' := by
  have hinv := wf_inv st tr h
  have hg : (absT st tr).Good cmp := ⟨hinv, hko⟩
  have hcm := (add_commutes st tr h key v mem).1
  have hb : (((absT st tr).add cmp key v mem).1 == Stat.ok) = true := by simp [hok]
  rw [hb] at hcm
  rw [hcm]
  exact ((C11.add_refines_partial hc (absT st tr) key v mem hk hg).2.1 hok).2.1 k'

/-! ## non-vacuity: the heap after `add "ab" 1; add "a" 2; add "ac" 3` from the empty table is well-formed and
abstracts to the inductive trie with nested prefixes (the hash-map heap itself is not evaluated by the kernel:
the facts come from the theorems above, the inductive side by `decide`) -/

def demo : PT := PTST.add cmpSigned (PTST.add cmpSigned (PTST.add cmpSigned {} [97, 98] 1 true) [97] 2 true) [97, 99] 3 true

theorem demo_spec : WF cmpSigned demo ∧
    absT demo .conf = ⟨3, .node 97 (some ([97], 2)) .nil
      (.node 98 (some ([97, 98], 1)) .nil .nil (.node 99 (some ([97, 99], 3)) .nil .nil .nil)) .nil, .conf⟩ := by
  have ok : ∀ (t : Table) (k : Key) (v : Nat), ((t.add cmpSigned k v {}).1 == Stat.ok) = true := by
    intro t k v; simp [Table.add_unrefused t k v {} rfl]
  have s0 : absT ({} : PT) .conf = ⟨0, .nil, .conf⟩ := by
    simp only [absT, (new_represents).toNode]; rfl
  have w0 : WF cmpSigned ({} : PT) := new_wf
  have a1 := add_commutes ({} : PT) .conf w0 [97, 98] 1 {}
  rw [ok] at a1
  have a2 := add_commutes _ .conf a1.2.1 [97] 2 {}
  rw [ok] at a2
  have a3 := add_commutes _ .conf a2.2.1 [97, 99] 3 {}
  rw [ok] at a3
  refine ⟨a3.2.1, ?_⟩
  show absT (PTST.add cmpSigned (PTST.add cmpSigned (PTST.add cmpSigned {} [97, 98] 1 true) [97] 2 true) [97, 99] 3 true) .conf = _
  rw [a3.1, a2.1, a1.1, s0]
  decide

/-- the inductive table `demo` stands for -/
def demoT : Table := ⟨3, .node 97 (some ([97], 2)) .nil
  (.node 98 (some ([97, 98], 1)) .nil .nil (.node 99 (some ([97, 99], 3)) .nil .nil .nil)) .nil, .conf⟩

/-- non-vacuity of the iterator theorems: on that heap the first `iter_next` hands out an allocated node whose
record carries `("a", 2)` (the root: first-arrival pre-order), the second one the node of `("ab", 1)` -/
example : (PTST.iterNext demo (PTST.iterInit demo)).1 = .ok ∧
    demo.heap.has (PTST.iterNext demo (PTST.iterInit demo)).2.1 = true ∧
    (demo.heap.get (PTST.iterNext demo (PTST.iterInit demo)).2.1).data = some ([97], 2) ∧
    (PTST.iterNext demo (PTST.iterNext demo (PTST.iterInit demo)).2.2).1 = .ok ∧
    (demo.heap.get (PTST.iterNext demo (PTST.iterNext demo (PTST.iterInit demo)).2.2).2.1).data = some ([97, 98], 1) := by
  obtain ⟨hw, ha⟩ := demo_spec
  have ha : absT demo .conf = demoT := ha
  have hT : toNode demo = demoT.root := congrArg Table.root ha
  have hE : demoT.root.entriesP = [([], ([97], 2)), ([.M], ([97, 98], 1)), ([.M, .R], ([97, 99], 3))] := by decide
  -- the path level, evaluated
  have hok' : IterOk demoT.root (TST.iterInit demoT) [([], ([97], 2)), ([.M], ([97, 98], 1)), ([.M, .R], ([97, 99], 3))] :=
    Or.inl ⟨rfl, hE ▸ iterInit_at demoT⟩
  have k1 := iterNext_ok demoT _ {} _ hok'
  simp only [] at k1
  obtain ⟨_, _, e1, e2, hok2', _⟩ := k1
  have k2 := iterNext_ok demoT _ {} _ hok2'
  simp only [] at k2
  obtain ⟨_, _, e3, e4, _, _⟩ := k2
  -- the pointer level, by the theorems
  have rel := iter_init_commutes demo .conf hw
  have hok : IterOk (toNode demo) (TST.iterInit (absT demo .conf))
      [([], ([97], 2)), ([.M], ([97, 98], 1)), ([.M, .R], ([97, 99], 3))] := by rw [ha, hT]; exact hok'
  obtain ⟨a1, a2, a3⟩ := iter_next_commutes demo .conf _ _ _ {} rel hok
  have hok2 : IterOk (toNode demo) (TST.iterNext (absT demo .conf) (TST.iterInit (absT demo .conf)) {}).it
      [([.M], ([97, 98], 1)), ([.M, .R], ([97, 99], 3))] := by
    rw [ha, hT]; exact hok2'
  obtain ⟨c1, _, c3⟩ := iter_next_commutes demo .conf _ _ _ {} a2 hok2
  rw [ha] at a1 a3 c1 c3
  obtain ⟨b1, b2, _⟩ := a3 e1
  exact ⟨by rw [a1, e1], b1, by rw [b2, e2], by rw [c1, e3], by rw [(c3 e3).2.1, e4]⟩

/-! ## histories: `pstep` / `prun` (`Model/PTSTHistory.lean`) against `Table.step` / `Table.run` -/

local macro "triv" : tactic => `(tactic| first | rfl | trivial | simp)

/-- the saved node pointers of a related iterator are NULL or live nodes -/
theorem iterRel_live (st : PT) (pit : PIter) (it : Iter) (todo : List (Path × Entry)) (hrel : IterRel st pit it)
    (hok : IterOk (toNode st) it todo) :
    (pit.cur = 0 ∨ st.heap.has pit.cur = true) ∧ (pit.next = 0 ∨ st.heap.has pit.next = true) := by
  obtain ⟨t, hr, rfl⟩ := hrel
  rw [hr.toNode] at hok
  obtain ⟨v1, v2⟩ := iterOk_valid t hr.rep hr.nodup it todo hok
  have key : ∀ a : Option Path, ValidP t a → idAt t a = 0 ∨ st.heap.has (idAt t a) = true := by
    intro a ha
    cases a with
    | none => left; rfl
    | some q => right; rw [hr.dom]; exact INode.rid_sub_mem t q ha
  exact ⟨key _ v1, key _ v2⟩

/-- **one call of an iterator session**: same result, the states stay related, the iterator invariant goes on -/
theorem piterOp_refines (st : PT) (tr : Triple) (h : WF cmp st) (pit : PIter) (it : Iter)
    (todo : List (Path × Entry)) (op : Spec.StrMap.IOp) (mem : Mem) (hrel : IterRel st pit it)
    (hok : IterOk (toNode st) it todo) (hcm : it.curMarked (toNode st)) :
    (piterOp cmp st pit op).1 = ((absT st tr).iterOp cmp it op mem).1 ∧
    absT (piterOp cmp st pit op).2.1 tr = ((absT st tr).iterOp cmp it op mem).2.1 ∧
    WF cmp (piterOp cmp st pit op).2.1 ∧
    IterRel (piterOp cmp st pit op).2.1 (piterOp cmp st pit op).2.2 ((absT st tr).iterOp cmp it op mem).2.2.1 ∧
    ∃ todo', IterOk (toNode (piterOp cmp st pit op).2.1) ((absT st tr).iterOp cmp it op mem).2.2.1 todo' ∧
      ((absT st tr).iterOp cmp it op mem).2.2.1.curMarked (toNode (piterOp cmp st pit op).2.1) := by
  have hinv := wf_inv st tr h
  -- the iterator invariant after the call: `Table.iterOp_struct` on a ledger that covers the table
  let big : Mem := { live := (toNode st).owned + 1, liveLibc := (toNode st).owned + 1 }
  have hbig : (absT st tr).Owns big := by
    unfold Table.Owns; cases tr <;> simp [absT, big, Mem.liveT]
  obtain ⟨_, todo', s1, s2⟩ := Table.iterOp_struct (cmp := cmp) (absT st tr) it op big todo hinv hbig hok hcm
  obtain ⟨_, i2, i3⟩ := Table.iterOp_indep (cmp := cmp) (absT st tr) it op mem big
  rw [← i2, ← i3] at s1 s2
  cases op with
  | next =>
    obtain ⟨c1, c2, c3⟩ := iter_next_commutes st tr pit it todo mem hrel hok
    have hk := iterNext_ok (absT st tr) it mem todo hok
    simp only [piterOp, Table.iterOp] at s1 s2 ⊢
    refine ⟨?_, by triv, h, c2, todo', s1, s2⟩
    rw [c1]
    by_cases hst : (iterNext (absT st tr) it mem).st = .ok
    · obtain ⟨_, d2, _⟩ := c3 hst
      simp only [hst, if_true, d2]
    · have hnone : (iterNext (absT st tr) it mem).out = none := by
        cases todo with
        | nil => exact hk.2.2.2.1
        | cons x tl => exact absurd hk.2.2.1 hst
      simp only [hst, if_false, hnone, Option.map_none]
  | remove w =>
    simp only [piterOp, Table.iterOp] at s1 s2 ⊢
    obtain ⟨t, hr, rfl⟩ := hrel
    have hok' := hok; rw [hr.toNode] at hok'
    have hv := iterOk_valid t hr.rep hr.nodup it todo hok'
    by_cases hin : it.cur = none ∨ it.adv = true
    · have hP : ((absIt t it).cur = 0 ∨ (absIt t it).adv = true) := by
        rcases hin with hc | ha
        · left; simp [absIt, hc]
        · right; exact ha
      rw [iterRemove_inert (absT st tr) it w mem hin] at s1 s2 ⊢
      simp only [hP, if_true]
      obtain ⟨t0, hr0, q1, q2, q3⟩ := h
      exact ⟨by triv, by triv, ⟨t0, ⟨hr0.root, hr0.rep, hr0.nodup, hr0.fresh, hr0.count, hr0.dom⟩, q1, q2, q3⟩,
        ⟨t, ⟨hr.root, hr.rep, hr.nodup, hr.fresh, hr.count, hr.dom⟩, by triv⟩, todo', s1, s2⟩
    · have hadv : it.adv = false := by
        cases ha : it.adv with
        | false => rfl
        | true => exact absurd (Or.inr ha) hin
      cases hcur : it.cur with
      | none => exact absurd (Or.inl hcur) hin
      | some p =>
        obtain ⟨e, hd⟩ := hcm p hcur
        have hat : IterAt (toNode st) it todo := by
          rcases hok with ⟨_, hh⟩ | ⟨hh, _⟩
          · exact hh
          · rw [hadv] at hh; cases hh
        have hp : t.sub p ≠ .nil := by have := hv.1; rw [hcur] at this; exact this
        have hx0 : (t.sub p).rid ≠ 0 := hr.rep.ids_ne _ (INode.rid_sub_mem t p hp)
        have hP : ¬ ((absIt t it).cur = 0 ∨ (absIt t it).adv = true) := by
          simp [absIt, hcur, hadv, hx0]
        obtain ⟨r1, r2, r3, r4, r5⟩ := iter_remove_commutes st tr h (absIt t it) it w mem todo p e ⟨t, hr, rfl⟩ hat hadv hcur hd
        obtain ⟨k1, k2, _⟩ := iterRemove_ok (absT st tr) it w mem todo p e hat hadv hcur hd
        have hdat : (st.heap.get (absIt t it).cur).data = some e := by
          have := (iterStep_corr t hr.rep hr.nodup p none trivial hp).2.2.2
          simp only [absIt, hcur, idAt_some]
          rw [this, ← INode.erase_data, INode.erase_sub, ← hr.toNode]; exact hd
        simp only [hP, if_false, hdat, Option.map_some]
        have hroot : toNode (PTST.iterRemove st (absIt t it)).1 = (TST.iterRemove (absT st tr) it w mem).2.2.1.root :=
          congrArg Table.root r1
        refine ⟨?_, r1, r2, r3, todo', by rw [hroot]; exact s1, by rw [hroot]; exact s2⟩
        rw [k1, k2]
  | get k =>
    simp only [piterOp, Table.iterOp] at s1 s2 ⊢
    obtain ⟨g1, g2⟩ := get_commutes st tr h k
    refine ⟨?_, by triv, h, hrel, todo', s1, s2⟩
    rw [g2]; cases PTST.get cmp st k <;> rfl
  | contains k =>
    simp only [piterOp, Table.iterOp] at s1 s2 ⊢
    obtain ⟨g1, g2⟩ := get_commutes st tr h k
    refine ⟨?_, by triv, h, hrel, todo', s1, s2⟩
    simp only [Table.containsKey, g2]
    cases PTST.get cmp st k <;> rfl
  | size => exact ⟨rfl, rfl, h, hrel, todo', s1, s2⟩

/-- **iterator program theorem at pointer level.**  Any program of `iter_next` / `iter_remove` / query calls on the
heap returns, call by call, what the path iterator of the inductive model returns (hence, by
`C11.iter_program_refines_partial`, exactly the statuses and values of the ideal cursor: each remaining key once, in
order, `CC_ITER_END` when none is left); the final heap abstracts to the inductive final table and is well-formed;
the saved `current_node` / `next_node` ids are NULL or live nodes after every prefix (the statement holds for every
program, so for every prefix) -/
theorem piter_program_refines (prog : List Spec.StrMap.IOp) : ∀ (st : PT) (tr : Triple) (pit : PIter) (it : Iter)
    (todo : List (Path × Entry)) (mem : Mem), WF cmp st → IterRel st pit it → IterOk (toNode st) it todo →
    it.curMarked (toNode st) →
    (piterRun cmp st pit prog).1 = ((absT st tr).iterRun cmp it prog mem).1 ∧
    absT (piterRun cmp st pit prog).2.1 tr = ((absT st tr).iterRun cmp it prog mem).2.1 ∧
    WF cmp (piterRun cmp st pit prog).2.1 ∧
    IterRel (piterRun cmp st pit prog).2.1 (piterRun cmp st pit prog).2.2 ((absT st tr).iterRun cmp it prog mem).2.2.1 ∧
    (((piterRun cmp st pit prog).2.2.cur = 0 ∨ (piterRun cmp st pit prog).2.1.heap.has (piterRun cmp st pit prog).2.2.cur = true) ∧
     ((piterRun cmp st pit prog).2.2.next = 0 ∨ (piterRun cmp st pit prog).2.1.heap.has (piterRun cmp st pit prog).2.2.next = true)) := by
  induction prog with
  | nil =>
    intro st tr pit it todo mem h hrel hok hcm
    exact ⟨rfl, rfl, h, hrel, iterRel_live st pit it todo hrel hok⟩
  | cons op prog ih =>
    intro st tr pit it todo mem h hrel hok hcm
    obtain ⟨a1, a2, a3, a4, todo', a5, a6⟩ := piterOp_refines st tr h pit it todo op mem hrel hok hcm
    have := ih (piterOp cmp st pit op).2.1 tr (piterOp cmp st pit op).2.2 ((absT st tr).iterOp cmp it op mem).2.2.1
      todo' ((absT st tr).iterOp cmp it op mem).2.2.2 a3 a4 a5 a6
    rw [a2] at this
    simp only [piterRun, Table.iterRun]
    exact ⟨by rw [a1, this.1], this.2.1, this.2.2.1, this.2.2.2.1, this.2.2.2.2⟩

/-- a complete pass of the pointer iterator yields the entries of the inductive enumeration, in its order -/
theorem iterAllLoop_refines (st : PT) (tr : Triple) : ∀ (n : Nat) (pit : PIter) (it : Iter) (todo : List (Path × Entry)),
    IterRel st pit it → IterOk (toNode st) it todo → todo.length < n →
    PTST.iterAllLoop st n pit = todo.map (·.2) := by
  intro n
  induction n with
  | zero => intro pit it todo _ _ hl; omega
  | succ n ih =>
    intro pit it todo hrel hok hl
    obtain ⟨c1, c2, c3⟩ := iter_next_commutes st tr pit it todo {} hrel hok
    have hk := iterNext_ok (absT st tr) it {} todo hok
    simp only [PTST.iterAllLoop]
    cases todo with
    | nil =>
      simp only [] at hk
      rw [c1, hk.2.2.1]; simp
    | cons x tl =>
      simp only [] at hk
      obtain ⟨_, _, k1, k2, k3, _⟩ := hk
      obtain ⟨_, d2, _⟩ := c3 k1
      have hne : ¬ (PTST.iterNext st pit).1 = .iterEnd := by rw [c1, k1]; simp
      simp only [hne, if_false, d2, k2]
      rw [ih _ _ tl c2 k3 (by simp at hl; omega)]
      rfl

theorem iterAll_refines (st : PT) (tr : Triple) (h : WF cmp st) (mem : Mem) :
    PTST.iterAll st = (TST.iterAll (absT st tr) mem).1 := by
  obtain ⟨t, hr, _⟩ := id h
  rw [iterAll_eq, ← entriesP_map_snd]
  unfold PTST.iterAll
  apply iterAllLoop_refines st tr _ _ _ _ (iter_init_commutes st tr h) (Or.inl ⟨rfl, iterInit_at (absT st tr)⟩)
  show (toNode st).entriesP.length < st.fresh
  rw [entriesP_length, hr.toNode]
  have := marked_le_nodes t.erase
  have := INode.erase_nodes t
  have := hr.count
  omega

/-- **one operation of a history**: the pointer level returns what the inductive model returns, ends in the heap that
abstracts to the inductive state, and stays well-formed — for every key (the empty one included: X5 is the same on
both levels) and every refusal schedule (the pointer level counts `add`'s allocator requests itself) -/
theorem pstep_refines (st : PT) (tr : Triple) (h : WF cmp st) (op : POp) (mem : Mem) :
    (pstep tr cmp st op).1 = ((absT st tr).step cmp op mem).1 ∧
    absT (pstep tr cmp st op).2 tr = ((absT st tr).step cmp op mem).2.1 ∧
    WF cmp (pstep tr cmp st op).2 := by
  cases op with
  | add k v sched =>
    obtain ⟨t, hr, _⟩ := id h
    have hiff := Table.add_ok_iff cmp (absT st tr) k v (mem.begin sched)
    have hneeds := addNeeds_eq cmp hr k
    have hg : granted tr (addNeeds cmp st k) sched = (((absT st tr).add cmp k v (mem.begin sched)).1 == .ok) := by
      have e : granted (absT st tr).triple (needsI cmp (absT st tr).root k) (mem.begin sched).sched =
          granted tr (addNeeds cmp st k) sched := by
        simp only [absT, hr.toNode, hneeds, Mem.begin]
      rw [← e]
      by_cases hok : ((absT st tr).add cmp k v (mem.begin sched)).1 = .ok
      · rw [hiff.mp hok, hok]; rfl
      · have : granted (absT st tr).triple (needsI cmp (absT st tr).root k) (mem.begin sched).sched = false := by
          cases hh : granted (absT st tr).triple (needsI cmp (absT st tr).root k) (mem.begin sched).sched with
          | false => rfl
          | true => exact absurd (hiff.mpr hh) hok
        rw [this]; simp [hok]
    obtain ⟨a1, a2, _⟩ := add_commutes st tr h k v (mem.begin sched)
    simp only [pstep, Table.step, hg]
    refine ⟨?_, a1, a2⟩
    by_cases hok : ((absT st tr).add cmp k v (mem.begin sched)).1 = .ok
    · simp [hok]
    · have := (C11.add_atomic (absT st tr) k v (mem.begin sched) hok).1
      simp [this]
  | get k =>
    obtain ⟨g1, g2⟩ := get_commutes st tr h k
    simp only [pstep, Table.step]
    refine ⟨?_, by triv, h⟩
    rw [g2]; cases PTST.get cmp st k <;> rfl
  | contains k =>
    obtain ⟨g1, g2⟩ := get_commutes st tr h k
    simp only [pstep, Table.step]
    refine ⟨?_, by triv, h⟩
    simp only [Table.containsKey, g2]
    cases PTST.get cmp st k <;> rfl
  | remove k =>
    obtain ⟨r1, r2, _⟩ := remove_commutes st tr h k mem
    simp only [pstep, Table.step]
    refine ⟨?_, r1, r2⟩
    obtain ⟨t, hr, _⟩ := id h
    rcases findNode_represents cmp hr k with ⟨p, x, c, e, l, m, r, f1, f2, f3, f4⟩ | ⟨f1, f2⟩
    · obtain ⟨p', hx⟩ := Rep.sub_rep t 0 p hr.rep
      rw [f2] at hx
      have hd : (t.erase.sub p).data? = some e := by rw [← INode.erase_sub, f2]; rfl
      simp only [f3, f4, if_false, hx.2.1, Option.map_some, absT, Table.remove, hr.toNode, f1, hd]
    · simp only [f1, if_true, absT, Table.remove, hr.toNode]
      rcases f2 with f2 | ⟨p, f2, f2'⟩
      · simp [f2]
      · simp [f2, f2']
  | removeAll =>
    obtain ⟨r1, r2, _⟩ := removeAll_commutes st tr h mem
    exact ⟨rfl, r1, r2⟩
  | size => exact ⟨rfl, rfl, h⟩
  | enumerate =>
    simp only [pstep, Table.step]
    exact ⟨by rw [iterAll_refines st tr h mem], by triv, h⟩
  | iterate prog =>
    simp only [pstep, Table.step]
    obtain ⟨a1, a2, a3, _⟩ := piter_program_refines (cmp := cmp) prog st tr (PTST.iterInit st) (TST.iterInit (absT st tr))
      (toNode st).entriesP mem h (iter_init_commutes st tr h) (Or.inl ⟨rfl, iterInit_at (absT st tr)⟩)
      (iterInit_curMarked (absT st tr))
    exact ⟨by rw [a1], a2, a3⟩

/-- **C11 at pointer level, all histories (every key, every refusal schedule).**  From any well-formed heap, running
any history of add / get / contains_key / remove / remove_all / size / enumerations / whole iterator sessions on the
pointer-level model returns, call by call, the statuses, out-values, enumerations and iterator results of the
inductive model, ends in the heap that abstracts (`absT`) to the inductive model's final state, and that heap is
well-formed.  The theorem holds for every history, hence for every prefix: **every reachable heap is `WF`** (parent
pointers, tree shape, no dead branch, `size`, ordering). -/
theorem phistory_refines (ops : List POp) : ∀ (st : PT) (tr : Triple) (mem : Mem), WF cmp st →
    (prun tr cmp st ops).1 = ((absT st tr).run cmp ops mem).1 ∧
    absT (prun tr cmp st ops).2 tr = ((absT st tr).run cmp ops mem).2.1 ∧
    WF cmp (prun tr cmp st ops).2 := by
  induction ops with
  | nil => intro st tr mem h; exact ⟨rfl, rfl, h⟩
  | cons op ops ih =>
    intro st tr mem h
    obtain ⟨s1, s2, s3⟩ := pstep_refines st tr h op mem
    have := ih (pstep tr cmp st op).2 tr ((absT st tr).step cmp op mem).2.2 s3
    rw [s2] at this
    simp only [prun, Table.run]
    exact ⟨by rw [s1, this.1], this.2.1, this.2.2⟩

/-- the empty heap abstracts to the table the constructor returns -/
theorem absT_new (tr : Triple) : absT ({} : PT) tr = ⟨0, .nil, tr⟩ := by
  simp only [absT, (new_represents).toNode]; rfl

/-- **C11 at pointer level from the constructor, against the ideal string map (keys ≠ "", X5).**  From `new`, under
every refusal schedule, for every history that stays clear of the empty-key aliasing (`x5SafeRun`: sharper than
"no empty key"; `new_phistory_refines_nonempty_partial` below states it with keys ≠ ""), the pointer-level run
returns, call by call, what the ideal string map returns (statuses, values, enumerations up to order, iterator
sessions as legal cursor runs), its final heap is well-formed and abstracts to a table whose content is the map's
content, and the allocator ledger of the run is exact: header + one block per live heap node + one per entry. -/
theorem new_phistory_refines_partial (hc : CmpLaw cmp) (tr : Triple) (m0 m1 : Mem) (t0 : Table)
    (hnew : Table.new tr m0 = (.ok, some t0, m1)) (ops : List POp) (hk : C11.x5SafeRun cmp t0 ops m1) :
    C11.OutsRel (prun tr cmp {} ops).1 (Spec.StrMap.empty.run (C11.flagged cmp t0 ops m1)).1 ∧
    C11.Rel (absT (prun tr cmp {} ops).2 tr) (Spec.StrMap.empty.run (C11.flagged cmp t0 ops m1)).2 ∧
    WF cmp (prun tr cmp {} ops).2 ∧ (absT (prun tr cmp {} ops).2 tr).Good cmp ∧
    (t0.run cmp ops m1).2.2.fault = m0.fault ∧
    (∃ ids : List Nat, ids.Nodup ∧ (∀ i, (prun tr cmp {} ops).2.heap.has i = true ↔ i ∈ ids) ∧
      (t0.run cmp ops m1).2.2.liveT tr = m0.liveT tr + 1 + ids.length + (prun tr cmp {} ops).2.size) := by
  have ht0 : t0 = absT ({} : PT) tr := by
    have h := Table.new_spec tr m0
    rw [hnew] at h
    obtain ⟨h1, _, _⟩ := h
    obtain ⟨h1a, _⟩ := h1 rfl
    simp only [Option.some.injEq] at h1a
    rw [h1a, absT_new]
  obtain ⟨r1, r2, r3, r4, r5, _, _⟩ := C11.new_history_refines_partial hc tr m0 m1 t0 hnew ops hk
  obtain ⟨p1, p2, p3⟩ := phistory_refines (cmp := cmp) ops {} tr m1 new_wf
  rw [← ht0] at p1 p2
  rw [p1, p2]
  refine ⟨r1, r2, p3, r3, r4, ?_⟩
  obtain ⟨t, hr, q1, _, _⟩ := id p3
  refine ⟨t.ids, hr.nodup, hr.dom, ?_⟩
  rw [r5, ← p2]
  simp only [absT, Node.owned, hr.toNode, q1, INode.erase_nodes]
  omega

/-- the same with the exclusion spelled out on the keys: no call mentions the empty string -/
theorem new_phistory_refines_nonempty_partial (hc : CmpLaw cmp) (tr : Triple) (m0 m1 : Mem) (t0 : Table)
    (hnew : Table.new tr m0 = (.ok, some t0, m1)) (ops : List POp) (hk : ∀ op ∈ ops, [] ∉ op.keys) :
    C11.OutsRel (prun tr cmp {} ops).1 (Spec.StrMap.empty.run (C11.flagged cmp t0 ops m1)).1 ∧
    C11.Rel (absT (prun tr cmp {} ops).2 tr) (Spec.StrMap.empty.run (C11.flagged cmp t0 ops m1)).2 ∧
    WF cmp (prun tr cmp {} ops).2 :=
  let h := new_phistory_refines_partial hc tr m0 m1 t0 hnew ops (C11.x5SafeRun_of_nonempty ops hk t0 m1)
  ⟨h.1, h.2.1, h.2.2.1⟩

/-- **the ledger at history level**: in every reachable heap the live blocks are exactly the nodes of the trie
(each once: `ids.Nodup`, as many as the inductive trie has nodes), and `destroy` (as `remove_all`) frees exactly those,
each exactly once, leaving no block -/
theorem phistory_ledger (ops : List POp) (st0 : PT) (tr : Triple) (h0 : WF cmp st0) :
    (∃ ids : List Nat, ids.Nodup ∧ (∀ i, (prun tr cmp st0 ops).2.heap.has i = true ↔ i ∈ ids) ∧
      ids.length = (toNode (prun tr cmp st0 ops).2).nodes) ∧
    (∀ i, (PTST.destroy (prun tr cmp st0 ops).2).heap.has i = false) ∧
    (PTST.destroy (prun tr cmp st0 ops).2).freed.Nodup ∧
    (∀ i, i ∈ (PTST.destroy (prun tr cmp st0 ops).2).freed ↔ (prun tr cmp st0 ops).2.heap.has i = true) := by
  obtain ⟨_, _, p3⟩ := phistory_refines (cmp := cmp) ops st0 tr {} h0
  obtain ⟨t, hr, _⟩ := id p3
  obtain ⟨_, _, d1, d2, d3⟩ := removeAll_commutes _ tr p3 {}
  exact ⟨⟨t.ids, hr.nodup, hr.dom, by rw [hr.toNode, INode.erase_nodes]⟩, d1, d3, d2⟩

/-- **iterator sessions against the ideal cursor (keys ≠ "")**: any `iter_init`; next / remove / query program on a
well-formed heap whose keys spell their paths returns exactly the statuses and values of the ideal cursor — every
yielded key is one the cursor had not yielded yet, `CC_ITER_END` comes exactly when none is left — the saved node
ids stay live and the final heap is well-formed -/
theorem piter_program_refines_map_partial (hc : CmpLaw cmp) (prog : List Spec.StrMap.IOp)
    (hk : ∀ op ∈ prog, [] ∉ op.keys) (st : PT) (tr : Triple) (s : Spec.StrMap) (mem : Mem) (h : WF cmp st)
    (hko : (toNode st).KeysOk) (hl : (absT st tr).Owns mem) (hr : C11.Rel (absT st tr) s) :
    (piterRun cmp st (PTST.iterInit st) prog).1 =
      (s.cursorRun (Spec.StrMap.cursorNew s)
        (C11.iterChoices cmp (absT st tr) (TST.iterInit (absT st tr)) prog mem)).1.map (·.1) ∧
    (∀ x ∈ (s.cursorRun (Spec.StrMap.cursorNew s)
        (C11.iterChoices cmp (absT st tr) (TST.iterInit (absT st tr)) prog mem)).1, x.2 = true) ∧
    WF cmp (piterRun cmp st (PTST.iterInit st) prog).2.1 ∧
    (((piterRun cmp st (PTST.iterInit st) prog).2.2.cur = 0 ∨
        (piterRun cmp st (PTST.iterInit st) prog).2.1.heap.has (piterRun cmp st (PTST.iterInit st) prog).2.2.cur = true) ∧
     ((piterRun cmp st (PTST.iterInit st) prog).2.2.next = 0 ∨
        (piterRun cmp st (PTST.iterInit st) prog).2.1.heap.has (piterRun cmp st (PTST.iterInit st) prog).2.2.next = true)) := by
  have hg : (absT st tr).Good cmp := ⟨wf_inv st tr h, hko⟩
  obtain ⟨a1, _, a3, _, a5⟩ := piter_program_refines (cmp := cmp) prog st tr (PTST.iterInit st) (TST.iterInit (absT st tr))
    (toNode st).entriesP mem h (iter_init_commutes st tr h) (Or.inl ⟨rfl, iterInit_at (absT st tr)⟩)
    (iterInit_curMarked (absT st tr))
  obtain ⟨c1, c2, _⟩ := C11.iter_init_program_refines_partial hc prog hk (absT st tr) s mem hg hl hr
  exact ⟨by rw [a1, c1], c2, a3, a5⟩

/-! ## non-vacuity of the history theorems: a history from the empty heap with a refused `add` (second request of
three), the same `add` granted, nested prefixes, an iterator session with a removal and a rejected second removal,
an enumeration, `remove`, `remove_all` — evaluated on the inductive side by `decide`, transferred by
`phistory_refines` (the kernel does not evaluate the hash-map heap) -/

def demoOps : List POp :=
  [.add [97, 98] 1 [false, true], .size, .add [97, 98] 1 [false, false, false], .add [97] 2 [], .add [97, 99] 3 [],
   .iterate [.next, .remove true, .remove true, .next, .size], .enumerate, .get [97], .remove [97, 98], .contains [97, 99],
   .removeAll, .size]

example : (prun .conf cmpSigned {} demoOps).1 =
    [{ st := some .errAlloc }, { val := some 0 }, { st := some .ok }, { st := some .ok }, { st := some .ok },
     { iter := [{ st := .ok, key := some [97], val := some 2 }, { st := .ok, val := some 2 },
                { st := .errKeyNotFound }, { st := .ok, key := some [97, 98], val := some 1 },
                { st := .ok, val := some 2 }] },
     { enum := [([97, 98], 1), ([97, 99], 3)] }, { st := some .errKeyNotFound }, { st := some .ok, val := some 1 },
     { val := some 1 }, {}, { val := some 0 }] ∧
    WF cmpSigned (prun .conf cmpSigned {} demoOps).2 ∧
    absT (prun .conf cmpSigned {} demoOps).2 .conf = ⟨0, .nil, .conf⟩ := by
  obtain ⟨p1, p2, p3⟩ := phistory_refines (cmp := cmpSigned) demoOps {} .conf {} new_wf
  rw [absT_new] at p1 p2
  refine ⟨?_, p3, ?_⟩
  · rw [p1]; decide
  · rw [p2]; decide

/-- the hypotheses of the map-level theorem are satisfiable: the constructor succeeds and the history is X5-safe -/
example : Table.new .conf {} = (.ok, some ⟨0, .nil, .conf⟩, { live := 1, nalloc := 1 }) ∧
    C11.x5SafeRun cmpSigned ⟨0, .nil, .conf⟩ demoOps { live := 1, nalloc := 1 } := by
  refine ⟨by decide, by decide⟩

end CC.Properties.C11PTST
