import CollectionsC.Proofs.HashTableIter
import CollectionsC.Proofs.HashSet
import CollectionsC.Proofs.HashSetIter
/-! # C07 (hash part) — the hash-table / hash-set iterator

A fresh iterator yields every entry exactly once (in the bucket-walk order, which the property leaves
unspecified) and then reports the end; removing through the iterator directly after a yield removes
exactly that entry, keeps everything else and the traversal continues over precisely the entries
not yet visited.  For every table satisfying the invariant (empty, single, every chain shape, after
any earlier history), every hash function, every program of `next`/`remove` calls with at most one
removal per yielded entry.  The cursor is modelled with the C fields
`bucket_index/prev_entry/next_entry` (`Model/HashTable.lean`). -/
namespace CC.Properties.C07Hash
open CC CC.HT CC.Spec

/-- **Complete traversal.**  Driving a fresh iterator with `n ≥ size` calls of `next` and no removal
yields the entries of the map — each exactly once, keys pairwise distinct — and the next call
reports `CC_ITER_END`; the table is unchanged. -/
theorem fresh_iterator_yields_all (c : HCfg) (t : HashTable) (m : Mem) (n : Nat) (h : t.Inv c)
    (hl : t.size + 2 ≤ liveOf m t.triple) (hn : t.size ≤ n) :
    let r := HashTable.drive c (List.replicate n false) t (t.iterInit m).1 m
    r.1.map HashTable.pair = t.abs ∧ (r.1.map (·.key)).Nodup ∧ r.1.length = t.size ∧
    r.2.1.abs = t.abs ∧ r.2.1.iterNext r.2.2.1 r.2.2.2 = (.iterEnd, none, r.2.2.1, r.2.2.2) := by
  intro r
  obtain ⟨p1, p2, p3, p4, p5⟩ := HashTable.iter_program c t m (List.replicate n false) h hl
  have hlen : t.buckets.flatten.length ≤ (List.replicate n false).length := by
    rw [List.length_replicate, ← h.2.2.1]; exact hn
  obtain ⟨q1, q2⟩ := p5 hlen
  have hrm : ∀ (es : List Entry) (k : Nat), HashTable.removedKeys es (List.replicate k false) = [] := by
    intro es k
    induction k generalizing es with
    | zero => cases es <;> rfl
    | succ k ih =>
      cases es with
      | nil => rfl
      | cons e es => simp [List.replicate_succ, HashTable.removedKeys, ih]
  refine ⟨by rw [q1]; rfl, by rw [q1]; exact h.2.2.2.2.1, by rw [q1]; exact h.2.2.1.symm, ?_, q2⟩
  rw [p3, hrm]
  exact List.filter_eq_self.mpr (fun _ _ => rfl)

/-- **Traversal with removals.**  For any pattern `bs` of "remove the entry just yielded" decisions:
the yielded sequence is a prefix of the original entries (all of them when the program is long
enough), the table finally holds exactly the original entries minus the removed ones, the invariant
holds, nothing faults, and the call after the last entry reports the end. -/
theorem iterator_program (c : HCfg) (t : HashTable) (m : Mem) (bs : List Bool) (h : t.Inv c) (hl : t.size + 2 ≤ liveOf m t.triple) :
    let r := HashTable.drive c bs t (t.iterInit m).1 m
    r.1 = t.buckets.flatten.take bs.length ∧ r.2.1.Inv c ∧
    r.2.1.abs = t.abs.filter (fun p => !(HashTable.removedKeys t.buckets.flatten bs).contains p.1) ∧
    r.2.2.2.fault = m.fault ∧
    (t.buckets.flatten.length ≤ bs.length → r.1 = t.buckets.flatten ∧
       r.2.1.iterNext r.2.2.1 r.2.2.2 = (.iterEnd, none, r.2.2.1, r.2.2.2)) :=
  HashTable.iter_program c t m bs h hl

/-- one step: `next` yields the first pending entry (or END exactly when none is pending) and
`remove` removes exactly it, clears `prev_entry` and leaves the cursor in front of the same pending entries -/
theorem next_then_remove (c : HCfg) (t : HashTable) (it : HIter) (m : Mem) (e : Entry) (rest : List Entry)
    (h : t.Inv c) (hit : HashTable.ItInv t it (e :: rest)) (hnd : ((e :: rest).map (·.key)).Nodup) :
    (t.iterNext it m).1 = .ok ∧ (t.iterNext it m).2.1 = some e ∧
    HashTable.ItInv (t.remove c e.key m).2.2.1 (t.iterNext it m).2.2.1 rest ∧
    (t.iterRemove c (t.iterNext it m).2.2.1 m).2.2.1 = (t.remove c e.key m).2.2.1 ∧
    (t.iterRemove c (t.iterNext it m).2.2.1 m).1 = (t.remove c e.key m).1 := by
  obtain ⟨s1, s2, s3, s4, s5⟩ := (HashTable.iterNext_spec c t it m (e :: rest) h hit).2 e rest rfl
  have hne : ∀ x ∈ rest, x.key ≠ e.key := by
    intro x hx hxe
    apply (List.nodup_cons.mp hnd).1
    have := List.mem_map_of_mem (f := fun x : Entry => x.key) hx
    rw [hxe] at this; exact this
  obtain ⟨⟨q11, _, q13, _⟩, q2⟩ := HashTable.iterRemove_spec c t _ m rest e.key h s5 s4 hne
  exact ⟨s1, s2, q2, q13, q11⟩

/-- **arbitrary iterator programs** — any sequence of `next` and `remove` calls, including `remove`
before the first `next`, `remove` twice for one entry and `remove` after END (all rejected with
`CC_ERR_KEY_NOT_FOUND`, inert): same statuses, yielded entries and removed values as the ideal cursor
over the map; the table finally holds the cursor's map; invariant, no fault, balanced ledger -/
theorem any_program_refines (c : HCfg) (prog : List HashTable.IterOp) (t : HashTable) (m : Mem) (h : t.Inv c)
    (hl : t.size + 2 ≤ liveOf m t.triple) :
    (HashTable.iterRun c prog t (t.iterInit m).1 m).1 = ((HashTable.Cursor.mk t.buckets.flatten none).run t.abs prog).1 ∧
    (HashTable.iterRun c prog t (t.iterInit m).1 m).2.1.abs = ((HashTable.Cursor.mk t.buckets.flatten none).run t.abs prog).2.2 ∧
    (HashTable.iterRun c prog t (t.iterInit m).1 m).2.1.Inv c ∧
    (HashTable.iterRun c prog t (t.iterInit m).1 m).2.2.2.fault = m.fault ∧
    liveOf (HashTable.iterRun c prog t (t.iterInit m).1 m).2.2.2 t.triple + t.size =
      liveOf m t.triple + (HashTable.iterRun c prog t (t.iterInit m).1 m).2.1.size := by
  obtain ⟨b1, b2, b3, _, b5, b6, _⟩ := HashTable.iterRun_refines c prog t (t.iterInit m).1 m _ h (HashTable.iterInit_curRel c t m h) hl
  exact ⟨b1, b2, b3, b5, b6⟩

/-- the ideal cursor in its own vocabulary: `next` yields the head of `todo`; `remove` removes the
last yielded entry once, and is rejected otherwise -/
theorem cursor_laws (cur : HashTable.Cursor) (mp : Map) :
    (cur.todo = [] → cur.step mp .next = ((.iterEnd, none, none), cur, mp)) ∧
    (∀ e rest, cur.todo = e :: rest → cur.step mp .next = ((.ok, some e, none), ⟨rest, some e⟩, mp)) ∧
    (cur.last = none → cur.step mp .remove = ((.errKeyNotFound, none, none), cur, mp)) ∧
    (∀ e, cur.last = some e → cur.step mp .remove = ((.ok, none, some e.value), ⟨cur.todo, none⟩, Map.erase mp e.key)) := by
  obtain ⟨todo, last⟩ := cur
  refine ⟨?_, ?_, ?_, ?_⟩
  · intro h; simp only at h; subst h; rfl
  · intro e rest h; simp only at h; subst h; rfl
  · intro h; simp only at h; subst h; rfl
  · intro e h; simp only at h; subst h; rfl

/-- the hash-set iterator is the table iterator yielding the key -/
theorem set_iterator (s : HashSet) (it : HIter) (m : Mem) :
    (s.iterNext it m).2.1 = (s.table.iterNext it m).2.1.map (·.key) ∧ (s.iterNext it m).1 = (s.table.iterNext it m).1 :=
  ⟨rfl, rfl⟩

/-- **C07 for the hash set**: driving `cc_hashset_iter_next`/`iter_remove`: the yielded elements are
the elements of the set in walk order (all of them, each once, when the program is long enough —
`s.abs` has no duplicates), the set finally holds the elements whose removal was not requested -/
theorem set_iterator_program (c : HCfg) (s : HashSet) (m : Mem) (bs : List Bool) (h : s.Inv c) (hl : s.size + 3 ≤ liveOf m s.triple) :
    (HashSet.drive c bs s (s.iterInit m).1 m).1 = (s.abs.take bs.length) ∧
    (HashSet.drive c bs s (s.iterInit m).1 m).2.1.Inv c ∧
    (HashSet.drive c bs s (s.iterInit m).1 m).2.1.abs =
      s.abs.filter (fun k => !(HashTable.removedKeys s.table.buckets.flatten bs).contains k) ∧
    (s.size ≤ bs.length → (HashSet.drive c bs s (s.iterInit m).1 m).1 = s.abs) :=
  HashSet.iter_program c s m bs h hl

/-- `traversal_complete` (the name used across containers): a fresh iterator and `n ≥ size` calls of
`next` yield a list whose key/value pairs are exactly the map (hence a permutation of every other
presentation of it), every key once, then END — at every fill level, under every hash function -/
theorem traversal_complete (c : HCfg) (t : HashTable) (m : Mem) (n : Nat) (h : t.Inv c)
    (hl : t.size + 2 ≤ liveOf m t.triple) (hn : t.size ≤ n) :
    ((HashTable.drive c (List.replicate n false) t (t.iterInit m).1 m).1.map HashTable.pair) = t.abs ∧
    ((HashTable.drive c (List.replicate n false) t (t.iterInit m).1 m).1.map (·.key)).Nodup ∧
    (HashTable.drive c (List.replicate n false) t (t.iterInit m).1 m).1.length = t.size ∧
    (∀ k v, Map.lookup t.abs k = some v ↔
      (k, v) ∈ (HashTable.drive c (List.replicate n false) t (t.iterInit m).1 m).1.map HashTable.pair) := by
  obtain ⟨f1, f2, f3, _⟩ := fresh_iterator_yields_all c t m n h hl hn
  refine ⟨f1, f2, f3, fun k v => ?_⟩
  rw [f1]
  have wf : Map.WF t.abs := by unfold Map.WF; rw [HashTable.abs_eq, HashTable.keys_map_pair]; exact h.2.2.2.2.1
  exact Map.lookup_eq_some_iff t.abs wf k v

/-- `program_refines`: any program with at most one removal per yield simulates the ideal cursor
`(done, todo)` over the walk: yields = prefix of `todo`, content = original minus the removed -/
theorem program_refines (c : HCfg) (bs : List Bool) (t : HashTable) (it : HIter) (m : Mem) (todo : List Entry)
    (h : t.Inv c) (hit : HashTable.ItInv t it todo) (hnd : (todo.map (·.key)).Nodup) (hl : t.size + 2 ≤ liveOf m t.triple) :
    (HashTable.drive c bs t it m).1 = todo.take bs.length ∧
    (HashTable.drive c bs t it m).2.1.Inv c ∧
    (HashTable.drive c bs t it m).2.1.abs = t.abs.filter (fun p => !(HashTable.removedKeys todo bs).contains p.1) ∧
    HashTable.ItInv (HashTable.drive c bs t it m).2.1 (HashTable.drive c bs t it m).2.2.1 (todo.drop bs.length) := by
  obtain ⟨d1, d2, d3, d4, _⟩ := HashTable.drive_spec c bs t it m todo h hit hnd hl
  exact ⟨d1, d2, d3, d4⟩

/-- **arbitrary iterator programs on the hash set** (`cc_hashset_iter_next` / `iter_remove` in any
order, repeated and premature removals included): statuses and yielded elements are those of the ideal
set cursor, the set finally holds the cursor's set; invariant, no fault, balanced ledger of the set's
own triple, END exactly when nothing is pending -/
theorem set_any_program_refines (c : HCfg) (prog : List HashTable.IterOp) (s : HashSet) (m : Mem) (h : s.Inv c)
    (hl : s.size + 3 ≤ liveOf m s.triple) :
    (HashSet.iterRun c prog s (s.iterInit m).1 m).1 = ((HashSet.SCursor.mk s.abs none).run s.abs prog).1 ∧
    (HashSet.iterRun c prog s (s.iterInit m).1 m).2.1.abs = ((HashSet.SCursor.mk s.abs none).run s.abs prog).2.2 ∧
    (HashSet.iterRun c prog s (s.iterInit m).1 m).2.1.Inv c ∧
    (HashSet.iterRun c prog s (s.iterInit m).1 m).2.2.2.fault = m.fault ∧
    liveOf (HashSet.iterRun c prog s (s.iterInit m).1 m).2.2.2 s.triple + s.size =
      liveOf m s.triple + (HashSet.iterRun c prog s (s.iterInit m).1 m).2.1.size := by
  obtain ⟨b1, b2, b3, b5, b6, _⟩ := HashSet.iterRun_refines c prog s m h hl
  exact ⟨b1, b2, b3, b5, b6⟩

/-- non-vacuity: a constant-hash table, remove the 1st and 3rd yielded entries -/
def exTable : HashTable :=
  { capacity := 8, size := 3, threshold := 6,
    buckets := [[⟨none, 13, 0⟩], [], [], [], [], [], [], [⟨some 1, 11, 7⟩, ⟨some 2, 12, 7⟩]] }
def exCfg : HCfg := ⟨fun _ => 7, fun cap => cap * 3 / 4, fun cap => cap * 2⟩
example : (HashTable.drive exCfg [true, false, true, false] exTable (exTable.iterInit { live := 5 }).1 { live := 5 }).1.map (·.key)
    = [none, some 1, some 2] := by decide
example : (HashTable.drive exCfg [true, false, true, false] exTable (exTable.iterInit { live := 5 }).1 { live := 5 }).2.1.abs
    = [(some 1, 11)] := by decide
example : (HashTable.drive exCfg [true, false, true, false] exTable (exTable.iterInit { live := 5 }).1 { live := 5 }).2.2.2.live
    = 3 := by decide

end CC.Properties.C07Hash
