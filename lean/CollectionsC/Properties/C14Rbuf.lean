import CollectionsC.Properties.C19
/-! # C14 (ring buffer part): every allocation and release goes through the configured triple -/
namespace CC.Properties.C14Rbuf
open CC

theorem alloc_libc (m : Mem) : m.alloc.2.libc = m.libc := by
  unfold Mem.alloc; split <;> rfl

theorem free_libc (m : Mem) : m.free.libc = m.libc := by
  unfold Mem.free; split <;> rfl

theorem new_libc_invariant (cap : Nat) (m : Mem) : (Rbuf.new cap m).2.2.libc = m.libc := by
  unfold Rbuf.new; dsimp only
  split
  · exact alloc_libc m
  · split
    · rw [free_libc, alloc_libc, alloc_libc]
    · rw [alloc_libc, alloc_libc]

theorem destroy_libc_invariant (r : Rbuf) (m : Mem) : (r.destroy m).libc = m.libc := by
  simp [Rbuf.destroy, free_libc]

theorem step_libc_invariant (r : Rbuf) (op : Spec.Fifo.Op) (m : Mem) (h : r.Inv) :
    (r.step op m).2.2.libc = m.libc := by
  rw [(C19.step_refines r op m h).2.2.2.2]

/-- statuses, out-values and resulting states do not depend on the ledger at all -/
theorem allocator_independent (r : Rbuf) (op : Spec.Fifo.Op) (m m' : Mem) (h : r.Inv) :
    (r.step op m).1 = (r.step op m').1 ∧ (r.step op m).2.1 = (r.step op m').2.1 := by
  cases op with
  | enqueue x => exact ⟨rfl, by simp [Rbuf.step, Rbuf.enqueue]⟩
  | dequeue =>
    simp only [Rbuf.step, Rbuf.dequeue]
    split <;> exact ⟨rfl, rfl⟩

end CC.Properties.C14Rbuf
