import CollectionsC.Properties.C19
/-! # C14 (ring buffer part): every allocation and release goes through the buffer's own triple

The model threads two ledgers: the configured triple (`live`, `nalloc`, `nfree`) and the C library
(`libc`, `liveLibc`, `lalloc`, `lfree`; `Mem.allocT .libc` bumps them, see `Mem.allocT_libc_counts`).
A ring buffer records the triple it was built with and uses it for its two blocks. -/
namespace CC.Properties.C14Rbuf
open CC

/-- a buffer built on the configured triple never touches the C-library ledger, whatever the schedule -/
theorem conf_new_uses_only_conf (cap : Nat) (m : Mem) :
    (Rbuf.newT .conf cap m).2.2.libc = m.libc ∧ (Rbuf.newT .conf cap m).2.2.liveLibc = m.liveLibc := by
  unfold Rbuf.newT; dsimp only [Mem.allocT, Mem.freeT]
  have a1 := Mem.alloc_keeps_libc m
  have a2 := Mem.alloc_keeps_libc m.alloc.2
  have f2 := Mem.free_keeps_libc m.alloc.2.alloc.2
  split
  · exact a1
  · split
    · exact ⟨by rw [f2.1, a2.1, a1.1], by rw [f2.2, a2.2, a1.2]⟩
    · exact ⟨by rw [a2.1, a1.1], by rw [a2.2, a1.2]⟩

/-- the constructor stores the triple it was given: the buffer remembers where its blocks came from -/
theorem new_records_triple (t : Triple) (cap : Nat) (m : Mem) (r : Rbuf)
    (h : (Rbuf.newT t cap m).2.1 = some r) : r.triple = t := by
  unfold Rbuf.newT at h; dsimp only at h
  split at h
  · simp at h
  · split at h
    · simp at h
    · simp only [Option.some.injEq] at h; rw [← h]

/-- a default-constructed buffer (`cc_rbuf_new`, C-library triple) never touches the configured
ledger and cannot be refused: it succeeds and owns two C-library blocks -/
theorem default_uses_only_libc (cap : Nat) (m : Mem) :
    (Rbuf.newT .libc cap m).1 = .ok ∧ (Rbuf.newT .libc cap m).2.2.live = m.live ∧
    (Rbuf.newT .libc cap m).2.2.sched = m.sched ∧ (Rbuf.newT .libc cap m).2.2.liveLibc = m.liveLibc + 2 ∧
    (Rbuf.newT .libc cap m).2.2.libc = m.libc + 2 := by
  simp [Rbuf.newT, Mem.allocT]

/-- `destroy` releases both blocks through the triple the buffer was built with -/
theorem destroy_uses_own_triple (r : Rbuf) (m : Mem) :
    (r.triple = .conf → (r.destroy m).libc = m.libc ∧ (r.destroy m).liveLibc = m.liveLibc) ∧
    (r.triple = .libc → (r.destroy m).live = m.live ∧ (r.destroy m).nfree = m.nfree) := by
  constructor
  · intro h
    simp only [Rbuf.destroy, h, Mem.freeT_conf]
    have f1 := Mem.free_keeps_libc m
    have f2 := Mem.free_keeps_libc m.free
    exact ⟨by rw [f2.1, f1.1], by rw [f2.2, f1.2]⟩
  · intro h
    simp only [Rbuf.destroy, h]
    have key : ∀ a : Mem, (a.freeT .libc).live = a.live ∧ (a.freeT .libc).nfree = a.nfree := by
      intro a; unfold Mem.freeT; simp only; split <;> exact ⟨rfl, rfl⟩
    have k1 := key m
    have k2 := key (m.freeT .libc)
    exact ⟨by rw [k2.1, k1.1], by rw [k2.2, k1.2]⟩

/-- enqueue/dequeue do not allocate at all: the whole ledger record is returned unchanged -/
theorem step_libc_invariant (r : Rbuf) (op : Spec.Fifo.Op) (m : Mem) (h : r.Inv) :
    (r.step op m).2.2 = m := (C19.step_refines r op m h).2.2.2.2

theorem history_libc_invariant (ops : List Spec.Fifo.Op) (r : Rbuf) (m : Mem) (h : r.Inv) :
    (r.run ops m).2.2 = m := (C19.history_refines ops r m h).2.2.2

/-- statuses, out-values and resulting states do not depend on the ledger at all, hence a buffer on a
pool behaves exactly like one on malloc -/
theorem allocator_independent (r : Rbuf) (op : Spec.Fifo.Op) (m m' : Mem) :
    (r.step op m).1 = (r.step op m').1 ∧ (r.step op m).2.1 = (r.step op m').2.1 := by
  cases op with
  | enqueue x => exact ⟨rfl, by simp [Rbuf.step, Rbuf.enqueue]⟩
  | dequeue =>
    simp only [Rbuf.step, Rbuf.dequeue]
    split <;> exact ⟨rfl, rfl⟩

theorem history_allocator_independent (ops : List Spec.Fifo.Op) (r : Rbuf) (m m' : Mem) :
    (r.run ops m).1 = (r.run ops m').1 ∧ (r.run ops m).2.1 = (r.run ops m').2.1 := by
  induction ops generalizing r m m' with
  | nil => exact ⟨rfl, rfl⟩
  | cons op ops ih =>
    have h := allocator_independent r op m m'
    simp only [Rbuf.run]
    rw [h.1, h.2]
    have := ih (r.step op m').2.1 (r.step op m).2.2 (r.step op m').2.2
    exact ⟨by rw [this.1], this.2⟩

/-- the constructor's outcome depends on the ledger only through the schedule -/
theorem new_allocator_independent (cap : Nat) (m m' : Mem) (h : m.sched = m'.sched) :
    (Rbuf.new cap m).1 = (Rbuf.new cap m').1 ∧ (Rbuf.new cap m).2.1 = (Rbuf.new cap m').2.1 := by
  have key : ∀ (a b : Mem), a.sched = b.sched → a.alloc.1 = b.alloc.1 ∧ a.alloc.2.sched = b.alloc.2.sched := by
    intro a b hab
    unfold Mem.alloc
    rw [hab]
    split <;> simp
  have k1 := key m m' h
  have k2 := key m.alloc.2 m'.alloc.2 k1.2
  unfold Rbuf.new Rbuf.newT; dsimp only [Mem.allocT, Mem.freeT]
  rw [k1.1, k2.1]
  split
  · exact ⟨rfl, rfl⟩
  · split <;> exact ⟨rfl, rfl⟩

/-! Non-vacuity: the C-library counter does move when the model allocates through `.libc` -/
example : (Rbuf.newT .libc 3 {}).2.2.libc = 2 ∧ (Rbuf.newT .conf 3 {}).2.2.libc = 0 := by decide

end CC.Properties.C14Rbuf
