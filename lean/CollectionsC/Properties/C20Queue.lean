import CollectionsC.Properties.C06Queue
import CollectionsC.Properties.C20Deque
/-! # C20 (queue part) — the adapter inherits the deque's capacity invariants and geometric growth

`enqueue = add_first` on the inner deque; `Queue.Inv` is the inner deque's invariant (plus: header and inner
deque carry the same triple). -/
namespace CC.Properties.C20Queue
open CC CC.Properties.C09Queue

/-- **size_le_capacity**, **capacity_pow2**, buffer block = exactly `capacity` slots — in every state
satisfying the invariant, hence (`C06Queue.history_nofault`) in every state any history reaches -/
theorem capacity_invariants (q : Queue) (hi : q.Inv) :
    q.size ≤ q.d.cap ∧ (∃ k, q.d.cap = 2 ^ k ∧ k ≤ 31) ∧ q.d.buf.length = q.d.cap :=
  ⟨(C20Deque.size_le_capacity q.d hi.1).1, (C20Deque.capacity_pow2 q.d hi.1).1, (C20Deque.size_le_capacity q.d hi.1).2⟩

theorem reachable_invariants (ops : List Op) (q : Queue) (m : Mem) (hi : q.Inv) :
    (runQ q m ops).2.1.size ≤ (runQ q m ops).2.1.d.cap ∧ ∃ k, (runQ q m ops).2.1.d.cap = 2 ^ k := by
  obtain ⟨hinv, _, _⟩ := C06Queue.history_nofault ops q m hi
  exact ⟨(C20Deque.size_le_capacity _ hinv.1).1, Deque.Inv.pow2 hinv.1⟩

/-- **growth_strict / enqueue never fails for lack of room**: with an allocator that does not refuse and
below the capacity limit `enqueue` returns `CC_OK`; the capacity is kept, or exactly doubled when the
ring was full -/
theorem enqueue_ok (q : Queue) (x : Nat) (m : Mem) (hi : q.Inv) (hs : Deque.neverRefuses q.triple m)
    (hb : q.size < Gen.MAX_POW_TWO) :
    (q.enqueue x m).1 = .ok ∧ (q.enqueue x m).2.1.d.cap = (if q.d.size = q.d.cap then 2 * q.d.cap else q.d.cap) ∧
    (q.enqueue x m).2.1.Inv := by
  obtain ⟨_, a2, _, a4⟩ := C20Deque.append_ok q.d x m hi.1 (by rw [hi.2]; exact hs) hb
  rcases Deque.addFirst_spec q.d x m hi.1 with ⟨_, b2, _⟩ | ⟨b1, _⟩
  · exact ⟨a2, a4, ⟨b2, (Deque.addFirst_triple q.d x m).trans hi.2⟩⟩
  · rw [b1] at a2; exact absurd a2 (by decide)

/-- a run of enqueues as a run of insertions at the front of the inner deque (a refused one changes nothing
and the run goes on) -/
def enqueueAll (q : Queue) (m : Mem) (xs : List Nat) : Queue × Mem :=
  ({ q with d := (Deque.pushAll q.d m (xs.map fun x => (true, x))).1 }, (Deque.pushAll q.d m (xs.map fun x => (true, x))).2)

/-- `enqueueAll` is what `n` calls of `cc_queue_enqueue` do -/
theorem enqueueAll_cons (q : Queue) (m : Mem) (x : Nat) (xs : List Nat) :
    enqueueAll q m (x :: xs) = enqueueAll (q.enqueue x m).2.1 (q.enqueue x m).2.2 xs := by
  simp [enqueueAll, Deque.pushAll, Deque.pushEnd, Queue.enqueue]

/-- **appends_realloc_log, every refusal schedule**: `n` enqueues into a queue holding `size` elements
perform at most `log2 (size + n) + 1` successful buffer allocations (on the queue's triple), whatever the
initial capacity, the ring position and the pattern of refusals -/
theorem appends_realloc_log (xs : List Nat) (q : Queue) (m : Mem) (hi : q.Inv) :
    Deque.allocsOf q.triple (enqueueAll q m xs).2 - Deque.allocsOf q.triple m ≤ Nat.log2 (q.size + xs.length) + 1 ∧
    (enqueueAll q m xs).1.Inv := by
  have hl : (xs.map fun x => ((true : Bool), x)).length = xs.length := by simp
  obtain ⟨r1, r2, _⟩ := C20Deque.appends_realloc_log (xs.map fun x => (true, x)) q.d m hi.1
  obtain ⟨_, d2, _⟩ := Deque.pushAll_doubling (xs.map fun x => (true, x)) q.d m hi.1
  rw [hl, hi.2] at r1
  exact ⟨r1, ⟨r2, d2.trans hi.2⟩⟩

/-- and exactly the abstract doubling process when nothing is refused -/
theorem appends_is_growth_process (xs : List Nat) (q : Queue) (m : Mem) (hi : q.Inv)
    (hn : Deque.neverRefuses q.triple m) (hb : q.size + xs.length ≤ Gen.MAX_POW_TWO) :
    Deque.allocsOf q.triple (enqueueAll q m xs).2 =
      Deque.allocsOf q.triple m + (Growth.appends Deque.dbl q.size q.d.cap xs.length).reallocs ∧
    (enqueueAll q m xs).1.size = q.size + xs.length := by
  have hl : (xs.map fun x => ((true : Bool), x)).length = xs.length := by simp
  obtain ⟨_, _, g3, _, g5⟩ := Deque.pushAll_growth (xs.map fun x => (true, x)) q.d m hi.1
    (by rw [hi.2]; exact hn) (by rw [hl]; exact hb)
  rw [hl] at g3 g5
  rw [hi.2] at g5
  have hsz := (Growth.appends_spec Deque.dbl (fun c => Nat.le_refl _) xs.length q.d.size q.d.cap
    hi.1.2.2.2.2.2 (Deque.Inv.cap_pos hi.1)).1
  exact ⟨g5, by simp only [enqueueAll, Queue.size]; rw [g3, hsz]⟩

/-- non-vacuity: five enqueues into a capacity-1 queue cost three buffer allocations (1→2→4→8) -/
example : (enqueueAll ⟨Deque.mk 0 1 0 0 [0] .conf, .conf⟩ { live := 3 } [1, 2, 3, 4, 5]).2.nalloc = 3 ∧
    (enqueueAll ⟨Deque.mk 0 1 0 0 [0] .conf, .conf⟩ { live := 3 } [1, 2, 3, 4, 5]).1.d.cap = 8 := by decide

end CC.Properties.C20Queue
