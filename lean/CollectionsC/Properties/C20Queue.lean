import CollectionsC.Properties.C06Queue
import CollectionsC.Properties.C20Deque
/-! # C20 (queue part) — the adapter inherits the deque's capacity invariants and geometric growth

`enqueue = add_first` on the inner deque; `Queue.Inv` is the inner deque's invariant. -/
namespace CC.Properties.C20Queue
open CC CC.Properties.C09Queue

/-- **size_le_capacity**, **capacity_pow2**, buffer block ≥ capacity — in every state satisfying the
invariant, hence (`C06Queue.history_nofault`) in every state any history reaches -/
theorem capacity_invariants (q : Queue) (hi : q.Inv) :
    q.size ≤ q.d.cap ∧ (∃ k, q.d.cap = 2 ^ k ∧ k ≤ 31) ∧ q.d.cap ≤ q.d.buf.length :=
  ⟨(C20Deque.size_le_capacity q.d hi).1, (C20Deque.capacity_pow2 q.d hi).1, (C20Deque.size_le_capacity q.d hi).2⟩

theorem reachable_invariants (ops : List Op) (q : Queue) (m : Mem) (hi : q.Inv) :
    (runQ q m ops).2.1.size ≤ (runQ q m ops).2.1.d.cap ∧ ∃ k, (runQ q m ops).2.1.d.cap = 2 ^ k := by
  obtain ⟨hinv, _, _⟩ := C06Queue.history_nofault ops q m hi
  exact ⟨(C20Deque.size_le_capacity _ hinv).1, Deque.Inv.pow2 hinv⟩

/-- **growth_strict / enqueue never fails for lack of room**: with an allocator that does not refuse and
below the capacity limit `enqueue` returns `CC_OK`; the capacity is kept, or exactly doubled when the
ring was full -/
theorem enqueue_ok (q : Queue) (x : Nat) (m : Mem) (hi : q.Inv) (hs : m.sched = []) (hb : q.size < Gen.MAX_POW_TWO) :
    (q.enqueue x m).1 = .ok ∧ (q.enqueue x m).2.1.d.cap = (if q.d.size = q.d.cap then 2 * q.d.cap else q.d.cap) ∧
    (q.enqueue x m).2.1.Inv := by
  obtain ⟨_, a2, _, a4⟩ := C20Deque.append_ok q.d x m hi hs hb
  rcases Deque.addFirst_spec q.d x m hi with ⟨_, b2, _⟩ | ⟨b1, _⟩
  · exact ⟨a2, a4, b2⟩
  · rw [b1] at a2; exact absurd a2 (by decide)

/-- a run of enqueues as a run of insertions at the front of the inner deque -/
def enqueueAll (q : Queue) (m : Mem) (xs : List Nat) : Queue × Mem :=
  (⟨(Deque.pushAll q.d m (xs.map fun x => (true, x))).1⟩, (Deque.pushAll q.d m (xs.map fun x => (true, x))).2)

/-- `enqueueAll` is what `n` calls of `cc_queue_enqueue` do -/
theorem enqueueAll_cons (q : Queue) (m : Mem) (x : Nat) (xs : List Nat) :
    enqueueAll q m (x :: xs) = enqueueAll (q.enqueue x m).2.1 (q.enqueue x m).2.2 xs := by
  simp [enqueueAll, Deque.pushAll, Deque.pushEnd, Queue.enqueue]

/-- **appends_realloc_log**: `n` enqueues into a queue holding `size` elements perform at most
`log2 (size + n) + 1` buffer allocations (the count is exactly that of the abstract doubling process),
whatever the initial capacity and ring position -/
theorem appends_realloc_log (xs : List Nat) (q : Queue) (m : Mem) (hi : q.Inv) (hs : m.sched = [])
    (hb : q.size + xs.length ≤ Gen.MAX_POW_TWO) :
    (enqueueAll q m xs).2.nalloc - m.nalloc = (Growth.appends Deque.dbl q.size q.d.cap xs.length).reallocs ∧
    (enqueueAll q m xs).2.nalloc - m.nalloc ≤ Nat.log2 (q.size + xs.length) + 1 ∧
    (enqueueAll q m xs).1.Inv ∧ (enqueueAll q m xs).1.size = q.size + xs.length := by
  have hl : (xs.map fun x => ((true : Bool), x)).length = xs.length := by simp
  obtain ⟨r1, r2, r3, _, r5⟩ := C20Deque.appends_realloc_log (xs.map fun x => (true, x)) q.d m hi hs
    (by rw [hl]; exact hb)
  obtain ⟨_, _, g3, _⟩ := Deque.pushAll_growth (xs.map fun x => (true, x)) q.d m hi hs (by rw [hl]; exact hb)
  rw [hl] at r2 r3 g3
  have hsz := (Growth.appends_spec Deque.dbl (fun c => Nat.le_refl _) xs.length q.d.size q.d.cap
    hi.2.2.2.2.2 (Deque.Inv.cap_pos hi)).1
  exact ⟨r2, r3, r5, by simp only [enqueueAll, Queue.size]; rw [g3, hsz]⟩

end CC.Properties.C20Queue
