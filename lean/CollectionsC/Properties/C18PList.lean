import CollectionsC.Proofs.PListSort
import CollectionsC.Proofs.PSListSort
import CollectionsC.Properties.C18List
import CollectionsC.Properties.C04PList
/-! # C18 (pointer level) — the sorts of CC_List / CC_SList on the raw links

`C18List.lean` works on the sequence-level model `Chain`, where "both traversal directions" after `cc_list_sort_in_place` is
true by the shape of the state.  This file closes that gap on the pointer-level models (`Model/PList.lean`,
`Model/PSList.lean`: a heap of nodes with raw `next`/`prev` fields).

* `cc_list_sort_in_place`: `PList.split`/`PList.mergeLoop` are the C `split`/`merge` statement by statement (counters, the
  four `break`s, the fast-forward walks, `*left`/`*right`, `list->head = l_head; list->tail = r_head`), relinking nodes that
  are part of the chain through the full `link_behind` ("link the gap" + "link behind": `PList.linkGap`, `linkBehindCore`).
  Proved (`Proofs/PListSort.lean`): from any represented state and for every total-preorder comparator the result is
  represented by **the same nodes** in the order of the merge sort (`msortC`), so it is well-formed — hence **`mirror`**: the
  content along `prev` from `tail` is the exact reverse of the content along `next` from `head` — and the content along `next`
  is the content of `DList.sortInPlaceC`, i.e. everything `C18List` proves about it (permutation, order, stability).
* `cc_list_sort` / `cc_slist_sort`: `to_array`, `qsort` (a parameter with the `qsort` contract of `C18List`), write-back into
  the existing nodes.  Proved: no node is created, released or relinked (same node ids in the same order, every other heap
  cell untouched), node `j` carries element `j` of the sorted array; status, ledger and content are those of
  `DList.sort` / `SList.sort`.

Tie to the code: the harness prints after `sort_in_place` and `sort` every node as `id:data:prev_id:next_id` and the Lean
driver prints the same from these models, so L3 compares the identity of the nodes across the sorts. -/
namespace CC.Properties.C18PList
open CC CC.Chain
open CC.PList (Heap St Hdr Cell idsOf dataOf withData)
open CC.Spec
open CC.Spec.LSeq (CmpPreorder)

/-- **`cc_list_sort_in_place` at the level of the links**: the same nodes (`msortC` permutes the cells), represented — hence
well-formed — again; the allocator triple and the serial counter are untouched, nothing outside the list is written; **no
fault**: every node `merge` dereferences (`l_part->data`, `r_part->data`, the arguments of `link_behind`) is a live node of the
list (the ledger comes back as it went in) -/
theorem sort_in_place_links {cmp : Nat → Nat → Int} (hc : CmpPreorder cmp) (s : St) (l : Hdr) (cs : List Cell)
    (r : PList.Repr s.heap l cs) (m : Mem) :
    PList.Repr (PList.sortInPlace cmp s l m).1.heap (PList.sortInPlace cmp s l m).2.1 (PList.msortC cmp cs.length cs) ∧
    (PList.msortC cmp cs.length cs).Perm cs ∧
    (PList.sortInPlace cmp s l m).2.1.triple = l.triple ∧ (PList.sortInPlace cmp s l m).1.fresh = s.fresh ∧
    (∀ b, b ∉ idsOf cs → (PList.sortInPlace cmp s l m).1.heap b = s.heap b) ∧
    (PList.sortInPlace cmp s l m).2.2 = m :=
  ⟨(PList.sortInPlace_spec hc s l cs m r).1, PList.msortC_perm _ _, (PList.sortInPlace_spec hc s l cs m r).2.1,
   (PList.sortInPlace_spec hc s l cs m r).2.2.1, (PList.sortInPlace_spec hc s l cs m r).2.2.2.1,
   (PList.sortInPlace_spec hc s l cs m r).2.2.2.2⟩

/-- **both traversal directions after `cc_list_sort_in_place`** (raw links): the list is well-formed, the content along `next`
from `head` is the content the code-level sequence model computes (`C18List`: an ordered, stable permutation), and the
content along `prev` from `tail` is its exact reverse -/
theorem sort_in_place_mirror {cmp : Nat → Nat → Int} (hc : CmpPreorder cmp) (s : St) (l : Hdr) (cs : List Cell)
    (r : PList.Repr s.heap l cs) (m : Mem) :
    PList.WF (PList.sortInPlace cmp s l m).1.heap (PList.sortInPlace cmp s l m).2.1 ∧
    PList.fwd (PList.sortInPlace cmp s l m).1.heap (PList.sortInPlace cmp s l m).2.1 =
      (DList.sortInPlaceC cmp (ofList l.triple (dataOf cs)) m).1.abs ∧
    PList.bwd (PList.sortInPlace cmp s l m).1.heap (PList.sortInPlace cmp s l m).2.1 =
      (PList.fwd (PList.sortInPlace cmp s l m).1.heap (PList.sortInPlace cmp s l m).2.1).reverse :=
  ⟨⟨_, (PList.sortInPlace_spec hc s l cs m r).1⟩, PList.sortInPlace_fwd hc s l cs r m,
   PList.mirror ⟨_, (PList.sortInPlace_spec hc s l cs m r).1⟩⟩

/-- **`cc_list_sort` at the level of the links** (allocation granted, non-empty list): same nodes in the same order, only
`data` rewritten with the sorted array; well-formed, so mirrored; status, content and ledger are those of `DList.sort` -/
theorem dlist_sort_links (sortFn : List Nat → List Nat) (hlen : ∀ xs, (sortFn xs).length = xs.length) (s : St) (l : Hdr)
    (cs : List Cell) (m : Mem) (r : PList.Repr s.heap l cs) (hne : cs ≠ []) (ha : (m.allocT l.triple).1 = true) :
    PList.Repr (PList.sort sortFn s l m).2.1.heap l (withData cs (sortFn (dataOf cs))) ∧
    idsOf (withData cs (sortFn (dataOf cs))) = idsOf cs ∧
    (∀ b, b ∉ idsOf cs → (PList.sort sortFn s l m).2.1.heap b = s.heap b) ∧
    ((PList.sort sortFn s l m).1, PList.fwd (PList.sort sortFn s l m).2.1.heap (PList.sort sortFn s l m).2.2.1,
      (PList.sort sortFn s l m).2.2.2) =
      ((DList.sort sortFn (ofList l.triple (dataOf cs)) m).1, (DList.sort sortFn (ofList l.triple (dataOf cs)) m).2.1.abs,
       (DList.sort sortFn (ofList l.triple (dataOf cs)) m).2.2) ∧
    PList.bwd (PList.sort sortFn s l m).2.1.heap l = (PList.fwd (PList.sort sortFn s l m).2.1.heap l).reverse := by
  obtain ⟨h1, h2, h3, _, h5, h6, h7, h8⟩ := (PList.sort_spec sortFn hlen s l cs m r).2.2 hne ha
  have hd : dataOf cs ≠ [] := fun e => hne (List.eq_nil_of_length_eq_zero (by rw [← PList.dataOf_length, e]; rfl))
  refine ⟨h5, h6, h8, ?_, PList.mirror ⟨_, h5⟩⟩
  rw [h1, h2, h3, h5.fwd, h7, DList.sort_ofList sortFn hlen]
  simp [LSeq.sort, hd, ha]

/-- **`cc_slist_sort` at the level of the links** (allocation granted, not a one-element list): same nodes in the same order,
only `data` rewritten; status, content and ledger are those of `SList.sort` -/
theorem slist_sort_links (sortFn : List Nat → List Nat) (hlen : ∀ xs, (sortFn xs).length = xs.length) (s : St) (l : Hdr)
    (cs : List Cell) (m : Mem) (r : PSList.SRepr s.heap l cs) (hne : cs.length ≠ 1) (ha : (m.allocT l.triple).1 = true) :
    PSList.SRepr (PSList.sort sortFn s l m).2.1.heap l (withData cs (sortFn (dataOf cs))) ∧
    idsOf (withData cs (sortFn (dataOf cs))) = idsOf cs ∧
    (∀ b, b ∉ idsOf cs → (PSList.sort sortFn s l m).2.1.heap b = s.heap b) ∧
    ((PSList.sort sortFn s l m).1, PSList.fwd (PSList.sort sortFn s l m).2.1.heap (PSList.sort sortFn s l m).2.2.1,
      (PSList.sort sortFn s l m).2.2.2) =
      ((SList.sort sortFn (ofList l.triple (dataOf cs)) m).1, (SList.sort sortFn (ofList l.triple (dataOf cs)) m).2.1.abs,
       (SList.sort sortFn (ofList l.triple (dataOf cs)) m).2.2) := by
  obtain ⟨h1, h2, h3, _, h5, h6, h7, h8⟩ := (PSList.sort_spec sortFn hlen s l cs m r).2.2 hne ha
  refine ⟨h5, h6, h8, ?_⟩
  rw [h1, h2, h3, h5.fwd, h7, SList.sort_ofList sortFn hlen]
  simp [hne, ha]

/-- **`cc_list_sort_in_place`, one statement on the raw links**: for every total-preorder comparator and every represented list,
the content read along `next` from `head` after the sort is a **permutation** of the old content, **ordered** (no element
compares greater than a later one), **stable** (every ordered subsequence of the input — in particular every pair of equal
elements — keeps its relative order), it is the stable sort of the ideal list; the content along `prev` from `tail` is its exact
reverse; the nodes are the old nodes (a permutation of the cells) -/
theorem sort_in_place_fwd_correct {cmp : Nat → Nat → Int} (hc : CmpPreorder cmp) (s : St) (l : Hdr) (cs : List Cell)
    (r : PList.Repr s.heap l cs) (m : Mem) :
    (PList.fwd (PList.sortInPlace cmp s l m).1.heap (PList.sortInPlace cmp s l m).2.1).Perm (dataOf cs) ∧
    (PList.fwd (PList.sortInPlace cmp s l m).1.heap (PList.sortInPlace cmp s l m).2.1).Pairwise (fun a b => cmp a b ≤ 0) ∧
    (∀ c : List Nat, c.Sublist (dataOf cs) → c.Pairwise (fun a b => cmp a b ≤ 0) →
      c.Sublist (PList.fwd (PList.sortInPlace cmp s l m).1.heap (PList.sortInPlace cmp s l m).2.1)) ∧
    PList.fwd (PList.sortInPlace cmp s l m).1.heap (PList.sortInPlace cmp s l m).2.1 = LSeq.stableSort cmp (dataOf cs) ∧
    PList.bwd (PList.sortInPlace cmp s l m).1.heap (PList.sortInPlace cmp s l m).2.1 =
      (PList.fwd (PList.sortInPlace cmp s l m).1.heap (PList.sortInPlace cmp s l m).2.1).reverse ∧
    (PList.msortC cmp cs.length cs).Perm cs := by
  obtain ⟨_, hf, hm⟩ := sort_in_place_mirror hc s l cs r m
  obtain ⟨_, _, h3, h4, h5, h6⟩ := C18List.sort_in_place_code_correct hc (ofList l.triple (dataOf cs)) (ofList_inv _) m
  rw [ofList_abs] at h4 h6
  refine ⟨by rw [hf]; exact h4, by rw [hf]; exact h5, fun c hs hp => by rw [hf]; exact h6 c hs hp, ?_, hm, PList.msortC_perm _ _⟩
  rw [hf, h3, ofList_abs, ofList_abs]

/-! ## the other outcomes of the two `sort`s (obligations, not only helper lemmas) -/

/-- `cc_list_sort` on an empty list: `CC_ERR_INVALID_RANGE` (from `to_array`), nothing touched; a refused array:
`CC_ERR_ALLOC`, nothing touched (heap, header), the ledger is the one after the refused request -/
theorem dlist_sort_rejected (sortFn : List Nat → List Nat) (hlen : ∀ xs, (sortFn xs).length = xs.length) (s : St) (l : Hdr)
    (cs : List Cell) (m : Mem) (r : PList.Repr s.heap l cs) :
    (cs = [] → PList.sort sortFn s l m = (.errInvalidRange, s, l, m)) ∧
    (cs ≠ [] → (m.allocT l.triple).1 = false → PList.sort sortFn s l m = (.errAlloc, s, l, (m.allocT l.triple).2)) :=
  ⟨(PList.sort_spec sortFn hlen s l cs m r).1, (PList.sort_spec sortFn hlen s l cs m r).2.1⟩

/-- `cc_slist_sort`: a one-element list returns `CC_OK` at once (no allocation); a refused array: `CC_ERR_ALLOC`, nothing
touched.  (An empty list takes the general path with a zero-length array: `slist_sort_links` with `cs = []`; the model grants
a zero-size request unless the schedule refuses it — an allocator answering NULL for size 0 would make the C code report
`CC_ERR_ALLOC`, see `C18List`.) -/
theorem slist_sort_rejected (sortFn : List Nat → List Nat) (hlen : ∀ xs, (sortFn xs).length = xs.length) (s : St) (l : Hdr)
    (cs : List Cell) (m : Mem) (r : PSList.SRepr s.heap l cs) :
    (cs.length = 1 → PSList.sort sortFn s l m = (.ok, s, l, m)) ∧
    (cs.length ≠ 1 → (m.allocT l.triple).1 = false → PSList.sort sortFn s l m = (.errAlloc, s, l, (m.allocT l.triple).2)) :=
  ⟨(PSList.sort_spec sortFn hlen s l cs m r).1, (PSList.sort_spec sortFn hlen s l cs m r).2.1⟩

/-! ## Non-vacuity: an in-place sort by key (stable), read along both link directions; node identity is kept -/
example :
    (PList.fwd (PList.sortInPlace LSeq.cmpKey
        (PList.prun ⟨fun _ => true, LSeq.cmpNum⟩ (C04PList.fresh .conf .conf) [.addLast 31, .addLast 12, .addLast 21, .addLast 42, .addLast 11] {}).2.1.st
        (PList.prun ⟨fun _ => true, LSeq.cmpNum⟩ (C04PList.fresh .conf .conf) [.addLast 31, .addLast 12, .addLast 21, .addLast 42, .addLast 11] {}).2.1.l1 {}).1.heap
      (PList.sortInPlace LSeq.cmpKey
        (PList.prun ⟨fun _ => true, LSeq.cmpNum⟩ (C04PList.fresh .conf .conf) [.addLast 31, .addLast 12, .addLast 21, .addLast 42, .addLast 11] {}).2.1.st
        (PList.prun ⟨fun _ => true, LSeq.cmpNum⟩ (C04PList.fresh .conf .conf) [.addLast 31, .addLast 12, .addLast 21, .addLast 42, .addLast 11] {}).2.1.l1 {}).2.1,
     PList.bwd (PList.sortInPlace LSeq.cmpKey
        (PList.prun ⟨fun _ => true, LSeq.cmpNum⟩ (C04PList.fresh .conf .conf) [.addLast 31, .addLast 12, .addLast 21, .addLast 42, .addLast 11] {}).2.1.st
        (PList.prun ⟨fun _ => true, LSeq.cmpNum⟩ (C04PList.fresh .conf .conf) [.addLast 31, .addLast 12, .addLast 21, .addLast 42, .addLast 11] {}).2.1.l1 {}).1.heap
      (PList.sortInPlace LSeq.cmpKey
        (PList.prun ⟨fun _ => true, LSeq.cmpNum⟩ (C04PList.fresh .conf .conf) [.addLast 31, .addLast 12, .addLast 21, .addLast 42, .addLast 11] {}).2.1.st
        (PList.prun ⟨fun _ => true, LSeq.cmpNum⟩ (C04PList.fresh .conf .conf) [.addLast 31, .addLast 12, .addLast 21, .addLast 42, .addLast 11] {}).2.1.l1 {}).2.1) =
    ([31, 21, 11, 12, 42], [42, 12, 11, 21, 31]) := by decide

end CC.Properties.C18PList
