import CollectionsC.Properties.C10
import CollectionsC.Proofs.PQueueCross
/-! # C16 (priority queue part): rejected operations are inert -/
namespace CC.Properties.C16PQueue
open CC CC.Spec
open CC.Spec.PQ (Op Out)

/-- a step whose status is neither OK nor `CC_ERR_ALLOC` (pop/top on an empty queue,
`CC_ERR_MAX_CAPACITY` from push) leaves the whole physical state and the ledger record unchanged -/
theorem error_is_inert {cmp : Nat → Nat → Int} (tp : TotalPreorder cmp) (grow : Nat → Nat) (hg : PQueue.GrowOk grow)
    (q : PQueue) (op : Op) (m : Mem) (h : PQueue.Inv' cmp q) (hl : 2 ≤ m.live)
    (hst : (PQueue.step cmp grow q op m).1.st ≠ .ok) (hst' : (PQueue.step cmp grow q op m).1.st ≠ .errAlloc) :
    (PQueue.step cmp grow q op m).2.1 = q ∧ (PQueue.step cmp grow q op m).2.2 = m := by
  cases op with
  | push x =>
    simp only [PQueue.step] at hst hst' ⊢
    rcases PQueue.push_counts tp grow hg q x m h (by omega) with ⟨k0, k1, _⟩ | ⟨kok, _⟩ | ⟨kerr, _⟩
    · exact ⟨C10.push_refused_inert tp grow hg q x m h hl hst, k1⟩
    · exact (hst kok).elim
    · exact (hst' kerr).elim
  | top =>
    simp only [PQueue.step] at hst ⊢
    rcases PQueue.top_spec tp q m h with ⟨_, e⟩ | ⟨x, e, _⟩
    · rw [e]; exact ⟨by first | rfl | trivial, by first | rfl | trivial⟩
    · rw [e] at hst; exact (hst rfl).elim
  | pop =>
    simp only [PQueue.step] at hst ⊢
    rcases PQueue.pop_spec tp q m h with ⟨_, e⟩ | ⟨x, e, _⟩
    · rw [e]; exact ⟨by first | rfl | trivial, by first | rfl | trivial⟩
    · exact (hst e).elim

/-- an empty queue rejects `top` and `pop` with `CC_ERR_OUT_OF_RANGE`, no out-value, nothing changes -/
theorem empty_rejected (cmp : Nat → Nat → Int) (q : PQueue) (m : Mem) (h : q.size = 0) :
    q.top m = (.errOutOfRange, none, m) ∧ PQueue.pop cmp q m = (.errOutOfRange, none, q, m) := by
  simp [PQueue.top, PQueue.pop, h]

/-- … and only an empty queue does -/
theorem nonempty_accepted (cmp : Nat → Nat → Int) (q : PQueue) (m : Mem) (h : q.size ≠ 0) :
    (q.top m).1 = .ok ∧ (PQueue.pop cmp q m).1 = .ok := by
  simp [PQueue.top, PQueue.pop, h]

/-- an invalid capacity — 0, one for which `exp_factor >= CC_MAX_ELEMENTS / capacity`, or one whose
byte size `capacity * sizeof(void*)` would wrap — is rejected for every value in the `size_t`
domain; the constructor then yields no object and asks the allocator for nothing -/
theorem invalid_capacity_rejected (cap : Nat) (exGe : Nat → Bool) (m : Mem)
    (h : cap = 0 ∨ exGe (Gen.CC_MAX_ELEMENTS / cap) = true ∨ cap > Gen.CC_MAX_ELEMENTS / PQueue.ptrSize) :
    PQueue.new cap exGe m = (.errInvalidCapacity, none, m) := by
  unfold PQueue.new
  by_cases h1 : (cap = 0 || exGe (Gen.CC_MAX_ELEMENTS / cap)) = true
  · simp [h1]
  · have h1' : ¬ (cap = 0 ∨ exGe (Gen.CC_MAX_ELEMENTS / cap) = true) := by simpa using h1
    have : cap > Gen.CC_MAX_ELEMENTS / PQueue.ptrSize := by
      rcases h with h | h | h
      · exact (h1' (Or.inl h)).elim
      · exact (h1' (Or.inr h)).elim
      · exact h
    simp [h1, this]

/-- conversely `CC_ERR_INVALID_CAPACITY` is reported only for such capacities, and never with an
object or an allocation -/
theorem invalid_capacity_only (cap : Nat) (exGe : Nat → Bool) (m : Mem)
    (h : (PQueue.new cap exGe m).1 = .errInvalidCapacity) :
    (cap = 0 ∨ exGe (Gen.CC_MAX_ELEMENTS / cap) = true ∨ cap > Gen.CC_MAX_ELEMENTS / PQueue.ptrSize) ∧
    (PQueue.new cap exGe m).2.1 = none ∧ (PQueue.new cap exGe m).2.2 = m := by
  by_cases hc : cap = 0 ∨ exGe (Gen.CC_MAX_ELEMENTS / cap) = true ∨ cap > Gen.CC_MAX_ELEMENTS / PQueue.ptrSize
  · rw [invalid_capacity_rejected cap exGe m hc]; exact ⟨hc, rfl, rfl⟩
  · exfalso
    have h1 : ¬ ((cap = 0 || exGe (Gen.CC_MAX_ELEMENTS / cap)) = true) := by
      intro e; apply hc
      rcases (by simpa using e : cap = 0 ∨ exGe (Gen.CC_MAX_ELEMENTS / cap) = true) with e | e
      · exact Or.inl e
      · exact Or.inr (Or.inl e)
    have h2 : ¬ cap > Gen.CC_MAX_ELEMENTS / PQueue.ptrSize := fun e => hc (Or.inr (Or.inr e))
    unfold PQueue.new at h
    simp only [h1, h2, if_false] at h
    cases h3 : m.alloc.1 <;> cases h4 : m.alloc.2.alloc.1 <;> simp [h3, h4] at h

end CC.Properties.C16PQueue
