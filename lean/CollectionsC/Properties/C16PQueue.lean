import CollectionsC.Properties.C10
import CollectionsC.Proofs.PQueueCross
/-! # C16 (priority queue part): rejected operations are inert -/
namespace CC.Properties.C16PQueue
open CC CC.Spec
open CC.Spec.PQ (Op Out)

/-- a step whose status is not OK — pop/top on an empty queue, `CC_ERR_MAX_CAPACITY` and also
`CC_ERR_ALLOC` from push — leaves the whole physical state unchanged; unless an allocator refusal
fired (`CC_ERR_ALLOC`) the ledger record is unchanged too -/
theorem error_is_inert {cmp : Nat → Nat → Int} (tp : TotalPreorder cmp) (grow : Nat → Nat)
    (q : PQueue) (op : Op) (m : Mem) (h : PQueue.Inv' cmp q) (hl : 2 ≤ m.liveT q.triple)
    (hst : (PQueue.step cmp grow q op m).1.st ≠ .ok) :
    (PQueue.step cmp grow q op m).2.1 = q ∧
    ((PQueue.step cmp grow q op m).1.st ≠ .errAlloc → (PQueue.step cmp grow q op m).2.2 = m) := by
  cases op with
  | push x =>
    simp only [PQueue.step] at hst ⊢
    refine ⟨C10.push_refused_inert tp grow q x m h hl hst, fun hne => ?_⟩
    -- not OK and not ALLOC: the capacity limit; nothing was asked of the allocator
    have hs := (C10.push_status_iff tp grow q x m h hl)
    have hsc := h.1.1
    rw [PQueue.push_eq]
    by_cases hfull : q.size ≥ q.capacity
    · simp only [hfull, if_true]
      have hroom : ¬ q.size < q.capacity := by omega
      by_cases hb : PQueue.newCapacity grow q > Gen.CC_MAX_ELEMENTS / PQueue.ptrSize
      · have he : PQueue.expandCapacity grow q m = (.errMaxCapacity, q, m) := by
          unfold PQueue.expandCapacity; dsimp only
          split
          · rfl
          · simp [hb]
        rw [he]; rfl
      · exfalso
        cases ha : (m.allocT q.triple).1
        · exact hne (hs.2.2.2 ⟨by omega, by omega, ha⟩)
        · exact hst (hs.1.2 (Or.inr ⟨by omega, ha⟩))
    · exact (hst (hs.1.2 (Or.inl (by omega)))).elim
  | top =>
    simp only [PQueue.step] at hst ⊢
    rcases PQueue.top_spec tp q m h with ⟨_, e⟩ | ⟨x, e, _⟩
    · rw [e]; exact ⟨by first | rfl | trivial, fun _ => by first | rfl | trivial⟩
    · rw [e] at hst; exact (hst rfl).elim
  | pop =>
    simp only [PQueue.step] at hst ⊢
    rcases PQueue.pop_spec tp q m h with ⟨_, e⟩ | ⟨x, e, _⟩
    · rw [e]; exact ⟨by first | rfl | trivial, fun _ => by first | rfl | trivial⟩
    · exact (hst e).elim

/-- an empty queue rejects `top` and `pop` with `CC_ERR_OUT_OF_RANGE`, no out-value, nothing changes -/
theorem empty_rejected (cmp : Nat → Nat → Int) (q : PQueue) (m : Mem) (h : q.size = 0) :
    q.top m = (.errOutOfRange, none, m) ∧ PQueue.pop cmp q m = (.errOutOfRange, none, q, m) ∧
    PQueue.popOut cmp q false m = (.errOutOfRange, none, q, m) := by
  simp [PQueue.top, PQueue.pop, PQueue.popOut, h]

/-- … and only an empty queue does -/
theorem nonempty_accepted (cmp : Nat → Nat → Int) (q : PQueue) (m : Mem) (h : q.size ≠ 0) :
    (q.top m).1 = .ok ∧ (PQueue.pop cmp q m).1 = .ok := by
  simp [PQueue.top, PQueue.pop, PQueue.popOut, h]

/-- an invalid capacity — 0, one for which `exp_factor >= CC_MAX_ELEMENTS / capacity`, or one whose
byte size `capacity * sizeof(void*)` would wrap — is rejected for every value in the `size_t`
domain; the constructor then yields no object and asks the allocator for nothing -/
theorem invalid_capacity_rejected (cap : Nat) (exGe : Nat → Bool) (t : Triple) (m : Mem)
    (h : cap = 0 ∨ exGe (Gen.CC_MAX_ELEMENTS / cap) = true ∨ cap > Gen.CC_MAX_ELEMENTS / PQueue.ptrSize) :
    PQueue.new cap exGe t m = (.errInvalidCapacity, none, m) := by
  unfold PQueue.new
  by_cases h1 : (cap = 0 || exGe (Gen.CC_MAX_ELEMENTS / cap)) = true
  · simp [h1]
  · have h1' : ¬ (cap = 0 ∨ exGe (Gen.CC_MAX_ELEMENTS / cap) = true) := by simpa using h1
    have : cap > Gen.CC_MAX_ELEMENTS / PQueue.ptrSize := by
      rcases h with h | h | h
      · exact (h1' (Or.inl h)).elim
      · exact (h1' (Or.inr h)).elim
      · exact h
    simp [h1, this]

/-- conversely `CC_ERR_INVALID_CAPACITY` is reported only for such capacities, and never with an
object or an allocation -/
theorem invalid_capacity_only (cap : Nat) (exGe : Nat → Bool) (t : Triple) (m : Mem)
    (h : (PQueue.new cap exGe t m).1 = .errInvalidCapacity) :
    (cap = 0 ∨ exGe (Gen.CC_MAX_ELEMENTS / cap) = true ∨ cap > Gen.CC_MAX_ELEMENTS / PQueue.ptrSize) ∧
    (PQueue.new cap exGe t m).2.1 = none ∧ (PQueue.new cap exGe t m).2.2 = m := by
  by_cases hc : cap = 0 ∨ exGe (Gen.CC_MAX_ELEMENTS / cap) = true ∨ cap > Gen.CC_MAX_ELEMENTS / PQueue.ptrSize
  · rw [invalid_capacity_rejected cap exGe t m hc]; exact ⟨hc, rfl, rfl⟩
  · exfalso
    have h1 : ¬ ((cap = 0 || exGe (Gen.CC_MAX_ELEMENTS / cap)) = true) := by
      intro e; apply hc
      rcases (by simpa using e : cap = 0 ∨ exGe (Gen.CC_MAX_ELEMENTS / cap) = true) with e | e
      · exact Or.inl e
      · exact Or.inr (Or.inl e)
    have h2 : ¬ cap > Gen.CC_MAX_ELEMENTS / PQueue.ptrSize := fun e => hc (Or.inr (Or.inr e))
    unfold PQueue.new at h
    simp only [h1, h2, if_false] at h
    cases h3 : (m.allocT t).1 <;> cases h4 : ((m.allocT t).2.allocT t).1 <;> simp [h3, h4] at h

/-! Non-vacuity: an empty queue satisfying the invariant; the limit capacities -/
example : PQueue.Inv' (keyCmp id) { size := 0, capacity := 1, buf := [0] } ∧
    (2 ^ 61 : Nat) > Gen.CC_MAX_ELEMENTS / PQueue.ptrSize ∧ (2 ^ 61 - 1 : Nat) ≤ Gen.CC_MAX_ELEMENTS / PQueue.ptrSize := by
  refine ⟨⟨by decide, by decide⟩, by decide, by decide⟩

end CC.Properties.C16PQueue
