import CollectionsC.Proofs.HashTableLedger
import CollectionsC.Proofs.HashSetLedger
/-! # C14 (hash table / hash set part) — only the configured allocators

In the model every allocation is `Mem.alloc` and every release `Mem.free` on the configured triple;
`Mem.libc` counts events on the C library allocator.  `libc_invariant`: no call changes it — the
constructor, every table/set operation including every resize, the iterators, `get_keys`/`get_values`
(whose `CC_Array` is built with the *table's* triple) and the arrays' own `add`/`destroy`, the set
wrapper's header.  `allocator_independent`: results depend on the ledger only through the allocator's
answers (`Mem.sched`): a table on a pool behaves exactly like one on malloc as long as the pool does
not refuse.  No invariant is needed; every hash function, key and schedule. -/
namespace CC.Properties.C14Hash
open CC CC.HT CC.Spec
open CC.Spec.Map (Op Out)

theorem new_libc_invariant (c : HCfg) (cap : Nat) (m : Mem) : (HashTable.new c cap m).2.2.libc = m.libc :=
  HashTable.new_libc c cap m
theorem destroy_libc_invariant (t : HashTable) (m : Mem) : (t.destroy m).libc = m.libc := HashTable.destroy_libc t m
/-- every call of the table API (add with all its resizes, get, contains_key, remove, remove_all) -/
theorem libc_invariant (c : HCfg) (t : HashTable) (op : Op) (m : Mem) : (t.step c op m).2.2.libc = m.libc :=
  HashTable.step_libc c t op m
theorem history_libc_invariant (c : HCfg) (ops : List Op) (t : HashTable) (m : Mem) :
    (t.run c ops m).2.2.2.libc = m.libc := HashTable.run_libc c ops t m
/-- iterator calls -/
theorem iter_libc_invariant (c : HCfg) (t : HashTable) (it : HIter) (m : Mem) :
    (t.iterInit m).2.libc = m.libc ∧ (t.iterNext it m).2.2.2.libc = m.libc ∧ (t.iterRemove c it m).2.2.2.libc = m.libc :=
  ⟨(HashTable.iter_libc t it m).1, (HashTable.iter_libc t it m).2, HashTable.iterRemove_libc c t it m⟩
/-- the derived arrays (`mk_keys`/`mk_values`) are built with the table's triple, whatever happens
(success, refusal of either block, empty table), and so are their later growth and destruction -/
theorem builders_libc_invariant (c : HCfg) (t : HashTable) (m : Mem) :
    (t.getKeys c m).2.2.libc = m.libc ∧ (t.getValues c m).2.2.libc = m.libc :=
  ⟨HashTable.getKeys_libc c t m, HashTable.getValues_libc c t m⟩
theorem derived_array_libc_invariant (c : HCfg) (a : DArr) (x : Nat) (m : Mem) :
    (a.add c x m).2.2.libc = m.libc ∧ (a.destroy m).libc = m.libc := ⟨DArr.add_libc c a x m, DArr.destroy_libc a m⟩

/-- two ledgers with the same schedule give the same status, out-value and table -/
theorem allocator_independent (c : HCfg) (t : HashTable) (op : Op) (m m' : Mem) (h : m.sched = m'.sched) :
    (t.step c op m).1 = (t.step c op m').1 ∧ (t.step c op m).2.1 = (t.step c op m').2.1 ∧
    (t.step c op m).2.2.sched = (t.step c op m').2.2.sched := HashTable.step_congr c t op m m' h
theorem new_allocator_independent (c : HCfg) (cap : Nat) (m m' : Mem) (h : m.sched = m'.sched) :
    (HashTable.new c cap m).1 = (HashTable.new c cap m').1 ∧ (HashTable.new c cap m).2.1 = (HashTable.new c cap m').2.1 :=
  ⟨(HashTable.new_congr c cap m m' h).1, (HashTable.new_congr c cap m m' h).2.1⟩
/-- a whole history gives the same outputs, the same failures and the same final table -/
theorem history_allocator_independent (c : HCfg) (ops : List Op) (t : HashTable) (m m' : Mem) (h : m.sched = m'.sched) :
    (t.run c ops m).1 = (t.run c ops m').1 ∧ (t.run c ops m).2.1 = (t.run c ops m').2.1 ∧
    (t.run c ops m).2.2.1 = (t.run c ops m').2.2.1 := HashTable.run_congr c ops t m m' h
/-- iterator `next` does not depend on the ledger at all -/
theorem iter_allocator_independent (t : HashTable) (it : HIter) (m m' : Mem) :
    (t.iterNext it m).1 = (t.iterNext it m').1 ∧ (t.iterNext it m).2.1 = (t.iterNext it m').2.1 ∧
    (t.iterNext it m).2.2.1 = (t.iterNext it m').2.2.1 ∧ (t.iterInit m).1 = (t.iterInit m').1 := by
  refine ⟨?_, ?_, ?_, ?_⟩
  · unfold HashTable.iterNext; split
    · rfl
    · split
      · rfl
      · split
        · rfl
        · simp only; split <;> rfl
  · unfold HashTable.iterNext; split
    · rfl
    · split
      · rfl
      · split
        · rfl
        · simp only; split <;> rfl
  · unfold HashTable.iterNext; split
    · rfl
    · split
      · rfl
      · split
        · rfl
        · simp only; split <;> rfl
  · unfold HashTable.iterInit; simp only; split <;> rfl

/-! ## hash set (the header and the wrapped table go through the same triple) -/

theorem set_new_libc_invariant (c : HCfg) (cap : Nat) (m : Mem) : (HashSet.new c cap m).2.2.libc = m.libc :=
  HashSet.new_libc c cap m
theorem set_destroy_libc_invariant (s : HashSet) (m : Mem) : (s.destroy m).libc = m.libc := HashSet.destroy_libc s m
theorem set_libc_invariant (c : HCfg) (s : HashSet) (op : Set.Op) (m : Mem) : (s.step c op m).2.2.libc = m.libc :=
  HashSet.step_libc c s op m
theorem set_history_libc_invariant (c : HCfg) (ops : List Set.Op) (s : HashSet) (m : Mem) :
    (s.run c ops m).2.2.2.libc = m.libc := HashSet.run_libc c ops s m
theorem set_iter_libc_invariant (c : HCfg) (s : HashSet) (it : HIter) (m : Mem) :
    (s.iterInit m).2.libc = m.libc ∧ (s.iterNext it m).2.2.2.libc = m.libc ∧ (s.iterRemove c it m).2.2.2.libc = m.libc :=
  HashSet.iter_libc c s it m
theorem set_allocator_independent (c : HCfg) (s : HashSet) (op : Set.Op) (m m' : Mem) (h : m.sched = m'.sched) :
    (s.step c op m).1 = (s.step c op m').1 ∧ (s.step c op m).2.1 = (s.step c op m').2.1 ∧
    (s.step c op m).2.2.sched = (s.step c op m').2.2.sched := HashSet.step_congr c s op m m' h
theorem set_history_allocator_independent (c : HCfg) (ops : List Set.Op) (s : HashSet) (m m' : Mem) (h : m.sched = m'.sched) :
    (s.run c ops m).1 = (s.run c ops m').1 ∧ (s.run c ops m).2.1 = (s.run c ops m').2.1 ∧
    (s.run c ops m).2.2.1 = (s.run c ops m').2.2.1 := HashSet.run_congr c ops s m m' h

/-- non-vacuity: an insertion that resizes twice and allocates an entry, on a ledger with 5 earlier
C-library events: still 5 -/
example : ((HashTable.mk 1 0 0 [[]]).add ⟨fun k => k, fun cap => cap / 4, fun cap => cap * 2⟩ (some 5) 50
    { live := 2, libc := 5 }).2.2.libc = 5 := by decide

end CC.Properties.C14Hash
