import CollectionsC.Proofs.HashTableLedger
import CollectionsC.Proofs.HashSetLedger
/-! # C14 (hash table / hash set part) — only the configured allocators

A table stores the allocator triple it was given (`t.triple`: `.conf` by `cc_hashtable_new_conf` with
the caller's functions, `.libc` by `cc_hashtable_new`); every allocation and release of the model goes
through `Mem.allocT t.triple` / `Mem.freeT t.triple` exactly where the C code calls
`table->mem_alloc/mem_calloc/mem_free`, the arrays of `get_keys/get_values` receive **the table's**
triple (the C code copies the three pointers into the `CC_ArrayConf`; had it called
`cc_array_new` the model would say `.libc` and `conf_uses_only_conf` would be false), the set header
and its table share one triple.

* `conf_uses_only_conf`: on a `.conf` container no operation moves any C-library counter
  (`libc`, `liveLibc`, `lalloc`, `lfree`).
* `default_uses_only_libc`: on a `.libc` container no operation moves `live/nalloc/nfree`, consumes
  the refusal schedule or can be refused.
* `derived_inherits_triple`, `allocator_independent` (results depend on the ledger only through the
  schedule — a table on a pool behaves like one on malloc as long as the pool does not refuse).
No invariant is needed; every hash function, key and schedule. -/
namespace CC.Properties.C14Hash
open CC CC.HT CC.Spec
open CC.Spec.Map (Op Out)

/-- the counters of the *other* allocator are untouched by every call of the table API, whatever the
table's triple (add with all its resizes, get, contains_key, remove, remove_all) -/
theorem other_allocator_untouched (c : HCfg) (t : HashTable) (op : Op) (m : Mem) :
    otherOf t.triple (t.step c op m).2.2 = otherOf t.triple m ∧ (t.step c op m).2.1.triple = t.triple :=
  ⟨HashTable.step_other c t op m, HashTable.step_triple c t op m⟩

/-- **conf_uses_only_conf**, per call -/
theorem conf_uses_only_conf (c : HCfg) (t : HashTable) (op : Op) (m : Mem) (ht : t.triple = .conf) :
    (t.step c op m).2.2.libc = m.libc ∧ (t.step c op m).2.2.liveLibc = m.liveLibc ∧
    (t.step c op m).2.2.lalloc = m.lalloc ∧ (t.step c op m).2.2.lfree = m.lfree := by
  have := HashTable.step_other c t op m
  rw [ht] at this; exact otherOf_conf this

/-- … for whole histories, the constructor, the destructor, iterator calls and the builders -/
theorem history_conf_uses_only_conf (c : HCfg) (ops : List Op) (t : HashTable) (m : Mem) (ht : t.triple = .conf) :
    (t.run c ops m).2.2.2.libc = m.libc ∧ (t.run c ops m).2.2.2.liveLibc = m.liveLibc ∧
    (t.run c ops m).2.2.2.lalloc = m.lalloc ∧ (t.run c ops m).2.2.2.lfree = m.lfree := by
  have := HashTable.run_other c ops t m
  rw [ht] at this; exact otherOf_conf this

theorem lifecycle_conf_uses_only_conf (c : HCfg) (cap : Nat) (t : HashTable) (it : HIter) (m : Mem) (ht : t.triple = .conf) :
    (HashTable.new c cap .conf m).2.2.libc = m.libc ∧ (HashTable.new c cap .conf m).2.2.liveLibc = m.liveLibc ∧
    (t.destroy m).libc = m.libc ∧ (t.destroy m).liveLibc = m.liveLibc ∧
    (t.iterNext it m).2.2.2.libc = m.libc ∧ (t.iterRemove c it m).2.2.2.2.libc = m.libc ∧
    (t.iterRemove c it m).2.2.2.2.liveLibc = m.liveLibc := by
  have h1 := otherOf_conf (HashTable.new_other c cap .conf m)
  have h2 := HashTable.destroy_other t m
  have h3 := (HashTable.iter_other .conf t it m).2
  have h4 := HashTable.iterRemove_other c t it m
  rw [ht] at h2 h4
  exact ⟨h1.1, h1.2.1, (otherOf_conf h2).1, (otherOf_conf h2).2.1, (otherOf_conf h3).1, (otherOf_conf h4).1, (otherOf_conf h4).2.1⟩

/-- the derived arrays (`mk_keys`/`mk_values`) are built with the table's triple, whatever happens
(success, refusal of either block, empty table) -/
theorem builders_conf_use_only_conf (c : HCfg) (t : HashTable) (m : Mem) (ht : t.triple = .conf) :
    (t.getKeys c m).2.2.libc = m.libc ∧ (t.getKeys c m).2.2.liveLibc = m.liveLibc ∧
    (t.getValues c m).2.2.libc = m.libc ∧ (t.getValues c m).2.2.liveLibc = m.liveLibc := by
  have h1 := HashTable.getKeys_other c t m
  have h2 := HashTable.getValues_other c t m
  rw [ht] at h1 h2
  exact ⟨(otherOf_conf h1).1, (otherOf_conf h1).2.1, (otherOf_conf h2).1, (otherOf_conf h2).2.1⟩

/-- **derived_inherits_triple**: the array handed out carries the table's triple, and its own later
growth and destruction go through it -/
theorem derived_inherits_triple (c : HCfg) (t : HashTable) (m m' : Mem) (a : DArr) (x : Nat)
    (h : (t.getKeys c m).2.1 = some a ∨ (t.getValues c m).2.1 = some a) :
    a.triple = t.triple ∧ otherOf t.triple (a.add c x m').2.2 = otherOf t.triple m' ∧
    otherOf t.triple (a.destroy m') = otherOf t.triple m' ∧ (a.add c x m').2.1.triple = t.triple := by
  have ha : a.triple = t.triple := by
    rcases h with h | h
    · exact HashTable.collect_triple c t _ m a h
    · exact HashTable.collect_triple c t _ m a h
  have h1 := DArr.add_other c a x m'
  have h2 := DArr.destroy_other a m'
  have h3 := DArr.add_triple c a x m'
  rw [ha] at h1 h2 h3
  exact ⟨ha, h1, h2, h3⟩

/-- **default_uses_only_libc**: a table built by `cc_hashtable_new` never touches the configured
allocator's counters or its refusal schedule, and cannot be refused an allocation -/
theorem default_uses_only_libc (c : HCfg) (t : HashTable) (op : Op) (m : Mem) (ht : t.triple = .libc) :
    (t.step c op m).2.2.live = m.live ∧ (t.step c op m).2.2.nalloc = m.nalloc ∧ (t.step c op m).2.2.nfree = m.nfree ∧
    (t.step c op m).2.2.nrefused = m.nrefused ∧ (t.step c op m).2.2.sched = m.sched ∧
    (t.step c op m).1.st ≠ some .errAlloc := by
  have := HashTable.step_other c t op m
  rw [ht] at this
  obtain ⟨a, b, c', d, e⟩ := otherOf_libc this
  exact ⟨a, b, c', d, e, HashTable.libc_never_refused c t op m ht⟩

theorem history_default_uses_only_libc (c : HCfg) (ops : List Op) (t : HashTable) (m : Mem) (ht : t.triple = .libc) :
    (t.run c ops m).2.2.2.live = m.live ∧ (t.run c ops m).2.2.2.nalloc = m.nalloc ∧
    (t.run c ops m).2.2.2.nfree = m.nfree ∧ (t.run c ops m).2.2.2.sched = m.sched := by
  have := HashTable.run_other c ops t m
  rw [ht] at this
  obtain ⟨a, b, c', _, e⟩ := otherOf_libc this
  exact ⟨a, b, c', e⟩

/-- the default constructor builds a `.libc` table, `new_conf` a `.conf` one, and both count their
two blocks on their own allocator -/
theorem constructors_set_triple (c : HCfg) (cap : Nat) (tr : Triple) (m : Mem) (t : HashTable)
    (h : (HashTable.new c cap tr m).2.1 = some t) : t.triple = tr ∧ otherOf tr (HashTable.new c cap tr m).2.2 = otherOf tr m := by
  refine ⟨?_, HashTable.new_other c cap tr m⟩
  unfold HashTable.new at h; simp only at h
  split at h
  · cases h
  · split at h
    · cases h
    · simp only [Option.some.injEq] at h; rw [← h]

/-- two ledgers with the same schedule give the same status, out-value and table -/
theorem allocator_independent (c : HCfg) (t : HashTable) (op : Op) (m m' : Mem) (h : m.sched = m'.sched) :
    (t.step c op m).1 = (t.step c op m').1 ∧ (t.step c op m).2.1 = (t.step c op m').2.1 ∧
    (t.step c op m).2.2.sched = (t.step c op m').2.2.sched := HashTable.step_congr c t op m m' h
theorem new_allocator_independent (c : HCfg) (cap : Nat) (tr : Triple) (m m' : Mem) (h : m.sched = m'.sched) :
    (HashTable.new c cap tr m).1 = (HashTable.new c cap tr m').1 ∧ (HashTable.new c cap tr m).2.1 = (HashTable.new c cap tr m').2.1 :=
  ⟨(HashTable.new_congr c cap tr m m' h).1, (HashTable.new_congr c cap tr m m' h).2.1⟩
/-- a whole history gives the same outputs, the same failures and the same final table -/
theorem history_allocator_independent (c : HCfg) (ops : List Op) (t : HashTable) (m m' : Mem) (h : m.sched = m'.sched) :
    (t.run c ops m).1 = (t.run c ops m').1 ∧ (t.run c ops m).2.1 = (t.run c ops m').2.1 ∧
    (t.run c ops m).2.2.1 = (t.run c ops m').2.2.1 := HashTable.run_congr c ops t m m' h

/-! ## hash set (the header and the wrapped table go through the same triple) -/

theorem set_conf_uses_only_conf (c : HCfg) (s : HashSet) (op : Set.Op) (m : Mem) (ht : s.table.triple = .conf) :
    (s.step c op m).2.2.libc = m.libc ∧ (s.step c op m).2.2.liveLibc = m.liveLibc ∧
    (s.step c op m).2.2.lalloc = m.lalloc ∧ (s.step c op m).2.2.lfree = m.lfree := by
  have := HashSet.step_other c s op m
  rw [ht] at this; exact otherOf_conf this
theorem set_history_conf_uses_only_conf (c : HCfg) (ops : List Set.Op) (s : HashSet) (m : Mem) (ht : s.table.triple = .conf) :
    (s.run c ops m).2.2.2.libc = m.libc ∧ (s.run c ops m).2.2.2.liveLibc = m.liveLibc := by
  have := HashSet.run_other c ops s m
  rw [ht] at this; exact ⟨(otherOf_conf this).1, (otherOf_conf this).2.1⟩
theorem set_lifecycle_conf_uses_only_conf (c : HCfg) (cap : Nat) (s : HashSet) (m : Mem)
    (ht : s.table.triple = s.triple) (hc : s.triple = .conf) :
    (HashSet.new c cap .conf m).2.2.libc = m.libc ∧ (HashSet.new c cap .conf m).2.2.liveLibc = m.liveLibc ∧
    (s.destroy m).libc = m.libc ∧ (s.destroy m).liveLibc = m.liveLibc := by
  have h1 := otherOf_conf (HashSet.new_other c cap .conf m)
  have h2 := HashSet.destroy_other s m ht
  rw [hc] at h2
  exact ⟨h1.1, h1.2.1, (otherOf_conf h2).1, (otherOf_conf h2).2.1⟩
theorem set_default_uses_only_libc (c : HCfg) (s : HashSet) (op : Set.Op) (m : Mem) (ht : s.table.triple = .libc) :
    (s.step c op m).2.2.live = m.live ∧ (s.step c op m).2.2.nalloc = m.nalloc ∧ (s.step c op m).2.2.nfree = m.nfree ∧
    (s.step c op m).2.2.sched = m.sched := by
  have := HashSet.step_other c s op m
  rw [ht] at this
  obtain ⟨a, b, c', _, e⟩ := otherOf_libc this
  exact ⟨a, b, c', e⟩
/-- the set constructor gives header and table the same triple -/
theorem set_constructor_triple (c : HCfg) (cap : Nat) (tr : Triple) (m : Mem) (s : HashSet)
    (h : (HashSet.new c cap tr m).2.1 = some s) : s.triple = tr ∧ s.table.triple = tr := by
  obtain ⟨_, q2, _, _, q5⟩ := (HashSet.new_spec c cap tr m).2.2.1 s h
  exact ⟨q5, by rw [q2.2.2, q5]⟩
theorem set_allocator_independent (c : HCfg) (s : HashSet) (op : Set.Op) (m m' : Mem) (h : m.sched = m'.sched) :
    (s.step c op m).1 = (s.step c op m').1 ∧ (s.step c op m).2.1 = (s.step c op m').2.1 ∧
    (s.step c op m).2.2.sched = (s.step c op m').2.2.sched := HashSet.step_congr c s op m m' h
theorem set_history_allocator_independent (c : HCfg) (ops : List Set.Op) (s : HashSet) (m m' : Mem) (h : m.sched = m'.sched) :
    (s.run c ops m).1 = (s.run c ops m').1 ∧ (s.run c ops m).2.1 = (s.run c ops m').2.1 ∧
    (s.run c ops m).2.2.1 = (s.run c ops m').2.2.1 := HashSet.run_congr c ops s m m' h

/-! ## Non-vacuity: the two statements are falsifiable and true on concrete runs -/

/-- a `.conf` table: an insertion that resizes twice and allocates an entry, on a ledger with 5 earlier
C-library events: still 5, and no C-library block appears -/
example : ((HashTable.mk 1 0 0 [[]] .conf).add ⟨fun k => k, fun cap => cap / 4, fun cap => cap * 2⟩ (some 5) 50
    { live := 2, libc := 5 }).2.2.libc = 5 := by decide
/-- the same insertion on a `.libc` table: three C-library allocations, two releases, `live` untouched,
and the refusal scheduled for the configured allocator is not consumed -/
example : ((HashTable.mk 1 0 0 [[]] .libc).add ⟨fun k => k, fun cap => cap / 4, fun cap => cap * 2⟩ (some 5) 50
    { live := 7, liveLibc := 2, sched := [true] }).2.2 =
    { live := 7, liveLibc := 3, libc := 5, lalloc := 3, lfree := 2, sched := [true] } := by decide
/-- and the key array of a `.libc` table is built on the C library too -/
example : ((HashTable.mk 2 1 2 [[], [⟨some 1, 11, 7⟩]] .libc).getKeys ⟨fun _ => 7, fun c => c, fun c => c * 2⟩ { liveLibc := 3 }).2.2.liveLibc = 5 := by decide

end CC.Properties.C14Hash
