import CollectionsC.Proofs.Guards
import CollectionsC.Generated.Guards
/-! # C16 — the argument guards of the models are the guards of the C text

`Generated/Guards.lean` is re-translated from the current `/repo` sources on every build
(`tools/gen_guards.py`): for every indexed / ranged public function the condition of its
`if (<cond>) return CC_ERR_…;` statement as a `Bool` function of the index arguments and the fields it
reads (`size_t` subtraction with wrap-around, `Gen.wsub`), the disjunction of the `if (…) return …;`
statements in front of it (`…_bypass`, `…_rejects = !bypass && guard`), and the numeric value of the
status it returns.

For every one of these functions this file states, **for every state, every index in `Nat` and every
ledger** (no invariant is needed: the theorems follow the control flow of the model only),

* `<k>_<op>_guard`: the model reports the guard's status exactly when the translated guard fires
  (and, where the guard is the only way the function can fail, that it reports anything but `CC_OK`
  exactly then);
* `<k>_<op>_guard_status`: the model's status constructor has the numeric value the C text returns.

So editing a guard in the C source (`>=` → `>`, dropping a disjunct, comparing with another field,
returning another status) breaks the build of this file, independently of the dynamic correspondence
check.  Together with the `…_range`/`error_is_inert` theorems of the other `C16*` files (a call that
reports an error leaves the whole state unchanged) this gives: the calls the *C text* turns away are
inert.

The generated functions are applied with **named arguments** (`(index := i) (size := a.size)`): the
argument names are the C parameter / field names, so a guard that is edited to read another field
(`ar->capacity` instead of `ar->size`) no longer has an argument `size` and the statement stops
elaborating.

`cc_list.c`: `get_node_at` tests `!list || index >= list->size`; the pointer is the argument `list`
of the generated function and the theorems are stated for every address `p ≠ 0` (a model state is a
list that exists).  Where the model writes a guard without wrap-around (`ArraySized.addAt`:
`index > size - 1` in `Nat`, reached only with `size ≠ 0` or `index ≠ 0`) the equivalence with the
wrapping C expression is part of the proof. -/
namespace CC.Properties.C16Guards
open CC

/-! ## `cc_array.c` -/

theorem array_add_at_guard (a : Arr) (x i : Nat) (m : Mem) :
    (a.addAt x i m).1 = .errOutOfRange ↔ Gen.cc_array_add_at_rejects (index := i) (size := a.size) = true := by
  unfold Arr.addAt Gen.cc_array_add_at_rejects Gen.cc_array_add_at_bypass Gen.cc_array_add_at_guard Gen.wsub
    Spec.Seq.wdec
  have h1 := GuardsAux.arr_add_ne_range a x m
  have h2 := GuardsAux.arr_expandCapacity_ne_range a m
  simp only [apply_ite Prod.fst, GuardsAux.arr_insertShift_status]
  repeat' split
  all_goals simp_all
  all_goals omega
theorem array_add_at_guard_status : Stat.errOutOfRange.code = Gen.cc_array_add_at_guard_status := by decide

theorem array_replace_at_guard (a : Arr) (x i : Nat) (m : Mem) :
    ((a.replaceAt x i m).1 ≠ .ok ↔ Gen.cc_array_replace_at_guard (index := i) (size := a.size) = true) ∧
    ((a.replaceAt x i m).1 = .errOutOfRange ↔
      Gen.cc_array_replace_at_guard (index := i) (size := a.size) = true) := by
  unfold Arr.replaceAt Gen.cc_array_replace_at_guard
  simp only [apply_ite Prod.fst]
  constructor <;> split <;> simp_all
theorem array_replace_at_guard_status : Stat.errOutOfRange.code = Gen.cc_array_replace_at_guard_status := by decide

theorem array_swap_at_guard (a : Arr) (i j : Nat) (m : Mem) :
    ((a.swapAt i j m).1 ≠ .ok ↔
      Gen.cc_array_swap_at_guard (index1 := i) (index2 := j) (size := a.size) = true) ∧
    ((a.swapAt i j m).1 = .errOutOfRange ↔
      Gen.cc_array_swap_at_guard (index1 := i) (index2 := j) (size := a.size) = true) := by
  unfold Arr.swapAt Gen.cc_array_swap_at_guard
  simp only [apply_ite Prod.fst]
  constructor <;> split <;> simp_all
theorem array_swap_at_guard_status : Stat.errOutOfRange.code = Gen.cc_array_swap_at_guard_status := by decide

theorem array_remove_at_guard (a : Arr) (i : Nat) (m : Mem) :
    ((a.removeAt i m).1 ≠ .ok ↔ Gen.cc_array_remove_at_guard (index := i) (size := a.size) = true) ∧
    ((a.removeAt i m).1 = .errOutOfRange ↔
      Gen.cc_array_remove_at_guard (index := i) (size := a.size) = true) := by
  unfold Arr.removeAt Gen.cc_array_remove_at_guard
  simp only [apply_ite Prod.fst]
  constructor <;> split <;> simp_all
theorem array_remove_at_guard_status : Stat.errOutOfRange.code = Gen.cc_array_remove_at_guard_status := by decide

theorem array_get_at_guard (a : Arr) (i : Nat) (m : Mem) :
    ((a.getAt i m).1 ≠ .ok ↔ Gen.cc_array_get_at_guard (index := i) (size := a.size) = true) ∧
    ((a.getAt i m).1 = .errOutOfRange ↔ Gen.cc_array_get_at_guard (index := i) (size := a.size) = true) := by
  unfold Arr.getAt Gen.cc_array_get_at_guard
  simp only [apply_ite Prod.fst]
  constructor <;> split <;> simp_all
theorem array_get_at_guard_status : Stat.errOutOfRange.code = Gen.cc_array_get_at_guard_status := by decide

theorem array_subarray_guard (a : Arr) (b e : Nat) (m : Mem) :
    (a.subarray b e m).1 = .errInvalidRange ↔
      Gen.cc_array_subarray_guard (b := b) (e := e) (size := a.size) = true := by
  unfold Arr.subarray Gen.cc_array_subarray_guard
  simp only [apply_ite Prod.fst]
  repeat' split
  all_goals simp_all
theorem array_subarray_guard_status : Stat.errInvalidRange.code = Gen.cc_array_subarray_guard_status := by decide

/-! ## `sized/cc_array_sized.c` -/

theorem sized_add_at_guard (a : ArraySized) (e : Buf Nat) (i : Nat) (m : Mem) :
    (a.addAt e i m).1 = .errOutOfRange ↔
      Gen.cc_array_sized_add_at_rejects (index := i) (size := a.size) = true := by
  unfold ArraySized.addAt Gen.cc_array_sized_add_at_rejects Gen.cc_array_sized_add_at_bypass
    Gen.cc_array_sized_add_at_guard Gen.wsub
  have h1 := GuardsAux.sized_add_ne_range a e m
  have h2 := GuardsAux.sized_expandCapacity_ne_range a m
  simp only [apply_ite Prod.fst]
  repeat' split
  all_goals simp_all
  all_goals omega
theorem sized_add_at_guard_status : Stat.errOutOfRange.code = Gen.cc_array_sized_add_at_guard_status := by decide

theorem sized_replace_at_guard (a : ArraySized) (e : Buf Nat) (i : Nat) (m : Mem) :
    ((a.replaceAt e i m).1 ≠ .ok ↔ Gen.cc_array_sized_replace_at_guard (index := i) (size := a.size) = true) ∧
    ((a.replaceAt e i m).1 = .errOutOfRange ↔
      Gen.cc_array_sized_replace_at_guard (index := i) (size := a.size) = true) := by
  unfold ArraySized.replaceAt Gen.cc_array_sized_replace_at_guard
  simp only [apply_ite Prod.fst]
  constructor <;> split <;> simp_all
theorem sized_replace_at_guard_status : Stat.errOutOfRange.code = Gen.cc_array_sized_replace_at_guard_status := by
  decide

theorem sized_swap_at_guard (a : ArraySized) (i j : Nat) (m : Mem) :
    ((a.swapAt i j m).1 ≠ .ok ↔
      Gen.cc_array_sized_swap_at_guard (index1 := i) (index2 := j) (size := a.size) = true) ∧
    ((a.swapAt i j m).1 = .errOutOfRange ↔
      Gen.cc_array_sized_swap_at_guard (index1 := i) (index2 := j) (size := a.size) = true) := by
  unfold ArraySized.swapAt Gen.cc_array_sized_swap_at_guard
  simp only [apply_ite Prod.fst]
  constructor <;> split <;> simp_all
theorem sized_swap_at_guard_status : Stat.errOutOfRange.code = Gen.cc_array_sized_swap_at_guard_status := by decide

theorem sized_remove_at_guard (a : ArraySized) (i : Nat) (m : Mem) :
    ((a.removeAt i m).1 ≠ .ok ↔ Gen.cc_array_sized_remove_at_guard (index := i) (size := a.size) = true) ∧
    ((a.removeAt i m).1 = .errOutOfRange ↔
      Gen.cc_array_sized_remove_at_guard (index := i) (size := a.size) = true) := by
  unfold ArraySized.removeAt Gen.cc_array_sized_remove_at_guard
  simp only [apply_ite Prod.fst]
  constructor <;> split <;> simp_all
theorem sized_remove_at_guard_status : Stat.errOutOfRange.code = Gen.cc_array_sized_remove_at_guard_status := by
  decide

theorem sized_get_at_guard (a : ArraySized) (i : Nat) (m : Mem) :
    ((a.getAt i m).1 ≠ .ok ↔ Gen.cc_array_sized_get_at_guard (index := i) (size := a.size) = true) ∧
    ((a.getAt i m).1 = .errOutOfRange ↔
      Gen.cc_array_sized_get_at_guard (index := i) (size := a.size) = true) := by
  unfold ArraySized.getAt Gen.cc_array_sized_get_at_guard
  simp only [apply_ite Prod.fst]
  constructor <;> split <;> simp_all
theorem sized_get_at_guard_status : Stat.errOutOfRange.code = Gen.cc_array_sized_get_at_guard_status := by decide

theorem sized_peek_guard (a : ArraySized) (i : Nat) (m : Mem) :
    ((a.peek i m).1 ≠ .ok ↔ Gen.cc_array_sized_peek_guard (index := i) (size := a.size) = true) ∧
    ((a.peek i m).1 = .errOutOfRange ↔ Gen.cc_array_sized_peek_guard (index := i) (size := a.size) = true) := by
  unfold ArraySized.peek Gen.cc_array_sized_peek_guard
  simp only [apply_ite Prod.fst]
  constructor <;> split <;> simp_all
theorem sized_peek_guard_status : Stat.errOutOfRange.code = Gen.cc_array_sized_peek_guard_status := by decide

theorem sized_subarray_guard (a : ArraySized) (b e : Nat) (m : Mem) :
    (a.subarray b e m).1 = .errInvalidRange ↔
      Gen.cc_array_sized_subarray_guard (b := b) (e := e) (size := a.size) = true := by
  unfold ArraySized.subarray Gen.cc_array_sized_subarray_guard
  simp only [apply_ite Prod.fst]
  repeat' split
  all_goals simp_all
theorem sized_subarray_guard_status : Stat.errInvalidRange.code = Gen.cc_array_sized_subarray_guard_status := by
  decide

/-! ## `cc_deque.c` -/

theorem deque_add_at_guard (d : Deque) (x i : Nat) (m : Mem) :
    (d.addAt x i m).1 = .errOutOfRange ↔ Gen.cc_deque_add_at_guard (index := i) (size := d.size) = true := by
  unfold Deque.addAt Gen.cc_deque_add_at_guard
  have h1 := GuardsAux.deque_addAtCore_ne_range d x i m
  have h2 := GuardsAux.deque_addAtCore_ne_range (d.expandCapacity m).2.1 x i (d.expandCapacity m).2.2
  simp only [apply_ite Prod.fst]
  repeat' split
  all_goals simp_all
theorem deque_add_at_guard_status : Stat.errOutOfRange.code = Gen.cc_deque_add_at_guard_status := by decide

theorem deque_replace_at_guard (d : Deque) (x i : Nat) (m : Mem) :
    ((d.replaceAt x i m).1 ≠ .ok ↔ Gen.cc_deque_replace_at_guard (index := i) (size := d.size) = true) ∧
    ((d.replaceAt x i m).1 = .errOutOfRange ↔
      Gen.cc_deque_replace_at_guard (index := i) (size := d.size) = true) := by
  unfold Deque.replaceAt Gen.cc_deque_replace_at_guard
  simp only [apply_ite Prod.fst]
  constructor <;> split <;> simp_all
theorem deque_replace_at_guard_status : Stat.errOutOfRange.code = Gen.cc_deque_replace_at_guard_status := by decide

/-- `remove_at` hands index 0 and index `capacity - 1` to `remove_first`/`remove_last`, which have an
emptiness guard of their own; behind the range guard (`index < size`) it cannot fire -/
theorem deque_remove_at_guard (d : Deque) (i : Nat) (m : Mem) :
    ((d.removeAt i m).1 ≠ .ok ↔ Gen.cc_deque_remove_at_guard (index := i) (size := d.size) = true) ∧
    ((d.removeAt i m).1 = .errOutOfRange ↔
      Gen.cc_deque_remove_at_guard (index := i) (size := d.size) = true) := by
  unfold Deque.removeAt Deque.removeFirst Deque.removeLast Gen.cc_deque_remove_at_guard
  simp only [apply_ite Prod.fst]
  constructor
  all_goals repeat' split
  all_goals simp_all
  all_goals omega
theorem deque_remove_at_guard_status : Stat.errOutOfRange.code = Gen.cc_deque_remove_at_guard_status := by decide

theorem deque_get_at_guard (d : Deque) (i : Nat) (m : Mem) :
    ((d.getAt i m).1 ≠ .ok ↔ Gen.cc_deque_get_at_guard (index := i) (size := d.size) = true) ∧
    ((d.getAt i m).1 = .errOutOfRange ↔ Gen.cc_deque_get_at_guard (index := i) (size := d.size) = true) := by
  unfold Deque.getAt Gen.cc_deque_get_at_guard
  simp only [apply_ite Prod.fst]
  constructor <;> split <;> simp_all
theorem deque_get_at_guard_status : Stat.errOutOfRange.code = Gen.cc_deque_get_at_guard_status := by decide

/-! ## `cc_list.c` (the guard of `add_at`, `remove_at`, `replace_at`, `get_at` stands in `get_node_at`) -/

theorem list_add_at_guard (l : Chain) (x i : Nat) (m : Mem) (p : Nat) (hp : p ≠ 0) :
    (DList.addAt l x i m).1 = .errOutOfRange ↔
      Gen.cc_list_add_at_guard (list := p) (index := i) (size := l.size) = true := by
  unfold DList.addAt DList.getNodeAt Gen.cc_list_add_at_guard
  simp only [apply_ite Prod.fst]
  repeat' split
  all_goals simp_all
theorem list_add_at_guard_status : Stat.errOutOfRange.code = Gen.cc_list_add_at_guard_status := by decide

theorem list_add_all_at_guard (l1 l2 : Chain) (i : Nat) (m : Mem) :
    (DList.addAllAt l1 l2 i m).1 = .errOutOfRange ↔
      Gen.cc_list_add_all_at_rejects (index := i) (size := l1.size) (size2 := l2.size) = true := by
  unfold DList.addAllAt Gen.cc_list_add_all_at_rejects Gen.cc_list_add_all_at_bypass Gen.cc_list_add_all_at_guard
  have h := GuardsAux.dlist_addAllToEmpty_status l1 l2 m
  simp only [apply_ite Prod.fst]
  repeat' split
  all_goals simp_all
  all_goals (rcases h with h | h <;> simp [h])
theorem list_add_all_at_guard_status : Stat.errOutOfRange.code = Gen.cc_list_add_all_at_guard_status := by decide

theorem list_splice_at_guard (l1 l2 : Chain) (i : Nat) (m : Mem) :
    ((DList.spliceAt l1 l2 i m).1 ≠ .ok ↔
      Gen.cc_list_splice_at_rejects (index := i) (size := l1.size) (size2 := l2.size) = true) ∧
    ((DList.spliceAt l1 l2 i m).1 = .errOutOfRange ↔
      Gen.cc_list_splice_at_rejects (index := i) (size := l1.size) (size2 := l2.size) = true) := by
  unfold DList.spliceAt Gen.cc_list_splice_at_rejects Gen.cc_list_splice_at_bypass Gen.cc_list_splice_at_guard
  simp only [apply_ite Prod.fst]
  constructor
  all_goals repeat' split
  all_goals simp_all
theorem list_splice_at_guard_status : Stat.errOutOfRange.code = Gen.cc_list_splice_at_guard_status := by decide

theorem list_remove_at_guard (l : Chain) (i : Nat) (m : Mem) (p : Nat) (hp : p ≠ 0) :
    ((DList.removeAt l i m).1 ≠ .ok ↔
      Gen.cc_list_remove_at_guard (list := p) (index := i) (size := l.size) = true) ∧
    ((DList.removeAt l i m).1 = .errOutOfRange ↔
      Gen.cc_list_remove_at_guard (list := p) (index := i) (size := l.size) = true) := by
  unfold DList.removeAt DList.getNodeAt Gen.cc_list_remove_at_guard
  simp only [apply_ite Prod.fst]
  constructor
  all_goals repeat' split
  all_goals simp_all
theorem list_remove_at_guard_status : Stat.errOutOfRange.code = Gen.cc_list_remove_at_guard_status := by decide

theorem list_replace_at_guard (l : Chain) (x i : Nat) (m : Mem) (p : Nat) (hp : p ≠ 0) :
    ((DList.replaceAt l x i m).1 ≠ .ok ↔
      Gen.cc_list_replace_at_guard (list := p) (index := i) (size := l.size) = true) ∧
    ((DList.replaceAt l x i m).1 = .errOutOfRange ↔
      Gen.cc_list_replace_at_guard (list := p) (index := i) (size := l.size) = true) := by
  unfold DList.replaceAt DList.getNodeAt Gen.cc_list_replace_at_guard
  simp only [apply_ite Prod.fst]
  constructor
  all_goals repeat' split
  all_goals simp_all
theorem list_replace_at_guard_status : Stat.errOutOfRange.code = Gen.cc_list_replace_at_guard_status := by decide

theorem list_get_at_guard (l : Chain) (i : Nat) (m : Mem) (p : Nat) (hp : p ≠ 0) :
    ((DList.getAt l i m).1 ≠ .ok ↔ Gen.cc_list_get_at_guard (list := p) (index := i) (size := l.size) = true) ∧
    ((DList.getAt l i m).1 = .errOutOfRange ↔
      Gen.cc_list_get_at_guard (list := p) (index := i) (size := l.size) = true) := by
  unfold DList.getAt DList.getNodeAt Gen.cc_list_get_at_guard
  simp only [apply_ite Prod.fst]
  constructor
  all_goals repeat' split
  all_goals simp_all
theorem list_get_at_guard_status : Stat.errOutOfRange.code = Gen.cc_list_get_at_guard_status := by decide

theorem list_sublist_guard (l : Chain) (b e : Nat) (m : Mem) :
    (DList.sublist l b e m).1 = .errInvalidRange ↔
      Gen.cc_list_sublist_guard (b := b) (e := e) (size := l.size) = true := by
  unfold DList.sublist DList.new DList.getNodeAt Gen.cc_list_sublist_guard
  by_cases hg : (decide (b > e) || decide (e ≥ l.size)) = true
  · simp [hg]
  · simp only [hg, Bool.false_eq_true, if_false]
    by_cases ha : (m.allocT l.triple).1 = true
    · have hb : ¬ b ≥ l.size := by simp at hg; omega
      simp only [ha, Bool.not_true, Bool.false_eq_true, if_false, hb]
      generalize hr : DList.buildLoop l some (e - b + 1) _ _ _ = r
      have hs : r.1 = .ok ∨ r.1 = .errAlloc := by rw [← hr]; exact GuardsAux.dlist_buildLoop_status _ _ _ _ _ _
      rcases hs with hs | hs <;> simp [hs, apply_ite Prod.fst]
    · simp [ha]
theorem list_sublist_guard_status : Stat.errInvalidRange.code = Gen.cc_list_sublist_guard_status := by decide

/-! ## `cc_slist.c` (the guard of `add_at`, `add_all_at`, `remove_at`, `replace_at`, `get_at` stands in
`get_node_at`; `splice_at` has a textual guard of its own in front of the call) -/

theorem slist_add_at_guard (l : Chain) (x i : Nat) (m : Mem) :
    (SList.addAt l x i m).1 = .errOutOfRange ↔
      Gen.cc_slist_add_at_guard (index := i) (size := l.size) = true := by
  unfold SList.addAt SList.getNodeAt Gen.cc_slist_add_at_guard
  simp only [apply_ite Prod.fst]
  repeat' split
  all_goals simp_all
theorem slist_add_at_guard_status : Stat.errOutOfRange.code = Gen.cc_slist_add_at_guard_status := by decide

theorem slist_add_all_at_guard (l1 l2 : Chain) (i : Nat) (m : Mem) :
    (SList.addAllAt l1 l2 i m).1 = .errOutOfRange ↔
      Gen.cc_slist_add_all_at_rejects (index := i) (size := l1.size) (size2 := l2.size) = true := by
  unfold SList.addAllAt SList.getNodeAt Gen.cc_slist_add_all_at_rejects Gen.cc_slist_add_all_at_bypass
    Gen.cc_slist_add_all_at_guard
  simp only [apply_ite Prod.fst]
  repeat' split
  all_goals simp_all
theorem slist_add_all_at_guard_status : Stat.errOutOfRange.code = Gen.cc_slist_add_all_at_guard_status := by decide

theorem slist_splice_at_guard (l1 l2 : Chain) (i : Nat) (m : Mem) :
    ((SList.spliceAt l1 l2 i m).1 ≠ .ok ↔
      Gen.cc_slist_splice_at_rejects (index := i) (size := l1.size) (size2 := l2.size) = true) ∧
    ((SList.spliceAt l1 l2 i m).1 = .errOutOfRange ↔
      Gen.cc_slist_splice_at_rejects (index := i) (size := l1.size) (size2 := l2.size) = true) := by
  unfold SList.spliceAt SList.getNodeAt Gen.cc_slist_splice_at_rejects Gen.cc_slist_splice_at_bypass
    Gen.cc_slist_splice_at_guard
  simp only [apply_ite Prod.fst]
  constructor
  all_goals repeat' split
  all_goals simp_all
theorem slist_splice_at_guard_status : Stat.errOutOfRange.code = Gen.cc_slist_splice_at_guard_status := by decide

theorem slist_remove_at_guard (l : Chain) (i : Nat) (m : Mem) :
    ((SList.removeAt l i m).1 ≠ .ok ↔ Gen.cc_slist_remove_at_guard (index := i) (size := l.size) = true) ∧
    ((SList.removeAt l i m).1 = .errOutOfRange ↔
      Gen.cc_slist_remove_at_guard (index := i) (size := l.size) = true) := by
  unfold SList.removeAt SList.getNodeAt Gen.cc_slist_remove_at_guard
  simp only [apply_ite Prod.fst]
  constructor
  all_goals repeat' split
  all_goals simp_all
theorem slist_remove_at_guard_status : Stat.errOutOfRange.code = Gen.cc_slist_remove_at_guard_status := by decide

theorem slist_replace_at_guard (l : Chain) (x i : Nat) (m : Mem) :
    ((SList.replaceAt l x i m).1 ≠ .ok ↔ Gen.cc_slist_replace_at_guard (index := i) (size := l.size) = true) ∧
    ((SList.replaceAt l x i m).1 = .errOutOfRange ↔
      Gen.cc_slist_replace_at_guard (index := i) (size := l.size) = true) := by
  unfold SList.replaceAt SList.getNodeAt Gen.cc_slist_replace_at_guard
  simp only [apply_ite Prod.fst]
  constructor
  all_goals repeat' split
  all_goals simp_all
theorem slist_replace_at_guard_status : Stat.errOutOfRange.code = Gen.cc_slist_replace_at_guard_status := by decide

theorem slist_get_at_guard (l : Chain) (i : Nat) (m : Mem) :
    ((SList.getAt l i m).1 ≠ .ok ↔ Gen.cc_slist_get_at_guard (index := i) (size := l.size) = true) ∧
    ((SList.getAt l i m).1 = .errOutOfRange ↔
      Gen.cc_slist_get_at_guard (index := i) (size := l.size) = true) := by
  unfold SList.getAt SList.getNodeAt Gen.cc_slist_get_at_guard
  simp only [apply_ite Prod.fst]
  constructor
  all_goals repeat' split
  all_goals simp_all
theorem slist_get_at_guard_status : Stat.errOutOfRange.code = Gen.cc_slist_get_at_guard_status := by decide

theorem slist_sublist_guard (l : Chain) (b e : Nat) (m : Mem) :
    (SList.sublist l b e m).1 = .errInvalidRange ↔
      Gen.cc_slist_sublist_guard (from_ := b) (to := e) (size := l.size) = true := by
  unfold SList.sublist SList.new SList.getNodeAt Gen.cc_slist_sublist_guard
  by_cases hg : (decide (b > e) || decide (e ≥ l.size)) = true
  · simp [hg]
  · simp only [hg, Bool.false_eq_true, if_false]
    by_cases ha : (m.allocT l.triple).1 = true
    · have hb : ¬ b ≥ l.size := by simp at hg; omega
      simp only [ha, Bool.not_true, Bool.false_eq_true, if_false, hb]
      generalize hr : SList.buildLoop l some (e - b + 1) _ _ _ = r
      have hs : r.1 = .ok ∨ r.1 = .errAlloc := by rw [← hr]; exact GuardsAux.slist_buildLoop_status _ _ _ _ _ _
      rcases hs with hs | hs <;> simp [hs]
    · simp [ha]
theorem slist_sublist_guard_status : Stat.errInvalidRange.code = Gen.cc_slist_sublist_guard_status := by decide

/-! ## every `return CC_ERR_…;` is accounted for

`<f>_error_returns` is the number of `return CC_ERR_…;` statements in the text of the function (plus those of the
helper whose status it hands on).  The theorems above tie the *first* argument guard to the model; these pin the
number of rejections the C text has at all, so that a guard added behind the first one (or removed) breaks the
build as well. -/

theorem array_add_at_error_returns : Gen.cc_array_add_at_error_returns = 1 := by decide
theorem array_replace_at_error_returns : Gen.cc_array_replace_at_error_returns = 1 := by decide
theorem array_swap_at_error_returns : Gen.cc_array_swap_at_error_returns = 1 := by decide
theorem array_remove_at_error_returns : Gen.cc_array_remove_at_error_returns = 1 := by decide
theorem array_get_at_error_returns : Gen.cc_array_get_at_error_returns = 1 := by decide
theorem array_subarray_error_returns : Gen.cc_array_subarray_error_returns = 3 := by decide
theorem sized_add_at_error_returns : Gen.cc_array_sized_add_at_error_returns = 1 := by decide
theorem sized_replace_at_error_returns : Gen.cc_array_sized_replace_at_error_returns = 1 := by decide
theorem sized_swap_at_error_returns : Gen.cc_array_sized_swap_at_error_returns = 1 := by decide
theorem sized_remove_at_error_returns : Gen.cc_array_sized_remove_at_error_returns = 1 := by decide
theorem sized_get_at_error_returns : Gen.cc_array_sized_get_at_error_returns = 1 := by decide
theorem sized_peek_error_returns : Gen.cc_array_sized_peek_error_returns = 1 := by decide
theorem sized_subarray_error_returns : Gen.cc_array_sized_subarray_error_returns = 3 := by decide
theorem deque_add_at_error_returns : Gen.cc_deque_add_at_error_returns = 2 := by decide
theorem deque_replace_at_error_returns : Gen.cc_deque_replace_at_error_returns = 1 := by decide
theorem deque_remove_at_error_returns : Gen.cc_deque_remove_at_error_returns = 1 := by decide
theorem deque_get_at_error_returns : Gen.cc_deque_get_at_error_returns = 1 := by decide
theorem list_add_at_error_returns : Gen.cc_list_add_at_error_returns = 2 := by decide
theorem list_add_all_at_error_returns : Gen.cc_list_add_all_at_error_returns = 2 := by decide
theorem list_splice_at_error_returns : Gen.cc_list_splice_at_error_returns = 1 := by decide
theorem list_remove_at_error_returns : Gen.cc_list_remove_at_error_returns = 1 := by decide
theorem list_replace_at_error_returns : Gen.cc_list_replace_at_error_returns = 1 := by decide
theorem list_get_at_error_returns : Gen.cc_list_get_at_error_returns = 1 := by decide
theorem list_sublist_error_returns : Gen.cc_list_sublist_error_returns = 1 := by decide
theorem slist_add_at_error_returns : Gen.cc_slist_add_at_error_returns = 2 := by decide
theorem slist_add_all_at_error_returns : Gen.cc_slist_add_all_at_error_returns = 2 := by decide
theorem slist_splice_at_error_returns : Gen.cc_slist_splice_at_error_returns = 1 := by decide
theorem slist_remove_at_error_returns : Gen.cc_slist_remove_at_error_returns = 1 := by decide
theorem slist_replace_at_error_returns : Gen.cc_slist_replace_at_error_returns = 1 := by decide
theorem slist_get_at_error_returns : Gen.cc_slist_get_at_error_returns = 1 := by decide
theorem slist_sublist_error_returns : Gen.cc_slist_sublist_error_returns = 1 := by decide

/-- the statements are not vacuous: a three-element array (which satisfies the invariant) turns index 3
away with the guard's status and accepts index 2 -/
example :
    let a : Arr := { size := 3, capacity := 4, buf := [7, 8, 9, 0], grow := fun c => 2 * c }
    a.Inv ∧ (a.getAt 3 {}).1.code = Gen.cc_array_get_at_guard_status ∧ (a.getAt 2 {}).1 = .ok ∧
    Gen.cc_array_get_at_guard (index := 3) (size := a.size) = true ∧
    Gen.cc_array_get_at_guard (index := 2) (size := a.size) = false := by decide

/-- the wrapping guard of `add_at`: on the empty array `size - 1` is `SIZE_MAX`, every index but 0 is turned
away by the first disjunct, index 0 takes the early return -/
example :
    Gen.cc_array_add_at_rejects (index := 5) (size := 0) = true ∧
    Gen.cc_array_add_at_rejects (index := 0) (size := 0) = false ∧
    Gen.cc_array_add_at_guard (index := 2 ^ 64 - 1) (size := 0) = true ∧
    Gen.wsub 0 1 = 2 ^ 64 - 1 := by decide

end CC.Properties.C16Guards
