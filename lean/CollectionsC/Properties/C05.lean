import CollectionsC.Proofs.DequeCross
import CollectionsC.Proofs.DequeD3Behaviour
/-! # C05 — CC_Deque is an ideal double-ended sequence in every physical layout

Statements and closing proofs only; the per-operation theorems are in `Proofs/Deque*.lean`.
The concrete model `CC.Deque` (`Model/Deque.lean`) mirrors `src/cc_deque.c` statement by statement
(ring buffer `buf`, `first`, `last`, `size`, `capacity`; every `memmove` of `add_at`/`remove_at`);
the abstract spec is a plain `List Nat` (`Spec/DequeSpec.lean`).  Quantifiers: every state satisfying
the representation invariant `Deque.Inv` — i.e. every (capacity = 2^k, first, size) layout, exactly
full and wrapped ones included —, every operation, every index and value in ℕ, every history.

**Partial (known finding D3).** `cc_deque_add_at` with `1 ≤ index ∧ index + 1 ≤ size / 2` takes a branch
that is wrong in the C source and pinned by the upstream tests.  Every statement below that involves
`add_at` carries the hypothesis excluding exactly that range; `add_at_front_half_wrong` shows the
hypothesis cannot be dropped.  Everything else is unconditional. -/
namespace CC.Properties.C05
open CC CC.Spec

/-- the operations C05 names -/
inductive Op where
  | addFirst (x : Nat) | addLast (x : Nat) | addAt (x i : Nat) | replaceAt (x i : Nat)
  | removeAt (i : Nat) | removeFirst | removeLast | remove (x : Nat) | removeAll
  | getAt (i : Nat) | getFirst | getLast | reverse | filterMut (p : Nat → Bool) | trim
  | contains (x : Nat) | indexOf (x : Nat)
  | size | foreach
  /-- `copy_shallow` (`none`) / `copy_deep` (`some cp`), then — if it succeeded — destroy the original and go
  on with the copy: puts copying into the history vocabulary ("copying preserves element order") -/
  | copySwap (cp : Option (Nat → Nat))

/-- what a call returns: status (none for `void`/`size_t` functions), out-value, and the argument sequence
its callback received (`foreach`) -/
structure Out where
  st  : Option Stat
  val : Option Nat
  log : List Nat
  deriving DecidableEq, Repr

/-- does the operation ever call the allocator -/
def Op.allocates : Op → Bool
  | .addFirst _ | .addLast _ | .addAt _ _ | .trim | .copySwap _ => true
  | _ => false

/-- the ideal list (never refuses anything) -/
def stepS (l : List Nat) : Op → Out × List Nat
  | .addFirst x => (⟨some .ok, none, []⟩, DequeSpec.addFirst l x)
  | .addLast x => (⟨some .ok, none, []⟩, DequeSpec.addLast l x)
  | .addAt x i => let r := DequeSpec.addAt l x i; (⟨some r.1, none, []⟩, r.2)
  | .replaceAt x i => let r := DequeSpec.replaceAt l x i; (⟨some r.1, r.2.1, []⟩, r.2.2)
  | .removeAt i => let r := DequeSpec.removeAt l i; (⟨some r.1, r.2.1, []⟩, r.2.2)
  | .removeFirst => let r := DequeSpec.removeFirst l; (⟨some r.1, r.2.1, []⟩, r.2.2)
  | .removeLast => let r := DequeSpec.removeLast l; (⟨some r.1, r.2.1, []⟩, r.2.2)
  | .remove x => let r := DequeSpec.remove l x; (⟨some r.1, r.2.1, []⟩, r.2.2)
  | .removeAll => (⟨none, none, []⟩, [])
  | .getAt i => let r := DequeSpec.getAt l i; (⟨some r.1, r.2, []⟩, l)
  | .getFirst => let r := DequeSpec.getFirst l; (⟨some r.1, r.2, []⟩, l)
  | .getLast => let r := DequeSpec.getLast l; (⟨some r.1, r.2, []⟩, l)
  | .reverse => (⟨none, none, []⟩, l.reverse)
  | .filterMut p => let r := DequeSpec.filterMut l p; (⟨some r.1, none, []⟩, r.2)
  | .trim => (⟨some .ok, none, []⟩, l)
  | .contains x => (⟨none, some (DequeSpec.contains l x), []⟩, l)
  | .indexOf x => let r := DequeSpec.indexOf l x; (⟨some r.1, r.2, []⟩, l)
  | .size => (⟨none, some l.length, []⟩, l)
  | .foreach => (⟨none, none, l⟩, l)
  | .copySwap cp => (⟨some .ok, none, []⟩, match cp with | none => l | some f => l.map f)

/-- the concrete model -/
def stepM (d : Deque) (m : Mem) : Op → Out × Deque × Mem
  | .addFirst x => let r := d.addFirst x m; (⟨some r.1, none, []⟩, r.2.1, r.2.2)
  | .addLast x => let r := d.addLast x m; (⟨some r.1, none, []⟩, r.2.1, r.2.2)
  | .addAt x i => let r := d.addAt x i m; (⟨some r.1, none, []⟩, r.2.1, r.2.2)
  | .replaceAt x i => let r := d.replaceAt x i m; (⟨some r.1, r.2.1, []⟩, r.2.2.1, r.2.2.2)
  | .removeAt i => let r := d.removeAt i m; (⟨some r.1, r.2.1, []⟩, r.2.2.1, r.2.2.2)
  | .removeFirst => let r := d.removeFirst m; (⟨some r.1, r.2.1, []⟩, r.2.2.1, r.2.2.2)
  | .removeLast => let r := d.removeLast m; (⟨some r.1, r.2.1, []⟩, r.2.2.1, r.2.2.2)
  | .remove x => let r := d.remove x m; (⟨some r.1, r.2.1, []⟩, r.2.2.1, r.2.2.2)
  | .removeAll => (⟨none, none, []⟩, d.removeAll, m)
  | .getAt i => let r := d.getAt i m; (⟨some r.1, r.2.1, []⟩, d, r.2.2)
  | .getFirst => let r := d.getFirst m; (⟨some r.1, r.2.1, []⟩, d, r.2.2)
  | .getLast => let r := d.getLast m; (⟨some r.1, r.2.1, []⟩, d, r.2.2)
  | .reverse => let r := d.reverse m; (⟨none, none, []⟩, r.1, r.2)
  | .filterMut p => let r := d.filterMut p m; (⟨some r.1, none, []⟩, r.2.1, r.2.2)
  | .trim => let r := d.trimCapacity m; (⟨some r.1, none, []⟩, r.2.1, r.2.2)
  | .contains x => let r := d.contains x m; (⟨none, some r.1, []⟩, d, r.2)
  | .indexOf x => let r := d.indexOf x m; (⟨some r.1, r.2.1, []⟩, d, r.2.2)
  | .size => (⟨none, some d.size, []⟩, d, m)
  | .foreach => let r := d.foreach m; (⟨none, none, r.1⟩, d, r.2)
  | .copySwap cp =>
    let r := d.copy cp m
    match r.2.1 with
    | some c => (⟨some r.1, none, []⟩, c, d.destroy r.2.2)      -- cc_deque_destroy(original); continue with the copy
    | none => (⟨some r.1, none, []⟩, d, r.2.2)

/-- finding D3's range, relative to the number of elements before the call -/
def inD3 (size : Nat) : Op → Prop
  | .addAt _ i => 1 ≤ i ∧ i + 1 ≤ size / 2
  | _ => False

/-- an allocator call of the operation is refused (the copy makes two calls, everything else one) -/
def refusalFires (d : Deque) (m : Mem) : Op → Prop
  | .copySwap _ => (m.allocT d.triple).1 = false ∨ ((m.allocT d.triple).2.allocT d.triple).1 = false
  | _ => (m.allocT d.triple).1 = false

theorem not_refusalFires (d : Deque) (m : Mem) (op : Op) (hn : Deque.neverRefuses d.triple m) :
    ¬ refusalFires d m op := by
  have h1 := Deque.allocT_of_neverRefuses d.triple m hn
  have h2 := Deque.allocT_of_neverRefuses d.triple _ h1.2.1
  intro h
  cases op <;> simp only [refusalFires] at h <;> first
    | (rw [h1.1] at h; exact absurd h (by decide))
    | (rcases h with h | h
       · rw [h1.1] at h; exact absurd h (by decide)
       · rw [h2.1] at h; exact absurd h (by decide))

/-- **One step, every layout (partial on D3).**  From any state satisfying the invariant, an operation
outside finding D3's range either behaves exactly like the ideal list — same status and out-value, the
abstraction commutes, the invariant is preserved, the ledger stays balanced and nothing faults — or it
is an allocating operation whose allocation was refused (or the capacity limit `MAX_POW_TWO` is
reached by a full deque): then it reports `CC_ERR_ALLOC` and the whole state is unchanged. -/
theorem step_refines_partial (d : Deque) (m : Mem) (op : Op) (hi : d.Inv) (hD3 : ¬ inD3 d.size op) :
    ((stepM d m op).1 = (stepS d.abs op).1 ∧ (stepM d m op).2.1.abs = (stepS d.abs op).2 ∧
      (stepM d m op).2.1.Inv ∧ Deque.memSame d.triple (stepM d m op).2.2 m) ∨
    (op.allocates = true ∧ (stepM d m op).1 = ⟨some .errAlloc, none, []⟩ ∧ (stepM d m op).2.1 = d ∧
      Deque.memSame d.triple (stepM d m op).2.2 m ∧
      (refusalFires d m op ∨ (d.cap = Gen.MAX_POW_TWO ∧ d.size = d.cap))) := by
  cases op with
  | addFirst x =>
    rcases Deque.addFirst_spec d x m hi with ⟨a1, a2, a3, a4, _⟩ | ⟨a1, a2, a3, a4, a5⟩
    · left; simp only [stepM, stepS, a1]; exact ⟨trivial, a3, a2, a4⟩
    · right; simp only [stepM, a1]; exact ⟨rfl, trivial, a2, a3, a5.imp id (fun h => ⟨h, a4⟩)⟩
  | addLast x =>
    rcases Deque.addLast_spec d x m hi with ⟨a1, a2, a3, a4, _⟩ | ⟨a1, a2, a3, a4, a5⟩
    · left; simp only [stepM, stepS, a1]; exact ⟨trivial, a3, a2, a4⟩
    · right; simp only [stepM, a1]; exact ⟨rfl, trivial, a2, a3, a5.imp id (fun h => ⟨h, a4⟩)⟩
  | addAt x i =>
    rcases Deque.addAt_refines_partial d x i m hi hD3 with ⟨a1, a2, a3, a4, _⟩ | ⟨a1, a2, a3, _, a4, a5⟩
    · left; simp only [stepM, stepS, a1]; exact ⟨trivial, a2, a3, a4⟩
    · right; simp only [stepM, a1]; exact ⟨rfl, trivial, a2, a3, a5.imp id (fun h => ⟨h, a4⟩)⟩
  | replaceAt x i =>
    obtain ⟨a1, a2, a3, a4, a5, _⟩ := Deque.replaceAt_spec d x i m hi
    left; simp only [stepM, stepS, a1, a2]; exact ⟨trivial, a3, a4, by rw [a5]; exact Deque.memSame_refl _ m⟩
  | removeAt i =>
    obtain ⟨a1, a2, a3, a4, a5, _⟩ := Deque.removeAt_spec d i m hi
    left; simp only [stepM, stepS, a1, a2]; exact ⟨trivial, a3, a4, by rw [a5]; exact Deque.memSame_refl _ m⟩
  | removeFirst =>
    obtain ⟨a1, a2, a3, a4, a5, _⟩ := Deque.removeFirst_spec d m hi
    left; simp only [stepM, stepS, a1, a2, Deque.spec_removeFirst_eq]
    exact ⟨trivial, a3, a4, by rw [a5]; exact Deque.memSame_refl _ m⟩
  | removeLast =>
    obtain ⟨a1, a2, a3, a4, a5, _⟩ := Deque.removeLast_spec d m hi
    have hl : d.size = d.abs.length := by simp
    rw [hl] at a1 a2 a3
    left; simp only [stepM, stepS, a1, a2, Deque.spec_removeLast_eq]
    exact ⟨trivial, a3, a4, by rw [a5]; exact Deque.memSame_refl _ m⟩
  | remove x =>
    obtain ⟨a1, a2, a3, a4, a5, _⟩ := Deque.remove_spec d x m hi
    left; simp only [stepM, stepS, a1, a2]; exact ⟨trivial, a3, a4, by rw [a5]; exact Deque.memSame_refl _ m⟩
  | removeAll =>
    obtain ⟨a1, a2, _⟩ := Deque.removeAll_spec d hi
    left; exact ⟨rfl, a2, a1, Deque.memSame_refl _ m⟩
  | getAt i =>
    obtain ⟨a1, a2, a3⟩ := Deque.getAt_spec d i m hi
    left; simp only [stepM, stepS, a1, a2]; exact ⟨trivial, trivial, hi, by rw [a3]; exact Deque.memSame_refl _ m⟩
  | getFirst =>
    obtain ⟨a1, a2, a3⟩ := Deque.getFirst_spec d m hi
    left; simp only [stepM, stepS, a1, a2]; exact ⟨trivial, trivial, hi, by rw [a3]; exact Deque.memSame_refl _ m⟩
  | getLast =>
    obtain ⟨a1, a2, a3⟩ := Deque.getLast_spec d m hi
    left; simp only [stepM, stepS, a1, a2]; exact ⟨trivial, trivial, hi, by rw [a3]; exact Deque.memSame_refl _ m⟩
  | reverse =>
    obtain ⟨a1, a2, a3, _⟩ := Deque.reverse_spec d m hi
    left; simp only [stepM, stepS]; exact ⟨trivial, a1, a2, by rw [a3]; exact Deque.memSame_refl _ m⟩
  | filterMut p =>
    obtain ⟨a1, a2, a3, a4, _⟩ := Deque.filterMut_spec d p m hi
    left; simp only [stepM, stepS, a1]; exact ⟨trivial, a2, a3, by rw [a4]; exact Deque.memSame_refl _ m⟩
  | trim =>
    rcases Deque.trimCapacity_spec d m hi with ⟨a1, a2, a3, a4, _⟩ | ⟨a1, a2, a3, a4, _⟩
    · left; simp only [stepM, stepS, a1]; exact ⟨trivial, a3, a2, a4⟩
    · right; simp only [stepM, a1]; exact ⟨rfl, trivial, a2, a3, Or.inl a4⟩
  | contains x =>
    obtain ⟨a1, a2⟩ := Deque.contains_spec d x m hi
    left; simp only [stepM, stepS, a1]; exact ⟨trivial, trivial, hi, by rw [a2]; exact Deque.memSame_refl _ m⟩
  | indexOf x =>
    obtain ⟨a1, a2, a3⟩ := Deque.indexOf_spec d x m hi
    left; simp only [stepM, stepS, a1, a2]; exact ⟨trivial, trivial, hi, by rw [a3]; exact Deque.memSame_refl _ m⟩
  | size =>
    left
    refine ⟨?_, rfl, hi, Deque.memSame_refl _ m⟩
    simp [stepM, stepS]
  | foreach =>
    obtain ⟨f1, f2⟩ := Deque.foreach_spec d m hi
    left; simp only [stepM, stepS, f1]; exact ⟨trivial, trivial, hi, by rw [f2]; exact Deque.memSame_refl _ m⟩
  | copySwap cp =>
    rcases Deque.copy_spec d cp m hi with ⟨n1, c, n2, n3, n4, _, _, n7, _⟩ | ⟨n1, n2, n3, n4⟩
    · left
      have hd := Deque.destroy_ledger d (d.copy cp m).2.2 (by have := n7.1; omega)
      simp only [stepM, stepS, n2, n1]
      refine ⟨trivial, ?_, n3, Deque.memD_norm (k := 0) (j := 2) (by simpa using Deque.memD_trans hd n7)⟩
      cases cp <;> exact n4
    · right
      simp only [stepM, n2, n1]
      exact ⟨rfl, trivial, trivial, n3, Or.inl n4⟩

/-- **a refused allocation is atomic** (every layout, every index, D3's range included for `add_at`):
whenever one of the allocating operations reports an error, the deque is physically unchanged, the
ledger is balanced and nothing faulted -/
theorem refused_atomic (d : Deque) (m : Mem) (x i : Nat) (hi : d.Inv) :
    ((d.addFirst x m).1 ≠ .ok → (d.addFirst x m).2.1 = d ∧ Deque.memSame d.triple (d.addFirst x m).2.2 m) ∧
    ((d.addLast x m).1 ≠ .ok → (d.addLast x m).2.1 = d ∧ Deque.memSame d.triple (d.addLast x m).2.2 m) ∧
    ((d.addAt x i m).1 ≠ .ok → (d.addAt x i m).2.1 = d ∧ Deque.memSame d.triple (d.addAt x i m).2.2 m) ∧
    ((d.trimCapacity m).1 ≠ .ok → (d.trimCapacity m).2.1 = d ∧ Deque.memSame d.triple (d.trimCapacity m).2.2 m) := by
  refine ⟨?_, ?_, ?_, ?_⟩
  · intro h
    rcases Deque.addFirst_spec d x m hi with ⟨a1, _⟩ | ⟨_, a2, a3, _⟩
    · exact absurd a1 h
    · exact ⟨a2, a3⟩
  · intro h
    rcases Deque.addLast_spec d x m hi with ⟨a1, _⟩ | ⟨_, a2, a3, _⟩
    · exact absurd a1 h
    · exact ⟨a2, a3⟩
  · intro h
    obtain ⟨_, a2, _, a4⟩ := Deque.addAt_inv d x i m hi
    exact ⟨(a4 h).1, a2⟩
  · intro h
    rcases Deque.trimCapacity_spec d m hi with ⟨a1, _⟩ | ⟨_, a2, a3, _⟩
    · exact absurd a1 h
    · exact ⟨a2, a3⟩

/-- an operation never changes the deque's allocator triple -/
theorem step_triple (d : Deque) (m : Mem) (op : Op) : (stepM d m op).2.1.triple = d.triple := by
  cases op with
  | addFirst x => exact Deque.addFirst_triple d x m
  | addLast x => exact Deque.addLast_triple d x m
  | addAt x i => exact Deque.addAt_triple d x i m
  | replaceAt x i => exact Deque.replaceAt_triple d x i m
  | removeAt i => exact Deque.removeAt_triple d i m
  | removeFirst => exact Deque.removeFirst_triple d m
  | removeLast => exact Deque.removeLast_triple d m
  | remove x => exact Deque.remove_triple d x m
  | filterMut p => exact Deque.filterMut_triple d p m
  | trim => exact Deque.trimCapacity_triple d m
  | copySwap cp =>
    simp only [stepM]
    split
    · rename_i c hc; exact Deque.copy_triple d cp m c hc
    · rfl
  | _ => rfl

/-! ## histories under every refusal schedule -/

def runS (l : List Nat) : List Op → List Out × List Nat
  | [] => ([], l)
  | op :: ops => let r := stepS l op; let rs := runS r.2 ops; (r.1 :: rs.1, rs.2)

def runM (d : Deque) (m : Mem) : List Op → List Out × Deque × Mem
  | [] => ([], d, m)
  | op :: ops => let r := stepM d m op; let rs := runM r.2.1 r.2.2 ops; (r.1 :: rs.1, rs.2.1, rs.2.2)

/-- the model reported `CC_ERR_ALLOC` for this call -/
def blocked (d : Deque) (m : Mem) (op : Op) : Bool := (stepM d m op).1.st == some .errAlloc

/-- the ideal list, told which calls were blocked: a blocked call returns `CC_ERR_ALLOC` and changes
nothing, every other call is the ideal operation -/
def stepB (l : List Nat) (ob : Op × Bool) : Out × List Nat :=
  if ob.2 then (⟨some .errAlloc, none, []⟩, l) else stepS l ob.1

def runB (l : List Nat) : List (Op × Bool) → List Out × List Nat
  | [] => ([], l)
  | ob :: obs => let r := stepB l ob; let rs := runB r.2 obs; (r.1 :: rs.1, rs.2)

/-- which calls of a history the model blocks (along its own run) -/
def flags (d : Deque) (m : Mem) : List Op → List Bool
  | [] => []
  | op :: ops => blocked d m op :: flags (stepM d m op).2.1 (stepM d m op).2.2 ops

/-- no *executed* `add_at` of the history falls into finding D3's range (sizes along the ideal run) -/
def d3FreeB (l : List Nat) : List (Op × Bool) → Prop
  | [] => True
  | ob :: obs => (ob.2 = false → ¬ inD3 l.length ob.1) ∧ d3FreeB (stepB l ob).2 obs

/-- the operation has to obtain a new buffer in this state -/
def needsAlloc (d : Deque) : Op → Prop
  | .addFirst _ | .addLast _ => d.size = d.cap
  | .addAt _ i => i < d.size ∧ d.size = d.cap
  | .trim => d.cap ≠ d.size ∧ Deque.upperPow2 d.size ≠ d.cap
  | .copySwap _ => True
  | _ => False

/-- growing is impossible because the capacity limit `MAX_POW_TWO` is reached -/
def limitHit (d : Deque) : Op → Prop
  | .addFirst _ | .addLast _ | .addAt _ _ => d.cap = Gen.MAX_POW_TWO
  | _ => False

/-- the ideal list never reports `CC_ERR_ALLOC` -/
theorem stepS_never_errAlloc (l : List Nat) (op : Op) : (stepS l op).1.st ≠ some .errAlloc := by
  cases op with
  | addFirst x => simp [stepS]
  | addLast x => simp [stepS]
  | addAt x i => simp only [stepS, DequeSpec.addAt]; split <;> simp
  | replaceAt x i => simp only [stepS, DequeSpec.replaceAt]; split <;> simp
  | removeAt i => simp only [stepS, DequeSpec.removeAt]; split <;> simp
  | removeFirst => cases l <;> simp [stepS, DequeSpec.removeFirst]
  | removeLast => simp only [stepS, DequeSpec.removeLast]; cases l.getLast? <;> simp
  | remove x => simp only [stepS, DequeSpec.remove]; cases l.findIdx? (· == x) <;> simp
  | removeAll => simp [stepS]
  | getAt i => simp only [stepS, DequeSpec.getAt]; cases l[i]? <;> simp
  | getFirst => simp only [stepS, DequeSpec.getFirst, DequeSpec.getAt]; cases l[0]? <;> simp
  | getLast => simp only [stepS, DequeSpec.getLast]; cases l.getLast? <;> simp
  | reverse => simp [stepS]
  | filterMut p => simp only [stepS, DequeSpec.filterMut]; split <;> simp
  | trim => simp [stepS]
  | contains x => simp [stepS]
  | indexOf x => simp only [stepS, DequeSpec.indexOf]; cases l.findIdx? (· == x) <;> simp
  | size => simp [stepS]
  | foreach => simp [stepS]
  | copySwap cp => simp [stepS]

/-- **the blocked set is pinned down**: a call is blocked exactly when it has to obtain a new buffer and
the allocator of the deque's triple refuses, or the documented capacity limit is reached — never
otherwise, and never for an operation that does not allocate (every layout, D3's range included) -/
theorem blocked_iff (d : Deque) (m : Mem) (op : Op) (hi : d.Inv) :
    blocked d m op = true ↔ needsAlloc d op ∧ (refusalFires d m op ∨ limitHit d op) := by
  have he := Deque.errAlloc_iff d m
  unfold blocked
  rw [beq_iff_eq]
  have hnon : ∀ op, ¬ inD3 d.size op → op.allocates = false → (stepM d m op).1.st ≠ some .errAlloc := by
    intro op hD hal
    rcases step_refines_partial d m op hi hD with ⟨s1, _⟩ | ⟨s1, _⟩
    · rw [s1]; exact stepS_never_errAlloc d.abs op
    · rw [hal] at s1; exact absurd s1 (by decide)
  cases op with
  | addFirst x =>
    simp only [stepM, Option.some.injEq, needsAlloc, limitHit, refusalFires]
    rw [(he x 0 hi).2.1]
    constructor
    · rintro ⟨a, b⟩; exact ⟨a, b.symm⟩
    · rintro ⟨a, b⟩; exact ⟨a, b.symm⟩
  | addLast x =>
    simp only [stepM, Option.some.injEq, needsAlloc, limitHit, refusalFires]
    rw [(he x 0 hi).1]
    constructor
    · rintro ⟨a, b⟩; exact ⟨a, b.symm⟩
    · rintro ⟨a, b⟩; exact ⟨a, b.symm⟩
  | addAt x i =>
    simp only [stepM, Option.some.injEq, needsAlloc, limitHit, refusalFires]
    rw [(he x i hi).2.2.1]
    constructor
    · rintro ⟨a, b, c⟩; exact ⟨⟨a, b⟩, c.symm⟩
    · rintro ⟨⟨a, b⟩, c⟩; exact ⟨a, b, c.symm⟩
  | trim =>
    simp only [stepM, Option.some.injEq, needsAlloc, limitHit, refusalFires]
    rw [(he 0 0 hi).2.2.2]
    constructor
    · rintro ⟨a, b, c⟩; exact ⟨⟨a, b⟩, Or.inl c⟩
    · rintro ⟨⟨a, b⟩, c | c⟩
      · exact ⟨a, b, c⟩
      · exact c.elim
  | replaceAt x i => simp only [needsAlloc, false_and, iff_false]; exact hnon _ (fun h => h) rfl
  | removeAt i => simp only [needsAlloc, false_and, iff_false]; exact hnon _ (fun h => h) rfl
  | removeFirst => simp only [needsAlloc, false_and, iff_false]; exact hnon _ (fun h => h) rfl
  | removeLast => simp only [needsAlloc, false_and, iff_false]; exact hnon _ (fun h => h) rfl
  | remove x => simp only [needsAlloc, false_and, iff_false]; exact hnon _ (fun h => h) rfl
  | removeAll => simp only [needsAlloc, false_and, iff_false]; exact hnon _ (fun h => h) rfl
  | getAt i => simp only [needsAlloc, false_and, iff_false]; exact hnon _ (fun h => h) rfl
  | getFirst => simp only [needsAlloc, false_and, iff_false]; exact hnon _ (fun h => h) rfl
  | getLast => simp only [needsAlloc, false_and, iff_false]; exact hnon _ (fun h => h) rfl
  | reverse => simp only [needsAlloc, false_and, iff_false]; exact hnon _ (fun h => h) rfl
  | filterMut p => simp only [needsAlloc, false_and, iff_false]; exact hnon _ (fun h => h) rfl
  | contains x => simp only [needsAlloc, false_and, iff_false]; exact hnon _ (fun h => h) rfl
  | indexOf x => simp only [needsAlloc, false_and, iff_false]; exact hnon _ (fun h => h) rfl
  | size => simp only [needsAlloc, false_and, iff_false]; exact hnon _ (fun h => h) rfl
  | foreach => simp only [needsAlloc, false_and, iff_false]; exact hnon _ (fun h => h) rfl
  | copySwap cp =>
    simp only [needsAlloc, limitHit, refusalFires, true_and, or_false]
    rcases Deque.copy_spec d cp m hi with ⟨n1, c, n2, _⟩ | ⟨n1, n2, _, n4⟩
    · obtain ⟨k1, k2⟩ := Deque.copy_alloc_ok d cp m n1
      simp only [stepM, n2, n1]
      constructor
      · intro h; simp at h
      · rintro (h | h)
        · rw [h] at k1; exact absurd k1 (by decide)
        · rw [h] at k2; exact absurd k2 (by decide)
    · simp only [stepM, n2, n1]
      exact ⟨fun _ => n4, fun _ => trivial⟩

/-- a blocked call leaves the deque physically unchanged and the ledger balanced (every layout, every
index: finding D3's range included) -/
theorem blocked_inert (d : Deque) (m : Mem) (op : Op) (hi : d.Inv) (hb : blocked d m op = true) :
    (stepM d m op).1 = ⟨some .errAlloc, none, []⟩ ∧ (stepM d m op).2.1 = d ∧ Deque.memSame d.triple (stepM d m op).2.2 m := by
  have hn := ((blocked_iff d m op hi).mp hb).1
  unfold blocked at hb
  rw [beq_iff_eq] at hb
  have hra := fun x i => refused_atomic d m x i hi
  cases op with
  | addFirst x =>
    simp only [stepM, Option.some.injEq] at hb ⊢
    obtain ⟨a, b⟩ := (hra x 0).1 (by rw [hb]; decide)
    exact ⟨by rw [hb], a, b⟩
  | addLast x =>
    simp only [stepM, Option.some.injEq] at hb ⊢
    obtain ⟨a, b⟩ := (hra x 0).2.1 (by rw [hb]; decide)
    exact ⟨by rw [hb], a, b⟩
  | addAt x i =>
    simp only [stepM, Option.some.injEq] at hb ⊢
    obtain ⟨a, b⟩ := (hra x i).2.2.1 (by rw [hb]; decide)
    exact ⟨by rw [hb], a, b⟩
  | trim =>
    simp only [stepM, Option.some.injEq] at hb ⊢
    obtain ⟨a, b⟩ := (hra 0 0).2.2.2 (by rw [hb]; decide)
    exact ⟨by rw [hb], a, b⟩
  | copySwap cp =>
    rcases Deque.copy_spec d cp m hi with ⟨n1, c, n2, _⟩ | ⟨n1, n2, n3, _⟩
    · simp only [stepM, n2, n1] at hb; simp at hb
    · simp only [stepM, n2, n1]; exact ⟨trivial, trivial, n3⟩
  | _ => exact hn.elim

/-- **C05, all histories, every refusal schedule (partial on D3).**  From any layout satisfying the
invariant and for **any** allocator behaviour, a history whose executed `add_at` calls stay outside
finding D3's range produces on the model exactly the statuses and out-values of the ideal list that is told
which calls were blocked (`flags`, pinned down by `blocked_iff`): blocked calls report `CC_ERR_ALLOC` and
change nothing, all others are the ideal operations — so the history continues correctly after any number
of refused growth steps.  The final content is the ideal list's, the invariant holds (in particular the
buffer block is exactly `capacity` slots), the ledger is balanced, nothing faulted, the triple is kept. -/
theorem history_refines_sched_partial (ops : List Op) (d : Deque) (m : Mem) (hi : d.Inv)
    (hfree : d3FreeB d.abs (ops.zip (flags d m ops))) :
    (runM d m ops).1 = (runB d.abs (ops.zip (flags d m ops))).1 ∧
    (runM d m ops).2.1.abs = (runB d.abs (ops.zip (flags d m ops))).2 ∧
    (runM d m ops).2.1.Inv ∧ Deque.memSame d.triple (runM d m ops).2.2 m ∧
    (runM d m ops).2.1.triple = d.triple := by
  induction ops generalizing d m with
  | nil => exact ⟨rfl, rfl, hi, Deque.memSame_refl _ m, rfl⟩
  | cons op ops ih =>
    simp only [flags, List.zip_cons_cons, d3FreeB] at hfree
    obtain ⟨hf1, hf2⟩ := hfree
    have htr := step_triple d m op
    simp only [runM, flags, List.zip_cons_cons, runB]
    cases hb : blocked d m op
    · -- executed
      rw [hb] at hf1 hf2
      simp only [stepB, Bool.false_eq_true, if_false] at hf2 ⊢
      rw [Deque.abs_length] at hf1
      rcases step_refines_partial d m op hi (hf1 rfl) with ⟨s1, s2, s3, s4⟩ | ⟨_, s1, _⟩
      · rw [← s2] at hf2
        obtain ⟨r1, r2, r3, r4, r5⟩ := ih (stepM d m op).2.1 (stepM d m op).2.2 s3 hf2
        rw [s2] at r1 r2
        rw [htr] at r4 r5
        exact ⟨by rw [s1, r1], r2, r3, Deque.memSame_trans r4 s4, r5⟩
      · exfalso
        unfold blocked at hb
        rw [s1] at hb; simp at hb
    · -- blocked
      obtain ⟨b1, b2, b3⟩ := blocked_inert d m op hi hb
      rw [hb] at hf2
      simp only [stepB, if_true] at hf2 ⊢
      have habs : (stepM d m op).2.1.abs = d.abs := by rw [b2]
      rw [← habs] at hf2
      obtain ⟨r1, r2, r3, r4, r5⟩ := ih (stepM d m op).2.1 (stepM d m op).2.2 (by rw [b2]; exact hi) hf2
      rw [habs] at r1 r2
      rw [htr] at r4 r5
      exact ⟨by rw [b1, r1], r2, r3, Deque.memSame_trans r4 b3, r5⟩

/-- no `add_at` of the history falls into finding D3's range (sizes taken along the ideal run) -/
def d3Free (l : List Nat) : List Op → Prop
  | [] => True
  | op :: ops => ¬ inD3 l.length op ∧ d3Free (stepS l op).2 ops

/-- one ideal step adds at most one element -/
theorem stepS_length_le (l : List Nat) (op : Op) : (stepS l op).2.length ≤ l.length + 1 := by
  cases op with
  | addFirst x => simp [stepS, DequeSpec.addFirst]
  | addLast x => simp [stepS, DequeSpec.addLast]
  | addAt x i => simp only [stepS, DequeSpec.addAt]; split <;> simp [List.length_insertIdx] <;> split <;> omega
  | replaceAt x i => simp only [stepS, DequeSpec.replaceAt]; split <;> simp
  | removeAt i => simp only [stepS, DequeSpec.removeAt]; split <;> simp [List.length_eraseIdx] <;> split <;> omega
  | removeFirst => cases l <;> simp [stepS, DequeSpec.removeFirst]; omega
  | removeLast =>
    simp only [stepS, DequeSpec.removeLast]
    cases l.getLast? <;> simp; omega
  | remove x =>
    simp only [stepS, DequeSpec.remove]
    cases l.findIdx? (· == x) <;> simp [List.length_eraseIdx]; split <;> omega
  | removeAll => simp [stepS]
  | getAt i => simp [stepS]
  | getFirst => simp [stepS]
  | getLast => simp [stepS]
  | reverse => simp [stepS]
  | filterMut p =>
    simp only [stepS, DequeSpec.filterMut]
    split
    · simp
    · have := List.length_filter_le p l; simp only; omega
  | trim => simp [stepS]
  | contains x => simp [stepS]
  | indexOf x => simp [stepS]
  | size => simp [stepS]
  | foreach => simp [stepS]
  | copySwap cp => cases cp <;> simp [stepS]

/-- **Corollary: nothing is blocked** when the allocator never refuses (C-library triple, or an exhausted
schedule) and the deque stays below `MAX_POW_TWO` elements: the model then equals the plain ideal list. -/
theorem history_refines_partial (ops : List Op) (d : Deque) (m : Mem) (hi : d.Inv) (hn : Deque.neverRefuses d.triple m)
    (hbound : d.size + ops.length ≤ Gen.MAX_POW_TWO) (hfree : d3Free d.abs ops) :
    (runM d m ops).1 = (runS d.abs ops).1 ∧ (runM d m ops).2.1.abs = (runS d.abs ops).2 ∧
    (runM d m ops).2.1.Inv ∧ Deque.memSame d.triple (runM d m ops).2.2 m := by
  induction ops generalizing d m with
  | nil => exact ⟨rfl, rfl, hi, Deque.memSame_refl _ m⟩
  | cons op ops ih =>
    obtain ⟨hf1, hf2⟩ := hfree
    simp only [List.length_cons] at hbound
    rw [Deque.abs_length] at hf1
    have htr := step_triple d m op
    rcases step_refines_partial d m op hi hf1 with ⟨s1, s2, s3, s4⟩ | ⟨_, _, _, _, s5⟩
    · have hlen := stepS_length_le d.abs op
      rw [← s2, Deque.abs_length, Deque.abs_length] at hlen
      rw [← s2] at hf2
      obtain ⟨r1, r2, r3, r4⟩ := ih (stepM d m op).2.1 (stepM d m op).2.2 s3
        (by rw [htr]; exact Deque.memD_neverRefuses s4 hn) (by omega) hf2
      simp only [runM, runS]
      rw [s2] at r1 r2
      rw [htr] at r4
      exact ⟨by rw [s1, r1], r2, r3, Deque.memSame_trans r4 s4⟩
    · exfalso
      rcases s5 with s5 | ⟨s5, s6⟩
      · exact not_refusalFires d m op hn s5
      · have := hi.2.2.2.2.2; omega

/-- **C05 from the constructor, every refusal schedule (partial on D3)**: every configured capacity, either
constructor, any allocator behaviour from the very first call on.  Either the constructor is refused
(`CC_ERR_ALLOC`, no object, balanced ledger — exactly when one of its two requests is refused), or it yields
a deque that carries the given triple and *every* history on it, under whatever schedule remains, refines
the ideal list told which calls were blocked; the object owns exactly two blocks on its triple throughout
and nothing faults.  "All configured capacities × all histories × all schedules" in one statement. -/
theorem new_history_refines_sched_partial (confCap : Nat) (t : Triple) (m0 : Mem) (ops : List Op) :
    ((Deque.new confCap t m0).1 = .errAlloc ∧ (Deque.new confCap t m0).2.1 = none ∧
      Deque.memSame t (Deque.new confCap t m0).2.2 m0 ∧
      ((m0.allocT t).1 = false ∨ ((m0.allocT t).2.allocT t).1 = false)) ∨
    (∃ d0, Deque.new confCap t m0 = (.ok, some d0, (Deque.new confCap t m0).2.2) ∧ d0.triple = t ∧
      d0.abs = [] ∧ d0.cap = Deque.upperPow2 confCap ∧
      (d3FreeB [] (ops.zip (flags d0 (Deque.new confCap t m0).2.2 ops)) →
        (runM d0 (Deque.new confCap t m0).2.2 ops).1 = (runB [] (ops.zip (flags d0 (Deque.new confCap t m0).2.2 ops))).1 ∧
        (runM d0 (Deque.new confCap t m0).2.2 ops).2.1.abs =
          (runB [] (ops.zip (flags d0 (Deque.new confCap t m0).2.2 ops))).2 ∧
        (runM d0 (Deque.new confCap t m0).2.2 ops).2.1.Inv ∧
        Deque.memRel t 2 (runM d0 (Deque.new confCap t m0).2.2 ops).2.2 m0)) := by
  rcases Deque.new_spec confCap t m0 with ⟨n1, d0, n2, n3, n4, n5, n6, n7, _⟩ | ⟨n1, n2, n3, n4⟩
  · right
    refine ⟨d0, by rw [← n1, ← n2], n6, n4, n5, fun hfree => ?_⟩
    obtain ⟨r1, r2, r3, r4, _⟩ := history_refines_sched_partial ops d0 (Deque.new confCap t m0).2.2 n3
      (by rw [n4]; exact hfree)
    rw [n4] at r1 r2
    rw [n6] at r4
    exact ⟨r1, r2, r3, Deque.memRel_same r4 n7⟩
  · exact Or.inl ⟨n1, n2, n3, n4⟩

/-- **C05 from the constructor**, for every configured capacity (power of two or not, 0 included) and
either constructor (`cc_deque_new_conf` → configured triple, `cc_deque_new` → C library triple): the run
refines the ideal list, the object owns exactly two blocks on its triple throughout, nothing faults -/
theorem new_history_refines_partial (confCap : Nat) (t : Triple) (m0 : Mem) (hn : Deque.neverRefuses t m0) (ops : List Op)
    (hbound : ops.length ≤ Gen.MAX_POW_TWO) (hfree : d3Free [] ops) :
    ∃ d0, Deque.new confCap t m0 = (.ok, some d0, (Deque.new confCap t m0).2.2) ∧ d0.triple = t ∧
      (runM d0 (Deque.new confCap t m0).2.2 ops).1 = (runS [] ops).1 ∧
      (runM d0 (Deque.new confCap t m0).2.2 ops).2.1.abs = (runS [] ops).2 ∧
      (runM d0 (Deque.new confCap t m0).2.2 ops).2.1.Inv ∧
      Deque.memRel t 2 (runM d0 (Deque.new confCap t m0).2.2 ops).2.2 m0 := by
  rcases Deque.new_spec confCap t m0 with ⟨n1, d0, n2, n3, n4, n5, n6, n7, n8, n9⟩ | ⟨n1, _, _, n4⟩
  · have hsz : d0.size = 0 := by have := congrArg List.length n4; simpa using this
    obtain ⟨r1, r2, r3, r4⟩ := history_refines_partial ops d0 _ n3 (by rw [n6]; exact Deque.memD_neverRefuses n7 hn)
      (by omega) (by rw [n4]; exact hfree)
    rw [n4] at r1 r2
    rw [n6] at r4
    refine ⟨d0, ?_, n6, r1, r2, r3, Deque.memRel_same r4 n7⟩
    rw [← n1, ← n2]
  · exfalso
    have h1 := Deque.allocT_of_neverRefuses t m0 hn
    have h2 := (Deque.allocT_of_neverRefuses t _ h1.2.1).1
    rcases n4 with n4 | n4
    · rw [n4] at h1; exact absurd h1.1 (by decide)
    · rw [n4] at h2; exact absurd h2 (by decide)

/-! ## copying, traversal and size (named in the property text) -/

/-- **copying preserves element order**: a successful `copy_shallow` is a deque with the same content in
the same order (deep copy: the images, in order), satisfying the invariant; the source is not an output of
the builder (value semantics of the model — that the C source is untouched is observed by the harness);
or the copy is refused — exactly when one of its two requests is — and nothing is produced.  Inside
histories copying is the operation `Op.copySwap`. -/
theorem copy_preserves_order (d : Deque) (cp : Option (Nat → Nat)) (m : Mem) (hi : d.Inv) :
    ((d.copy cp m).1 = .ok ∧ ∃ c, (d.copy cp m).2.1 = some c ∧ c.Inv ∧
      (cp = none → c.abs = d.abs) ∧ (∀ f, cp = some f → c.abs = d.abs.map f) ∧ c.size = d.size ∧
      c.cap = d.cap ∧ c.triple = d.triple ∧ Deque.memRel d.triple 2 (d.copy cp m).2.2 m) ∨
    ((d.copy cp m).1 = .errAlloc ∧ (d.copy cp m).2.1 = none ∧ Deque.memSame d.triple (d.copy cp m).2.2 m ∧
      ((m.allocT d.triple).1 = false ∨ ((m.allocT d.triple).2.allocT d.triple).1 = false)) := by
  rcases Deque.copy_spec d cp m hi with ⟨n1, c, n2, n3, n4, n5, n6, n7, _⟩ | ⟨n1, n2, n3, n4⟩
  · left
    have hl := congrArg List.length n4
    refine ⟨n1, c, n2, n3, fun e => by subst e; exact n4, fun f e => by subst e; exact n4, ?_, n5, n6, n7⟩
    cases cp <;> simpa using hl
  · exact Or.inr ⟨n1, n2, n3, n4⟩

/-- `size` and `foreach` observe the ideal list: `cc_deque_size` is its length, the callback sequence of
`foreach` is the list itself, front to back -/
theorem size_and_foreach (d : Deque) (m : Mem) (hi : d.Inv) :
    d.size = d.abs.length ∧ (d.foreach m).1 = d.abs ∧ (d.foreach m).2 = m :=
  ⟨by simp, (Deque.foreach_spec d m hi).1, (Deque.foreach_spec d m hi).2⟩

/-! ## rejected and refused calls (C16 / C08, deque part) -/

/-- an index outside `[0, size)` is rejected by every indexed operation and the **whole physical state**
is unchanged — for every index in ℕ (so in particular `size`, `size + 1`, `2^63`, `SIZE_MAX`) -/
theorem out_of_range_inert (d : Deque) (m : Mem) (x i : Nat) (h : d.size ≤ i) :
    d.addAt x i m = (.errOutOfRange, d, m) ∧ d.replaceAt x i m = (.errOutOfRange, none, d, m) ∧
    d.removeAt i m = (.errOutOfRange, none, d, m) ∧ d.getAt i m = (.errOutOfRange, none, m) := by
  refine ⟨Deque.addAt_inert d x i m h, ?_, ?_, ?_⟩
  · unfold Deque.replaceAt; rw [if_pos h]
  · unfold Deque.removeAt; rw [if_pos h]
  · unfold Deque.getAt; rw [if_pos h]

/-- removal and lookup at the ends of an empty deque are rejected, nothing changes -/
theorem empty_inert (d : Deque) (m : Mem) (h : d.size = 0) :
    d.removeFirst m = (.errOutOfRange, none, d, m) ∧ d.removeLast m = (.errOutOfRange, none, d, m) ∧
    d.getFirst m = (.errOutOfRange, none, m) ∧ d.getLast m = (.errOutOfRange, none, m) ∧
    d.filterMut (fun _ => true) m = (.errOutOfRange, d, m) := by
  refine ⟨?_, ?_, ?_, ?_, ?_⟩
  · unfold Deque.removeFirst; rw [if_pos h]
  · unfold Deque.removeLast; rw [if_pos h]
  · unfold Deque.getFirst; rw [if_pos h]
  · unfold Deque.getLast; rw [if_pos h]
  · unfold Deque.filterMut; rw [if_pos h]

/-! ## capacity facts (C20, deque part) -/

/-- the invariant says: capacity is a power of two, `size ≤ capacity`, the buffer block is exactly
`capacity` slots long -/
theorem inv_capacity (d : Deque) (hi : d.Inv) :
    (∃ k, d.cap = 2 ^ k) ∧ d.size ≤ d.cap ∧ d.buf.length = d.cap ∧ d.cap ≤ Gen.MAX_POW_TWO :=
  ⟨hi.pow2, hi.2.2.2.2.2, hi.2.2.1, hi.2.1⟩

/-- growth doubles: a successful `add_last`/`add_first` keeps the capacity, or exactly doubles it when
the deque was full; a successful trim sets it to `upper_pow_two(size)`, which is the least power of two
`≥ size` -/
theorem growth_doubles (d : Deque) (m : Mem) (x : Nat) (hi : d.Inv) :
    ((d.addLast x m).1 = .ok → (d.addLast x m).2.1.cap = if d.size = d.cap then 2 * d.cap else d.cap) ∧
    ((d.addFirst x m).1 = .ok → (d.addFirst x m).2.1.cap = if d.size = d.cap then 2 * d.cap else d.cap) ∧
    ((d.trimCapacity m).1 = .ok → (d.trimCapacity m).2.1.cap = Deque.upperPow2 d.size ∧
      d.size ≤ Deque.upperPow2 d.size ∧ ∀ k, d.size ≤ 2 ^ k → Deque.upperPow2 d.size ≤ 2 ^ k) := by
  refine ⟨?_, ?_, ?_⟩
  · intro h
    rcases Deque.addLast_spec d x m hi with ⟨_, _, _, _, a5, _⟩ | ⟨a1, _⟩
    · exact a5
    · rw [a1] at h; exact absurd h (by decide)
  · intro h
    rcases Deque.addFirst_spec d x m hi with ⟨_, _, _, _, a5, _⟩ | ⟨a1, _⟩
    · exact a5
    · rw [a1] at h; exact absurd h (by decide)
  · intro h
    rcases Deque.trimCapacity_spec d m hi with ⟨_, _, _, _, a5, a6, _⟩ | ⟨a1, _⟩
    · exact ⟨a5, by rw [← a5]; exact a6, fun k hk => Deque.upperPow2_least d.size k hk⟩
    · rw [a1] at h; exact absurd h (by decide)

/-! ## finding D3 and non-vacuity -/

/-- the hypothesis `¬ inD3` of `step_refines` cannot be dropped: two concrete layouts on which the model
(= the C code) disagrees with `List.insertIdx` -/
theorem add_at_front_half_wrong :
    Deque.d3Wrapped.Inv ∧ inD3 Deque.d3Wrapped.size (.addAt 9 1) ∧
    (stepM Deque.d3Wrapped {} (.addAt 9 1)).2.1.abs ≠ (stepS Deque.d3Wrapped.abs (.addAt 9 1)).2 ∧
    Deque.d3Unwrapped.Inv ∧ inD3 Deque.d3Unwrapped.size (.addAt 9 1) ∧
    (stepM Deque.d3Unwrapped {} (.addAt 9 1)).2.1.abs ≠ (stepS Deque.d3Unwrapped.abs (.addAt 9 1)).2 :=
  ⟨by decide, ⟨by decide, by decide⟩, by decide, by decide, ⟨by decide, by decide⟩, by decide⟩

/-- **finding D3, characterised**: inside the excluded range `add_at` is wrong but fully determined — for
every layout the call (unless its growth is refused) returns `CC_OK` and either inserts one position late
(deque had to grow, or its ring wraps before `index`, or it starts at slot 0) or overwrites the element at
`index` and duplicates its predecessor (contiguous, `first ≠ 0`).  The result satisfies the invariant and the
ledger is balanced, so every step theorem applies again afterwards: histories through D3 calls stay inside
the theorems, they just do not refine `List.insertIdx index` at that call. -/
theorem add_at_front_half_behaviour (d : Deque) (x i : Nat) (m : Mem) (hi : d.Inv) (hD3 : inD3 d.size (.addAt x i)) :
    (stepM d m (.addAt x i)).2.1.Inv ∧ Deque.memSame d.triple (stepM d m (.addAt x i)).2.2 m ∧
    (stepM d m (.addAt x i)).2.1.size ≤ d.size + 1 ∧
    (((stepM d m (.addAt x i)).1.st = some .errAlloc ∧ (stepM d m (.addAt x i)).2.1 = d) ∨
    ((stepM d m (.addAt x i)).1.st = some .ok ∧
      ((d.size = d.cap ∨ (d.first + i) % d.cap < d.first ∨ d.first = 0) →
        (stepM d m (.addAt x i)).2.1.abs = d.abs.insertIdx (i + 1) x) ∧
      (¬ (d.size = d.cap ∨ (d.first + i) % d.cap < d.first ∨ d.first = 0) →
        (stepM d m (.addAt x i)).2.1.abs = (d.abs.set i x).insertIdx i (d.abs.getD (i - 1) 0)))) := by
  obtain ⟨b1, b2, b3, b4⟩ := Deque.addAt_inv d x i m hi
  have hsize : (d.addAt x i m).2.1.size ≤ d.size + 1 := by
    by_cases hok : (d.addAt x i m).1 = .ok
    · rw [(b3 hok).1]; exact Nat.le_refl _
    · rw [(b4 hok).1]; omega
  refine ⟨b1, b2, hsize, ?_⟩
  rcases Deque.addAt_front_half_behaviour d x i m hi hD3 with ⟨a1, a2⟩ | ⟨a1, a2, a3⟩
  · exact Or.inl ⟨by simp only [stepM, a1], a2⟩
  · exact Or.inr ⟨by simp only [stepM, a1], a2, a3⟩

/-- the hypotheses are satisfiable by non-trivial states: a wrapped, exactly full deque -/
example : (Deque.mk 4 4 3 3 [12, 13, 14, 11] .conf).Inv ∧ (Deque.mk 4 4 3 3 [12, 13, 14, 11] .conf).abs = [11, 12, 13, 14] ∧
    d3Free [11, 12, 13, 14] [.addAt 7 3, .removeAt 2, .addAt 8 0, .reverse] := by
  refine ⟨by decide, by decide, ?_⟩
  simp [d3Free, inD3, stepS, DequeSpec.addAt, DequeSpec.removeAt]

/-- non-vacuity of the every-schedule theorem: an exactly full, wrapped deque whose first growth is
refused and second growth succeeds — the first call is blocked, the second is not -/
example : flags (Deque.mk 2 2 1 1 [12, 11] .conf) { sched := [true] } [.addLast 5, .addLast 6] = [true, false] ∧
    (runM (Deque.mk 2 2 1 1 [12, 11] .conf) { sched := [true] } [.addLast 5, .addLast 6]).2.1.abs = [11, 12, 6] := by
  decide

/-- copying, traversal and size inside a history: a wrapped, exactly full deque is copied (the original is
destroyed), the copy is traversed, appended to (it grows) and measured -/
example : (runM (Deque.mk 4 4 3 3 [12, 13, 14, 11] .conf) { live := 2 } [.copySwap none, .foreach, .addLast 5, .size]).1 =
    [⟨some .ok, none, []⟩, ⟨none, none, [11, 12, 13, 14]⟩, ⟨some .ok, none, []⟩, ⟨none, some 5, []⟩] ∧
    (runM (Deque.mk 4 4 3 3 [12, 13, 14, 11] .conf) { live := 2 } [.copySwap none, .foreach, .addLast 5, .size]).2.2.live = 2 := by
  decide

end CC.Properties.C05
