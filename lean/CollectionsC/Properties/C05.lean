import CollectionsC.Proofs.DequeAddAt
import CollectionsC.Proofs.DequeMore
/-! # C05 — CC_Deque is an ideal double-ended sequence in every physical layout

Statements and closing proofs only; the per-operation theorems are in `Proofs/Deque*.lean`.
The concrete model `CC.Deque` (`Model/Deque.lean`) mirrors `src/cc_deque.c` statement by statement
(ring buffer `buf`, `first`, `last`, `size`, `capacity`; every `memmove` of `add_at`/`remove_at`);
the abstract spec is a plain `List Nat` (`Spec/DequeSpec.lean`).  Quantifiers: every state satisfying
the representation invariant `Deque.Inv` — i.e. every (capacity = 2^k, first, size) layout, exactly
full and wrapped ones included —, every operation, every index and value in ℕ, every history.

**Partial (known finding D3).** `cc_deque_add_at` with `1 ≤ index ∧ index + 1 ≤ size / 2` takes a branch
that is wrong in the C source and pinned by the upstream tests.  Every statement below that involves
`add_at` carries the hypothesis excluding exactly that range; `add_at_front_half_wrong` shows the
hypothesis cannot be dropped.  Everything else is unconditional. -/
namespace CC.Properties.C05
open CC CC.Spec

/-- the operations C05 names -/
inductive Op where
  | addFirst (x : Nat) | addLast (x : Nat) | addAt (x i : Nat) | replaceAt (x i : Nat)
  | removeAt (i : Nat) | removeFirst | removeLast | remove (x : Nat) | removeAll
  | getAt (i : Nat) | getFirst | getLast | reverse | filterMut (p : Nat → Bool) | trim
  | contains (x : Nat) | indexOf (x : Nat)

/-- what a call returns: status (none for `void`/`size_t` functions) and out-value -/
structure Out where
  st  : Option Stat
  val : Option Nat
  deriving DecidableEq, Repr

/-- does the operation ever call the allocator -/
def Op.allocates : Op → Bool
  | .addFirst _ | .addLast _ | .addAt _ _ | .trim => true
  | _ => false

/-- the ideal list (never refuses anything) -/
def stepS (l : List Nat) : Op → Out × List Nat
  | .addFirst x => (⟨some .ok, none⟩, DequeSpec.addFirst l x)
  | .addLast x => (⟨some .ok, none⟩, DequeSpec.addLast l x)
  | .addAt x i => let r := DequeSpec.addAt l x i; (⟨some r.1, none⟩, r.2)
  | .replaceAt x i => let r := DequeSpec.replaceAt l x i; (⟨some r.1, r.2.1⟩, r.2.2)
  | .removeAt i => let r := DequeSpec.removeAt l i; (⟨some r.1, r.2.1⟩, r.2.2)
  | .removeFirst => let r := DequeSpec.removeFirst l; (⟨some r.1, r.2.1⟩, r.2.2)
  | .removeLast => let r := DequeSpec.removeLast l; (⟨some r.1, r.2.1⟩, r.2.2)
  | .remove x => let r := DequeSpec.remove l x; (⟨some r.1, r.2.1⟩, r.2.2)
  | .removeAll => (⟨none, none⟩, [])
  | .getAt i => let r := DequeSpec.getAt l i; (⟨some r.1, r.2⟩, l)
  | .getFirst => let r := DequeSpec.getFirst l; (⟨some r.1, r.2⟩, l)
  | .getLast => let r := DequeSpec.getLast l; (⟨some r.1, r.2⟩, l)
  | .reverse => (⟨none, none⟩, l.reverse)
  | .filterMut p => let r := DequeSpec.filterMut l p; (⟨some r.1, none⟩, r.2)
  | .trim => (⟨some .ok, none⟩, l)
  | .contains x => (⟨none, some (DequeSpec.contains l x)⟩, l)
  | .indexOf x => let r := DequeSpec.indexOf l x; (⟨some r.1, r.2⟩, l)

/-- the concrete model -/
def stepM (d : Deque) (m : Mem) : Op → Out × Deque × Mem
  | .addFirst x => let r := d.addFirst x m; (⟨some r.1, none⟩, r.2.1, r.2.2)
  | .addLast x => let r := d.addLast x m; (⟨some r.1, none⟩, r.2.1, r.2.2)
  | .addAt x i => let r := d.addAt x i m; (⟨some r.1, none⟩, r.2.1, r.2.2)
  | .replaceAt x i => let r := d.replaceAt x i m; (⟨some r.1, r.2.1⟩, r.2.2.1, r.2.2.2)
  | .removeAt i => let r := d.removeAt i m; (⟨some r.1, r.2.1⟩, r.2.2.1, r.2.2.2)
  | .removeFirst => let r := d.removeFirst m; (⟨some r.1, r.2.1⟩, r.2.2.1, r.2.2.2)
  | .removeLast => let r := d.removeLast m; (⟨some r.1, r.2.1⟩, r.2.2.1, r.2.2.2)
  | .remove x => let r := d.remove x m; (⟨some r.1, r.2.1⟩, r.2.2.1, r.2.2.2)
  | .removeAll => (⟨none, none⟩, d.removeAll, m)
  | .getAt i => let r := d.getAt i m; (⟨some r.1, r.2.1⟩, d, r.2.2)
  | .getFirst => let r := d.getFirst m; (⟨some r.1, r.2.1⟩, d, r.2.2)
  | .getLast => let r := d.getLast m; (⟨some r.1, r.2.1⟩, d, r.2.2)
  | .reverse => let r := d.reverse m; (⟨none, none⟩, r.1, r.2)
  | .filterMut p => let r := d.filterMut p m; (⟨some r.1, none⟩, r.2.1, r.2.2)
  | .trim => let r := d.trimCapacity m; (⟨some r.1, none⟩, r.2.1, r.2.2)
  | .contains x => let r := d.contains x m; (⟨none, some r.1⟩, d, r.2)
  | .indexOf x => let r := d.indexOf x m; (⟨some r.1, r.2.1⟩, d, r.2.2)

/-- finding D3's range, relative to the number of elements before the call -/
def inD3 (size : Nat) : Op → Prop
  | .addAt _ i => 1 ≤ i ∧ i + 1 ≤ size / 2
  | _ => False

/-- **One step, every layout (partial on D3).**  From any state satisfying the invariant, an operation
outside finding D3's range either behaves exactly like the ideal list — same status and out-value, the
abstraction commutes, the invariant is preserved, the ledger stays balanced and nothing faults — or it
is an allocating operation whose allocation was refused (or the capacity limit `MAX_POW_TWO` is
reached by a full deque): then it reports `CC_ERR_ALLOC` and the whole state is unchanged. -/
theorem step_refines (d : Deque) (m : Mem) (op : Op) (hi : d.Inv) (hD3 : ¬ inD3 d.size op) :
    ((stepM d m op).1 = (stepS d.abs op).1 ∧ (stepM d m op).2.1.abs = (stepS d.abs op).2 ∧
      (stepM d m op).2.1.Inv ∧ Deque.memSame (stepM d m op).2.2 m) ∨
    (op.allocates = true ∧ (stepM d m op).1 = ⟨some .errAlloc, none⟩ ∧ (stepM d m op).2.1 = d ∧
      Deque.memSame (stepM d m op).2.2 m ∧
      (m.alloc.1 = false ∨ (d.cap = Gen.MAX_POW_TWO ∧ d.size = d.cap))) := by
  cases op with
  | addFirst x =>
    rcases Deque.addFirst_spec d x m hi with ⟨a1, a2, a3, a4, _⟩ | ⟨a1, a2, a3, a4, a5⟩
    · left; simp only [stepM, stepS, a1]; exact ⟨trivial, a3, a2, a4⟩
    · right; simp only [stepM, a1]; exact ⟨rfl, trivial, a2, a3, a5.imp id (fun h => ⟨h, a4⟩)⟩
  | addLast x =>
    rcases Deque.addLast_spec d x m hi with ⟨a1, a2, a3, a4, _⟩ | ⟨a1, a2, a3, a4, a5⟩
    · left; simp only [stepM, stepS, a1]; exact ⟨trivial, a3, a2, a4⟩
    · right; simp only [stepM, a1]; exact ⟨rfl, trivial, a2, a3, a5.imp id (fun h => ⟨h, a4⟩)⟩
  | addAt x i =>
    rcases Deque.addAt_refines_partial d x i m hi hD3 with ⟨a1, a2, a3, a4, _⟩ | ⟨a1, a2, a3, _, a4, a5⟩
    · left; simp only [stepM, stepS, a1]; exact ⟨trivial, a2, a3, a4⟩
    · right; simp only [stepM, a1]; exact ⟨rfl, trivial, a2, a3, a5.imp id (fun h => ⟨h, a4⟩)⟩
  | replaceAt x i =>
    obtain ⟨a1, a2, a3, a4, a5, _⟩ := Deque.replaceAt_spec d x i m hi
    left; simp only [stepM, stepS, a1, a2]; exact ⟨trivial, a3, a4, by rw [a5]; exact Deque.memSame_refl m⟩
  | removeAt i =>
    obtain ⟨a1, a2, a3, a4, a5, _⟩ := Deque.removeAt_spec d i m hi
    left; simp only [stepM, stepS, a1, a2]; exact ⟨trivial, a3, a4, by rw [a5]; exact Deque.memSame_refl m⟩
  | removeFirst =>
    obtain ⟨a1, a2, a3, a4, a5, _⟩ := Deque.removeFirst_spec d m hi
    left; simp only [stepM, stepS, a1, a2, Deque.spec_removeFirst_eq]
    exact ⟨trivial, a3, a4, by rw [a5]; exact Deque.memSame_refl m⟩
  | removeLast =>
    obtain ⟨a1, a2, a3, a4, a5, _⟩ := Deque.removeLast_spec d m hi
    have hl : d.size = d.abs.length := by simp
    rw [hl] at a1 a2 a3
    left; simp only [stepM, stepS, a1, a2, Deque.spec_removeLast_eq]
    exact ⟨trivial, a3, a4, by rw [a5]; exact Deque.memSame_refl m⟩
  | remove x =>
    obtain ⟨a1, a2, a3, a4, a5, _⟩ := Deque.remove_spec d x m hi
    left; simp only [stepM, stepS, a1, a2]; exact ⟨trivial, a3, a4, by rw [a5]; exact Deque.memSame_refl m⟩
  | removeAll =>
    obtain ⟨a1, a2, _⟩ := Deque.removeAll_spec d hi
    left; exact ⟨rfl, a2, a1, Deque.memSame_refl m⟩
  | getAt i =>
    obtain ⟨a1, a2, a3⟩ := Deque.getAt_spec d i m hi
    left; simp only [stepM, stepS, a1, a2]; exact ⟨trivial, trivial, hi, by rw [a3]; exact Deque.memSame_refl m⟩
  | getFirst =>
    obtain ⟨a1, a2, a3⟩ := Deque.getFirst_spec d m hi
    left; simp only [stepM, stepS, a1, a2]; exact ⟨trivial, trivial, hi, by rw [a3]; exact Deque.memSame_refl m⟩
  | getLast =>
    obtain ⟨a1, a2, a3⟩ := Deque.getLast_spec d m hi
    left; simp only [stepM, stepS, a1, a2]; exact ⟨trivial, trivial, hi, by rw [a3]; exact Deque.memSame_refl m⟩
  | reverse =>
    obtain ⟨a1, a2, a3, _⟩ := Deque.reverse_spec d m hi
    left; simp only [stepM, stepS]; exact ⟨trivial, a1, a2, by rw [a3]; exact Deque.memSame_refl m⟩
  | filterMut p =>
    obtain ⟨a1, a2, a3, a4, _⟩ := Deque.filterMut_spec d p m hi
    left; simp only [stepM, stepS, a1]; exact ⟨trivial, a2, a3, by rw [a4]; exact Deque.memSame_refl m⟩
  | trim =>
    rcases Deque.trimCapacity_spec d m hi with ⟨a1, a2, a3, a4, _⟩ | ⟨a1, a2, a3, a4, _⟩
    · left; simp only [stepM, stepS, a1]; exact ⟨trivial, a3, a2, a4⟩
    · right; simp only [stepM, a1]; exact ⟨rfl, trivial, a2, a3, Or.inl a4⟩
  | contains x =>
    obtain ⟨a1, a2⟩ := Deque.contains_spec d x m hi
    left; simp only [stepM, stepS, a1]; exact ⟨trivial, trivial, hi, by rw [a2]; exact Deque.memSame_refl m⟩
  | indexOf x =>
    obtain ⟨a1, a2, a3⟩ := Deque.indexOf_spec d x m hi
    left; simp only [stepM, stepS, a1, a2]; exact ⟨trivial, trivial, hi, by rw [a3]; exact Deque.memSame_refl m⟩

/-! ## histories -/

def runS (l : List Nat) : List Op → List Out × List Nat
  | [] => ([], l)
  | op :: ops => let r := stepS l op; let rs := runS r.2 ops; (r.1 :: rs.1, rs.2)

def runM (d : Deque) (m : Mem) : List Op → List Out × Deque × Mem
  | [] => ([], d, m)
  | op :: ops => let r := stepM d m op; let rs := runM r.2.1 r.2.2 ops; (r.1 :: rs.1, rs.2.1, rs.2.2)

/-- no `add_at` of the history falls into finding D3's range (sizes taken along the ideal run) -/
def d3Free (l : List Nat) : List Op → Prop
  | [] => True
  | op :: ops => ¬ inD3 l.length op ∧ d3Free (stepS l op).2 ops

/-- one ideal step adds at most one element -/
theorem stepS_length_le (l : List Nat) (op : Op) : (stepS l op).2.length ≤ l.length + 1 := by
  cases op with
  | addFirst x => simp [stepS, DequeSpec.addFirst]
  | addLast x => simp [stepS, DequeSpec.addLast]
  | addAt x i => simp only [stepS, DequeSpec.addAt]; split <;> simp [List.length_insertIdx] <;> split <;> omega
  | replaceAt x i => simp only [stepS, DequeSpec.replaceAt]; split <;> simp
  | removeAt i => simp only [stepS, DequeSpec.removeAt]; split <;> simp [List.length_eraseIdx] <;> split <;> omega
  | removeFirst => cases l <;> simp [stepS, DequeSpec.removeFirst]; omega
  | removeLast =>
    simp only [stepS, DequeSpec.removeLast]
    cases l.getLast? <;> simp; omega
  | remove x =>
    simp only [stepS, DequeSpec.remove]
    cases l.findIdx? (· == x) <;> simp [List.length_eraseIdx]; split <;> omega
  | removeAll => simp [stepS]
  | getAt i => simp [stepS]
  | getFirst => simp [stepS]
  | getLast => simp [stepS]
  | reverse => simp [stepS]
  | filterMut p =>
    simp only [stepS, DequeSpec.filterMut]
    split
    · simp
    · have := List.length_filter_le p l; simp only; omega
  | trim => simp [stepS]
  | contains x => simp [stepS]
  | indexOf x => simp [stepS]

/-- **C05, all histories (partial on D3).**  With an allocator that does not refuse and fewer than
`MAX_POW_TWO` elements, every history that stays outside finding D3's range produces on the model —
from any layout satisfying the invariant — exactly the statuses and out-values of the ideal list, and
ends in a state whose content is the ideal list's, with the invariant intact, a balanced ledger and
no fault.  In particular an element index `i` always denotes the `i`-th element from the front. -/
theorem history_refines (ops : List Op) (d : Deque) (m : Mem) (hi : d.Inv) (hs : m.sched = [])
    (hbound : d.size + ops.length ≤ Gen.MAX_POW_TWO) (hfree : d3Free d.abs ops) :
    (runM d m ops).1 = (runS d.abs ops).1 ∧ (runM d m ops).2.1.abs = (runS d.abs ops).2 ∧
    (runM d m ops).2.1.Inv ∧ Deque.memSame (runM d m ops).2.2 m := by
  induction ops generalizing d m with
  | nil => exact ⟨rfl, rfl, hi, Deque.memSame_refl m⟩
  | cons op ops ih =>
    obtain ⟨hf1, hf2⟩ := hfree
    simp only [List.length_cons] at hbound
    rw [Deque.abs_length] at hf1
    rcases step_refines d m op hi hf1 with ⟨s1, s2, s3, s4⟩ | ⟨_, _, _, _, s5⟩
    · have hlen := stepS_length_le d.abs op
      rw [← s2, Deque.abs_length, Deque.abs_length] at hlen
      rw [← s2] at hf2
      obtain ⟨r1, r2, r3, r4⟩ := ih (stepM d m op).2.1 (stepM d m op).2.2 s3 (s4.2.2.2 hs) (by omega) hf2
      simp only [runM, runS]
      rw [s2] at r1 r2
      exact ⟨by rw [s1, r1], r2, r3, Deque.memSame_trans r4 s4⟩
    · exfalso
      rcases s5 with s5 | ⟨s5, s6⟩
      · have := (Deque.alloc_sched_nil m hs).1
        rw [s5] at this; exact absurd this (by decide)
      · have := hi.2.2.2.2.2; omega

/-- **C05 from the constructor**, for every configured capacity (power of two or not, 0 included) -/
theorem new_history_refines (confCap : Nat) (m0 : Mem) (hs : m0.sched = []) (ops : List Op)
    (hbound : ops.length ≤ Gen.MAX_POW_TWO) (hfree : d3Free [] ops) :
    ∃ d0, Deque.new confCap m0 = (.ok, some d0, (Deque.new confCap m0).2.2) ∧
      (runM d0 (Deque.new confCap m0).2.2 ops).1 = (runS [] ops).1 ∧
      (runM d0 (Deque.new confCap m0).2.2 ops).2.1.abs = (runS [] ops).2 ∧
      (runM d0 (Deque.new confCap m0).2.2 ops).2.1.Inv := by
  rcases Deque.new_spec confCap m0 with ⟨n1, d0, n2, n3, n4, n5, n6, n7, n8, n9⟩ | ⟨n1, _, _, n4⟩
  · have hsz : d0.size = 0 := by have := congrArg List.length n4; simpa using this
    have hs' : (Deque.new confCap m0).2.2.sched = [] := by
      have : (Deque.new confCap m0).2.2 = m0.alloc.2.alloc.2 := by simp [Deque.new, n8, n9]
      rw [this]; exact (Deque.alloc2_grow m0 n8 n9).2.2 hs
    obtain ⟨r1, r2, r3, _⟩ := history_refines ops d0 _ n3 hs' (by omega) (by rw [n4]; exact hfree)
    rw [n4] at r1 r2
    refine ⟨d0, ?_, r1, r2, r3⟩
    rw [← n1, ← n2]
  · exfalso
    have h1 := (Deque.alloc_sched_nil m0 hs)
    have h2 := (Deque.alloc_sched_nil _ h1.2).1
    rcases n4 with n4 | n4
    · rw [n4] at h1; exact absurd h1.1 (by decide)
    · rw [n4] at h2; exact absurd h2 (by decide)

/-! ## rejected and refused calls (C16 / C08, deque part) -/

/-- an index outside `[0, size)` is rejected by every indexed operation and the **whole physical state**
is unchanged — for every index in ℕ (so in particular `size`, `size + 1`, `2^63`, `SIZE_MAX`) -/
theorem out_of_range_inert (d : Deque) (m : Mem) (x i : Nat) (h : d.size ≤ i) :
    d.addAt x i m = (.errOutOfRange, d, m) ∧ d.replaceAt x i m = (.errOutOfRange, none, d, m) ∧
    d.removeAt i m = (.errOutOfRange, none, d, m) ∧ d.getAt i m = (.errOutOfRange, none, m) := by
  refine ⟨Deque.addAt_inert d x i m h, ?_, ?_, ?_⟩
  · unfold Deque.replaceAt; rw [if_pos h]
  · unfold Deque.removeAt; rw [if_pos h]
  · unfold Deque.getAt; rw [if_pos h]

/-- removal and lookup at the ends of an empty deque are rejected, nothing changes -/
theorem empty_inert (d : Deque) (m : Mem) (h : d.size = 0) :
    d.removeFirst m = (.errOutOfRange, none, d, m) ∧ d.removeLast m = (.errOutOfRange, none, d, m) ∧
    d.getFirst m = (.errOutOfRange, none, m) ∧ d.getLast m = (.errOutOfRange, none, m) ∧
    d.filterMut (fun _ => true) m = (.errOutOfRange, d, m) := by
  refine ⟨?_, ?_, ?_, ?_, ?_⟩
  · unfold Deque.removeFirst; rw [if_pos h]
  · unfold Deque.removeLast; rw [if_pos h]
  · unfold Deque.getFirst; rw [if_pos h]
  · unfold Deque.getLast; rw [if_pos h]
  · unfold Deque.filterMut; rw [if_pos h]

/-- **a refused allocation is atomic** (every layout, every index, D3's range included for `add_at`):
whenever one of the allocating operations reports an error, the deque is physically unchanged, the
ledger is balanced and nothing faulted -/
theorem refused_atomic (d : Deque) (m : Mem) (x i : Nat) (hi : d.Inv) :
    ((d.addFirst x m).1 ≠ .ok → (d.addFirst x m).2.1 = d ∧ Deque.memSame (d.addFirst x m).2.2 m) ∧
    ((d.addLast x m).1 ≠ .ok → (d.addLast x m).2.1 = d ∧ Deque.memSame (d.addLast x m).2.2 m) ∧
    ((d.addAt x i m).1 ≠ .ok → (d.addAt x i m).2.1 = d ∧ Deque.memSame (d.addAt x i m).2.2 m) ∧
    ((d.trimCapacity m).1 ≠ .ok → (d.trimCapacity m).2.1 = d ∧ Deque.memSame (d.trimCapacity m).2.2 m) := by
  refine ⟨?_, ?_, ?_, ?_⟩
  · intro h
    rcases Deque.addFirst_spec d x m hi with ⟨a1, _⟩ | ⟨_, a2, a3, _⟩
    · exact absurd a1 h
    · exact ⟨a2, a3⟩
  · intro h
    rcases Deque.addLast_spec d x m hi with ⟨a1, _⟩ | ⟨_, a2, a3, _⟩
    · exact absurd a1 h
    · exact ⟨a2, a3⟩
  · intro h
    obtain ⟨_, a2, _, a4⟩ := Deque.addAt_inv d x i m hi
    exact ⟨(a4 h).1, a2⟩
  · intro h
    rcases Deque.trimCapacity_spec d m hi with ⟨a1, _⟩ | ⟨_, a2, a3, _⟩
    · exact absurd a1 h
    · exact ⟨a2, a3⟩

/-! ## capacity facts (C20, deque part) -/

/-- the invariant says: capacity is a power of two, `size ≤ capacity`, the buffer block has at least
`capacity` slots -/
theorem inv_capacity (d : Deque) (hi : d.Inv) :
    (∃ k, d.cap = 2 ^ k) ∧ d.size ≤ d.cap ∧ d.cap ≤ d.buf.length ∧ d.cap ≤ Gen.MAX_POW_TWO :=
  ⟨hi.pow2, hi.2.2.2.2.2, hi.2.2.1, hi.2.1⟩

/-- growth doubles: a successful `add_last`/`add_first` keeps the capacity, or exactly doubles it when
the deque was full; a successful trim sets it to `upper_pow_two(size)`, which is the least power of two
`≥ size` -/
theorem growth_doubles (d : Deque) (m : Mem) (x : Nat) (hi : d.Inv) :
    ((d.addLast x m).1 = .ok → (d.addLast x m).2.1.cap = if d.size = d.cap then 2 * d.cap else d.cap) ∧
    ((d.addFirst x m).1 = .ok → (d.addFirst x m).2.1.cap = if d.size = d.cap then 2 * d.cap else d.cap) ∧
    ((d.trimCapacity m).1 = .ok → (d.trimCapacity m).2.1.cap = Deque.upperPow2 d.size ∧
      d.size ≤ Deque.upperPow2 d.size ∧ ∀ k, d.size ≤ 2 ^ k → Deque.upperPow2 d.size ≤ 2 ^ k) := by
  refine ⟨?_, ?_, ?_⟩
  · intro h
    rcases Deque.addLast_spec d x m hi with ⟨_, _, _, _, a5, _⟩ | ⟨a1, _⟩
    · exact a5
    · rw [a1] at h; exact absurd h (by decide)
  · intro h
    rcases Deque.addFirst_spec d x m hi with ⟨_, _, _, _, a5, _⟩ | ⟨a1, _⟩
    · exact a5
    · rw [a1] at h; exact absurd h (by decide)
  · intro h
    rcases Deque.trimCapacity_spec d m hi with ⟨_, _, _, _, a5, a6, _⟩ | ⟨a1, _⟩
    · exact ⟨a5, by rw [← a5]; exact a6, fun k hk => Deque.upperPow2_least d.size k hk⟩
    · rw [a1] at h; exact absurd h (by decide)

/-! ## finding D3 and non-vacuity -/

/-- the hypothesis `¬ inD3` of `step_refines` cannot be dropped: two concrete layouts on which the model
(= the C code) disagrees with `List.insertIdx` -/
theorem add_at_front_half_wrong :
    Deque.d3Wrapped.Inv ∧ inD3 Deque.d3Wrapped.size (.addAt 9 1) ∧
    (stepM Deque.d3Wrapped {} (.addAt 9 1)).2.1.abs ≠ (stepS Deque.d3Wrapped.abs (.addAt 9 1)).2 ∧
    Deque.d3Unwrapped.Inv ∧ inD3 Deque.d3Unwrapped.size (.addAt 9 1) ∧
    (stepM Deque.d3Unwrapped {} (.addAt 9 1)).2.1.abs ≠ (stepS Deque.d3Unwrapped.abs (.addAt 9 1)).2 :=
  ⟨by decide, ⟨by decide, by decide⟩, by decide, by decide, ⟨by decide, by decide⟩, by decide⟩

/-- the hypotheses are satisfiable by non-trivial states: a wrapped, exactly full deque -/
example : (Deque.mk 4 4 3 3 [12, 13, 14, 11]).Inv ∧ (Deque.mk 4 4 3 3 [12, 13, 14, 11]).abs = [11, 12, 13, 14] ∧
    d3Free [11, 12, 13, 14] [.addAt 7 3, .removeAt 2, .addAt 8 0, .reverse] := by
  refine ⟨by decide, by decide, ?_⟩
  simp [d3Free, inD3, stepS, DequeSpec.addAt, DequeSpec.removeAt]

end CC.Properties.C05
