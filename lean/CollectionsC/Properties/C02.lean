import CollectionsC.Proofs.HashTable
import CollectionsC.Proofs.HashTableIter
import CollectionsC.Proofs.HashTableDerived
import CollectionsC.Proofs.HashSet
import CollectionsC.Proofs.HashSetLedger
import CollectionsC.Proofs.HashTableHistory
import CollectionsC.Proofs.HashSetIter
import CollectionsC.Proofs.HashTableSession
/-! # C02 — CC_HashTable / CC_HashSet are exact maps / sets under every configuration

Statements and closing proofs only (helpers: `Proofs/HashTable*.lean`, `Proofs/HashSet.lean`).

The concrete model `CC.HashTable` (`Model/HashTable.lean`) mirrors `src/cc_hashtable.c`: bucket array
of chains with head insertion, cached hashes, `capacity/size/threshold`, the resize loop and
`move_entries`, the NULL key pinned to hash 0.  The abstract spec `CC.Spec.Map` is an association
list with distinct keys, two lists being the same map when one is a permutation of the other.

Quantifiers: every hash function `c.hash : Nat → Nat` (so also the constant one), every threshold
function `c.thr` (every load factor), every key including the NULL key `none`, every value, every
finite history, every allocator schedule, every table satisfying the invariant (every capacity
`2^k`, `k ≤ 31`; the constructor produces such a table from every configured capacity).

What is abstracted (and carried by the correspondence harness instead): keys are `Nat` compared with
`=` and `c.hash` is a *function of the key*, so "`key_cmp`-equal keys have equal hashes" — the
documented contract between `key_compare` and `hash` — is built into the model; key kinds (string,
fixed-length bytes incl. length 8 = `sizeof(void*)` and lengths not divisible by 4, pointer), the
seed and the arithmetic of djb2 / MurmurHash3 / the pointer hash are not modelled in Lean: the harness
runs them on real buffers (`keys=buf`), the driver transcribes them so that L3 follows the real bucket
layout.  `history_refines` admits the key `some 0`, which a C table cannot hold next to NULL (a non-NULL
key is a non-zero pointer); only `enumeration_exact_keys` needs that precondition (`hnz`). -/
set_option maxHeartbeats 800000
namespace CC.Properties.C02
open CC CC.HT CC.Spec
open CC.Spec.Map (Op Out)

/-- the map held by a table satisfying the invariant is well formed (distinct keys) -/
theorem abs_wf (c : HCfg) (t : HashTable) (h : t.Inv c) : Map.WF t.abs := by
  unfold Map.WF; rw [HashTable.abs_eq, HashTable.keys_map_pair]; exact h.2.2.2.2.1

/-- the reported size is the number of keys of the map -/
theorem size_eq (c : HCfg) (t : HashTable) (h : t.Inv c) : t.size = Map.size t.abs := by
  unfold Map.size HashTable.abs; rw [List.length_map]; exact h.2.2.1

/-- **One call refines one step of the ideal map.**  Same status and out-value; the table then holds
the ideal map's content; the invariant is kept; the ledger changes by exactly the change in the number
of entries (nothing leaked, nothing freed twice); no fault (no out-of-range bucket access, no free of
an unowned block).  The only input the ideal map takes from the run is whether an insertion was
refused (`failedOf`), and a refused insertion leaves the map unchanged — see `C08Hash`. -/
theorem step_refines (c : HCfg) (t : HashTable) (op : Op) (m : Mem) (sp : Map)
    (h : t.Inv c) (hl : t.size + 2 ≤ liveOf m t.triple) (hs : t.abs.Perm sp) :
    (t.step c op m).1 = (Map.step sp op (HashTable.failedOf op (t.step c op m).1)).1 ∧
    (t.step c op m).2.1.abs.Perm (Map.step sp op (HashTable.failedOf op (t.step c op m).1)).2 ∧
    (t.step c op m).2.1.Inv c ∧
    liveOf (t.step c op m).2.2 t.triple + t.size = liveOf m t.triple + (t.step c op m).2.1.size ∧
    (t.step c op m).2.2.fault = m.fault := by
  have wf := abs_wf c t h
  cases op with
  | add k v =>
    obtain ⟨a1, a2, a3, a4, a5, a6, _⟩ := HashTable.add_spec c t k v m h
    simp only [HashTable.step]
    by_cases hok : (t.add c k v m).1 = .ok
    · obtain ⟨b1, b2, b3⟩ := a2 hok
      simp only [hok, HashTable.failedOf, Map.step]
      exact ⟨trivial, b1.trans (Map.insert_perm hs wf k v), a1, b3, a4⟩
    · obtain ⟨b1, b2, b3, b4⟩ := a3 hok
      have hf : HashTable.failedOf (Op.add k v) ⟨some (t.add c k v m).1, none⟩ = some (t.add c k v m).1 := by
        unfold HashTable.failedOf
        rcases b1 with b1 | b1 <;> rw [b1]
      rw [hf]
      simp only [Map.step]
      exact ⟨trivial, b2.trans hs, a1, by omega, a4⟩
  | get k =>
    obtain ⟨g1, g2, g3⟩ := HashTable.get_refines c t k m h
    simp only [HashTable.step, Map.step]
    rw [g1, g2, g3, Map.lookup_perm hs wf k]
    refine ⟨?_, ?_, h, rfl, rfl⟩ <;> cases Map.lookup sp k <;> simp [hs]
  | containsKey k =>
    obtain ⟨g1, g2⟩ := HashTable.containsKey_refines c t k m h
    simp only [HashTable.step, Map.step]
    rw [g1, g2, Map.contains_perm hs wf k]
    exact ⟨rfl, hs, h, rfl, rfl⟩
  | remove k =>
    obtain ⟨p1, p2, p3, p4, p5, p6, p7, p8, p9, _⟩ := HashTable.remove_spec c t k m h (fun _ => by omega)
    simp only [HashTable.step, Map.step]
    rw [p3, p4, Map.lookup_perm hs wf k]
    rw [Map.lookup_perm hs wf k] at p4
    cases hlk : Map.lookup sp k with
    | none =>
      rw [hlk] at p4
      simp only [Option.isSome_none, Bool.false_eq_true, if_false] at p4 ⊢
      obtain ⟨q1, q2⟩ := p5 (by rw [p4]; simp)
      rw [q1, q2]
      exact ⟨trivial, hs, h, rfl, rfl⟩
    | some v =>
      rw [hlk] at p4
      simp only [Option.isSome_some, if_true] at p4 ⊢
      obtain ⟨q1, q2⟩ := p6 p4
      refine ⟨trivial, ?_, p1, by omega, p7⟩
      rw [p2]; exact Map.erase_perm hs k
  | removeAll =>
    obtain ⟨r1, r2, r3, r4, r5, r6, r7, _⟩ := HashTable.removeAll_spec c t m h (by omega)
    simp only [HashTable.step, Map.step]
    refine ⟨trivial, by rw [r2], r1, by omega, r7⟩

/-- **C02, all histories.**  From any table satisfying the invariant whose ledger holds the blocks
the table owns, running any history of add-or-replace / get / contains_key / remove / remove_all on
the model yields exactly the statuses and out-values of the ideal map (told which insertions were
refused), and ends in a table holding the ideal map's content, with the invariant, a balanced
ledger and no fault. -/
theorem history_refines (c : HCfg) (ops : List Op) (t : HashTable) (m : Mem) (sp : Map)
    (h : t.Inv c) (hl : t.size + 2 ≤ liveOf m t.triple) (hs : t.abs.Perm sp) :
    (t.run c ops m).1 = (Map.run sp ops (t.run c ops m).2.1).1 ∧
    (t.run c ops m).2.2.1.abs.Perm (Map.run sp ops (t.run c ops m).2.1).2 ∧
    (t.run c ops m).2.2.1.Inv c ∧
    liveOf (t.run c ops m).2.2.2 t.triple + t.size = liveOf m t.triple + (t.run c ops m).2.2.1.size ∧
    (t.run c ops m).2.2.2.fault = m.fault := by
  induction ops generalizing t m sp with
  | nil => exact ⟨rfl, hs, h, rfl, rfl⟩
  | cons op ops ih =>
    obtain ⟨s1, s2, s3, s4, s5⟩ := step_refines c t op m sp h hl hs
    have hT := HashTable.step_triple c t op m
    obtain ⟨i1, i2, i3, i4, i5⟩ := ih (t.step c op m).2.1 (t.step c op m).2.2 _ s3 (by rw [hT]; omega) s2
    rw [hT] at i4
    simp only [HashTable.run, Map.run, List.headD_cons, List.tail_cons]
    refine ⟨by rw [← s1, ← i1], i2, i3, by omega, by rw [i5, s5]⟩

/-- the size reported after a history is the number of keys of the ideal map -/
theorem history_size (c : HCfg) (ops : List Op) (t : HashTable) (m : Mem) (sp : Map)
    (h : t.Inv c) (hl : t.size + 2 ≤ liveOf m t.triple) (hs : t.abs.Perm sp) :
    (t.run c ops m).2.2.1.size = Map.size (Map.run sp ops (t.run c ops m).2.1).2 := by
  obtain ⟨_, h2, h3, _, _⟩ := history_refines c ops t m sp h hl hs
  rw [size_eq c _ h3]; exact Map.size_perm h2

/-- **C02 from the constructor** (configured triple or the C library's), for every configured
capacity (0 included — it is rounded up to 1), every hash function and every threshold function:
every history on a freshly constructed table behaves like the ideal map starting empty. -/
theorem new_history_refines (c : HCfg) (cap : Nat) (tr : Triple) (m0 : Mem) (t0 : HashTable)
    (hnew : (HashTable.new c cap tr m0).2.1 = some t0) (ops : List Op) :
    (t0.run c ops (HashTable.new c cap tr m0).2.2).1 = (Map.run Map.empty ops (t0.run c ops (HashTable.new c cap tr m0).2.2).2.1).1 ∧
    (t0.run c ops (HashTable.new c cap tr m0).2.2).2.2.1.abs.Perm (Map.run Map.empty ops (t0.run c ops (HashTable.new c cap tr m0).2.2).2.1).2 ∧
    (t0.run c ops (HashTable.new c cap tr m0).2.2).2.2.1.Inv c ∧ (t0.run c ops (HashTable.new c cap tr m0).2.2).2.2.2.fault = m0.fault := by
  obtain ⟨_, _, n3, n4, _⟩ := HashTable.new_spec c cap tr m0
  obtain ⟨_, q2, q3, q4, _, q6, q7⟩ := n3 t0 hnew
  obtain ⟨r1, r2, r3, _, r5⟩ := history_refines c ops t0 (HashTable.new c cap tr m0).2.2 Map.empty q2 (by rw [q7]; omega) (by rw [q3]; exact List.Perm.refl _)
  exact ⟨r1, r2, r3, by rw [r5]; exact n4⟩

/-- whole life cycle (C06 part for this container): construct, run any history under any allocator
schedule, destroy — every block is released exactly once (the ledger of the table's triple is back
where it started) and nothing faults -/
theorem lifecycle_leak_free (c : HCfg) (cap : Nat) (tr : Triple) (m0 : Mem) (t0 : HashTable)
    (hnew : (HashTable.new c cap tr m0).2.1 = some t0) (ops : List Op) :
    liveOf ((t0.run c ops (HashTable.new c cap tr m0).2.2).2.2.1.destroy (t0.run c ops (HashTable.new c cap tr m0).2.2).2.2.2) tr = liveOf m0 tr ∧
    ((t0.run c ops (HashTable.new c cap tr m0).2.2).2.2.1.destroy (t0.run c ops (HashTable.new c cap tr m0).2.2).2.2.2).fault = m0.fault := by
  obtain ⟨_, _, n3, n4, _⟩ := HashTable.new_spec c cap tr m0
  obtain ⟨_, q2, q3, q4, _, q6, q7⟩ := n3 t0 hnew
  obtain ⟨_, _, r3, r4, r5⟩ := history_refines c ops t0 (HashTable.new c cap tr m0).2.2 Map.empty q2 (by rw [q7]; omega) (by rw [q3]; exact List.Perm.refl _)
  have hT := HashTable.run_triple c ops t0 (HashTable.new c cap tr m0).2.2
  rw [q7] at r4 hT
  obtain ⟨d1, d2⟩ := HashTable.destroy_spec c _ (t0.run c ops (HashTable.new c cap tr m0).2.2).2.2.2 r3 (by rw [hT]; omega)
  rw [hT] at d1
  exact ⟨by omega, by rw [d2, r5]; exact n4⟩

/-- the ledger precondition is re-established by every history (it is established by the
constructor, see `new_history_refines`), so histories compose -/
theorem history_keeps_owned (c : HCfg) (ops : List Op) (t : HashTable) (m : Mem)
    (h : t.Inv c) (hl : t.size + 2 ≤ liveOf m t.triple) :
    (t.run c ops m).2.2.1.size + 2 ≤ liveOf (t.run c ops m).2.2.2 (t.run c ops m).2.2.1.triple := by
  have := (history_refines c ops t m t.abs h hl (List.Perm.refl _)).2.2.2.1
  rw [HashTable.run_triple]; omega

/-- **the failure oracle is pinned down**: with an allocator that never refuses, a history whose
final capacity is below `MAX_POW_TWO` reports no failed insertion at all — the ideal map then needs
no information from the run (`Map.run sp ops (replicate none)`); in general an insertion fails only
when a refusal fired (`C08Hash.refused_iff`) or the capacity limit is reached -/
theorem history_statuses_closed (c : HCfg) (ops : List Op) (t : HashTable) (m : Mem)
    (h : t.Inv c) (hl : t.size + 2 ≤ liveOf m t.triple) (hs : m.sched = [])
    (hcap : (t.run c ops m).2.2.1.capacity ≠ Gen.MAX_POW_TWO) :
    (t.run c ops m).2.1 = List.replicate ops.length none ∧ t.capacity ≤ (t.run c ops m).2.2.1.capacity := by
  induction ops generalizing t m with
  | nil => exact ⟨rfl, Nat.le_refl _⟩
  | cons op ops ih =>
    obtain ⟨_, _, s3, s4, _⟩ := step_refines c t op m t.abs h hl (List.Perm.refl _)
    have hT := HashTable.step_triple c t op m
    simp only [HashTable.run] at hcap ⊢
    obtain ⟨i1, i2⟩ := ih (t.step c op m).2.1 (t.step c op m).2.2 s3 (by rw [hT]; omega)
      (HashTable.step_sched_nil c t op m hs) hcap
    have hle := HashTable.step_capacity_le c t op m h hl
    have hmax : (t.step c op m).2.1.capacity ≠ Gen.MAX_POW_TWO := by
      intro he
      obtain ⟨k, hk, hck⟩ := (history_refines c ops (t.step c op m).2.1 (t.step c op m).2.2 (t.step c op m).2.1.abs s3
        (by rw [hT]; omega) (List.Perm.refl _)).2.2.1.1
      have : (2 : Nat) ^ k ≤ 2 ^ 31 := Nat.pow_le_pow_right (by omega) (by omega)
      have hM : Gen.MAX_POW_TWO = 2 ^ 31 := by decide
      apply hcap
      rw [hck] at i2 ⊢
      omega
    rw [HashTable.step_no_failure c t op m h hs hmax, i1]
    exact ⟨by simp [List.replicate_succ], by omega⟩

/-- **table operations interleaved with an iterator session.**  After any history, a fresh iterator
driven by *any* program of `next`/`remove` calls (including `remove` before the first `next` and
repeated `remove`) behaves like the ideal cursor over the map the history produced; the table then
holds the cursor's map, satisfies the invariant and owns its blocks, so that any further history
again refines the ideal map started from the cursor's map — and the state after that history again
satisfies the invariant and the ledger precondition, so the theorem chains: any number of sessions. -/
theorem history_then_iterator (c : HCfg) (ops₁ ops₂ : List Op) (prog : List HashTable.IterOp) (t : HashTable) (m : Mem)
    (h : t.Inv c) (hl : t.size + 2 ≤ liveOf m t.triple) :
    let t₁ := (t.run c ops₁ m).2.2.1
    let m₁ := (t.run c ops₁ m).2.2.2
    let r := HashTable.iterRun c prog t₁ (t₁.iterInit m₁).1 m₁
    let cur := (HashTable.Cursor.mk t₁.buckets.flatten none).run t₁.abs prog
    t₁.abs.Perm (Map.run t.abs ops₁ (t.run c ops₁ m).2.1).2 ∧
    r.1 = cur.1 ∧ r.2.1.abs = cur.2.2 ∧ r.2.1.Inv c ∧ r.2.2.2.fault = m.fault ∧
    (r.2.1.run c ops₂ r.2.2.2).1 = (Map.run cur.2.2 ops₂ (r.2.1.run c ops₂ r.2.2.2).2.1).1 ∧
    (r.2.1.run c ops₂ r.2.2.2).2.2.1.abs.Perm (Map.run cur.2.2 ops₂ (r.2.1.run c ops₂ r.2.2.2).2.1).2 ∧
    (r.2.1.run c ops₂ r.2.2.2).2.2.2.fault = m.fault ∧
    (r.2.1.run c ops₂ r.2.2.2).2.2.1.Inv c ∧
    (r.2.1.run c ops₂ r.2.2.2).2.2.1.size + 2 ≤ liveOf (r.2.1.run c ops₂ r.2.2.2).2.2.2 (r.2.1.run c ops₂ r.2.2.2).2.2.1.triple := by
  dsimp only
  obtain ⟨_, a2, a3, a4, a5⟩ := history_refines c ops₁ t m t.abs h hl (List.Perm.refl _)
  have hl₁ := history_keeps_owned c ops₁ t m h hl
  have hrel := HashTable.iterInit_curRel c (t.run c ops₁ m).2.2.1 (t.run c ops₁ m).2.2.2 a3
  obtain ⟨b1, b2, b3, b4, b5, b6, b7⟩ := HashTable.iterRun_refines c prog (t.run c ops₁ m).2.2.1
    ((t.run c ops₁ m).2.2.1.iterInit (t.run c ops₁ m).2.2.2).1 (t.run c ops₁ m).2.2.2 _ a3 hrel hl₁
  have hl₂ := b6
  rw [← b7] at hl₂ hl₁
  have hl₃ : (HashTable.iterRun c prog (t.run c ops₁ m).2.2.1 ((t.run c ops₁ m).2.2.1.iterInit (t.run c ops₁ m).2.2.2).1 (t.run c ops₁ m).2.2.2).2.1.size + 2 ≤
      liveOf (HashTable.iterRun c prog (t.run c ops₁ m).2.2.1 ((t.run c ops₁ m).2.2.1.iterInit (t.run c ops₁ m).2.2.2).1 (t.run c ops₁ m).2.2.2).2.2.2
        (HashTable.iterRun c prog (t.run c ops₁ m).2.2.1 ((t.run c ops₁ m).2.2.1.iterInit (t.run c ops₁ m).2.2.2).1 (t.run c ops₁ m).2.2.2).2.1.triple := by omega
  obtain ⟨c1, c2, c3, _, c5⟩ := history_refines c ops₂ _ _ _ b3 hl₃ (by rw [b2])
  exact ⟨a2, b1, b2, b3, by rw [b5]; exact a5, c1, c2, by rw [c5, b5]; exact a5, c3, history_keeps_owned c ops₂ _ _ b3 hl₃⟩

/-- **one alphabet for everything the property names**: table calls, any number of iterator sessions
(`iter_init`, then any `next`/`remove` calls; `get`/`contains_key` are allowed while a session is open,
a structural call closes it), `foreach_key/value`, `get_keys/get_values` (array built, read and
destroyed).  Every history over it refines the ideal map-with-cursor: outputs agree (enumerations up
to order, which is unspecified), the final table holds the ideal map, invariant, ledger and cursor
relation hold again — so the theorem chains — and nothing faults.  `hbig` is `cc_array_new_conf`'s
byte-size guard for the largest size the history can reach. -/
theorem session_refines (c : HCfg) (ops : List HashTable.SOp) (t : HashTable) (m : Mem)
    (h : t.Inv c) (hl : t.size + 2 ≤ liveOf m t.triple)
    (hbig : 8 * (t.size + ops.length) ≤ Gen.CC_MAX_ELEMENTS) :
    HashTable.OutsRel (HashTable.sessRun c ops ⟨t, none⟩ m).1
      (HashTable.idealRun ⟨t.abs, none⟩ ops (HashTable.sessRun c ops ⟨t, none⟩ m).2.1).1 ∧
    HashTable.SessRel c (HashTable.sessRun c ops ⟨t, none⟩ m).2.2.1
      (HashTable.idealRun ⟨t.abs, none⟩ ops (HashTable.sessRun c ops ⟨t, none⟩ m).2.1).2
      (HashTable.sessRun c ops ⟨t, none⟩ m).2.2.2 ∧
    (HashTable.sessRun c ops ⟨t, none⟩ m).2.2.2.fault = m.fault :=
  HashTable.sessRun_refines c ops ⟨t, none⟩ ⟨t.abs, none⟩ m ⟨h, List.Perm.refl _, hl, trivial⟩ hbig

/-- what `SessRel` says about the final state, spelled out -/
theorem session_final (c : HCfg) (s : HashTable.Sess) (i : HashTable.ISess) (m : Mem) (hr : HashTable.SessRel c s i m) :
    s.t.Inv c ∧ s.t.abs.Perm i.mp ∧ s.t.size = Map.size i.mp ∧ s.t.size + 2 ≤ liveOf m s.t.triple := by
  obtain ⟨h1, h2, h3, _⟩ := hr
  exact ⟨h1, h2, by rw [size_eq c s.t h1]; exact Map.size_perm h2, h3⟩

/-! ## The property in its own vocabulary (facts about the ideal map) -/

/-- a key maps to its most recently stored value, all other keys are untouched -/
theorem spec_lookup_insert (m : Map) (k : Key) (v : Nat) (k' : Key) :
    Map.lookup (Map.insert m k v) k' = if k = k' then some v else Map.lookup m k' := Map.lookup_insert m k v k'

/-- a removed key is absent, all other keys are untouched -/
theorem spec_lookup_erase (m : Map) (k k' : Key) :
    Map.lookup (Map.erase m k) k' = if k = k' then none else Map.lookup m k' := Map.lookup_erase m k k'

/-- size = number of keys: replacing keeps it, a new key adds one -/
theorem spec_size_insert (m : Map) (k : Key) (v : Nat) :
    Map.size (Map.insert m k v) = if Map.contains m k then Map.size m else Map.size m + 1 := Map.size_insert m k v

theorem spec_size_erase (m : Map) (wf : Map.WF m) (k : Key) :
    Map.size (Map.erase m k) = if Map.contains m k then Map.size m - 1 else Map.size m := Map.size_erase m wf k

/-- the ideal map stays well formed -/
theorem spec_wf_insert (m : Map) (wf : Map.WF m) (k : Key) (v : Nat) : Map.WF (Map.insert m k v) := Map.WF_insert m wf k v
theorem spec_wf_erase (m : Map) (wf : Map.WF m) (k : Key) : Map.WF (Map.erase m k) := Map.WF_erase m wf k

/-! ## Direct statements on the table (every hash function, NULL key included) -/

/-- after a successful `add k v`, `get k'` returns `v` for `k' = k` and what it returned before for
every other key — whatever the hash function, whether or not the insertion resized the table -/
theorem get_after_add (c : HCfg) (t : HashTable) (k : Key) (v : Nat) (m m' : Mem) (k' : Key) (h : t.Inv c)
    (hok : (t.add c k v m).1 = .ok) :
    ((t.add c k v m).2.1.get c k' m').2.1 = if k = k' then some v else (t.get c k' m').2.1 := by
  obtain ⟨a1, a2, _⟩ := HashTable.add_spec c t k v m h
  obtain ⟨b1, _, _⟩ := a2 hok
  rw [(HashTable.get_refines c _ k' m' a1).1, (HashTable.get_refines c t k' m' h).1,
    Map.lookup_perm b1 (abs_wf c _ a1), Map.lookup_insert]

/-- after `remove k`, `get k` reports `CC_ERR_KEY_NOT_FOUND` and every other key is untouched -/
theorem get_after_remove (c : HCfg) (t : HashTable) (k : Key) (m m' : Mem) (k' : Key) (h : t.Inv c)
    (hl : (Map.lookup t.abs k).isSome = true → 0 < liveOf m t.triple) :
    ((t.remove c k m).2.2.1.get c k' m').2.1 = if k = k' then none else (t.get c k' m').2.1 := by
  obtain ⟨p1, p2, _⟩ := HashTable.remove_spec c t k m h hl
  rw [(HashTable.get_refines c _ k' m' p1).1, (HashTable.get_refines c t k' m' h).1, p2, Map.lookup_erase]

/-- resizing never loses, duplicates or misplaces an entry: the resized table satisfies the
invariant (every entry in the bucket of its cached hash, keys distinct) and holds the same map -/
theorem resize_keeps_map (c : HCfg) (t : HashTable) (m : Mem) (h : t.Inv c)
    (hmax : t.capacity ≠ Gen.MAX_POW_TWO) (ha : (m.allocT t.triple).1 = true) :
    (t.resize c (t.capacity <<< 1) m).2.1.Inv c ∧ (t.resize c (t.capacity <<< 1) m).2.1.abs.Perm t.abs ∧
    (t.resize c (t.capacity <<< 1) m).2.1.size = t.size := by
  obtain ⟨_, s2, s3, s4, _⟩ := (HashTable.resize_spec c t m h hmax).2 ha
  exact ⟨s2, s3, s4⟩

/-- independence of the hash function's quality: the statements above for the function that sends
every key to the same bucket -/
theorem constant_hash_history (thr agrow : Nat → Nat) (ops : List Op) (t : HashTable) (m : Mem)
    (h : t.Inv ⟨fun _ => 7, thr, agrow⟩) (hl : t.size + 2 ≤ liveOf m t.triple) :
    (t.run ⟨fun _ => 7, thr, agrow⟩ ops m).1 = (Map.run t.abs ops (t.run ⟨fun _ => 7, thr, agrow⟩ ops m).2.1).1 :=
  (history_refines ⟨fun _ => 7, thr, agrow⟩ ops t m t.abs h hl (List.Perm.refl _)).1

/-- key/value enumeration: `foreach_key`, `foreach_value` visit exactly the keys / values of the
map, once each (the order is the bucket walk, unspecified in the property) -/
theorem foreach_exact (c : HCfg) (t : HashTable) (m : Mem) (h : t.Inv c) :
    (t.foreachKey m).1 = Map.keys t.abs ∧ (t.foreachValue m).1 = Map.vals t.abs :=
  ⟨(HashTable.foreach_refines c t m h).1, (HashTable.foreach_refines c t m h).2.2.1⟩

/-- `get_keys` / `get_values` return arrays holding exactly the keys / values of the map (NULL key
as the NULL pointer).  `8 * size ≤ CC_MAX_ELEMENTS` always holds in an address space: it is
`cc_array_new_conf`'s own byte-size guard. -/
theorem enumeration_exact (c : HCfg) (t : HashTable) (m : Mem) (h : t.Inv c) (hbig : 8 * t.size ≤ Gen.CC_MAX_ELEMENTS) :
    (∀ a, (t.getKeys c m).2.1 = some a → a.contents = (Map.keys t.abs).map encKey) ∧
    (∀ a, (t.getValues c m).2.1 = some a → a.contents = Map.vals t.abs) :=
  ⟨fun a ha => (HashTable.getKeys_spec c t m h a hbig ha).1, fun a ha => (HashTable.getValues_spec c t m h a hbig ha).1⟩

/-- a pointer read back from a key array: `0` is the NULL key -/
def decKey (n : Nat) : Key := if n = 0 then none else some n

/-- `encKey` sends both the NULL key and a (hypothetical) non-NULL key with pointer value 0 to the NULL
pointer; a real table has no such key — a non-NULL key *is* a non-zero pointer.  Under that
precondition the key array determines the key set exactly: decoding it gives back `Map.keys`. -/
theorem enumeration_exact_keys (c : HCfg) (t : HashTable) (m : Mem) (h : t.Inv c) (hbig : 8 * t.size ≤ Gen.CC_MAX_ELEMENTS)
    (hnz : some 0 ∉ Map.keys t.abs) (a : DArr) (ha : (t.getKeys c m).2.1 = some a) :
    a.contents.map decKey = Map.keys t.abs := by
  rw [(HashTable.getKeys_spec c t m h a hbig ha).1, List.map_map]
  have : ∀ k ∈ Map.keys t.abs, (decKey ∘ encKey) k = k := by
    intro k hk
    cases k with
    | none => rfl
    | some n =>
      have hn : n ≠ 0 := fun h0 => hnz (h0 ▸ hk)
      simp [decKey, encKey, hn]
  conv => rhs; rw [← List.map_id (Map.keys t.abs)]
  exact List.map_congr_left this

/-- when the enumeration succeeds: on a non-empty table `get_keys`/`get_values` fail only when the
allocator refuses (with an empty schedule they return `CC_OK` and an array) -/
theorem enumeration_succeeds (c : HCfg) (t : HashTable) (m : Mem) (h : t.Inv c) (hpos : 0 < t.size)
    (hbig : 8 * t.size ≤ Gen.CC_MAX_ELEMENTS) (hs : m.sched = []) :
    (t.getKeys c m).1 = .ok ∧ (t.getKeys c m).2.1.isSome = true ∧
    (t.getValues c m).1 = .ok ∧ (t.getValues c m).2.1.isSome = true := by
  have hw := HashTable.walk_eq t h.2.1
  have hsz := h.2.2.1
  have k := ((HashTable.collect_spec c t (t.walk.map (fun e => encKey e.key)) m h (by rw [hw, List.length_map]; omega) hbig).2 hpos).2.2.2.2 hs
  have v := ((HashTable.collect_spec c t (t.walk.map (·.value)) m h (by rw [hw, List.length_map]; omega) hbig).2 hpos).2.2.2.2 hs
  exact ⟨k, (HashTable.collect_ok_iff c t _ m).mp k, v, (HashTable.collect_ok_iff c t _ m).mp v⟩

/-- on an empty table `get_keys`/`get_values` report `CC_ERR_INVALID_CAPACITY` (the array
constructor refuses capacity 0) and allocate nothing -/
theorem enumeration_empty (c : HCfg) (t : HashTable) (m : Mem) (h : t.Inv c) (h0 : t.size = 0) :
    t.getKeys c m = (.errInvalidCapacity, none, m) ∧ t.getValues c m = (.errInvalidCapacity, none, m) := by
  have hw := HashTable.walk_eq t h.2.1
  have hfl : t.buckets.flatten.length = 0 := by rw [← h.2.2.1]; exact h0
  constructor
  · exact (HashTable.collect_spec c t _ m h (by rw [hw, List.length_map]; omega) (by rw [h0]; decide)).1 h0
  · exact (HashTable.collect_spec c t _ m h (by rw [hw, List.length_map]; omega) (by rw [h0]; decide)).1 h0

/-! ## The hash set -/

/-- `cc_hashset_add` / `remove` / `contains` / `remove_all` are the ideal set operations, for every
hash function and every element including NULL -/
theorem set_step_refines (c : HCfg) (s : HashSet) (e : Key) (m : Mem) (h : s.Inv c) (hl : 0 < liveOf m s.triple) :
    ((s.add c e m).1 = .ok → (s.add c e m).2.1.abs.Perm (Set.insert s.abs e)) ∧
    ((s.add c e m).1 ≠ .ok → (s.add c e m).2.1.abs.Perm s.abs) ∧
    (s.remove c e m).2.2.1.abs = Set.erase s.abs e ∧
    (s.remove c e m).1 = (if s.abs.contains e then .ok else .errKeyNotFound) ∧
    (s.contains c e m).1 = s.abs.contains e ∧
    (s.add c e m).2.1.Inv c ∧ (s.remove c e m).2.2.1.Inv c := by
  obtain ⟨a1, a2, a3, _⟩ := HashSet.add_spec c s e m h
  obtain ⟨r1, r2, r3, _⟩ := HashSet.remove_spec c s e m h (fun _ => hl)
  exact ⟨fun hok => (a2 hok).1, fun hne => (a3 hne).2.1, r2, r3, (HashSet.contains_refines c s e m h).1, a1, r1⟩

/-- the set holds no element twice and reports its cardinality -/
theorem set_wf (c : HCfg) (s : HashSet) (h : s.Inv c) : Set.WF s.abs ∧ s.size = s.abs.length := by
  refine ⟨abs_wf c s.table h.1, ?_⟩
  unfold HashSet.size HashSet.abs Map.keys
  rw [List.length_map]; exact size_eq c s.table h.1

/-! ### set histories -/

/-- one call on the set refines one step of the ideal set -/
theorem set_step_history (c : HCfg) (s : HashSet) (op : Set.Op) (m : Mem) (sp : Set)
    (h : s.Inv c) (hl : s.size + 3 ≤ liveOf m s.triple) (hs : s.abs.Perm sp) :
    (s.step c op m).1 = (Set.step sp op (HashSet.failedOf op (s.step c op m).1)).1 ∧
    (s.step c op m).2.1.abs.Perm (Set.step sp op (HashSet.failedOf op (s.step c op m).1)).2 ∧
    (s.step c op m).2.1.Inv c ∧
    liveOf (s.step c op m).2.2 s.triple + s.size = liveOf m s.triple + (s.step c op m).2.1.size ∧
    (s.step c op m).2.2.fault = m.fault := by
  cases op with
  | add e =>
    obtain ⟨a1, a2, a3, a4, _⟩ := HashSet.add_spec c s e m h
    simp only [HashSet.step]
    by_cases hok : (s.add c e m).1 = .ok
    · obtain ⟨b1, b2, b3⟩ := a2 hok
      simp only [hok, HashSet.failedOf, Set.step]
      exact ⟨trivial, b1.trans (HashSet.set_insert_perm hs e), a1, b3, a4⟩
    · obtain ⟨b1, b2, b3, b4⟩ := a3 hok
      have hf : HashSet.failedOf (Set.Op.add e) ⟨some (s.add c e m).1, none⟩ = some (s.add c e m).1 := by
        unfold HashSet.failedOf
        rcases b1 with b1 | b1 <;> rw [b1]
      rw [hf]
      simp only [Set.step]
      exact ⟨trivial, b2.trans hs, a1, by omega, a4⟩
  | contains e =>
    obtain ⟨g1, g2⟩ := HashSet.contains_refines c s e m h
    simp only [HashSet.step, Set.step]
    rw [g1, g2, HashSet.set_contains_perm hs e]
    exact ⟨rfl, hs, h, rfl, rfl⟩
  | remove e =>
    obtain ⟨p1, p2, p3, p4, p5, p6, _⟩ := HashSet.remove_spec c s e m h (fun _ => by omega)
    simp only [HashSet.step, Set.step]
    rw [p3, HashSet.set_contains_perm hs e]
    rw [HashSet.set_contains_perm hs e] at p3
    cases hc : sp.contains e with
    | false =>
      rw [hc] at p3
      simp only [Bool.false_eq_true, if_false] at p3 ⊢
      obtain ⟨q1, q2⟩ := p4 (by rw [p3]; simp)
      rw [q1, q2]
      exact ⟨trivial, hs, h, rfl, rfl⟩
    | true =>
      rw [hc] at p3
      simp only [if_true] at p3 ⊢
      obtain ⟨q1, q2⟩ := p5 p3
      refine ⟨trivial, ?_, p1, by omega, p6⟩
      rw [p2]; exact HashSet.set_erase_perm hs e
  | removeAll =>
    obtain ⟨r1, r2, r3, r4, r5, _⟩ := HashSet.removeAll_spec c s m h (by omega)
    simp only [HashSet.step, Set.step]
    exact ⟨trivial, by rw [r2], r1, by omega, r5⟩

/-- **C02 for the set, all histories.** -/
theorem set_history_refines (c : HCfg) (ops : List Set.Op) (s : HashSet) (m : Mem) (sp : Set)
    (h : s.Inv c) (hl : s.size + 3 ≤ liveOf m s.triple) (hs : s.abs.Perm sp) :
    (s.run c ops m).1 = (Set.run sp ops (s.run c ops m).2.1).1 ∧
    (s.run c ops m).2.2.1.abs.Perm (Set.run sp ops (s.run c ops m).2.1).2 ∧
    (s.run c ops m).2.2.1.Inv c ∧
    liveOf (s.run c ops m).2.2.2 s.triple + s.size = liveOf m s.triple + (s.run c ops m).2.2.1.size ∧
    (s.run c ops m).2.2.2.fault = m.fault := by
  induction ops generalizing s m sp with
  | nil => exact ⟨rfl, hs, h, rfl, rfl⟩
  | cons op ops ih =>
    obtain ⟨s1, s2, s3, s4, s5⟩ := set_step_history c s op m sp h hl hs
    have hT := (HashSet.step_triple c s op m).1
    obtain ⟨i1, i2, i3, i4, i5⟩ := ih (s.step c op m).2.1 (s.step c op m).2.2 _ s3 (by rw [hT]; omega) s2
    rw [hT] at i4
    simp only [HashSet.run, Set.run, List.headD_cons, List.tail_cons]
    refine ⟨by rw [← s1, ← i1], i2, i3, by omega, by rw [i5, s5]⟩

/-- set histories compose: the ledger precondition is re-established -/
theorem set_history_keeps_owned (c : HCfg) (ops : List Set.Op) (s : HashSet) (m : Mem)
    (h : s.Inv c) (hl : s.size + 3 ≤ liveOf m s.triple) :
    (s.run c ops m).2.2.1.size + 3 ≤ liveOf (s.run c ops m).2.2.2 (s.run c ops m).2.2.1.triple := by
  have := (set_history_refines c ops s m s.abs h hl (List.Perm.refl _)).2.2.2.1
  rw [(HashSet.run_table c ops s m).2.2.2]; omega

/-- … and from the set constructor, under every schedule (a refusing constructor yields no set) and
for both triples: outputs, content, invariant, ledger (so that further histories and iterator
sessions apply), no fault -/
theorem set_new_history_refines (c : HCfg) (cap : Nat) (tr : Triple) (m0 : Mem) (s0 : HashSet)
    (hnew : (HashSet.new c cap tr m0).2.1 = some s0) (ops : List Set.Op) :
    (s0.run c ops (HashSet.new c cap tr m0).2.2).1 = (Set.run [] ops (s0.run c ops (HashSet.new c cap tr m0).2.2).2.1).1 ∧
    (s0.run c ops (HashSet.new c cap tr m0).2.2).2.2.1.abs.Perm (Set.run [] ops (s0.run c ops (HashSet.new c cap tr m0).2.2).2.1).2 ∧
    (s0.run c ops (HashSet.new c cap tr m0).2.2).2.2.2.fault = m0.fault ∧
    (s0.run c ops (HashSet.new c cap tr m0).2.2).2.2.1.Inv c ∧
    (s0.run c ops (HashSet.new c cap tr m0).2.2).2.2.1.size + 3 ≤
      liveOf (s0.run c ops (HashSet.new c cap tr m0).2.2).2.2.2 (s0.run c ops (HashSet.new c cap tr m0).2.2).2.2.1.triple := by
  obtain ⟨_, _, n3, n4⟩ := HashSet.new_spec c cap tr m0
  obtain ⟨_, q2, q3, q4, q5⟩ := n3 s0 hnew
  have hsz : s0.size = 0 := by
    have := (set_wf c s0 q2).2
    rw [q3] at this; simpa using this
  have hl0 : s0.size + 3 ≤ liveOf (HashSet.new c cap tr m0).2.2 s0.triple := by rw [q5]; omega
  obtain ⟨r1, r2, r3, _, r5⟩ := set_history_refines c ops s0 (HashSet.new c cap tr m0).2.2 [] q2 hl0 (by rw [q3])
  exact ⟨r1, r2, by rw [r5]; exact n4, r3, set_history_keeps_owned c ops s0 _ q2 hl0⟩

/-- `cc_hashset_foreach` hands every element of the set to the callback exactly once -/
theorem set_foreach_exact (c : HCfg) (s : HashSet) (m : Mem) (h : s.Inv c) :
    (s.foreach m).1 = s.abs ∧ (s.foreach m).1.Nodup ∧ (s.foreach m).2 = m := by
  obtain ⟨f1, f2⟩ := HashSet.foreach_refines c s m h
  exact ⟨f1, by rw [f1]; exact (set_wf c s h).1, f2⟩

/-- the set's failure oracle is pinned: without refusals and below the maximal capacity a set history
reports no failed insertion -/
theorem set_history_statuses_closed (c : HCfg) (ops : List Set.Op) (s : HashSet) (m : Mem)
    (h : s.Inv c) (hl : s.size + 3 ≤ liveOf m s.triple) (hs : m.sched = [])
    (hcap : (s.run c ops m).2.2.1.capacity ≠ Gen.MAX_POW_TWO) :
    (s.run c ops m).2.1 = List.replicate ops.length none := by
  obtain ⟨t1, t2, _, _⟩ := HashSet.run_table c ops s m
  have hl' : s.table.size + 2 ≤ liveOf m s.table.triple := by rw [h.2.2]; unfold HashSet.size at hl; omega
  have := (history_statuses_closed c (ops.map HashSet.toT) s.table m h.1 hl' hs
    (by rw [← t2]; exact hcap)).1
  rw [t1, this, List.length_map]

/-- **set operations interleaved with an iterator session**: after any set history, any program of
`cc_hashset_iter_next`/`iter_remove` calls behaves like the ideal cursor over the set the history
produced; afterwards the set satisfies the invariant and owns its blocks, and any further history
refines the ideal set started from the cursor's set -/
theorem set_history_then_iterator (c : HCfg) (ops₁ ops₂ : List Set.Op) (prog : List HashTable.IterOp) (s : HashSet) (m : Mem)
    (h : s.Inv c) (hl : s.size + 3 ≤ liveOf m s.triple) :
    let s₁ := (s.run c ops₁ m).2.2.1
    let m₁ := (s.run c ops₁ m).2.2.2
    let r := HashSet.iterRun c prog s₁ (s₁.iterInit m₁).1 m₁
    let cur := (HashSet.SCursor.mk s₁.abs none).run s₁.abs prog
    s₁.abs.Perm (Set.run s.abs ops₁ (s.run c ops₁ m).2.1).2 ∧
    r.1 = cur.1 ∧ r.2.1.abs = cur.2.2 ∧ r.2.1.Inv c ∧ r.2.2.2.fault = m.fault ∧
    (r.2.1.run c ops₂ r.2.2.2).1 = (Set.run cur.2.2 ops₂ (r.2.1.run c ops₂ r.2.2.2).2.1).1 ∧
    (r.2.1.run c ops₂ r.2.2.2).2.2.1.abs.Perm (Set.run cur.2.2 ops₂ (r.2.1.run c ops₂ r.2.2.2).2.1).2 ∧
    (r.2.1.run c ops₂ r.2.2.2).2.2.1.Inv c ∧
    (r.2.1.run c ops₂ r.2.2.2).2.2.1.size + 3 ≤ liveOf (r.2.1.run c ops₂ r.2.2.2).2.2.2 (r.2.1.run c ops₂ r.2.2.2).2.2.1.triple ∧
    (r.2.1.run c ops₂ r.2.2.2).2.2.2.fault = m.fault := by
  dsimp only
  obtain ⟨_, a2, a3, a4, a5⟩ := set_history_refines c ops₁ s m s.abs h hl (List.Perm.refl _)
  have hl₁ := set_history_keeps_owned c ops₁ s m h hl
  obtain ⟨b1, b2, b3, b5, b6, b7⟩ := HashSet.iterRun_refines c prog (s.run c ops₁ m).2.2.1 (s.run c ops₁ m).2.2.2 a3 hl₁
  have hl₂ : (HashSet.iterRun c prog (s.run c ops₁ m).2.2.1 ((s.run c ops₁ m).2.2.1.iterInit (s.run c ops₁ m).2.2.2).1 (s.run c ops₁ m).2.2.2).2.1.size + 3 ≤
      liveOf (HashSet.iterRun c prog (s.run c ops₁ m).2.2.1 ((s.run c ops₁ m).2.2.1.iterInit (s.run c ops₁ m).2.2.2).1 (s.run c ops₁ m).2.2.2).2.2.2
        (HashSet.iterRun c prog (s.run c ops₁ m).2.2.1 ((s.run c ops₁ m).2.2.1.iterInit (s.run c ops₁ m).2.2.2).1 (s.run c ops₁ m).2.2.2).2.1.triple := by
    rw [b7]; omega
  obtain ⟨c1, c2, c3, _, c5⟩ := set_history_refines c ops₂ _ _ _ b3 hl₂ (by rw [b2])
  exact ⟨a2, b1, b2, b3, by rw [b5]; exact a5, c1, c2, c3, set_history_keeps_owned c ops₂ _ _ b3 hl₂, by rw [c5, b5]; exact a5⟩


/-! ## Non-vacuity -/

/-- a table under the constant hash (every entry in bucket 7 of 8, the NULL key in bucket 0) that
satisfies the invariant; a history on it that grows the table, replaces, removes and looks up -/
def exCfg : HCfg := ⟨fun _ => 7, fun cap => cap * 3 / 4, fun cap => cap * 2⟩
def exTable : HashTable :=
  { capacity := 8, size := 3, threshold := 6,
    buckets := [[⟨none, 13, 0⟩], [], [], [], [], [], [], [⟨some 1, 11, 7⟩, ⟨some 2, 12, 7⟩]] }

example : exTable.Inv exCfg := by decide
example : exTable.abs = [(none, 13), (some 1, 11), (some 2, 12)] := by decide
example : ((exTable.run exCfg [.add (some 5) 50, .add (some 1) 99, .remove none, .get (some 1), .get none]
    { live := 5 }).1.map (·.val)) = [none, none, some 13, some 99, none] := by decide
/-- a history over the unified alphabet: two iterator sessions with a look-up inside the first one,
a removal through the iterator, both enumerations -/
example : ((HashTable.sessRun exCfg [.itInit, .it .next, .tab (.get (some 1)), .it .remove, .it .remove, .tab (.add (some 9) 90),
      .itInit, .it .next, .foreachKey, .getValues] ⟨exTable, none⟩ { live := 5 }).2.2.1.t.abs)
    = [(some 9, 90), (some 1, 11), (some 2, 12)] := by decide
/-- three insertions into a table of capacity 1 with threshold `cap/2` resize it to capacity 8 -/
example : ((HashTable.mk 1 0 0 [[]] .conf).run ⟨fun k => k, fun cap => cap / 2, fun cap => cap * 2⟩
    [.add (some 1) 1, .add (some 2) 2, .add none 3] { live := 2 }).2.2.1.capacity = 8 := by decide

end CC.Properties.C02
