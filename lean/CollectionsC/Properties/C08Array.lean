import CollectionsC.Proofs.ArrayMem
import CollectionsC.Proofs.ArrayUncond
import CollectionsC.Proofs.Stack
import CollectionsC.Properties.C01
/-! # C08 (array and stack part) — a refused allocation is atomic

Statements only.  For every allocating function of `cc_array.c`/`cc_stack.c` and every allocator
state: if the allocator of the array's triple refuses (`(m.allocT a.triple).1 = false`, or the pair of calls
of a builder fails: `(alloc2 m a.triple).1 = false`; only the configured triple can refuse), the call reports `CC_ERR_ALLOC`, the **whole physical state** of every array
involved is unchanged (builders: no object), the ledger is balanced (`live` unchanged: nothing
leaked) and nothing faulted (no double free).  "Stays usable": the state being *equal*, every later
call behaves as if the failed one had not happened (`blocked_step_is_identity`).

`expand_capacity` assigns `capacity` only after the new buffer exists (A2): `expand_refused_inert`. -/
namespace CC.Properties.C08Array
open CC
open CC.Spec.Seq (Cfg Op Out)

/-- `expand_capacity`: a refusal changes nothing, in particular not `capacity` (A2) -/
theorem expand_refused_inert (a : Arr) (m : Mem) (hmax : ¬ a.AtLimit) (hr : (m.allocT a.triple).1 = false) :
    a.expandCapacity m = (.errAlloc, a, (m.allocT a.triple).2) ∧ (m.allocT a.triple).2.live = m.live ∧
    (m.allocT a.triple).2.fault = m.fault := by
  refine ⟨Arr.expandCapacity_refused a m hmax hr, ?_⟩
  rcases Arr.allocT_cases m a.triple with ⟨g, _⟩ | ⟨_, g2, g3⟩
  · rw [hr] at g; simp at g
  · exact ⟨g2, g3⟩

/-- `cc_array_add` -/
theorem add_atomic (a : Arr) (x : Nat) (m : Mem) (hinv : a.Inv)
    (h : (a.add x m).1 ≠ .ok) :
    ((a.add x m).1 = .errAlloc ∨ (a.add x m).1 = .errMaxCapacity) ∧ (a.add x m).2.1 = a ∧
    (a.add x m).2.2.live = m.live ∧ (a.add x m).2.2.fault = m.fault := by
  obtain ⟨sp, sl, sf⟩ := Arr.add_spec a x m hinv
  rcases sp with ⟨ok, _⟩ | ⟨hb, hsame⟩
  · exact absurd ok h
  · refine ⟨?_, hsame, sl, sf⟩
    rcases hb.1 with ⟨e, _⟩ | ⟨e, _⟩
    · exact Or.inl e
    · exact Or.inr e

/-- `cc_array_add_at` -/
theorem addAt_atomic (a : Arr) (x i : Nat) (m : Mem) (hinv : a.Inv)
    (h : (a.addAt x i m).1 ≠ .ok) :
    (a.addAt x i m).2.1 = a ∧ (a.addAt x i m).2.2.live = m.live ∧ (a.addAt x i m).2.2.fault = m.fault := by
  obtain ⟨sp, sl, sf⟩ := Arr.addAt_spec a x i m hinv
  rcases sp with ⟨_, ⟨ok, _⟩ | ⟨_, hsame⟩⟩ | ⟨_, heq⟩
  · exact absurd ok h
  · exact ⟨hsame, sl, sf⟩
  · rw [heq]; exact ⟨rfl, rfl, rfl⟩

/-- `cc_array_trim_capacity` -/
theorem trim_atomic (a : Arr) (m : Mem) (hinv : a.Inv) (h : (a.trimCapacity m).1 ≠ .ok) :
    (a.trimCapacity m).1 = .errAlloc ∧ (a.trimCapacity m).2.1 = a ∧
    (a.trimCapacity m).2.2.live = m.live ∧ (a.trimCapacity m).2.2.fault = m.fault := by
  obtain ⟨sp, sl, sf⟩ := Arr.trimCapacity_spec a m hinv
  rcases sp with ⟨ok, _⟩ | ⟨e, _, hsame⟩
  · exact absurd ok h
  · exact ⟨e, hsame, sl, sf⟩

/-- `cc_array_iter_add`: array *and cursor* unchanged (A5) -/
theorem iterAdd_atomic (a : Arr) (it : ArrIter) (c : Spec.Seq.Cursor) (x : Nat) (m : Mem) (hinv : a.Inv)
    (hs : Arr.Sim a it c) (h : (a.iterAdd it x m).1 ≠ .ok) :
    (a.iterAdd it x m).2.1 = a ∧ (a.iterAdd it x m).2.2.1 = it ∧
    (a.iterAdd it x m).2.2.2.live = m.live ∧ (a.iterAdd it x m).2.2.2.fault = m.fault := by
  obtain ⟨sp, sl, sf⟩ := Arr.iterAdd_sim a it c x m hinv hs
  rcases sp with ⟨ok, _⟩ | ⟨_, h1, h2⟩
  · exact absurd ok h
  · exact ⟨h1, h2, sl, sf⟩

/-- `cc_array_zip_iter_add`: both contents, both sizes and the cursor unchanged (A8); the first array
may have been re-allocated before the second one was refused, which is not observable -/
theorem zipAdd_atomic (a1 a2 : Arr) (it : ArrIter) (z : Spec.Seq.ZipCursor) (x y : Nat) (m : Mem)
    (h1 : a1.Inv) (h2 : a2.Inv) (hs : Arr.ZSim a1 a2 it z)
    (h : (Arr.zipAdd a1 a2 it x y m).1 ≠ .ok) :
    (Arr.zipAdd a1 a2 it x y m).1 = .errAlloc ∧
    (Arr.zipAdd a1 a2 it x y m).2.1.abs = a1.abs ∧ (Arr.zipAdd a1 a2 it x y m).2.1.size = a1.size ∧
    (Arr.zipAdd a1 a2 it x y m).2.2.1 = a2 ∧ (Arr.zipAdd a1 a2 it x y m).2.2.2.1 = it ∧
    (Arr.zipAdd a1 a2 it x y m).2.2.2.2.live = m.live ∧ (Arr.zipAdd a1 a2 it x y m).2.2.2.2.fault = m.fault := by
  obtain ⟨sp, sl, sf⟩ := Arr.zipAdd_sim a1 a2 it z x y m h1 h2 hs
  rcases sp with ⟨ok, _⟩ | ⟨e, b1, b2, _, _, _, _, b3, b4, _⟩
  · exact absurd ok h
  · exact ⟨e, b1, b2, b3, b4, sl, sf⟩

/-- **`cc_array_zip_iter_add`: both elements or none, for every cursor value** (A11) — no relation
between the cursor and the two arrays is assumed.  Either the call succeeds (one element more in each
array, cursor advanced) or it reports an error and both contents and the cursor are what they were
(a buffer may have been re-allocated: capacity grown, content and size kept); the invariants hold,
the ledger is balanced and nothing faults -/
theorem zipAdd_all_or_nothing (a1 a2 : Arr) (it : ArrIter) (x y : Nat) (m : Mem) (h1 : a1.Inv) (h2 : a2.Inv) :
    (((Arr.zipAdd a1 a2 it x y m).1 = .ok ∧ (Arr.zipAdd a1 a2 it x y m).2.1.size = a1.size + 1 ∧
        (Arr.zipAdd a1 a2 it x y m).2.2.1.size = a2.size + 1 ∧
        (Arr.zipAdd a1 a2 it x y m).2.2.2.1 = { it with index := it.index + 1 }) ∨
     ((Arr.zipAdd a1 a2 it x y m).1 ≠ .ok ∧ (Arr.zipAdd a1 a2 it x y m).2.1.abs = a1.abs ∧
        (Arr.zipAdd a1 a2 it x y m).2.2.1.abs = a2.abs ∧ (Arr.zipAdd a1 a2 it x y m).2.2.2.1 = it)) ∧
    (Arr.zipAdd a1 a2 it x y m).2.1.Inv ∧ (Arr.zipAdd a1 a2 it x y m).2.2.1.Inv ∧
    (Arr.zipAdd a1 a2 it x y m).2.2.2.2.live = m.live ∧ (Arr.zipAdd a1 a2 it x y m).2.2.2.2.fault = m.fault :=
  Arr.zipAdd_all_or_nothing a1 a2 it x y m h1 h2

/-- **the same array on both sides of the zip iterator** (`cc_array_zip_iter_init(&it, a, a)`; model
`Arr.zipAdd1`: one array state threaded through both insertions): two elements or none.  With exactly
one free slot the second insertion grows the buffer on its own; when that growth step is refused (or
hits the capacity limit) the first element is taken out again and the failure reported (A11) — content
and size as before, `size ≤ capacity` in every case -/
theorem zipAdd_same_array_all_or_nothing (a : Arr) (it : ArrIter) (x y : Nat) (m : Mem) (hinv : a.Inv) :
    (((Arr.zipAdd1 a it x y m).1 = .ok ∧
        (Arr.zipAdd1 a it x y m).2.1.abs = (a.abs.insertIdx it.index x).insertIdx it.index y ∧
        (Arr.zipAdd1 a it x y m).2.1.size = a.size + 2 ∧
        (Arr.zipAdd1 a it x y m).2.2.1 = { it with index := it.index + 1 }) ∨
     ((Arr.zipAdd1 a it x y m).1 ≠ .ok ∧ (Arr.zipAdd1 a it x y m).2.1.abs = a.abs ∧
        (Arr.zipAdd1 a it x y m).2.1.size = a.size ∧ (Arr.zipAdd1 a it x y m).2.2.1 = it)) ∧
    (Arr.zipAdd1 a it x y m).2.1.Inv ∧
    (Arr.zipAdd1 a it x y m).2.2.2.live = m.live ∧ (Arr.zipAdd1 a it x y m).2.2.2.fault = m.fault :=
  Arr.zipAdd1_all_or_nothing a it x y m hinv

/-- builders (`subarray`, `copy_shallow`, `copy_deep`, `filter`) and the constructor: a refusal of
either allocator call yields `CC_ERR_ALLOC`, no object, balanced ledger (the header allocated first
is released) -/
theorem builders_atomic (a : Arr) (b e : Nat) (cp : Nat → Nat) (p : Nat → Bool) (m : Mem) (hinv : a.Inv)
    (hr : (Arr.alloc2 m a.triple).1 = false) :
    (b ≤ e ∧ e < a.size → (a.subarray b e m).1 = .errAlloc ∧ (a.subarray b e m).2.1 = none ∧
      Arr.own a.triple (a.subarray b e m).2.2 = Arr.own a.triple m ∧ (a.subarray b e m).2.2.fault = m.fault) ∧
    ((a.copyShallow m).1 = .errAlloc ∧ (a.copyShallow m).2.1 = none ∧
      Arr.own a.triple (a.copyShallow m).2.2 = Arr.own a.triple m ∧ (a.copyShallow m).2.2.fault = m.fault) ∧
    ((a.copyDeep cp m).1 = .errAlloc ∧ (a.copyDeep cp m).2.1 = none ∧
      Arr.own a.triple (a.copyDeep cp m).2.2.2 = Arr.own a.triple m ∧ (a.copyDeep cp m).2.2.2.fault = m.fault) ∧
    (0 < a.size → (a.filter p m).1 = .errAlloc ∧ (a.filter p m).2.1 = none ∧
      Arr.own a.triple (a.filter p m).2.2.2 = Arr.own a.triple m ∧ (a.filter p m).2.2.2.fault = m.fault) := by
  refine ⟨fun hrange => ?_, ?_, ?_, fun hpos => ?_⟩
  · rcases Arr.subarray_spec a b e m hinv with ⟨_, hn, _⟩ | ⟨s1, _, _, s2, s3, s4⟩ | ⟨_, _, ht, _⟩
    · exact absurd hrange hn
    · exact ⟨s1, s2, s3, s4⟩
    · rw [hr] at ht; simp at ht
  · rcases Arr.copyShallow_spec a m hinv with ⟨s1, _, s2, s3, s4⟩ | ⟨_, ht, _⟩
    · exact ⟨s1, s2, s3, s4⟩
    · rw [hr] at ht; simp at ht
  · rcases Arr.copyDeep_spec cp a m hinv with ⟨s1, _, s2, s3, s4⟩ | ⟨_, ht, _⟩
    · exact ⟨s1, s2, s3, s4⟩
    · rw [hr] at ht; simp at ht
  · rcases Arr.filter_spec p a m hinv with ⟨_, h0, _⟩ | ⟨s1, _, _, s2, s3, s4⟩ | ⟨_, _, ht, _⟩
    · omega
    · exact ⟨s1, s2, s3, s4⟩
    · rw [hr] at ht; simp at ht

theorem new_atomic (cap : Nat) (grow : Nat → Nat) (exGe : Nat → Bool) (m : Mem) (t : Triple)
    (h : (Arr.new cap grow exGe m t).1 ≠ .ok) :
    (Arr.new cap grow exGe m t).2.1 = none ∧ Arr.own t (Arr.new cap grow exGe m t).2.2 = Arr.own t m ∧
    (Arr.new cap grow exGe m t).2.2.fault = m.fault := by
  rcases Arr.new_spec cap grow exGe m t with ⟨_, s2, s3, _⟩ | ⟨_, s2, _, _, s3, s4⟩ | ⟨ok, _⟩
  · rw [s3]; exact ⟨s2, rfl, rfl⟩
  · exact ⟨s2, s3, s4⟩
  · exact absurd ok h

/-- wrapped construction: `cc_stack_new_conf` propagates the inner failure and frees the header;
`cc_stack_filter` releases the partly built result on any refusal (Q3) -/
theorem stack_new_atomic (cap : Nat) (grow : Nat → Nat) (exGe : Nat → Bool) (m : Mem) (t : Triple)
    (h : (Stack.new cap grow exGe m t).1 ≠ .ok) :
    (Stack.new cap grow exGe m t).2.1 = none ∧ Arr.own t (Stack.new cap grow exGe m t).2.2 = Arr.own t m ∧
    (Stack.new cap grow exGe m t).2.2.fault = m.fault := by
  rcases Stack.new_spec cap grow exGe m t with ⟨_, s2, s3, s4⟩ | ⟨ok, _⟩
  · exact ⟨s2, s3, s4⟩
  · exact absurd ok h

theorem stack_filter_atomic (p : Nat → Bool) (s : Stack) (dgrow : Nat → Nat) (dexGe : Nat → Bool) (m : Mem)
    (hinv : s.Inv) (h : (s.filter p dgrow dexGe m).1 ≠ .ok) :
    (s.filter p dgrow dexGe m).2.1 = none ∧ Arr.own s.triple (s.filter p dgrow dexGe m).2.2.2 = Arr.own s.triple m ∧
    (s.filter p dgrow dexGe m).2.2.2.fault = m.fault := by
  rcases Stack.filter_spec p s dgrow dexGe m hinv with ⟨_, _, s2, s3⟩ | ⟨_, _, s2, s3, s4⟩ | ⟨ok, _⟩
  · rw [s3]; exact ⟨s2, rfl, rfl⟩
  · exact ⟨s2, s3, s4⟩
  · exact absurd ok h

/-- **the container stays usable**: a blocked call of a history leaves the state *equal*, so the
rest of the history runs from the very state it would have run from without that call -/
theorem blocked_step_is_identity (cfg : Cfg) (a : Arr) (op : Op) (m : Mem) (hinv : a.Inv)
    (hsort : ∀ xs, (cfg.sortFn xs).length = xs.length) (hb : (a.step cfg op m).1.blocked ≠ none) :
    (a.step cfg op m).2.1 = a ∧ (a.step cfg op m).2.2.live = m.live ∧ (a.step cfg op m).2.2.fault = m.fault := by
  obtain ⟨_, _, _, _, s5, s6, s7⟩ := Arr.step_spec cfg a op m hinv hsort
  refine ⟨?_, s5, s6⟩
  unfold Out.blocked at hb
  split at hb
  · rename_i hst
    rcases hst with hst | hst
    · exact s7 _ hst (by decide)
    · exact s7 _ hst (by decide)
  · exact absurd rfl hb

/-! ## `refused_iff`: `CC_ERR_ALLOC` is reported exactly when a refusal fired

`Mem.nrefused` counts the refusals of the configured allocator (the C library never refuses). -/

/-- one call of the C01 vocabulary, every schedule: the call reports `CC_ERR_ALLOC` iff exactly one
refusal fired during it; otherwise none fired -/
theorem refused_iff (cfg : Cfg) (a : Arr) (op : Op) (m : Mem) (hinv : a.Inv) :
    ((a.step cfg op m).1.st = some .errAlloc ↔ (a.step cfg op m).2.2.nrefused = m.nrefused + 1) ∧
    ((a.step cfg op m).1.st ≠ some .errAlloc → (a.step cfg op m).2.2.nrefused = m.nrefused) := by
  have l2 := (Arr.step_led cfg a op m hinv).2.2.1
  by_cases h : (a.step cfg op m).1.st = some .errAlloc
  · simp only [h, decide_true, if_true] at l2
    exact ⟨⟨fun _ => l2, fun _ => h⟩, fun hn => absurd h hn⟩
  · simp only [h, decide_false] at l2
    exact ⟨⟨fun hh => absurd hh h, fun hh => by simp at l2; omega⟩, fun _ => by simpa using l2⟩

/-- an array on the C-library triple (`cc_array_new`) is never refused -/
theorem default_never_refused (cfg : Cfg) (a : Arr) (op : Op) (m : Mem) (hinv : a.Inv) (ht : a.triple = .libc) :
    (a.step cfg op m).1.st ≠ some .errAlloc := by
  have l := (Arr.step_led cfg a op m hinv).2.2.2 ht
  simpa using l

/-- over a history: the number of refusals that fired equals the number of calls that reported
`CC_ERR_ALLOC` -/
theorem history_refused_count (cfg : Cfg) (ops : List Op) (a : Arr) (m : Mem) (hinv : a.Inv)
    (hsort : ∀ xs, (cfg.sortFn xs).length = xs.length) :
    (a.run cfg ops m).2.2.nrefused =
      m.nrefused + ((a.run cfg ops m).1.filter (fun o => decide (o.st = some .errAlloc))).length :=
  (Arr.run_led cfg ops a m hinv hsort).2.2.1

/-- constructor and builders: `CC_ERR_ALLOC` iff a refusal fired (then exactly one) -/
theorem lifecycle_refused_iff (a : Arr) (cap b e : Nat) (grow : Nat → Nat) (exGe : Nat → Bool) (cp : Nat → Nat)
    (p : Nat → Bool) (m : Mem) (t : Triple) :
    ((Arr.new cap grow exGe m t).1 = .errAlloc ↔ (Arr.new cap grow exGe m t).2.2.nrefused = m.nrefused + 1) ∧
    ((a.subarray b e m).1 = .errAlloc ↔ (a.subarray b e m).2.2.nrefused = m.nrefused + 1) ∧
    ((a.copyShallow m).1 = .errAlloc ↔ (a.copyShallow m).2.2.nrefused = m.nrefused + 1) ∧
    ((a.copyDeep cp m).1 = .errAlloc ↔ (a.copyDeep cp m).2.2.2.nrefused = m.nrefused + 1) ∧
    ((a.filter p m).1 = .errAlloc ↔ (a.filter p m).2.2.2.nrefused = m.nrefused + 1) :=
  ⟨(Arr.new_led cap grow exGe m t).nrefused_iff.1, (Arr.subarray_led a b e m).nrefused_iff.1,
   (Arr.copyShallow_led a m).nrefused_iff.1, (Arr.copyDeep_led cp a m).nrefused_iff.1,
   (Arr.filter_led p a m).nrefused_iff.1⟩

/-- iterator insertion; and the zip insertion on two arrays of **any** triples (equal or mixed) that are
not at the capacity limit (at the limit `cc_array_zip_iter_add` also answers `CC_ERR_ALLOC`, without any
refusal) -/
theorem iter_add_refused_iff (a a2 : Arr) (it : ArrIter) (x y : Nat) (m : Mem) (h1 : a.Inv) (h2 : a2.Inv)
    (hl1 : ¬ a.AtLimit) (hl2 : ¬ a2.AtLimit) :
    ((a.iterAdd it x m).1 = .errAlloc ↔ (a.iterAdd it x m).2.2.2.nrefused = m.nrefused + 1) ∧
    ((Arr.zipAdd a a2 it x y m).1 = .errAlloc ↔ (Arr.zipAdd a a2 it x y m).2.2.2.2.nrefused = m.nrefused + 1) := by
  refine ⟨(Arr.iterAdd_led a it x m).nrefused_iff.1, ?_⟩
  obtain ⟨z2, z3, _⟩ := Arr.zipAdd_nrefused a a2 it x y m h1 h2
  exact ⟨fun h => z3 h hl1 hl2, fun h => z2 (by omega)⟩

/-- **both allocators' live-block counts are kept by every growing call**, refused or not, whatever the
triple of the array: `add`, `add_at`, `trim_capacity`, `iter_add` allocate and free through the array's
own triple only; `zip_iter_add` through each array's own triple (equal or mixed triples, any cursor).
(The atomicity theorems above state `live`; this adds `liveLibc`, i.e. the case of arrays built by
`cc_array_new`.) -/
theorem growing_calls_balance_both (a a2 : Arr) (x y i : Nat) (it : ArrIter) (m : Mem) (h1 : a.Inv) (h2 : a2.Inv) :
    ((a.add x m).2.2.live = m.live ∧ (a.add x m).2.2.liveLibc = m.liveLibc) ∧
    ((a.addAt x i m).2.2.live = m.live ∧ (a.addAt x i m).2.2.liveLibc = m.liveLibc) ∧
    ((a.trimCapacity m).2.2.live = m.live ∧ (a.trimCapacity m).2.2.liveLibc = m.liveLibc) ∧
    ((a.iterAdd it x m).2.2.2.live = m.live ∧ (a.iterAdd it x m).2.2.2.liveLibc = m.liveLibc) ∧
    ((Arr.zipAdd a a2 it x y m).2.2.2.2.live = m.live ∧ (Arr.zipAdd a a2 it x y m).2.2.2.2.liveLibc = m.liveLibc) :=
  ⟨(Arr.add_led a x m).balanced, (Arr.addAt_led a x i m).balanced, (Arr.trimCapacity_led a m).balanced,
   (Arr.iterAdd_led a it x m).balanced, Arr.zipAdd_balanced a a2 it x y m h1 h2⟩

/-! ## `continue`: after a refused call the history goes on as if the call had not been made -/

/-- a history `ops₁ ++ [op] ++ ops₂` whose call `op` was blocked, **for every schedule**: the outputs
are those of `ops₁`, the blocked report, and then exactly what `ops₂` yields from the state `ops₁`
left — under any ledger `m'` that holds the schedule remaining after the failed call ("once memory
is available again" or not: later refusals are replayed identically); the final states coincide -/
theorem continue_after_refusal (cfg : Cfg) (ops1 ops2 : List Op) (op : Op) (a : Arr) (m m' : Mem) (hinv : a.Inv)
    (hsort : ∀ xs, (cfg.sortFn xs).length = xs.length)
    (hb : ((a.run cfg ops1 m).2.1.step cfg op (a.run cfg ops1 m).2.2).1.blocked ≠ none)
    (hm' : m'.sched = ((a.run cfg ops1 m).2.1.step cfg op (a.run cfg ops1 m).2.2).2.2.sched) :
    (a.run cfg (ops1 ++ op :: ops2) m).1 =
      (a.run cfg ops1 m).1 ++ ((a.run cfg ops1 m).2.1.step cfg op (a.run cfg ops1 m).2.2).1 ::
        ((a.run cfg ops1 m).2.1.run cfg ops2 m').1 ∧
    (a.run cfg (ops1 ++ op :: ops2) m).2.1 = ((a.run cfg ops1 m).2.1.run cfg ops2 m').2.1 := by
  obtain ⟨_, _, i3, _⟩ := C01.history_refines cfg ops1 a m hinv hsort
  obtain ⟨ap1, ap2⟩ := Arr.run_append cfg ops1 (op :: ops2) a m
  obtain ⟨b1, _⟩ := blocked_step_is_identity cfg (a.run cfg ops1 m).2.1 op (a.run cfg ops1 m).2.2 i3 hsort hb
  have hind := Arr.run_indep cfg ops2 (a.run cfg ops1 m).2.1
    ((a.run cfg ops1 m).2.1.step cfg op (a.run cfg ops1 m).2.2).2.2 m' i3 hsort hm'.symm
  rw [ap1, ap2]
  simp only [Arr.run]
  rw [b1]
  exact ⟨by rw [hind.1], hind.2.1⟩

/-! Non-vacuity: a full array, the allocator refusing the growth request -/
example :
    let a : Arr := Arr.mk 2 2 [5, 6] (fun c => 2 * c) .conf
    let r := a.add 7 { sched := [true], live := 2 }
    a.Inv ∧ r.1 = .errAlloc ∧ r.2.1.abs = [5, 6] ∧ r.2.1.capacity = 2 ∧ r.2.2.live = 2 ∧ r.2.2.nrefused = 1 ∧
    r.2.2.fault = false ∧ ((r.2.1.add 7 r.2.2).1 = .ok ∧ (r.2.1.add 7 r.2.2).2.1.abs = [5, 6, 7]) := by decide

/-! the same array on both sides, exactly one free slot (size 2, capacity 3), cursor after the first
element: without refusal both elements go in (the second insertion grows 3 → 6); with the growth step
refused the call reports `CC_ERR_ALLOC` and the array holds what it held -/
example :
    let a : Arr := Arr.mk 2 3 [10, 20, 0] (fun c => 2 * c) .conf
    a.Inv ∧ ((Arr.zipAdd1 a { index := 1 } 7 8 {}).1, (Arr.zipAdd1 a { index := 1 } 7 8 {}).2.1.abs,
      (Arr.zipAdd1 a { index := 1 } 7 8 {}).2.1.capacity) = (Stat.ok, [10, 8, 7, 20], 6) ∧
    ((Arr.zipAdd1 a { index := 1 } 7 8 { sched := [true] }).1, (Arr.zipAdd1 a { index := 1 } 7 8 { sched := [true] }).2.1.abs,
      (Arr.zipAdd1 a { index := 1 } 7 8 { sched := [true] }).2.1.size) = (Stat.errAlloc, [10, 20], 2) := by decide

end CC.Properties.C08Array
