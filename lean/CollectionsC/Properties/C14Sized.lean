import CollectionsC.Proofs.ArraySized8
/-! # C14 (sized array part) — only the configured allocators

Statements only.  The model state carries the allocator triple the C struct carries (`triple`:
`.conf` for `cc_array_sized_new_conf` with the caller's functions, `.libc` for `cc_array_sized_new`,
whose `conf_init` installs `malloc/calloc/free`).  Every allocation and release of the model goes
through `Mem.allocT a.triple` / `Mem.freeT a.triple`; builders of derived arrays copy the triple
exactly where the C code copies the three function pointers.  `Other t m m'` says that nothing
happened on the allocator that is *not* `t`.  A model function that called the wrong allocator
(e.g. `.libc` in a builder, the shape of the repaired defects D10/L4/S1/Q3) would falsify
`conf_uses_only_conf`.  The harness checks the same on the real library: column `libc=a0 f0 llive=0`
for `new_conf` sessions, `a0 f0 r0 live=0` for `new_default` sessions. -/
namespace CC.Properties.C14Sized
open CC CC.Gen CC.ArraySized

/-- **conf_uses_only_conf**: an array on the configured triple leaves every C-library counter
(`libc`, `liveLibc`, `lalloc`, `lfree`) untouched — per call of the core API -/
theorem conf_uses_only_conf (a : ArraySized) (op : Spec.SSeq.Op Elem) (m : Mem) (h : a.Inv) (hw : OpWF a.dataLen op)
    (ht : a.triple = .conf) :
    (a.step op m).2.2.libc = m.libc ∧ (a.step op m).2.2.liveLibc = m.liveLibc ∧
    (a.step op m).2.2.lalloc = m.lalloc ∧ (a.step op m).2.2.lfree = m.lfree := by
  have := step_other a op m h hw
  rw [ht] at this
  exact this

/-- **default_uses_only_libc**: an array on the C library allocator leaves the configured ledger
(`live`, `nalloc`, `nfree`, `nrefused`) and the refusal schedule untouched, and no call can be
refused -/
theorem default_uses_only_libc (a : ArraySized) (op : Spec.SSeq.Op Elem) (m : Mem) (h : a.Inv)
    (hw : OpWF a.dataLen op) (ht : a.triple = .libc) :
    ((a.step op m).2.2.live = m.live ∧ (a.step op m).2.2.nalloc = m.nalloc ∧ (a.step op m).2.2.nfree = m.nfree ∧
      (a.step op m).2.2.nrefused = m.nrefused ∧ (a.step op m).2.2.sched = m.sched) ∧
    (a.step op m).1.st ≠ some .errAlloc := by
  have := step_other a op m h hw
  rw [ht] at this
  exact ⟨this, libc_never_refused a op m h hw ht⟩

/-- both, for histories: nothing ever happens on the other allocator, and the triple never changes -/
theorem history_uses_only_own_triple (a : ArraySized) (ops : List (Spec.SSeq.Op Elem)) (m : Mem) (h : a.Inv)
    (hw : ∀ op ∈ ops, OpWF a.dataLen op) :
    Other a.triple m (a.run ops m).2.2 ∧ (a.run ops m).2.1.triple = a.triple :=
  ⟨(run_refines ops a m h hw).2.2.2.2.2.2.2, congrArg Prod.snd (run_refines ops a m h hw).2.2.2.1⟩

/-- **derived_inherits_triple**: `subarray`, `copy`, `filter` allocate header and buffer through the
source's triple, and the result carries that triple (so everything it later allocates and its own
`destroy` use it too) — for every argument, every outcome -/
theorem derived_inherits_triple (a : ArraySized) (b e : Nat) (p : List Nat → Bool) (m : Mem) (h : a.Inv) :
    (Other a.triple m (a.copy m).2.2 ∧ ∀ s, (a.copy m).2.1 = some s → s.triple = a.triple) ∧
    (Other a.triple m (a.subarray b e m).2.2 ∧ ∀ s, (a.subarray b e m).2.1 = some s → s.triple = a.triple) ∧
    (Other a.triple m (a.filter p m).2.2.2 ∧ ∀ s, (a.filter p m).2.2.1 = some s → s.triple = a.triple) := by
  refine ⟨?_, ?_, ?_⟩
  · rcases copy_spec a m h with ⟨s, h1, _, _, _, h5, _, _, _, _, h10⟩ | ⟨_, h2, h3⟩
    · exact ⟨h10, fun s' hs => by rw [h1] at hs; cases hs; exact congrArg Prod.snd h5⟩
    · exact ⟨h3.2.2, fun s' hs => by rw [h2] at hs; cases hs⟩
  · by_cases hr : b ≤ e ∧ e < a.size
    · rcases subarray_spec a b e m h hr.1 hr.2 with ⟨s, h1, _, _, _, h5, _, _, _, _, h10⟩ | ⟨_, h2, h3⟩
      · exact ⟨h10, fun s' hs => by rw [h1] at hs; cases hs; exact congrArg Prod.snd h5⟩
      · exact ⟨h3.2.2, fun s' hs => by rw [h2] at hs; cases hs⟩
    · rw [subarray_inert a b e m (by omega)]
      exact ⟨Other.refl _ m, fun s' hs => by cases hs⟩
  · by_cases h0 : 0 < a.size
    · rcases filter_spec a p m h h0 with ⟨s, h1, _, _, _, h5, _, _, _, h9⟩ | ⟨_, h2, h3⟩
      · exact ⟨h9, fun s' hs => by rw [h1] at hs; cases hs; exact congrArg Prod.snd h5⟩
      · exact ⟨h3.2.2, fun s' hs => by rw [h2] at hs; cases hs⟩
    · rw [filter_inert a p m (by omega)]
      exact ⟨Other.refl _ m, fun s' hs => by cases hs⟩

/-- constructor and destructor use the triple they are given / the array carries -/
theorem new_destroy_use_own_triple (dl cap : Nat) (grow : Nat → Nat) (exGe : Nat → Bool) (m : Mem) (t : Triple)
    (a : ArraySized) (m' : Mem) (hnew : ArraySized.new dl cap grow exGe m t = (.ok, some a, m')) :
    a.triple = t ∧ Other t m m' ∧ Other t m' (a.destroy m') := by
  obtain ⟨_, _, _, _, _, hl, _, _, _, hc, ht⟩ := new_ok dl cap grow exGe m m' t a hnew
  have := destroy_ledger a m' (by rw [ht]; omega)
  rw [ht] at this
  exact ⟨ht, hc, this.2.2⟩

/-- iterator programs (`iter_add` may grow the array) use the array's triple only -/
theorem iter_uses_only_own_triple (it : Iter) (a : ArraySized) (c : Spec.SSeq.Cursor Elem)
    (cmds : List (Spec.SSeq.IterCmd Elem)) (m : Mem) (h : a.Inv) (hw : ∀ cmd ∈ cmds, IterCmdWF a.dataLen cmd)
    (hrel : IterRel it a c) : Other a.triple m (iterRun it a cmds m).2.2.2 :=
  (iterRun_refines cmds it a c m h hw hrel).2.2.2.2.2

/-- **allocator_independent**, one call: two ledgers with the same schedule of answers give the same
status, out-values, callback log and resulting physical state — the array does not care *which*
allocator answers, only *what* it answers (so it runs on a pool exactly as on `malloc` as long as the
pool does not refuse) -/
theorem allocator_independent (a : ArraySized) (op : Spec.SSeq.Op Elem) (m1 m2 : Mem) (h : a.Inv)
    (hw : OpWF a.dataLen op) (hs : m1.sched = m2.sched) :
    (a.step op m1).1 = (a.step op m2).1 ∧ (a.step op m1).2.1 = (a.step op m2).2.1 ∧
    (a.step op m1).2.2.sched = (a.step op m2).2.2.sched := step_indep a op m1 m2 h hw hs

/-- **allocator_independent** for histories -/
theorem history_allocator_independent (a : ArraySized) (ops : List (Spec.SSeq.Op Elem)) (m1 m2 : Mem) (h : a.Inv)
    (hw : ∀ op ∈ ops, OpWF a.dataLen op) (hs : m1.sched = m2.sched) :
    (a.run ops m1).1 = (a.run ops m2).1 ∧ (a.run ops m1).2.1 = (a.run ops m2).2.1 :=
  ⟨(run_indep ops a m1 m2 h hw hs).1, (run_indep ops a m1 m2 h hw hs).2.1⟩

/-! Non-vacuity (and falsifiability): the same growing history on a `.conf` array moves only the
configured counters, on a `.libc` array only the C-library counters, even under a refusing schedule. -/
example :
    let a : ArraySized := { dataLen := 1, size := 1, capacity := 1, grow := fun c => 2 * c, buf := [7] }
    let m : Mem := { live := 2 }
    a.Inv ∧ (a.run [.add [1], .add [2]] m).2.2.lalloc = 0 ∧ (a.run [.add [1], .add [2]] m).2.2.nalloc = 2 := by decide
example :
    let a : ArraySized := { dataLen := 1, size := 1, capacity := 1, grow := fun c => 2 * c, buf := [7], triple := .libc }
    let m : Mem := { sched := [true, true], liveLibc := 2 }
    a.Inv ∧ (a.run [.add [1], .add [2]] m).2.2.lalloc = 2 ∧ (a.run [.add [1], .add [2]] m).2.2.nalloc = 0 ∧
    (a.run [.add [1], .add [2]] m).2.2.sched = [true, true] ∧ (a.run [.add [1], .add [2]] m).2.1.size = 3 := by decide

end CC.Properties.C14Sized
