import CollectionsC.Proofs.ArraySized7
/-! # C14 (sized array part) — only the configured allocators

Statements only.  In the model every `mem_alloc`/`mem_calloc`/`mem_free` call site of
`cc_array_sized.c` is a `Mem.alloc`/`Mem.free` on the configured ledger; `Mem.libc` counts events
that went through the C library allocator instead.  (The harness checks the same on the real
library with the `--wrap=malloc` ledger: column `libc=a0 f0`.) -/
namespace CC.Properties.C14Sized
open CC CC.Gen CC.ArraySized

/-- **libc_invariant**, per call of the core API -/
theorem libc_invariant (a : ArraySized) (op : Spec.SSeq.Op Elem) (m : Mem) (h : a.Inv) (hw : OpWF a.dataLen op) :
    (a.step op m).2.2.libc = m.libc := step_libc a op m h hw

/-- **libc_invariant** for histories -/
theorem history_libc_invariant (a : ArraySized) (ops : List (Spec.SSeq.Op Elem)) (m : Mem) (h : a.Inv)
    (hw : ∀ op ∈ ops, OpWF a.dataLen op) : (a.run ops m).2.2.libc = m.libc :=
  (run_refines ops a m h hw).2.2.2.2.2.2.2

/-- **libc_invariant** for the constructor, the destructor and the derived-array builders: header and
buffer of a derived array come from the source's triple -/
theorem builders_libc_invariant (a : ArraySized) (b e : Nat) (p : List Nat → Bool) (m : Mem) (h : a.Inv) :
    (a.copy m).2.2.libc = m.libc ∧
    (b ≤ e → e < a.size → (a.subarray b e m).2.2.libc = m.libc) ∧
    (0 < a.size → (a.filter p m).2.2.2.libc = m.libc) ∧
    (2 ≤ m.live → (a.destroy m).libc = m.libc) := by
  refine ⟨?_, ?_, ?_, fun hl => (destroy_ledger a m hl).2.2⟩
  · rcases copy_spec a m h with ⟨_, _, _, _, _, _, _, _, _, _, h10⟩ | ⟨_, _, h3⟩
    · exact h10
    · exact h3.2.2
  · intro hb he
    rcases subarray_spec a b e m h hb he with ⟨_, _, _, _, _, _, _, _, _, _, h10⟩ | ⟨_, _, h3⟩
    · exact h10
    · exact h3.2.2
  · intro h0
    rcases filter_spec a p m h h0 with ⟨_, _, _, _, _, _, _, _, _, h9⟩ | ⟨_, _, h3⟩
    · exact h9
    · exact h3.2.2

theorem new_libc_invariant (dl cap : Nat) (grow : Nat → Nat) (exGe : Nat → Bool) (m : Mem) :
    (ArraySized.new dl cap grow exGe m).2.2.libc = m.libc := by
  unfold ArraySized.new
  split
  · rfl
  · split
    · rfl
    · dsimp only
      cases h1 : m.alloc.1
      · exact (Mem.alloc_fst_false m h1).2.2
      · have e1 := Mem.alloc_fst_true m h1
        cases h2 : m.alloc.2.alloc.1
        · have e2 := Mem.alloc_fst_false m.alloc.2 h2
          have f := free_of_pos m.alloc.2.alloc.2 (by omega)
          simp only [Bool.not_true, Bool.false_eq_true, if_false, Bool.not_false, if_true]
          rw [f.2.2, e2.2.2, e1.2.2]
        · have e2 := Mem.alloc_fst_true m.alloc.2 h2
          simp only [Bool.not_true, Bool.false_eq_true, if_false]
          rw [e2.2.2, e1.2.2]

/-- **libc_invariant** for iterator programs (`iter_add` may grow the array) -/
theorem iter_libc_invariant (it : Iter) (a : ArraySized) (c : Spec.SSeq.Cursor Elem)
    (cmds : List (Spec.SSeq.IterCmd Elem)) (m : Mem) (h : a.Inv) (hw : ∀ cmd ∈ cmds, IterCmdWF a.dataLen cmd)
    (hrel : IterRel it a c) : (iterRun it a cmds m).2.2.2.libc = m.libc :=
  (iterRun_refines cmds it a c m h hw hrel).2.2.2.2.2

/-- **allocator_independent**, one call: two ledgers with the same schedule of answers give the same
status, out-values, callback log and resulting physical state — the array does not care *which*
allocator answers, only *what* it answers (so it runs on a pool exactly as on `malloc` as long as the
pool does not refuse) -/
theorem allocator_independent (a : ArraySized) (op : Spec.SSeq.Op Elem) (m1 m2 : Mem) (h : a.Inv)
    (hw : OpWF a.dataLen op) (hs : m1.sched = m2.sched) :
    (a.step op m1).1 = (a.step op m2).1 ∧ (a.step op m1).2.1 = (a.step op m2).2.1 ∧
    (a.step op m1).2.2.sched = (a.step op m2).2.2.sched := step_indep a op m1 m2 h hw hs

/-- **allocator_independent** for histories -/
theorem history_allocator_independent (a : ArraySized) (ops : List (Spec.SSeq.Op Elem)) (m1 m2 : Mem) (h : a.Inv)
    (hw : ∀ op ∈ ops, OpWF a.dataLen op) (hs : m1.sched = m2.sched) :
    (a.run ops m1).1 = (a.run ops m2).1 ∧ (a.run ops m1).2.1 = (a.run ops m2).2.1 :=
  ⟨(run_indep ops a m1 m2 h hw hs).1, (run_indep ops a m1 m2 h hw hs).2.1⟩

end CC.Properties.C14Sized
