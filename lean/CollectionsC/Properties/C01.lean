import CollectionsC.Proofs.ArrayUncond
/-! # C01 — the dynamic array `CC_Array` behaves as an ideal sequence

Statements only (helpers: `Proofs/Array*.lean`).  Concrete model `CC.Arr` (`Model/Array.lean`):
the fields of `struct cc_array_s` with the same statements as `src/cc_array.c`; `exp_factor` is the
field `grow : Nat → Nat` (`grow c = (size_t)(c * exp_factor)`), **arbitrary** in every theorem below.
Abstract spec: `List Nat` with the list functions of `Spec/SeqSpec.lean`.

Quantifiers: every state satisfying the representation invariant `Arr.Inv`
(`size ≤ capacity ≤ allocated slots`, `1 ≤ capacity ≤ CC_MAX_ELEMENTS / sizeof(void*)`), every element value
(0 = NULL, duplicates), every index in the whole `Nat` domain, every growth function, every callback,
every finite history, every allocator schedule (refusals included).

Two things the model does not decide.  (i) "The array stores a private copy of the value it is given":
elements are values (`Nat`) in the model, so this clause cannot fail there; it is carried by the
harness (distinct caller cells, L2) only.  (ii) `(size_t)(capacity * exp_factor)` is undefined in C
when the product is ≥ 2^64; `grow` is an arbitrary function, i.e. the theorems assume the cast yields
*some* value, which is what the compiled code does but not what the C standard promises.

No hypothesis on the ledger (the re-allocating operations allocate before they free) and none on the
array's allocator triple (`a.triple`: configured or C library).  Only hypothesis, a documented one:
* `hsort` — the assumed `qsort` returns a list of the same length (every permutation does; C18). -/
namespace CC.Properties.C01
open CC
open CC.Spec.Seq (Cfg Op Out)

/-- **One call refines one step of the ideal list.**  The ideal list is told whether the call was
blocked (`CC_ERR_ALLOC` / `CC_ERR_MAX_CAPACITY`, possible only for `add`, `add_at`,
`trim_capacity`); then report (status, out-value, callback log) and content agree, the
configuration is kept, the invariant is preserved, the ledger is balanced, nothing faults, and a call
reporting any error status leaves the whole physical state unchanged.  The last two conjuncts pin the
`blocked` oracle down: a call is blocked with `CC_ERR_ALLOC` only when the allocator refused its
request, with `CC_ERR_MAX_CAPACITY` only on a full array at the capacity limit. -/
theorem step_refines (cfg : Cfg) (a : Arr) (op : Op) (m : Mem) (hinv : a.Inv)
    (hsort : ∀ xs, (cfg.sortFn xs).length = xs.length) :
    (a.step cfg op m).1 = (Spec.Seq.step cfg a.abs op (a.step cfg op m).1.blocked).1 ∧
    (a.step cfg op m).2.1.abs = (Spec.Seq.step cfg a.abs op (a.step cfg op m).1.blocked).2 ∧
    (a.step cfg op m).2.1.grow = a.grow ∧
    (a.step cfg op m).2.1.Inv ∧
    (a.step cfg op m).2.2.live = m.live ∧ (a.step cfg op m).2.2.fault = m.fault ∧
    (∀ st, (a.step cfg op m).1.st = some st → st ≠ .ok → (a.step cfg op m).2.1 = a) ∧
    ((a.step cfg op m).1.blocked = some .errAlloc → (m.allocT a.triple).1 = false) ∧
    ((a.step cfg op m).1.blocked = some .errMaxCapacity → a.AtLimit ∧ a.size = a.capacity) := by
  obtain ⟨s1, s2, s3, s4, s5, s6, s7⟩ := Arr.step_spec cfg a op m hinv hsort
  exact ⟨s1, s2, s3, s4, s5, s6, s7, Arr.step_blocked cfg a op m hinv⟩

/-- **C01, all histories, all allocator schedules.**  Running any history on the concrete array
yields exactly the reports of the ideal list run on the same history (the ideal list being told
which calls were blocked), ends in a state whose content is the ideal list's content, preserves
the invariant, keeps the ledger balanced and never faults. -/
theorem history_refines (cfg : Cfg) (ops : List Op) (a : Arr) (m : Mem) (hinv : a.Inv)
    (hsort : ∀ xs, (cfg.sortFn xs).length = xs.length) :
    (a.run cfg ops m).1 = (Spec.Seq.run cfg a.abs ops ((a.run cfg ops m).1.map Out.blocked)).1 ∧
    (a.run cfg ops m).2.1.abs = (Spec.Seq.run cfg a.abs ops ((a.run cfg ops m).1.map Out.blocked)).2 ∧
    (a.run cfg ops m).2.1.Inv ∧ (a.run cfg ops m).2.1.grow = a.grow ∧
    (a.run cfg ops m).2.2.live = m.live ∧ (a.run cfg ops m).2.2.fault = m.fault := by
  induction ops generalizing a m with
  | nil => exact ⟨rfl, rfl, hinv, rfl, rfl, rfl⟩
  | cons op ops ih =>
    obtain ⟨s1, s2, s3, s4, s5, s6, _⟩ := step_refines cfg a op m hinv hsort
    have ih' := ih (a.step cfg op m).2.1 (a.step cfg op m).2.2 s4
    obtain ⟨i1, i2, i3, i4, i5, i6⟩ := ih'
    simp only [Arr.run, Spec.Seq.run, List.map_cons, List.headD_cons, List.tail_cons]
    rw [← s2]
    refine ⟨?_, i2, i3, by rw [i4, s3], by rw [i5, s5], by rw [i6, s6]⟩
    rw [← i1, ← s1]

/-- **C01 on unblocked histories**: when no call of the history was blocked by the allocator or
the capacity limit, the concrete array is observationally the ideal list, with nothing else to say. -/
theorem history_ideal (cfg : Cfg) (ops : List Op) (a : Arr) (m : Mem) (hinv : a.Inv)
    (hsort : ∀ xs, (cfg.sortFn xs).length = xs.length)
    (hfree : ∀ o ∈ (a.run cfg ops m).1, o.blocked = none) :
    (a.run cfg ops m).1 = (Spec.Seq.run cfg a.abs ops (List.replicate ops.length none)).1 ∧
    (a.run cfg ops m).2.1.abs = (Spec.Seq.run cfg a.abs ops (List.replicate ops.length none)).2 := by
  have h := history_refines cfg ops a m hinv hsort
  have hlen : (a.run cfg ops m).1.length = ops.length := Arr.run_length cfg ops a m
  have : (a.run cfg ops m).1.map Out.blocked = List.replicate ops.length none := by
    rw [← hlen]
    apply List.eq_replicate_iff.2
    refine ⟨by simp, ?_⟩
    intro b hb
    obtain ⟨o, ho, rfl⟩ := List.mem_map.1 hb
    exact hfree o ho
  rw [this] at h
  exact ⟨h.1, h.2.1⟩

/-- **Appends succeed whenever the allocator does not refuse** (the repaired progress guarantee,
A7): `add` can only be blocked on an exactly full array, and then only by a refusing allocator or
at the capacity limit (`Arr.AtLimit`: the requested capacity would need more than `CC_MAX_ELEMENTS`
bytes, A10).  No assumption on the growth function. -/
theorem add_succeeds (a : Arr) (x : Nat) (m : Mem) (hinv : a.Inv)
    (halloc : a.size = a.capacity → (m.allocT a.triple).1 = true) (hmax : ¬ a.AtLimit) :
    (a.add x m).1 = .ok ∧ (a.add x m).2.1.abs = a.abs ++ [x] := by
  rcases (Arr.add_spec a x m hinv).1 with ⟨ok, habs, _⟩ | ⟨⟨hb, hfull⟩, _⟩
  · exact ⟨ok, habs⟩
  · rcases hb with ⟨_, h⟩ | ⟨_, h⟩
    · rw [halloc hfull] at h; simp at h
    · exact absurd h hmax

/-- the same for `add_at` at every legal position -/
theorem addAt_succeeds (a : Arr) (x i : Nat) (m : Mem) (hinv : a.Inv) (hi : i ≤ a.size)
    (halloc : a.size = a.capacity → (m.allocT a.triple).1 = true) (hmax : ¬ a.AtLimit) :
    (a.addAt x i m).1 = .ok ∧ (a.addAt x i m).2.1.abs = a.abs.insertIdx i x := by
  rcases (Arr.addAt_spec a x i m hinv).1 with ⟨_, sp⟩ | ⟨hgt, _⟩
  · rcases sp with ⟨ok, habs, _⟩ | ⟨⟨hb, hfull⟩, _⟩
    · exact ⟨ok, habs⟩
    · rcases hb with ⟨_, h⟩ | ⟨_, h⟩
      · rw [halloc hfull] at h; simp at h
      · exact absurd h hmax
  · omega

/-- **Growing never changes contents**: a successful `expand_capacity` keeps content, size and
configuration, whatever the growth function returns -/
theorem growth_keeps_content (a : Arr) (m : Mem) (hinv : a.Inv)
    (h : (a.expandCapacity m).1 = .ok) :
    (a.expandCapacity m).2.1.abs = a.abs ∧ (a.expandCapacity m).2.1.size = a.size ∧
    (a.expandCapacity m).2.1.grow = a.grow := by
  obtain ⟨e1, e2, e3, _⟩ := Arr.expandCapacity_ok a m hinv h
  exact ⟨e1, e2, e3⟩

/-- **Trimming never changes contents** (and a refused trim changes nothing at all) -/
theorem trim_keeps_content (a : Arr) (m : Mem) (hinv : a.Inv) :
    (a.trimCapacity m).2.1.abs = a.abs ∧ (a.trimCapacity m).2.1.size = a.size := by
  rcases (Arr.trimCapacity_spec a m hinv).1 with ⟨_, h1, h2, _⟩ | ⟨_, _, h⟩
  · exact ⟨h1, h2⟩
  · rw [h]; exact ⟨rfl, rfl⟩

/-- **C01 from the constructor**, either allocator triple (`cc_array_new_conf` with the caller's
allocators, or `cc_array_new` on the C library): every history on an array built with any capacity
the constructor accepts and any expansion factor behaves like the ideal list starting empty; the
array keeps exactly its two blocks of that triple, and the other allocator is never touched. -/
theorem new_history_refines (cfg : Cfg) (cap : Nat) (grow : Nat → Nat) (exGe : Nat → Bool) (m0 : Mem) (t : Triple)
    (a0 : Arr) (hnew : (Arr.new cap grow exGe m0 t).2.1 = some a0) (ops : List Op)
    (hsort : ∀ xs, (cfg.sortFn xs).length = xs.length) :
    let m1 := (Arr.new cap grow exGe m0 t).2.2
    (a0.run cfg ops m1).1 = (Spec.Seq.run cfg [] ops ((a0.run cfg ops m1).1.map Out.blocked)).1 ∧
    (a0.run cfg ops m1).2.1.abs = (Spec.Seq.run cfg [] ops ((a0.run cfg ops m1).1.map Out.blocked)).2 ∧
    (a0.run cfg ops m1).2.1.Inv ∧ Arr.own t (a0.run cfg ops m1).2.2 = Arr.own t m0 + 2 ∧
    (a0.run cfg ops m1).2.2.fault = m0.fault ∧ a0.triple = t := by
  intro m1
  rcases Arr.new_spec cap grow exGe m0 t with ⟨_, h, _⟩ | ⟨_, h, _⟩ | ⟨_, ha2, r, h1, h2, h3, h4, h5, h6, h7⟩
  · rw [h] at hnew; simp at hnew
  · rw [h] at hnew; simp at hnew
  · rw [h1] at hnew
    simp only [Option.some.injEq] at hnew
    subst hnew
    have htr : r.triple = t := by
      by_cases hv : cap = 0 ∨ exGe (Gen.CC_MAX_ELEMENTS / cap) = true ∨ cap > Gen.CC_MAX_ELEMENTS / 8
      · rw [Arr.new_invalid_eq cap grow exGe m0 t hv] at h1; simp at h1
      · rw [Arr.new_eq cap grow exGe m0 t (fun h => hv (Or.inl h)) (fun h => hv (Or.inr (Or.inl h)))
          (fun h => hv (Or.inr (Or.inr h)))] at h1
        simp only [ha2, if_true, Option.some.injEq] at h1
        rw [← h1]
    have := history_refines cfg ops r m1 h3 hsort
    rw [h2] at this
    obtain ⟨t1, t2, t3, _, _, t6⟩ := this
    obtain ⟨o1, _⟩ := Arr.run_led cfg ops r m1 h3 hsort
    rw [htr] at o1
    exact ⟨t1, t2, t3, by rw [o1]; exact h6, by rw [t6]; exact h7, htr⟩

/-- **from the constructor under an arbitrary schedule** (refusing constructors included): either the
arguments are invalid (`CC_ERR_INVALID_CAPACITY`, ledger untouched), or one of the constructor's two
allocations was refused (`CC_ERR_ALLOC`, no object, the triple's live-block count where it was — never on
the C library's triple), or the constructor yields an array on which every history behaves like the ideal
list starting empty (`new_history_refines`) -/
theorem new_any_schedule (cfg : Cfg) (cap : Nat) (grow : Nat → Nat) (exGe : Nat → Bool) (m0 : Mem) (t : Triple)
    (ops : List Op) (hsort : ∀ xs, (cfg.sortFn xs).length = xs.length) :
    ((Arr.new cap grow exGe m0 t).1 = .errInvalidCapacity ∧ (Arr.new cap grow exGe m0 t).2.1 = none ∧
      (Arr.new cap grow exGe m0 t).2.2 = m0 ∧
      (cap = 0 ∨ exGe (Gen.CC_MAX_ELEMENTS / cap) = true ∨ Gen.CC_MAX_ELEMENTS / 8 < cap)) ∨
    ((Arr.new cap grow exGe m0 t).1 = .errAlloc ∧ (Arr.new cap grow exGe m0 t).2.1 = none ∧
      (Arr.alloc2 m0 t).1 = false ∧ t = .conf ∧
      Arr.own t (Arr.new cap grow exGe m0 t).2.2 = Arr.own t m0 ∧ (Arr.new cap grow exGe m0 t).2.2.fault = m0.fault) ∨
    (∃ a0, (Arr.new cap grow exGe m0 t).2.1 = some a0 ∧ (Arr.new cap grow exGe m0 t).1 = .ok ∧
      (a0.run cfg ops (Arr.new cap grow exGe m0 t).2.2).1 =
        (Spec.Seq.run cfg [] ops ((a0.run cfg ops (Arr.new cap grow exGe m0 t).2.2).1.map Out.blocked)).1 ∧
      (a0.run cfg ops (Arr.new cap grow exGe m0 t).2.2).2.1.abs =
        (Spec.Seq.run cfg [] ops ((a0.run cfg ops (Arr.new cap grow exGe m0 t).2.2).1.map Out.blocked)).2 ∧
      (a0.run cfg ops (Arr.new cap grow exGe m0 t).2.2).2.1.Inv ∧
      Arr.own t (a0.run cfg ops (Arr.new cap grow exGe m0 t).2.2).2.2 = Arr.own t m0 + 2 ∧
      (a0.run cfg ops (Arr.new cap grow exGe m0 t).2.2).2.2.fault = m0.fault) := by
  rcases Arr.new_spec cap grow exGe m0 t with ⟨e, h, hm, hv⟩ | ⟨e, h, _, ha, ho, hf⟩ | ⟨ok, _, r, h1, _⟩
  · exact Or.inl ⟨e, h, hm, hv⟩
  · refine Or.inr (Or.inl ⟨e, h, ha, ?_, ho, hf⟩)
    cases t with
    | conf => rfl
    | libc => simp [Arr.alloc2, Mem.allocT] at ha
  · obtain ⟨t1, t2, t3, t4, t5, _⟩ := new_history_refines cfg cap grow exGe m0 t r h1 ops hsort
    exact Or.inr (Or.inr ⟨r, h1, ok, t1, t2, t3, t4, t5⟩)

/-- **no call of a history is blocked on an allocator that never refuses** — the C library's triple
(`cc_array_new`: whatever the refusal schedule of the configured allocators is) or a configured allocator
with an empty refusal schedule —, as long as the sizes
reached stay below the byte-size limit and the growth function does not overshoot it on the
capacities at which a growth step can happen (those below `size + |ops|`).  This pins the `blocked`
oracle of `history_refines` down: under these conditions it is `none` everywhere, and the array is
observationally the ideal list (`history_ideal`). -/
theorem history_unblocked (cfg : Cfg) (ops : List Op) (a : Arr) (m : Mem) (hinv : a.Inv)
    (hs : a.triple = .libc ∨ m.sched = [])
    (hsort : ∀ xs, (cfg.sortFn xs).length = xs.length)
    (hB : a.size + ops.length ≤ Gen.CC_MAX_ELEMENTS / 8)
    (hg : ∀ c, c < a.size + ops.length → a.grow c ≤ Gen.CC_MAX_ELEMENTS / 8) :
    ∀ o ∈ (a.run cfg ops m).1, o.blocked = none := by
  induction ops generalizing a m with
  | nil => intro o ho; simp [Arr.run] at ho
  | cons op ops ih =>
    obtain ⟨_, s2, s3, s4, _, _, _, b1, b2⟩ := step_refines cfg a op m hinv hsort
    simp only [List.length_cons] at hB hg
    have hnb : (a.step cfg op m).1.blocked = none := by
      have hcases : ∀ o : Out, o.blocked = none ∨ o.blocked = some .errAlloc ∨ o.blocked = some .errMaxCapacity := by
        intro o; unfold Out.blocked; split
        · rename_i h; rcases h with h | h <;> simp [h]
        · exact Or.inl rfl
      rcases hcases (a.step cfg op m).1 with h | h | h
      · exact h
      · have := b1 h
        rcases hs with hs | hs
        · rw [hs] at this; simp [Mem.allocT] at this
        · rw [(Arr.allocT_never_refuses m a.triple hs).1] at this; simp at this
      · obtain ⟨hl, hf⟩ := b2 h
        exfalso
        rcases hl with hl | hl
        · have := hinv.2.2.2; have := Arr.max8_lt; omega
        · have hc := hg a.capacity (by omega)
          unfold Arr.newCapacity at hl
          simp only at hl
          have := hinv.2.2.2
          split at hl
          · split at hl <;> omega
          · omega
    have hsz : (a.step cfg op m).2.1.size ≤ a.size + 1 := by
      have h1 : (a.step cfg op m).2.1.size = (a.step cfg op m).2.1.abs.length := by simp
      rw [h1, s2]
      have := Arr.spec_step_length cfg a.abs op (a.step cfg op m).1.blocked hsort
      simpa using this
    intro o ho
    simp only [Arr.run, List.mem_cons] at ho
    rcases ho with ho | ho
    · rw [ho]; exact hnb
    · exact ih (a.step cfg op m).2.1 (a.step cfg op m).2.2 s4
        (hs.elim (fun h => Or.inl (by rw [Arr.step_triple, h])) (fun h => Or.inr (Arr.step_sched_nil cfg a op m hinv h)))
        (by omega) (fun c hc => by rw [s3]; exact hg c (by omega)) o ho

/-- consequently such a history is observationally the ideal list, with nothing else to say -/
theorem history_ideal_of_nonrefusing (cfg : Cfg) (ops : List Op) (a : Arr) (m : Mem) (hinv : a.Inv)
    (hs : a.triple = .libc ∨ m.sched = [])
    (hsort : ∀ xs, (cfg.sortFn xs).length = xs.length)
    (hB : a.size + ops.length ≤ Gen.CC_MAX_ELEMENTS / 8)
    (hg : ∀ c, c < a.size + ops.length → a.grow c ≤ Gen.CC_MAX_ELEMENTS / 8) :
    (a.run cfg ops m).1 = (Spec.Seq.run cfg a.abs ops (List.replicate ops.length none)).1 ∧
    (a.run cfg ops m).2.1.abs = (Spec.Seq.run cfg a.abs ops (List.replicate ops.length none)).2 :=
  history_ideal cfg ops a m hinv hsort (history_unblocked cfg ops a m hinv hs hsort hB hg)

/-- a dischargeable side condition for the progress theorems: a small array whose growth function
does not overshoot the byte-size limit at its capacity is not at the limit -/
theorem not_atLimit (a : Arr) (hc : a.capacity < Gen.CC_MAX_ELEMENTS / 8)
    (hg : a.grow a.capacity ≤ Gen.CC_MAX_ELEMENTS / 8) : ¬ a.AtLimit := by
  intro hl
  rcases hl with hl | hl
  · have := Arr.max8_lt; omega
  · unfold Arr.newCapacity at hl
    simp only at hl
    split at hl
    · split at hl <;> omega
    · omega

/-- **when a call may be blocked** (one step): `CC_ERR_ALLOC` only when the array's own allocator refused
the request — and, unless the call is `trim_capacity`, only on an exactly full array —;
`CC_ERR_MAX_CAPACITY` only on an exactly full array at the capacity limit -/
theorem step_blocked_pinned (cfg : Cfg) (a : Arr) (op : Op) (m : Mem) (hinv : a.Inv) :
    ((a.step cfg op m).1.blocked = some .errAlloc →
      (m.allocT a.triple).1 = false ∧ a.triple = .conf ∧ (op ≠ .trimCapacity → a.size = a.capacity)) ∧
    ((a.step cfg op m).1.blocked = some .errMaxCapacity → a.AtLimit ∧ a.size = a.capacity) := by
  obtain ⟨b1, b2⟩ := Arr.step_blocked cfg a op m hinv
  refine ⟨fun h => ⟨b1 h, ?_, Arr.step_blocked_full cfg a op m hinv h⟩, b2⟩
  have := b1 h
  cases ht : a.triple with
  | conf => rfl
  | libc => rw [ht] at this; simp [Mem.allocT] at this

/-- **when a call of a history may be blocked**, for every refusal schedule: split the history at any
call; that call's report is the report of one step from the state the prefix leads to (which satisfies
the invariant), so it is blocked with `CC_ERR_ALLOC` only if *that* state's allocator request was
refused (and, for `add`/`add_at`, the array was exactly full), with `CC_ERR_MAX_CAPACITY` only if that
state is full and at the capacity limit.  Together with `history_refines` this rules out a model that
refuses at will. -/
theorem history_blocked_pinned (cfg : Cfg) (pre post : List Op) (op : Op) (a : Arr) (m : Mem) (hinv : a.Inv)
    (hsort : ∀ xs, (cfg.sortFn xs).length = xs.length) :
    (a.run cfg (pre ++ op :: post) m).1 =
      (a.run cfg pre m).1 ++ ((a.run cfg pre m).2.1.step cfg op (a.run cfg pre m).2.2).1 ::
        (((a.run cfg pre m).2.1.step cfg op (a.run cfg pre m).2.2).2.1.run cfg post
          ((a.run cfg pre m).2.1.step cfg op (a.run cfg pre m).2.2).2.2).1 ∧
    (a.run cfg pre m).2.1.Inv ∧
    (((a.run cfg pre m).2.1.step cfg op (a.run cfg pre m).2.2).1.blocked = some .errAlloc →
      ((a.run cfg pre m).2.2.allocT (a.run cfg pre m).2.1.triple).1 = false ∧ (a.run cfg pre m).2.1.triple = .conf ∧
      (op ≠ .trimCapacity → (a.run cfg pre m).2.1.size = (a.run cfg pre m).2.1.capacity)) ∧
    (((a.run cfg pre m).2.1.step cfg op (a.run cfg pre m).2.2).1.blocked = some .errMaxCapacity →
      (a.run cfg pre m).2.1.AtLimit ∧ (a.run cfg pre m).2.1.size = (a.run cfg pre m).2.1.capacity) := by
  have hi := (history_refines cfg pre a m hinv hsort).2.2.1
  obtain ⟨p1, p2⟩ := step_blocked_pinned cfg (a.run cfg pre m).2.1 op (a.run cfg pre m).2.2 hi
  refine ⟨?_, hi, p1, p2⟩
  rw [(Arr.run_append cfg pre (op :: post) a m).1]
  rfl

/-- **the ledger of one call and of a history, for either allocator triple**: the live-block count of
the array's own triple is what it was, the other allocator's counters are untouched — so *both*
`live` and `liveLibc` are balanced —, and the refusal counter counts exactly the calls that reported
`CC_ERR_ALLOC` -/
theorem history_ledger (cfg : Cfg) (ops : List Op) (a : Arr) (m : Mem) (hinv : a.Inv)
    (hsort : ∀ xs, (cfg.sortFn xs).length = xs.length) :
    Arr.own a.triple (a.run cfg ops m).2.2 = Arr.own a.triple m ∧ Arr.Foreign a.triple m (a.run cfg ops m).2.2 ∧
    (a.run cfg ops m).2.2.live = m.live ∧ (a.run cfg ops m).2.2.liveLibc = m.liveLibc ∧
    (a.run cfg ops m).2.2.nrefused =
      m.nrefused + ((a.run cfg ops m).1.filter (fun o => decide (o.st = some .errAlloc))).length ∧
    (a.run cfg ops m).2.1.triple = a.triple := by
  obtain ⟨l1, l2, l3, l4⟩ := Arr.run_led cfg ops a m hinv hsort
  obtain ⟨b1, b2⟩ := Arr.balanced_of_own_foreign l1 l2
  exact ⟨l1, l2, b1, b2, l3, l4⟩

/-! ## The property in its own vocabulary (facts about the ideal list) -/

/-- an element appended is the last one and everything before it is untouched -/
theorem spec_add (xs : List Nat) (x : Nat) :
    (Spec.Seq.add xs x).1 = .ok ∧ (Spec.Seq.getLast (Spec.Seq.add xs x).2) = (.ok, some x) ∧
    ∀ i, i < xs.length → Spec.Seq.getAt (Spec.Seq.add xs x).2 i = Spec.Seq.getAt xs i := by
  refine ⟨rfl, by simp [Spec.Seq.add, Spec.Seq.getLast], fun i hi => ?_⟩
  have : i < xs.length + 1 := by omega
  simp [Spec.Seq.add, Spec.Seq.getAt, hi, this]

/-- `add_at` accepts exactly the positions `[0,size]`, puts the element there and shifts the rest -/
theorem spec_addAt (xs : List Nat) (x i : Nat) :
    ((Spec.Seq.addAt xs x i).1 = .ok ↔ i ≤ xs.length) ∧
    (i ≤ xs.length → (Spec.Seq.addAt xs x i).2 = xs.take i ++ x :: xs.drop i) ∧
    (xs.length < i → (Spec.Seq.addAt xs x i).2 = xs) := by
  unfold Spec.Seq.addAt
  refine ⟨by split <;> simp [*], fun h => ?_, fun h => ?_⟩
  · simp only [h, if_true]
    have := Arr.insertIdx_append_length (xs.take i) (xs.drop i) x
    rw [List.take_append_drop, List.length_take, Nat.min_eq_left h] at this
    rw [this]; simp
  · have : ¬ i ≤ xs.length := by omega
    simp [this]

/-- removal by index accepts exactly `[0,size)`, returns that element and closes the gap -/
theorem spec_removeAt (xs : List Nat) (i : Nat) :
    ((Spec.Seq.removeAt xs i).1 = .ok ↔ i < xs.length) ∧
    (i < xs.length → (Spec.Seq.removeAt xs i).2.2 = xs.take i ++ xs.drop (i + 1)) ∧
    (xs.length ≤ i → (Spec.Seq.removeAt xs i).2.2 = xs) := by
  unfold Spec.Seq.removeAt
  refine ⟨by split <;> simp [*], fun h => ?_, fun h => ?_⟩
  · simp [h, List.eraseIdx_eq_take_drop_succ]
  · have : ¬ i < xs.length := by omega
    simp [this]

/-- the occurrence count after an append -/
theorem spec_contains_add (xs : List Nat) (x y : Nat) :
    Spec.Seq.contains (Spec.Seq.add xs x).2 y = Spec.Seq.contains xs y + if x = y then 1 else 0 := by
  simp only [Spec.Seq.contains, Spec.Seq.add, List.count_append, List.count_cons, List.count_nil, beq_iff_eq]
  omega

/-! ## Non-vacuity: a partly filled block with a slow growth function satisfies the invariant, and a
concrete history under a schedule with one refusal runs as the theorems say -/
example : (Arr.mk 3 4 [7, 0, 7, 99] (fun c => c * 11 / 10) .conf).Inv ∧
    (Arr.mk 3 4 [7, 0, 7, 99] (fun c => c * 11 / 10) .conf).abs = [7, 0, 7] := by decide

/-- capacity 1, growth function `id` (every growth step falls back to `capacity + 1`), the second
allocator call refused: trim, three appends (the third one blocked), an insertion, a removal, a
reversal -/
example :
    let a : Arr := Arr.mk 0 1 [0] id .conf
    let cfg : Cfg := ⟨fun v => v % 2 == 0, fun x y => (x : Int) - y, fun x y => x + y, id⟩
    let r := a.run cfg [.trimCapacity, .add 5, .add 6, .add 6, .addAt 9 0, .removeAt 1, .reverse] { sched := [false, true], live := 2 }
    a.Inv ∧ r.2.1.abs = [6, 9] ∧ r.1.map Out.blocked = [none, none, none, some .errAlloc, none, none, none] ∧
    r.2.2.live = 2 ∧ r.2.2.fault = false ∧ r.2.1.Inv := by decide

end CC.Properties.C01
