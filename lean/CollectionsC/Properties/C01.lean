import CollectionsC.Proofs.ArrayStep
/-! # C01 — the dynamic array `CC_Array` behaves as an ideal sequence

Statements only (helpers: `Proofs/Array*.lean`).  Concrete model `CC.Arr` (`Model/Array.lean`):
the fields of `struct cc_array_s` with the same statements as `src/cc_array.c`; `exp_factor` is the
field `grow : Nat → Nat` (`grow c = (size_t)(c * exp_factor)`), **arbitrary** in every theorem below.
Abstract spec: `List Nat` with the list functions of `Spec/SeqSpec.lean`.

Quantifiers: every state satisfying the representation invariant `Arr.Inv`
(`size ≤ capacity ≤ allocated slots`, `1 ≤ capacity ≤ CC_MAX_ELEMENTS / sizeof(void*)`), every element value
(0 = NULL, duplicates), every index in the whole `Nat` domain, every growth function, every callback,
every finite history, every allocator schedule (refusals included).

Hypotheses used, all documented preconditions:
* `0 < m.live` — the ledger knows at least the blocks of the array itself (needed only to state that
  the `free` inside a re-allocation does not fault);
* `hsort` — the assumed `qsort` returns a list of the same length (every permutation does; C18). -/
namespace CC.Properties.C01
open CC
open CC.Spec.Seq (Cfg Op Out)

/-- **One call refines one step of the ideal list.**  The ideal list is told whether the call was
blocked (`CC_ERR_ALLOC` / `CC_ERR_MAX_CAPACITY`, possible only for `add`, `add_at`,
`trim_capacity`); then report (status, out-value, callback log) and content agree, the
configuration is kept, the invariant is preserved, the ledger is balanced, nothing faults, and a call
reporting any error status leaves the whole physical state unchanged. -/
theorem step_refines (cfg : Cfg) (a : Arr) (op : Op) (m : Mem) (hinv : a.Inv)
    (hsort : ∀ xs, (cfg.sortFn xs).length = xs.length) :
    (a.step cfg op m).1 = (Spec.Seq.step cfg a.abs op (a.step cfg op m).1.blocked).1 ∧
    (a.step cfg op m).2.1.abs = (Spec.Seq.step cfg a.abs op (a.step cfg op m).1.blocked).2 ∧
    (a.step cfg op m).2.1.grow = a.grow ∧
    (a.step cfg op m).2.1.Inv ∧
    (a.step cfg op m).2.2.live = m.live ∧ (a.step cfg op m).2.2.fault = m.fault ∧
    (∀ st, (a.step cfg op m).1.st = some st → st ≠ .ok → (a.step cfg op m).2.1 = a) :=
  Arr.step_spec cfg a op m hinv hsort

/-- **C01, all histories, all allocator schedules.**  Running any history on the concrete array
yields exactly the reports of the ideal list run on the same history (the ideal list being told
which calls were blocked), ends in a state whose content is the ideal list's content, preserves
the invariant, keeps the ledger balanced and never faults. -/
theorem history_refines (cfg : Cfg) (ops : List Op) (a : Arr) (m : Mem) (hinv : a.Inv)
    (hsort : ∀ xs, (cfg.sortFn xs).length = xs.length) :
    (a.run cfg ops m).1 = (Spec.Seq.run cfg a.abs ops ((a.run cfg ops m).1.map Out.blocked)).1 ∧
    (a.run cfg ops m).2.1.abs = (Spec.Seq.run cfg a.abs ops ((a.run cfg ops m).1.map Out.blocked)).2 ∧
    (a.run cfg ops m).2.1.Inv ∧ (a.run cfg ops m).2.1.grow = a.grow ∧
    (a.run cfg ops m).2.2.live = m.live ∧ (a.run cfg ops m).2.2.fault = m.fault := by
  induction ops generalizing a m with
  | nil => exact ⟨rfl, rfl, hinv, rfl, rfl, rfl⟩
  | cons op ops ih =>
    obtain ⟨s1, s2, s3, s4, s5, s6, _⟩ := step_refines cfg a op m hinv hsort
    have ih' := ih (a.step cfg op m).2.1 (a.step cfg op m).2.2 s4 (by omega)
    obtain ⟨i1, i2, i3, i4, i5, i6⟩ := ih'
    simp only [Arr.run, Spec.Seq.run, List.map_cons, List.headD_cons, List.tail_cons]
    rw [← s2]
    refine ⟨?_, i2, i3, by rw [i4, s3], by rw [i5, s5], by rw [i6, s6]⟩
    rw [← i1, ← s1]

/-- **C01 on unblocked histories**: when no call of the history was blocked by the allocator or
the capacity limit, the concrete array is observationally the ideal list, with nothing else to say. -/
theorem history_ideal (cfg : Cfg) (ops : List Op) (a : Arr) (m : Mem) (hinv : a.Inv)
    (hsort : ∀ xs, (cfg.sortFn xs).length = xs.length)
    (hfree : ∀ o ∈ (a.run cfg ops m).1, o.blocked = none) :
    (a.run cfg ops m).1 = (Spec.Seq.run cfg a.abs ops (List.replicate ops.length none)).1 ∧
    (a.run cfg ops m).2.1.abs = (Spec.Seq.run cfg a.abs ops (List.replicate ops.length none)).2 := by
  have h := history_refines cfg ops a m hinv hsort
  have hlen : (a.run cfg ops m).1.length = ops.length := Arr.run_length cfg ops a m
  have : (a.run cfg ops m).1.map Out.blocked = List.replicate ops.length none := by
    rw [← hlen]
    apply List.eq_replicate_iff.2
    refine ⟨by simp, ?_⟩
    intro b hb
    obtain ⟨o, ho, rfl⟩ := List.mem_map.1 hb
    exact hfree o ho
  rw [this] at h
  exact ⟨h.1, h.2.1⟩

/-- **Appends succeed whenever the allocator does not refuse** (the repaired progress guarantee,
A7): `add` can only be blocked on an exactly full array, and then only by a refusing allocator or
at the capacity limit (`Arr.AtLimit`: the requested capacity would need more than `CC_MAX_ELEMENTS`
bytes, A10).  No assumption on the growth function. -/
theorem add_succeeds (a : Arr) (x : Nat) (m : Mem) (hinv : a.Inv)
    (halloc : a.size = a.capacity → m.alloc.1 = true) (hmax : ¬ a.AtLimit) :
    (a.add x m).1 = .ok ∧ (a.add x m).2.1.abs = a.abs ++ [x] := by
  rcases (Arr.add_spec a x m hinv).1 with ⟨ok, habs, _⟩ | ⟨⟨hb, hfull⟩, _⟩
  · exact ⟨ok, habs⟩
  · rcases hb with ⟨_, h⟩ | ⟨_, h⟩
    · rw [halloc hfull] at h; simp at h
    · exact absurd h hmax

/-- the same for `add_at` at every legal position -/
theorem addAt_succeeds (a : Arr) (x i : Nat) (m : Mem) (hinv : a.Inv) (hi : i ≤ a.size)
    (halloc : a.size = a.capacity → m.alloc.1 = true) (hmax : ¬ a.AtLimit) :
    (a.addAt x i m).1 = .ok ∧ (a.addAt x i m).2.1.abs = a.abs.insertIdx i x := by
  rcases (Arr.addAt_spec a x i m hinv).1 with ⟨_, sp⟩ | ⟨hgt, _⟩
  · rcases sp with ⟨ok, habs, _⟩ | ⟨⟨hb, hfull⟩, _⟩
    · exact ⟨ok, habs⟩
    · rcases hb with ⟨_, h⟩ | ⟨_, h⟩
      · rw [halloc hfull] at h; simp at h
      · exact absurd h hmax
  · omega

/-- **Growing never changes contents**: a successful `expand_capacity` keeps content, size and
configuration, whatever the growth function returns -/
theorem growth_keeps_content (a : Arr) (m : Mem) (hinv : a.Inv)
    (h : (a.expandCapacity m).1 = .ok) :
    (a.expandCapacity m).2.1.abs = a.abs ∧ (a.expandCapacity m).2.1.size = a.size ∧
    (a.expandCapacity m).2.1.grow = a.grow := by
  obtain ⟨e1, e2, e3, _⟩ := Arr.expandCapacity_ok a m hinv h
  exact ⟨e1, e2, e3⟩

/-- **Trimming never changes contents** (and a refused trim changes nothing at all) -/
theorem trim_keeps_content (a : Arr) (m : Mem) (hinv : a.Inv) :
    (a.trimCapacity m).2.1.abs = a.abs ∧ (a.trimCapacity m).2.1.size = a.size := by
  rcases (Arr.trimCapacity_spec a m hinv).1 with ⟨_, h1, h2, _⟩ | ⟨_, _, h⟩
  · exact ⟨h1, h2⟩
  · rw [h]; exact ⟨rfl, rfl⟩

/-- **C01 from the constructor**: every history on an array built by `cc_array_new_conf` with any
capacity the constructor accepts and any expansion factor behaves like the ideal list starting
empty. -/
theorem new_history_refines (cfg : Cfg) (cap : Nat) (grow : Nat → Nat) (exGe : Nat → Bool) (m0 : Mem)
    (a0 : Arr) (hnew : (Arr.new cap grow exGe m0).2.1 = some a0) (ops : List Op)
    (hsort : ∀ xs, (cfg.sortFn xs).length = xs.length) :
    let m1 := (Arr.new cap grow exGe m0).2.2
    (a0.run cfg ops m1).1 = (Spec.Seq.run cfg [] ops ((a0.run cfg ops m1).1.map Out.blocked)).1 ∧
    (a0.run cfg ops m1).2.1.abs = (Spec.Seq.run cfg [] ops ((a0.run cfg ops m1).1.map Out.blocked)).2 ∧
    (a0.run cfg ops m1).2.1.Inv ∧ (a0.run cfg ops m1).2.2.live = m0.live + 2 ∧
    (a0.run cfg ops m1).2.2.fault = m0.fault := by
  intro m1
  rcases Arr.new_spec cap grow exGe m0 with ⟨_, h, _⟩ | ⟨_, h, _⟩ | ⟨_, _, r, h1, h2, h3, h4, h5, h6, h7⟩
  · rw [h] at hnew; simp at hnew
  · rw [h] at hnew; simp at hnew
  · rw [h1] at hnew
    simp only [Option.some.injEq] at hnew
    subst hnew
    have := history_refines cfg ops r m1 h3 (by show 0 < (Arr.new cap grow exGe m0).2.2.live; omega)
      hsort
    rw [h2] at this
    obtain ⟨t1, t2, t3, _, t5, t6⟩ := this
    exact ⟨t1, t2, t3, by rw [t5]; exact h6, by rw [t6]; exact h7⟩

/-! ## The property in its own vocabulary (facts about the ideal list) -/

/-- an element appended is the last one and everything before it is untouched -/
theorem spec_add (xs : List Nat) (x : Nat) :
    (Spec.Seq.add xs x).1 = .ok ∧ (Spec.Seq.getLast (Spec.Seq.add xs x).2) = (.ok, some x) ∧
    ∀ i, i < xs.length → Spec.Seq.getAt (Spec.Seq.add xs x).2 i = Spec.Seq.getAt xs i := by
  refine ⟨rfl, by simp [Spec.Seq.add, Spec.Seq.getLast], fun i hi => ?_⟩
  have : i < xs.length + 1 := by omega
  simp [Spec.Seq.add, Spec.Seq.getAt, hi, this]

/-- `add_at` accepts exactly the positions `[0,size]`, puts the element there and shifts the rest -/
theorem spec_addAt (xs : List Nat) (x i : Nat) :
    ((Spec.Seq.addAt xs x i).1 = .ok ↔ i ≤ xs.length) ∧
    (i ≤ xs.length → (Spec.Seq.addAt xs x i).2 = xs.take i ++ x :: xs.drop i) ∧
    (xs.length < i → (Spec.Seq.addAt xs x i).2 = xs) := by
  unfold Spec.Seq.addAt
  refine ⟨by split <;> simp [*], fun h => ?_, fun h => ?_⟩
  · simp only [h, if_true]
    have := Arr.insertIdx_append_length (xs.take i) (xs.drop i) x
    rw [List.take_append_drop, List.length_take, Nat.min_eq_left h] at this
    rw [this]; simp
  · have : ¬ i ≤ xs.length := by omega
    simp [this]

/-- removal by index accepts exactly `[0,size)`, returns that element and closes the gap -/
theorem spec_removeAt (xs : List Nat) (i : Nat) :
    ((Spec.Seq.removeAt xs i).1 = .ok ↔ i < xs.length) ∧
    (i < xs.length → (Spec.Seq.removeAt xs i).2.2 = xs.take i ++ xs.drop (i + 1)) ∧
    (xs.length ≤ i → (Spec.Seq.removeAt xs i).2.2 = xs) := by
  unfold Spec.Seq.removeAt
  refine ⟨by split <;> simp [*], fun h => ?_, fun h => ?_⟩
  · simp [h, List.eraseIdx_eq_take_drop_succ]
  · have : ¬ i < xs.length := by omega
    simp [this]

/-- the occurrence count after an append -/
theorem spec_contains_add (xs : List Nat) (x y : Nat) :
    Spec.Seq.contains (Spec.Seq.add xs x).2 y = Spec.Seq.contains xs y + if x = y then 1 else 0 := by
  simp only [Spec.Seq.contains, Spec.Seq.add, List.count_append, List.count_cons, List.count_nil, beq_iff_eq]
  omega

/-! ## Non-vacuity: a partly filled block with a slow growth function satisfies the invariant -/
example : (Arr.mk 3 4 [7, 0, 7, 99] (fun c => c * 11 / 10)).Inv ∧
    (Arr.mk 3 4 [7, 0, 7, 99] (fun c => c * 11 / 10)).abs = [7, 0, 7] := by decide

end CC.Properties.C01
