import CollectionsC.Properties.C01Sized
import CollectionsC.Proofs.ArraySized9
/-! # C15 (sized array part) — derived arrays are exact and independent

Statements only.  `subarray`, `copy`, `filter` return a *new* array value.  The clauses "building
never modifies the source" and "independent afterwards" are true by the value semantics of the model
(the source is an argument the functions do not return; two model values cannot share bytes): they are
kept below under the label `_model` — the aliasing question is answered by the harness, which mutates
and destroys either array and re-observes the other under ASan. -/
namespace CC.Properties.C15Sized
open CC CC.Gen CC.ArraySized

/-- **subarray, every argument and every allocator answer** (both ends inclusive):
* outside `b ≤ e < size`: `CC_ERR_INVALID_RANGE`, no object, nothing allocated;
* inside, allocator grants: `CC_OK`, the result holds exactly `abs[b..e]`, is exactly full, satisfies
  the invariant, carries the source's element size, growth rule and allocator triple;
* inside, allocator refuses: `CC_ERR_ALLOC`, no object, ledger as before -/
theorem subarray_exact (a : ArraySized) (b e : Nat) (m : Mem) (h : a.Inv) :
    (¬ (b ≤ e ∧ e < a.size) ∧ a.subarray b e m = (.errInvalidRange, none, m)) ∨
    (b ≤ e ∧ e < a.size ∧ alloc2ok m a.triple = true ∧ ∃ s, a.subarray b e m = (.ok, some s, (a.subarray b e m).2.2) ∧
      s.Inv ∧ s.abs = (a.abs.drop b).take (e - b + 1) ∧ s.dataLen = a.dataLen ∧ s.cfg = a.cfg ∧
      s.size = e - b + 1 ∧ s.capacity = e - b + 1) ∨
    (b ≤ e ∧ e < a.size ∧ alloc2ok m a.triple = false ∧ (a.subarray b e m).1 = .errAlloc ∧
      (a.subarray b e m).2.1 = none ∧ MemSame a.triple m (a.subarray b e m).2.2) := by
  by_cases hr : b ≤ e ∧ e < a.size
  · right
    rcases subarray_spec a b e m h hr.1 hr.2 with ⟨s, h1, h2, h3, h4, h5, h6, h7, _⟩ | ⟨h1, h2, h3⟩
    · left
      refine ⟨hr.1, hr.2, ?_, s, h1, h2, h3, h4, h5, h7, h6⟩
      cases hq : alloc2ok m a.triple
      · have := (subarray_refused_iff a b e m).2 ⟨hr.1, hr.2, hq⟩
        rw [h1] at this; cases this
      · rfl
    · right
      exact ⟨hr.1, hr.2, ((subarray_refused_iff a b e m).1 h1).2.2, h1, h2, h3⟩
  · left; exact ⟨hr, subarray_inert a b e m (by omega)⟩

/-- **copy, every allocator answer**: granted → exact content, same capacity/element size/growth
rule/triple; refused → `CC_ERR_ALLOC`, no object, ledger as before -/
theorem copy_exact (a : ArraySized) (m : Mem) (h : a.Inv) :
    (alloc2ok m a.triple = true ∧ ∃ s, a.copy m = (.ok, some s, (a.copy m).2.2) ∧ s.Inv ∧ s.abs = a.abs ∧
      s.dataLen = a.dataLen ∧ s.cfg = a.cfg ∧ s.capacity = a.capacity) ∨
    (alloc2ok m a.triple = false ∧ (a.copy m).1 = .errAlloc ∧ (a.copy m).2.1 = none ∧
      MemSame a.triple m (a.copy m).2.2) := by
  rcases copy_spec a m h with ⟨s, h1, h2, h3, h4, h5, h6, _⟩ | ⟨h1, h2, h3⟩
  · left
    refine ⟨?_, s, h1, h2, h3, h4, h5, h6⟩
    cases hq : alloc2ok m a.triple
    · have := (copy_refused_iff a m).2 hq
      rw [h1] at this; cases this
    · rfl
  · right; exact ⟨(copy_refused_iff a m).1 h1, h1, h2, h3⟩

/-- **filter, every source and every allocator answer**: empty source → `CC_ERR_OUT_OF_RANGE`, no
object; granted → the records satisfying the predicate in source order (the predicate sees every
record once, first to last); refused → `CC_ERR_ALLOC`, no object -/
theorem filter_exact (a : ArraySized) (p : List Nat → Bool) (m : Mem) (h : a.Inv) :
    (a.size = 0 ∧ a.filter p m = (.errOutOfRange, [], none, m)) ∨
    (0 < a.size ∧ alloc2ok m a.triple = true ∧ ∃ s, a.filter p m = (.ok, a.abs, some s, (a.filter p m).2.2.2) ∧
      s.Inv ∧ s.abs = a.abs.filter p ∧ s.dataLen = a.dataLen ∧ s.cfg = a.cfg ∧ s.capacity = a.capacity) ∨
    (0 < a.size ∧ alloc2ok m a.triple = false ∧ (a.filter p m).1 = .errAlloc ∧ (a.filter p m).2.2.1 = none ∧
      MemSame a.triple m (a.filter p m).2.2.2) := by
  by_cases h0 : 0 < a.size
  · right
    rcases filter_spec a p m h h0 with ⟨s, h1, h2, h3, h4, h5, h6, _⟩ | ⟨h1, h2, h3⟩
    · left
      refine ⟨h0, ?_, s, h1, h2, h3, h4, h5, h6⟩
      cases hq : alloc2ok m a.triple
      · have := (filter_refused_iff a p m).2 ⟨h0, hq⟩
        rw [h1] at this; cases this
      · rfl
    · right; exact ⟨h0, ((filter_refused_iff a p m).1 h1).2, h1, h2, h3⟩
  · left; exact ⟨by omega, filter_inert a p m (by omega)⟩

/-- **derived_can_grow**: every derived array is a fully usable array of its own — appending to it
succeeds whenever its allocator grants the request and the size limit is not reached (A3: a full
sub-array used to be unable to grow), and then refines the ideal append -/
theorem derived_can_grow (a : ArraySized) (x : Buf Nat) (m : Mem) (h : a.Inv) (hx : x.length = a.dataLen)
    (hal : (m.allocT a.triple).1 = true) (hc : ¬ a.AtLimit) :
    (a.add x m).1 = .ok ∧ (a.add x m).2.1.abs = a.abs ++ [x] := add_ok_of_alloc a x m h hx hal hc

theorem subarray_can_grow (a s : ArraySized) (b e : Nat) (x : Buf Nat) (m m' : Mem) (h : a.Inv)
    (hb : b ≤ e) (he : e < a.size) (hs : (a.subarray b e m).2.1 = some s)
    (hx : x.length = a.dataLen) (hal : (m'.allocT s.triple).1 = true) (hc : ¬ s.AtLimit) :
    (s.add x m').1 = .ok ∧ (s.add x m').2.1.abs = (a.abs.drop b).take (e - b + 1) ++ [x] :=
  C01Sized.C15_sized_subarray_grows a s b e x m m' h hb he hs hx hal hc

/-- any history on a copy refines the ideal sequence started from the source's content -/
theorem derived_history (a s : ArraySized) (m m' : Mem) (h : a.Inv) (hs : (a.copy m).2.1 = some s)
    (ops : List (Spec.SSeq.Op Elem)) (hw : ∀ op ∈ ops, OpWF a.dataLen op) :
    (s.run ops m').1 = (Spec.SSeq.run a.abs ops (s.refusals ops m')).1 ∧
    (s.run ops m').2.1.abs = (Spec.SSeq.run a.abs ops (s.refusals ops m')).2 := by
  obtain ⟨i1, i2, i3, _⟩ := (C01Sized.C15_sized_derived a 0 0 (fun _ => true) m h).2.1 s hs
  have := C01Sized.C01_sized s ops m' i1 (by rw [i3]; exact hw)
  rw [i2] at this
  exact ⟨this.1, this.2.1⟩

/-- any history on a sub-array or on a filter result refines the ideal sequence started from the
selected records -/
theorem derived_history_sub_filter (a s : ArraySized) (b e : Nat) (p : List Nat → Bool) (m m' : Mem) (h : a.Inv)
    (ops : List (Spec.SSeq.Op Elem)) (hw : ∀ op ∈ ops, OpWF a.dataLen op) :
    (b ≤ e → e < a.size → (a.subarray b e m).2.1 = some s →
      (s.run ops m').1 = (Spec.SSeq.run ((a.abs.drop b).take (e - b + 1)) ops (s.refusals ops m')).1 ∧
      (s.run ops m').2.1.abs = (Spec.SSeq.run ((a.abs.drop b).take (e - b + 1)) ops (s.refusals ops m')).2) ∧
    (0 < a.size → (a.filter p m).2.2.1 = some s →
      (s.run ops m').1 = (Spec.SSeq.run (a.abs.filter p) ops (s.refusals ops m')).1 ∧
      (s.run ops m').2.1.abs = (Spec.SSeq.run (a.abs.filter p) ops (s.refusals ops m')).2) := by
  constructor
  · intro hb he hs
    obtain ⟨i1, i2, i3, _⟩ := (C01Sized.C15_sized_derived a b e p m h).1 hb he s hs
    have := C01Sized.C01_sized s ops m' i1 (by rw [i3]; exact hw)
    rw [i2] at this
    exact ⟨this.1, this.2.1⟩
  · intro h0 hs
    obtain ⟨i1, i2, i3, _⟩ := (C01Sized.C15_sized_derived a b e p m h).2.2 h0 s hs
    have := C01Sized.C01_sized s ops m' i1 (by rw [i3]; exact hw)
    rw [i2] at this
    exact ⟨this.1, this.2.1⟩

/-- **ledger of a successful builder and destroy of its result**: the result owns two blocks of the
source's triple, and destroying it releases exactly those two through that triple (the live-block
counter is back to its value before the builder ran), without a fault -/
theorem derived_destroy (a s : ArraySized) (b e : Nat) (p : List Nat → Bool) (m : Mem) (h : a.Inv) :
    ((a.copy m).2.1 = some s → own (a.copy m).2.2 a.triple = own m a.triple + 2 ∧
      own (s.destroy (a.copy m).2.2) a.triple = own m a.triple ∧ (s.destroy (a.copy m).2.2).fault = m.fault) ∧
    ((a.subarray b e m).2.1 = some s → own (a.subarray b e m).2.2 a.triple = own m a.triple + 2 ∧
      own (s.destroy (a.subarray b e m).2.2) a.triple = own m a.triple ∧
      (s.destroy (a.subarray b e m).2.2).fault = m.fault) ∧
    ((a.filter p m).2.2.1 = some s → own (a.filter p m).2.2.2 a.triple = own m a.triple + 2 ∧
      own (s.destroy (a.filter p m).2.2.2) a.triple = own m a.triple ∧
      (s.destroy (a.filter p m).2.2.2).fault = m.fault) := by
  refine ⟨fun hs => ?_, fun hs => ?_, fun hs => ?_⟩
  · rcases copy_spec a m h with ⟨s', h1, _, _, _, h5, _, _, h8, h9, _⟩ | ⟨_, h2, _⟩
    · rw [h1] at hs; cases hs
      have ht : s.triple = a.triple := congrArg Prod.snd h5
      have := destroy_ledger s (a.copy m).2.2 (by rw [ht, h8]; omega)
      rw [ht] at this
      exact ⟨h8, by rw [this.1, h8]; omega, by rw [this.2.1, h9]⟩
    · rw [h2] at hs; cases hs
  · by_cases hr : b ≤ e ∧ e < a.size
    · rcases subarray_spec a b e m h hr.1 hr.2 with ⟨s', h1, _, _, _, h5, _, _, h8, h9, _⟩ | ⟨_, h2, _⟩
      · rw [h1] at hs; cases hs
        have ht : s.triple = a.triple := congrArg Prod.snd h5
        have := destroy_ledger s (a.subarray b e m).2.2 (by rw [ht, h8]; omega)
        rw [ht] at this
        exact ⟨h8, by rw [this.1, h8]; omega, by rw [this.2.1, h9]⟩
      · rw [h2] at hs; cases hs
    · rw [subarray_inert a b e m (by omega)] at hs; cases hs
  · by_cases h0 : 0 < a.size
    · rcases filter_spec a p m h h0 with ⟨s', h1, _, _, _, h5, _, h7, h8, _⟩ | ⟨_, h2, _⟩
      · rw [h1] at hs; cases hs
        have ht : s.triple = a.triple := congrArg Prod.snd h5
        have := destroy_ledger s (a.filter p m).2.2.2 (by rw [ht, h7]; omega)
        rw [ht] at this
        exact ⟨h7, by rw [this.1, h7]; omega, by rw [this.2.1, h8]⟩
      · rw [h2] at hs; cases hs
    · rw [filter_inert a p m (by omega)] at hs; cases hs

/-- **source unchanged / independent** (`_model`): true by construction in a value model, see the
file header; the harness carries the aliasing part -/
theorem independent_model (a s : ArraySized) (ops : List (Spec.SSeq.Op Elem)) (m : Mem) :
    ((a, (s.run ops m).2.1).1 = a) ∧ (((a.run ops m).2.1, s).2 = s) := ⟨rfl, rfl⟩

/-! Non-vacuity: a 2-record array, `subarray 1 1`, then an append to the (exactly full) result. -/
example :
    let a : ArraySized := { dataLen := 1, size := 2, capacity := 2, grow := fun c => 2 * c, buf := [7, 8] }
    let m : Mem := { live := 2 }
    a.Inv ∧ ((a.subarray 1 1 m).2.1.map (·.abs)) = some [[8]] ∧
    ((a.subarray 1 1 m).2.1.map fun s => (s.add [9] (a.subarray 1 1 m).2.2).2.1.abs) = some [[8], [9]] := by decide

end CC.Properties.C15Sized
