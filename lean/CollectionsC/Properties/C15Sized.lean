import CollectionsC.Properties.C01Sized
import CollectionsC.Proofs.ArraySized7
/-! # C15 (sized array part) — derived arrays are exact and independent

Statements only.  `subarray`, `copy`, `filter` return a *new* array value; the source is an
argument that the model functions do not return, so "building never modifies the source" and
"independent afterwards" hold by construction in the value model — they are stated below all the
same; the aliasing question (does the derived array share bytes with the source?) is answered by
the harness, which mutates and destroys either one and re-observes the other. -/
namespace CC.Properties.C15Sized
open CC CC.Gen CC.ArraySized

/-- **exact content**: the selected records in source order; the result satisfies the invariant
and carries the source's element size and growth rule; `copy`/`filter` also its capacity, `subarray`
is exactly full; `filter`'s predicate sees the source's elements first to last -/
theorem derived_content (a : ArraySized) (b e : Nat) (p : List Nat → Bool) (m : Mem) (h : a.Inv) :
    (b ≤ e → e < a.size → ∀ s, (a.subarray b e m).2.1 = some s →
      s.Inv ∧ s.abs = (a.abs.drop b).take (e - b + 1) ∧ s.dataLen = a.dataLen ∧ s.grow = a.grow) ∧
    (∀ s, (a.copy m).2.1 = some s → s.Inv ∧ s.abs = a.abs ∧ s.dataLen = a.dataLen ∧ s.grow = a.grow ∧
      s.capacity = a.capacity) ∧
    (0 < a.size → ∀ s, (a.filter p m).2.2.1 = some s →
      s.Inv ∧ s.abs = a.abs.filter p ∧ s.dataLen = a.dataLen ∧ s.grow = a.grow ∧ (a.filter p m).2.1 = a.abs) :=
  C01Sized.C15_sized_derived a b e p m h

/-- **derived_can_grow**: every derived array is a fully usable array of its own — appending to it
succeeds whenever the allocator grants the request and the size limit is not reached (A3: a full
sub-array used to be unable to grow), and then refines the ideal append -/
theorem derived_can_grow (s : ArraySized) (x : Buf Nat) (m : Mem) (hs : s.Inv) (hx : x.length = s.dataLen)
    (hal : m.alloc.1 = true) (hc : ¬ s.AtLimit) :
    (s.add x m).1 = .ok ∧ (s.add x m).2.1.abs = s.abs ++ [x] := add_ok_of_alloc s x m hs hx hal hc

theorem subarray_can_grow (a s : ArraySized) (b e : Nat) (x : Buf Nat) (m m' : Mem) (h : a.Inv)
    (hb : b ≤ e) (he : e < a.size) (hs : (a.subarray b e m).2.1 = some s)
    (hx : x.length = a.dataLen) (hal : m'.alloc.1 = true) (hc : ¬ s.AtLimit) :
    (s.add x m').1 = .ok ∧ (s.add x m').2.1.abs = (a.abs.drop b).take (e - b + 1) ++ [x] :=
  C01Sized.C15_sized_subarray_grows a s b e x m m' h hb he hs hx hal hc

/-- any history on a derived array refines the ideal sequence started from the selected records -/
theorem derived_history (a s : ArraySized) (m m' : Mem) (h : a.Inv) (hs : (a.copy m).2.1 = some s)
    (ops : List (Spec.SSeq.Op Elem)) (hw : ∀ op ∈ ops, OpWF a.dataLen op) :
    (s.run ops m').1 = (Spec.SSeq.run a.abs ops (s.refusals ops m')).1 ∧
    (s.run ops m').2.1.abs = (Spec.SSeq.run a.abs ops (s.refusals ops m')).2 := by
  obtain ⟨i1, i2, i3, _⟩ := (derived_content a 0 0 (fun _ => true) m h).2.1 s hs
  have := C01Sized.C01_sized s ops m' i1 (by rw [i3]; exact hw)
  rw [i2] at this
  exact ⟨this.1, this.2.1⟩

/-- **source unchanged / independent**: the pair (source, result) after a builder has the source as
its first component, and a history on either component leaves the other component as it is -/
theorem independent (a s : ArraySized) (ops : List (Spec.SSeq.Op Elem)) (m : Mem) :
    ((a, (s.run ops m).2.1).1 = a) ∧ (((a.run ops m).2.1, s).2 = s) := ⟨rfl, rfl⟩

end CC.Properties.C15Sized
