import CollectionsC.Properties.C04
import CollectionsC.Proofs.StableSortUnique
import CollectionsC.Proofs.MergeSortCode
import CollectionsC.Proofs.ListPrograms
/-! # C18 (lists) — sorting yields an ordered permutation; `cc_list_sort_in_place` is stable

Statements and closing proofs (helpers: `Proofs/MergeSort.lean`, `Proofs/DListMore.lean`,
`Proofs/SListMore.lean`).

* `cc_list_sort_in_place` is modelled twice.  **Code level** (`DList.sortInPlaceC`): `split` with
  `l_size = size / 2`, `r_size = size / 2 + size % 2`, the walk to `center`, the two recursive calls,
  and the `for` loop of `merge` statement by statement — the counters `i`, `l`, `r`, the cursors
  `l_part`/`r_part`, the in-out parameters `*left`/`*right`, the relinking `link_behind(l_part, r_part)`
  of a smaller right node (on node positions, every pointer variable renumbered), the four `break`s
  including the special case `i == 0 && size == 2`, and `list->head = l_head; list->tail = r_head`
  at the end of every `split` of two or more nodes.  **Specification level** (`DList.sortInPlace`):
  the node order computed by the functional merge sort `DList.msort` (left run = first `size / 2`
  nodes, `merge` takes the left node while `cmp left right ≤ 0`).
  Proved for **every comparator that is a total preorder** (`CmpPreorder`: `cmp a b ≤ 0 ∨ cmp b a ≤ 0`,
  and `≤ 0` is transitive), every length, duplicates included: the code level equals the
  specification level (`sort_in_place_code_eq`; this uses `r_size ≥ l_size`, without which the
  `r == r_size` break at `i == 0` would leave `*left` stale, and reflexivity of `cmp`, on which the
  loop relies when the left run is used up and both cursors stand on the same node); permutation,
  sortedness, stability, consistent bookkeeping, identity on length ≤ 1.  The code-level model
  threads the ledger `Mem`: every node dereference (`l_part->data`, `r_part->data`, the two
  fast-forward walks of `merge`, the walk to `center` in `split`) is a checked access, and the
  theorem says the allocator state comes back **unchanged** — no fault, no allocator call.
  What stays abstract is the raw `next`/`prev` surgery inside `link_behind` (`Chain.moveBefore`,
  which requires `dst < src`, as holds at its only call site; checked on the heap by the harness
  walker on every run): the "both directions" conjunct is therefore at the level of the model only
  (`sort_in_place_mirror_model`).
* `cc_list_sort` / `cc_slist_sort` (array + `qsort`): `qsort` is the parameter `sortFn`; what is
  proved about the code is that the right elements go out and come back in order, with the
  documented statuses and a balanced ledger; ordered-permutation is then inherited from the
  assumed contract of `sortFn` (trusted base).  The comparator is not a parameter of these two
  models: that the caller's `cmp` reaches `qsort(array, size, sizeof(void*), cmp)` in this argument
  order is trusted (read off `cc_list.c` / `cc_slist.c`), not proved.  The contract is satisfiable:
  `stableSort_meets_spec`. -/
namespace CC.Properties.C18List
open CC CC.Chain
open CC.Spec
open CC.Spec.LSeq (CmpPreorder leOf)

/-- **The C loop computes the functional merge sort.** For every total-preorder comparator and every
list state satisfying the invariant, the code-level model of `cc_list_sort_in_place` (counters,
cursors, relinking, `break`s, `head`/`tail` assignments) ends in exactly the state of the
specification-level model; all theorems below therefore hold for it. -/
theorem sort_in_place_code_eq {cmp : Nat → Nat → Int} (hc : CmpPreorder cmp) (l : Chain) (h : l.Inv) (m : Mem) :
    DList.sortInPlaceC cmp l m = (DList.sortInPlace cmp l, m) :=
  DList.sortInPlaceC_eq hc l h m

/-- **`cc_list_sort_in_place`: ordered permutation, stable, bookkeeping right, no allocation.**
For every total-preorder comparator and every list state satisfying the invariant:
the result satisfies the invariant (so `size` and both ends are consistent, and the two model-level
traversal directions agree), it stays on its allocator triple, its content is a permutation of the old content, no element compares greater than
its successor, and every already-ordered subsequence of the input — in particular every pair of
equal elements — keeps its relative order. -/
theorem sort_in_place_correct {cmp : Nat → Nat → Int} (hc : CmpPreorder cmp) (l : Chain) (h : l.Inv) :
    (DList.sortInPlace cmp l).Inv ∧ (DList.sortInPlace cmp l).triple = l.triple ∧
    (DList.sortInPlace cmp l).abs.Perm l.abs ∧
    (DList.sortInPlace cmp l).abs.Pairwise (fun a b => cmp a b ≤ 0) ∧
    (∀ c : List Nat, c.Sublist l.abs → c.Pairwise (fun a b => cmp a b ≤ 0) → c.Sublist (DList.sortInPlace cmp l).abs) := by
  rw [h.eq, DList.sortInPlace_ofList]
  have e : ∀ c : List Nat, c.Pairwise (fun a b => cmp a b ≤ 0) ↔ c.Pairwise (fun a b => leOf cmp a b = true) := by
    intro c; simp [leOf]
  refine ⟨ofList_inv _, rfl, DList.msort_perm _ _, ?_, ?_⟩
  · rw [ofList_abs, e]; exact DList.msort_sorted hc _ _ (Nat.le_refl _)
  · intro c hs hp
    rw [ofList_abs] at hs ⊢
    exact DList.msort_stable hc _ _ c (Nat.le_refl _) hs ((e c).1 hp)

/-- **Refinement of the reference sort.** Ordered + permutation + stable determines the result
uniquely, so the in-place merge sort computes exactly `Spec.LSeq.stableSort` — the stable insertion
sort that the correspondence check runs as the ideal list's sort (layer L1). -/
theorem sort_in_place_refines {cmp : Nat → Nat → Int} (hc : CmpPreorder cmp) (l : Chain) (h : l.Inv) :
    DList.sortInPlace cmp l = ofList l.triple (LSeq.stableSort cmp l.abs) := by
  rw [h.eq, DList.sortInPlace_ofList, ofList_abs, ofList_triple, DList.msort_eq_stableSort hc]

/-- stability in the usual wording: if `a` stands before `b` in the input and `cmp a b ≤ 0`
(e.g. they compare equal), then `a` stands before `b` in the output -/
theorem sort_in_place_stable_pair {cmp : Nat → Nat → Int} (hc : CmpPreorder cmp) (l : Chain) (h : l.Inv)
    (a b : Nat) (hab : cmp a b ≤ 0) (hs : [a, b].Sublist l.abs) : [a, b].Sublist (DList.sortInPlace cmp l).abs :=
  (sort_in_place_correct hc l h).2.2.2.2 [a, b] hs (by simp [hab])

/-- both traversals are mirrors after the in-place sort — at the level of the model (stored `head`,
`tail`, `size`; the raw `prev` links are not state, see `C04.mirror_model`) … -/
theorem sort_in_place_mirror_model {cmp : Nat → Nat → Int} (hc : CmpPreorder cmp) (l : Chain) (h : l.Inv) :
    (DList.sortInPlace cmp l).backward = (DList.sortInPlace cmp l).forward.reverse :=
  (C04.mirror_model _ (sort_in_place_correct hc l h).1).1

/-- … and in terms of the C observers: after the in-place sort, a complete descending traversal
(`cc_list_diter_next`) yields the reverse of a complete ascending traversal (`cc_list_iter_next`) -/
theorem sort_in_place_traversals_mirror {cmp : Nat → Nat → Int} (hc : CmpPreorder cmp) (l : Chain) (h : l.Inv) (m : Mem) :
    (DList.diterNexts (DList.sortInPlace cmp l) (DList.sortInPlace cmp l).size (DList.diterInit (DList.sortInPlace cmp l)) m).1 =
      (DList.iterNexts (DList.sortInPlace cmp l) (DList.sortInPlace cmp l).size (DList.iterInit (DList.sortInPlace cmp l)) m).1.reverse :=
  (C04.traversals_mirror _ (sort_in_place_correct hc l h).1 m).1

/-- sorting an empty or single-element list changes nothing (the whole physical state), for every
comparator, contract or not -/
theorem sort_in_place_short (cmp : Nat → Nat → Int) (l : Chain) (h : l.size ≤ 1) : DList.sortInPlace cmp l = l := by
  unfold DList.sortInPlace; rw [if_pos (by omega)]

/-- the harness comparators are total preorders (numeric order; order of the key `v % 10`, which
identifies distinguishable elements and so makes stability observable) -/
theorem harness_comparators : CmpPreorder LSeq.cmpNum ∧ CmpPreorder LSeq.cmpKey :=
  ⟨LSeq.cmpNum_preorder, LSeq.cmpKey_preorder⟩

/-- the assumed contract of `qsort` (trusted base): an ordered permutation -/
structure SortFnSpec (cmp : Nat → Nat → Int) (sortFn : List Nat → List Nat) : Prop where
  perm : ∀ l, (sortFn l).Perm l
  sorted : ∀ l, (sortFn l).Pairwise (fun a b => cmp a b ≤ 0)

/-- the contract is satisfiable for every total-preorder comparator: the reference stable sort meets it -/
theorem stableSort_meets_spec {cmp : Nat → Nat → Int} (hc : CmpPreorder cmp) : SortFnSpec cmp (LSeq.stableSort cmp) := by
  refine ⟨fun l => ?_, fun l => ?_⟩
  · rw [← DList.msort_eq_stableSort hc]; exact DList.msort_perm _ _
  · rw [← DList.msort_eq_stableSort hc]
    have := DList.msort_sorted hc l.length l (Nat.le_refl _)
    simpa [leOf] using this

/-- **`cc_list_sort`** (array + `qsort`): an empty list is rejected unchanged; a refused array leaves
the list unchanged with `CC_ERR_ALLOC`; otherwise the content becomes `sortFn content` — an ordered
permutation by the contract of `qsort` — the invariant holds, and the array block is released. -/
theorem dlist_sort_correct {cmp : Nat → Nat → Int} {sortFn : List Nat → List Nat} (hq : SortFnSpec cmp sortFn)
    (l : Chain) (m : Mem) (h : l.Inv) :
    (DList.sort sortFn l m).2.1.Inv ∧ (DList.sort sortFn l m).2.1.triple = l.triple ∧
    (DList.sort sortFn l m).2.2.fault = m.fault ∧
    (∀ t, (DList.sort sortFn l m).2.2.liveT t = m.liveT t) ∧
    (l.abs = [] → DList.sort sortFn l m = (.errInvalidRange, l, m)) ∧
    (l.abs ≠ [] → (m.allocT l.triple).1 = false → (DList.sort sortFn l m).1 = .errAlloc ∧ (DList.sort sortFn l m).2.1 = l) ∧
    (l.abs ≠ [] → (m.allocT l.triple).1 = true → (DList.sort sortFn l m).1 = .ok ∧
      (DList.sort sortFn l m).2.1.abs = sortFn l.abs ∧ (DList.sort sortFn l m).2.1.abs.Perm l.abs ∧
      (DList.sort sortFn l m).2.1.abs.Pairwise (fun a b => cmp a b ≤ 0)) := by
  have hlen : ∀ x, (sortFn x).length = x.length := fun x => (hq.perm x).length_eq
  rw [h.eq, DList.sort_ofList sortFn hlen]
  simp only [ofList_abs, ofList_triple, LSeq.sort]
  by_cases he : l.abs = []
  · simp [he, ofList_inv]
  · by_cases ha : (m.allocT l.triple).1 = true
    · have e1 := Mem.allocT_all_true m l.triple ha
      have e2 := Mem.freeT_all (m.allocT l.triple).2 l.triple (by rw [e1.2.2]; simp)
      simp only [he, ha, false_and, if_false, if_true, Bool.not_false, and_false]
      refine ⟨ofList_inv _, rfl, by rw [e2.1, e1.1], ?_, by simp, by simp, ?_⟩
      · intro t; have := e2.2.2 t; have := e1.2.2 t; omega
      · intro _ _; refine ⟨?_, ?_, ?_, ?_⟩ <;> first | rfl | trivial | exact hq.perm _ | exact hq.sorted _
    · have ha' : (m.allocT l.triple).1 = false := by simpa using ha
      have e1 := Mem.allocT_all_false m l.triple ha'
      simp only [he, ha', false_and, if_false, if_true, Bool.false_eq_true]
      exact ⟨ofList_inv _, rfl, e1.1, e1.2.2, by simp, by simp, by simp⟩

/-- a single-element `CC_List` is sorted through the array like any other: status `CC_OK` (if the
array is granted), the list state is exactly what it was -/
theorem dlist_sort_single {cmp : Nat → Nat → Int} {sortFn : List Nat → List Nat} (hq : SortFnSpec cmp sortFn)
    (l : Chain) (m : Mem) (h : l.Inv) (h1 : l.abs.length = 1) (ha : (m.allocT l.triple).1 = true) :
    (DList.sort sortFn l m).1 = .ok ∧ (DList.sort sortFn l m).2.1 = l := by
  have hne : l.abs ≠ [] := by intro e; rw [e] at h1; cases h1
  obtain ⟨hi, ht, _, _, _, _, hok⟩ := dlist_sort_correct hq l m h
  obtain ⟨s1, s2, s3, _⟩ := hok hne ha
  refine ⟨s1, ?_⟩
  have : sortFn l.abs = l.abs := by
    have hp := hq.perm l.abs
    match hl : l.abs, h1 with
    | [x], _ => rw [hl] at hp; exact List.perm_singleton.mp hp
  exact hi.eq.trans ((by rw [ht, s2, this] : ofList _ _ = ofList l.triple l.abs).trans h.eq.symm)

/-- **`cc_slist_sort`**: a one-element list returns at once; otherwise as for the doubly linked
list, except that an empty list is sorted as a zero-length array (status `CC_OK`). -/
theorem slist_sort_correct {cmp : Nat → Nat → Int} {sortFn : List Nat → List Nat} (hq : SortFnSpec cmp sortFn)
    (l : Chain) (m : Mem) (h : l.Inv) :
    (SList.sort sortFn l m).2.1.Inv ∧ (SList.sort sortFn l m).2.1.triple = l.triple ∧
    (SList.sort sortFn l m).2.2.fault = m.fault ∧
    (∀ t, (SList.sort sortFn l m).2.2.liveT t = m.liveT t) ∧
    (l.abs.length = 1 → SList.sort sortFn l m = (.ok, l, m)) ∧
    (l.abs.length ≠ 1 → (m.allocT l.triple).1 = false → (SList.sort sortFn l m).1 = .errAlloc ∧ (SList.sort sortFn l m).2.1 = l) ∧
    (l.abs.length ≠ 1 → (m.allocT l.triple).1 = true → (SList.sort sortFn l m).1 = .ok ∧
      (SList.sort sortFn l m).2.1.abs = sortFn l.abs ∧ (SList.sort sortFn l m).2.1.abs.Perm l.abs ∧
      (SList.sort sortFn l m).2.1.abs.Pairwise (fun a b => cmp a b ≤ 0)) := by
  have hlen : ∀ x, (sortFn x).length = x.length := fun x => (hq.perm x).length_eq
  rw [h.eq, SList.sort_ofList sortFn hlen]
  simp only [ofList_abs, ofList_triple]
  by_cases he : l.abs.length = 1
  · simp [he, ofList_inv]
  · by_cases ha : (m.allocT l.triple).1 = true
    · have e1 := Mem.allocT_all_true m l.triple ha
      have e2 := Mem.freeT_all (m.allocT l.triple).2 l.triple (by rw [e1.2.2]; simp)
      simp only [he, ha, if_false, if_true]
      refine ⟨ofList_inv _, rfl, by rw [e2.1, e1.1], ?_, by simp, by simp, ?_⟩
      · intro t; have := e2.2.2 t; have := e1.2.2 t; omega
      · intro _ _; refine ⟨?_, ?_, ?_, ?_⟩ <;> first | rfl | trivial | exact hq.perm _ | exact hq.sorted _
    · have ha' : (m.allocT l.triple).1 = false := by simpa using ha
      have e1 := Mem.allocT_all_false m l.triple ha'
      simp only [he, ha', if_false, Bool.false_eq_true]
      exact ⟨ofList_inv _, rfl, e1.1, e1.2.2, by simp, by simp, by simp⟩

/-- an empty `CC_SList` is sorted as a zero-length array: status `CC_OK` (if the array is granted),
the list state is exactly what it was -/
theorem slist_sort_empty {cmp : Nat → Nat → Int} {sortFn : List Nat → List Nat} (hq : SortFnSpec cmp sortFn)
    (l : Chain) (m : Mem) (h : l.Inv) (h0 : l.abs = []) (ha : (m.allocT l.triple).1 = true) :
    (SList.sort sortFn l m).1 = .ok ∧ (SList.sort sortFn l m).2.1 = l := by
  obtain ⟨hi, ht, _, _, _, _, hok⟩ := slist_sort_correct hq l m h
  obtain ⟨s1, s2, _, _⟩ := hok (by rw [h0]; simp) ha
  refine ⟨s1, ?_⟩
  have : sortFn l.abs = l.abs := by
    have hp := hq.perm l.abs
    rw [h0] at hp ⊢; exact List.perm_nil.mp hp |> fun e => e
  exact hi.eq.trans ((by rw [ht, s2, this] : ofList _ _ = ofList l.triple l.abs).trans h.eq.symm)

/-- the summary for the code-level model: the allocator state comes back unchanged (no checked
access faulted — no NULL or stale node was dereferenced —, nothing was allocated or released),
invariant, ordered stable permutation, equal to the reference stable sort of the ideal list -/
theorem sort_in_place_code_correct {cmp : Nat → Nat → Int} (hc : CmpPreorder cmp) (l : Chain) (h : l.Inv) (m : Mem) :
    (DList.sortInPlaceC cmp l m).2 = m ∧
    (DList.sortInPlaceC cmp l m).1.Inv ∧ (DList.sortInPlaceC cmp l m).1 = ofList l.triple (LSeq.stableSort cmp l.abs) ∧
    (DList.sortInPlaceC cmp l m).1.abs.Perm l.abs ∧
    (DList.sortInPlaceC cmp l m).1.abs.Pairwise (fun a b => cmp a b ≤ 0) ∧
    (∀ c : List Nat, c.Sublist l.abs → c.Pairwise (fun a b => cmp a b ≤ 0) → c.Sublist (DList.sortInPlaceC cmp l m).1.abs) := by
  rw [sort_in_place_code_eq hc l h m]
  have := sort_in_place_correct hc l h
  exact ⟨rfl, this.1, sort_in_place_refines hc l h, this.2.2.1, this.2.2.2.1, this.2.2.2.2⟩

/-! ## Non-vacuity: a state with ties under the key comparator; payloads show the stable order -/
example : (ofList .conf [31, 12, 21, 11, 32]).Inv ∧
    (DList.sortInPlace LSeq.cmpKey (ofList .conf [31, 12, 21, 11, 32])).abs = [31, 21, 11, 12, 32] := by
  refine ⟨ofList_inv _, ?_⟩
  simp [DList.sortInPlace, DList.msort, ofList, LSeq.cmpKey, LSeq.cmpNum, List.merge, Chain.abs]

example : ((DList.sortInPlaceC LSeq.cmpKey (ofList .libc [31, 12, 21, 11, 32]) {}).1.abs,
    (DList.sortInPlaceC LSeq.cmpKey (ofList .libc [31, 12, 21, 11, 32]) {}).2.fault) = ([31, 21, 11, 12, 32], false) := by decide

end CC.Properties.C18List
