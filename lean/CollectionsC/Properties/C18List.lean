import CollectionsC.Properties.C04
import CollectionsC.Proofs.StableSortUnique
import CollectionsC.Proofs.MergeSortCode
/-! # C18 (lists) — sorting yields an ordered permutation; `cc_list_sort_in_place` is stable

Statements and closing proofs (helpers: `Proofs/MergeSort.lean`, `Proofs/DListMore.lean`,
`Proofs/SListMore.lean`).

* `cc_list_sort_in_place` is modelled twice.  **Code level** (`DList.sortInPlaceC`): `split` with
  `l_size = size / 2`, `r_size = size / 2 + size % 2`, the walk to `center`, the two recursive calls,
  and the `for` loop of `merge` statement by statement — the counters `i`, `l`, `r`, the cursors
  `l_part`/`r_part`, the in-out parameters `*left`/`*right`, the relinking `link_behind(l_part, r_part)`
  of a smaller right node (on node positions, every pointer variable renumbered), the four `break`s
  including the special case `i == 0 && size == 2`, and `list->head = l_head; list->tail = r_head`
  at the end of every `split` of two or more nodes.  **Specification level** (`DList.sortInPlace`):
  the node order computed by the functional merge sort `DList.msort` (left run = first `size / 2`
  nodes, `merge` takes the left node while `cmp left right ≤ 0`).
  Proved for **every comparator that is a total preorder** (`CmpPreorder`: `cmp a b ≤ 0 ∨ cmp b a ≤ 0`,
  and `≤ 0` is transitive), every length, duplicates included: the code level equals the
  specification level (`sort_in_place_code_eq`; this uses `r_size ≥ l_size`, without which the
  `r == r_size` break at `i == 0` would leave `*left` stale, and reflexivity of `cmp`, on which the
  loop relies when the left run is used up and both cursors stand on the same node); permutation,
  sortedness, stability, consistent bookkeeping, identity on length ≤ 1, no allocator call.
  What stays abstract is the raw `next`/`prev` surgery inside `link_behind` (checked on the heap
  by the harness walker on every run).
* `cc_list_sort` / `cc_slist_sort` (array + `qsort`): `qsort` is the parameter `sortFn`; what is
  proved about the code is that the right elements go out and come back in order, with the
  documented statuses and a balanced ledger; ordered-permutation is then inherited from the
  assumed contract of `sortFn` (trusted base). -/
namespace CC.Properties.C18List
open CC CC.Chain
open CC.Spec
open CC.Spec.LSeq (CmpPreorder leOf)

/-- **The C loop computes the functional merge sort.** For every total-preorder comparator and every
list state satisfying the invariant, the code-level model of `cc_list_sort_in_place` (counters,
cursors, relinking, `break`s, `head`/`tail` assignments) ends in exactly the state of the
specification-level model; all theorems below therefore hold for it. -/
theorem sort_in_place_code_eq {cmp : Nat → Nat → Int} (hc : CmpPreorder cmp) (l : Chain) (h : l.Inv) :
    DList.sortInPlaceC cmp l = DList.sortInPlace cmp l :=
  DList.sortInPlaceC_eq hc l h

/-- **`cc_list_sort_in_place`: ordered permutation, stable, bookkeeping right, no allocation.**
For every total-preorder comparator and every list state satisfying the invariant:
the result satisfies the invariant (so `size`, both ends and both traversal directions are
consistent), its content is a permutation of the old content, no element compares greater than
its successor, and every already-ordered subsequence of the input — in particular every pair of
equal elements — keeps its relative order. -/
theorem sort_in_place_correct {cmp : Nat → Nat → Int} (hc : CmpPreorder cmp) (l : Chain) (h : l.Inv) :
    (DList.sortInPlace cmp l).Inv ∧
    (DList.sortInPlace cmp l).abs.Perm l.abs ∧
    (DList.sortInPlace cmp l).abs.Pairwise (fun a b => cmp a b ≤ 0) ∧
    (∀ c : List Nat, c.Sublist l.abs → c.Pairwise (fun a b => cmp a b ≤ 0) → c.Sublist (DList.sortInPlace cmp l).abs) := by
  rw [h.eq, DList.sortInPlace_ofList]
  have e : ∀ c : List Nat, c.Pairwise (fun a b => cmp a b ≤ 0) ↔ c.Pairwise (fun a b => leOf cmp a b = true) := by
    intro c; simp [leOf]
  refine ⟨ofList_inv _, DList.msort_perm _ _, ?_, ?_⟩
  · rw [ofList_abs, e]; exact DList.msort_sorted hc _ _ (Nat.le_refl _)
  · intro c hs hp
    rw [ofList_abs] at hs ⊢
    exact DList.msort_stable hc _ _ c (Nat.le_refl _) hs ((e c).1 hp)

/-- **Refinement of the reference sort.** Ordered + permutation + stable determines the result
uniquely, so the in-place merge sort computes exactly `Spec.LSeq.stableSort` — the stable insertion
sort that the correspondence check runs as the ideal list's sort (layer L1). -/
theorem sort_in_place_refines {cmp : Nat → Nat → Int} (hc : CmpPreorder cmp) (l : Chain) (h : l.Inv) :
    DList.sortInPlace cmp l = ofList (LSeq.stableSort cmp l.abs) := by
  rw [h.eq, DList.sortInPlace_ofList, ofList_abs, DList.msort_eq_stableSort hc]

/-- stability in the usual wording: if `a` stands before `b` in the input and `cmp a b ≤ 0`
(e.g. they compare equal), then `a` stands before `b` in the output -/
theorem sort_in_place_stable_pair {cmp : Nat → Nat → Int} (hc : CmpPreorder cmp) (l : Chain) (h : l.Inv)
    (a b : Nat) (hab : cmp a b ≤ 0) (hs : [a, b].Sublist l.abs) : [a, b].Sublist (DList.sortInPlace cmp l).abs :=
  (sort_in_place_correct hc l h).2.2.2 [a, b] hs (by simp [hab])

/-- both traversals are mirrors after the in-place sort -/
theorem sort_in_place_mirror {cmp : Nat → Nat → Int} (hc : CmpPreorder cmp) (l : Chain) (h : l.Inv) :
    (DList.sortInPlace cmp l).backward = (DList.sortInPlace cmp l).forward.reverse :=
  (C04.mirror _ (sort_in_place_correct hc l h).1).1

/-- sorting an empty or single-element list changes nothing (the whole physical state), for every
comparator, contract or not -/
theorem sort_in_place_short (cmp : Nat → Nat → Int) (l : Chain) (h : l.size ≤ 1) : DList.sortInPlace cmp l = l := by
  unfold DList.sortInPlace; rw [if_pos (by omega)]

/-- the harness comparators are total preorders (numeric order; order of the key `v % 10`, which
identifies distinguishable elements and so makes stability observable) -/
theorem harness_comparators : CmpPreorder LSeq.cmpNum ∧ CmpPreorder LSeq.cmpKey :=
  ⟨LSeq.cmpNum_preorder, LSeq.cmpKey_preorder⟩

/-- the assumed contract of `qsort` (trusted base): an ordered permutation -/
structure SortFnSpec (cmp : Nat → Nat → Int) (sortFn : List Nat → List Nat) : Prop where
  perm : ∀ l, (sortFn l).Perm l
  sorted : ∀ l, (sortFn l).Pairwise (fun a b => cmp a b ≤ 0)

/-- **`cc_list_sort`** (array + `qsort`): an empty list is rejected unchanged; a refused array leaves
the list unchanged with `CC_ERR_ALLOC`; otherwise the content becomes `sortFn content` — an ordered
permutation by the contract of `qsort` — the invariant holds, and the array block is released. -/
theorem dlist_sort_correct {cmp : Nat → Nat → Int} {sortFn : List Nat → List Nat} (hq : SortFnSpec cmp sortFn)
    (l : Chain) (m : Mem) (h : l.Inv) :
    (DList.sort sortFn l m).2.1.Inv ∧ (DList.sort sortFn l m).2.2.fault = m.fault ∧
    (DList.sort sortFn l m).2.2.live = m.live ∧
    (l.abs = [] → DList.sort sortFn l m = (.errInvalidRange, l, m)) ∧
    (l.abs ≠ [] → m.alloc.1 = false → (DList.sort sortFn l m).1 = .errAlloc ∧ (DList.sort sortFn l m).2.1 = l) ∧
    (l.abs ≠ [] → m.alloc.1 = true → (DList.sort sortFn l m).1 = .ok ∧
      (DList.sort sortFn l m).2.1.abs = sortFn l.abs ∧ (DList.sort sortFn l m).2.1.abs.Perm l.abs ∧
      (DList.sort sortFn l m).2.1.abs.Pairwise (fun a b => cmp a b ≤ 0)) := by
  have hlen : ∀ x, (sortFn x).length = x.length := fun x => (hq.perm x).length_eq
  rw [h.eq, DList.sort_ofList sortFn hlen]
  simp only [ofList_abs, LSeq.sort]
  by_cases he : l.abs = []
  · simp [he, ofList_inv]
  · by_cases ha : m.alloc.1 = true
    · have e1 := Mem.alloc_fst_true m ha
      have e2 := Mem.free_live m.alloc.2 (by omega)
      simp only [he, ha, false_and, if_false, if_true, Bool.not_false, and_false]
      refine ⟨ofList_inv _, by rw [e2.2.1, e1.2.1], by rw [e2.1, e1.1]; omega, by simp, by simp, ?_⟩
      intro _ _; refine ⟨?_, ?_, ?_, ?_⟩ <;> first | rfl | trivial | exact hq.perm _ | exact hq.sorted _
    · have ha' : m.alloc.1 = false := by simpa using ha
      have e1 := Mem.alloc_fst_false m ha'
      simp only [he, ha', false_and, if_false, if_true, Bool.false_eq_true]
      exact ⟨ofList_inv _, e1.2.1, e1.1, by simp, by simp, by simp⟩

/-- **`cc_slist_sort`**: a one-element list returns at once; otherwise as for the doubly linked
list, except that an empty list is sorted as a zero-length array (status `CC_OK`). -/
theorem slist_sort_correct {cmp : Nat → Nat → Int} {sortFn : List Nat → List Nat} (hq : SortFnSpec cmp sortFn)
    (l : Chain) (m : Mem) (h : l.Inv) :
    (SList.sort sortFn l m).2.1.Inv ∧ (SList.sort sortFn l m).2.2.fault = m.fault ∧
    (SList.sort sortFn l m).2.2.live = m.live ∧
    (l.abs.length = 1 → SList.sort sortFn l m = (.ok, l, m)) ∧
    (l.abs.length ≠ 1 → m.alloc.1 = false → (SList.sort sortFn l m).1 = .errAlloc ∧ (SList.sort sortFn l m).2.1 = l) ∧
    (l.abs.length ≠ 1 → m.alloc.1 = true → (SList.sort sortFn l m).1 = .ok ∧
      (SList.sort sortFn l m).2.1.abs = sortFn l.abs ∧ (SList.sort sortFn l m).2.1.abs.Perm l.abs ∧
      (SList.sort sortFn l m).2.1.abs.Pairwise (fun a b => cmp a b ≤ 0)) := by
  have hlen : ∀ x, (sortFn x).length = x.length := fun x => (hq.perm x).length_eq
  rw [h.eq, SList.sort_ofList sortFn hlen]
  simp only [ofList_abs]
  by_cases he : l.abs.length = 1
  · simp [he, ofList_inv]
  · by_cases ha : m.alloc.1 = true
    · have e1 := Mem.alloc_fst_true m ha
      have e2 := Mem.free_live m.alloc.2 (by omega)
      simp only [he, ha, if_false, if_true]
      refine ⟨ofList_inv _, by rw [e2.2.1, e1.2.1], by rw [e2.1, e1.1]; omega, by simp, by simp, ?_⟩
      intro _ _; refine ⟨?_, ?_, ?_, ?_⟩ <;> first | rfl | trivial | exact hq.perm _ | exact hq.sorted _
    · have ha' : m.alloc.1 = false := by simpa using ha
      have e1 := Mem.alloc_fst_false m ha'
      simp only [he, ha', if_false, Bool.false_eq_true]
      exact ⟨ofList_inv _, e1.2.1, e1.1, by simp, by simp, by simp⟩

/-- the summary for the code-level model: invariant, ordered stable permutation, equal to the
reference stable sort of the ideal list -/
theorem sort_in_place_code_correct {cmp : Nat → Nat → Int} (hc : CmpPreorder cmp) (l : Chain) (h : l.Inv) :
    (DList.sortInPlaceC cmp l).Inv ∧ DList.sortInPlaceC cmp l = ofList (LSeq.stableSort cmp l.abs) ∧
    (DList.sortInPlaceC cmp l).abs.Perm l.abs ∧
    (DList.sortInPlaceC cmp l).abs.Pairwise (fun a b => cmp a b ≤ 0) ∧
    (∀ c : List Nat, c.Sublist l.abs → c.Pairwise (fun a b => cmp a b ≤ 0) → c.Sublist (DList.sortInPlaceC cmp l).abs) := by
  rw [sort_in_place_code_eq hc l h]
  have := sort_in_place_correct hc l h
  exact ⟨this.1, sort_in_place_refines hc l h, this.2.1, this.2.2.1, this.2.2.2⟩

/-! ## Non-vacuity: a state with ties under the key comparator; payloads show the stable order -/
example : (ofList [31, 12, 21, 11, 32]).Inv ∧
    (DList.sortInPlace LSeq.cmpKey (ofList [31, 12, 21, 11, 32])).abs = [31, 21, 11, 12, 32] := by
  refine ⟨ofList_inv _, ?_⟩
  simp [DList.sortInPlace, DList.msort, ofList, LSeq.cmpKey, LSeq.cmpNum, List.merge, Chain.abs]

example : (DList.sortInPlaceC LSeq.cmpKey (ofList [31, 12, 21, 11, 32])).abs = [31, 21, 11, 12, 32] := by decide

end CC.Properties.C18List
