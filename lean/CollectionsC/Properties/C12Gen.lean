import CollectionsC.Proofs.StaticPool
import CollectionsC.Generated.FuncsSpool
/-! # C12 — translation validation of the static-pool model

`Generated/FuncsSpool.lean` is re-translated from the current text of `src/memory/cc_static_pool.c` on
every build (`tools/gen_funcs.py`): `struct cc_static_pool_s` as the record `GenF.cc_static_pool_s`
(`size`, the four byte pointers `block`, `high_ptr`, `low_ptr`, `free_ptr` as `GenF.Ptr = Option Nat`
— `none` is NULL, `some a` the address `a` — and the memory they point into as the ghost field `bytes`,
indexed by address, which `memset` writes) and **every function of the file** — `cc_static_pool_new`,
`_malloc`, `_calloc`, `_free`, `_reset`, `_used_bytes`, `_free_bytes` — statement by statement, `size_t`
arithmetic and pointer differences with wrap-around, and with a **`fault` result that is true whenever
the C execution would have had undefined behaviour** (`/ 0`, arithmetic on NULL or past the end of the
memory, `memset` of NULL or outside the memory, use of a NULL object).

This file proves, for each translated function: on **every state that satisfies `StaticPool.Inv`**,
placed at **every base address `b`** (`ofCoreAt b` maps the model's `SPoolCore` — offsets relative to
`low_ptr` — to the generated record with `block = low_ptr = some b` and the memory below `b` padded;
`toCore` back), for every request size and pointer argument and every ledger, the translated function is
**fault-free** and returns what the hand-written model function of `Model/StaticPool.lean` returns: same
pointer (shifted by `b`) / number, same resulting C-visible state, and the model's ledger is unchanged.
`spool_new_agrees` shows that `cc_static_pool_new` establishes such a state at base `data_buf + offset`.
So an edit of the C text changes the generated definition and breaks the theorem about that function at
build time, also where only the absence of undefined behaviour is lost.  The ghost fields of `StaticPool`
(`blocks`, `undo`) have no counterpart in the C text; that the C-visible component of every model function
does not depend on them is `Proofs/StaticPool.lean` (`*_core`), used here. -/
namespace CC.Properties.C12Gen
open CC

/-- the model's C-visible state placed at address `b`: `block = low_ptr = b`, the bytes below `b` are padding -/
def ofCoreAt (b : Nat) (c : SPoolCore) : GenF.cc_static_pool_s :=
  { size := c.size, block := some b, high_ptr := some (b + c.high), low_ptr := some b, free_ptr := some (b + c.free),
    bytes := List.replicate b 0 ++ c.bytes }

/-- generated record ↦ the model's C-visible state: pointers as offsets from `low_ptr`, the memory from
`low_ptr` on -/
def toCore (g : GenF.cc_static_pool_s) : SPoolCore :=
  { size := g.size, free := GenF.pdiff g.free_ptr g.low_ptr, high := GenF.pdiff g.high_ptr g.low_ptr,
    bytes := g.bytes.drop (g.low_ptr.getD 0) }

theorem toCore_ofCoreAt (b : Nat) (c : SPoolCore) : toCore (ofCoreAt b c) = c := by
  cases c; simp [toCore, ofCoreAt, GenF.pdiff, GenF.wsub]

/-- a model pointer (offset from `low_ptr`) as an address -/
def at_ (b : Nat) (p : Option Nat) : GenF.Ptr := p.map (b + ·)

/-- `memset` on the padded memory is the model's `fillBytes` on the region -/
theorem memset_pad (b off n : Nat) (bytes : List Nat) :
    GenF.memsetBytes (List.replicate b 0 ++ bytes) (some (b + off)) 0 n =
      List.replicate b 0 ++ Spec.fillBytes bytes off n 0 := by
  unfold GenF.memsetBytes Spec.fillBytes
  apply List.ext_getElem
  · simp
  · intro j h1 h2
    simp only [List.length_append, List.length_replicate, List.length_map, List.length_range] at h1 h2
    by_cases hj : j < b
    · have : ¬ (b + off ≤ j) := by omega
      simp [hj, this, List.getD_eq_getElem?_getD, List.getElem?_append, List.getElem?_replicate]
    · have hk : j - b < bytes.length := by omega
      have e : (b + off ≤ j ∧ j < b + off + n) ↔ (off ≤ j - b ∧ j - b < off + n) := by omega
      simp [List.getElem_append, hj, e, List.getD_eq_getElem?_getD, List.getElem?_append, hk]

/-- `cc_static_pool_new`: with a non-NULL `pool_alloc` and a data buffer at address `d` whose memory from
`d + offset` on holds `bytes`, whatever `pool_alloc` contained before (`u`), the call is fault-free, returns
`CC_OK` and produces the model's fresh pool placed at `d + offset` -/
theorem spool_new_agrees (size offset d : Nat) (pa : GenF.Ptr) (hpa : pa ≠ none) (u : GenF.cc_static_pool_s)
    (bytes : List Nat) (hu : u.bytes = List.replicate (d + offset) 0 ++ bytes) :
    GenF.cc_static_pool_new size offset (some d) pa u =
      (Stat.ok.code, some { ofCoreAt (d + offset) (SPoolCore.new size bytes) with id_ := u.id_ }, false) := by
  have hok : Stat.ok.code = 0 := by decide
  unfold GenF.cc_static_pool_new ofCoreAt SPoolCore.new
  simp [hpa, hu, hok, GenF.padd, GenF.paddOk]

/-- `cc_static_pool_malloc` on the C-visible state (needs only `free ≤ size = |bytes|`) -/
theorem core_malloc_agrees (b : Nat) (c : SPoolCore) (n : Nat) (h1 : c.free ≤ c.size) (h3 : c.bytes.length = c.size) :
    GenF.cc_static_pool_malloc n (ofCoreAt b c) = (at_ b (c.malloc n).1, ofCoreAt b (c.malloc n).2, false) := by
  unfold GenF.cc_static_pool_malloc SPoolCore.malloc ofCoreAt at_
  have e : GenF.wsub c.size (GenF.pdiff (some (b + c.free)) (some b)) = c.size - c.free := by
    simp [GenF.pdiff, GenF.wsub]; omega
  by_cases g : n > c.size - c.free
  · simp [e, g, GenF.pdiffOk]
  · have : c.free + n ≤ c.bytes.length := by omega
    simp [e, g, GenF.padd, GenF.paddOk, GenF.pdiffOk, this, Nat.add_assoc]

/-- `cc_static_pool_malloc`: fault-free, returned pointer and state -/
theorem spool_malloc_agrees (b : Nat) (s : StaticPool) (n : Nat) (h : s.Inv) :
    GenF.cc_static_pool_malloc n (ofCoreAt b s.core) = (at_ b (s.malloc n).1, ofCoreAt b (s.malloc n).2.core, false) ∧
    toCore (GenF.cc_static_pool_malloc n (ofCoreAt b s.core)).2.1 = (s.malloc n).2.core := by
  obtain ⟨c1, c2⟩ := StaticPool.malloc_core s n
  rw [c1, c2, core_malloc_agrees b s.core n h.1 h.2.2.1]
  exact ⟨rfl, toCore_ofCoreAt _ _⟩

/-- `cc_static_pool_calloc` on the C-visible state -/
theorem core_calloc_agrees (b : Nat) (c : SPoolCore) (count sz : Nat) (m : Mem) (h1 : c.free ≤ c.size)
    (h3 : c.bytes.length = c.size) :
    GenF.cc_static_pool_calloc count sz (ofCoreAt b c) =
      (at_ b (c.calloc count sz m).1, ofCoreAt b (c.calloc count sz m).2.1, false) := by
  unfold GenF.cc_static_pool_calloc SPoolCore.calloc
  have en : GenF.wmul count sz = count * sz % sizeMod := rfl
  dsimp only
  rw [core_malloc_agrees b c _ h1 h3, en]
  generalize count * sz % sizeMod = n
  by_cases g : mulOverflows count sz = true
  · have g' : ¬ sz = 0 ∧ 18446744073709551615 / sz < count := by simpa [mulOverflows, sizeMod] using g
    simp [g, g', at_]
  · have g' : ¬ sz = 0 → count ≤ 18446744073709551615 / sz := by simpa [mulOverflows, sizeMod] using g
    have g2 : ¬ (¬ sz = 0 ∧ 18446744073709551615 / sz < count) := by
      intro ⟨a, c⟩; have := g' a; omega
    unfold SPoolCore.malloc
    by_cases f : n > c.size - c.free
    · simp [g, g2, f, at_]
    · have : c.free + n ≤ c.bytes.length := by omega
      simp [g, g2, f, at_, ofCoreAt, memset_pad, GenF.memsetOk, this, Nat.add_assoc]

/-- `cc_static_pool_calloc`: fault-free, returned pointer, state (the zeroed bytes included), ledger -/
theorem spool_calloc_agrees (b : Nat) (s : StaticPool) (count sz : Nat) (m : Mem) (h : s.Inv) :
    GenF.cc_static_pool_calloc count sz (ofCoreAt b s.core) =
      (at_ b (s.calloc count sz m).1, ofCoreAt b (s.calloc count sz m).2.1.core, false) ∧
    toCore (GenF.cc_static_pool_calloc count sz (ofCoreAt b s.core)).2.1 = (s.calloc count sz m).2.1.core ∧
    (s.calloc count sz m).2.2 = m := by
  have hm := StaticPool.calloc_nofault s count sz m h
  obtain ⟨c1, c2, _⟩ := StaticPool.calloc_core s count sz m
  rw [c1, c2, core_calloc_agrees b s.core count sz m h.1 h.2.2.1]
  exact ⟨rfl, toCore_ofCoreAt _ _, hm⟩

/-- `cc_static_pool_free`, for every pointer argument (NULL included) -/
theorem spool_free_agrees (b : Nat) (s : StaticPool) (p : Option Nat) :
    GenF.cc_static_pool_free (at_ b p) (ofCoreAt b s.core) = ofCoreAt b (s.release p).core ∧
    toCore (GenF.cc_static_pool_free (at_ b p) (ofCoreAt b s.core)) = (s.release p).core := by
  rw [StaticPool.release_core]
  have key : GenF.cc_static_pool_free (at_ b p) (ofCoreAt b s.core) = ofCoreAt b (s.core.release p) := by
    unfold GenF.cc_static_pool_free SPoolCore.release ofCoreAt at_
    cases p with
    | none => simp
    | some a => by_cases c : a = s.core.high <;> simp [c]
  rw [key]
  exact ⟨rfl, toCore_ofCoreAt _ _⟩

/-- `cc_static_pool_reset` -/
theorem spool_reset_agrees (b : Nat) (s : StaticPool) :
    GenF.cc_static_pool_reset (ofCoreAt b s.core) = ofCoreAt b s.reset.core ∧
    toCore (GenF.cc_static_pool_reset (ofCoreAt b s.core)) = s.reset.core := by
  have key : GenF.cc_static_pool_reset (ofCoreAt b s.core) = ofCoreAt b s.reset.core := by
    simp [GenF.cc_static_pool_reset, ofCoreAt, StaticPool.reset, SPoolCore.reset]
  rw [key]
  exact ⟨rfl, toCore_ofCoreAt _ _⟩

/-- `cc_static_pool_used_bytes`: fault-free -/
theorem spool_used_bytes_agrees (b : Nat) (s : StaticPool) :
    GenF.cc_static_pool_used_bytes (ofCoreAt b s.core) = (s.core.usedBytes, false) := by
  simp [GenF.cc_static_pool_used_bytes, ofCoreAt, SPoolCore.usedBytes, GenF.pdiff, GenF.pdiffOk, GenF.wsub]

/-- `cc_static_pool_free_bytes`: fault-free (under the invariant `free ≤ size` the subtraction does not wrap) -/
theorem spool_free_bytes_agrees (b : Nat) (s : StaticPool) (h : s.Inv) :
    GenF.cc_static_pool_free_bytes (ofCoreAt b s.core) = (s.core.freeBytes, false) := by
  obtain ⟨h1, _⟩ := h
  simp [GenF.cc_static_pool_free_bytes, ofCoreAt, SPoolCore.freeBytes, GenF.pdiff, GenF.pdiffOk, GenF.wsub]
  omega

/-- the hypotheses are satisfiable by a non-trivial state: an 8-byte pool at address 2 with one live 3-byte
block; the translated `calloc(2, 2)` returns address 5, zeroes bytes 5 to 8 and does not fault, `malloc(6)`
does not fit; on a state that violates the invariant (memory shorter than `size`) `calloc` *does* fault -/
example :
    let s : StaticPool := { core := { size := 8, free := 3, high := 0, bytes := [1, 1, 1, 1, 1, 1, 1, 1] },
                            blocks := [(0, 3)], undo := true }
    s.Inv ∧
    (GenF.cc_static_pool_calloc 2 2 (ofCoreAt 2 s.core)).1 = some 5 ∧
    (GenF.cc_static_pool_calloc 2 2 (ofCoreAt 2 s.core)).2.1.bytes = [0, 0, 1, 1, 1, 0, 0, 0, 0, 1] ∧
    (GenF.cc_static_pool_calloc 2 2 (ofCoreAt 2 s.core)).2.2 = false ∧
    (GenF.cc_static_pool_malloc 6 (ofCoreAt 2 s.core)).1 = none ∧
    GenF.cc_static_pool_free_bytes (ofCoreAt 2 s.core) = (5, false) ∧
    (GenF.cc_static_pool_calloc 2 2 (ofCoreAt 2 { s.core with bytes := [1, 1, 1] })).2.2 = true := by decide

end CC.Properties.C12Gen
