import CollectionsC.Proofs.StaticPool
import CollectionsC.Generated.Funcs
/-! # C12 — translation validation of the static-pool model

`Generated/Funcs.lean` is re-translated from the current text of `src/memory/cc_static_pool.c` on
every build (`tools/gen_funcs.py`): `struct cc_static_pool_s` as the record `GenF.cc_static_pool_s`
(`size`, the four byte pointers `block`, `high_ptr`, `low_ptr`, `free_ptr` as `GenF.Ptr = Option Nat`
— `none` is NULL, `some k` is `k` bytes above the start of the region — and the region itself as the
ghost field `bytes`, which `memset` writes) and `cc_static_pool_malloc`, `_calloc`, `_free`, `_reset`,
`_used_bytes`, `_free_bytes` as functions on that record, statement by statement, `size_t` arithmetic
and pointer differences with wrap-around.

This file proves that each translated function agrees with the hand-written model function of
`Model/StaticPool.lean` on **every state that satisfies `StaticPool.Inv`**, every request size and
pointer argument, every ledger: same returned pointer / number, same resulting C-visible state
(`ofCore` maps the model's `SPoolCore` — offsets relative to `low_ptr` — to the generated record with
`block = low_ptr = some 0`; `toCore` back), and the model's ledger is returned unchanged.  So an edit of
the C text changes the generated definition and breaks the theorem about that function at build time.
The ghost fields of `StaticPool` (`blocks`, `undo`) have no counterpart in the C text; that the
C-visible component of every model function does not depend on them is `Proofs/StaticPool.lean`
(`*_core`), used here. -/
namespace CC.Properties.C12Gen
open CC

/-- the model's C-visible state ↦ generated record: `block = low_ptr` is the start of the region -/
def ofCore (c : SPoolCore) : GenF.cc_static_pool_s :=
  { size := c.size, block := some 0, high_ptr := some c.high, low_ptr := some 0, free_ptr := some c.free,
    bytes := c.bytes }

/-- generated record ↦ the model's C-visible state: pointers as offsets from `low_ptr` -/
def toCore (g : GenF.cc_static_pool_s) : SPoolCore :=
  { size := g.size, free := GenF.pdiff g.free_ptr g.low_ptr, high := GenF.pdiff g.high_ptr g.low_ptr,
    bytes := g.bytes }

theorem toCore_ofCore (c : SPoolCore) : toCore (ofCore c) = c := by
  cases c; simp [toCore, ofCore, GenF.pdiff, GenF.wsub]

/-- `cc_static_pool_malloc` on the C-visible state (needs only `free ≤ size`) -/
theorem core_malloc_agrees (c : SPoolCore) (n : Nat) (h1 : c.free ≤ c.size) :
    GenF.cc_static_pool_malloc n (ofCore c) = ((c.malloc n).1, ofCore (c.malloc n).2) := by
  unfold GenF.cc_static_pool_malloc SPoolCore.malloc ofCore
  have e : GenF.wsub c.size (GenF.pdiff (some c.free) (some 0)) = c.size - c.free := by
    simp [GenF.pdiff, GenF.wsub]; omega
  by_cases g : n > c.size - c.free <;> simp [e, g, GenF.padd]

/-- `cc_static_pool_malloc`: returned pointer and state -/
theorem spool_malloc_agrees (s : StaticPool) (n : Nat) (h : s.Inv) :
    (GenF.cc_static_pool_malloc n (ofCore s.core)).1 = (s.malloc n).1 ∧
    (GenF.cc_static_pool_malloc n (ofCore s.core)).2 = ofCore (s.malloc n).2.core ∧
    toCore (GenF.cc_static_pool_malloc n (ofCore s.core)).2 = (s.malloc n).2.core := by
  obtain ⟨c1, c2⟩ := StaticPool.malloc_core s n
  rw [c1, c2, core_malloc_agrees s.core n h.1]
  exact ⟨rfl, rfl, toCore_ofCore _⟩

/-- `cc_static_pool_calloc` on the C-visible state -/
theorem core_calloc_agrees (c : SPoolCore) (count sz : Nat) (m : Mem) (h1 : c.free ≤ c.size) :
    GenF.cc_static_pool_calloc count sz (ofCore c) = ((c.calloc count sz m).1, ofCore (c.calloc count sz m).2.1) := by
  unfold GenF.cc_static_pool_calloc SPoolCore.calloc
  have en : GenF.wmul count sz = count * sz % sizeMod := rfl
  dsimp only
  rw [core_malloc_agrees c _ h1, en]
  generalize count * sz % sizeMod = n
  by_cases g : mulOverflows count sz = true
  · have g' : ¬ sz = 0 ∧ 18446744073709551615 / sz < count := by simpa [mulOverflows, sizeMod] using g
    simp [g, g']
  · have g' : ¬ sz = 0 → count ≤ 18446744073709551615 / sz := by simpa [mulOverflows, sizeMod] using g
    unfold SPoolCore.malloc
    by_cases f : n > c.size - c.free
    · simp [g, f] <;> exact g'
    · simp [g, f, ofCore, GenF.memsetBytes, Spec.fillBytes] <;> exact g'

/-- `cc_static_pool_calloc`: returned pointer, state (the zeroed bytes included), ledger -/
theorem spool_calloc_agrees (s : StaticPool) (count sz : Nat) (m : Mem) (h : s.Inv) :
    (GenF.cc_static_pool_calloc count sz (ofCore s.core)).1 = (s.calloc count sz m).1 ∧
    (GenF.cc_static_pool_calloc count sz (ofCore s.core)).2 = ofCore (s.calloc count sz m).2.1.core ∧
    toCore (GenF.cc_static_pool_calloc count sz (ofCore s.core)).2 = (s.calloc count sz m).2.1.core ∧
    (s.calloc count sz m).2.2 = m := by
  have hm := StaticPool.calloc_nofault s count sz m h
  obtain ⟨c1, c2, _⟩ := StaticPool.calloc_core s count sz m
  rw [c1, c2, core_calloc_agrees s.core count sz m h.1]
  exact ⟨rfl, rfl, toCore_ofCore _, hm⟩

/-- `cc_static_pool_free`, for every pointer argument (NULL included) -/
theorem spool_free_agrees (s : StaticPool) (p : Option Nat) :
    GenF.cc_static_pool_free p (ofCore s.core) = ofCore (s.release p).core ∧
    toCore (GenF.cc_static_pool_free p (ofCore s.core)) = (s.release p).core := by
  rw [StaticPool.release_core]
  have key : GenF.cc_static_pool_free p (ofCore s.core) = ofCore (s.core.release p) := by
    unfold GenF.cc_static_pool_free SPoolCore.release ofCore
    by_cases c : p = some s.core.high <;> simp [c]
  rw [key]
  exact ⟨rfl, toCore_ofCore _⟩

/-- `cc_static_pool_reset` -/
theorem spool_reset_agrees (s : StaticPool) :
    GenF.cc_static_pool_reset (ofCore s.core) = ofCore s.reset.core ∧
    toCore (GenF.cc_static_pool_reset (ofCore s.core)) = s.reset.core := by
  have key : GenF.cc_static_pool_reset (ofCore s.core) = ofCore s.reset.core := rfl
  rw [key]
  exact ⟨rfl, toCore_ofCore _⟩

/-- `cc_static_pool_used_bytes` -/
theorem spool_used_bytes_agrees (s : StaticPool) :
    GenF.cc_static_pool_used_bytes (ofCore s.core) = s.core.usedBytes := by
  simp [GenF.cc_static_pool_used_bytes, ofCore, SPoolCore.usedBytes, GenF.pdiff, GenF.wsub]

/-- `cc_static_pool_free_bytes` (under the invariant `free ≤ size`, so that the subtraction does not wrap) -/
theorem spool_free_bytes_agrees (s : StaticPool) (h : s.Inv) :
    GenF.cc_static_pool_free_bytes (ofCore s.core) = s.core.freeBytes := by
  obtain ⟨h1, _⟩ := h
  simp [GenF.cc_static_pool_free_bytes, ofCore, SPoolCore.freeBytes, GenF.pdiff, GenF.wsub]
  omega

/-- the hypotheses are satisfiable by a non-trivial state: an 8-byte pool with one live 3-byte block;
the translated `calloc(2, 2)` returns offset 3 and zeroes bytes 3 to 6, `malloc(6)` does not fit -/
example :
    let s : StaticPool := { core := { size := 8, free := 3, high := 0, bytes := [1, 1, 1, 1, 1, 1, 1, 1] },
                            blocks := [(0, 3)], undo := true }
    s.Inv ∧
    (GenF.cc_static_pool_calloc 2 2 (ofCore s.core)).1 = some 3 ∧
    (GenF.cc_static_pool_calloc 2 2 (ofCore s.core)).2.bytes = [1, 1, 1, 0, 0, 0, 0, 1] ∧
    (GenF.cc_static_pool_malloc 6 (ofCore s.core)).1 = none ∧
    GenF.cc_static_pool_free_bytes (ofCore s.core) = 5 := by decide

end CC.Properties.C12Gen
