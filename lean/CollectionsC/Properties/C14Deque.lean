import CollectionsC.Properties.C06Deque
import CollectionsC.Proofs.DequeIndep
/-! # C14 (deque part) — only the allocator triple the deque was given

The model is triple-aware: a deque stores the triple copied from its configuration (`Deque.triple`:
`.conf` for `cc_deque_new_conf` with the caller's `mem_alloc/mem_calloc/mem_free`, `.libc` for
`cc_deque_new`) and every allocation and release of the model goes through `Mem.allocT d.triple` /
`Mem.freeT d.triple`, exactly where the C code calls `deque->mem_alloc/mem_calloc/mem_free`; the builders
copy the triple where the C code copies the three function pointers (`copy->mem_alloc = deque->mem_alloc`,
`conf.mem_alloc = deque->mem_alloc` in `cc_deque_filter` — defect D10 was a call of the default constructor
there, which in this model would be `.libc`).  The ledger counts C-library events separately
(`libc`, `lalloc`, `lfree`, `liveLibc`), so the statements below are falsifiable: a model function that used
the wrong triple would change the other side of the ledger.  That the C code agrees with the model is the
correspondence check (`libc=a0 f0 llive=0` on every line of a conf session, and the mirror image for
`new_default` sessions). -/
namespace CC.Properties.C14Deque
open CC CC.Properties.C05

/-- **conf_uses_only_conf**: a deque on the configured triple never causes a C-library event — no
allocation, no release, no block owned there — in any operation -/
theorem conf_uses_only_conf (d : Deque) (m : Mem) (op : Op) (hi : d.Inv) (ht : d.triple = .conf) :
    (stepM d m op).2.2.libc = m.libc ∧ (stepM d m op).2.2.lalloc = m.lalloc ∧
    (stepM d m op).2.2.lfree = m.lfree ∧ (stepM d m op).2.2.liveLibc = m.liveLibc := by
  have h := (C06Deque.step_safe d m op hi).2.1.2.2.2
  rw [ht] at h
  exact h

/-- **default_uses_only_libc**: a deque on the C library triple never touches the configured allocator —
`live`, `nalloc`, `nfree`, the refusal counter and the schedule are unchanged — and therefore no refusal is
possible: it is never blocked below the capacity limit -/
theorem default_uses_only_libc (d : Deque) (m : Mem) (op : Op) (hi : d.Inv) (ht : d.triple = .libc) :
    ((stepM d m op).2.2.live = m.live ∧ (stepM d m op).2.2.nalloc = m.nalloc ∧
      (stepM d m op).2.2.nfree = m.nfree ∧ (stepM d m op).2.2.nrefused = m.nrefused ∧
      (stepM d m op).2.2.sched = m.sched) ∧
    (d.cap ≠ Gen.MAX_POW_TWO → blocked d m op = false) := by
  have h := (C06Deque.step_safe d m op hi).2.1.2.2.2
  rw [ht] at h
  refine ⟨h, fun hc => ?_⟩
  cases hb : blocked d m op
  · rfl
  · exfalso
    obtain ⟨_, h2⟩ := (blocked_iff d m op hi).mp hb
    rcases h2 with h2 | h2
    · cases op <;> simp [refusalFires, ht, Mem.allocT] at h2
    · cases op <;> first | exact hc h2 | exact h2.elim

/-- both, for whole histories (any arguments, any schedule) -/
theorem history_uses_only_own_triple (ops : List Op) (d : Deque) (m : Mem) (hi : d.Inv) :
    (d.triple = .conf → (runM d m ops).2.2.libc = m.libc ∧ (runM d m ops).2.2.lalloc = m.lalloc ∧
      (runM d m ops).2.2.lfree = m.lfree ∧ (runM d m ops).2.2.liveLibc = m.liveLibc) ∧
    (d.triple = .libc → (runM d m ops).2.2.live = m.live ∧ (runM d m ops).2.2.nalloc = m.nalloc ∧
      (runM d m ops).2.2.nfree = m.nfree ∧ (runM d m ops).2.2.nrefused = m.nrefused ∧
      (runM d m ops).2.2.sched = m.sched) := by
  have h := (C06Deque.history_nofault ops d m hi).2.1.2.2.2
  exact ⟨fun ht => by rw [ht] at h; exact h, fun ht => by rw [ht] at h; exact h⟩

/-- **derived_inherits_triple**: constructor, copies and filter results carry the triple they were given /
the source's triple, allocate their two blocks through it and nothing through the other one; an operation
never changes a deque's triple -/
theorem derived_inherits_triple (d : Deque) (confCap : Nat) (t : Triple) (cp : Option (Nat → Nat)) (p : Nat → Bool)
    (m : Mem) (hi : d.Inv) :
    (∀ c, (Deque.new confCap t m).2.1 = some c → c.triple = t) ∧
    Deque.otherSideSame t (Deque.new confCap t m).2.2 m ∧
    (∀ c, (d.copy cp m).2.1 = some c → c.triple = d.triple) ∧
    Deque.otherSideSame d.triple (d.copy cp m).2.2 m ∧
    (∀ c, (d.filter p m).2.1 = some c → c.triple = d.triple) ∧
    Deque.otherSideSame d.triple (d.filter p m).2.2 m ∧
    (∀ op, (stepM d m op).2.1.triple = d.triple) := by
  obtain ⟨b1, b2, b3⟩ := C06Deque.builders_ledger d confCap t cp p m hi
  refine ⟨?_, ?_, ?_, ?_, ?_, ?_, fun op => step_triple d m op⟩
  · intro c hc
    rcases b1 with ⟨c', e, _, h, _⟩ | ⟨e, _⟩
    · rw [e] at hc; cases hc; exact h
    · rw [e] at hc; cases hc
  · rcases b1 with ⟨_, _, _, _, h⟩ | ⟨_, h⟩
    · exact h.2.2.2
    · exact h.2.2.2
  · intro c hc
    rcases b2 with ⟨c', e, _, h, _⟩ | ⟨e, _⟩
    · rw [e] at hc; cases hc; exact h
    · rw [e] at hc; cases hc
  · rcases b2 with ⟨_, _, _, _, h⟩ | ⟨_, h⟩
    · exact h.2.2.2
    · exact h.2.2.2
  · intro c hc
    rcases b3 with ⟨c', e, _, h, _⟩ | ⟨e, _⟩
    · rw [e] at hc; cases hc; exact h
    · rw [e] at hc; cases hc
  · rcases b3 with ⟨_, _, _, _, h⟩ | ⟨_, h⟩
    · exact h.2.2.2
    · exact h.2.2.2

/-- destructor and iterator insertions: through the deque's own triple; zip insertion over two deques:
each grows on its own triple, so a side of the ledger neither deque uses stays untouched -/
theorem destroy_and_iterators_own_triple (d d2 : Deque) (it : Deque.Iter) (x y : Nat) (m : Mem) (hi : d.Inv)
    (h2 : d2.Inv) (hlive : 2 ≤ Deque.liveOf d.triple m) :
    Deque.otherSideSame d.triple (d.destroy m) m ∧
    Deque.otherSideSame d.triple (Deque.iterAdd it d x m).2.2.2 m ∧
    (d.triple = .conf → d2.triple = .conf → Deque.otherSideSame .conf (Deque.zipAdd it d d2 x y m).2.2.2.2 m) ∧
    (d.triple = .libc → d2.triple = .libc → Deque.otherSideSame .libc (Deque.zipAdd it d d2 x y m).2.2.2.2 m) :=
  ⟨(Deque.destroy_ledger d m hlive).2.2.2, (Deque.iterAdd_safe it d x m hi).2.1.2.2.2,
    (Deque.zipAdd_safe it d d2 x y m hi h2).2.2.1.2.1, (Deque.zipAdd_safe it d d2 x y m hi h2).2.2.1.2.2⟩

/-- **allocator_independent**, one step: two ledgers with the same refusal schedule give the same status,
the same out-value, the same physical state and again equal schedules (no invariant needed) -/
theorem step_allocator_independent (d : Deque) (m m' : Mem) (op : Op) (h : m.sched = m'.sched) :
    (stepM d m op).1 = (stepM d m' op).1 ∧ (stepM d m op).2.1 = (stepM d m' op).2.1 ∧
    (stepM d m op).2.2.sched = (stepM d m' op).2.2.sched := by
  cases op with
  | addFirst x => obtain ⟨a, b, c⟩ := Deque.addFirst_indep d x m m' h; simp only [stepM, a, b]; exact ⟨trivial, trivial, c⟩
  | addLast x => obtain ⟨a, b, c⟩ := Deque.addLast_indep d x m m' h; simp only [stepM, a, b]; exact ⟨trivial, trivial, c⟩
  | addAt x i => obtain ⟨a, b, c⟩ := Deque.addAt_indep d x i m m' h; simp only [stepM, a, b]; exact ⟨trivial, trivial, c⟩
  | replaceAt x i =>
    obtain ⟨a, b, c, e⟩ := Deque.replaceAt_indep d x i m m' h; simp only [stepM, a, b, c]; exact ⟨trivial, trivial, e⟩
  | removeAt i =>
    obtain ⟨a, b, c, e⟩ := Deque.removeAt_indep d i m m' h; simp only [stepM, a, b, c]; exact ⟨trivial, trivial, e⟩
  | removeFirst =>
    obtain ⟨a, b, c, e⟩ := Deque.removeFirst_indep d m m' h; simp only [stepM, a, b, c]; exact ⟨trivial, trivial, e⟩
  | removeLast =>
    obtain ⟨a, b, c, e⟩ := Deque.removeLast_indep d m m' h; simp only [stepM, a, b, c]; exact ⟨trivial, trivial, e⟩
  | remove x =>
    obtain ⟨a, b, c, e⟩ := Deque.remove_indep d x m m' h; simp only [stepM, a, b, c]; exact ⟨trivial, trivial, e⟩
  | removeAll => exact ⟨rfl, rfl, h⟩
  | getAt i =>
    obtain ⟨⟨a, b, c⟩, _⟩ := Deque.getters_indep d i 0 (fun _ _ => true) m m' h
    simp only [stepM, a, b]; exact ⟨trivial, trivial, c⟩
  | getFirst =>
    obtain ⟨_, ⟨a, b, c⟩, _⟩ := Deque.getters_indep d 0 0 (fun _ _ => true) m m' h
    simp only [stepM, a, b]; exact ⟨trivial, trivial, c⟩
  | getLast =>
    obtain ⟨_, _, ⟨a, b, c⟩, _⟩ := Deque.getters_indep d 0 0 (fun _ _ => true) m m' h
    simp only [stepM, a, b]; exact ⟨trivial, trivial, c⟩
  | reverse => obtain ⟨a, b⟩ := Deque.reverse_indep d m m' h; simp only [stepM, a]; exact ⟨trivial, trivial, b⟩
  | filterMut p =>
    obtain ⟨a, b, c⟩ := Deque.filterMut_indep d p m m' h; simp only [stepM, a, b]; exact ⟨trivial, trivial, c⟩
  | trim => obtain ⟨a, b, c⟩ := Deque.trimCapacity_indep d m m' h; simp only [stepM, a, b]; exact ⟨trivial, trivial, c⟩
  | contains x =>
    obtain ⟨_, _, _, ⟨a, b⟩, _⟩ := Deque.getters_indep d 0 x (fun _ _ => true) m m' h
    simp only [stepM, a]; exact ⟨trivial, trivial, b⟩
  | indexOf x =>
    obtain ⟨a, b, c⟩ := Deque.indexOf_indep d x m m' h; simp only [stepM, a, b]; exact ⟨trivial, trivial, c⟩
  | size => exact ⟨rfl, rfl, h⟩
  | foreach =>
    obtain ⟨_, _, _, _, _, ⟨a, b⟩⟩ := Deque.getters_indep d 0 0 (fun _ _ => true) m m' h
    simp only [stepM, a]; exact ⟨trivial, trivial, b⟩
  | copySwap cp =>
    obtain ⟨a, b, c⟩ := Deque.copy_indep d cp m m' h
    simp only [stepM, a, b]
    split
    · exact ⟨rfl, rfl, by unfold Deque.destroy; exact Deque.free_congr _ (Deque.free_congr _ c)⟩
    · exact ⟨rfl, rfl, c⟩

/-- **allocator_independent**, histories: the whole output sequence and the final physical state are the
same on any two ledgers with the same refusal schedule — e.g. the counting allocator and a pool that is
large enough never to refuse -/
theorem history_allocator_independent (ops : List Op) (d : Deque) (m m' : Mem) (h : m.sched = m'.sched) :
    (runM d m ops).1 = (runM d m' ops).1 ∧ (runM d m ops).2.1 = (runM d m' ops).2.1 := by
  induction ops generalizing d m m' with
  | nil => exact ⟨rfl, rfl⟩
  | cons op ops ih =>
    obtain ⟨s1, s2, s3⟩ := step_allocator_independent d m m' op h
    simp only [runM]
    rw [s1, s2]
    obtain ⟨r1, r2⟩ := ih (stepM d m' op).2.1 _ _ s3
    exact ⟨by rw [r1], r2⟩

/-- the same for the constructor, the builders and the iterator operations -/
theorem builders_allocator_independent (d d2 : Deque) (it : Deque.Iter) (confCap x y : Nat) (t : Triple)
    (cp : Option (Nat → Nat)) (p : Nat → Bool) (m m' : Mem) (h : m.sched = m'.sched) :
    ((Deque.new confCap t m).1 = (Deque.new confCap t m').1 ∧ (Deque.new confCap t m).2.1 = (Deque.new confCap t m').2.1) ∧
    ((d.copy cp m).1 = (d.copy cp m').1 ∧ (d.copy cp m).2.1 = (d.copy cp m').2.1) ∧
    ((d.filter p m).1 = (d.filter p m').1 ∧ (d.filter p m).2.1 = (d.filter p m').2.1) ∧
    ((Deque.iterAdd it d x m).1 = (Deque.iterAdd it d x m').1 ∧ (Deque.iterAdd it d x m).2.1 = (Deque.iterAdd it d x m').2.1 ∧
      (Deque.iterAdd it d x m).2.2.1 = (Deque.iterAdd it d x m').2.2.1) ∧
    ((Deque.zipAdd it d d2 x y m).1 = (Deque.zipAdd it d d2 x y m').1 ∧
      (Deque.zipAdd it d d2 x y m).2.2.1 = (Deque.zipAdd it d d2 x y m').2.2.1 ∧
      (Deque.zipAdd it d d2 x y m).2.2.2.1 = (Deque.zipAdd it d d2 x y m').2.2.2.1) := by
  obtain ⟨n1, n2, _⟩ := Deque.new_indep confCap t m m' h
  obtain ⟨c1, c2, _⟩ := Deque.copy_indep d cp m m' h
  obtain ⟨f1, f2, _⟩ := Deque.filter_indep d p m m' h
  obtain ⟨i1, i2, i3, _⟩ := Deque.iterAdd_indep it d x m m' h
  obtain ⟨z1, _, z3, z4, _⟩ := Deque.zipAdd_indep it d d2 x y m m' h
  exact ⟨⟨n1, n2⟩, ⟨c1, c2⟩, ⟨f1, f2⟩, ⟨i1, i2, i3⟩, ⟨z1, z3, z4⟩⟩

/-- non-vacuity / falsifiability: growing a full deque on the configured triple leaves the C-library side
at zero, while the same deque on the C-library triple records one C-library allocation and one release -/
example :
    (stepM (Deque.mk 2 2 1 1 [12, 11] .conf) { live := 2 } (.addLast 5)).2.2.libc = 0 ∧
    (stepM (Deque.mk 2 2 1 1 [12, 11] .libc) { liveLibc := 2 } (.addLast 5)).2.2.libc = 2 ∧
    (stepM (Deque.mk 2 2 1 1 [12, 11] .libc) { liveLibc := 2 } (.addLast 5)).2.2.nalloc = 0 := by decide

end CC.Properties.C14Deque
