import CollectionsC.Properties.C06Deque
import CollectionsC.Proofs.DequeIndep
/-! # C14 (deque part) — only the configured allocator triple

The model routes every allocation and release of `cc_deque.c` through `Mem.alloc`/`Mem.free` (the
configured triple); `Mem.libc` counts events that would go through the C library allocator.  That the C
code really has no such event is what the harness observes (`libc=a0 f0` on every line, L2); here:
the model has none (`libc_invariant`), for every operation, builder and history, and its results depend
on the ledger only through the refusal schedule (`allocator_independent`) — so a container on a pool that
never refuses behaves exactly like the same container on malloc.  No D3 exception: both statements are
about the physical model, not about the ideal list. -/
namespace CC.Properties.C14Deque
open CC CC.Properties.C05

/-- **libc_invariant**, one step -/
theorem step_libc_invariant (d : Deque) (m : Mem) (op : Op) (hi : d.Inv) : (stepM d m op).2.2.libc = m.libc :=
  (C06Deque.step_safe d m op hi).2.2.2.1

/-- **libc_invariant**, histories -/
theorem history_libc_invariant (ops : List Op) (d : Deque) (m : Mem) (hi : d.Inv) :
    (runM d m ops).2.2.libc = m.libc := by
  induction ops generalizing d m with
  | nil => rfl
  | cons op ops ih =>
    obtain ⟨s1, s2⟩ := C06Deque.step_safe d m op hi
    simp only [runM]
    rw [ih _ _ s1, s2.2.2.1]

/-- constructor, destructor and the derived-container builders (`copy_shallow`, `copy_deep`, `filter`),
iterator and zip insertion: the header and buffer of every derived deque come from the same triple -/
theorem builders_libc_invariant (d d2 : Deque) (it : Deque.Iter) (confCap x y : Nat) (cp : Option (Nat → Nat))
    (p : Nat → Bool) (m : Mem) (hi : d.Inv) (h2 : d2.Inv) :
    (Deque.new confCap m).2.2.libc = m.libc ∧ (d.destroy m).libc = m.libc ∧ (d.copy cp m).2.2.libc = m.libc ∧
    (d.filter p m).2.2.libc = m.libc ∧ (Deque.iterAdd it d x m).2.2.2.libc = m.libc ∧
    (Deque.zipAdd it d d2 x y m).2.2.2.2.libc = m.libc :=
  ⟨Deque.new_libc confCap m, Deque.destroy_libc d m, Deque.copy_libc d cp m hi, Deque.filter_libc d p m hi,
    (Deque.iterAdd_safe it d x m hi).2.1.2.2.1, (Deque.zipAdd_safe it d d2 x y m hi h2).2.2.1.2.2.1⟩

/-- **allocator_independent**, one step: two ledgers with the same refusal schedule give the same status,
the same out-value, the same physical state and again equal schedules -/
theorem step_allocator_independent (d : Deque) (m m' : Mem) (op : Op) (h : m.sched = m'.sched) :
    (stepM d m op).1 = (stepM d m' op).1 ∧ (stepM d m op).2.1 = (stepM d m' op).2.1 ∧
    (stepM d m op).2.2.sched = (stepM d m' op).2.2.sched := by
  cases op with
  | addFirst x => obtain ⟨a, b, c⟩ := Deque.addFirst_indep d x m m' h; simp only [stepM, a, b]; exact ⟨trivial, trivial, c⟩
  | addLast x => obtain ⟨a, b, c⟩ := Deque.addLast_indep d x m m' h; simp only [stepM, a, b]; exact ⟨trivial, trivial, c⟩
  | addAt x i => obtain ⟨a, b, c⟩ := Deque.addAt_indep d x i m m' h; simp only [stepM, a, b]; exact ⟨trivial, trivial, c⟩
  | replaceAt x i =>
    obtain ⟨a, b, c, e⟩ := Deque.replaceAt_indep d x i m m' h; simp only [stepM, a, b, c]; exact ⟨trivial, trivial, e⟩
  | removeAt i =>
    obtain ⟨a, b, c, e⟩ := Deque.removeAt_indep d i m m' h; simp only [stepM, a, b, c]; exact ⟨trivial, trivial, e⟩
  | removeFirst =>
    obtain ⟨a, b, c, e⟩ := Deque.removeFirst_indep d m m' h; simp only [stepM, a, b, c]; exact ⟨trivial, trivial, e⟩
  | removeLast =>
    obtain ⟨a, b, c, e⟩ := Deque.removeLast_indep d m m' h; simp only [stepM, a, b, c]; exact ⟨trivial, trivial, e⟩
  | remove x =>
    obtain ⟨a, b, c, e⟩ := Deque.remove_indep d x m m' h; simp only [stepM, a, b, c]; exact ⟨trivial, trivial, e⟩
  | removeAll => exact ⟨rfl, rfl, h⟩
  | getAt i =>
    obtain ⟨⟨a, b, c⟩, _⟩ := Deque.getters_indep d i 0 (fun _ _ => true) m m' h
    simp only [stepM, a, b]; exact ⟨trivial, trivial, c⟩
  | getFirst =>
    obtain ⟨_, ⟨a, b, c⟩, _⟩ := Deque.getters_indep d 0 0 (fun _ _ => true) m m' h
    simp only [stepM, a, b]; exact ⟨trivial, trivial, c⟩
  | getLast =>
    obtain ⟨_, _, ⟨a, b, c⟩, _⟩ := Deque.getters_indep d 0 0 (fun _ _ => true) m m' h
    simp only [stepM, a, b]; exact ⟨trivial, trivial, c⟩
  | reverse => obtain ⟨a, b⟩ := Deque.reverse_indep d m m' h; simp only [stepM, a]; exact ⟨trivial, trivial, b⟩
  | filterMut p =>
    obtain ⟨a, b, c⟩ := Deque.filterMut_indep d p m m' h; simp only [stepM, a, b]; exact ⟨trivial, trivial, c⟩
  | trim => obtain ⟨a, b, c⟩ := Deque.trimCapacity_indep d m m' h; simp only [stepM, a, b]; exact ⟨trivial, trivial, c⟩
  | contains x =>
    obtain ⟨_, _, _, ⟨a, b⟩, _⟩ := Deque.getters_indep d 0 x (fun _ _ => true) m m' h
    simp only [stepM, a]; exact ⟨trivial, trivial, b⟩
  | indexOf x =>
    obtain ⟨a, b, c⟩ := Deque.indexOf_indep d x m m' h; simp only [stepM, a, b]; exact ⟨trivial, trivial, c⟩

/-- **allocator_independent**, histories: the whole output sequence and the final physical state are the
same on any two ledgers with the same refusal schedule — e.g. the counting allocator and a pool that is
large enough never to refuse -/
theorem history_allocator_independent (ops : List Op) (d : Deque) (m m' : Mem) (h : m.sched = m'.sched) :
    (runM d m ops).1 = (runM d m' ops).1 ∧ (runM d m ops).2.1 = (runM d m' ops).2.1 := by
  induction ops generalizing d m m' with
  | nil => exact ⟨rfl, rfl⟩
  | cons op ops ih =>
    obtain ⟨s1, s2, s3⟩ := step_allocator_independent d m m' op h
    simp only [runM]
    rw [s1, s2]
    obtain ⟨r1, r2⟩ := ih (stepM d m' op).2.1 _ _ s3
    exact ⟨by rw [r1], r2⟩

/-- the same for the constructor, the builders and the iterator operations -/
theorem builders_allocator_independent (d d2 : Deque) (it : Deque.Iter) (confCap x y : Nat)
    (cp : Option (Nat → Nat)) (p : Nat → Bool) (m m' : Mem) (h : m.sched = m'.sched) :
    ((Deque.new confCap m).1 = (Deque.new confCap m').1 ∧ (Deque.new confCap m).2.1 = (Deque.new confCap m').2.1) ∧
    ((d.copy cp m).1 = (d.copy cp m').1 ∧ (d.copy cp m).2.1 = (d.copy cp m').2.1) ∧
    ((d.filter p m).1 = (d.filter p m').1 ∧ (d.filter p m).2.1 = (d.filter p m').2.1) ∧
    ((Deque.iterAdd it d x m).1 = (Deque.iterAdd it d x m').1 ∧ (Deque.iterAdd it d x m).2.1 = (Deque.iterAdd it d x m').2.1 ∧
      (Deque.iterAdd it d x m).2.2.1 = (Deque.iterAdd it d x m').2.2.1) ∧
    ((Deque.zipAdd it d d2 x y m).1 = (Deque.zipAdd it d d2 x y m').1 ∧
      (Deque.zipAdd it d d2 x y m).2.2.1 = (Deque.zipAdd it d d2 x y m').2.2.1 ∧
      (Deque.zipAdd it d d2 x y m).2.2.2.1 = (Deque.zipAdd it d d2 x y m').2.2.2.1) := by
  obtain ⟨n1, n2, _⟩ := Deque.new_indep confCap m m' h
  obtain ⟨c1, c2, _⟩ := Deque.copy_indep d cp m m' h
  obtain ⟨f1, f2, _⟩ := Deque.filter_indep d p m m' h
  obtain ⟨i1, i2, i3, _⟩ := Deque.iterAdd_indep it d x m m' h
  obtain ⟨z1, _, z3, z4, _⟩ := Deque.zipAdd_indep it d d2 x y m m' h
  exact ⟨⟨n1, n2⟩, ⟨c1, c2⟩, ⟨f1, f2⟩, ⟨i1, i2, i3⟩, ⟨z1, z3, z4⟩⟩

end CC.Properties.C14Deque
