import CollectionsC.Proofs.HashTableNamed
import CollectionsC.Proofs.HashSetLedger
import CollectionsC.Properties.C02
import CollectionsC.Proofs.HashTableHistory
/-! # C16 (hash part) — rejected operations are inert

An absent key (the NULL key included) is reported with `CC_ERR_KEY_NOT_FOUND` and the *whole
physical state* — buckets, chains, cached hashes, size, capacity, threshold, allocator triple — and
the ledger are unchanged; likewise an iterator `remove` with no yielded entry at hand and `next` at the
end.  For every hash function and every key; **no hypothesis on the ledger** (a rejected call
releases nothing).  The two allocation-related statuses are not in this file's range:
`CC_ERR_ALLOC` and `CC_ERR_MAX_CAPACITY` are reported by the resize loop of `add`, which may already
have installed a larger bucket array — the map is unchanged, the physical state need not be; the
theorem for them is `C08Hash.add_atomic` (cited below as `alloc_failures_keep_the_map`). -/
namespace CC.Properties.C16Hash
open CC CC.HT CC.Spec
open CC.Spec.Map (Op Out)

/-- `cc_hashtable_remove` of an absent key -/
theorem remove_absent_inert (c : HCfg) (t : HashTable) (k : Key) (m : Mem) (h : t.Inv c)
    (habs : Map.lookup t.abs k = none) :
    t.remove c k m = (.errKeyNotFound, none, t, m) := HashTable.remove_inert c t k m h habs

/-- conversely a present key is never rejected -/
theorem remove_present_ok (c : HCfg) (t : HashTable) (k : Key) (v : Nat) (m : Mem) (h : t.Inv c)
    (hl : 0 < liveOf m t.triple) (hp : Map.lookup t.abs k = some v) :
    (t.remove c k m).1 = .ok ∧ (t.remove c k m).2.1 = some v := by
  obtain ⟨_, _, p3, p4, _⟩ := HashTable.remove_spec c t k m h (fun _ => hl)
  rw [hp] at p3 p4
  exact ⟨by simpa using p4, p3⟩

/-- `cc_hashtable_get` of an absent key: error status, nothing written, nothing changed (`get`
cannot modify the table: the model function does not return one) -/
theorem get_absent (c : HCfg) (t : HashTable) (k : Key) (m : Mem) (h : t.Inv c)
    (habs : Map.lookup t.abs k = none) : t.get c k m = (.errKeyNotFound, none, m) := by
  obtain ⟨g1, g2, g3⟩ := HashTable.get_refines c t k m h
  rw [habs] at g1 g2
  have : t.get c k m = ((t.get c k m).1, (t.get c k m).2.1, (t.get c k m).2.2) := rfl
  rw [this, g1, g3]; simp at g2; rw [g2]

/-- `get_keys`/`get_values` on an empty table are rejected (`CC_ERR_INVALID_CAPACITY`) before any
allocation -/
theorem enumeration_empty_inert (c : HCfg) (t : HashTable) (m : Mem) (h : t.Inv c) (h0 : t.size = 0) :
    t.getKeys c m = (.errInvalidCapacity, none, m) ∧ t.getValues c m = (.errInvalidCapacity, none, m) :=
  C02.enumeration_empty c t m h h0

/-- **error_is_inert**: a call of the table API whose status is an error other than the two
allocation-related ones leaves the whole physical state and the ledger unchanged -/
theorem error_is_inert (c : HCfg) (t : HashTable) (op : Op) (m : Mem) (h : t.Inv c)
    (st : Stat) (hst : (t.step c op m).1.st = some st)
    (hne : st ≠ .ok ∧ st ≠ .errAlloc ∧ st ≠ .errMaxCapacity) :
    (t.step c op m).2.1 = t ∧ (t.step c op m).2.2 = m := by
  cases op with
  | add k v =>
    simp only [HashTable.step, Option.some.injEq] at hst
    obtain ⟨_, _, a3, _⟩ := HashTable.add_spec c t k v m h
    rw [← hst] at hne
    rcases (a3 hne.1).1 with h1 | h1
    · exact absurd h1 hne.2.1
    · exact absurd h1 hne.2.2
  | get k => exact ⟨rfl, (HashTable.get_refines c t k m h).2.2⟩
  | containsKey k => exact ⟨rfl, (HashTable.containsKey_refines c t k m h).2⟩
  | remove k =>
    simp only [HashTable.step, Option.some.injEq] at hst ⊢
    cases hlk : Map.lookup t.abs k with
    | none => rw [HashTable.remove_inert c t k m h hlk]; exact ⟨rfl, rfl⟩
    | some v =>
      -- a present key: `remove` reports OK whenever the entry's block is owned; with an empty ledger
      -- the model faults instead — either way the status is not a rejection
      exfalso
      have hst' : (t.remove c k m).1 = .ok := by
        unfold HashTable.remove
        have hc : chainRemove (t.bucket (t.index (keyHash c k))) k ≠ none := by
          intro hn
          have := HashTable.remove_inert
          have hh := (chainRemove_find (t.bucket (t.index (keyHash c k))) k)
          rw [hn] at hh
          have hf := HashTable.find_flat c t h.1 h.2.1 h.2.2.2.1 k
          rw [HashTable.abs_eq, HashTable.lookup_map_pair, hf] at hlk
          rw [← hh] at hlk; cases hlk
        simp only
        cases hr : chainRemove (t.bucket (t.index (keyHash c k))) k with
        | none => exact absurd hr hc
        | some r => rfl
      rw [hst'] at hst; exact hne.1 hst.symm
  | removeAll => simp [HashTable.step] at hst

/-- the two statuses excluded above keep the map (but possibly not the bucket array) -/
theorem alloc_failures_keep_the_map (c : HCfg) (t : HashTable) (k : Key) (v : Nat) (m : Mem) (h : t.Inv c)
    (hfail : (t.add c k v m).1 ≠ .ok) :
    (t.add c k v m).2.1.abs.Perm t.abs ∧ (t.add c k v m).2.1.size = t.size ∧ (t.add c k v m).2.1.Inv c ∧
    liveOf (t.add c k v m).2.2 t.triple = liveOf m t.triple := by
  obtain ⟨a1, _, a3, _⟩ := HashTable.add_spec c t k v m h
  exact ⟨(a3 hfail).2.1, (a3 hfail).2.2.1, a1, (a3 hfail).2.2.2⟩

/-- absent key ⇒ not-found status, for `get`, `remove` and `contains_key`, NULL key included -/
theorem absent_key_rejected (c : HCfg) (t : HashTable) (k : Key) (m : Mem) (h : t.Inv c)
    (habs : Map.contains t.abs k = false) :
    (t.get c k m).1 = .errKeyNotFound ∧ (t.remove c k m).1 = .errKeyNotFound ∧ (t.containsKey c k m).1 = false := by
  have hl0 : Map.lookup t.abs k = none := by
    unfold Map.contains at habs
    cases hh : Map.lookup t.abs k with
    | none => rfl
    | some v => rw [hh] at habs; simp at habs
  refine ⟨?_, ?_, ?_⟩
  · rw [(HashTable.get_refines c t k m h).2.1, hl0]; rfl
  · rw [HashTable.remove_inert c t k m h hl0]
  · rw [(HashTable.containsKey_refines c t k m h).1, habs]

/-- END is inert: once nothing is pending, `iter_next` changes neither the cursor nor anything else,
however often it is called -/
theorem iter_end_inert (c : HCfg) (t : HashTable) (it : HIter) (m : Mem) (h : t.Inv c)
    (hit : HashTable.ItInv t it []) : t.iterNext it m = (.iterEnd, none, it, m) :=
  (HashTable.iterNext_spec c t it m [] h hit).1 rfl

/-- `iter_remove` with no yielded entry at hand — before the first `next`, or a second time for the
same entry — is rejected with `CC_ERR_KEY_NOT_FOUND` and changes nothing (table, cursor, ledger) -/
theorem iter_remove_rejected_inert (c : HCfg) (t : HashTable) (it : HIter) (m : Mem) (hp : it.prev = none) :
    t.iterRemove c it m = (.errKeyNotFound, none, t, it, m) := HashTable.iterRemove_no_prev c t it m hp

/-- … and that is the state right after `iter_init` and right after a successful `iter_remove` -/
theorem iter_remove_twice (c : HCfg) (t : HashTable) (it : HIter) (m : Mem) (k : Key) (hp : it.prev = some k)
    (hok : (t.remove c k m).1 = .ok) :
    (t.iterInit m).1.prev = none ∧ (t.iterRemove c it m).2.2.2.1.prev = none ∧
    (t.iterRemove c it m).2.2.1.iterRemove c (t.iterRemove c it m).2.2.2.1 (t.iterRemove c it m).2.2.2.2 =
      (.errKeyNotFound, none, (t.iterRemove c it m).2.2.1, (t.iterRemove c it m).2.2.2.1, (t.iterRemove c it m).2.2.2.2) := by
  have h2 : (t.iterRemove c it m).2.2.2.1.prev = none := by
    unfold HashTable.iterRemove; rw [hp]; simp [hok]
  refine ⟨?_, h2, HashTable.iterRemove_no_prev c _ _ _ h2⟩
  unfold HashTable.iterInit; simp only; split <;> rfl

/-- every status any iterator call of any program reports other than OK leaves everything unchanged
(table, cursor, ledger) — no assumption on the ledger -/
theorem iter_error_is_inert (c : HCfg) (t : HashTable) (it : HIter) (op : HashTable.IterOp) (m : Mem)
    (cur : HashTable.Cursor) (h : t.Inv c) (hr : HashTable.CurRel t it cur)
    (hne : (HashTable.iterStep c t it op m).1.1 ≠ .ok) : (HashTable.iterStep c t it op m).2 = (t, it, m) := by
  obtain ⟨r1, r2, r3, r4⟩ := hr
  cases op with
  | next =>
    cases hto : cur.todo with
    | nil =>
      rw [hto] at r1
      simp only [HashTable.iterStep, (HashTable.iterNext_spec c t it m [] h r1).1 rfl]
    | cons e rest =>
      rw [hto] at r1
      have := ((HashTable.iterNext_spec c t it m (e :: rest) h r1).2 e rest rfl).1
      simp only [HashTable.iterStep] at hne
      exact absurd this hne
  | remove =>
    cases hla : cur.last with
    | none =>
      have hp : it.prev = none := by rw [r2, hla]; rfl
      simp only [HashTable.iterStep, HashTable.iterRemove_no_prev c t it m hp]
    | some e =>
      exfalso
      have hp : it.prev = some e.key := by rw [r2, hla]; rfl
      have hlk := HashTable.lookup_of_mem c t h e (r4 e hla).1
      have hst := (HashTable.remove_status c t e.key m h).1
      rw [hlk] at hst
      apply hne
      simp only [HashTable.iterStep, HashTable.iterRemove, hp]
      exact hst

/-- set API: an error other than the allocation-related ones leaves the set physically unchanged -/
theorem set_error_is_inert (c : HCfg) (s : HashSet) (op : Set.Op) (m : Mem) (h : s.Inv c)
    (st : Stat) (hst : (s.step c op m).1.st = some st)
    (hne : st ≠ .ok ∧ st ≠ .errAlloc ∧ st ≠ .errMaxCapacity) :
    (s.step c op m).2.1 = s ∧ (s.step c op m).2.2 = m := by
  have ht := error_is_inert c s.table
  cases op with
  | add e =>
    have := ht (.add e HashSet.dummy) m h.1 st (by simpa [HashSet.step, HashSet.add, HashTable.step] using hst) hne
    simp only [HashTable.step] at this
    simp only [HashSet.step, HashSet.add]
    exact ⟨by rw [this.1], this.2⟩
  | contains e => exact ⟨rfl, (HashSet.contains_refines c s e m h).2⟩
  | remove e =>
    have := ht (.remove e) m h.1 st (by simpa [HashSet.step, HashSet.remove, HashTable.step] using hst) hne
    simp only [HashTable.step] at this
    simp only [HashSet.step, HashSet.remove]
    exact ⟨by rw [this.1], this.2⟩
  | removeAll => simp [HashSet.step] at hst

/-- `cc_hashset_remove` of an absent element -/
theorem set_remove_absent_inert (c : HCfg) (s : HashSet) (e : Key) (m : Mem) (h : s.Inv c)
    (habs : s.abs.contains e = false) :
    (s.remove c e m).1 = .errKeyNotFound ∧ (s.remove c e m).2.2.1 = s ∧ (s.remove c e m).2.2.2 = m := by
  obtain ⟨_, _, r3, r4, _⟩ := HashSet.remove_spec c s e m h (fun hc => by rw [habs] at hc; cases hc)
  rw [habs] at r3
  simp only [Bool.false_eq_true, if_false] at r3
  exact ⟨r3, r4 (by rw [r3]; simp)⟩

/-- non-vacuity: removing the absent NULL key from a populated constant-hash table; a rejected
iterator removal on it -/
def exTable : HashTable := HashTable.mk 2 2 2 [[], [⟨some 1, 11, 7⟩, ⟨some 2, 12, 7⟩]] .conf
def exCfg : HCfg := ⟨fun _ => 7, fun c => c, fun c => c * 2⟩
example : exTable.Inv exCfg := by decide
example : exTable.remove exCfg none { live := 4 } = (.errKeyNotFound, none, exTable, { live := 4 }) := by decide
example : exTable.iterRemove exCfg (exTable.iterInit {}).1 {} = (.errKeyNotFound, none, exTable, (exTable.iterInit {}).1, {}) := by decide

end CC.Properties.C16Hash
