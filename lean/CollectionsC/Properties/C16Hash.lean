import CollectionsC.Proofs.HashTable
import CollectionsC.Proofs.HashTableDerived
import CollectionsC.Proofs.HashSet
/-! # C16 (hash part) — rejected operations are inert

An absent key (the NULL key included) is reported with `CC_ERR_KEY_NOT_FOUND` and the *whole
physical state* — buckets, chains, cached hashes, size, capacity, threshold — and the ledger are
unchanged.  For every hash function and every key. -/
namespace CC.Properties.C16Hash
open CC CC.HT CC.Spec

/-- `cc_hashtable_remove` of an absent key -/
theorem remove_absent_inert (c : HCfg) (t : HashTable) (k : Key) (m : Mem) (h : t.Inv c) (hl : 0 < m.live)
    (habs : Map.lookup t.abs k = none) :
    t.remove c k m = (.errKeyNotFound, none, t, m) := by
  obtain ⟨_, _, p3, p4, p5, _⟩ := HashTable.remove_spec c t k m h hl
  rw [habs] at p3 p4
  simp only [Option.isSome_none, Bool.false_eq_true, if_false] at p4
  obtain ⟨q1, q2⟩ := p5 (by rw [p4]; simp)
  have : t.remove c k m = ((t.remove c k m).1, (t.remove c k m).2.1, (t.remove c k m).2.2.1, (t.remove c k m).2.2.2) := rfl
  rw [this, p3, p4, q1, q2]

/-- conversely a present key is never rejected -/
theorem remove_present_ok (c : HCfg) (t : HashTable) (k : Key) (v : Nat) (m : Mem) (h : t.Inv c) (hl : 0 < m.live)
    (hp : Map.lookup t.abs k = some v) : (t.remove c k m).1 = .ok ∧ (t.remove c k m).2.1 = some v := by
  obtain ⟨_, _, p3, p4, _⟩ := HashTable.remove_spec c t k m h hl
  rw [hp] at p3 p4
  exact ⟨by simpa using p4, p3⟩

/-- `cc_hashtable_get` of an absent key: error status, nothing written, nothing changed (`get`
cannot modify the table: the model function does not return one) -/
theorem get_absent (c : HCfg) (t : HashTable) (k : Key) (m : Mem) (h : t.Inv c)
    (habs : Map.lookup t.abs k = none) : t.get c k m = (.errKeyNotFound, none, m) := by
  obtain ⟨g1, g2, g3⟩ := HashTable.get_refines c t k m h
  rw [habs] at g1 g2
  have : t.get c k m = ((t.get c k m).1, (t.get c k m).2.1, (t.get c k m).2.2) := rfl
  rw [this, g1, g3]; simp at g2; rw [g2]

/-- `get_keys`/`get_values` on an empty table are rejected (`CC_ERR_INVALID_CAPACITY`) before any
allocation -/
theorem enumeration_empty_inert (c : HCfg) (t : HashTable) (m : Mem) (h : t.Inv c) (h0 : t.size = 0) :
    t.getKeys c m = (.errInvalidCapacity, none, m) ∧ t.getValues c m = (.errInvalidCapacity, none, m) := by
  have hw := HashTable.walk_eq t h.2.1
  have hfl : t.buckets.flatten.length = 0 := by rw [← h.2.2.1]; exact h0
  constructor
  · exact (HashTable.collect_spec c t _ m h (by rw [hw, List.length_map]; omega) (by rw [h0]; decide)).1 h0
  · exact (HashTable.collect_spec c t _ m h (by rw [hw, List.length_map]; omega) (by rw [h0]; decide)).1 h0

/-- `cc_hashset_remove` of an absent element -/
theorem set_remove_absent_inert (c : HCfg) (s : HashSet) (e : Key) (m : Mem) (h : s.Inv c) (hl : 0 < m.live)
    (habs : s.abs.contains e = false) :
    (s.remove c e m).1 = .errKeyNotFound ∧ (s.remove c e m).2.2.1 = s ∧ (s.remove c e m).2.2.2 = m := by
  obtain ⟨_, _, r3, r4, _⟩ := HashSet.remove_spec c s e m h hl
  rw [habs] at r3
  simp only [Bool.false_eq_true, if_false] at r3
  exact ⟨r3, r4 (by rw [r3]; simp)⟩

/-- non-vacuity: removing the absent NULL key from a populated constant-hash table -/
example : (HashTable.mk 2 2 2 [[], [⟨some 1, 11, 7⟩, ⟨some 2, 12, 7⟩]]).remove ⟨fun _ => 7, fun c => c, fun c => c * 2⟩ none { live := 4 }
    = (.errKeyNotFound, none, HashTable.mk 2 2 2 [[], [⟨some 1, 11, 7⟩, ⟨some 2, 12, 7⟩]], { live := 4 }) := by decide

end CC.Properties.C16Hash
