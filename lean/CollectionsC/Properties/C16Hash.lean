import CollectionsC.Proofs.HashTable
import CollectionsC.Proofs.HashTableDerived
import CollectionsC.Proofs.HashSet
import CollectionsC.Properties.C02
/-! # C16 (hash part) — rejected operations are inert

An absent key (the NULL key included) is reported with `CC_ERR_KEY_NOT_FOUND` and the *whole
physical state* — buckets, chains, cached hashes, size, capacity, threshold — and the ledger are
unchanged.  For every hash function and every key. -/
namespace CC.Properties.C16Hash
open CC CC.HT CC.Spec
open CC.Spec.Map (Op Out)

/-- `cc_hashtable_remove` of an absent key -/
theorem remove_absent_inert (c : HCfg) (t : HashTable) (k : Key) (m : Mem) (h : t.Inv c) (hl : 0 < m.live)
    (habs : Map.lookup t.abs k = none) :
    t.remove c k m = (.errKeyNotFound, none, t, m) := by
  obtain ⟨_, _, p3, p4, p5, _⟩ := HashTable.remove_spec c t k m h hl
  rw [habs] at p3 p4
  simp only [Option.isSome_none, Bool.false_eq_true, if_false] at p4
  obtain ⟨q1, q2⟩ := p5 (by rw [p4]; simp)
  have : t.remove c k m = ((t.remove c k m).1, (t.remove c k m).2.1, (t.remove c k m).2.2.1, (t.remove c k m).2.2.2) := rfl
  rw [this, p3, p4, q1, q2]

/-- conversely a present key is never rejected -/
theorem remove_present_ok (c : HCfg) (t : HashTable) (k : Key) (v : Nat) (m : Mem) (h : t.Inv c) (hl : 0 < m.live)
    (hp : Map.lookup t.abs k = some v) : (t.remove c k m).1 = .ok ∧ (t.remove c k m).2.1 = some v := by
  obtain ⟨_, _, p3, p4, _⟩ := HashTable.remove_spec c t k m h hl
  rw [hp] at p3 p4
  exact ⟨by simpa using p4, p3⟩

/-- `cc_hashtable_get` of an absent key: error status, nothing written, nothing changed (`get`
cannot modify the table: the model function does not return one) -/
theorem get_absent (c : HCfg) (t : HashTable) (k : Key) (m : Mem) (h : t.Inv c)
    (habs : Map.lookup t.abs k = none) : t.get c k m = (.errKeyNotFound, none, m) := by
  obtain ⟨g1, g2, g3⟩ := HashTable.get_refines c t k m h
  rw [habs] at g1 g2
  have : t.get c k m = ((t.get c k m).1, (t.get c k m).2.1, (t.get c k m).2.2) := rfl
  rw [this, g1, g3]; simp at g2; rw [g2]

/-- `get_keys`/`get_values` on an empty table are rejected (`CC_ERR_INVALID_CAPACITY`) before any
allocation -/
theorem enumeration_empty_inert (c : HCfg) (t : HashTable) (m : Mem) (h : t.Inv c) (h0 : t.size = 0) :
    t.getKeys c m = (.errInvalidCapacity, none, m) ∧ t.getValues c m = (.errInvalidCapacity, none, m) := by
  have hw := HashTable.walk_eq t h.2.1
  have hfl : t.buckets.flatten.length = 0 := by rw [← h.2.2.1]; exact h0
  constructor
  · exact (HashTable.collect_spec c t _ m h (by rw [hw, List.length_map]; omega) (by rw [h0]; decide)).1 h0
  · exact (HashTable.collect_spec c t _ m h (by rw [hw, List.length_map]; omega) (by rw [h0]; decide)).1 h0

/-- `cc_hashset_remove` of an absent element -/
theorem set_remove_absent_inert (c : HCfg) (s : HashSet) (e : Key) (m : Mem) (h : s.Inv c) (hl : 0 < m.live)
    (habs : s.abs.contains e = false) :
    (s.remove c e m).1 = .errKeyNotFound ∧ (s.remove c e m).2.2.1 = s ∧ (s.remove c e m).2.2.2 = m := by
  obtain ⟨_, _, r3, r4, _⟩ := HashSet.remove_spec c s e m h hl
  rw [habs] at r3
  simp only [Bool.false_eq_true, if_false] at r3
  exact ⟨r3, r4 (by rw [r3]; simp)⟩

/-- **error_is_inert**: a call of the table API whose status is an error other than the two
allocation-related ones (`CC_ERR_ALLOC`, and `CC_ERR_MAX_CAPACITY`, which like it is reported by the
resize loop and is covered by `C08Hash.add_atomic`: the map is unchanged but the bucket array may have
grown) leaves the **whole physical state** — bucket array, chains, cached hashes, size, capacity,
threshold — and the ledger unchanged.  For the hash table that status is `CC_ERR_KEY_NOT_FOUND`. -/
theorem error_is_inert (c : HCfg) (t : HashTable) (op : Op) (m : Mem) (h : t.Inv c) (hl : 0 < m.live)
    (st : Stat) (hst : (t.step c op m).1.st = some st)
    (hne : st ≠ .ok ∧ st ≠ .errAlloc ∧ st ≠ .errMaxCapacity) :
    (t.step c op m).2.1 = t ∧ (t.step c op m).2.2 = m := by
  cases op with
  | add k v =>
    simp only [HashTable.step, Option.some.injEq] at hst
    obtain ⟨_, _, a3, _⟩ := HashTable.add_spec c t k v m h
    rw [← hst] at hne
    rcases (a3 hne.1).1 with h1 | h1
    · exact absurd h1 hne.2.1
    · exact absurd h1 hne.2.2
  | get k => exact ⟨rfl, (HashTable.get_refines c t k m h).2.2⟩
  | containsKey k => exact ⟨rfl, (HashTable.containsKey_refines c t k m h).2⟩
  | remove k =>
    simp only [HashTable.step, Option.some.injEq] at hst ⊢
    exact (HashTable.remove_spec c t k m h hl).2.2.2.2.1 (by rw [hst]; exact hne.1)
  | removeAll => simp [HashTable.step] at hst

/-- absent key ⇒ not-found status, for `get` and `remove`, NULL key included -/
theorem absent_key_rejected (c : HCfg) (t : HashTable) (k : Key) (m : Mem) (h : t.Inv c) (hl : 0 < m.live)
    (habs : Map.contains t.abs k = false) :
    (t.get c k m).1 = .errKeyNotFound ∧ (t.remove c k m).1 = .errKeyNotFound ∧ (t.containsKey c k m).1 = false := by
  have hl0 : Map.lookup t.abs k = none := by
    unfold Map.contains at habs
    cases hh : Map.lookup t.abs k with
    | none => rfl
    | some v => rw [hh] at habs; simp at habs
  refine ⟨?_, ?_, ?_⟩
  · rw [(HashTable.get_refines c t k m h).2.1, hl0]; rfl
  · rw [(HashTable.remove_spec c t k m h hl).2.2.2.1, hl0]; rfl
  · rw [(HashTable.containsKey_refines c t k m h).1, habs]

/-- END is inert: once nothing is pending, `iter_next` changes neither the cursor nor anything else,
however often it is called -/
theorem iter_end_inert (c : HCfg) (t : HashTable) (it : HIter) (m : Mem) (h : t.Inv c)
    (hit : HashTable.ItInv t it []) : t.iterNext it m = (.iterEnd, none, it, m) :=
  (HashTable.iterNext_spec c t it m [] h hit).1 rfl

/-- set API: an error other than the allocation-related ones leaves the set physically unchanged -/
theorem set_error_is_inert (c : HCfg) (s : HashSet) (op : Set.Op) (m : Mem) (h : s.Inv c) (hl : 0 < m.live)
    (st : Stat) (hst : (s.step c op m).1.st = some st)
    (hne : st ≠ .ok ∧ st ≠ .errAlloc ∧ st ≠ .errMaxCapacity) :
    (s.step c op m).2.1 = s ∧ (s.step c op m).2.2 = m := by
  cases op with
  | add e =>
    simp only [HashSet.step, Option.some.injEq] at hst
    obtain ⟨_, _, a3, _⟩ := HashSet.add_spec c s e m h
    rw [← hst] at hne
    rcases (a3 hne.1).1 with h1 | h1
    · exact absurd h1 hne.2.1
    · exact absurd h1 hne.2.2
  | contains e => exact ⟨rfl, (HashSet.contains_refines c s e m h).2⟩
  | remove e =>
    simp only [HashSet.step, Option.some.injEq] at hst ⊢
    exact (HashSet.remove_spec c s e m h hl).2.2.2.1 (by rw [hst]; exact hne.1)
  | removeAll => simp [HashSet.step] at hst

/-- non-vacuity: removing the absent NULL key from a populated constant-hash table -/
example : (HashTable.mk 2 2 2 [[], [⟨some 1, 11, 7⟩, ⟨some 2, 12, 7⟩]]).remove ⟨fun _ => 7, fun c => c, fun c => c * 2⟩ none { live := 4 }
    = (.errKeyNotFound, none, HashTable.mk 2 2 2 [[], [⟨some 1, 11, 7⟩, ⟨some 2, 12, 7⟩]], { live := 4 }) := by decide

end CC.Properties.C16Hash
