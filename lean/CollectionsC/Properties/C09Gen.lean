import CollectionsC.Properties.C01Gen
import CollectionsC.Model.Stack
import CollectionsC.Generated.FuncsStack
import CollectionsC.Properties.C05Gen
import CollectionsC.Model.Queue
import CollectionsC.Generated.FuncsQueue
/-! # C09 — translation validation of the stack model

`Generated/FuncsStack.lean` is re-translated from the current text of `src/cc_stack.c` on every build
(`tools/gen_funcs.py`): `struct cc_stack_s` as a record whose field `v` *is* the wrapped array object (the
pointer `CC_Array *v` owns it) and `cc_stack_conf_init`, `cc_stack_new_conf`, `cc_stack_new`,
`cc_stack_destroy`, `cc_stack_push`, `cc_stack_peek`, `cc_stack_pop`, `cc_stack_size` statement by statement;
the calls into `cc_array.c` are calls of the *translated* array functions of `Generated/FuncsArray.lean`.

This file proves that on every state satisfying `Stack.Inv` (for the constructors: every configuration and
ledger) each translated function is **fault-free** and returns what the hand-written model function of
`Model/Stack.lean` returns (status code, out-value, state via `ofStack`, ledger), using the array agreement
theorems of `Properties/C01Gen.lean`.  Not translated: `destroy_cb`, `map`, `filter_mut`, `filter` and the
iterator wrappers (they forward to array functions that are not translated: callbacks, iterators).

The queue: `Generated/FuncsQueue.lean` is the translation of `src/cc_queue.c` (`struct cc_queue_s` with the wrapped
deque object as field `d`; `CC_QueueConf` is the deque's configuration record) — `cc_queue_conf_init`,
`cc_queue_new_conf`, `cc_queue_new`, `cc_queue_destroy`, `cc_queue_peek`, `cc_queue_poll`, `cc_queue_enqueue`,
`cc_queue_size`, whose calls into `cc_deque.c` are calls of the *translated* deque functions of
`Generated/FuncsDeque.lean`.  The second half of this file proves the same agreement with `Model/Queue.lean` on
every state satisfying `Queue.Inv`, using the deque agreement theorems of `Properties/C05Gen.lean`.  Not
translated: `destroy_cb`, `foreach` and the iterator wrappers. -/
namespace CC.Properties.C09Gen
open CC CC.Properties.C01Gen

/-- model state ↦ generated record; `hid` is the id of the header block, `sid`/`bid` those of the array's blocks -/
def ofStack (f : Float32) (s : Stack) (hid : Nat := 0) (sid : Nat := 0) (bid : Nat := 0) : GenF.cc_stack_s :=
  { v := ofArr f s.v sid bid, mem_alloc := some s.triple, mem_calloc := some s.triple, mem_free := some s.triple,
    id_ := hid }

theorem codes : Stat.ok.code = 0 ∧ Stat.errAlloc.code = 1 := by decide

/-- `cc_stack_conf_init` is `cc_array_conf_init` -/
theorem stack_conf_init_agrees (u : GenF.cc_array_conf_s) :
    GenF.cc_stack_conf_init u = confOf (Float32.ofNat 2) .libc Gen.ARRAY_DEFAULT_CAPACITY := by
  unfold GenF.cc_stack_conf_init
  simp [arr_conf_init_agrees]

/-- `cc_stack_new_conf`, for every factor, triple, capacity, ledger and id supply (refusals of the header, of the
array header and of the array buffer included): status code, the constructed object (header block `nid`, array
blocks `nid + 1`, `nid + 2`), the ledger; when the inner constructor fails the header is released again;
fault-free -/
theorem stack_new_conf_agrees (f : Float32) (t : Triple) (cap : Nat) (m : Mem) (nid : Nat) :
    (GenF.cc_stack_new_conf (confOf f t cap) m nid).1 =
        (Stack.new cap (growOf (effF f)) (exGeOf (effF f)) m t).1.code ∧
    (GenF.cc_stack_new_conf (confOf f t cap) m nid).2.1 =
        (Stack.new cap (growOf (effF f)) (exGeOf (effF f)) m t).2.1.map (fun s => ofStack (effF f) s nid (nid + 1) (nid + 2)) ∧
    (GenF.cc_stack_new_conf (confOf f t cap) m nid).2.2.1 =
        (Stack.new cap (growOf (effF f)) (exGeOf (effF f)) m t).2.2 ∧
    (GenF.cc_stack_new_conf (confOf f t cap) m nid).2.2.2.2.2 = false ∧
    ((Stack.new cap (growOf (effF f)) (exGeOf (effF f)) m t).1 ≠ .ok → (m.allocT t).1 = true →
      nid ∈ (GenF.cc_stack_new_conf (confOf f t cap) m nid).2.2.2.2.1) := by
  have hA := arr_new_conf_agrees f t cap (m.allocT t).2 (nid + 1)
  by_cases a0 : (m.allocT t).1 = true
  · by_cases c0 : cap = 0
    · simp [Arr.new, confOf, c0, C01Gen.codes] at hA
      simp [GenF.cc_stack_new_conf, Stack.new, Arr.new, confOf, a0, c0, hA, codes, C01Gen.codes, GenF.isDead, GenF.cc_stack_s.zero]
    by_cases c1 : exGeOf (effF f) (Gen.CC_MAX_ELEMENTS / cap) = true
    · simp [Arr.new, confOf, c0, c1, C01Gen.codes] at hA
      simp [GenF.cc_stack_new_conf, Stack.new, Arr.new, confOf, a0, c0, c1, hA, codes, C01Gen.codes, GenF.isDead, GenF.cc_stack_s.zero]
    by_cases c2 : cap > Gen.CC_MAX_ELEMENTS / 8
    · simp [Arr.new, confOf, c0, c1, c2, C01Gen.codes] at hA
      simp [GenF.cc_stack_new_conf, Stack.new, Arr.new, confOf, a0, c0, c1, c2, hA, codes, C01Gen.codes, GenF.isDead, GenF.cc_stack_s.zero]
    by_cases a1 : ((m.allocT t).2.allocT t).1 = true
    · by_cases a2 : (((m.allocT t).2.allocT t).2.allocT t).1 = true
      · simp [Arr.new, confOf, c0, c1, c2, a1, a2, C01Gen.codes] at hA
        simp [GenF.cc_stack_new_conf, Stack.new, Arr.new, confOf, a0, c0, c1, c2, a1, a2, hA, codes, C01Gen.codes, ofStack,
          GenF.isDead, GenF.cc_stack_s.zero]
      · simp [Arr.new, confOf, c0, c1, c2, a1, a2, C01Gen.codes] at hA
        simp [GenF.cc_stack_new_conf, Stack.new, Arr.new, confOf, a0, c0, c1, c2, a1, a2, hA, codes, C01Gen.codes,
          GenF.isDead, GenF.cc_stack_s.zero]
    · simp [Arr.new, confOf, c0, c1, c2, a1, C01Gen.codes] at hA
      simp [GenF.cc_stack_new_conf, Stack.new, Arr.new, confOf, a0, c0, c1, c2, a1, hA, codes, C01Gen.codes, GenF.isDead,
        GenF.cc_stack_s.zero]
  · simp [GenF.cc_stack_new_conf, Stack.new, a0, confOf, codes]

/-- `cc_stack_new`: whatever the uninitialised locals contained, it is `cc_stack_new_conf` with the array's
defaults on the C library's triple -/
theorem stack_new_agrees (u : GenF.cc_array_conf_s) (m : Mem) (nid : Nat) :
    (GenF.cc_stack_new u m nid).1 =
        (Stack.new Gen.ARRAY_DEFAULT_CAPACITY (growOf (effF (Float32.ofNat 2))) (exGeOf (effF (Float32.ofNat 2))) m .libc).1.code ∧
    (GenF.cc_stack_new u m nid).2.1 =
        (Stack.new Gen.ARRAY_DEFAULT_CAPACITY (growOf (effF (Float32.ofNat 2))) (exGeOf (effF (Float32.ofNat 2))) m .libc).2.1.map
          (fun s => ofStack (effF (Float32.ofNat 2)) s nid (nid + 1) (nid + 2)) ∧
    (GenF.cc_stack_new u m nid).2.2.1 =
        (Stack.new Gen.ARRAY_DEFAULT_CAPACITY (growOf (effF (Float32.ofNat 2))) (exGeOf (effF (Float32.ofNat 2))) m .libc).2.2 ∧
    (GenF.cc_stack_new u m nid).2.2.2.2.2 = false := by
  obtain ⟨h1, h2, h3, h4, _⟩ := stack_new_conf_agrees (Float32.ofNat 2) .libc Gen.ARRAY_DEFAULT_CAPACITY m nid
  unfold GenF.cc_stack_new
  simp only [stack_conf_init_agrees]
  simp [h1, h2, h3, h4]

/-- `cc_stack_destroy`: the array's two blocks, then the header; exactly the stack's three blocks are released -/
theorem stack_destroy_agrees (f : Float32) (s : Stack) (m : Mem) (hid sid bid : Nat) (h1 : sid ≠ bid) (h2 : hid ≠ sid)
    (h3 : hid ≠ bid) :
    GenF.cc_stack_destroy (ofStack f s hid sid bid) m = (s.destroy m, [hid, sid, bid], false) := by
  unfold GenF.cc_stack_destroy Stack.destroy ofStack
  simp [arr_destroy_agrees f s.v m sid bid h1, GenF.isDead, h2, h3]

/-- `cc_stack_push` -/
theorem stack_push_agrees (f : Float32) (s : Stack) (x : Nat) (m : Mem) (hid sid bid nid : Nat) (hg : s.v.grow = growOf f)
    (h : s.Inv) (hsb : sid ≠ bid) (hbn : bid ≠ nid) :
    (GenF.cc_stack_push (ofStack f s hid sid bid) x m nid).1 = (s.push x m).1.code ∧
    (GenF.cc_stack_push (ofStack f s hid sid bid) x m nid).2.1 =
      ofStack f (s.push x m).2.1 hid sid (if s.v.size ≥ s.v.capacity ∧ (s.v.expandCapacity m).1 = .ok then nid else bid) ∧
    (GenF.cc_stack_push (ofStack f s hid sid bid) x m nid).2.2.1 = (s.push x m).2.2 ∧
    (GenF.cc_stack_push (ofStack f s hid sid bid) x m nid).2.2.2.2.2 = false := by
  unfold GenF.cc_stack_push Stack.push ofStack
  simp [arr_add_agrees f s.v x m sid bid nid hg h hsb hbn]

/-- `cc_stack_peek` -/
theorem stack_peek_agrees (f : Float32) (s : Stack) (m : Mem) (h : s.Inv) :
    GenF.cc_stack_peek (ofStack f s) = ((s.peek m).1.code, (s.peek m).2.1, false) ∧ (s.peek m).2.2 = m := by
  obtain ⟨g1, g2⟩ := arr_get_last_agrees f s.v m h
  unfold GenF.cc_stack_peek Stack.peek ofStack
  simp [g1, g2]

/-- `cc_stack_pop` -/
theorem stack_pop_agrees (f : Float32) (s : Stack) (outNN : Bool) (m : Mem) (h : s.Inv) :
    GenF.cc_stack_pop (ofStack f s) outNN =
      ((s.pop m).1.code, (if outNN then (s.pop m).2.1 else none), ofStack f (s.pop m).2.2.1, false) ∧
    (s.pop m).2.2.2 = m := by
  obtain ⟨g1, g2⟩ := arr_remove_last_agrees f s.v outNN m h
  unfold GenF.cc_stack_pop Stack.pop ofStack
  simp [g1, g2]

/-- `cc_stack_size` -/
theorem stack_size_agrees (f : Float32) (s : Stack) : GenF.cc_stack_size (ofStack f s) = s.size := rfl

/-! ## the queue (`src/cc_queue.c` over the translated `src/cc_deque.c`) -/

/-- model state ↦ generated record; `hid` is the id of the header block, `sid`/`bid` those of the deque's blocks -/
def ofQueue (q : Queue) (hid : Nat := 0) (sid : Nat := 0) (bid : Nat := 0) : GenF.cc_queue_s :=
  { d := C05Gen.ofDeque q.d sid bid, mem_alloc := some q.triple, mem_calloc := some q.triple,
    mem_free := some q.triple, id_ := hid }

/-- `cc_queue_conf_init` is `cc_deque_conf_init` -/
theorem queue_conf_init_agrees (u : GenF.cc_deque_conf_s) :
    GenF.cc_queue_conf_init u = C05Gen.confOf .libc Gen.DEQUE_DEFAULT_CAPACITY := by
  unfold GenF.cc_queue_conf_init
  simp [C05Gen.deque_conf_init_agrees]

/-- `cc_queue_new_conf`, for every triple, capacity, ledger and id supply (refusals of the header, of the deque
header and of the deque buffer included): status code, the constructed object (header block `nid`, deque blocks
`nid + 1`, `nid + 2`), the ledger; when the inner constructor fails the header is released again; fault-free -/
theorem queue_new_conf_agrees (t : Triple) (cap : Nat) (m : Mem) (nid : Nat) :
    (GenF.cc_queue_new_conf (C05Gen.confOf t cap) m nid).1 = (Queue.new cap t m).1.code ∧
    (GenF.cc_queue_new_conf (C05Gen.confOf t cap) m nid).2.1 =
        (Queue.new cap t m).2.1.map (fun q => ofQueue q nid (nid + 1) (nid + 2)) ∧
    (GenF.cc_queue_new_conf (C05Gen.confOf t cap) m nid).2.2.1 = (Queue.new cap t m).2.2 ∧
    (GenF.cc_queue_new_conf (C05Gen.confOf t cap) m nid).2.2.2.2.2 = false ∧
    ((Queue.new cap t m).1 ≠ .ok → (m.allocT t).1 = true →
      nid ∈ (GenF.cc_queue_new_conf (C05Gen.confOf t cap) m nid).2.2.2.2.1) := by
  have hA := C05Gen.deque_new_conf_agrees t cap (m.allocT t).2 (nid + 1)
  by_cases a0 : (m.allocT t).1 = true
  · by_cases a1 : ((m.allocT t).2.allocT t).1 = true
    · by_cases a2 : (((m.allocT t).2.allocT t).2.allocT t).1 = true
      · simp [Deque.new, C05Gen.confOf, a1, a2, C05Gen.codes] at hA
        simp [GenF.cc_queue_new_conf, Queue.new, Deque.new, C05Gen.confOf, a0, a1, a2, hA, codes, ofQueue,
          GenF.isDead, GenF.cc_queue_s.zero]
      · simp [Deque.new, C05Gen.confOf, a1, a2, C05Gen.codes] at hA
        simp [GenF.cc_queue_new_conf, Queue.new, Deque.new, C05Gen.confOf, a0, a1, a2, hA, codes,
          GenF.isDead, GenF.cc_queue_s.zero]
    · simp [Deque.new, C05Gen.confOf, a1, C05Gen.codes] at hA
      simp [GenF.cc_queue_new_conf, Queue.new, Deque.new, C05Gen.confOf, a0, a1, hA, codes, GenF.isDead,
        GenF.cc_queue_s.zero]
  · simp [GenF.cc_queue_new_conf, Queue.new, a0, C05Gen.confOf, codes]

/-- `cc_queue_new`: whatever the uninitialised local contained, it is `cc_queue_new_conf` with the deque's default
capacity on the C library's triple -/
theorem queue_new_agrees (u : GenF.cc_deque_conf_s) (m : Mem) (nid : Nat) :
    (GenF.cc_queue_new u m nid).1 = (Queue.new Gen.DEQUE_DEFAULT_CAPACITY .libc m).1.code ∧
    (GenF.cc_queue_new u m nid).2.1 =
        (Queue.new Gen.DEQUE_DEFAULT_CAPACITY .libc m).2.1.map (fun q => ofQueue q nid (nid + 1) (nid + 2)) ∧
    (GenF.cc_queue_new u m nid).2.2.1 = (Queue.new Gen.DEQUE_DEFAULT_CAPACITY .libc m).2.2 ∧
    (GenF.cc_queue_new u m nid).2.2.2.2.2 = false := by
  obtain ⟨h1, h2, h3, h4, _⟩ := queue_new_conf_agrees .libc Gen.DEQUE_DEFAULT_CAPACITY m nid
  unfold GenF.cc_queue_new
  simp only [queue_conf_init_agrees]
  simp [h1, h2, h3, h4]

/-- `cc_queue_destroy`: the deque's two blocks, then the header; exactly the queue's three blocks are released -/
theorem queue_destroy_agrees (q : Queue) (m : Mem) (hid sid bid : Nat) (h1 : sid ≠ bid) (h2 : hid ≠ sid)
    (h3 : hid ≠ bid) :
    GenF.cc_queue_destroy (ofQueue q hid sid bid) m = (q.destroy m, [hid, sid, bid], false) := by
  unfold GenF.cc_queue_destroy Queue.destroy ofQueue
  simp [C05Gen.deque_destroy_agrees q.d m sid bid h1, GenF.isDead, h2, h3]

/-- `cc_queue_enqueue` is the translated `cc_deque_add_first` on the wrapped deque -/
theorem queue_enqueue_agrees (q : Queue) (x : Nat) (m : Mem) (hid sid bid nid fuel : Nat)
    (h : q.Inv) (hsb : sid ≠ bid) (hbn : bid ≠ nid) :
    (GenF.cc_queue_enqueue (ofQueue q hid sid bid) x m nid fuel).1 = (q.enqueue x m).1.code ∧
    (GenF.cc_queue_enqueue (ofQueue q hid sid bid) x m nid fuel).2.1 =
      ofQueue (q.enqueue x m).2.1 hid sid (if q.d.size ≥ q.d.cap ∧ (q.d.expandCapacity m).1 = .ok then nid else bid) ∧
    (GenF.cc_queue_enqueue (ofQueue q hid sid bid) x m nid fuel).2.2.1 = (q.enqueue x m).2.2 ∧
    (GenF.cc_queue_enqueue (ofQueue q hid sid bid) x m nid fuel).2.2.2.2.2 = false := by
  unfold GenF.cc_queue_enqueue Queue.enqueue ofQueue
  simp [C05Gen.deque_add_first_agrees q.d x m sid bid nid fuel h.1 hsb hbn]

/-- `cc_queue_peek` is the translated `cc_deque_get_last` -/
theorem queue_peek_agrees (q : Queue) (m : Mem) (h : q.Inv) :
    GenF.cc_queue_peek (ofQueue q) = ((q.peek m).1.code, (q.peek m).2.1, false) ∧ (q.peek m).2.2 = m := by
  obtain ⟨g1, g2⟩ := C05Gen.deque_get_last_agrees q.d m h.1
  unfold GenF.cc_queue_peek Queue.peek ofQueue
  simp [g1, g2]

/-- `cc_queue_poll` is the translated `cc_deque_remove_last` -/
theorem queue_poll_agrees (q : Queue) (outNN : Bool) (m : Mem) (hid sid bid : Nat) (h : q.Inv) :
    GenF.cc_queue_poll (ofQueue q hid sid bid) outNN =
      ((q.poll m).1.code, (if outNN then (q.poll m).2.1 else none), ofQueue (q.poll m).2.2.1 hid sid bid, false) ∧
    (q.poll m).2.2.2 = m := by
  obtain ⟨g1, g2⟩ := C05Gen.deque_remove_last_agrees q.d outNN m sid bid h.1
  unfold GenF.cc_queue_poll Queue.poll ofQueue
  simp [g1, g2]

/-- `cc_queue_size` -/
theorem queue_size_agrees (q : Queue) : GenF.cc_queue_size (ofQueue q) = q.size := rfl

end CC.Properties.C09Gen
