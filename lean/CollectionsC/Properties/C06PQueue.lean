import CollectionsC.Properties.C10
import CollectionsC.Proofs.PQueueCross
/-! # C06 (priority queue part): no fault, ledger balance, destroy_cb

Ledger statements speak of the counter that belongs to the queue's allocator triple
(`Mem.liveT q.triple`: `live` for `cc_pqueue_new_conf`, `liveLibc` for `cc_pqueue_new`). -/
namespace CC.Properties.C06PQueue
open CC CC.Spec
open CC.Spec.PQ (Op Out)

/-- no operation sets the fault flag (every buffer index — sift-up parents, `heapify` children read
only below `size`, the slot `size` written by push after a possible growth — lies below the
allocated slot count), and the number of live blocks is unchanged: growth allocates one buffer and
frees one, nothing else allocates -/
theorem nofault {cmp : Nat → Nat → Int} (tp : TotalPreorder cmp) (grow : Nat → Nat)
    (q : PQueue) (op : Op) (m : Mem) (h : PQueue.Inv' cmp q) (hl : 2 ≤ m.liveT q.triple) :
    (PQueue.step cmp grow q op m).2.2.fault = m.fault ∧ (PQueue.step cmp grow q op m).2.2.liveT q.triple = m.liveT q.triple :=
  ⟨(C10.step_refines tp grow q op m h hl).2.2.2.2, (C10.step_refines tp grow q op m h hl).2.2.2.1⟩

theorem history_nofault {cmp : Nat → Nat → Int} (tp : TotalPreorder cmp) (grow : Nat → Nat)
    (ops : List Op) (q : PQueue) (m : Mem) (h : PQueue.Inv' cmp q) (hl : 2 ≤ m.liveT q.triple) :
    (PQueue.run cmp grow q ops m).2.2.fault = m.fault ∧ (PQueue.run cmp grow q ops m).2.2.liveT q.triple = m.liveT q.triple :=
  ⟨(C10.history_refines tp grow ops q m h hl).2.2.2.2, (C10.history_refines tp grow ops q m h hl).2.2.2.1⟩

/-- the same **for every comparator** — no contract on `cmp` at all, only the shape of the queue:
index safety of sift-up, `heapify`, push and pop does not depend on what the user's comparator
answers -/
theorem nofault_any_comparator (cmp : Nat → Nat → Int) (grow : Nat → Nat) (ops : List Op) (q : PQueue) (m : Mem)
    (h : PQueue.Shape q) (hl : 2 ≤ m.liveT q.triple) :
    (PQueue.run cmp grow q ops m).2.2.fault = m.fault ∧ (PQueue.run cmp grow q ops m).2.2.liveT q.triple = m.liveT q.triple :=
  (C10.history_safe cmp grow ops q m h hl).2

/-- the queue owns two blocks (struct, buffer) from construction on; `new … any history … destroy`
returns the ledger of its triple to where it started and nothing faults, for every refusal schedule,
every capacity the constructor accepts and both triples -/
theorem destroy_releases_all {cmp : Nat → Nat → Int} (tp : TotalPreorder cmp) (grow : Nat → Nat)
    (cap : Nat) (exGe : Nat → Bool) (t : Triple) (m0 : Mem) (q0 : PQueue)
    (hnew : (PQueue.new cap exGe t m0).2.1 = some q0) (ops : List Op) :
    let m1 := (PQueue.new cap exGe t m0).2.2
    ((PQueue.run cmp grow q0 ops m1).2.1.destroy (PQueue.run cmp grow q0 ops m1).2.2).liveT t = m0.liveT t ∧
    ((PQueue.run cmp grow q0 ops m1).2.1.destroy (PQueue.run cmp grow q0 ops m1).2.2).fault = m0.fault :=
  (C10.new_history_refines tp grow cap exGe t m0 q0 hnew ops).2.2

/-- a constructor that does not return a queue leaves the ledger balanced -/
theorem new_failure_balanced (cmp : Nat → Nat → Int) (cap : Nat) (exGe : Nat → Bool) (t : Triple) (m : Mem)
    (h : (PQueue.new cap exGe t m).1 ≠ .ok) :
    (PQueue.new cap exGe t m).2.2.liveT t = m.liveT t ∧ (PQueue.new cap exGe t m).2.2.fault = m.fault :=
  (C10.new_refused cmp cap exGe t m h).2

/-- `cc_pqueue_destroy_cb` hands each held element to the callback exactly once (the callback log
is the abstraction, in buffer order), reads no slot outside the buffer, and releases both blocks -/
theorem destroy_cb_each_once (cmp : Nat → Nat → Int) (q : PQueue) (m : Mem) (h : PQueue.Inv' cmp q) :
    (q.destroyCb m).1 = q.abs ∧ (q.destroyCb m).2 = q.destroy m := by
  have : q.size ≤ q.buf.length := by have := h.1.1; have := h.1.2.1; omega
  simp [PQueue.destroyCb, PQueue.abs, this]

/-! Non-vacuity: a heap state, a ledger holding its two blocks -/
example : PQueue.Inv' (keyCmp id) { size := 3, capacity := 4, buf := [9, 4, 7, 0] } ∧
    2 ≤ ({ live := 2 } : Mem).liveT Triple.conf := by
  refine ⟨⟨by decide, by decide⟩, by decide⟩

end CC.Properties.C06PQueue
