import CollectionsC.Properties.C05
import CollectionsC.Proofs.DequeCross
/-! # C06 (deque part) — memory safety and leak freedom

What the model can carry (see DESIGN §8 C06): every slot index used by every operation is below the
allocated slot count and no release happens with nothing live (`Mem.fault` stays false), the ledger
balance `Mem.live` moves exactly with the number of blocks the objects own (a deque owns two: header and
buffer), and the callback variants hand each held element to the callback exactly once.  All statements
hold for **every** state satisfying `Deque.Inv`, every argument in ℕ, every refusal schedule — and, for
memory safety, also inside finding D3's range of `add_at` (the wrong branch is still memory-safe). -/
namespace CC.Properties.C06Deque
open CC CC.Properties.C05

/-- **(a) nofault + (b) ledger, one step, no exception for D3**: every operation preserves the invariant,
leaves the fault flag and the ledger balance as they were (the deque owns two blocks before and after) -/
theorem step_safe (d : Deque) (m : Mem) (op : Op) (hi : d.Inv) :
    (stepM d m op).2.1.Inv ∧ Deque.memSame (stepM d m op).2.2 m := by
  by_cases hD3 : inD3 d.size op
  · cases op
    case addAt x i =>
      obtain ⟨a1, a2, _, _⟩ := Deque.addAt_inv d x i m hi
      exact ⟨a1, a2⟩
    all_goals exact hD3.elim
  · rcases step_refines d m op hi hD3 with ⟨_, _, s3, s4⟩ | ⟨_, _, s3, s4, _⟩
    · exact ⟨s3, s4⟩
    · exact ⟨by rw [s3]; exact hi, s4⟩

theorem step_nofault (d : Deque) (m : Mem) (op : Op) (hi : d.Inv) : (stepM d m op).2.2.fault = m.fault :=
  (step_safe d m op hi).2.2.1

theorem step_ledger (d : Deque) (m : Mem) (op : Op) (hi : d.Inv) : (stepM d m op).2.2.live = m.live :=
  (step_safe d m op hi).2.1

/-- **lifted to histories**: any operation sequence, any arguments (out-of-range indices, D3's range),
any refusal schedule -/
theorem history_nofault (ops : List Op) (d : Deque) (m : Mem) (hi : d.Inv) :
    (runM d m ops).2.1.Inv ∧ (runM d m ops).2.2.fault = m.fault ∧ (runM d m ops).2.2.live = m.live := by
  induction ops generalizing d m with
  | nil => exact ⟨hi, rfl, rfl⟩
  | cons op ops ih =>
    obtain ⟨s1, s2⟩ := step_safe d m op hi
    obtain ⟨r1, r2, r3⟩ := ih (stepM d m op).2.1 (stepM d m op).2.2 s1
    simp only [runM]
    exact ⟨r1, by rw [r2, s2.2.1], by rw [r3, s2.1]⟩

/-- iterator operations: same guarantees, for every cursor value (also before the first `next`, after
the end, and — for `iter_add` — inside D3's range) -/
theorem iterator_safe (it : Deque.Iter) (d : Deque) (x : Nat) (m : Mem) (hi : d.Inv) :
    (Deque.iterNext it d m).2.2.2 = m ∧
    ((Deque.iterRemove it d m).2.2.2.1.Inv ∧ (Deque.iterRemove it d m).2.2.2.2 = m) ∧
    ((Deque.iterReplace it d x m).2.2.1.Inv ∧ (Deque.iterReplace it d x m).2.2.2 = m) ∧
    ((Deque.iterAdd it d x m).2.2.1.Inv ∧ Deque.memSame (Deque.iterAdd it d x m).2.2.2 m) := by
  obtain ⟨_, _, _, n4⟩ := Deque.iterNext_spec it d m hi
  obtain ⟨_, _, _, _, r5, r6, _⟩ := Deque.iterRemove_spec it d m hi
  obtain ⟨_, _, _, p4, p5⟩ := Deque.iterReplace_spec it d x m hi
  obtain ⟨a1, a2, _⟩ := Deque.iterAdd_safe it d x m hi
  exact ⟨n4, ⟨r5, r6⟩, ⟨p4, p5⟩, ⟨a1, a2⟩⟩

theorem zip_iterator_safe (it : Deque.Iter) (d1 d2 : Deque) (x y : Nat) (m : Mem) (h1 : d1.Inv) (h2 : d2.Inv) :
    (Deque.zipNext it d1 d2 m).2.2.2 = m ∧
    ((Deque.zipRemove it d1 d2 m).2.2.2.1.Inv ∧ (Deque.zipRemove it d1 d2 m).2.2.2.2.1.Inv ∧
      (Deque.zipRemove it d1 d2 m).2.2.2.2.2 = m) ∧
    ((Deque.zipReplace it d1 d2 x y m).2.2.1.Inv ∧ (Deque.zipReplace it d1 d2 x y m).2.2.2.1.Inv ∧
      (Deque.zipReplace it d1 d2 x y m).2.2.2.2 = m) ∧
    ((Deque.zipAdd it d1 d2 x y m).2.2.1.Inv ∧ (Deque.zipAdd it d1 d2 x y m).2.2.2.1.Inv ∧
      Deque.memSame (Deque.zipAdd it d1 d2 x y m).2.2.2.2 m) := by
  obtain ⟨_, _, _, n4⟩ := Deque.zipNext_spec it d1 d2 m h1 h2
  obtain ⟨_, _, _, _, _, r6, r7, r8⟩ := Deque.zipRemove_spec it d1 d2 m h1 h2
  obtain ⟨_, _, _, _, p5, p6, p7⟩ := Deque.zipReplace_spec it d1 d2 x y m h1 h2
  obtain ⟨a1, a2, a3, _⟩ := Deque.zipAdd_safe it d1 d2 x y m h1 h2
  exact ⟨n4, ⟨r6, r7, r8⟩, ⟨p5, p6, p7⟩, ⟨a1, a2, a3⟩⟩

/-- **(b) ledger of construction**: the constructor and each builder either produce an object that
satisfies the invariant and own exactly two more blocks, or produce nothing and leave the balance (and the
fault flag) as it was — whichever request was refused -/
theorem builders_ledger (d : Deque) (confCap : Nat) (cp : Option (Nat → Nat)) (p : Nat → Bool) (m : Mem)
    (hi : d.Inv) :
    ((∃ c, (Deque.new confCap m).2.1 = some c ∧ c.Inv ∧ (Deque.new confCap m).2.2.live = m.live + 2) ∨
      ((Deque.new confCap m).2.1 = none ∧ (Deque.new confCap m).2.2.live = m.live)) ∧
    (Deque.new confCap m).2.2.fault = m.fault ∧
    ((∃ c, (d.copy cp m).2.1 = some c ∧ c.Inv ∧ (d.copy cp m).2.2.live = m.live + 2) ∨
      ((d.copy cp m).2.1 = none ∧ (d.copy cp m).2.2.live = m.live)) ∧
    (d.copy cp m).2.2.fault = m.fault ∧
    ((∃ c, (d.filter p m).2.1 = some c ∧ c.Inv ∧ (d.filter p m).2.2.live = m.live + 2) ∨
      ((d.filter p m).2.1 = none ∧ (d.filter p m).2.2.live = m.live)) ∧
    (d.filter p m).2.2.fault = m.fault := by
  refine ⟨?_, ?_, ?_, ?_, ?_, ?_⟩
  · rcases Deque.new_spec confCap m with ⟨_, c, n2, n3, _, _, n6, _⟩ | ⟨_, n2, n3, _⟩
    · exact Or.inl ⟨c, n2, n3, n6⟩
    · exact Or.inr ⟨n2, n3.1⟩
  · rcases Deque.new_spec confCap m with ⟨_, c, _, _, _, _, _, n7, _⟩ | ⟨_, _, n3, _⟩
    · exact n7
    · exact n3.2.1
  · rcases Deque.copy_spec d cp m hi with ⟨_, c, n2, n3, _, _, n6, _⟩ | ⟨_, n2, n3, _⟩
    · exact Or.inl ⟨c, n2, n3, n6⟩
    · exact Or.inr ⟨n2, n3.1⟩
  · rcases Deque.copy_spec d cp m hi with ⟨_, c, _, _, _, _, _, n7⟩ | ⟨_, _, n3, _⟩
    · exact n7
    · exact n3.2.1
  · rcases Deque.filter_spec d p m hi with ⟨_, h2, _⟩ | ⟨_, _, _, c, f1, f2, _, _, f5, _⟩ | ⟨_, _, f3, f4, _⟩
    · rw [h2]; exact Or.inr ⟨rfl, rfl⟩
    · exact Or.inl ⟨c, f1, f2, f5⟩
    · exact Or.inr ⟨f3, f4.1⟩
  · rcases Deque.filter_spec d p m hi with ⟨_, h2, _⟩ | ⟨_, _, _, c, _, _, _, _, _, f6⟩ | ⟨_, _, _, f4, _⟩
    · rw [h2]
    · exact f6
    · exact f4.2.1

/-- **every block is released exactly once**: construct (any configured capacity, any refusal schedule),
run any history (refusals included), destroy — the ledger balance is back at its initial value and
nothing faulted (no double free, no release of a foreign block); a refused construction yields no object
and an unchanged balance -/
theorem destroy_releases_all (confCap : Nat) (m0 : Mem) (ops : List Op) :
    (∃ d0, (Deque.new confCap m0).2.1 = some d0 ∧
      ((runM d0 (Deque.new confCap m0).2.2 ops).2.1.destroy (runM d0 (Deque.new confCap m0).2.2 ops).2.2).live = m0.live ∧
      ((runM d0 (Deque.new confCap m0).2.2 ops).2.1.destroy (runM d0 (Deque.new confCap m0).2.2 ops).2.2).fault = m0.fault) ∨
    ((Deque.new confCap m0).2.1 = none ∧ (Deque.new confCap m0).2.2.live = m0.live ∧
      (Deque.new confCap m0).2.2.fault = m0.fault) := by
  rcases Deque.new_spec confCap m0 with ⟨_, d0, n2, n3, _, _, n6, n7, _⟩ | ⟨_, n2, n3, _⟩
  · left
    obtain ⟨_, h2, h3⟩ := history_nofault ops d0 (Deque.new confCap m0).2.2 n3
    obtain ⟨g1, g2⟩ := Deque.destroy_ledger (runM d0 (Deque.new confCap m0).2.2 ops).2.1
      (runM d0 (Deque.new confCap m0).2.2 ops).2.2 (by rw [h3, n6]; omega)
    exact ⟨d0, n2, by rw [g1, h3, n6]; omega, by rw [g2, h2, n7]⟩
  · exact Or.inr ⟨n2, n3.1, n3.2.1⟩

/-- **(c) callbacks**: `foreach` — and therefore `remove_all_cb` and `destroy_cb`, which are `foreach`
followed by `remove_all` (and `destroy`) — hands each held element to the callback exactly once, front to
back: the callback log is the abstraction; afterwards the deque is empty and `destroy_cb` has released
both blocks -/
theorem callbacks_visit_each_once (d : Deque) (m : Mem) (hi : d.Inv) (hlive : 2 ≤ m.live) :
    (d.foreach m).1 = d.abs ∧ (d.foreach m).2 = m ∧ d.removeAll.abs = [] ∧ d.removeAll.Inv ∧
    (d.removeAll.destroy (d.foreach m).2).live = m.live - 2 ∧
    (d.removeAll.destroy (d.foreach m).2).fault = m.fault := by
  obtain ⟨f1, f2⟩ := Deque.foreach_spec d m hi
  obtain ⟨r1, r2, _⟩ := Deque.removeAll_spec d hi
  obtain ⟨g1, g2⟩ := Deque.destroy_ledger d.removeAll m hlive
  rw [f2]
  exact ⟨f1, rfl, r2, r1, g1, g2⟩

end CC.Properties.C06Deque
