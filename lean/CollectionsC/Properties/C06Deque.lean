import CollectionsC.Properties.C05
import CollectionsC.Proofs.DequeCross
import CollectionsC.Properties.C07Deque
/-! # C06 (deque part) — memory safety and leak freedom

What the model can carry (see DESIGN §8 C06): every slot index used by every operation is below the
allocated slot count — and the invariant says the block is *exactly* `capacity` slots long, so this is
"inside `[0, capacity)`" — and no release happens with nothing live (`Mem.fault` stays false); the ledger
balance **of the deque's own allocator triple** moves exactly with the number of blocks the objects own (a
deque owns two: header and buffer) while the other triple is not touched at all; the callback variants hand
each held element to the callback exactly once.  `Deque.memSame t m' m` packs: same balance on both triples,
same fault flag, no event on the other triple.  All statements hold for **every** state satisfying
`Deque.Inv`, every argument in ℕ, every refusal schedule, both triples — and, for memory safety, also
inside finding D3's range of `add_at` (the wrong branch is still memory-safe). -/
namespace CC.Properties.C06Deque
open CC CC.Properties.C05

/-- **(a) nofault + (b) ledger, one step, no exception for D3**: every operation preserves the invariant
(so the buffer block stays exactly `capacity` slots), leaves the fault flag and both balances as they were
(the deque owns two blocks on its triple before and after) and keeps its triple -/
theorem step_safe (d : Deque) (m : Mem) (op : Op) (hi : d.Inv) :
    (stepM d m op).2.1.Inv ∧ Deque.memSame d.triple (stepM d m op).2.2 m ∧ (stepM d m op).2.1.triple = d.triple := by
  refine ⟨?_, ?_, step_triple d m op⟩
  · by_cases hD3 : inD3 d.size op
    · cases op
      case addAt x i => exact (Deque.addAt_inv d x i m hi).1
      all_goals exact hD3.elim
    · rcases step_refines_partial d m op hi hD3 with ⟨_, _, s3, _⟩ | ⟨_, _, s3, _⟩
      · exact s3
      · rw [s3]; exact hi
  · by_cases hD3 : inD3 d.size op
    · cases op
      case addAt x i => exact (Deque.addAt_inv d x i m hi).2.1
      all_goals exact hD3.elim
    · rcases step_refines_partial d m op hi hD3 with ⟨_, _, _, s4⟩ | ⟨_, _, _, s4, _⟩
      · exact s4
      · exact s4

theorem step_nofault (d : Deque) (m : Mem) (op : Op) (hi : d.Inv) : (stepM d m op).2.2.fault = m.fault :=
  (step_safe d m op hi).2.1.2.1

/-- the balance of the deque's own triple is unchanged by every operation (it owns two blocks throughout) -/
theorem step_ledger (d : Deque) (m : Mem) (op : Op) (hi : d.Inv) :
    Deque.liveOf d.triple (stepM d m op).2.2 = Deque.liveOf d.triple m := by
  have := (step_safe d m op hi).2.1.1; simpa using this

/-- **lifted to histories**: any operation sequence, any arguments (out-of-range indices, D3's range),
any refusal schedule: invariant (block = `capacity` slots) at the end, no fault, balanced ledger -/
theorem history_nofault (ops : List Op) (d : Deque) (m : Mem) (hi : d.Inv) :
    (runM d m ops).2.1.Inv ∧ Deque.memSame d.triple (runM d m ops).2.2 m ∧ (runM d m ops).2.1.triple = d.triple := by
  induction ops generalizing d m with
  | nil => exact ⟨hi, Deque.memSame_refl _ m, rfl⟩
  | cons op ops ih =>
    obtain ⟨s1, s2, s3⟩ := step_safe d m op hi
    obtain ⟨r1, r2, r3⟩ := ih (stepM d m op).2.1 (stepM d m op).2.2 s1
    simp only [runM]
    rw [s3] at r2 r3
    exact ⟨r1, Deque.memSame_trans r2 s2, r3⟩

theorem history_fault_and_balance (ops : List Op) (d : Deque) (m : Mem) (hi : d.Inv) :
    (runM d m ops).2.2.fault = m.fault ∧ (runM d m ops).2.2.live = m.live ∧
    (runM d m ops).2.2.liveLibc = m.liveLibc := by
  have h := Deque.memSame_bal (history_nofault ops d m hi).2.1
  exact ⟨h.2.2.1, h.1, h.2.1⟩

/-- iterator operations: same guarantees, for every cursor value (also before the first `next`, after
the end, and — for `iter_add` — inside D3's range) -/
theorem iterator_safe (it : Deque.Iter) (d : Deque) (x : Nat) (m : Mem) (hi : d.Inv) :
    (Deque.iterNext it d m).2.2.2 = m ∧
    ((Deque.iterRemove it d m).2.2.2.1.Inv ∧ (Deque.iterRemove it d m).2.2.2.2 = m) ∧
    ((Deque.iterReplace it d x m).2.2.1.Inv ∧ (Deque.iterReplace it d x m).2.2.2 = m) ∧
    ((Deque.iterAdd it d x m).2.2.1.Inv ∧ Deque.memSame d.triple (Deque.iterAdd it d x m).2.2.2 m) := by
  obtain ⟨_, _, _, n4⟩ := Deque.iterNext_spec it d m hi
  obtain ⟨_, _, _, _, r5, r6, _⟩ := Deque.iterRemove_spec it d m hi
  obtain ⟨_, _, _, p4, p5⟩ := Deque.iterReplace_spec it d x m hi
  obtain ⟨a1, a2, _⟩ := Deque.iterAdd_safe it d x m hi
  exact ⟨n4, ⟨r5, r6⟩, ⟨p4, p5⟩, ⟨a1, a2⟩⟩

/-- zip iterator over two deques, each on its own triple (`memSame2`: both balances and the fault flag as
they were; a side of the ledger neither deque uses is untouched) -/
theorem zip_iterator_safe (it : Deque.Iter) (d1 d2 : Deque) (x y : Nat) (m : Mem) (h1 : d1.Inv) (h2 : d2.Inv) :
    (Deque.zipNext it d1 d2 m).2.2.2 = m ∧
    ((Deque.zipRemove it d1 d2 m).2.2.2.1.Inv ∧ (Deque.zipRemove it d1 d2 m).2.2.2.2.1.Inv ∧
      (Deque.zipRemove it d1 d2 m).2.2.2.2.2 = m) ∧
    ((Deque.zipReplace it d1 d2 x y m).2.2.1.Inv ∧ (Deque.zipReplace it d1 d2 x y m).2.2.2.1.Inv ∧
      (Deque.zipReplace it d1 d2 x y m).2.2.2.2 = m) ∧
    ((Deque.zipAdd it d1 d2 x y m).2.2.1.Inv ∧ (Deque.zipAdd it d1 d2 x y m).2.2.2.1.Inv ∧
      Deque.memSame2 d1.triple d2.triple (Deque.zipAdd it d1 d2 x y m).2.2.2.2 m) := by
  obtain ⟨_, _, _, n4⟩ := Deque.zipNext_spec it d1 d2 m h1 h2
  obtain ⟨_, _, _, _, _, r6, r7, r8⟩ := Deque.zipRemove_spec it d1 d2 m h1 h2
  obtain ⟨_, _, _, _, p5, p6, p7⟩ := Deque.zipReplace_spec it d1 d2 x y m h1 h2
  obtain ⟨a1, a2, a3, _⟩ := Deque.zipAdd_safe it d1 d2 x y m h1 h2
  exact ⟨n4, ⟨r6, r7, r8⟩, ⟨p5, p6, p7⟩, ⟨a1, a2, a3⟩⟩

/-- **(b) ledger of construction**: the constructor and each builder either produce an object that
satisfies the invariant and owns exactly two more blocks **on the triple it was given / inherited**
(`memRel t 2`: other triple untouched, no fault), or produce nothing and leave everything balanced —
whichever request was refused -/
theorem builders_ledger (d : Deque) (confCap : Nat) (t : Triple) (cp : Option (Nat → Nat)) (p : Nat → Bool)
    (m : Mem) (hi : d.Inv) :
    ((∃ c, (Deque.new confCap t m).2.1 = some c ∧ c.Inv ∧ c.triple = t ∧ Deque.memRel t 2 (Deque.new confCap t m).2.2 m) ∨
      ((Deque.new confCap t m).2.1 = none ∧ Deque.memSame t (Deque.new confCap t m).2.2 m)) ∧
    ((∃ c, (d.copy cp m).2.1 = some c ∧ c.Inv ∧ c.triple = d.triple ∧ Deque.memRel d.triple 2 (d.copy cp m).2.2 m) ∨
      ((d.copy cp m).2.1 = none ∧ Deque.memSame d.triple (d.copy cp m).2.2 m)) ∧
    ((∃ c, (d.filter p m).2.1 = some c ∧ c.Inv ∧ c.triple = d.triple ∧ Deque.memRel d.triple 2 (d.filter p m).2.2 m) ∨
      ((d.filter p m).2.1 = none ∧ Deque.memSame d.triple (d.filter p m).2.2 m)) := by
  refine ⟨?_, ?_, ?_⟩
  · rcases Deque.new_spec confCap t m with ⟨_, c, n2, n3, _, _, n6, n7, _⟩ | ⟨_, n2, n3, _⟩
    · exact Or.inl ⟨c, n2, n3, n6, n7⟩
    · exact Or.inr ⟨n2, n3⟩
  · rcases Deque.copy_spec d cp m hi with ⟨_, c, n2, n3, _, _, n6, n7, _⟩ | ⟨_, n2, n3, _⟩
    · exact Or.inl ⟨c, n2, n3, n6, n7⟩
    · exact Or.inr ⟨n2, n3⟩
  · rcases Deque.filter_spec d p m hi with ⟨_, h2, _⟩ | ⟨_, _, _, c, f1, f2, _, _, f5, f6, _⟩ | ⟨_, _, f3, f4, _⟩
    · rw [h2]; exact Or.inr ⟨rfl, Deque.memSame_refl _ m⟩
    · exact Or.inl ⟨c, f1, f2, f5, f6⟩
    · exact Or.inr ⟨f3, f4⟩

/-- **every block is released exactly once**: construct (any configured capacity, either triple, any
refusal schedule), run any history (refusals included), destroy — both balances are back at their initial
values, nothing faulted (no double free, no release through the wrong triple: that would unbalance the other
side), and the other triple saw no event at all; a refused construction yields no object and a balanced
ledger -/
theorem destroy_releases_all (confCap : Nat) (t : Triple) (m0 : Mem) (ops : List Op) :
    (∃ d0, (Deque.new confCap t m0).2.1 = some d0 ∧
      Deque.memSame t ((runM d0 (Deque.new confCap t m0).2.2 ops).2.1.destroy
        (runM d0 (Deque.new confCap t m0).2.2 ops).2.2) m0) ∨
    ((Deque.new confCap t m0).2.1 = none ∧ Deque.memSame t (Deque.new confCap t m0).2.2 m0) := by
  rcases Deque.new_spec confCap t m0 with ⟨_, d0, n2, n3, _, _, n6, n7, _⟩ | ⟨_, n2, n3, _⟩
  · left
    obtain ⟨_, h2, h3⟩ := history_nofault ops d0 (Deque.new confCap t m0).2.2 n3
    rw [n6] at h2 h3
    have hrun : Deque.memRel t 2 (runM d0 (Deque.new confCap t m0).2.2 ops).2.2 m0 := Deque.memRel_same h2 n7
    have hd := Deque.destroy_ledger (runM d0 (Deque.new confCap t m0).2.2 ops).2.1
      (runM d0 (Deque.new confCap t m0).2.2 ops).2.2 (by rw [h3]; have := hrun.1; omega)
    rw [h3] at hd
    exact ⟨d0, n2, Deque.memD_norm (k := 0) (j := 2) (by simpa using Deque.memD_trans hd hrun)⟩
  · exact Or.inr ⟨n2, n3⟩

/-- **iterator programs are safe as a whole**: any program of iterator calls (next / remove / add / replace /
index in any pattern, from any cursor, `add` also inside finding D3's range, any refusal schedule) keeps the
invariant, the fault flag, both ledger balances and the deque's triple -/
theorem iterator_program_safe (ops : List C07Deque.IOp) (it : Deque.Iter) (d : Deque) (m : Mem) (hi : d.Inv) :
    (C07Deque.runI it d m ops).2.2.1.Inv ∧ Deque.memSame d.triple (C07Deque.runI it d m ops).2.2.2 m ∧
    (C07Deque.runI it d m ops).2.2.1.triple = d.triple := by
  induction ops generalizing it d m with
  | nil => exact ⟨hi, Deque.memSame_refl _ m, rfl⟩
  | cons op ops ih =>
    have hstep : (C07Deque.stepI it d m op).2.2.1.Inv ∧ Deque.memSame d.triple (C07Deque.stepI it d m op).2.2.2 m := by
      obtain ⟨n4, ⟨r5, r6⟩, ⟨p4, p5⟩, ⟨a1, a2⟩⟩ := iterator_safe it d 0 m hi
      cases op with
      | next => exact ⟨hi, by simp only [C07Deque.stepI]; rw [n4]; exact Deque.memSame_refl _ m⟩
      | remove => exact ⟨r5, by simp only [C07Deque.stepI]; rw [r6]; exact Deque.memSame_refl _ m⟩
      | add x => exact ⟨(iterator_safe it d x m hi).2.2.2.1, (iterator_safe it d x m hi).2.2.2.2⟩
      | replace x =>
        exact ⟨(iterator_safe it d x m hi).2.2.1.1, by
          simp only [C07Deque.stepI]; rw [(iterator_safe it d x m hi).2.2.1.2]; exact Deque.memSame_refl _ m⟩
      | index => exact ⟨hi, Deque.memSame_refl _ m⟩
    have htr := C07Deque.stepI_triple it d m op
    obtain ⟨r1, r2, r3⟩ := ih (C07Deque.stepI it d m op).2.1 (C07Deque.stepI it d m op).2.2.1
      (C07Deque.stepI it d m op).2.2.2 hstep.1
    simp only [C07Deque.runI]
    rw [htr] at r2 r3
    exact ⟨r1, Deque.memSame_trans r2 hstep.2, r3⟩

/-- **whole lifecycle with an iterator session**: construct (any capacity, either triple, any schedule), run
any history, run any iterator program over the result, destroy — both balances are back where they started,
nothing faulted, the other triple saw no event -/
theorem lifecycle_with_iterator_releases_all (confCap : Nat) (t : Triple) (m0 : Mem) (ops : List Op)
    (prog : List C07Deque.IOp) (d0 : Deque) (h : (Deque.new confCap t m0).2.1 = some d0) :
    Deque.memSame t
      ((C07Deque.runI {} (runM d0 (Deque.new confCap t m0).2.2 ops).2.1
          (runM d0 (Deque.new confCap t m0).2.2 ops).2.2 prog).2.2.1.destroy
        (C07Deque.runI {} (runM d0 (Deque.new confCap t m0).2.2 ops).2.1
          (runM d0 (Deque.new confCap t m0).2.2 ops).2.2 prog).2.2.2) m0 := by
  rcases Deque.new_spec confCap t m0 with ⟨_, d, n2, n3, _, _, n6, n7, _⟩ | ⟨_, n2, _⟩
  · rw [n2] at h; cases h
    obtain ⟨h1, h2, h3⟩ := history_nofault ops d0 (Deque.new confCap t m0).2.2 n3
    obtain ⟨p1, p2, p3⟩ := iterator_program_safe prog {} _ (runM d0 (Deque.new confCap t m0).2.2 ops).2.2 h1
    rw [h3, n6] at p2 p3
    rw [n6] at h2
    have hrun : Deque.memRel t 2 (C07Deque.runI {} (runM d0 (Deque.new confCap t m0).2.2 ops).2.1
        (runM d0 (Deque.new confCap t m0).2.2 ops).2.2 prog).2.2.2 m0 :=
      Deque.memRel_same p2 (Deque.memRel_same h2 n7)
    have hd := Deque.destroy_ledger (C07Deque.runI {} (runM d0 (Deque.new confCap t m0).2.2 ops).2.1
        (runM d0 (Deque.new confCap t m0).2.2 ops).2.2 prog).2.2.1
      (C07Deque.runI {} (runM d0 (Deque.new confCap t m0).2.2 ops).2.1
        (runM d0 (Deque.new confCap t m0).2.2 ops).2.2 prog).2.2.2 (by rw [p3]; have := hrun.1; omega)
    rw [p3] at hd
    exact Deque.memD_norm (k := 0) (j := 2) (by simpa using Deque.memD_trans hd hrun)
  · rw [n2] at h; cases h

/-- ledger consistency: the two blocks a deque owns (header, buffer) are accounted for on its triple.  It is
established by the constructor and the builders and preserved by every operation, so it is not an extra
assumption about reachable states -/
def Owns (d : Deque) (m : Mem) : Prop := 2 ≤ Deque.liveOf d.triple m

theorem new_owns (confCap : Nat) (t : Triple) (m : Mem) (d : Deque) (h : (Deque.new confCap t m).2.1 = some d) :
    Owns d (Deque.new confCap t m).2.2 := by
  rcases Deque.new_spec confCap t m with ⟨_, d', n2, _, _, _, n6, n7, _⟩ | ⟨_, n2, _⟩
  · rw [n2] at h; cases h
    unfold Owns; rw [n6]; have := n7.1; omega
  · rw [n2] at h; cases h

theorem step_owns (d : Deque) (m : Mem) (op : Op) (hi : d.Inv) (ho : Owns d m) :
    Owns (stepM d m op).2.1 (stepM d m op).2.2 := by
  obtain ⟨_, s2, s3⟩ := step_safe d m op hi
  unfold Owns at ho ⊢
  rw [s3]; have := s2.1; omega

/-- **(c) callbacks**: `foreach` — and therefore `remove_all_cb` and `destroy_cb`, which are `foreach`
followed by `remove_all` (and `destroy`) — hands each held element to the callback exactly once, front to
back: the callback log is the abstraction; afterwards the deque is empty and `destroy_cb` has released
both blocks through the deque's triple -/
theorem callbacks_visit_each_once (d : Deque) (m : Mem) (hi : d.Inv) (hlive : Owns d m) :
    (d.foreach m).1 = d.abs ∧ (d.foreach m).2 = m ∧ d.removeAll.abs = [] ∧ d.removeAll.Inv ∧
    Deque.memD d.triple 0 2 (d.removeAll.destroy (d.foreach m).2) m := by
  obtain ⟨f1, f2⟩ := Deque.foreach_spec d m hi
  obtain ⟨r1, r2, _⟩ := Deque.removeAll_spec d hi
  have g := Deque.destroy_ledger d.removeAll m hlive
  rw [f2]
  exact ⟨f1, rfl, r2, r1, g⟩

/-- non-vacuity: a wrapped, exactly full deque on the C library triple grows without touching the
configured side of the ledger -/
example : (Deque.mk 4 4 3 3 [12, 13, 14, 11] .libc).Inv ∧
    (stepM (Deque.mk 4 4 3 3 [12, 13, 14, 11] .libc) { sched := [true], liveLibc := 2 } (.addLast 5)).1 = ⟨some .ok, none, []⟩ ∧
    (stepM (Deque.mk 4 4 3 3 [12, 13, 14, 11] .libc) { sched := [true], liveLibc := 2 } (.addLast 5)).2.2.liveLibc = 2 := by
  decide

end CC.Properties.C06Deque
