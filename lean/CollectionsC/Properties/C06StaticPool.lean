import CollectionsC.Properties.C12
/-! # C06 (static pool part): no fault, nothing owned

A static pool works inside a buffer the caller supplies: it never calls an allocator, so there is
nothing to leak; memory safety means that the only bytes it writes itself (the `memset` of calloc)
and every block it hands out lie inside the region. -/
namespace CC.Properties.C06StaticPool
open CC CC.Spec
open CC.Spec.SPool (Op)

/-- no operation faults (the `memset` of calloc stays inside the region; user writes within the
region are the documented contract `OpOk`) and none touches the allocator: the ledger record is
returned unchanged -/
theorem nofault (s : StaticPool) (op : Op) (m : Mem) (h : s.Inv) (hsz : s.core.size < sizeMod)
    (hop : C12.OpOk s.core.size op) : (s.step op m).2.2 = m :=
  (C12.step_refines s op m h hsz hop).2.2.2.2

theorem history_nofault (ops : List Op) (s : StaticPool) (m : Mem) (h : s.Inv) (hsz : s.core.size < sizeMod)
    (hops : ∀ op ∈ ops, C12.OpOk s.core.size op) : (s.run ops m).2.2 = m :=
  (C12.history_refines ops s m h hsz hops).2.2.2

/-- the pool owns no allocator block: from construction through any history the number of live
blocks and the fault flag are what they were (there is no `destroy`; nothing can leak) -/
theorem owns_nothing (size : Nat) (bytes : Buf Nat) (hb : bytes.length = size) (hsz : size < sizeMod) (m : Mem)
    (ops : List Op) (hops : ∀ op ∈ ops, C12.OpOk size op) :
    ((StaticPool.new size bytes).run ops m).2.2.live = m.live ∧
    ((StaticPool.new size bytes).run ops m).2.2.fault = m.fault := by
  rw [(C12.new_history_refines size bytes hb hsz m ops hops).2.2.2.2]; exact ⟨rfl, rfl⟩

/-- every block handed out and still live lies inside the region, in every reachable state -/
theorem reachable_blocks_in_region (size : Nat) (bytes : Buf Nat) (hb : bytes.length = size) (hsz : size < sizeMod)
    (m : Mem) (ops : List Op) (hops : ∀ op ∈ ops, C12.OpOk size op) :
    ∀ b ∈ ((StaticPool.new size bytes).run ops m).2.1.blocks, b.1 + b.2 ≤ size := by
  have hi := StaticPool.new_inv size bytes hb
  have hh := C12.history_refines ops (StaticPool.new size bytes) m hi hsz hops
  have hwf := StaticPool.abs_wf _ hh.2.2.1
  have hsize : ((StaticPool.new size bytes).run ops m).2.1.abs.size = size := by
    rw [hh.2.1, SPool.run_size]; rfl
  intro b hb'
  have := (C12.live_blocks_contained_disjoint _ hwf).1 b hb'
  rw [hsize] at this
  exact this

end CC.Properties.C06StaticPool
