import CollectionsC.Properties.C03
/-! # C17 — CC_TreeTable stays balanced: logarithmic comparisons for every history

Statements and closing proofs only.  `Tree.RB` is the red-black invariant (root black, no red node
with a red child, equal black heights); it is part of `TreeTable.Inv`, so C03's history theorem
already carries it through every history.  Here: it is preserved by each of the tree functions
(`rebalance_after_insert`, `rebalance_after_delete` with all CLRS cases and mirror images, the
two-child rule, first/last, iterator removal), it bounds the height by `2·⌊log₂(n+1)⌋`, and every
public call on a table holding `n` keys invokes the comparator at most `2·⌊log₂(n+1)⌋ + 2` times.
Nothing is assumed about the comparator for the per-function balance statements and for
`balanced_any_cmp`; the history statements assume a total-order comparator (so that the table is a
search tree and the size field can be tracked through the ideal map).

**Model boundary.**  Balance is proved for the algebraic tree.  That the pointer code — rotations with
their re-parenting lines, `transplant`, and `rebalance_after_delete` reading `x->parent` of the shared
sentinel (the "sentinel parent trick") — performs CLRS's cases at these nodes is not a theorem here: it
rests on the correspondence harness, which compares the complete pre-order dump (keys, values, colours,
shape) of the C heap with this model after every operation and walks parent pointers, colours and black
heights on the C heap itself. -/
namespace CC.Properties.C17
open CC CC.Spec CC.Spec.OrdMap

variable {cmp : Nat → Nat → Int}

/-- insertion of a new key (descent, `rebalance_after_insert`, root blackened) preserves `RB` -/
theorem insert_balanced (k v : Nat) (t : Tree) (h : t.RB) : (Tree.ins cmp k v t).1.blacken.RB :=
  Tree.RB_insert k v t h
/-- replacing the value of an existing key preserves `RB` -/
theorem replace_balanced (k v : Nat) (t : Tree) (h : t.RB) (hn : (Tree.ins cmp k v t).2.1 = false) :
    (Tree.ins cmp k v t).1.RB := Tree.RB_replace k v t h hn
/-- removal by key (`remove_node` + `rebalance_after_delete`) preserves `RB` -/
theorem delete_balanced (k : Nat) (t : Tree) (h : t.RB) : (Tree.del cmp k t).1.blacken.RB :=
  Tree.RB_delete k t h
/-- `remove_first` / `remove_last` preserve `RB` -/
theorem delete_first_balanced (t : Tree) (h : t.RB) : t.delMin.1.blacken.RB := Tree.RB_delMin t h
theorem delete_last_balanced (t : Tree) (h : t.RB) : t.delMax.1.blacken.RB := Tree.RB_delMax t h

/-- **height bound**: a red-black tree with `n` keys has height at most `2·⌊log₂(n+1)⌋` -/
theorem height_bound (t : Tree) (h : t.RB) : t.height ≤ 2 * Nat.log2 (t.size + 1) :=
  Tree.height_le_log t h

/-- a lookup compares at most once per level, an insertion once per level plus once at the parent -/
theorem lookup_comparisons (k : Nat) (t : Tree) : (Tree.find cmp k t).2 ≤ t.height :=
  Tree.find_cnt_le_height k t
theorem insert_comparisons (k v : Nat) (t : Tree) : (Tree.ins cmp k v t).2.2 ≤ t.height :=
  Tree.ins_cnt_le_height k v t

/-- **C17, one call**: on a table holding `n = t.size` keys any public call keeps the tree balanced
and invokes the comparator at most `2·⌊log₂(n+1)⌋ + 2` times -/
theorem C17_step (ho : TotalOrder cmp) (t : TreeTable) (h : t.Inv cmp) (op : Op) (m : Mem)
    (hm : TreeTable.Owns t m) :
    (t.step cmp op m).2.1.root.RB ∧
    (t.step cmp op m).2.1.root.height ≤ 2 * Nat.log2 ((t.step cmp op m).2.1.size + 1) ∧
    (t.step cmp op m).2.2.2 ≤ 2 * Nat.log2 (t.size + 1) + 2 := by
  have s := C03.step_refines ho t h op m hm
  refine ⟨s.inv.2.1, ?_, s.cmps⟩
  rw [s.inv.2.2]; exact height_bound _ s.inv.2.1

/-- **C17, all histories** (insertions and removals in any order, by key / first / last / all,
under any allocator schedule): the tree is balanced at the end — hence after every prefix — and every
single call stayed within the comparator budget for the number of keys it found. -/
theorem C17 (ho : TotalOrder cmp) (ops : List (Op × List Bool)) (t : TreeTable) (h : t.Inv cmp) (m : Mem)
    (hm : TreeTable.Owns t m) :
    (t.run cmp ops m).2.2.1.root.RB ∧
    (t.run cmp ops m).2.2.1.root.height ≤ 2 * Nat.log2 ((t.run cmp ops m).2.2.1.size + 1) ∧
    ∀ p ∈ (t.run cmp ops m).2.1, p.2 ≤ 2 * Nat.log2 (p.1 + 1) + 2 := by
  obtain ⟨_, _, c, _, _, _, f⟩ := C03.history_refines ho ops t h m hm
  refine ⟨c.2.1, ?_, f⟩
  rw [c.2.2]; exact height_bound _ c.2.1

/-- removal through the iterator keeps the tree balanced as well (`iter_next` / `iter_remove` make no
comparator calls in the C code, so there is no count to bound) -/
theorem C17_iterator (ho : TotalOrder cmp) (t : TreeTable) (h : t.Inv cmp) (prog : List IterOp) (m : Mem)
    (hm : TreeTable.Owns t m) :
    (t.iterRun cmp t.iterInit prog m).2.1.root.RB ∧
    (t.iterRun cmp t.iterInit prog m).2.1.root.height ≤
      2 * Nat.log2 ((t.iterRun cmp t.iterInit prog m).2.1.size + 1) := by
  have c := (C03.iter_refines ho t h prog m hm).2.2.1
  refine ⟨c.2.1, ?_⟩
  rw [c.2.2]; exact height_bound _ c.2.1

/-- **C17 for sessions**: histories that interleave table calls with iterator sessions ("including
removals through the iterator and of first/last") end in a balanced tree -/
theorem C17_session (ho : TotalOrder cmp) (segs : List Segment) (t : TreeTable) (h : t.Inv cmp) (m : Mem)
    (hm : TreeTable.Owns t m) :
    (t.runSession cmp segs m).2.1.root.RB ∧
    (t.runSession cmp segs m).2.1.root.height ≤ 2 * Nat.log2 ((t.runSession cmp segs m).2.1.size + 1) := by
  have c := (C03.session_refines ho segs t h m hm).2.2.1
  refine ⟨c.2.1, ?_⟩
  rw [c.2.2]; exact height_bound _ c.2.1

/-- balance needs no assumption on the comparator: for **any** function `cmp` (not even an order) every
call preserves "red-black rules ∧ size field = node count", and the comparator budget holds -/
theorem balanced_any_cmp (t : TreeTable) (hrb : t.root.RB) (hs : t.size = t.root.size) (op : Op) (m : Mem) :
    (t.step cmp op m).2.1.root.RB ∧
    ((t.step cmp op m).2.2.2 ≤ 2 * Nat.log2 (t.size + 1) + 2) := by
  have hlook : ∀ k, (t.lookup cmp k).2 ≤ 2 * Nat.log2 (t.size + 1) := by
    intro k
    unfold TreeTable.lookup
    split
    · exact Nat.zero_le _
    · rw [hs]; exact Nat.le_trans (Tree.find_cnt_le_height k t.root) (height_bound _ hrb)
  cases op with
  | add k v =>
    have hc : (Tree.ins cmp k v t.root).2.2 ≤ 2 * Nat.log2 (t.size + 1) := by
      rw [hs]; exact Nat.le_trans (Tree.ins_cnt_le_height k v t.root) (height_bound _ hrb)
    simp only [TreeTable.step]; unfold TreeTable.add; dsimp only
    split
    · rename_i hn
      simp only [Bool.not_eq_true'] at hn
      exact ⟨Tree.RB_replace k v t.root hrb hn, by show (Tree.ins cmp k v t.root).2.2 ≤ _; omega⟩
    · split
      · exact ⟨hrb, by show (Tree.ins cmp k v t.root).2.2 ≤ _; omega⟩
      · refine ⟨Tree.RB_insert k v t.root hrb, ?_⟩
        show (if t.root = .nil then _ else _) ≤ _
        split <;> omega
  | remove k =>
    have := hlook k
    simp only [TreeTable.step]; unfold TreeTable.remove
    generalize t.lookup cmp k = r at this ⊢
    rcases r with ⟨_ | v, n⟩
    · exact ⟨hrb, by simp only at this ⊢; omega⟩
    · exact ⟨Tree.RB_delete k t.root hrb, by simp only at this ⊢; omega⟩
  | removeFirst =>
    simp only [TreeTable.step]; unfold TreeTable.removeFirst
    split
    · exact ⟨hrb, Nat.zero_le _⟩
    · cases t.root.minEntry with
      | none => exact ⟨hrb, Nat.zero_le _⟩
      | some e => exact ⟨Tree.RB_delMin t.root hrb, Nat.zero_le _⟩
  | removeLast =>
    simp only [TreeTable.step]; unfold TreeTable.removeLast
    split
    · exact ⟨hrb, Nat.zero_le _⟩
    · cases t.root.maxEntry with
      | none => exact ⟨hrb, Nat.zero_le _⟩
      | some e => exact ⟨Tree.RB_delMax t.root hrb, Nat.zero_le _⟩
  | removeAll => exact ⟨⟨trivial, rfl⟩, Nat.zero_le _⟩
  | get k =>
    refine ⟨hrb, ?_⟩
    have := hlook k
    simp only [TreeTable.step]; unfold TreeTable.get
    generalize t.lookup cmp k = r at this ⊢
    rcases r with ⟨_ | v, n⟩ <;> (simp only at this ⊢; omega)
  | containsKey k => exact ⟨hrb, by have := hlook k; simp only [TreeTable.step, TreeTable.containsKey]; omega⟩
  | greaterThan k =>
    refine ⟨hrb, ?_⟩
    have := hlook k
    simp only [TreeTable.step]; unfold TreeTable.greaterThan
    generalize t.lookup cmp k = r at this ⊢
    rcases r with ⟨_ | v, n⟩
    · simp only at this ⊢; omega
    · cases Tree.succOfKey cmp t.root k <;> (simp only at this ⊢; omega)
  | lesserThan k =>
    refine ⟨hrb, ?_⟩
    have := hlook k
    simp only [TreeTable.step]; unfold TreeTable.lesserThan
    generalize t.lookup cmp k = r at this ⊢
    rcases r with ⟨_ | v, n⟩
    · simp only at this ⊢; omega
    · cases Tree.predOfKey cmp t.root k <;> (simp only at this ⊢; omega)
  | _ => exact ⟨hrb, Nat.zero_le _⟩

/-! ## Non-vacuity: the bound is attained, and a degenerate tree violates the invariant -/

/-- a tree of 6 keys with height 4 = 2·⌊log₂ 7⌋ satisfies `RB` -/
example :
    (Tree.node .black (Tree.node .black .nil 1 0 .nil) 2 0
      (Tree.node .red (Tree.node .black .nil 3 0 .nil) 4 0
        (Tree.node .black .nil 5 0 (Tree.node .red .nil 6 0 .nil)))).RB ∧
    (Tree.node .black (Tree.node .black .nil 1 0 .nil) 2 0
      (Tree.node .red (Tree.node .black .nil 3 0 .nil) 4 0
        (Tree.node .black .nil 5 0 (Tree.node .red .nil 6 0 .nil)))).height = 4 := by decide
/-- a list-shaped tree of three keys does not -/
example : ¬ (Tree.node .black .nil 1 0 (Tree.node .black .nil 2 0 (Tree.node .black .nil 3 0 .nil))).RB := by
  decide

end CC.Properties.C17
