import CollectionsC.Properties.C03
/-! # C17 — CC_TreeTable stays balanced: logarithmic comparisons for every history

Statements and closing proofs only.  `Tree.RB` is the red-black invariant (root black, no red node
with a red child, equal black heights); it is part of `TreeTable.Inv`, so C03's history theorem
already carries it through every history.  Here: it is preserved by each of the tree functions
(`rebalance_after_insert`, `rebalance_after_delete` with all CLRS cases and mirror images, the
two-child rule, first/last, iterator removal), it bounds the height by `2·⌊log₂(n+1)⌋`, and every
public call on a table holding `n` keys invokes the comparator at most `2·⌊log₂(n+1)⌋ + 2` times.
Nothing is assumed about the comparator for the balance statements; the history statements assume
a total-order comparator (so that the table is a search tree). -/
namespace CC.Properties.C17
open CC CC.Spec CC.Spec.OrdMap

variable {cmp : Nat → Nat → Int}

/-- insertion of a new key (descent, `rebalance_after_insert`, root blackened) preserves `RB` -/
theorem insert_balanced (k v : Nat) (t : Tree) (h : t.RB) : (Tree.ins cmp k v t).1.blacken.RB :=
  Tree.RB_insert k v t h
/-- replacing the value of an existing key preserves `RB` -/
theorem replace_balanced (k v : Nat) (t : Tree) (h : t.RB) (hn : (Tree.ins cmp k v t).2.1 = false) :
    (Tree.ins cmp k v t).1.RB := Tree.RB_replace k v t h hn
/-- removal by key (`remove_node` + `rebalance_after_delete`) preserves `RB` -/
theorem delete_balanced (k : Nat) (t : Tree) (h : t.RB) : (Tree.del cmp k t).1.blacken.RB :=
  Tree.RB_delete k t h
/-- `remove_first` / `remove_last` preserve `RB` -/
theorem delete_first_balanced (t : Tree) (h : t.RB) : t.delMin.1.blacken.RB := Tree.RB_delMin t h
theorem delete_last_balanced (t : Tree) (h : t.RB) : t.delMax.1.blacken.RB := Tree.RB_delMax t h

/-- **height bound**: a red-black tree with `n` keys has height at most `2·⌊log₂(n+1)⌋` -/
theorem height_bound (t : Tree) (h : t.RB) : t.height ≤ 2 * Nat.log2 (t.size + 1) :=
  Tree.height_le_log t h

/-- a lookup compares at most once per level, an insertion once per level plus once at the parent -/
theorem lookup_comparisons (k : Nat) (t : Tree) : (Tree.find cmp k t).2 ≤ t.height :=
  Tree.find_cnt_le_height k t
theorem insert_comparisons (k v : Nat) (t : Tree) : (Tree.ins cmp k v t).2.2 ≤ t.height :=
  Tree.ins_cnt_le_height k v t

/-- **C17, one call**: on a table holding `n = t.size` keys any public call keeps the tree balanced
and invokes the comparator at most `2·⌊log₂(n+1)⌋ + 2` times -/
theorem C17_step (ho : TotalOrder cmp) (t : TreeTable) (h : t.Inv cmp) (op : Op) (m : Mem)
    (hm : t.size + 2 ≤ m.live) :
    (t.step cmp op m).2.1.root.RB ∧
    (t.step cmp op m).2.1.root.height ≤ 2 * Nat.log2 ((t.step cmp op m).2.1.size + 1) ∧
    (t.step cmp op m).2.2.2 ≤ 2 * Nat.log2 (t.size + 1) + 2 := by
  have s := C03.step_refines ho t h op m hm
  refine ⟨s.inv.2.1, ?_, s.cmps⟩
  rw [s.inv.2.2]; exact height_bound _ s.inv.2.1

/-- **C17, all histories** (insertions and removals in any order, by key / first / last / all,
under any allocator schedule): the tree is balanced at the end — hence after every prefix — and every
single call stayed within the comparator budget for the number of keys it found. -/
theorem C17 (ho : TotalOrder cmp) (ops : List (Op × List Bool)) (t : TreeTable) (h : t.Inv cmp) (m : Mem)
    (hm : t.size + 2 ≤ m.live) :
    (t.run cmp ops m).2.2.1.root.RB ∧
    (t.run cmp ops m).2.2.1.root.height ≤ 2 * Nat.log2 ((t.run cmp ops m).2.2.1.size + 1) ∧
    ∀ p ∈ (t.run cmp ops m).2.1, p.2 ≤ 2 * Nat.log2 (p.1 + 1) + 2 := by
  obtain ⟨_, _, c, _, _, f⟩ := C03.history_refines ho ops t h m hm
  refine ⟨c.2.1, ?_, f⟩
  rw [c.2.2]; exact height_bound _ c.2.1

/-- removal through the iterator keeps the tree balanced as well -/
theorem C17_iterator (ho : TotalOrder cmp) (t : TreeTable) (h : t.Inv cmp) (prog : List IterOp) (m : Mem)
    (hm : t.size + 2 ≤ m.live) :
    (t.iterRun cmp t.iterInit prog m).2.1.root.RB ∧
    (t.iterRun cmp t.iterInit prog m).2.1.root.height ≤
      2 * Nat.log2 ((t.iterRun cmp t.iterInit prog m).2.1.size + 1) := by
  have c := (C03.iter_refines ho t h prog m hm).2.2.1
  refine ⟨c.2.1, ?_⟩
  rw [c.2.2]; exact height_bound _ c.2.1

/-! ## Non-vacuity: the bound is attained, and a degenerate tree violates the invariant -/

/-- a tree of 6 keys with height 4 = 2·⌊log₂ 7⌋ satisfies `RB` -/
example :
    (Tree.node .black (Tree.node .black .nil 1 0 .nil) 2 0
      (Tree.node .red (Tree.node .black .nil 3 0 .nil) 4 0
        (Tree.node .black .nil 5 0 (Tree.node .red .nil 6 0 .nil)))).RB ∧
    (Tree.node .black (Tree.node .black .nil 1 0 .nil) 2 0
      (Tree.node .red (Tree.node .black .nil 3 0 .nil) 4 0
        (Tree.node .black .nil 5 0 (Tree.node .red .nil 6 0 .nil)))).height = 4 := by decide
/-- a list-shaped tree of three keys does not -/
example : ¬ (Tree.node .black .nil 1 0 (Tree.node .black .nil 2 0 (Tree.node .black .nil 3 0 .nil))).RB := by
  decide

end CC.Properties.C17
