import CollectionsC.Properties.C03
import CollectionsC.Proofs.TreeTableAnyCmp
/-! # C17 — CC_TreeTable stays balanced: logarithmic comparisons for every history

Statements and closing proofs only.  `Tree.RB` is the red-black invariant (root black, no red node
with a red child, equal black heights); it is part of `TreeTable.Inv`, so C03's history theorem
already carries it through every history.  Here: it is preserved by each of the tree functions
(`rebalance_after_insert`, `rebalance_after_delete` with all CLRS cases and mirror images, the
two-child rule, first/last, iterator removal), it bounds the height by `2·⌊log₂(n+1)⌋`, and every
public call on a table holding `n` keys invokes the comparator at most `2·⌊log₂(n+1)⌋ + 2` times.
Nothing is assumed about the comparator for the per-function balance statements and for
`balanced_any_cmp`; the history statements assume a total-order comparator (so that the table is a
search tree and the size field can be tracked through the ideal map).

**Model boundary.**  Balance and the comparison counts in this file are proved for the algebraic tree.  For the
pointer code — rotations with their re-parenting lines, `transplant`, `rebalance_after_delete` reading `x->parent` of
the shared sentinel — `Properties/C03PTree.lean` proves on the pointer-level model `Model/PTree.lean`: the insert
fix-up loop and the delete fix-up loop restore `RB` (`rebalance_after_insert_rb`, `rebalance_after_delete_rb`), every
reachable state represents a red-black search tree (`reachable_states_good`, `phistory_refines_ordmap`), and the
pointer-level descent makes at most `2·⌊log₂(n+1)⌋ (+2 for add)` comparator calls (`descent_comparisons`, with
`descent_count_is_model_count`: it is the count of this file's model).  The correspondence harness additionally
compares the complete pre-order dump (keys, values, colours, shape, node and parent ids) of the C heap with the model
after every operation, counts the comparator calls of the C code and walks parent pointers, colours and black
heights on the C heap itself. -/
namespace CC.Properties.C17
open CC CC.Spec CC.Spec.OrdMap

variable {cmp : Nat → Nat → Int}

/-- insertion of a new key (descent, `rebalance_after_insert`, root blackened) preserves `RB` -/
theorem insert_balanced (k v : Nat) (t : Tree) (h : t.RB) : (Tree.ins cmp k v t).1.blacken.RB :=
  Tree.RB_insert k v t h
/-- replacing the value of an existing key preserves `RB` -/
theorem replace_balanced (k v : Nat) (t : Tree) (h : t.RB) (hn : (Tree.ins cmp k v t).2.1 = false) :
    (Tree.ins cmp k v t).1.RB := Tree.RB_replace k v t h hn
/-- removal by key (`remove_node` + `rebalance_after_delete`) preserves `RB` -/
theorem delete_balanced (k : Nat) (t : Tree) (h : t.RB) : (Tree.del cmp k t).1.blacken.RB :=
  Tree.RB_delete k t h
/-- `remove_first` / `remove_last` preserve `RB` -/
theorem delete_first_balanced (t : Tree) (h : t.RB) : t.delMin.1.blacken.RB := Tree.RB_delMin t h
theorem delete_last_balanced (t : Tree) (h : t.RB) : t.delMax.1.blacken.RB := Tree.RB_delMax t h

/-- **height bound**: a red-black tree with `n` keys has height at most `2·⌊log₂(n+1)⌋` -/
theorem height_bound (t : Tree) (h : t.RB) : t.height ≤ 2 * Nat.log2 (t.size + 1) :=
  Tree.height_le_log t h

/-- a lookup compares at most once per level, an insertion once per level plus once at the parent -/
theorem lookup_comparisons (k : Nat) (t : Tree) : (Tree.find cmp k t).2 ≤ t.height :=
  Tree.find_cnt_le_height k t
theorem insert_comparisons (k v : Nat) (t : Tree) : (Tree.ins cmp k v t).2.2 ≤ t.height :=
  Tree.ins_cnt_le_height k v t

/-- **C17, one call**: on a table holding `n = t.size` keys any public call keeps the tree balanced
and invokes the comparator at most `2·⌊log₂(n+1)⌋ + 2` times -/
theorem C17_step (ho : TotalOrder cmp) (t : TreeTable) (h : t.Inv cmp) (op : Op) (m : Mem)
    (hm : TreeTable.Owns t m) :
    (t.step cmp op m).2.1.root.RB ∧
    (t.step cmp op m).2.1.root.height ≤ 2 * Nat.log2 ((t.step cmp op m).2.1.size + 1) ∧
    (t.step cmp op m).2.2.2 ≤ 2 * Nat.log2 (t.size + 1) + 2 := by
  have s := C03.step_refines ho t h op m hm
  refine ⟨s.inv.2.1, ?_, s.cmps⟩
  rw [s.inv.2.2]; exact height_bound _ s.inv.2.1

/-- **C17, all histories** (insertions and removals in any order, by key / first / last / all,
under any allocator schedule): the tree is balanced at the end — hence after every prefix — and every
single call stayed within the comparator budget for the number of keys it found. -/
theorem C17 (ho : TotalOrder cmp) (ops : List (Op × List Bool)) (t : TreeTable) (h : t.Inv cmp) (m : Mem)
    (hm : TreeTable.Owns t m) :
    (t.run cmp ops m).2.2.1.root.RB ∧
    (t.run cmp ops m).2.2.1.root.height ≤ 2 * Nat.log2 ((t.run cmp ops m).2.2.1.size + 1) ∧
    ∀ p ∈ (t.run cmp ops m).2.1, p.2 ≤ 2 * Nat.log2 (p.1 + 1) + 2 := by
  obtain ⟨_, _, c, _, _, _, f⟩ := C03.history_refines ho ops t h m hm
  refine ⟨c.2.1, ?_, f⟩
  rw [c.2.2]; exact height_bound _ c.2.1

/-- removal through the iterator keeps the tree balanced as well (`iter_next` / `iter_remove` make no
comparator calls in the C code, so there is no count to bound) -/
theorem C17_iterator (ho : TotalOrder cmp) (t : TreeTable) (h : t.Inv cmp) (prog : List IterOp) (m : Mem)
    (hm : TreeTable.Owns t m) :
    (t.iterRun cmp t.iterInit prog m).2.1.root.RB ∧
    (t.iterRun cmp t.iterInit prog m).2.1.root.height ≤
      2 * Nat.log2 ((t.iterRun cmp t.iterInit prog m).2.1.size + 1) := by
  have c := (C03.iter_refines ho t h prog m hm).2.2.1
  refine ⟨c.2.1, ?_⟩
  rw [c.2.2]; exact height_bound _ c.2.1

/-- **C17 for sessions**: histories that interleave table calls with iterator sessions ("including
removals through the iterator and of first/last") end in a balanced tree, and every table call of the
session stayed within the comparator budget (`sessionCounts`: keys before the call, comparator calls;
iterator calls make no comparator call in the C code — the harness prints `cmps=0` for them) -/
theorem C17_session (ho : TotalOrder cmp) (segs : List Segment) (t : TreeTable) (h : t.Inv cmp) (m : Mem)
    (hm : TreeTable.Owns t m) :
    (t.runSession cmp segs m).2.1.root.RB ∧
    (t.runSession cmp segs m).2.1.root.height ≤ 2 * Nat.log2 ((t.runSession cmp segs m).2.1.size + 1) ∧
    ∀ p ∈ t.sessionCounts cmp segs m, p.2 ≤ 2 * Nat.log2 (p.1 + 1) + 2 := by
  have c := (C03.session_refines ho segs t h m hm).2.2.1
  refine ⟨c.2.1, ?_, TreeTable.session_counts_ok ho segs h m hm⟩
  rw [c.2.2]; exact height_bound _ c.2.1

/-- balance needs no assumption on the comparator: for **any** function `cmp` (not even an order) every
call preserves `Balanced` = "red-black rules ∧ size field = node count" and keeps the comparator
budget.  (Iterator removal is not included: the model locates `current` by a descent, which presupposes
the order; the C code holds the pointer.) -/
theorem balanced_any_cmp (t : TreeTable) (hb : t.Balanced) (op : Op) (m : Mem) :
    (t.step cmp op m).2.1.Balanced ∧ (t.step cmp op m).2.2.2 ≤ 2 * Nat.log2 (t.size + 1) + 2 :=
  TreeTable.step_balanced hb op m

/-- … along every history: balanced at the end (hence after every prefix), every call within budget,
height logarithmic — for any comparator function, any allocator schedule -/
theorem balanced_any_cmp_history (ops : List (Op × List Bool)) (t : TreeTable) (hb : t.Balanced) (m : Mem) :
    (t.run cmp ops m).2.2.1.Balanced ∧
    (t.run cmp ops m).2.2.1.root.height ≤ 2 * Nat.log2 ((t.run cmp ops m).2.2.1.size + 1) ∧
    ∀ p ∈ (t.run cmp ops m).2.1, p.2 ≤ 2 * Nat.log2 (p.1 + 1) + 2 := by
  obtain ⟨a, b⟩ := TreeTable.run_balanced (cmp := cmp) ops hb m
  refine ⟨a, ?_, b⟩
  rw [a.2]; exact height_bound _ a.1

/-! ## Non-vacuity: the bound is attained, and a degenerate tree violates the invariant -/

/-- a tree of 6 keys with height 4 = 2·⌊log₂ 7⌋ satisfies `RB` -/
example :
    (Tree.node .black (Tree.node .black .nil 1 0 .nil) 2 0
      (Tree.node .red (Tree.node .black .nil 3 0 .nil) 4 0
        (Tree.node .black .nil 5 0 (Tree.node .red .nil 6 0 .nil)))).RB ∧
    (Tree.node .black (Tree.node .black .nil 1 0 .nil) 2 0
      (Tree.node .red (Tree.node .black .nil 3 0 .nil) 4 0
        (Tree.node .black .nil 5 0 (Tree.node .red .nil 6 0 .nil)))).height = 4 := by decide
/-- a list-shaped tree of three keys does not -/
example : ¬ (Tree.node .black .nil 1 0 (Tree.node .black .nil 2 0 (Tree.node .black .nil 3 0 .nil))).RB := by
  decide

open CC.Driver.TreeTableD (cmpOf) in
/-- the comparator budget is attained up to its slack of one: inserting 7 into the table built by
inserting 1 … 6 in ascending order makes 5 = 2·⌊log₂ 7⌋ + 1 comparator calls (4 on the way down, one at
the parent) -/
example :
    ((({} : TreeTable).run (cmpOf 0)
        [(.add 1 0, []), (.add 2 0, []), (.add 3 0, []), (.add 4 0, []), (.add 5 0, []), (.add 6 0, []),
         (.add 7 0, [])] {}).2.1.getLast?) = some (6, 5) ∧ 2 * Nat.log2 (6 + 1) + 1 = 5 := by decide

end CC.Properties.C17
