import CollectionsC.Properties.C03
import CollectionsC.Proofs.TreeTableMem
/-! # C07 (tree table / tree set part): iterators

The C iterator holds two node pointers (`current`, `next`, the latter computed before the entry is
handed out); `iter_remove` unlinks `current` with CLRS's deletion, which *moves* the successor node
instead of freeing it, so `next` stays valid.  The ideal cursor `(last, todo)` is
`Spec.OrdMap.Cursor`.  Quantifiers: every total-order comparator, every table satisfying the invariant
(any fill level), every program of `next` / `remove` calls. -/
namespace CC.Properties.C07Tree
open CC CC.Spec CC.Spec.OrdMap
variable {cmp : Nat → Nat → Int}

/-- **traversal_complete**: a fresh iterator and `n + 1` calls of `next` on a table of `n` entries
yield exactly the entries (key in `val`, value in `log`), once each, in ascending key order, then
`CC_ITER_END`; nothing is modified -/
theorem traversal_complete (ho : TotalOrder cmp) (t : TreeTable) (h : t.Inv cmp) (m : Mem)
    (hm : t.size + 2 ≤ m.live) :
    (t.iterRun cmp t.iterInit (List.replicate (t.size + 1) .next) m).1 =
      t.abs.map (fun e => { st := some .ok, val := some e.1, log := [e.2] }) ++ [{ st := some .iterEnd }] ∧
    (keys t.abs).Pairwise (fun a b => cmp a b < 0) ∧ (keys t.abs).Nodup := by
  have a := (C03.iter_refines ho t h (List.replicate (t.size + 1) .next) m hm).1
  rw [h.size_eq] at a ⊢
  rw [a, C03.cursor_enumerates ho t.abs h.sorted]
  exact ⟨rfl, keys_ascending h.sorted, TreeTable.keys_nodup ho h.sorted⟩

/-- **program_refines**: any program of `next` / `remove` calls on a fresh iterator produces the
statuses, keys and values of the ideal cursor and the ideal final content; the invariant (search-tree
order, red-black rules, size) holds afterwards — the pre-computed successor survived every deletion -/
theorem program_refines (ho : TotalOrder cmp) (t : TreeTable) (h : t.Inv cmp) (prog : List IterOp) (m : Mem)
    (hm : t.size + 2 ≤ m.live) :
    (t.iterRun cmp t.iterInit prog m).1 = ((Cursor.init t.abs).run t.abs prog).1 ∧
    (t.iterRun cmp t.iterInit prog m).2.1.abs = ((Cursor.init t.abs).run t.abs prog).2.2 ∧
    (t.iterRun cmp t.iterInit prog m).2.1.Inv cmp := by
  have := C03.iter_refines ho t h prog m hm
  exact ⟨this.1, this.2.1, this.2.2.1⟩

/-- what the ideal cursor does: `remove` erases exactly the entry yielded last (once), and the keys
still to be visited are untouched — the traversal continues over precisely the not-yet-visited
original entries -/
theorem cursor_remove_exact (c : Cursor) (m : OrdMap) (k : Nat) (hl : c.last = some k) :
    (c.remove m).1 = .ok ∧ (c.remove m).2.2.2 = erase m k ∧ (c.remove m).2.2.1.todo = c.todo ∧
    (c.remove m).2.2.1.last = none := by
  simp [Cursor.remove, hl]
theorem cursor_remove_twice (c : Cursor) (m : OrdMap) (hl : c.last = none) :
    (c.remove m).1 = .errKeyNotFound ∧ (c.remove m).2.2.2 = m ∧ (c.remove m).2.2.1 = c := by
  simp [Cursor.remove, hl]
/-- `next` hands out the head of `todo`; END exactly when nothing is left -/
theorem cursor_next_end_iff (c : Cursor) (m : OrdMap) : (c.next m).1 = .iterEnd ↔ c.todo = [] := by
  unfold Cursor.next; cases c.todo <;> simp
/-- the keys still to be visited after any program: the original keys minus one per successful `next` -/
theorem cursor_todo (prog : List IterOp) (c : Cursor) (m : OrdMap) :
    (c.run m prog).2.1.todo = c.todo.drop (prog.count .next) := by
  induction prog generalizing c m with
  | nil => simp [Cursor.run]
  | cons op rest ih =>
    cases op with
    | next =>
      simp only [Cursor.run, Cursor.step, List.count_cons_self]
      rw [ih]
      unfold Cursor.next
      cases hc : c.todo with
      | nil => simp [hc]
      | cons k r => simp [List.drop_succ_cons]
    | remove =>
      simp only [Cursor.run, Cursor.step]
      rw [ih]
      have : (c.remove m).2.2.1.todo = c.todo := by unfold Cursor.remove; cases c.last <;> rfl
      rw [this]; simp

/-! ## tree set -/

/-- set iterator programs: statuses and yielded elements are those of the ideal cursor over the
elements; final content ideal; invariant preserved -/
theorem set_program_refines (ho : TotalOrder cmp) (s : TreeSet) (h : s.Inv cmp) (prog : List IterOp) (m : Mem)
    (hm : s.t.size + 2 ≤ m.live) :
    (s.iterRun cmp s.iterInit prog m).1 =
      ((Cursor.init s.t.abs).run s.t.abs prog).1.map (fun o => { st := o.st, val := o.val }) ∧
    (s.iterRun cmp s.iterInit prog m).2.1.t.abs = ((Cursor.init s.t.abs).run s.t.abs prog).2.2 ∧
    (s.iterRun cmp s.iterInit prog m).2.1.t.Inv cmp := by
  have k := program_refines ho s.t h.1 prog m hm
  have e := TreeSet.iterRun_eq_table (cmp := cmp) prog s s.iterInit m
  rw [e.1, e.2.1]
  have hi : s.iterInit = s.t.iterInit := rfl
  rw [hi]
  exact ⟨by rw [k.1], k.2.1, k.2.2⟩

/-- **traversal_complete** for the set: every element once, ascending, then `CC_ITER_END` -/
theorem set_traversal_complete (ho : TotalOrder cmp) (s : TreeSet) (h : s.Inv cmp) (m : Mem)
    (hm : s.t.size + 2 ≤ m.live) :
    (s.iterRun cmp s.iterInit (List.replicate (s.t.size + 1) .next) m).1 =
      s.abs.map (fun e => { st := some .ok, val := some e }) ++ [{ st := some .iterEnd }] ∧
    s.abs.Pairwise (fun a b => cmp a b < 0) ∧ s.abs.Nodup := by
  have k := traversal_complete ho s.t h.1 m hm
  have e := TreeSet.iterRun_eq_table (cmp := cmp) (List.replicate (s.t.size + 1) .next) s s.iterInit m
  refine ⟨?_, k.2.1, k.2.2⟩
  rw [e.1]
  show List.map _ (s.t.iterRun cmp s.t.iterInit _ m).1 = _
  rw [k.1]
  simp [TreeSet.abs, TreeTable.abs, List.map_map]

end CC.Properties.C07Tree
