import CollectionsC.Properties.C03
/-! # C07 (tree table / tree set part): iterators

The C iterator holds two node pointers (`current`, `next`, the latter computed before the entry is
handed out); `iter_remove` unlinks `current` with CLRS's deletion, which *moves* the successor node
instead of freeing it, so `next` stays valid.  The ideal cursor `(last, todo)` is
`Spec.OrdMap.Cursor`.  Quantifiers: every total-order comparator, every table satisfying the invariant
(any fill level), every program of `next` / `remove` calls.

**What is modelled.**  A node is addressed by its path from the root; `get_successor_node` is modelled as
the C loop on such positions (`Tree.succPath`: leftmost node of the right subtree, else climb while coming
from the right) and `iter_next` computes the saved `next` with it (`Tree.succOfNode`).  An iterator refers
to a node by its key — node identity: the C code re-links nodes and never moves a key from one node to
another, keys are unique.  `saved_next_survives_remove` states what the saved pointer denotes after
`remove_node(current)`: the node holding the same key, at its new position, with the same entry and the
old in-order context minus the removed entry; `remove_moves_successor_up` is the two-child rule.  Outside
the model: *which block* `remove_node` frees (a variant that copied the successor's key into `z` and
freed the successor node would leave a dangling C pointer but the same tree of keys) — that is judged on
the real heap: ASan, and the harness prints the iterator's pointers as key and position (computed by
climbing the C `parent` pointers) and compares them with the model after every call.

Contract exclusion: `iter_remove` before the first successful `iter_next` (`current` = sentinel) is
outside the documented contract (the C code would unlink the sentinel).  The model answers
`CC_ERR_KEY_NOT_FOUND` and sets the fault flag; programs that respect the contract are `IterValid`, and
for them the fault flag stays clear. -/
namespace CC.Properties.C07Tree
open CC CC.Spec CC.Spec.OrdMap
variable {cmp : Nat → Nat → Int}

/-- a program of `next` calls only is inside the contract -/
theorem nexts_valid (n : Nat) (t : TreeTable) (it : TreeIter) (m : Mem) :
    TreeTable.IterValid cmp t it (List.replicate n .next) m := by
  induction n generalizing t it m with
  | zero => trivial
  | succ n ih => exact ⟨fun x => by simp at x, ih _ _ _⟩

/-- **traversal_complete**: a fresh iterator and `n + 1` calls of `next` on a table of `n` entries
yield exactly the entries (key in `val`, value in `log`), once each, in ascending key order, then
`CC_ITER_END`; nothing is modified, nothing faults -/
theorem traversal_complete (ho : TotalOrder cmp) (t : TreeTable) (h : t.Inv cmp) (m : Mem)
    (hm : TreeTable.Owns t m) :
    (t.iterRun cmp t.iterInit (List.replicate (t.size + 1) .next) m).1 =
      t.abs.map (fun e => { st := some .ok, val := some e.1, log := [e.2] }) ++ [{ st := some .iterEnd }] ∧
    (keys t.abs).Pairwise (fun a b => cmp a b < 0) ∧ (keys t.abs).Nodup ∧
    (t.iterRun cmp t.iterInit (List.replicate (t.size + 1) .next) m).2.1.abs = t.abs ∧
    (t.iterRun cmp t.iterInit (List.replicate (t.size + 1) .next) m).2.2.2.fault = m.fault := by
  have k := C03.iter_refines ho t h (List.replicate (t.size + 1) .next) m hm
  have a := k.1
  have hv := nexts_valid (cmp := cmp) (t.size + 1) t t.iterInit m
  have hc : ∀ (n : Nat) (c : Cursor) (f : OrdMap), (c.run f (List.replicate n .next)).2.2 = f := by
    intro n; induction n with
    | zero => intro c f; rfl
    | succ n ih => intro c f; simp only [List.replicate_succ, Cursor.run, Cursor.step]; exact ih _ _
  refine ⟨?_, keys_ascending h.sorted, TreeTable.keys_nodup ho h.sorted, by rw [k.2.1, hc], k.2.2.2.1 hv⟩
  rw [h.size_eq] at a ⊢
  rw [a, C03.cursor_enumerates ho t.abs h.sorted]

/-- **program_refines**: any program of `next` / `remove` calls on a fresh iterator produces the
statuses, keys and values of the ideal cursor and the ideal final content; the invariant (search-tree
order, red-black rules, size) and ledger consistency hold afterwards; and for programs inside the
contract (`IterValid`: no `remove` before the first `next`) nothing faults -/
theorem program_refines (ho : TotalOrder cmp) (t : TreeTable) (h : t.Inv cmp) (prog : List IterOp) (m : Mem)
    (hm : TreeTable.Owns t m) :
    (t.iterRun cmp t.iterInit prog m).1 = ((Cursor.init t.abs).run t.abs prog).1 ∧
    (t.iterRun cmp t.iterInit prog m).2.1.abs = ((Cursor.init t.abs).run t.abs prog).2.2 ∧
    (t.iterRun cmp t.iterInit prog m).2.1.Inv cmp ∧
    (TreeTable.IterValid cmp t t.iterInit prog m → (t.iterRun cmp t.iterInit prog m).2.2.2.fault = m.fault) ∧
    TreeTable.liveOf (t.iterRun cmp t.iterInit prog m).2.2.2 t.triple + t.size =
      TreeTable.liveOf m t.triple + (t.iterRun cmp t.iterInit prog m).2.1.size ∧
    TreeTable.Owns (t.iterRun cmp t.iterInit prog m).2.1 (t.iterRun cmp t.iterInit prog m).2.2.2 :=
  C03.iter_refines ho t h prog m hm

/-- a program whose first call is a `next` on a non-empty table is inside the contract whatever follows:
`current` never returns to the sentinel -/
theorem valid_after_first_next (ho : TotalOrder cmp) (t : TreeTable) (h : t.Inv cmp) (rest : List IterOp) (m : Mem)
    (hne : t.abs ≠ []) : TreeTable.IterValid cmp t t.iterInit (.next :: rest) m := by
  refine ⟨fun x => by simp at x, ?_⟩
  have hcur : (t.iterStep cmp t.iterInit .next m).2.2.1.cur ≠ .sentinel := by
    simp only [TreeTable.iterStep, TreeTable.iterNext, TreeTable.iterInit, Tree.minEntry_eq]
    cases hl : t.root.toList with
    | nil => exact absurd hl hne
    | cons e l => simp
  generalize (t.iterStep cmp t.iterInit .next m).2.1 = t' at hcur ⊢
  generalize (t.iterStep cmp t.iterInit .next m).2.2.1 = it at hcur ⊢
  generalize (t.iterStep cmp t.iterInit .next m).2.2.2 = m' at hcur ⊢
  clear h hne
  induction rest generalizing t' it m' with
  | nil => trivial
  | cons op rest ih =>
    refine ⟨fun _ => hcur, ?_⟩
    apply ih
    cases op with
    | next =>
      simp only [TreeTable.iterStep, TreeTable.iterNext]
      cases it.next with
      | none => exact hcur
      | some k => simp
    | remove =>
      simp only [TreeTable.iterStep, TreeTable.iterRemove]
      cases hc : it.cur with
      | sentinel => exact absurd hc hcur
      | null => simp [hc]
      | «at» k => simp

/-! ## The successor walk and the saved `next` pointer -/

/-- `iter_next` saves `get_successor_node(current)`: the pointer walk from the node just yielded, which is
its in-order successor (the sentinel after the last entry) -/
theorem iter_next_saves_successor (ho : TotalOrder cmp) (t : TreeTable) (h : t.Inv cmp) (it : TreeIter) (k : Nat)
    (hn : it.next = some k) (hk : k ∈ keys t.abs) :
    (t.iterNext it).2.2.next = ((Tree.posOf k t.root).bind (Tree.succEntryAt t.root)).map (·.1) ∧
    (t.iterNext it).2.2.next = (Tree.nextAfter t.abs k).map (·.1) ∧
    (t.iterNext it).2.2.cur = .at k := by
  simp only [TreeTable.iterNext, hn]
  exact ⟨rfl, by rw [Tree.succOfNode_eq (Tree.bst_nodup ho h.1) k hk]; rfl, trivial⟩

/-- **the pre-computed successor survives the deletion**: after `remove_node` of the node with key `c` the
node the saved `next` refers to (key `n ≠ c`) is still in the tree, holds the same entry, and its in-order
context is the old one with `c` erased — so the walk continues over exactly the not-yet-visited entries -/
theorem saved_next_survives_remove (ho : TotalOrder cmp) (t : TreeTable) (h : t.Inv cmp) (c n : Nat) (m : Mem)
    (hc : contains t.abs c = true) (hm : TreeTable.Owns t m) (hne : n ≠ c) (p : Tree.Path)
    (hp : Tree.posOf n t.root = some p) :
    ∃ p', Tree.posOf n (t.removeNode cmp c m).1.root = some p' ∧
      Tree.entryAt (t.removeNode cmp c m).1.root p' = Tree.entryAt t.root p ∧
      Tree.ctxBefore (t.removeNode cmp c m).1.root p' = erase (Tree.ctxBefore t.root p) c ∧
      Tree.ctxAfter (t.removeNode cmp c m).1.root p' = erase (Tree.ctxAfter t.root p) c :=
  TreeTable.next_survives_remove ho h c n m hc hm hne hp

/-- … and when the removed node is the one yielded last (it lies before `next`), nothing after `next`
changed at all -/
theorem walk_after_iter_remove (ho : TotalOrder cmp) (t : TreeTable) (h : t.Inv cmp) (c n : Nat) (m : Mem)
    (hc : contains t.abs c = true) (hm : TreeTable.Owns t m) (hlt : cmp c n < 0) (p : Tree.Path)
    (hp : Tree.posOf n t.root = some p) :
    ∃ p', Tree.posOf n (t.removeNode cmp c m).1.root = some p' ∧
      Tree.ctxAfter (t.removeNode cmp c m).1.root p' = Tree.ctxAfter t.root p :=
  TreeTable.walk_after_remove_unchanged ho h c n m hc hm hlt hp

/-- CLRS's two-child rule: the successor's key and value move into the removed node's position (with its
colour), then the right subtree is repaired -/
theorem remove_moves_successor_up (c : Colour) (l : Tree) (k v : Nat) (r : Tree) (hl : l ≠ .nil) (hr : r ≠ .nil) :
    ∃ e, Tree.succEntryAt (.node c l k v r) [] = some e ∧
      Tree.removeHere (.node c l k v r) =
        (if (Tree.delMin r).2 then Tree.fixDelRight (.node c l e.1 e.2 (Tree.delMin r).1)
         else (.node c l e.1 e.2 (Tree.delMin r).1, false)) :=
  Tree.removeHere_moves_successor c l k v r hl hr

/-- what the ideal cursor does: `remove` erases exactly the entry yielded last (once), and the keys
still to be visited are untouched — the traversal continues over precisely the not-yet-visited
original entries -/
theorem cursor_remove_exact (c : Cursor) (m : OrdMap) (k : Nat) (hl : c.last = some k) :
    (c.remove m).1 = .ok ∧ (c.remove m).2.2.2 = erase m k ∧ (c.remove m).2.2.1.todo = c.todo ∧
    (c.remove m).2.2.1.last = none := by
  simp [Cursor.remove, hl]
theorem cursor_remove_twice (c : Cursor) (m : OrdMap) (hl : c.last = none) :
    (c.remove m).1 = .errKeyNotFound ∧ (c.remove m).2.2.2 = m ∧ (c.remove m).2.2.1 = c := by
  simp [Cursor.remove, hl]
/-- `next` hands out the head of `todo`; END exactly when nothing is left -/
theorem cursor_next_end_iff (c : Cursor) (m : OrdMap) : (c.next m).1 = .iterEnd ↔ c.todo = [] := by
  unfold Cursor.next; cases c.todo <;> simp
/-- the keys still to be visited after any program: the original keys minus one per successful `next` -/
theorem cursor_todo (prog : List IterOp) (c : Cursor) (m : OrdMap) :
    (c.run m prog).2.1.todo = c.todo.drop (prog.count .next) := by
  induction prog generalizing c m with
  | nil => simp [Cursor.run]
  | cons op rest ih =>
    cases op with
    | next =>
      simp only [Cursor.run, Cursor.step, List.count_cons_self]
      rw [ih]
      unfold Cursor.next
      cases hc : c.todo with
      | nil => simp [hc]
      | cons k r => simp [List.drop_succ_cons]
    | remove =>
      simp only [Cursor.run, Cursor.step]
      rw [ih]
      have : (c.remove m).2.2.1.todo = c.todo := by unfold Cursor.remove; cases c.last <;> rfl
      rw [this]; simp

/-! ## tree set -/

/-- set iterator programs: statuses and yielded elements are those of the ideal cursor over the
elements (a successful `remove` hands back the dummy the table stored, which is what the cursor over
the map-to-dummy returns); final content ideal; the **set** invariant (table invariant, all values the
dummy, one triple), the ledger balance and ledger consistency hold afterwards, so the program can be
followed by set calls (`C03.set_session_refines`); no fault inside the contract -/
theorem set_program_refines (ho : TotalOrder cmp) (s : TreeSet) (h : s.Inv cmp) (prog : List IterOp) (m : Mem)
    (hm : TreeTable.Owns s.t m) :
    (s.iterRun cmp s.iterInit prog m).1 =
      ((Cursor.init s.t.abs).run s.t.abs prog).1.map (fun o => { st := o.st, val := o.val }) ∧
    (s.iterRun cmp s.iterInit prog m).2.1.t.abs = ((Cursor.init s.t.abs).run s.t.abs prog).2.2 ∧
    (s.iterRun cmp s.iterInit prog m).2.1.Inv cmp ∧
    (TreeTable.IterValid cmp s.t s.iterInit prog m → (s.iterRun cmp s.iterInit prog m).2.2.2.fault = m.fault) ∧
    TreeTable.liveOf (s.iterRun cmp s.iterInit prog m).2.2.2 s.triple + s.t.size =
      TreeTable.liveOf m s.triple + (s.iterRun cmp s.iterInit prog m).2.1.t.size ∧
    TreeTable.Owns (s.iterRun cmp s.iterInit prog m).2.1.t (s.iterRun cmp s.iterInit prog m).2.2.2 :=
  C03.set_iter_refines ho s h prog m hm

/-- **traversal_complete** for the set: every element once, ascending, then `CC_ITER_END` -/
theorem set_traversal_complete (ho : TotalOrder cmp) (s : TreeSet) (h : s.Inv cmp) (m : Mem)
    (hm : TreeTable.Owns s.t m) :
    (s.iterRun cmp s.iterInit (List.replicate (s.t.size + 1) .next) m).1 =
      s.abs.map (fun e => { st := some .ok, val := some e }) ++ [{ st := some .iterEnd }] ∧
    s.abs.Pairwise (fun a b => cmp a b < 0) ∧ s.abs.Nodup := by
  have k := traversal_complete ho s.t h.1 m hm
  have e := TreeSet.iterRun_eq_table (cmp := cmp) (List.replicate (s.t.size + 1) .next) s s.iterInit m
  refine ⟨?_, k.2.1, k.2.2.1⟩
  rw [e.1]
  show List.map _ (s.t.iterRun cmp s.t.iterInit _ m).1 = _
  rw [k.1]
  simp [TreeSet.abs, TreeTable.abs, List.map_map]

/-! ## Non-vacuity -/
open CC.Driver.TreeTableD (cmpOf) in
/-- the program of `corpus/treetable/iter_remove_two_children.ops`: remove the root (two children)
through the iterator, the traversal continues with its successor -/
example :
    let t : TreeTable := TreeTable.mk
      (Tree.node .black (Tree.node .black (Tree.node .red .nil 1 10 .nil) 2 20 (Tree.node .red .nil 3 30 .nil)) 4 40
        (Tree.node .black (Tree.node .red .nil 5 50 .nil) 6 60 (Tree.node .red .nil 7 70 .nil))) 7 .conf
    decide (t.Inv (cmpOf 0)) = true ∧
    ((t.iterRun (cmpOf 0) t.iterInit [.next, .next, .next, .next, .remove, .remove, .next] { live := 9 }).1.map
        (fun o => (o.st, o.val))) =
      [(some .ok, some 1), (some .ok, some 2), (some .ok, some 3), (some .ok, some 4), (some .ok, some 40),
       (some .errKeyNotFound, none), (some .ok, some 5)] ∧
    decide ((t.iterRun (cmpOf 0) t.iterInit [.next, .next, .next, .next, .remove, .remove, .next] { live := 9 }).2.1.Inv
      (cmpOf 0)) = true := by decide

end CC.Properties.C07Tree
