import CollectionsC.Proofs.ArrayUncond
/-! # C16 (array and stack part) — rejected operations are inert, for every argument value

Statements only.  For every indexed function of `cc_array.c` and **every index in `Nat`** (the whole
`size_t` domain and beyond): the call succeeds exactly on the documented range (`[0,size)`;
`[0,size]` for `add_at`), and every call that reports an error status leaves the whole physical state
(size, capacity, buffer, configuration) and the ledger unchanged.  The unsigned wrap-around guards
(`size - 1` on the empty array, `index - 1` at 0) are modelled with `wdec`. -/
namespace CC.Properties.C16Array
open CC

theorem add_at_range (a : Arr) (x i : Nat) (m : Mem) (h : a.size < i) :
    a.addAt x i m = (.errOutOfRange, a, m) := Arr.addAt_range a x i m h

theorem replace_at_range (a : Arr) (x i : Nat) (m : Mem) (hinv : a.Inv) :
    ((a.replaceAt x i m).1 = .ok ↔ i < a.size) ∧
    ((a.replaceAt x i m).1 ≠ .ok → (a.replaceAt x i m).2.2.1 = a ∧ (a.replaceAt x i m).2.2.2 = m) := by
  obtain ⟨_, _, _, _, _, r6, r7, r8⟩ := Arr.replaceAt_spec a x i m hinv
  exact ⟨r8, fun h => ⟨r7 h, r6⟩⟩

theorem swap_at_range (a : Arr) (i j : Nat) (m : Mem) (hinv : a.Inv) :
    ((a.swapAt i j m).1 = .ok ↔ i < a.size ∧ j < a.size) ∧
    ((a.swapAt i j m).1 ≠ .ok → (a.swapAt i j m).2.1 = a ∧ (a.swapAt i j m).2.2 = m) := by
  obtain ⟨_, _, _, _, r5, r6, r7⟩ := Arr.swapAt_spec a i j m hinv
  exact ⟨r7, fun h => ⟨r6 h, r5⟩⟩

theorem remove_at_range (a : Arr) (i : Nat) (m : Mem) (hinv : a.Inv) :
    ((a.removeAt i m).1 = .ok ↔ i < a.size) ∧
    ((a.removeAt i m).1 ≠ .ok → (a.removeAt i m).2.2.1 = a ∧ (a.removeAt i m).2.2.2 = m) := by
  obtain ⟨_, _, _, _, _, r6, r7, r8, _⟩ := Arr.removeAt_spec a i m hinv
  exact ⟨r8, fun h => ⟨r7 h, r6⟩⟩

theorem remove_last_empty (a : Arr) (m : Mem) (hinv : a.Inv) :
    ((a.removeLast m).1 = .ok ↔ 0 < a.size) ∧
    ((a.removeLast m).1 ≠ .ok → (a.removeLast m).2.2.1 = a ∧ (a.removeLast m).2.2.2 = m) := by
  obtain ⟨_, _, _, _, _, r6, r7, r8, _⟩ := Arr.removeLast_spec a m hinv
  exact ⟨r8, fun h => ⟨r7 h, r6⟩⟩

theorem remove_absent (a : Arr) (x : Nat) (m : Mem) (hinv : a.Inv) :
    ((a.remove x m).1 = .ok ↔ x ∈ a.abs) ∧
    ((a.remove x m).1 ≠ .ok → (a.remove x m).2.2.1 = a ∧ (a.remove x m).2.2.2 = m) := by
  obtain ⟨_, _, _, _, _, r6, r7, r8⟩ := Arr.remove_spec a x m hinv
  exact ⟨r8, fun h => ⟨r7 h, r6⟩⟩

theorem get_at_range (a : Arr) (i : Nat) (m : Mem) (hinv : a.Inv) :
    ((a.getAt i m).1 = .ok ↔ i < a.size) ∧ (a.getAt i m).2.2 = m := by
  obtain ⟨_, _, r3, r4⟩ := Arr.getAt_spec a i m hinv
  exact ⟨r4, r3⟩

theorem get_last_empty (a : Arr) (m : Mem) (hinv : a.Inv) :
    ((a.getLast m).1 = .ok ↔ 0 < a.size) ∧ (a.getLast m).2.2 = m := by
  obtain ⟨_, _, r3, r4⟩ := Arr.getLast_spec a m hinv
  exact ⟨r4, r3⟩

theorem index_of_absent (a : Arr) (x : Nat) (m : Mem) (hinv : a.Inv) :
    ((a.indexOf x m).1 = .ok ↔ x ∈ a.abs) ∧ (a.indexOf x m).2.2 = m := by
  obtain ⟨_, _, r3, _, r5, _⟩ := Arr.indexOf_spec a x m hinv
  exact ⟨r5, r3⟩

theorem filter_mut_empty (p : Nat → Bool) (a : Arr) (m : Mem) (hinv : a.Inv) :
    ((a.filterMut p m).1 = .ok ↔ 0 < a.size) ∧
    ((a.filterMut p m).1 ≠ .ok → (a.filterMut p m).2.1 = a ∧ (a.filterMut p m).2.2.2 = m) := by
  obtain ⟨_, _, _, _, r5, _, r7, r8⟩ := Arr.filterMut_spec p a m hinv
  exact ⟨r8, fun h => ⟨r7 h, r5⟩⟩

/-- `subarray`: every pair outside `b ≤ e < size` is rejected without touching the allocator; the
source is never modified (it is not part of the result) -/
theorem subarray_range (a : Arr) (b e : Nat) (m : Mem) (hinv : a.Inv) (h : ¬ (b ≤ e ∧ e < a.size)) :
    (a.subarray b e m).1 = .errInvalidRange ∧ (a.subarray b e m).2.1 = none ∧ (a.subarray b e m).2.2 = m := by
  rcases Arr.subarray_spec a b e m hinv with ⟨s1, _, s2, s3⟩ | ⟨_, hr, _⟩ | ⟨_, hr, _⟩
  · exact ⟨s1, s2, s3⟩
  · exact absurd hr h
  · exact absurd hr h

/-- iterator mutators before the first yield (`index - 1` wraps) or after a removal are rejected and
change neither the array nor the cursor -/
theorem iter_remove_inert (a : Arr) (it : ArrIter) (c : Spec.Seq.Cursor) (m : Mem) (hinv : a.Inv)
    (hs : Arr.Sim a it c) (h : (a.iterRemove it m).1 ≠ .ok) :
    (a.iterRemove it m).2.2.1 = a ∧ (a.iterRemove it m).2.2.2.1 = it ∧ (a.iterRemove it m).2.2.2.2 = m := by
  obtain ⟨_, _, _, _, _, r6, r7⟩ := Arr.iterRemove_sim a it c m hinv hs
  exact ⟨(r7 h).1, (r7 h).2, r6⟩

theorem iter_replace_inert (a : Arr) (it : ArrIter) (c : Spec.Seq.Cursor) (x : Nat) (m : Mem) (hinv : a.Inv)
    (hs : Arr.Sim a it c) (h : (a.iterReplace it x m).1 ≠ .ok) :
    (a.iterReplace it x m).2.2.1 = a ∧ (a.iterReplace it x m).2.2.2 = m := by
  obtain ⟨_, _, _, _, _, r6, r7⟩ := Arr.iterReplace_sim a it c x m hinv hs
  exact ⟨r7 h, r6⟩

/-- the constructor rejects capacity 0, capacities too large for the factor, and capacities whose
buffer size in bytes would wrap (A9), without touching the allocator -/
theorem new_invalid (cap : Nat) (grow : Nat → Nat) (exGe : Nat → Bool) (m : Mem)
    (h : cap = 0 ∨ exGe (Gen.CC_MAX_ELEMENTS / cap) = true ∨ Gen.CC_MAX_ELEMENTS / 8 < cap) :
    Arr.new cap grow exGe m = (.errInvalidCapacity, none, m) := by
  unfold Arr.new
  by_cases h0 : cap = 0
  · simp [h0]
  · by_cases h1 : exGe (Gen.CC_MAX_ELEMENTS / cap) = true
    · simp [h0, h1]
    · have h2 : cap > Gen.CC_MAX_ELEMENTS / 8 := by
        rcases h with h | h | h
        · exact absurd h h0
        · exact absurd h h1
        · exact h
      simp [h0, h1, h2]

/-- **`error_is_inert`**: any call of the C01 vocabulary that reports a status other than `CC_OK`
(`CC_ERR_ALLOC` included) returns the state it was given; when the status is not `CC_ERR_ALLOC` the
whole ledger is untouched as well, and in every case block counters and fault flag are what they were -/
theorem error_is_inert (cfg : Spec.Seq.Cfg) (a : Arr) (op : Spec.Seq.Op) (m : Mem) (hinv : a.Inv)
    (hsort : ∀ xs, (cfg.sortFn xs).length = xs.length) (st : Stat)
    (h1 : (a.step cfg op m).1.st = some st) (h2 : st ≠ .ok) :
    (a.step cfg op m).2.1 = a ∧ (a.step cfg op m).2.2.live = m.live ∧ (a.step cfg op m).2.2.liveLibc = m.liveLibc ∧
    (a.step cfg op m).2.2.fault = m.fault ∧ (st ≠ .errAlloc → (a.step cfg op m).2.2.nrefused = m.nrefused) := by
  obtain ⟨_, _, _, _, s5, s6, s7⟩ := Arr.step_spec cfg a op m hinv hsort
  obtain ⟨l1, l2, l3, _⟩ := Arr.step_led cfg a op m hinv
  refine ⟨s7 st h1 h2, s5, ?_, s6, fun hne => ?_⟩
  · cases ht : a.triple with
    | conf => rw [ht] at l2; exact l2.1
    | libc => rw [ht] at l1; simpa [Arr.own] using l1
  · have : ¬ (a.step cfg op m).1.st = some .errAlloc := by rw [h1]; simpa using hne
    simpa [this] using l3

/-- `cc_array_filter` on the empty array: rejected, nothing allocated -/
theorem filter_empty_rejected (p : Nat → Bool) (a : Arr) (m : Mem) (hinv : a.Inv) (h : a.size = 0) :
    (a.filter p m).1 = .errOutOfRange ∧ (a.filter p m).2.1 = none ∧ (a.filter p m).2.2.2 = m := by
  rcases Arr.filter_spec p a m hinv with ⟨s1, _, s2, s3⟩ | ⟨_, h0, _⟩ | ⟨_, h0, _⟩
  · exact ⟨s1, s2, s3⟩
  · omega
  · omega

/-- **`out_of_range_rejected`**, the range table in one statement: for every index in `Nat`,
`add_at` accepts exactly `[0,size]` (unless blocked by the allocator or the capacity limit), and
`replace_at`, `remove_at`, `get_at`, both arguments of `swap_at`, and the end of a sub-range accept
exactly `[0,size)` -/
theorem out_of_range_rejected (a : Arr) (x i j : Nat) (m : Mem) (hinv : a.Inv) :
    (a.size < i → (a.addAt x i m).1 = .errOutOfRange) ∧
    ((a.addAt x i m).1 = .ok → i ≤ a.size) ∧
    (a.size ≤ i → (a.replaceAt x i m).1 ≠ .ok ∧ (a.removeAt i m).1 ≠ .ok ∧ (a.getAt i m).1 ≠ .ok ∧
      (a.swapAt i j m).1 ≠ .ok ∧ (a.swapAt j i m).1 ≠ .ok ∧ (a.subarray j i m).1 = .errInvalidRange) := by
  refine ⟨fun h => by rw [Arr.addAt_range a x i m h], fun hok => ?_, fun h => ?_⟩
  · apply Decidable.byContradiction
    intro hn
    rw [Arr.addAt_range a x i m (by omega)] at hok; simp at hok
  · have hn : ¬ i < a.size := by omega
    refine ⟨fun hk => hn ((replace_at_range a x i m hinv).1.1 hk), fun hk => hn ((remove_at_range a i m hinv).1.1 hk),
      fun hk => hn ((get_at_range a i m hinv).1.1 hk), fun hk => hn ((swap_at_range a i j m hinv).1.1 hk).1,
      fun hk => hn ((swap_at_range a j i m hinv).1.1 hk).2, (subarray_range a j i m hinv (fun hr => hn hr.2)).1⟩

/-- **`error_is_inert`** for iterator calls: a status other than `CC_OK` leaves array and cursor unchanged
(for `CC_ITER_END` and `CC_ERR_ALLOC` too) -/
theorem iter_error_is_inert (a : Arr) (it : ArrIter) (c : Spec.Seq.Cursor) (op : Spec.Seq.IterOp) (m : Mem)
    (hinv : a.Inv) (hs : Arr.Sim a it c) (st : Stat)
    (h1 : (a.iterStep it op m).1.st = some st) (h2 : st ≠ .ok) :
    (a.iterStep it op m).2.1 = a ∧ (a.iterStep it op m).2.2.1 = it :=
  (Arr.iterStep_sim a it c op m hinv hs).2.2.2.2.2.2 st h1 h2

/-- zip mutators before the first yield or after a removal: rejected, both arrays and the cursor unchanged -/
theorem zip_error_is_inert (a1 a2 : Arr) (it : ArrIter) (z : Spec.Seq.ZipCursor) (x y : Nat) (m : Mem)
    (h1 : a1.Inv) (h2 : a2.Inv) (hs : Arr.ZSim a1 a2 it z) :
    ((Arr.zipRemove a1 a2 it m).1 ≠ .ok → (Arr.zipRemove a1 a2 it m).2.2.1 = a1 ∧
      (Arr.zipRemove a1 a2 it m).2.2.2.1 = a2 ∧ (Arr.zipRemove a1 a2 it m).2.2.2.2.1 = it) ∧
    ((Arr.zipReplace a1 a2 it x y m).1 ≠ .ok → (Arr.zipReplace a1 a2 it x y m).2.2.1 = a1 ∧
      (Arr.zipReplace a1 a2 it x y m).2.2.2.1 = a2) :=
  ⟨(Arr.zipRemove_sim a1 a2 it z m h1 h2 hs).2.2.2.2.2.2.2.2, (Arr.zipReplace_sim a1 a2 it z x y m h1 h2 hs).2.2.2.2.2.2.2.2⟩

/-- **iterator and zip rejections for every cursor value** — no relation between the cursor and the
array(s) is assumed (a stale cursor after the array was shortened through the API, a cursor that never
yielded: `index - 1` wraps to 2^64 − 1, an element already removed, the end reached): whenever
`iter_next`, `iter_remove`, `iter_replace`, `zip_iter_next`, `zip_iter_remove`, `zip_iter_replace` report
a status other than `CC_OK`, the array(s), the cursor and the whole ledger are exactly what they were,
and no out-value is produced.  The guards are pure index comparisons; not even the invariant is needed. -/
theorem iter_rejections_inert_any (a a2 : Arr) (it : ArrIter) (x y : Nat) (m : Mem) :
    ((a.iterNext it m).1 ≠ .ok → a.iterNext it m = (.iterEnd, none, it, m)) ∧
    ((a.iterRemove it m).1 ≠ .ok → (a.iterRemove it m).2.1 = none ∧ (a.iterRemove it m).2.2.1 = a ∧
      (a.iterRemove it m).2.2.2.1 = it ∧ (a.iterRemove it m).2.2.2.2 = m) ∧
    ((a.iterReplace it x m).1 ≠ .ok → a.iterReplace it x m = (.errOutOfRange, none, a, m)) ∧
    ((Arr.zipNext a a2 it m).1 ≠ .ok → Arr.zipNext a a2 it m = (.iterEnd, none, it, m)) ∧
    ((Arr.zipRemove a a2 it m).1 ≠ .ok → (Arr.zipRemove a a2 it m).2.1 = none ∧ (Arr.zipRemove a a2 it m).2.2.1 = a ∧
      (Arr.zipRemove a a2 it m).2.2.2.1 = a2 ∧ (Arr.zipRemove a a2 it m).2.2.2.2.1 = it ∧
      (Arr.zipRemove a a2 it m).2.2.2.2.2 = m) ∧
    ((Arr.zipReplace a a2 it x y m).1 ≠ .ok → Arr.zipReplace a a2 it x y m = (.errOutOfRange, none, a, a2, m)) :=
  ⟨Arr.iterNext_inert_any a it m, Arr.iterRemove_inert_any a it m, Arr.iterReplace_inert_any a it x m,
   Arr.zipNext_inert_any a a2 it m, Arr.zipRemove_inert_any a a2 it m, Arr.zipReplace_inert_any a a2 it x y m⟩

/-- `iter_add` / `zip_iter_add` for every cursor value (invariant only): a call that does not report
`CC_OK` leaves the content(s) and the cursor as they were — `C08Array.zipAdd_all_or_nothing`; for
`iter_add` the whole state -/
theorem iter_add_rejection_inert_any (a : Arr) (it : ArrIter) (x : Nat) (m : Mem) (hinv : a.Inv)
    (h : (a.iterAdd it x m).1 ≠ .ok) : (a.iterAdd it x m).2.1 = a ∧ (a.iterAdd it x m).2.2.1 = it := by
  obtain ⟨sp, _, _⟩ := Arr.addAt_spec a x it.index m hinv
  unfold Arr.iterAdd at h ⊢
  by_cases hok : (a.addAt x it.index m).1 = .ok
  · simp only [hok, if_true] at h; exact absurd rfl h
  · simp only [hok, if_false]
    rcases sp with ⟨_, ⟨ok, _⟩ | ⟨_, hsame⟩⟩ | ⟨_, e⟩
    · exact absurd ok hok
    · exact ⟨hsame, trivial⟩
    · rw [e]; exact ⟨rfl, trivial⟩

/-! Non-vacuity: an array of size 3 in a block of 4; every boundary index is rejected and the state
(including the dead slot) is what it was -/
example :
    let a : Arr := Arr.mk 3 4 [10, 20, 30, 77] (fun c => 2 * c) .conf
    a.Inv ∧ (a.getAt 3 {}).1 = .errOutOfRange ∧ (a.removeAt (2 ^ 64 - 1) {}).1 = .errOutOfRange ∧
    (a.addAt 9 4 {}).1 = .errOutOfRange ∧ (a.addAt 9 3 {}).1 = .ok ∧ (a.swapAt 0 3 {}).1 = .errOutOfRange ∧
    (a.subarray 2 3 {}).1 = .errInvalidRange ∧ (a.removeAt 3 {}).2.2.1.buf = [10, 20, 30, 77] ∧
    ((Arr.mk 0 1 [0] id .conf).removeLast {}).1 = .errOutOfRange := by decide

end CC.Properties.C16Array
