import CollectionsC.Properties.C06Deque
import CollectionsC.Proofs.DequeGrowth
/-! # C20 (deque part) — geometric growth and capacity invariants

All invariants are conjuncts of `Deque.Inv`, which every operation preserves from every state
(`C06Deque.step_safe`, also inside finding D3's range), so they hold in every reachable state of every
history.  Growth is `capacity << 1`; trimming goes to `upper_pow_two(size)`; `n` insertions at the ends
cost at most `log2 (size + n) + 1` buffer allocations. -/
namespace CC.Properties.C20Deque
open CC CC.Properties.C05

/-- **size_le_capacity**, **capacity_pow2**, buffer block = exactly `capacity` slots, capacity ≤ `MAX_POW_TWO` -/
theorem size_le_capacity (d : Deque) (hi : d.Inv) : d.size ≤ d.cap ∧ d.buf.length = d.cap :=
  ⟨hi.2.2.2.2.2, hi.2.2.1⟩

theorem capacity_pow2 (d : Deque) (hi : d.Inv) : (∃ k, d.cap = 2 ^ k ∧ k ≤ 31) ∧ 1 ≤ d.cap := by
  refine ⟨⟨d.cap.log2, hi.1, ?_⟩, hi.cap_pos⟩
  have h1 := hi.2.1
  rw [hi.1, Deque.max_pow_two_eq] at h1
  rcases Nat.lt_or_ge 31 d.cap.log2 with h | h
  · have := Nat.pow_lt_pow_right (a := 2) (by decide) h; omega
  · exact h

/-- … in every state any history (any arguments, any refusal schedule) can reach from a constructed
deque of any configured capacity, on either triple -/
theorem reachable_invariants (confCap : Nat) (t : Triple) (m0 : Mem) (ops : List Op) (d0 : Deque)
    (h : (Deque.new confCap t m0).2.1 = some d0) :
    (runM d0 (Deque.new confCap t m0).2.2 ops).2.1.size ≤ (runM d0 (Deque.new confCap t m0).2.2 ops).2.1.cap ∧
    (∃ k, (runM d0 (Deque.new confCap t m0).2.2 ops).2.1.cap = 2 ^ k) ∧
    (runM d0 (Deque.new confCap t m0).2.2 ops).2.1.buf.length = (runM d0 (Deque.new confCap t m0).2.2 ops).2.1.cap := by
  rcases Deque.new_spec confCap t m0 with ⟨_, d, n2, n3, _⟩ | ⟨_, n2, _⟩
  · rw [n2] at h
    cases h
    obtain ⟨hinv, _, _⟩ := C06Deque.history_nofault ops d0 (Deque.new confCap t m0).2.2 n3
    exact ⟨hinv.2.2.2.2.2, hinv.pow2, hinv.2.2.1⟩
  · rw [n2] at h; cases h

/-- **growth_strict**: every growth step strictly increases the capacity — it exactly doubles it — and
keeps the content -/
theorem growth_strict (d : Deque) (m : Mem) (hi : d.Inv) (h : (d.expandCapacity m).1 = .ok) :
    d.cap < (d.expandCapacity m).2.1.cap ∧ (d.expandCapacity m).2.1.cap = 2 * d.cap ∧
    (d.expandCapacity m).2.1.abs = d.abs ∧ (d.expandCapacity m).2.1.Inv := by
  obtain ⟨e1, e2, _, e4, _⟩ := Deque.expandCapacity_ok d m hi h
  have := hi.cap_pos
  exact ⟨by omega, e4, e2, e1⟩

/-- hence, with an allocator that does not refuse (C-library triple, or exhausted schedule) and below the capacity limit, every insertion at an
end returns `CC_OK`; the capacity is kept, or doubled when the deque was full -/
theorem append_ok (d : Deque) (x : Nat) (m : Mem) (hi : d.Inv) (hs : Deque.neverRefuses d.triple m)
    (hb : d.size < Gen.MAX_POW_TWO) :
    (d.addLast x m).1 = .ok ∧ (d.addFirst x m).1 = .ok ∧
    (d.addLast x m).2.1.cap = (if d.size = d.cap then 2 * d.cap else d.cap) ∧
    (d.addFirst x m).2.1.cap = (if d.size = d.cap then 2 * d.cap else d.cap) := by
  have h1 := (Deque.pushEnd_step d (false, x) m hi hs hb).1
  have h2 := (Deque.pushEnd_step d (true, x) m hi hs hb).1
  have e1 : Deque.pushEnd d (false, x) m = d.addLast x m := by simp [Deque.pushEnd]
  have e2 : Deque.pushEnd d (true, x) m = d.addFirst x m := by simp [Deque.pushEnd]
  rw [e1] at h1
  rw [e2] at h2
  obtain ⟨g1, g2, _⟩ := growth_doubles d m x hi
  exact ⟨h1, h2, g1 h1, g2 h2⟩

/-- **trim_minimum**: a successful `trim_capacity` sets the capacity to `upper_pow_two(size)` — the least
power of two that is ≥ size: never below the size, never above the old capacity — and does not change
the content -/
theorem trim_minimum (d : Deque) (m : Mem) (hi : d.Inv) (h : (d.trimCapacity m).1 = .ok) :
    (d.trimCapacity m).2.1.cap = Deque.upperPow2 d.size ∧ d.size ≤ (d.trimCapacity m).2.1.cap ∧
    (d.trimCapacity m).2.1.cap ≤ d.cap ∧ (∀ k, d.size ≤ 2 ^ k → (d.trimCapacity m).2.1.cap ≤ 2 ^ k) ∧
    (d.trimCapacity m).2.1.abs = d.abs ∧ (d.trimCapacity m).2.1.Inv := by
  rcases Deque.trimCapacity_spec d m hi with ⟨_, a2, a3, _, a5, a6, a7⟩ | ⟨a1, _⟩
  · exact ⟨a5, a6, a7, fun k hk => by rw [a5]; exact Deque.upperPow2_least d.size k hk, a3, a2⟩
  · rw [a1] at h; exact absurd h (by decide)

/-- the constructor rounds every configured capacity up to the next power of two -/
theorem constructed_capacity (confCap : Nat) (t : Triple) (m : Mem) (d : Deque) (h : (Deque.new confCap t m).2.1 = some d) :
    d.cap = Deque.upperPow2 confCap ∧ (∃ k, d.cap = 2 ^ k) ∧ (confCap ≤ Gen.MAX_POW_TWO → confCap ≤ d.cap) := by
  rcases Deque.new_spec confCap t m with ⟨_, d', n2, n3, _, n5, _⟩ | ⟨_, n2, _⟩
  · rw [n2] at h
    cases h
    exact ⟨n5, n3.pow2, fun hc => by rw [n5]; exact Deque.upperPow2_ge confCap hc⟩
  · rw [n2] at h; cases h

/-- **appends_realloc_log, every refusal schedule**: any run of `n` insertions at the two ends of a deque
holding `size` elements — whatever the initial capacity, the ring layout and the pattern of refused growth
steps — performs at most `log2 (size + n) + 1` successful buffer allocations (counted on the deque's own
triple): amortised constant time per insertion.  No hypothesis beyond the invariant. -/
theorem appends_realloc_log (l : List (Bool × Nat)) (d : Deque) (m : Mem) (hi : d.Inv) :
    Deque.allocsOf d.triple (Deque.pushAll d m l).2 - Deque.allocsOf d.triple m ≤ Nat.log2 (d.size + l.length) + 1 ∧
    (Deque.pushAll d m l).1.Inv ∧ d.cap ≤ (Deque.pushAll d m l).1.cap :=
  ⟨Deque.pushAll_realloc_le l d m hi, (Deque.pushAll_doubling l d m hi).1, (Deque.pushAll_doubling l d m hi).2.2.2.1⟩

/-- **… and it is exactly the abstract doubling process** when nothing is refused: size, capacity and the
number of allocator calls are those of `Growth.appends` with `grow c = 2 * c` (`capacity << 1`) -/
theorem appends_is_growth_process (l : List (Bool × Nat)) (d : Deque) (m : Mem) (hi : d.Inv)
    (hn : Deque.neverRefuses d.triple m) (hb : d.size + l.length ≤ Gen.MAX_POW_TWO) :
    (Deque.pushAll d m l).1.cap = (Growth.appends Deque.dbl d.size d.cap l.length).cap ∧
    Deque.allocsOf d.triple (Deque.pushAll d m l).2 =
      Deque.allocsOf d.triple m + (Growth.appends Deque.dbl d.size d.cap l.length).reallocs ∧
    (Deque.pushAll d m l).1.abs = Deque.pushAllSpec d.abs l ∧ (Deque.pushAll d m l).1.Inv := by
  obtain ⟨r1, r2, _, r4, r5⟩ := Deque.pushAll_growth l d m hi hn hb
  exact ⟨r4, r5, r2, r1⟩

/-- the hypothesis bundle of `appends_is_growth_process` is satisfiable, and the doubling function meets
`Growth`'s requirement -/
example : (Deque.mk 3 4 2 1 [13, 0, 11, 12] .conf).Inv ∧ Deque.neverRefuses Triple.conf ({} : Mem) ∧
    3 + 5 ≤ Gen.MAX_POW_TWO ∧ (∀ c, 2 * c ≤ Deque.dbl c) :=
  ⟨by decide, Or.inr rfl, by decide, fun _ => Nat.le_refl _⟩

/-- non-vacuity: 1000 appends to a capacity-1 deque cost at most 10 allocations -/
example : Nat.log2 (0 + 1000) + 1 = 10 := by decide

end CC.Properties.C20Deque
