import CollectionsC.Properties.C19
/-! # C19 — closed form: the ring buffer is a sliding window over everything ever enqueued

`C19.history_refines` says the model behaves like the list-with-capacity `Spec.Fifo`; this file says
what that list *is* after any burst of enqueues, without reference to the step function: the last
`cap` items of (what was held ++ what was enqueued), in order.  "Overwrites only the oldest item" is
exactly this statement: nothing but a prefix is ever lost, and no more of it than necessary.
Quantifiers: every capacity ≥ 1, every starting content within capacity, every enqueue burst. -/
namespace CC.Properties.C19
open CC
open CC.Spec.Fifo (Op Out)

/-- one enqueue, as a window -/
theorem spec_enqueue_window (f : Spec.Fifo) (x : Nat) (hc : 0 < f.cap) (h : f.items.length ≤ f.cap) :
    (f.enqueue x).items = (f.items ++ [x]).drop (f.items.length + 1 - f.cap) ∧
    (f.enqueue x).cap = f.cap ∧ (f.enqueue x).items.length ≤ f.cap := by
  unfold Spec.Fifo.enqueue
  split
  · next hlt =>
    have : f.items.length + 1 - f.cap = 0 := by omega
    simp [this]; omega
  · next hge =>
    have hk : f.items.length + 1 - f.cap = 1 := by omega
    have hne : f.items ≠ [] := by
      intro e; rw [e] at hge; simp at hge; omega
    rw [hk, List.drop_one, List.tail_append_of_ne_nil hne]
    refine ⟨rfl, rfl, ?_⟩
    simp only [List.length_append, List.length_tail, List.length_cons, List.length_nil]
    have : 0 < f.items.length := List.length_pos_iff.mpr hne
    omega

/-- **Sliding window.** Enqueuing `xs` one after the other into a FIFO holding `f.items` leaves
exactly the last `cap` items of `f.items ++ xs`. -/
theorem spec_enqueue_all_window (xs : List Nat) (f : Spec.Fifo) (hc : 0 < f.cap)
    (h : f.items.length ≤ f.cap) :
    (xs.foldl Spec.Fifo.enqueue f).items = (f.items ++ xs).drop (f.items.length + xs.length - f.cap) ∧
    (xs.foldl Spec.Fifo.enqueue f).cap = f.cap := by
  induction xs generalizing f with
  | nil =>
    have : f.items.length - f.cap = 0 := by omega
    simp [this]
  | cons x xs ih =>
    obtain ⟨e1, e2, e3⟩ := spec_enqueue_window f x hc h
    have ih' := ih (f.enqueue x) (by rw [e2]; exact hc) (by rw [e2]; exact e3)
    simp only [List.foldl_cons]
    refine ⟨?_, ih'.2.trans e2⟩
    rw [ih'.1, e2, e1]
    have hk : f.items.length + 1 - f.cap ≤ (f.items ++ [x]).length := by
      simp only [List.length_append, List.length_cons, List.length_nil]; omega
    rw [← List.drop_append_of_le_length hk, List.drop_drop]
    simp only [List.length_drop, List.length_append, List.length_cons, List.length_nil,
      List.append_assoc, List.cons_append, List.nil_append]
    congr 1
    omega

/-- a history consisting of enqueues only is the fold of `enqueue` -/
theorem spec_run_enqueues (xs : List Nat) (f : Spec.Fifo) :
    (f.run (xs.map Op.enqueue)).2 = xs.foldl Spec.Fifo.enqueue f := by
  induction xs generalizing f with
  | nil => rfl
  | cons x xs ih => simp only [List.map_cons, Spec.Fifo.run, Spec.Fifo.step, List.foldl_cons]; exact ih _

/-- **C19, window form, on the concrete model.** From any state of the ring-buffer model that
satisfies the invariant, a burst of enqueues leaves (read through head/tail/size, i.e. what
successive dequeues will return) exactly the last `cap` items of (held ++ enqueued). -/
theorem enqueue_burst_window (xs : List Nat) (r : Rbuf) (m : Mem) (h : r.Inv) :
    (r.run (xs.map Op.enqueue) m).2.1.abs = (r.abs ++ xs).drop (r.size + xs.length - r.cap) := by
  obtain ⟨_, habs, _, _⟩ := history_refines (xs.map Op.enqueue) r m h
  have hl : (Spec.Fifo.mk r.cap r.abs).items.length ≤ (Spec.Fifo.mk r.cap r.abs).cap := by
    simpa [Rbuf.abs_length] using h.2.2.1
  rw [habs, spec_run_enqueues, (spec_enqueue_all_window xs (Spec.Fifo.mk r.cap r.abs) h.1 hl).1]
  simp [Rbuf.abs_length]

/-- corollary: after at least `cap` enqueues nothing of the old content is left, and the buffer
holds precisely the last `cap` enqueued items -/
theorem enqueue_burst_flushes (xs : List Nat) (r : Rbuf) (m : Mem) (h : r.Inv) (hn : r.cap ≤ xs.length) :
    (r.run (xs.map Op.enqueue) m).2.1.abs = xs.drop (xs.length - r.cap) := by
  rw [enqueue_burst_window xs r m h]
  have hs : r.abs.length = r.size := Rbuf.abs_length r
  have : r.size + xs.length - r.cap = r.abs.length + (xs.length - r.cap) := by omega
  rw [this, ← List.drop_drop, List.drop_left]

/-! ## Non-vacuity and a concrete instance -/
example : ((Rbuf.mk 3 3 1 1 [8, 6, 7] .conf).run ([1, 2].map Op.enqueue) {}).2.1.abs = [8, 1, 2] := by decide

end CC.Properties.C19
