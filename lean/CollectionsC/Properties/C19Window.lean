import CollectionsC.Properties.C19
/-! # C19 — closed form: the ring buffer is a sliding window over everything ever enqueued

`C19.history_refines` says the model behaves like the list-with-capacity `Spec.Fifo`; this file says
what that list *is* after any burst of enqueues, without reference to the step function: the last
`cap` items of (what was held ++ what was enqueued), in order.  "Overwrites only the oldest item" is
exactly this statement: nothing but a prefix is ever lost, and no more of it than necessary.
Quantifiers: every capacity ≥ 1, every starting content within capacity, every enqueue burst. -/
namespace CC.Properties.C19
open CC
open CC.Spec.Fifo (Op Out)

/-- one enqueue, as a window -/
theorem spec_enqueue_window (f : Spec.Fifo) (x : Nat) (hc : 0 < f.cap) (h : f.items.length ≤ f.cap) :
    (f.enqueue x).items = (f.items ++ [x]).drop (f.items.length + 1 - f.cap) ∧
    (f.enqueue x).cap = f.cap ∧ (f.enqueue x).items.length ≤ f.cap := by
  unfold Spec.Fifo.enqueue
  split
  · next hlt =>
    have : f.items.length + 1 - f.cap = 0 := by omega
    simp [this]; omega
  · next hge =>
    have hk : f.items.length + 1 - f.cap = 1 := by omega
    have hne : f.items ≠ [] := by
      intro e; rw [e] at hge; simp at hge; omega
    rw [hk, List.drop_one, List.tail_append_of_ne_nil hne]
    refine ⟨rfl, rfl, ?_⟩
    simp only [List.length_append, List.length_tail, List.length_cons, List.length_nil]
    have : 0 < f.items.length := List.length_pos_iff.mpr hne
    omega

/-- **Sliding window.** Enqueuing `xs` one after the other into a FIFO holding `f.items` leaves
exactly the last `cap` items of `f.items ++ xs`. -/
theorem spec_enqueue_all_window (xs : List Nat) (f : Spec.Fifo) (hc : 0 < f.cap)
    (h : f.items.length ≤ f.cap) :
    (xs.foldl Spec.Fifo.enqueue f).items = (f.items ++ xs).drop (f.items.length + xs.length - f.cap) ∧
    (xs.foldl Spec.Fifo.enqueue f).cap = f.cap := by
  induction xs generalizing f with
  | nil =>
    have : f.items.length - f.cap = 0 := by omega
    simp [this]
  | cons x xs ih =>
    obtain ⟨e1, e2, e3⟩ := spec_enqueue_window f x hc h
    have ih' := ih (f.enqueue x) (by rw [e2]; exact hc) (by rw [e2]; exact e3)
    simp only [List.foldl_cons]
    refine ⟨?_, ih'.2.trans e2⟩
    rw [ih'.1, e2, e1]
    have hk : f.items.length + 1 - f.cap ≤ (f.items ++ [x]).length := by
      simp only [List.length_append, List.length_cons, List.length_nil]; omega
    rw [← List.drop_append_of_le_length hk, List.drop_drop]
    simp only [List.length_drop, List.length_append, List.length_cons, List.length_nil,
      List.append_assoc, List.cons_append, List.nil_append]
    congr 1
    omega

/-- a history consisting of enqueues only is the fold of `enqueue` -/
theorem spec_run_enqueues (xs : List Nat) (f : Spec.Fifo) :
    (f.run (xs.map Op.enqueue)).2 = xs.foldl Spec.Fifo.enqueue f := by
  induction xs generalizing f with
  | nil => rfl
  | cons x xs ih => simp only [List.map_cons, Spec.Fifo.run, Spec.Fifo.step, List.foldl_cons]; exact ih _

/-- **C19, window form, on the concrete model.** From any state of the ring-buffer model that
satisfies the invariant, a burst of enqueues leaves (read through head/tail/size, i.e. what
successive dequeues will return) exactly the last `cap` items of (held ++ enqueued). -/
theorem enqueue_burst_window (xs : List Nat) (r : Rbuf) (m : Mem) (h : r.Inv) :
    (r.run (xs.map Op.enqueue) m).2.1.abs = (r.abs ++ xs).drop (r.size + xs.length - r.cap) := by
  obtain ⟨_, habs, _, _⟩ := history_refines (xs.map Op.enqueue) r m h
  have hl : (Spec.Fifo.mk r.cap r.abs).items.length ≤ (Spec.Fifo.mk r.cap r.abs).cap := by
    simpa [Rbuf.abs_length] using h.2.2.1
  rw [habs, spec_run_enqueues, (spec_enqueue_all_window xs (Spec.Fifo.mk r.cap r.abs) h.1 hl).1]
  simp [Rbuf.abs_length]

/-- corollary: after at least `cap` enqueues nothing of the old content is left, and the buffer
holds precisely the last `cap` enqueued items -/
theorem enqueue_burst_flushes (xs : List Nat) (r : Rbuf) (m : Mem) (h : r.Inv) (hn : r.cap ≤ xs.length) :
    (r.run (xs.map Op.enqueue) m).2.1.abs = xs.drop (xs.length - r.cap) := by
  rw [enqueue_burst_window xs r m h]
  have hs : r.abs.length = r.size := Rbuf.abs_length r
  have : r.size + xs.length - r.cap = r.abs.length + (xs.length - r.cap) := by omega
  rw [this, ← List.drop_drop, List.drop_left]

/-! ## Drains: dequeues return the window front to back -/

/-- what a successful / failed dequeue reports -/
def okOut (x : Nat) : Out := ⟨some .ok, some x⟩
def emptyOut : Out := ⟨some .errOutOfRange, none⟩

/-- **Drain.** `n` dequeues return the first `n` held items in order, then `CC_ERR_OUT_OF_RANGE`
for every call made on the empty buffer, and leave the rest. -/
theorem spec_dequeue_burst (n : Nat) (f : Spec.Fifo) :
    (f.run (List.replicate n Op.dequeue)).1 =
        (f.items.take n).map okOut ++ List.replicate (n - f.items.length) emptyOut ∧
    (f.run (List.replicate n Op.dequeue)).2 = { f with items := f.items.drop n } := by
  induction n generalizing f with
  | zero => simp [Spec.Fifo.run]
  | succ n ih =>
    simp only [List.replicate_succ, Spec.Fifo.run, Spec.Fifo.step, Spec.Fifo.dequeue]
    cases hi : f.items with
    | nil =>
      have := ih f
      simp only [hi, List.take_nil, List.map_nil, List.nil_append, List.length_nil, Nat.sub_zero,
        List.drop_nil] at this ⊢
      refine ⟨by rw [this.1, List.replicate_succ]; rfl, ?_⟩
      rw [this.2]
    | cons x xs =>
      have := ih { f with items := xs }
      simp only [List.take_succ_cons, List.map_cons, List.cons_append, List.length_cons,
        Nat.add_sub_add_right, List.drop_succ_cons] at this ⊢
      exact ⟨by rw [this.1]; rfl, this.2⟩

/-- histories compose -/
theorem spec_run_append (a b : List Op) (f : Spec.Fifo) :
    (f.run (a ++ b)).1 = (f.run a).1 ++ ((f.run a).2.run b).1 ∧
    (f.run (a ++ b)).2 = ((f.run a).2.run b).2 := by
  induction a generalizing f with
  | nil => simp [Spec.Fifo.run]
  | cons op a ih =>
    have := ih (f.step op).2
    simp only [List.cons_append, Spec.Fifo.run, List.cons.injEq, true_and]
    exact this

/-- enqueue is `void`: it reports nothing -/
theorem spec_run_enqueues_out (xs : List Nat) (f : Spec.Fifo) :
    (f.run (xs.map Op.enqueue)).1 = xs.map (fun _ => (⟨none, none⟩ : Out)) := by
  induction xs generalizing f with
  | nil => rfl
  | cons x xs ih => simp only [List.map_cons, Spec.Fifo.run, Spec.Fifo.step, List.cons.injEq, true_and]; exact ih _

/-- **C19 end to end, on the concrete model.** From any state satisfying the invariant: enqueue
`xs`, then call dequeue `k` times.  The dequeues return, in order, the first `k` items of the window
`(held ++ xs).drop (size + |xs| − cap)` with `CC_OK`, and `CC_ERR_OUT_OF_RANGE` once it is
exhausted — nothing else, whatever the head/tail positions were and however often they wrap. -/
theorem burst_then_drain (xs : List Nat) (k : Nat) (r : Rbuf) (m : Mem) (h : r.Inv) :
    (r.run (xs.map Op.enqueue ++ List.replicate k Op.dequeue) m).1 =
      xs.map (fun _ => (⟨none, none⟩ : Out)) ++
      ((((r.abs ++ xs).drop (r.size + xs.length - r.cap)).take k).map okOut ++
        List.replicate (k - ((r.abs ++ xs).drop (r.size + xs.length - r.cap)).length) emptyOut) := by
  obtain ⟨hout, _, _, _⟩ := history_refines (xs.map Op.enqueue ++ List.replicate k Op.dequeue) r m h
  have hl : (Spec.Fifo.mk r.cap r.abs).items.length ≤ (Spec.Fifo.mk r.cap r.abs).cap := by
    simpa [Rbuf.abs_length] using h.2.2.1
  have hw := (spec_enqueue_all_window xs (Spec.Fifo.mk r.cap r.abs) h.1 hl).1
  simp only [Rbuf.abs_length] at hw
  rw [hout, (spec_run_append _ _ _).1, spec_run_enqueues_out, spec_run_enqueues,
    (spec_dequeue_burst k _).1, hw]

/-- instance: default capacity 10, 13 items in, 11 dequeues → items 3..12 then one error -/
example : ((Rbuf.mk 0 10 0 0 (List.replicate 10 0) .conf).run
      ((List.range 13).map Op.enqueue ++ List.replicate 11 Op.dequeue) {}).1.drop 13 =
    (List.range' 3 10).map okOut ++ [emptyOut] := by decide

/-! ## Non-vacuity and a concrete instance -/
example : ((Rbuf.mk 3 3 1 1 [8, 6, 7] .conf).run ([1, 2].map Op.enqueue) {}).2.1.abs = [8, 1, 2] := by decide

end CC.Properties.C19
