import CollectionsC.Properties.C07Deque
import CollectionsC.Properties.C09Queue
/-! # C07 (queue part) — the adapter's iterator and zip iterator

`cc_queue_iter_*` forward to the deque iterator over the inner deque (front of the deque first, i.e. the
newest element first); the adapter offers `next` and `replace` (and zip `next`/`replace`) only.  Nothing
is partial: no insertion through the iterator exists on the adapter. -/
namespace CC.Properties.C07Queue
open CC CC.Spec CC.Properties.C09Queue

/-- **traversal_complete**: a fresh queue iterator followed by `size` calls of `next` yields exactly the
live elements — each once, in iteration order (the ideal FIFO's content, newest first) — for every ring
layout of the inner deque, exactly full and wrapped included; then it reports the end -/
theorem traversal_complete (q : Queue) (f : QueueSpec.Fifo) (m : Mem) (h : Sim q f) :
    (C07Deque.drain q.d q.size {} m).1 = f.items.reverse ∧ (C07Deque.drain q.d q.size {} m).2.2 = m ∧
    Queue.iterNext (C07Deque.drain q.d q.size {} m).2.1 q m =
      (.iterEnd, none, (C07Deque.drain q.d q.size {} m).2.1, m) := by
  obtain ⟨⟨hi, _⟩, habs⟩ := h
  obtain ⟨t1, t2, t3⟩ := C07Deque.traversal_complete q.d m hi
  have habs' : q.d.abs = f.items.reverse := habs
  exact ⟨by rw [← habs']; exact t1, t2, t3⟩

/-- one `next`: the element at the cursor of the iteration view, or the end -/
theorem next_refines (it : Deque.Iter) (q : Queue) (f : QueueSpec.Fifo) (m : Mem) (h : Sim q f) :
    (Queue.iterNext it q m).1 = (DequeSpec.curNext f.view it.cur).1 ∧
    (Queue.iterNext it q m).2.1 = (DequeSpec.curNext f.view it.cur).2.1 ∧
    (Queue.iterNext it q m).2.2.1.cur = (DequeSpec.curNext f.view it.cur).2.2 ∧
    (Queue.iterNext it q m).2.2.2 = m := by
  obtain ⟨⟨hi, _⟩, habs⟩ := h
  have habs' : q.d.abs = f.items.reverse := habs
  obtain ⟨a1, a2, a3, a4⟩ := Deque.iterNext_spec it q.d m hi
  rw [habs'] at a1 a2 a3
  exact ⟨a1, a2, a3, a4⟩

/-- **`cc_queue_iter_replace`** replaces exactly the element yielded last; size, order and every other
element stay as they are; before the first `next` it is rejected and changes nothing -/
theorem replace_refines (it : Deque.Iter) (q : Queue) (f : QueueSpec.Fifo) (x : Nat) (m : Mem) (h : Sim q f) :
    (Queue.iterReplace it q x m).1 = (DequeSpec.curReplace f.view it.cur x).1 ∧
    (Queue.iterReplace it q x m).2.1 = (DequeSpec.curReplace f.view it.cur x).2.1 ∧
    (Queue.iterReplace it q x m).2.2.1.abs = (DequeSpec.curReplace f.view it.cur x).2.2 ∧
    (Queue.iterReplace it q x m).2.2.1.Inv ∧ (Queue.iterReplace it q x m).2.2.2 = m := by
  obtain ⟨⟨hi, htr⟩, habs⟩ := h
  have habs' : q.d.abs = f.items.reverse := habs
  obtain ⟨a1, a2, a3, a4, a5⟩ := Deque.iterReplace_spec it q.d x m hi
  rw [habs'] at a1 a2 a3
  exact ⟨a1, a2, a3, ⟨a4, (Deque.iterReplace_triple it q.d x m).trans htr⟩, a5⟩

/-- **zip**: lock-step over two queues, stops at the shorter one; `zip_iter_replace` replaces the pair
yielded last -/
theorem zip_refines (it : Deque.Iter) (q1 q2 : Queue) (f1 f2 : QueueSpec.Fifo) (x y : Nat) (m : Mem)
    (h1 : Sim q1 f1) (h2 : Sim q2 f2) :
    ((Queue.zipNext it q1 q2 m).1 = (DequeSpec.zipNext f1.view f2.view it.cur).1 ∧
      (Queue.zipNext it q1 q2 m).2.1 = (DequeSpec.zipNext f1.view f2.view it.cur).2.1 ∧
      (Queue.zipNext it q1 q2 m).2.2.1.cur = (DequeSpec.zipNext f1.view f2.view it.cur).2.2 ∧
      (Queue.zipNext it q1 q2 m).2.2.2 = m) ∧
    ((Queue.zipReplace it q1 q2 x y m).1 = (DequeSpec.zipReplace f1.view f2.view it.cur x y).1 ∧
      (Queue.zipReplace it q1 q2 x y m).2.1 = (DequeSpec.zipReplace f1.view f2.view it.cur x y).2.1 ∧
      (Queue.zipReplace it q1 q2 x y m).2.2.1.abs = (DequeSpec.zipReplace f1.view f2.view it.cur x y).2.2.1 ∧
      (Queue.zipReplace it q1 q2 x y m).2.2.2.1.abs = (DequeSpec.zipReplace f1.view f2.view it.cur x y).2.2.2 ∧
      (Queue.zipReplace it q1 q2 x y m).2.2.2.2 = m) := by
  obtain ⟨⟨hi1, _⟩, habs1⟩ := h1
  obtain ⟨⟨hi2, _⟩, habs2⟩ := h2
  have e1 : q1.d.abs = f1.items.reverse := habs1
  have e2 : q2.d.abs = f2.items.reverse := habs2
  obtain ⟨a1, a2, a3, a4⟩ := Deque.zipNext_spec it q1.d q2.d m hi1 hi2
  obtain ⟨b1, b2, b3, b4, _, _, b7⟩ := Deque.zipReplace_spec it q1.d q2.d x y m hi1 hi2
  rw [e1, e2] at a1 a2 a3 b1 b2 b3 b4
  exact ⟨⟨a1, a2, a3, a4⟩, ⟨b1, b2, b3, b4, b7⟩⟩

/-- non-vacuity: a wrapped, exactly full ring is traversed completely, newest first -/
example : (C07Deque.drain (Deque.mk 4 4 3 3 [12, 13, 14, 11] .conf) 4 {} {}).1 = [11, 12, 13, 14] ∧
    Sim ⟨Deque.mk 4 4 3 3 [12, 13, 14, 11] .conf, .conf⟩ ⟨[14, 13, 12, 11]⟩ := by
  refine ⟨by decide, by decide, by decide⟩

end CC.Properties.C07Queue
