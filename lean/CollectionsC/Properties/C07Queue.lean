import CollectionsC.Properties.C07Deque
import CollectionsC.Properties.C09Queue
/-! # C07 (queue part) — the adapter's iterator and zip iterator

`cc_queue_iter_*` forward to the deque iterator over the inner deque (front of the deque first, i.e. the
newest element first); the adapter offers `next` and `replace` (and zip `next`/`replace`) only.  Nothing
is partial: no insertion through the iterator exists on the adapter. -/
namespace CC.Properties.C07Queue
open CC CC.Spec CC.Properties.C09Queue

/-- **traversal_complete**: a fresh queue iterator followed by `size` calls of `next` yields exactly the
live elements — each once, in iteration order (the ideal FIFO's content, newest first) — for every ring
layout of the inner deque, exactly full and wrapped included; then it reports the end -/
theorem traversal_complete (q : Queue) (f : QueueSpec.Fifo) (m : Mem) (h : Sim q f) :
    (C07Deque.drain q.d q.size {} m).1 = f.items.reverse ∧ (C07Deque.drain q.d q.size {} m).2.2 = m ∧
    Queue.iterNext (C07Deque.drain q.d q.size {} m).2.1 q m =
      (.iterEnd, none, (C07Deque.drain q.d q.size {} m).2.1, m) := by
  obtain ⟨⟨hi, _⟩, habs⟩ := h
  obtain ⟨t1, t2, t3⟩ := C07Deque.traversal_complete q.d m hi
  have habs' : q.d.abs = f.items.reverse := habs
  exact ⟨by rw [← habs']; exact t1, t2, t3⟩

/-- one `next`: the element at the cursor of the iteration view, or the end -/
theorem next_refines (it : Deque.Iter) (q : Queue) (f : QueueSpec.Fifo) (m : Mem) (h : Sim q f) :
    (Queue.iterNext it q m).1 = (DequeSpec.curNext f.view it.cur).1 ∧
    (Queue.iterNext it q m).2.1 = (DequeSpec.curNext f.view it.cur).2.1 ∧
    (Queue.iterNext it q m).2.2.1.cur = (DequeSpec.curNext f.view it.cur).2.2 ∧
    (Queue.iterNext it q m).2.2.2 = m := by
  obtain ⟨⟨hi, _⟩, habs⟩ := h
  have habs' : q.d.abs = f.items.reverse := habs
  obtain ⟨a1, a2, a3, a4⟩ := Deque.iterNext_spec it q.d m hi
  rw [habs'] at a1 a2 a3
  exact ⟨a1, a2, a3, a4⟩

/-- **`cc_queue_iter_replace`** replaces exactly the element yielded last; size, order and every other
element stay as they are; before the first `next` it is rejected and changes nothing -/
theorem replace_refines (it : Deque.Iter) (q : Queue) (f : QueueSpec.Fifo) (x : Nat) (m : Mem) (h : Sim q f) :
    (Queue.iterReplace it q x m).1 = (DequeSpec.curReplace f.view it.cur x).1 ∧
    (Queue.iterReplace it q x m).2.1 = (DequeSpec.curReplace f.view it.cur x).2.1 ∧
    (Queue.iterReplace it q x m).2.2.1.abs = (DequeSpec.curReplace f.view it.cur x).2.2 ∧
    (Queue.iterReplace it q x m).2.2.1.Inv ∧ (Queue.iterReplace it q x m).2.2.2 = m := by
  obtain ⟨⟨hi, htr⟩, habs⟩ := h
  have habs' : q.d.abs = f.items.reverse := habs
  obtain ⟨a1, a2, a3, a4, a5⟩ := Deque.iterReplace_spec it q.d x m hi
  rw [habs'] at a1 a2 a3
  exact ⟨a1, a2, a3, ⟨a4, (Deque.iterReplace_triple it q.d x m).trans htr⟩, a5⟩

/-- **zip**: lock-step over two queues, stops at the shorter one; `zip_iter_replace` replaces the pair
yielded last -/
theorem zip_refines (it : Deque.Iter) (q1 q2 : Queue) (f1 f2 : QueueSpec.Fifo) (x y : Nat) (m : Mem)
    (h1 : Sim q1 f1) (h2 : Sim q2 f2) :
    ((Queue.zipNext it q1 q2 m).1 = (DequeSpec.zipNext f1.view f2.view it.cur).1 ∧
      (Queue.zipNext it q1 q2 m).2.1 = (DequeSpec.zipNext f1.view f2.view it.cur).2.1 ∧
      (Queue.zipNext it q1 q2 m).2.2.1.cur = (DequeSpec.zipNext f1.view f2.view it.cur).2.2 ∧
      (Queue.zipNext it q1 q2 m).2.2.2 = m) ∧
    ((Queue.zipReplace it q1 q2 x y m).1 = (DequeSpec.zipReplace f1.view f2.view it.cur x y).1 ∧
      (Queue.zipReplace it q1 q2 x y m).2.1 = (DequeSpec.zipReplace f1.view f2.view it.cur x y).2.1 ∧
      (Queue.zipReplace it q1 q2 x y m).2.2.1.abs = (DequeSpec.zipReplace f1.view f2.view it.cur x y).2.2.1 ∧
      (Queue.zipReplace it q1 q2 x y m).2.2.2.1.abs = (DequeSpec.zipReplace f1.view f2.view it.cur x y).2.2.2 ∧
      (Queue.zipReplace it q1 q2 x y m).2.2.2.2 = m) := by
  obtain ⟨⟨hi1, _⟩, habs1⟩ := h1
  obtain ⟨⟨hi2, _⟩, habs2⟩ := h2
  have e1 : q1.d.abs = f1.items.reverse := habs1
  have e2 : q2.d.abs = f2.items.reverse := habs2
  obtain ⟨a1, a2, a3, a4⟩ := Deque.zipNext_spec it q1.d q2.d m hi1 hi2
  obtain ⟨b1, b2, b3, b4, _, _, b7⟩ := Deque.zipReplace_spec it q1.d q2.d x y m hi1 hi2
  rw [e1, e2] at a1 a2 a3 b1 b2 b3 b4
  exact ⟨⟨a1, a2, a3, a4⟩, ⟨b1, b2, b3, b4, b7⟩⟩

/-! ## iterator and zip-iterator programs of the adapter -/

inductive QOp where
  | next | replace (x : Nat)

/-- one queue-iterator call on the model -/
def stepQI (it : Deque.Iter) (q : Queue) (m : Mem) : QOp → (Option Stat × Option Nat) × Deque.Iter × Queue × Mem
  | .next => let r := Queue.iterNext it q m; ((some r.1, r.2.1), r.2.2.1, q, r.2.2.2)
  | .replace x => let r := Queue.iterReplace it q x m; ((some r.1, r.2.1), it, r.2.2.1, r.2.2.2)

/-- the same call on the ideal cursor over the iteration view -/
def stepQC (c : DequeSpec.Cur) (v : List Nat) : QOp → (Option Stat × Option Nat) × DequeSpec.Cur × List Nat
  | .next => let r := DequeSpec.curNext v c; ((some r.1, r.2.1), r.2.2, v)
  | .replace x => let r := DequeSpec.curReplace v c x; ((some r.1, r.2.1), c, r.2.2)

def runQI (it : Deque.Iter) (q : Queue) (m : Mem) : List QOp → List (Option Stat × Option Nat) × Deque.Iter × Queue × Mem
  | [] => ([], it, q, m)
  | op :: ops =>
    let r := stepQI it q m op
    let rs := runQI r.2.1 r.2.2.1 r.2.2.2 ops
    (r.1 :: rs.1, rs.2.1, rs.2.2.1, rs.2.2.2)

def runQC (c : DequeSpec.Cur) (v : List Nat) : List QOp → List (Option Stat × Option Nat) × DequeSpec.Cur × List Nat
  | [] => ([], c, v)
  | op :: ops => let r := stepQC c v op; let rs := runQC r.2.1 r.2.2 ops; (r.1 :: rs.1, rs.2.1, rs.2.2)

/-- **program_refines (queue iterator)**: any program of `next` / `replace` calls, from any cursor over any
ring layout, returns what the ideal cursor over the iteration view returns; the queue's content follows
the ideal view, the invariant holds, the ledger is untouched (the adapter's iterator never allocates, so
there is nothing to refuse and nothing is partial) -/
theorem program_refines (ops : List QOp) (it : Deque.Iter) (q : Queue) (m : Mem) (hi : q.Inv) :
    (runQI it q m ops).1 = (runQC it.cur q.abs ops).1 ∧ (runQI it q m ops).2.1.cur = (runQC it.cur q.abs ops).2.1 ∧
    (runQI it q m ops).2.2.1.abs = (runQC it.cur q.abs ops).2.2 ∧ (runQI it q m ops).2.2.1.Inv ∧
    (runQI it q m ops).2.2.2 = m := by
  induction ops generalizing it q m with
  | nil => exact ⟨rfl, rfl, rfl, hi, rfl⟩
  | cons op ops ih =>
    have hsim : Sim q ⟨q.abs.reverse⟩ := ⟨hi, by simp⟩
    have hview : (⟨q.abs.reverse⟩ : QueueSpec.Fifo).view = q.abs := by simp [QueueSpec.Fifo.view]
    cases op with
    | next =>
      obtain ⟨a1, a2, a3, a4⟩ := next_refines it q _ m hsim
      rw [hview] at a1 a2 a3
      obtain ⟨r1, r2, r3, r4, r5⟩ := ih (Queue.iterNext it q m).2.2.1 q (Queue.iterNext it q m).2.2.2 hi
      simp only [runQI, runQC, stepQI, stepQC]
      rw [a3] at r1 r2 r3
      exact ⟨by rw [a1, a2, r1], r2, r3, r4, r5.trans a4⟩
    | replace x =>
      obtain ⟨a1, a2, a3, a4, a5⟩ := replace_refines it q _ x m hsim
      rw [hview] at a1 a2 a3
      obtain ⟨r1, r2, r3, r4, r5⟩ := ih it (Queue.iterReplace it q x m).2.2.1 (Queue.iterReplace it q x m).2.2.2 a4
      simp only [runQI, runQC, stepQI, stepQC]
      rw [a3] at r1 r2 r3
      exact ⟨by rw [a1, a2, r1], r2, r3, r4, r5.trans a5⟩

inductive QZOp where
  | next | replace (x y : Nat)

def stepQZ (it : Deque.Iter) (q1 q2 : Queue) (m : Mem) :
    QZOp → (Option Stat × Option (Nat × Nat)) × Deque.Iter × Queue × Queue × Mem
  | .next => let r := Queue.zipNext it q1 q2 m; ((some r.1, r.2.1), r.2.2.1, q1, q2, r.2.2.2)
  | .replace x y => let r := Queue.zipReplace it q1 q2 x y m; ((some r.1, r.2.1), it, r.2.2.1, r.2.2.2.1, r.2.2.2.2)

def stepQZC (c : DequeSpec.Cur) (v1 v2 : List Nat) :
    QZOp → (Option Stat × Option (Nat × Nat)) × DequeSpec.Cur × List Nat × List Nat
  | .next => let r := DequeSpec.zipNext v1 v2 c; ((some r.1, r.2.1), r.2.2, v1, v2)
  | .replace x y => let r := DequeSpec.zipReplace v1 v2 c x y; ((some r.1, r.2.1), c, r.2.2.1, r.2.2.2)

def runQZ (it : Deque.Iter) (q1 q2 : Queue) (m : Mem) :
    List QZOp → List (Option Stat × Option (Nat × Nat)) × Deque.Iter × Queue × Queue × Mem
  | [] => ([], it, q1, q2, m)
  | op :: ops =>
    let r := stepQZ it q1 q2 m op
    let rs := runQZ r.2.1 r.2.2.1 r.2.2.2.1 r.2.2.2.2 ops
    (r.1 :: rs.1, rs.2.1, rs.2.2.1, rs.2.2.2.1, rs.2.2.2.2)

def runQZC (c : DequeSpec.Cur) (v1 v2 : List Nat) :
    List QZOp → List (Option Stat × Option (Nat × Nat)) × DequeSpec.Cur × List Nat × List Nat
  | [] => ([], c, v1, v2)
  | op :: ops =>
    let r := stepQZC c v1 v2 op
    let rs := runQZC r.2.1 r.2.2.1 r.2.2.2 ops
    (r.1 :: rs.1, rs.2.1, rs.2.2.1, rs.2.2.2)

/-- **zip program_refines (two queues)**: any program of zip `next` / `replace` calls over two queues in any
ring layouts refines the ideal pair cursor over the two iteration views: lock-step, stops at the shorter
queue, `replace` acts on the pair yielded last; both invariants and the ledger are intact -/
theorem zip_program_refines (ops : List QZOp) (it : Deque.Iter) (q1 q2 : Queue) (m : Mem) (h1 : q1.Inv) (h2 : q2.Inv) :
    (runQZ it q1 q2 m ops).1 = (runQZC it.cur q1.abs q2.abs ops).1 ∧
    (runQZ it q1 q2 m ops).2.1.cur = (runQZC it.cur q1.abs q2.abs ops).2.1 ∧
    (runQZ it q1 q2 m ops).2.2.1.abs = (runQZC it.cur q1.abs q2.abs ops).2.2.1 ∧
    (runQZ it q1 q2 m ops).2.2.2.1.abs = (runQZC it.cur q1.abs q2.abs ops).2.2.2 ∧
    (runQZ it q1 q2 m ops).2.2.1.Inv ∧ (runQZ it q1 q2 m ops).2.2.2.1.Inv ∧ (runQZ it q1 q2 m ops).2.2.2.2 = m := by
  induction ops generalizing it q1 q2 m with
  | nil => exact ⟨rfl, rfl, rfl, rfl, h1, h2, rfl⟩
  | cons op ops ih =>
    cases op with
    | next =>
      obtain ⟨a1, a2, a3, a4⟩ := Deque.zipNext_spec it q1.d q2.d m h1.1 h2.1
      obtain ⟨r1, r2, r3, r4, r5, r6, r7⟩ := ih (Queue.zipNext it q1 q2 m).2.2.1 q1 q2 (Queue.zipNext it q1 q2 m).2.2.2 h1 h2
      simp only [runQZ, runQZC, stepQZ, stepQZC]
      have e1 : (Queue.zipNext it q1 q2 m).1 = (DequeSpec.zipNext q1.abs q2.abs it.cur).1 := a1
      have e2 : (Queue.zipNext it q1 q2 m).2.1 = (DequeSpec.zipNext q1.abs q2.abs it.cur).2.1 := a2
      have e3 : (Queue.zipNext it q1 q2 m).2.2.1.cur = (DequeSpec.zipNext q1.abs q2.abs it.cur).2.2 := a3
      have e4 : (Queue.zipNext it q1 q2 m).2.2.2 = m := a4
      rw [e3] at r1 r2 r3 r4
      exact ⟨by rw [e1, e2, r1], r2, r3, r4, r5, r6, r7.trans e4⟩
    | replace x y =>
      obtain ⟨a1, a2, a3, a4, a5, a6, a7⟩ := Deque.zipReplace_spec it q1.d q2.d x y m h1.1 h2.1
      obtain ⟨t1, t2⟩ := Deque.zipReplace_triple it q1.d q2.d x y m
      have i1 : (Queue.zipReplace it q1 q2 x y m).2.2.1.Inv := ⟨a5, t1.trans h1.2⟩
      have i2 : (Queue.zipReplace it q1 q2 x y m).2.2.2.1.Inv := ⟨a6, t2.trans h2.2⟩
      obtain ⟨r1, r2, r3, r4, r5, r6, r7⟩ := ih it (Queue.zipReplace it q1 q2 x y m).2.2.1
        (Queue.zipReplace it q1 q2 x y m).2.2.2.1 (Queue.zipReplace it q1 q2 x y m).2.2.2.2 i1 i2
      simp only [runQZ, runQZC, stepQZ, stepQZC]
      have e1 : (Queue.zipReplace it q1 q2 x y m).1 = (DequeSpec.zipReplace q1.abs q2.abs it.cur x y).1 := a1
      have e2 : (Queue.zipReplace it q1 q2 x y m).2.1 = (DequeSpec.zipReplace q1.abs q2.abs it.cur x y).2.1 := a2
      have e3 : (Queue.zipReplace it q1 q2 x y m).2.2.1.abs = (DequeSpec.zipReplace q1.abs q2.abs it.cur x y).2.2.1 := a3
      have e4 : (Queue.zipReplace it q1 q2 x y m).2.2.2.1.abs = (DequeSpec.zipReplace q1.abs q2.abs it.cur x y).2.2.2 := a4
      have e5 : (Queue.zipReplace it q1 q2 x y m).2.2.2.2 = m := a7
      rw [e3, e4] at r1 r2 r3 r4
      exact ⟨by rw [e1, e2, r1], r2, r3, r4, r5, r6, r7.trans e5⟩

/-- non-vacuity: a wrapped, exactly full ring is traversed completely, newest first -/
example : (C07Deque.drain (Deque.mk 4 4 3 3 [12, 13, 14, 11] .conf) 4 {} {}).1 = [11, 12, 13, 14] ∧
    Sim ⟨Deque.mk 4 4 3 3 [12, 13, 14, 11] .conf, .conf⟩ ⟨[14, 13, 12, 11]⟩ := by
  refine ⟨by decide, by decide, by decide⟩

end CC.Properties.C07Queue
