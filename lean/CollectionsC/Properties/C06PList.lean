import CollectionsC.Properties.C04PList
import CollectionsC.Properties.C04PSList
import CollectionsC.Properties.C18PList
/-! # C06 (pointer level) — no NULL / released-node dereference, released nodes are gone

The pointer-level models (`Model/PList.lean`, `Model/PSList.lean`) are total: `nd h id` of a released id is a zeroed node and a
write to it a no-op.  A dereference of a pointer that comes from a list header, an iterator field or an argument is therefore
preceded by `m.check (live h p)` (`live`: non-NULL and present in the heap): in `PList` — `list->head/tail` (the `match … | none`
branches of the header functions), the node of `unlinkn` (`node->data`, `mem_free(node)`), `iter->last` of
`iter_add/diter_add/zip_iter_add`, the cursors of `reverse` (`reverseLoopOk`) and of `merge` in `sort_in_place` (`l_part`,
`r_part`, the arguments of `link_behind`); in `PSList` — the node and `prev` of `unlinkn`, `list->tail->next` in
`add_last/add_all/splice`, `iter->current->next` in `iter_add/zip_iter_add`, the `match` branches of
`remove_at/remove_first/replace_at/link_all_externally`.  A NULL or released pointer there raises the ledger fault.  The
`next`-walks inside the loops (`get_node_at`, `get_node`, `filter_mut`, `write-back`, the builders' source walk) go through
`nextOf`/`nd` and are NOT individually checked: that they only visit nodes of the list is what `Seg`/`SSeg` say.

Theorems: along every history of `POp` operations from `new` the fault flag never rises (both list kinds), so none of the
checked dereferences hit NULL or a released node; `sort_in_place` and `reverse` likewise (one call, any represented list);
and every node an operation removes is **absent from the heap afterwards** (`Keeps.dead` / `SKeeps.dead`, `destroy`), so a later
access through a stale pointer would be a checked fault, not a silent read. -/
namespace CC.Properties.C06PList
open CC CC.Chain
open CC.PList (St Hdr Cell idsOf dataOf POp PS)
open CC.Spec
open CC.Spec.LSeq (Params)

/-- **doubly linked, histories from `new`**: the ledger of the pointer-level run never records a fault -/
theorem dlist_history_nofault (P : Params) (t1 t2 : Triple) (ops : List POp) (m : Mem)
    (hc : t1 = t2 ∨ ∀ op, op ∈ ops.map POp.toOp → ListHistory.isSplice op = false) :
    (PList.prun P (C04PList.fresh t1 t2) ops m).2.2.fault = m.fault := by
  obtain ⟨_, h2, _⟩ := C04PList.history_refines P t1 t2 ops m
  have hp : ListHistory.PairOk (ofList t1 [], ofList t2 []) m :=
    ⟨ofList_inv _, ofList_inv _, fun t => by
      simp only [ListHistory.owned, ownedBy, ofList_abs, ofList_triple, List.length_nil]
      by_cases x1 : t1 = t <;> by_cases x2 : t2 = t <;> simp [x1, x2]⟩
  rw [h2]
  exact (C04.dlist_history_refines_skipping P (ops.map POp.toOp) (ofList t1 [], ofList t2 []) m hp hc).2.2.2

/-- **singly linked, histories from `new`** -/
theorem slist_history_nofault (P : Params) (t1 t2 : Triple) (ops : List POp) (m : Mem)
    (hc : t1 = t2 ∨ ∀ op, op ∈ ops.map POp.toOp → ListHistory.isSplice op = false) :
    (PSList.srun P (C04PSList.fresh t1 t2) ops m).2.2.fault = m.fault := by
  obtain ⟨_, h2, _⟩ := C04PSList.history_refines P t1 t2 ops m
  have hp : ListHistory.PairOk (ofList t1 [], ofList t2 []) m :=
    ⟨ofList_inv _, ofList_inv _, fun t => by
      simp only [ListHistory.owned, ownedBy, ofList_abs, ofList_triple, List.length_nil]
      by_cases x1 : t1 = t <;> by_cases x2 : t2 = t <;> simp [x1, x2]⟩
  rw [h2]
  exact (C04.slist_history_refines_skipping P (ops.map POp.toOp) (ofList t1 [], ofList t2 []) m hp hc).2.2.2

/-- `cc_list_reverse` and `cc_list_sort_in_place` on any represented list: the ledger comes back untouched — no cursor was NULL
or released -/
theorem dlist_reverse_sort_nofault {cmp : Nat → Nat → Int} (hc : LSeq.CmpPreorder cmp) (s : St) (l : Hdr) (cs : List Cell) (m : Mem)
    (r : PList.Repr s.heap l cs) :
    (PList.reverseC s l m).2.2 = m ∧ (PList.sortInPlace cmp s l m).2.2 = m := by
  refine ⟨by rw [PList.reverseC_spec s l cs m r], (C18PList.sort_in_place_links hc s l cs r m).2.2.2.2.2⟩

/-- a removed node is **gone**: after `unlinkn` (hence `remove*`, the iterator removals, `filter_mut`) the node is absent from
the heap, and after `destroy` every node of the list is — both list kinds -/
theorem removed_nodes_are_dead (s : St) (l : Hdr) (pre post cs : List Cell) (a : Cell) (m : Mem) :
    (PList.Repr s.heap l (pre ++ a :: post) → (∀ x, x ∈ idsOf (pre ++ a :: post) → x < s.fresh) →
      (PList.unlinkn s l a.1 m).2.1.heap a.1 = none) ∧
    (PSList.SRepr s.heap l (pre ++ a :: post) → (∀ x, x ∈ idsOf (pre ++ a :: post) → x < s.fresh) →
      (PSList.unlinkn s l a.1 (PList.lastOr pre none) m).2.1.heap a.1 = none) ∧
    (PList.Repr s.heap l cs → (∀ x, x ∈ idsOf cs → x < s.fresh) → ∀ x, x ∈ idsOf cs → (PList.destroy s l m).2.1.heap x = none) ∧
    (PSList.SRepr s.heap l cs → (∀ x, x ∈ idsOf cs → x < s.fresh) → ∀ x, x ∈ idsOf cs → (PSList.destroy s l m).2.1.heap x = none) := by
  refine ⟨fun r hb => ?_, fun r hb => ?_, fun r hb => (PList.destroy_spec s l cs m r hb).2.2.2.2, fun r hb => (PSList.destroy_spec s l cs m r hb).2.2.2.2⟩
  · have n := (PList.nodup_append_cons r.nodup)
    exact (PList.unlinkn_spec s l pre post a m r hb).2.2.dead a.1 (by simp) (by
      simp only [PList.idsOf_append, List.mem_append, not_or]; exact ⟨n.2.2.1, n.2.2.2.1⟩)
  · have n := (PList.nodup_append_cons r.nodup)
    exact (PSList.unlinkn_spec s l pre post a m r hb).2.2.dead a.1 (by simp) (by
      simp only [PList.idsOf_append, List.mem_append, not_or]; exact ⟨n.2.2.1, n.2.2.2.1⟩)

/-- … and a dereference of such a node is a fault: `live` is false for a released id, so `unlinkn` of it (a double removal)
raises the flag -/
theorem freeT_keeps_fault (m : Mem) (t : Triple) (h : m.fault = true) : (m.freeT t).fault = true := by
  cases t <;> simp only [Mem.freeT, Mem.free] <;> split <;> simp [h]

theorem stale_unlink_faults (s : St) (l : Hdr) (n : Nat) (m : Mem) (h : s.heap n = none) :
    (PList.unlinkn s l n m).2.2.2.fault = true := by
  unfold PList.unlinkn
  exact freeT_keeps_fault _ _ (by simp [PList.live, h, Mem.check])

/-! ## the splice-across-allocators finding as a theorem-level negative

`splice`/`splice_at` move the nodes themselves.  Between lists on different allocator triples the destination then owns blocks
of the other allocator and releases them through its own `mem_free` (known finding `KF-splice-across-allocators`).  At the level
of these models (per-triple block counters; nodes do not carry their owner — see the scope note) this is a **provable failure**
of the ledger statements without the `Compat` hypothesis, while contents stay right (`C04.dlist_history_content`): -/

/-- witness: a C-library list (one node) receives two nodes of a configured list by `splice_at`, then removes its elements: the
third `free` goes through the C-library allocator, which handed out only one block — ledger fault; meanwhile the configured
allocator still counts two live blocks although its list is empty.  Contents and statuses are those of the ideal lists. -/
theorem cross_triple_splice_negative :
    let P : Params := ⟨fun _ => true, LSeq.cmpNum⟩
    let ops : List POp := [.addLast 1, .swapRoles, .addLast 7, .addLast 8, .swapRoles, .spliceAt 0, .removeFirst, .removeFirst, .removeFirst]
    (PList.prun P (C04PList.fresh .libc .conf) ops {}).2.2.fault = true ∧
    (PList.prun P (C04PList.fresh .libc .conf) ops {}).2.2.live = 2 ∧
    (PList.prun P (C04PList.fresh .libc .conf) ops {}).1.map (·.val) =
      [none, none, none, none, none, none, some 7, some 8, some 1] ∧
    PList.fwd (PList.prun P (C04PList.fresh .libc .conf) ops {}).2.1.st.heap (PList.prun P (C04PList.fresh .libc .conf) ops {}).2.1.l1 = [] ∧
    ¬ (.libc = Triple.conf ∨ ∀ op, op ∈ ops.map POp.toOp → ListHistory.isSplice op = false) := by
  decide

/-! ## per-triple release, as a statement about counts along histories

Nodes do not carry their allocator triple in these models, so "every node is released through the triple it was allocated on"
is stated as the exact per-triple balance: along every history (no splice across triples) the number of live blocks of each
allocator is what it was at the start plus the number of nodes the two lists currently hold **through that triple** — no block
of a triple is released through, or charged to, the other one, on the refusal paths included (a wrong `free` would make the
two counters drift apart, cf. `cross_triple_splice_negative`). -/

/-- **doubly linked, pointer-level histories from `new`**: `liveT t = initial + (size of the lists on triple t)` for both triples -/
theorem dlist_history_per_triple (P : Params) (t1 t2 : Triple) (ops : List POp) (m : Mem)
    (hc : t1 = t2 ∨ ∀ op, op ∈ ops.map POp.toOp → ListHistory.isSplice op = false) (t : Triple) :
    (PList.prun P (C04PList.fresh t1 t2) ops m).2.2.liveT t =
      m.liveT t + ((if (PList.prun P (C04PList.fresh t1 t2) ops m).2.1.l1.triple = t then (PList.prun P (C04PList.fresh t1 t2) ops m).2.1.l1.size else 0) +
                   (if (PList.prun P (C04PList.fresh t1 t2) ops m).2.1.l2.triple = t then (PList.prun P (C04PList.fresh t1 t2) ops m).2.1.l2.size else 0)) := by
  obtain ⟨c1, c2, I, e⟩ := PList.prun_refines P ops (C04PList.fresh t1 t2) [] [] m (C04PList.fresh_inv t1 t2)
  have e0 : PList.absPair (C04PList.fresh t1 t2) [] [] = (ofList t1 [], ofList t2 []) := rfl
  rw [e0] at e
  have hp : ListHistory.PairOk (ofList t1 [], ofList t2 []) m :=
    ⟨ofList_inv _, ofList_inv _, fun t => by
      simp only [ListHistory.owned, ownedBy, ofList_abs, ofList_triple, List.length_nil]
      by_cases x1 : t1 = t <;> by_cases x2 : t2 = t <;> simp [x1, x2]⟩
  have hl := C04.dlist_history_ledger P (ops.map POp.toOp) (ofList t1 [], ofList t2 []) m hp hc t
  have h0 : ListHistory.owned (ofList t1 [], ofList t2 []) t = 0 := by
    simp only [ListHistory.owned, ownedBy, ofList_abs, ofList_triple, List.length_nil]
    by_cases x1 : t1 = t <;> by_cases x2 : t2 = t <;> simp [x1, x2]
  rw [h0, e] at hl
  simp only [ListHistory.owned, ownedBy, PList.absPair, ofList_abs, ofList_triple, PList.dataOf_length] at hl
  rw [I.rep.r1.size, I.rep.r2.size]
  omega

end CC.Properties.C06PList
