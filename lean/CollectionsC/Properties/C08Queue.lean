import CollectionsC.Properties.C16Queue
import CollectionsC.Properties.C14Queue
import CollectionsC.Properties.C08Deque
/-! # C08 (queue part) — a refused allocation is atomic, wrapped constructor included

`cc_queue_new_conf` makes three allocator calls (queue header, then `cc_deque_new_conf`: deque header and
buffer); a failure of the inner constructor is propagated and the outer header released (Q1).
`cc_queue_enqueue` is `cc_deque_add_first`.  Every refusal schedule, any number of failures. -/
namespace CC.Properties.C08Queue
open CC CC.Properties.C09Queue

/-- **refused_iff** for `enqueue`: `CC_ERR_ALLOC` exactly when the ring is full and the allocator of the
queue's triple refuses (or the capacity limit is reached); otherwise `CC_OK` -/
theorem enqueue_refused_iff (q : Queue) (x : Nat) (m : Mem) (hi : q.Inv) :
    ((q.enqueue x m).1 = .errAlloc ↔
      q.d.size = q.d.cap ∧ (q.d.cap = Gen.MAX_POW_TWO ∨ (m.allocT q.triple).1 = false)) ∧
    ((q.enqueue x m).1 = .ok ∨ (q.enqueue x m).1 = .errAlloc) := by
  refine ⟨by rw [← hi.2]; exact (C08Deque.refused_iff q.d m x 0 hi.1).2.1, ?_⟩
  rcases Deque.addFirst_spec q.d x m hi.1 with ⟨a1, _⟩ | ⟨a1, _⟩
  · exact Or.inl a1
  · exact Or.inr a1

/-- **atomic**: a refused `enqueue` leaves the queue physically unchanged, the ledger balanced, nothing
faulted -/
theorem enqueue_atomic (q : Queue) (x : Nat) (m : Mem) (hi : q.Inv) (h : (q.enqueue x m).1 ≠ .ok) :
    (q.enqueue x m).2.1 = q ∧ Deque.memSame q.triple (q.enqueue x m).2.2 m := by
  obtain ⟨a1, a2⟩ := (C08Deque.atomic q.d m x 0 hi.1).1 h
  rw [hi.2] at a2
  refine ⟨?_, a2⟩
  cases q
  simp only [Queue.enqueue] at a1 ⊢
  rw [a1]

/-- **wrapped constructor**: any of the three requests refused ⇒ `CC_ERR_ALLOC`, no queue, and every
block obtained so far released again (balanced ledger, no fault); otherwise a queue over an empty deque
owning exactly three more blocks on its triple -/
theorem new_atomic (confCap : Nat) (t : Triple) (m : Mem) :
    ((Queue.new confCap t m).1 ≠ .ok → (Queue.new confCap t m).1 = .errAlloc ∧ (Queue.new confCap t m).2.1 = none ∧
      Deque.memSame t (Queue.new confCap t m).2.2 m) ∧
    ((Queue.new confCap t m).1 = .ok → ∃ q, (Queue.new confCap t m).2.1 = some q ∧ q.Inv ∧ q.abs = [] ∧
      Deque.memRel t 3 (Queue.new confCap t m).2.2 m) := by
  rcases Queue.new_spec confCap t m with ⟨n1, q, n2, n3, n4, _, _, n7⟩ | ⟨n1, n2, n3⟩
  · exact ⟨fun h => absurd n1 h, fun _ => ⟨q, n2, n3, n4, n7⟩⟩
  · exact ⟨fun _ => ⟨n1, n2, n3⟩, fun h => by rw [n1] at h; exact absurd h (by decide)⟩

/-- **continue, every remaining schedule**: after a blocked `enqueue` the rest of the interleaving produces
exactly the outputs and the final physical state it would have produced had the call never been made, on any
ledger with the same remaining schedule — further refusals included -/
theorem continue_after_refusal (q : Queue) (m m' : Mem) (x : Nat) (ops : List Op) (hi : q.Inv)
    (href : (q.enqueue x m).1 ≠ .ok) (hs : (q.enqueue x m).2.2.sched = m'.sched) :
    (runQ q m (.enqueue x :: ops)).1 = ⟨some (q.enqueue x m).1, none⟩ :: (runQ q m' ops).1 ∧
    (runQ q m (.enqueue x :: ops)).2.1 = (runQ q m' ops).2.1 := by
  obtain ⟨a1, _⟩ := enqueue_atomic q x m hi href
  have hstep : (stepQ q m (.enqueue x)).2.1 = q := a1
  obtain ⟨r1, r2⟩ := C14Queue.history_allocator_independent ops q (stepQ q m (.enqueue x)).2.2 m' hs
  simp only [runQ]
  rw [hstep]
  exact ⟨by rw [r1]; rfl, r2⟩

/-- … and against the ideal FIFO: the rest of the interleaving refines the FIFO continued from the content
before the failed call (`C09Queue.history_refines_sched` from the unchanged state) -/
theorem continue_refines (q : Queue) (f : Spec.QueueSpec.Fifo) (m : Mem) (x : Nat) (ops : List Op) (h : Sim q f)
    (href : (q.enqueue x m).1 ≠ .ok) :
    (runQ q m (.enqueue x :: ops)).1 =
      ⟨some (q.enqueue x m).1, none⟩ :: (runB f (ops.zip (flags q (q.enqueue x m).2.2 ops))).1 ∧
    Sim (runQ q m (.enqueue x :: ops)).2.1 (runB f (ops.zip (flags q (q.enqueue x m).2.2 ops))).2 := by
  obtain ⟨a1, _⟩ := enqueue_atomic q x m h.1 href
  have hstep : (stepQ q m (.enqueue x)).2.1 = q := a1
  obtain ⟨r1, r2, _⟩ := history_refines_sched ops q f (q.enqueue x m).2.2 h
  simp only [runQ]
  rw [hstep]
  exact ⟨by rw [show (stepQ q m (.enqueue x)).2.2 = (q.enqueue x m).2.2 from rfl, r1]; rfl, r2⟩

/-- non-vacuity: a full wrapped ring, first growth refused, second succeeds -/
example : (runQ ⟨Deque.mk 2 2 1 1 [12, 11] .conf, .conf⟩ { sched := [true], live := 3 } [.enqueue 5, .enqueue 6, .poll]).1 =
    [⟨some .errAlloc, none⟩, ⟨some .ok, none⟩, ⟨some .ok, some 12⟩] := by decide

end CC.Properties.C08Queue
