import CollectionsC.Properties.C16Queue
import CollectionsC.Properties.C08Deque
/-! # C08 (queue part) — a refused allocation is atomic, wrapped constructor included

`cc_queue_new_conf` makes three allocator calls (queue header, then `cc_deque_new_conf`: deque header and
buffer); a failure of the inner constructor is propagated and the outer header released (Q1).
`cc_queue_enqueue` is `cc_deque_add_first`. -/
namespace CC.Properties.C08Queue
open CC CC.Properties.C09Queue

/-- **refused_iff** for `enqueue`: `CC_ERR_ALLOC` exactly when the ring is full and the allocator refuses
(or the capacity limit is reached); otherwise `CC_OK` -/
theorem enqueue_refused_iff (q : Queue) (x : Nat) (m : Mem) (hi : q.Inv) :
    ((q.enqueue x m).1 = .errAlloc ↔
      q.d.size = q.d.cap ∧ (q.d.cap = Gen.MAX_POW_TWO ∨ m.alloc.1 = false)) ∧
    ((q.enqueue x m).1 = .ok ∨ (q.enqueue x m).1 = .errAlloc) := by
  refine ⟨(C08Deque.refused_iff q.d m x 0 hi).2.1, ?_⟩
  rcases Deque.addFirst_spec q.d x m hi with ⟨a1, _⟩ | ⟨a1, _⟩
  · exact Or.inl a1
  · exact Or.inr a1

/-- **atomic**: a refused `enqueue` leaves the queue physically unchanged, the ledger balanced, nothing
faulted -/
theorem enqueue_atomic (q : Queue) (x : Nat) (m : Mem) (hi : q.Inv) (h : (q.enqueue x m).1 ≠ .ok) :
    (q.enqueue x m).2.1 = q ∧ Deque.memSame (q.enqueue x m).2.2 m := by
  obtain ⟨a1, a2⟩ := (C08Deque.atomic q.d m x 0 hi).1 h
  refine ⟨?_, a2⟩
  cases q
  simp only [Queue.enqueue] at a1 ⊢
  rw [a1]

/-- **wrapped constructor**: any of the three requests refused ⇒ `CC_ERR_ALLOC`, no queue, and every
block obtained so far released again (balanced ledger, no fault); otherwise a queue over an empty deque
owning exactly three blocks -/
theorem new_atomic (confCap : Nat) (m : Mem) :
    ((Queue.new confCap m).1 ≠ .ok → (Queue.new confCap m).1 = .errAlloc ∧ (Queue.new confCap m).2.1 = none ∧
      Deque.memSame (Queue.new confCap m).2.2 m) ∧
    ((Queue.new confCap m).1 = .ok → ∃ q, (Queue.new confCap m).2.1 = some q ∧ q.Inv ∧ q.abs = [] ∧
      (Queue.new confCap m).2.2.live = m.live + 3 ∧ (Queue.new confCap m).2.2.fault = m.fault) := by
  rcases Queue.new_spec confCap m with ⟨n1, q, n2, n3, n4, _, n6, n7, _⟩ | ⟨n1, n2, n3⟩
  · exact ⟨fun h => absurd n1 h, fun _ => ⟨q, n2, n3, n4, n6, n7⟩⟩
  · exact ⟨fun _ => ⟨n1, n2, n3⟩, fun h => by rw [n1] at h; exact absurd h (by decide)⟩

/-- **continue**: after a refused `enqueue` the rest of the interleaving behaves — once the allocator
succeeds again — exactly like the ideal FIFO continued from the content before the failed call -/
theorem continue_after_refusal (q : Queue) (f : Spec.QueueSpec.Fifo) (m : Mem) (x : Nat) (ops : List Op)
    (h : Sim q f) (href : (q.enqueue x m).1 ≠ .ok) (hs : (q.enqueue x m).2.2.sched = [])
    (hbound : f.items.length + ops.length ≤ Gen.MAX_POW_TWO) :
    (runQ q m (.enqueue x :: ops)).1 = ⟨some (q.enqueue x m).1, none⟩ :: (runF f ops).1 ∧
    Sim (runQ q m (.enqueue x :: ops)).2.1 (runF f ops).2 := by
  obtain ⟨a1, _⟩ := enqueue_atomic q x m h.1 href
  have hstep : (stepQ q m (.enqueue x)).2.1 = q := a1
  obtain ⟨r1, r2, _⟩ := history_refines ops (stepQ q m (.enqueue x)).2.1 f (stepQ q m (.enqueue x)).2.2
    (by rw [hstep]; exact h) hs hbound
  simp only [runQ]
  exact ⟨by rw [r1]; rfl, r2⟩

end CC.Properties.C08Queue
