import CollectionsC.Properties.C07Array
import CollectionsC.Properties.C09Stack
/-! # C07 (stack part) — stack iterators traverse completely and in order

Statements only.  `CC_StackIter`/`CC_StackZipIter` wrap the array iterators; the stack offers `next`
and `replace` (and their zip forms) only.  Every stack iterator function *is* the array function on
`stack->v`, so programs over a stack are the array programs restricted to `next`/`replace`/`index`-free
vocabulary, and all of `C07Array` applies.  Order: bottom of the stack first. -/
namespace CC.Properties.C07Stack
open CC
open CC.Spec.Seq (IterOp Cursor ZipCursor Out ZipOp ZOut)

/-- the stack iterator functions are the array iterator functions on the wrapped array -/
theorem iter_is_array_iter (s t : Stack) (it : ArrIter) (x y : Nat) (m : Mem) :
    s.iterNext it m = s.v.iterNext it m ∧
    (s.iterReplace it x m).1 = (s.v.iterReplace it x m).1 ∧ (s.iterReplace it x m).2.1 = (s.v.iterReplace it x m).2.1 ∧
    (s.iterReplace it x m).2.2.1.v = (s.v.iterReplace it x m).2.2.1 ∧
    Stack.zipNext s t it m = Arr.zipNext s.v t.v it m ∧
    (Stack.zipReplace s t it x y m).2.2.1.v = (Arr.zipReplace s.v t.v it x y m).2.2.1 ∧
    (Stack.zipReplace s t it x y m).2.2.2.1.v = (Arr.zipReplace s.v t.v it x y m).2.2.2.1 :=
  ⟨rfl, rfl, rfl, rfl, rfl, rfl, rfl⟩

/-- **complete traversal**: `size + 1` calls of `cc_stack_iter_next` on a fresh iterator yield exactly
the live elements bottom to top, then `CC_ITER_END` — at every fill level, exactly full included -/
theorem traversal_complete (s : Stack) (m : Mem) (hinv : s.Inv) :
    (s.v.iterRun {} (List.replicate (s.size + 1) .next) m).1 =
      s.abs.map (fun x => ({ st := some .ok, val := some x } : Out)) ++ [{ st := some .iterEnd }] :=
  C07Array.traversal_complete s.v m hinv

/-- **every next/replace program refines the ideal cursor** (the stack offers no structural change
through its iterator, so the traversal always covers exactly the original positions) -/
theorem program_refines (ops : List IterOp) (s : Stack) (it : ArrIter) (c : Cursor) (m : Mem) (hinv : s.Inv)
    (hs : Arr.Sim s.v it c) :
    (s.v.iterRun it ops m).1 = (c.run ops ((s.v.iterRun it ops m).1.map Out.blocked)).1 ∧
    Arr.Sim (s.v.iterRun it ops m).2.1 (s.v.iterRun it ops m).2.2.1 (c.run ops ((s.v.iterRun it ops m).1.map Out.blocked)).2 :=
  ⟨(C07Array.program_refines ops s.v it c m hinv hs).1, (C07Array.program_refines ops s.v it c m hinv hs).2.1⟩

theorem next_sim (s : Stack) (it : ArrIter) (c : Cursor) (m : Mem) (hinv : s.Inv) (hs : Arr.Sim s.v it c) :
    (s.iterNext it m).1 = c.next.1 ∧ (s.iterNext it m).2.1 = c.next.2.1 ∧
    Arr.Sim s.v (s.iterNext it m).2.2.1 c.next.2.2 ∧ (s.iterNext it m).2.2.2 = m :=
  C09Stack.iter_next_sim s it c m hinv hs

/-- replace: exactly the element yielded last; size and every other element intact -/
theorem replace_sim (s : Stack) (it : ArrIter) (c : Cursor) (x : Nat) (m : Mem) (hinv : s.Inv) (hs : Arr.Sim s.v it c) :
    (s.iterReplace it x m).1 = (c.replace x).1 ∧ (s.iterReplace it x m).2.1 = (c.replace x).2.1 ∧
    Arr.Sim (s.iterReplace it x m).2.2.1.v it (c.replace x).2.2 ∧ (s.iterReplace it x m).2.2.1.size = s.size := by
  obtain ⟨r1, r2, r3, _, r5, _⟩ := Arr.iterReplace_sim s.v it c x m hinv hs
  exact ⟨r1, r2, r3, r5⟩

/-- zip: lock-step over two stacks, stops at the shorter -/
theorem zip_next_sim (s t : Stack) (it : ArrIter) (z : ZipCursor) (m : Mem) (hs : s.Inv) (ht : t.Inv)
    (h : Arr.ZSim s.v t.v it z) :
    (Stack.zipNext s t it m).1 = z.next.1 ∧ (Stack.zipNext s t it m).2.1 = z.next.2.1 ∧
    Arr.ZSim s.v t.v (Stack.zipNext s t it m).2.2.1 z.next.2.2 :=
  ⟨(C09Stack.zip_next_sim s t it z m hs ht h).1, (C09Stack.zip_next_sim s t it z m hs ht h).2.1,
   (C09Stack.zip_next_sim s t it z m hs ht h).2.2.1⟩

theorem zip_replace_sim (s t : Stack) (it : ArrIter) (z : ZipCursor) (x y : Nat) (m : Mem) (hs : s.Inv) (ht : t.Inv)
    (h : Arr.ZSim s.v t.v it z) :
    (Stack.zipReplace s t it x y m).1 = (z.replace x y).1 ∧ (Stack.zipReplace s t it x y m).2.1 = (z.replace x y).2.1 ∧
    Arr.ZSim (Stack.zipReplace s t it x y m).2.2.1.v (Stack.zipReplace s t it x y m).2.2.2.1.v it (z.replace x y).2.2 :=
  ⟨(C09Stack.zip_replace_sim s t it z x y m hs ht h).1, (C09Stack.zip_replace_sim s t it z x y m hs ht h).2.1,
   (C09Stack.zip_replace_sim s t it z x y m hs ht h).2.2.1⟩

/-- **every zip program over two stacks refines the ideal lock-step cursor** (`cc_stack_zip_iter_next`
and `_replace` are the array functions on the wrapped arrays — `iter_is_array_iter` — so the stack's
programs are the `next`/`replace` programs among these), for every schedule; both invariants kept,
ledger balanced, no fault -/
theorem zip_program_refines (ops : List ZipOp) (s t : Stack) (it : ArrIter) (z : ZipCursor) (m : Mem)
    (hs : s.Inv) (ht : t.Inv) (h : Arr.ZSim s.v t.v it z) :
    (Arr.zipRun s.v t.v it ops m).1 = (z.run ops ((Arr.zipRun s.v t.v it ops m).1.map ZOut.blocked)).1 ∧
    Arr.ZSim (Arr.zipRun s.v t.v it ops m).2.1 (Arr.zipRun s.v t.v it ops m).2.2.1 (Arr.zipRun s.v t.v it ops m).2.2.2.1
      (z.run ops ((Arr.zipRun s.v t.v it ops m).1.map ZOut.blocked)).2 ∧
    (Arr.zipRun s.v t.v it ops m).2.1.Inv ∧ (Arr.zipRun s.v t.v it ops m).2.2.1.Inv ∧
    (Arr.zipRun s.v t.v it ops m).2.2.2.2.live = m.live ∧ (Arr.zipRun s.v t.v it ops m).2.2.2.2.fault = m.fault :=
  C07Array.zip_program_refines ops s.v t.v it z m hs ht h

/-- the ideal zip cursor stops exactly at the shorter list -/
theorem spec_zip_stops_at_shorter (z : ZipCursor) : z.next.1 = .iterEnd ↔ (z.todo1 = [] ∨ z.todo2 = []) := by
  unfold ZipCursor.next
  cases h1 : z.todo1 <;> cases h2 : z.todo2 <;> simp

/-! a stack of 3 (bottom first 10, 20, 30) in a block of 4: complete traversal, then a
next/replace/next program; a zip over stacks of sizes 3 and 2 stops after two pairs -/
example :
    let s : Stack := { v := Arr.mk 3 4 [10, 20, 30, 77] (fun c => 2 * c) .conf }
    let t : Stack := { v := Arr.mk 2 2 [1, 2] (fun c => 2 * c) .conf }
    s.Inv ∧ t.Inv ∧
    (s.v.iterRun {} (List.replicate 4 .next) {}).1.map (·.val) = [some 10, some 20, some 30, none] ∧
    (s.v.iterRun {} [.next, .replace 5, .next] {}).2.1.buf = [5, 20, 30, 77] ∧
    (Arr.zipRun s.v t.v {} [.next, .next, .next] {}).1.map (·.val) = [some (10, 1), some (20, 2), none] ∧
    (Arr.zipRun s.v t.v {} [.next, .replace 8 9] {}).2.2.1.abs = [9, 2] := by
  decide

end CC.Properties.C07Stack
