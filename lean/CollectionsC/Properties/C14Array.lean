import CollectionsC.Proofs.ArrayUncond
/-! # C14 (array part) — `CC_Array` uses only the allocator triple it was given

Statements only (helpers: `Proofs/ArrayMem.lean`).  The model's array carries the triple it copied
from its configuration (`Arr.triple`: `.conf` = the caller's `mem_alloc/mem_calloc/mem_free`,
`.libc` = the C library's, what `cc_array_new` configures); every allocation and release of the model
goes through `Mem.allocT a.triple`/`Mem.freeT a.triple`, and the two allocators keep separate
counters in the ledger (`live/nalloc/nfree` vs `liveLibc/lalloc/lfree/libc`).  So the statements
below are falsifiable: a model function that used the wrong triple (as the repaired defects D10, L4,
S1, Q3 did in C) would move the other allocator's counters.

* `conf_uses_only_conf`: an array on the configured triple never touches the C-library counters;
* `default_uses_only_libc`: an array on the C-library triple never touches the configured counters,
  the schedule of refusals, and is never refused;
* `derived_inherits_triple`: sub-arrays, copies and filter results carry the source's triple (and are
  allocated through it);
* `allocator_independent`: status, out-values and resulting state depend on the ledger only through
  its schedule of refusals — the array behaves on a pool exactly as on `malloc` as long as the pool
  does not refuse.
(Outside the model's ledger on purpose: `cc_array_remove_all_free` releases the *elements* with the C
library's `free`, as its documentation says.) -/
namespace CC.Properties.C14Array
open CC
open CC.Spec.Seq (Cfg Op Out IterOp)

/-- one call of the C01 vocabulary on an array of the configured triple: no C-library event -/
theorem conf_uses_only_conf (cfg : Cfg) (a : Arr) (op : Op) (m : Mem) (hinv : a.Inv) (ht : a.triple = .conf) :
    (a.step cfg op m).2.2.libc = m.libc ∧ (a.step cfg op m).2.2.liveLibc = m.liveLibc ∧
    (a.step cfg op m).2.2.lalloc = m.lalloc ∧ (a.step cfg op m).2.2.lfree = m.lfree := by
  have := (Arr.step_led cfg a op m hinv).2.1
  rw [ht] at this
  exact ⟨this.2.1, this.1, this.2.2.1, this.2.2.2⟩

/-- one call on an array of the C-library triple (`cc_array_new`): the configured allocator is not
used, its schedule is not consumed, and the call cannot be refused -/
theorem default_uses_only_libc (cfg : Cfg) (a : Arr) (op : Op) (m : Mem) (hinv : a.Inv) (ht : a.triple = .libc) :
    (a.step cfg op m).2.2.live = m.live ∧ (a.step cfg op m).2.2.nalloc = m.nalloc ∧
    (a.step cfg op m).2.2.nfree = m.nfree ∧ (a.step cfg op m).2.2.sched = m.sched ∧
    (a.step cfg op m).2.2.nrefused = m.nrefused ∧ (a.step cfg op m).1.st ≠ some .errAlloc := by
  obtain ⟨_, l2, l3, l4⟩ := Arr.step_led cfg a op m hinv
  rw [ht] at l2
  have hr := l4 ht
  refine ⟨l2.1, l2.2.1, l2.2.2.1, l2.2.2.2, ?_, by simpa using hr⟩
  rw [hr] at l3; simpa using l3

/-- histories: only the array's own allocator is ever used, and the triple never changes -/
theorem history_uses_only_own_triple (cfg : Cfg) (ops : List Op) (a : Arr) (m : Mem) (hinv : a.Inv)
    (hsort : ∀ xs, (cfg.sortFn xs).length = xs.length) :
    Arr.Foreign a.triple m (a.run cfg ops m).2.2 ∧ (a.run cfg ops m).2.1.triple = a.triple :=
  ⟨(Arr.run_led cfg ops a m hinv hsort).2.1, (Arr.run_led cfg ops a m hinv hsort).2.2.2⟩

/-- constructor (triple `t`), destructor and the derived-array builders (source's triple) -/
theorem lifecycle_uses_only_own_triple (a : Arr) (cap b e : Nat) (grow : Nat → Nat) (exGe : Nat → Bool)
    (cp : Nat → Nat) (p : Nat → Bool) (m : Mem) (t : Triple) :
    Arr.Foreign t m (Arr.new cap grow exGe m t).2.2 ∧ Arr.Foreign a.triple m (a.destroy m) ∧
    Arr.Foreign a.triple m (a.subarray b e m).2.2 ∧ Arr.Foreign a.triple m (a.copyShallow m).2.2 ∧
    Arr.Foreign a.triple m (a.copyDeep cp m).2.2.2 ∧ Arr.Foreign a.triple m (a.filter p m).2.2.2 :=
  ⟨(Arr.new_led cap grow exGe m t).2.1, Arr.destroy_foreign a m, (Arr.subarray_led a b e m).2.1,
   (Arr.copyShallow_led a m).2.1, (Arr.copyDeep_led cp a m).2.1, (Arr.filter_led p a m).2.1⟩

/-- **derived arrays inherit the triple** (`sub_ar->mem_alloc = ar->mem_alloc` …), and the constructor
stores the one it was given -/
theorem derived_inherits_triple (a : Arr) (cap b e : Nat) (grow : Nat → Nat) (exGe : Nat → Bool) (cp : Nat → Nat)
    (p : Nat → Bool) (m : Mem) (t : Triple) (r : Arr) :
    ((Arr.new cap grow exGe m t).2.1 = some r → r.triple = t) ∧
    ((a.subarray b e m).2.1 = some r → r.triple = a.triple) ∧
    ((a.copyShallow m).2.1 = some r → r.triple = a.triple) ∧
    ((a.copyDeep cp m).2.1 = some r → r.triple = a.triple) ∧
    ((a.filter p m).2.1 = some r → r.triple = a.triple) := by
  refine ⟨fun h => ?_, fun h => ?_, fun h => ?_, fun h => ?_, fun h => ?_⟩
  · by_cases hv : cap = 0 ∨ exGe (Gen.CC_MAX_ELEMENTS / cap) = true ∨ cap > Gen.CC_MAX_ELEMENTS / 8
    · rw [Arr.new_invalid_eq cap grow exGe m t hv] at h; simp at h
    · rw [Arr.new_eq cap grow exGe m t (fun h => hv (Or.inl h)) (fun h => hv (Or.inr (Or.inl h)))
        (fun h => hv (Or.inr (Or.inr h)))] at h
      split at h
      · simp only [Option.some.injEq] at h; rw [← h]
      · simp at h
  · unfold Arr.subarray at h
    split at h
    · simp at h
    · simp only at h
      split at h
      · simp at h
      · simp only [Option.some.injEq] at h; rw [← h]
  · unfold Arr.copyShallow at h
    simp only at h
    split at h
    · simp at h
    · simp only [Option.some.injEq] at h; rw [← h]
  · unfold Arr.copyDeep at h
    simp only at h
    split at h
    · simp at h
    · simp only [Option.some.injEq] at h; rw [← h]
  · unfold Arr.filter at h
    split at h
    · simp at h
    · simp only at h
      split at h
      · simp at h
      · simp only [Option.some.injEq] at h; rw [← h]

/-- iterator calls, including insertions that re-allocate; the zip insertion on two arrays of one triple -/
theorem iter_uses_only_own_triple (a : Arr) (it : ArrIter) (c : Spec.Seq.Cursor) (op : IterOp) (m : Mem) (hinv : a.Inv)
    (hs : Arr.Sim a it c) : Arr.Foreign a.triple m (a.iterStep it op m).2.2.2 :=
  (Arr.iterStep_led a it op m hinv c hs).2.1

theorem zip_add_uses_only_own_triple (a1 a2 : Arr) (it : ArrIter) (x y : Nat) (m : Mem) (h1 : a1.Inv) (h2 : a2.Inv)
    (ht : a2.triple = a1.triple) : Arr.Foreign a1.triple m (Arr.zipAdd a1 a2 it x y m).2.2.2.2 :=
  (Arr.zipAdd_led a1 a2 it x y m h1 h2 ht).2.1

/-- **mixed triples in a zip**: `cc_array_zip_iter_add` on two arrays of any triples charges each array's
growth step to that array's own triple — the ledger passes through an intermediate state reached by
moving only the first array's triple, and from there only the second array's triple moves; neither
step changes a live-block count -/
theorem zip_add_charges_each_own_triple (a1 a2 : Arr) (it : ArrIter) (x y : Nat) (m : Mem) (h1 : a1.Inv) (h2 : a2.Inv) :
    ∃ (m1 : Mem) (r1 r2 : Bool), Arr.Led a1.triple m m1 0 r1 ∧
      Arr.Led a2.triple m1 (Arr.zipAdd a1 a2 it x y m).2.2.2.2 0 r2 :=
  Arr.zipAdd_charges_each a1 a2 it x y m h1 h2

/-- **allocator independence, one call**: two ledgers with the same schedule of refusals give the same
report and the same resulting state (and the same remaining schedule) -/
theorem allocator_independent (cfg : Cfg) (a : Arr) (op : Op) (m1 m2 : Mem) (hinv : a.Inv) (h : m1.sched = m2.sched) :
    (a.step cfg op m1).1 = (a.step cfg op m2).1 ∧ (a.step cfg op m1).2.1 = (a.step cfg op m2).2.1 ∧
    (a.step cfg op m1).2.2.sched = (a.step cfg op m2).2.2.sched := Arr.step_indep cfg a op m1 m2 hinv h

/-- **allocator independence, histories** -/
theorem history_allocator_independent (cfg : Cfg) (ops : List Op) (a : Arr) (m1 m2 : Mem) (hinv : a.Inv)
    (hsort : ∀ xs, (cfg.sortFn xs).length = xs.length) (h : m1.sched = m2.sched) :
    (a.run cfg ops m1).1 = (a.run cfg ops m2).1 ∧ (a.run cfg ops m1).2.1 = (a.run cfg ops m2).2.1 :=
  ⟨(Arr.run_indep cfg ops a m1 m2 hinv hsort h).1, (Arr.run_indep cfg ops a m1 m2 hinv hsort h).2.1⟩

/-- on an allocator that never refuses (`sched = []`: a big enough pool, or `malloc`) the reports are
those of any other such allocator -/
theorem runs_on_any_nonrefusing_allocator (cfg : Cfg) (ops : List Op) (a : Arr) (m1 m2 : Mem) (hinv : a.Inv)
    (hsort : ∀ xs, (cfg.sortFn xs).length = xs.length)
    (h1 : m1.sched = []) (h2 : m2.sched = []) : (a.run cfg ops m1).1 = (a.run cfg ops m2).1 :=
  (Arr.run_indep cfg ops a m1 m2 hinv hsort (by rw [h1, h2])).1

/-- constructor and builders: same object (or none) under the same schedule -/
theorem lifecycle_allocator_independent (a : Arr) (cap b e : Nat) (grow : Nat → Nat) (exGe : Nat → Bool)
    (cp : Nat → Nat) (p : Nat → Bool) (m1 m2 : Mem) (t : Triple) (h : m1.sched = m2.sched) :
    ((Arr.new cap grow exGe m1 t).1 = (Arr.new cap grow exGe m2 t).1 ∧ (Arr.new cap grow exGe m1 t).2.1 = (Arr.new cap grow exGe m2 t).2.1) ∧
    ((a.subarray b e m1).1 = (a.subarray b e m2).1 ∧ (a.subarray b e m1).2.1 = (a.subarray b e m2).2.1) ∧
    ((a.copyShallow m1).1 = (a.copyShallow m2).1 ∧ (a.copyShallow m1).2.1 = (a.copyShallow m2).2.1) ∧
    ((a.copyDeep cp m1).1 = (a.copyDeep cp m2).1 ∧ (a.copyDeep cp m1).2.1 = (a.copyDeep cp m2).2.1) ∧
    ((a.filter p m1).1 = (a.filter p m2).1 ∧ (a.filter p m1).2.1 = (a.filter p m2).2.1) :=
  ⟨⟨(Arr.new_indep cap grow exGe m1 m2 t h).1, (Arr.new_indep cap grow exGe m1 m2 t h).2.1⟩,
   ⟨(Arr.subarray_indep a b e m1 m2 h).1, (Arr.subarray_indep a b e m1 m2 h).2.1⟩,
   ⟨(Arr.copyShallow_indep a m1 m2 h).1, (Arr.copyShallow_indep a m1 m2 h).2.1⟩,
   ⟨(Arr.copyDeep_indep cp a m1 m2 h).1, (Arr.copyDeep_indep cp a m1 m2 h).2.1⟩,
   ⟨(Arr.filter_indep p a m1 m2 h).1, (Arr.filter_indep p a m1 m2 h).2.1⟩⟩

theorem iter_add_allocator_independent (a1 a2 : Arr) (it : ArrIter) (x y : Nat) (m1 m2 : Mem) (h : m1.sched = m2.sched) :
    ((a1.iterAdd it x m1).1 = (a1.iterAdd it x m2).1 ∧ (a1.iterAdd it x m1).2.1 = (a1.iterAdd it x m2).2.1 ∧
      (a1.iterAdd it x m1).2.2.1 = (a1.iterAdd it x m2).2.2.1) ∧
    ((Arr.zipAdd a1 a2 it x y m1).1 = (Arr.zipAdd a1 a2 it x y m2).1 ∧
      (Arr.zipAdd a1 a2 it x y m1).2.1 = (Arr.zipAdd a1 a2 it x y m2).2.1 ∧
      (Arr.zipAdd a1 a2 it x y m1).2.2.1 = (Arr.zipAdd a1 a2 it x y m2).2.2.1 ∧
      (Arr.zipAdd a1 a2 it x y m1).2.2.2.1 = (Arr.zipAdd a1 a2 it x y m2).2.2.2.1) := by
  obtain ⟨e1, e2, e3, _⟩ := Arr.iterAdd_indep a1 it x m1 m2 h
  obtain ⟨f1, f2, f3, f4, _⟩ := Arr.zipAdd_indep a1 a2 it x y m1 m2 h
  exact ⟨⟨e1, e2, e3⟩, ⟨f1, f2, f3, f4⟩⟩

/-! Non-vacuity, and the statements are falsifiable: the same growth step moves the configured counters
on a `.conf` array and the C-library counters on a `.libc` array — and only those. -/
example :
    let m : Mem := { live := 2, liveLibc := 2 }
    let ac : Arr := Arr.mk 1 1 [5] (fun c => 2 * c) .conf
    let al : Arr := Arr.mk 1 1 [5] (fun c => 2 * c) .libc
    ac.Inv ∧ al.Inv ∧
    ((ac.add 6 m).2.2.nalloc, (ac.add 6 m).2.2.nfree, (ac.add 6 m).2.2.lalloc, (ac.add 6 m).2.2.lfree, (ac.add 6 m).2.2.libc) = (1, 1, 0, 0, 0) ∧
    ((al.add 6 m).2.2.nalloc, (al.add 6 m).2.2.nfree, (al.add 6 m).2.2.lalloc, (al.add 6 m).2.2.lfree, (al.add 6 m).2.2.libc) = (0, 0, 1, 1, 2) ∧
    (al.add 6 { m with sched := [true] }).1 = .ok ∧ (ac.add 6 { m with sched := [true] }).1 = .errAlloc := by
  decide

end CC.Properties.C14Array
