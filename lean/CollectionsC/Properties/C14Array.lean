import CollectionsC.Proofs.ArrayMem
/-! # C14 (array part) — `CC_Array` uses only its configured allocators

Statements only (helpers: `Proofs/ArrayMem.lean`).  In the model every `mem_alloc`/`mem_calloc`/
`mem_free` of `cc_array.c` is `Mem.alloc`/`Mem.free`, the configured triple; `Mem.libc` counts what
goes through the C library instead.  `libc_invariant`: no function of the array changes `libc` —
constructor, every call of the C01 vocabulary, the builders of derived arrays (which inherit the
source's triple), iterator insertions, destructor.  `allocator_independent`: status, out-values and
resulting state depend on the ledger only through its schedule of refusals — the array behaves on a
pool exactly as on `malloc` as long as the pool does not refuse.  (The one documented exception is
outside the model's ledger on purpose: `cc_array_remove_all_free` releases the *elements* with the C
library's `free`, as its documentation says.) -/
namespace CC.Properties.C14Array
open CC
open CC.Spec.Seq (Cfg Op Out IterOp)

/-- one call of the C01 vocabulary never touches the C library allocator -/
theorem libc_invariant (cfg : Cfg) (a : Arr) (op : Op) (m : Mem) (hinv : a.Inv) :
    (a.step cfg op m).2.2.libc = m.libc := (Arr.step_led cfg a op m hinv).1

/-- nor does any history -/
theorem history_libc_invariant (cfg : Cfg) (ops : List Op) (a : Arr) (m : Mem) (hinv : a.Inv)
    (hsort : ∀ xs, (cfg.sortFn xs).length = xs.length) : (a.run cfg ops m).2.2.libc = m.libc :=
  (Arr.run_led cfg ops a m hinv hsort).1

/-- constructor, destructor and the derived-array builders -/
theorem lifecycle_libc_invariant (a : Arr) (cap b e : Nat) (grow : Nat → Nat) (exGe : Nat → Bool)
    (cp : Nat → Nat) (p : Nat → Bool) (m : Mem) :
    (Arr.new cap grow exGe m).2.2.libc = m.libc ∧ (a.destroy m).libc = m.libc ∧
    (a.subarray b e m).2.2.libc = m.libc ∧ (a.copyShallow m).2.2.libc = m.libc ∧
    (a.copyDeep cp m).2.2.2.libc = m.libc ∧ (a.filter p m).2.2.2.libc = m.libc :=
  ⟨(Arr.new_led cap grow exGe m).1, (Arr.destroy_led a m).1, (Arr.subarray_led a b e m).1,
   (Arr.copyShallow_led a m).1, (Arr.copyDeep_led cp a m).1, (Arr.filter_led p a m).1⟩

/-- iterator calls, including insertions that re-allocate, and the zip insertion on two arrays -/
theorem iter_libc_invariant (a : Arr) (it : ArrIter) (c : Spec.Seq.Cursor) (op : IterOp) (m : Mem) (hinv : a.Inv)
    (hs : Arr.Sim a it c) : (a.iterStep it op m).2.2.2.libc = m.libc := (Arr.iterStep_led a it op m hinv c hs).1

theorem zip_add_libc_invariant (a1 a2 : Arr) (it : ArrIter) (x y : Nat) (m : Mem) (h1 : a1.Inv) (h2 : a2.Inv)
    : (Arr.zipAdd a1 a2 it x y m).2.2.2.2.libc = m.libc :=
  (Arr.zipAdd_led a1 a2 it x y m h1 h2).1

/-- **allocator independence, one call**: two ledgers with the same schedule of refusals give the same
report and the same resulting state (and the same remaining schedule) -/
theorem allocator_independent (cfg : Cfg) (a : Arr) (op : Op) (m1 m2 : Mem) (hinv : a.Inv) (h : m1.sched = m2.sched) :
    (a.step cfg op m1).1 = (a.step cfg op m2).1 ∧ (a.step cfg op m1).2.1 = (a.step cfg op m2).2.1 ∧
    (a.step cfg op m1).2.2.sched = (a.step cfg op m2).2.2.sched := Arr.step_indep cfg a op m1 m2 hinv h

/-- **allocator independence, histories** -/
theorem history_allocator_independent (cfg : Cfg) (ops : List Op) (a : Arr) (m1 m2 : Mem) (hinv : a.Inv)
    (hsort : ∀ xs, (cfg.sortFn xs).length = xs.length)
    (h : m1.sched = m2.sched) :
    (a.run cfg ops m1).1 = (a.run cfg ops m2).1 ∧ (a.run cfg ops m1).2.1 = (a.run cfg ops m2).2.1 :=
  ⟨(Arr.run_indep cfg ops a m1 m2 hinv hsort h).1, (Arr.run_indep cfg ops a m1 m2 hinv hsort h).2.1⟩

/-- on an allocator that never refuses (`sched = []`: a big enough pool, or `malloc`) the reports are
those of any other such allocator -/
theorem runs_on_any_nonrefusing_allocator (cfg : Cfg) (ops : List Op) (a : Arr) (m1 m2 : Mem) (hinv : a.Inv)
    (hsort : ∀ xs, (cfg.sortFn xs).length = xs.length)
    (h1 : m1.sched = []) (h2 : m2.sched = []) : (a.run cfg ops m1).1 = (a.run cfg ops m2).1 :=
  (Arr.run_indep cfg ops a m1 m2 hinv hsort (by rw [h1, h2])).1

/-- constructor and builders: same object (or none) under the same schedule — derived arrays are
allocated through the source's triple -/
theorem lifecycle_allocator_independent (a : Arr) (cap b e : Nat) (grow : Nat → Nat) (exGe : Nat → Bool)
    (cp : Nat → Nat) (p : Nat → Bool) (m1 m2 : Mem) (h : m1.sched = m2.sched) :
    ((Arr.new cap grow exGe m1).1 = (Arr.new cap grow exGe m2).1 ∧ (Arr.new cap grow exGe m1).2.1 = (Arr.new cap grow exGe m2).2.1) ∧
    ((a.subarray b e m1).1 = (a.subarray b e m2).1 ∧ (a.subarray b e m1).2.1 = (a.subarray b e m2).2.1) ∧
    ((a.copyShallow m1).1 = (a.copyShallow m2).1 ∧ (a.copyShallow m1).2.1 = (a.copyShallow m2).2.1) ∧
    ((a.copyDeep cp m1).1 = (a.copyDeep cp m2).1 ∧ (a.copyDeep cp m1).2.1 = (a.copyDeep cp m2).2.1) ∧
    ((a.filter p m1).1 = (a.filter p m2).1 ∧ (a.filter p m1).2.1 = (a.filter p m2).2.1) :=
  ⟨⟨(Arr.new_indep cap grow exGe m1 m2 h).1, (Arr.new_indep cap grow exGe m1 m2 h).2.1⟩,
   ⟨(Arr.subarray_indep a b e m1 m2 h).1, (Arr.subarray_indep a b e m1 m2 h).2.1⟩,
   ⟨(Arr.copyShallow_indep a m1 m2 h).1, (Arr.copyShallow_indep a m1 m2 h).2.1⟩,
   ⟨(Arr.copyDeep_indep cp a m1 m2 h).1, (Arr.copyDeep_indep cp a m1 m2 h).2.1⟩,
   ⟨(Arr.filter_indep p a m1 m2 h).1, (Arr.filter_indep p a m1 m2 h).2.1⟩⟩

theorem iter_add_allocator_independent (a1 a2 : Arr) (it : ArrIter) (x y : Nat) (m1 m2 : Mem) (h : m1.sched = m2.sched) :
    ((a1.iterAdd it x m1).1 = (a1.iterAdd it x m2).1 ∧ (a1.iterAdd it x m1).2.1 = (a1.iterAdd it x m2).2.1 ∧
      (a1.iterAdd it x m1).2.2.1 = (a1.iterAdd it x m2).2.2.1) ∧
    ((Arr.zipAdd a1 a2 it x y m1).1 = (Arr.zipAdd a1 a2 it x y m2).1 ∧
      (Arr.zipAdd a1 a2 it x y m1).2.1 = (Arr.zipAdd a1 a2 it x y m2).2.1 ∧
      (Arr.zipAdd a1 a2 it x y m1).2.2.1 = (Arr.zipAdd a1 a2 it x y m2).2.2.1 ∧
      (Arr.zipAdd a1 a2 it x y m1).2.2.2.1 = (Arr.zipAdd a1 a2 it x y m2).2.2.2.1) := by
  obtain ⟨e1, e2, e3, _⟩ := Arr.iterAdd_indep a1 it x m1 m2 h
  obtain ⟨f1, f2, f3, f4, _⟩ := Arr.zipAdd_indep a1 a2 it x y m1 m2 h
  exact ⟨⟨e1, e2, e3⟩, ⟨f1, f2, f3, f4⟩⟩

end CC.Properties.C14Array
