import CollectionsC.Properties.C09Queue
import CollectionsC.Proofs.DequeCross
/-! # C06 (queue part) — memory safety and leak freedom of the adapter

The queue owns three blocks (its header, the inner deque's header and buffer), all on one allocator triple
(`Queue.Inv` says header and inner deque carry the same triple).  Every statement is for every ring layout
of the inner deque, every value, every refusal schedule, both triples; nothing is partial
(`enqueue`/`poll`/`peek` do not reach finding D3). -/
namespace CC.Properties.C06Queue
open CC CC.Properties.C09Queue

/-- **(a) nofault + (b) ledger, one step** -/
theorem step_safe (q : Queue) (m : Mem) (op : Op) (hi : q.Inv) :
    (stepQ q m op).2.1.Inv ∧ Deque.memSame q.triple (stepQ q m op).2.2 m ∧ (stepQ q m op).2.1.triple = q.triple := by
  have hsim : Sim q ⟨q.abs.reverse⟩ := ⟨hi, by simp⟩
  refine ⟨?_, ?_, step_triple q m op⟩
  · rcases step_refines q ⟨q.abs.reverse⟩ m op hsim with ⟨_, s2, _⟩ | ⟨_, _, s3, _⟩
    · exact s2.1
    · rw [s3]; exact hi
  · rcases step_refines q ⟨q.abs.reverse⟩ m op hsim with ⟨_, _, s3⟩ | ⟨_, _, _, s4, _⟩
    · exact s3
    · exact s4

theorem step_nofault (q : Queue) (m : Mem) (op : Op) (hi : q.Inv) : (stepQ q m op).2.2.fault = m.fault :=
  (step_safe q m op hi).2.1.2.1

theorem step_ledger (q : Queue) (m : Mem) (op : Op) (hi : q.Inv) :
    Deque.liveOf q.triple (stepQ q m op).2.2 = Deque.liveOf q.triple m := by
  have := (step_safe q m op hi).2.1.1; simpa using this

/-- **lifted to histories**, any interleaving, any refusal schedule -/
theorem history_nofault (ops : List Op) (q : Queue) (m : Mem) (hi : q.Inv) :
    (runQ q m ops).2.1.Inv ∧ Deque.memSame q.triple (runQ q m ops).2.2 m ∧ (runQ q m ops).2.1.triple = q.triple := by
  induction ops generalizing q m with
  | nil => exact ⟨hi, Deque.memSame_refl _ m, rfl⟩
  | cons op ops ih =>
    obtain ⟨s1, s2, s3⟩ := step_safe q m op hi
    obtain ⟨r1, r2, r3⟩ := ih (stepQ q m op).2.1 (stepQ q m op).2.2 s1
    simp only [runQ]
    rw [s3] at r2 r3
    exact ⟨r1, Deque.memSame_trans r2 s2, r3⟩

/-- iterator and zip iterator of the adapter: no fault, nothing allocated, invariant kept -/
theorem iterator_safe (it : Deque.Iter) (q q2 : Queue) (x y : Nat) (m : Mem) (hi : q.Inv) (h2 : q2.Inv) :
    (Queue.iterNext it q m).2.2.2 = m ∧
    ((Queue.iterReplace it q x m).2.2.1.Inv ∧ (Queue.iterReplace it q x m).2.2.2 = m) ∧
    (Queue.zipNext it q q2 m).2.2.2 = m ∧
    ((Queue.zipReplace it q q2 x y m).2.2.1.Inv ∧ (Queue.zipReplace it q q2 x y m).2.2.2.1.Inv ∧
      (Queue.zipReplace it q q2 x y m).2.2.2.2 = m) := by
  obtain ⟨_, _, _, n4⟩ := Deque.iterNext_spec it q.d m hi.1
  obtain ⟨_, _, _, p4, p5⟩ := Deque.iterReplace_spec it q.d x m hi.1
  obtain ⟨_, _, _, z4⟩ := Deque.zipNext_spec it q.d q2.d m hi.1 h2.1
  obtain ⟨_, _, _, _, r5, r6, r7⟩ := Deque.zipReplace_spec it q.d q2.d x y m hi.1 h2.1
  have t1 : (Deque.iterReplace it q.d x m).2.2.1.triple = q.triple := by rw [Deque.iterReplace_triple]; exact hi.2
  have t2 : (Deque.zipReplace it q.d q2.d x y m).2.2.1.triple = q.triple := by
    unfold Deque.zipReplace; split
    · exact hi.2
    · exact (Deque.replaceAt_triple q.d x _ m).trans hi.2
  have t3 : (Deque.zipReplace it q.d q2.d x y m).2.2.2.1.triple = q2.triple := by
    unfold Deque.zipReplace; split
    · exact h2.2
    · exact (Deque.replaceAt_triple q2.d y _ _).trans h2.2
  exact ⟨n4, ⟨⟨p4, t1⟩, p5⟩, z4, ⟨⟨r5, t2⟩, ⟨r6, t3⟩, r7⟩⟩

/-- **every block is released exactly once**: construct (any configured capacity, either triple, any
refusal schedule — each of the three requests may be the refused one), run any history, destroy: both
balances are back at their initial values, nothing faulted, the other triple saw no event -/
theorem destroy_releases_all (confCap : Nat) (t : Triple) (m0 : Mem) (ops : List Op) :
    (∃ q0, (Queue.new confCap t m0).2.1 = some q0 ∧
      Deque.memSame t ((runQ q0 (Queue.new confCap t m0).2.2 ops).2.1.destroy
        (runQ q0 (Queue.new confCap t m0).2.2 ops).2.2) m0) ∨
    ((Queue.new confCap t m0).2.1 = none ∧ Deque.memSame t (Queue.new confCap t m0).2.2 m0) := by
  rcases Queue.new_spec confCap t m0 with ⟨_, q0, n2, n3, _, _, n6, n7⟩ | ⟨_, n2, n3⟩
  · left
    obtain ⟨h1, h2, h3⟩ := history_nofault ops q0 (Queue.new confCap t m0).2.2 n3
    rw [n6] at h2 h3
    have hrun : Deque.memRel t 3 (runQ q0 (Queue.new confCap t m0).2.2 ops).2.2 m0 := Deque.memRel_same h2 n7
    have hd := Queue.destroy_ledger (runQ q0 (Queue.new confCap t m0).2.2 ops).2.1
      (runQ q0 (Queue.new confCap t m0).2.2 ops).2.2 h1 (by rw [h3]; have := hrun.1; omega)
    rw [h3] at hd
    exact ⟨q0, n2, Deque.memD_norm (k := 0) (j := 3) (by simpa using Deque.memD_trans hd hrun)⟩
  · exact Or.inr ⟨n2, n3⟩

/-- **(c) callbacks**: `cc_queue_foreach` and `cc_queue_destroy_cb` hand each held element to the callback
exactly once (in iteration order: the log is the abstraction); `destroy_cb` then releases all three
blocks through the queue's triple (Q2) -/
theorem callbacks_visit_each_once (q : Queue) (m : Mem) (hi : q.Inv) (hlive : 3 ≤ Deque.liveOf q.triple m) :
    (q.foreach m).1 = q.abs ∧ (q.foreach m).2 = m ∧ (q.destroyCb m).1 = q.abs ∧
    Deque.memD q.triple 0 3 (q.destroyCb m).2 m := by
  obtain ⟨f1, f2⟩ := Deque.foreach_spec q.d m hi.1
  have htr : q.d.removeAll.triple = q.triple := hi.2
  have g := Deque.destroy_ledger q.d.removeAll m (by rw [htr]; omega)
  rw [htr] at g
  have k := Deque.freeT_ok q.triple (q.d.removeAll.destroy m) (by have := g.1; omega)
  unfold Queue.foreach Queue.destroyCb
  simp only [f2]
  exact ⟨f1, (by first | rfl | trivial), f1, by simpa using Deque.memD_trans k g⟩

/-- non-vacuity: a default-constructed (C library triple) queue, wrapped and full, grows on `enqueue`
without touching the configured side -/
example : (Queue.mk (Deque.mk 2 2 1 1 [12, 11] .libc) .libc).Inv ∧
    (stepQ (Queue.mk (Deque.mk 2 2 1 1 [12, 11] .libc) .libc) { sched := [true], liveLibc := 3 } (.enqueue 5)).1 =
      ⟨some .ok, none⟩ := by decide

end CC.Properties.C06Queue
