import CollectionsC.Properties.C09Queue
import CollectionsC.Proofs.DequeCross
/-! # C06 (queue part) — memory safety and leak freedom of the adapter

The queue owns three blocks (its header, the inner deque's header and buffer).  Every statement is for
every ring layout of the inner deque, every value, every refusal schedule; nothing is partial
(`enqueue`/`poll`/`peek` do not reach finding D3). -/
namespace CC.Properties.C06Queue
open CC CC.Properties.C09Queue

/-- **(a) nofault + (b) ledger, one step** -/
theorem step_safe (q : Queue) (m : Mem) (op : Op) (hi : q.Inv) :
    (stepQ q m op).2.1.Inv ∧ Deque.memSame (stepQ q m op).2.2 m := by
  have hsim : Sim q ⟨q.abs.reverse⟩ := ⟨hi, by simp⟩
  rcases step_refines q ⟨q.abs.reverse⟩ m op hsim with ⟨_, s2, s3⟩ | ⟨_, _, s3, s4, _⟩
  · exact ⟨s2.1, s3⟩
  · exact ⟨by rw [s3]; exact hi, s4⟩

theorem step_nofault (q : Queue) (m : Mem) (op : Op) (hi : q.Inv) : (stepQ q m op).2.2.fault = m.fault :=
  (step_safe q m op hi).2.2.1

theorem step_ledger (q : Queue) (m : Mem) (op : Op) (hi : q.Inv) : (stepQ q m op).2.2.live = m.live :=
  (step_safe q m op hi).2.1

/-- **lifted to histories**, any interleaving, any refusal schedule -/
theorem history_nofault (ops : List Op) (q : Queue) (m : Mem) (hi : q.Inv) :
    (runQ q m ops).2.1.Inv ∧ (runQ q m ops).2.2.fault = m.fault ∧ (runQ q m ops).2.2.live = m.live := by
  induction ops generalizing q m with
  | nil => exact ⟨hi, rfl, rfl⟩
  | cons op ops ih =>
    obtain ⟨s1, s2⟩ := step_safe q m op hi
    obtain ⟨r1, r2, r3⟩ := ih (stepQ q m op).2.1 (stepQ q m op).2.2 s1
    simp only [runQ]
    exact ⟨r1, by rw [r2, s2.2.1], by rw [r3, s2.1]⟩

/-- iterator and zip iterator of the adapter: no fault, nothing allocated, invariant kept -/
theorem iterator_safe (it : Deque.Iter) (q q2 : Queue) (x y : Nat) (m : Mem) (hi : q.Inv) (h2 : q2.Inv) :
    (Queue.iterNext it q m).2.2.2 = m ∧
    ((Queue.iterReplace it q x m).2.2.1.Inv ∧ (Queue.iterReplace it q x m).2.2.2 = m) ∧
    (Queue.zipNext it q q2 m).2.2.2 = m ∧
    ((Queue.zipReplace it q q2 x y m).2.2.1.Inv ∧ (Queue.zipReplace it q q2 x y m).2.2.2.1.Inv ∧
      (Queue.zipReplace it q q2 x y m).2.2.2.2 = m) := by
  obtain ⟨_, _, _, n4⟩ := Deque.iterNext_spec it q.d m hi
  obtain ⟨_, _, _, p4, p5⟩ := Deque.iterReplace_spec it q.d x m hi
  obtain ⟨_, _, _, z4⟩ := Deque.zipNext_spec it q.d q2.d m hi h2
  obtain ⟨_, _, _, _, r5, r6, r7⟩ := Deque.zipReplace_spec it q.d q2.d x y m hi h2
  exact ⟨n4, ⟨p4, p5⟩, z4, ⟨r5, r6, r7⟩⟩

/-- **every block is released exactly once**: construct (any configured capacity, any refusal schedule —
each of the three requests may be the refused one), run any history, destroy: the balance is back at its
initial value and nothing faulted -/
theorem destroy_releases_all (confCap : Nat) (m0 : Mem) (ops : List Op) :
    (∃ q0, (Queue.new confCap m0).2.1 = some q0 ∧
      ((runQ q0 (Queue.new confCap m0).2.2 ops).2.1.destroy (runQ q0 (Queue.new confCap m0).2.2 ops).2.2).live = m0.live ∧
      ((runQ q0 (Queue.new confCap m0).2.2 ops).2.1.destroy (runQ q0 (Queue.new confCap m0).2.2 ops).2.2).fault = m0.fault) ∨
    ((Queue.new confCap m0).2.1 = none ∧ (Queue.new confCap m0).2.2.live = m0.live ∧
      (Queue.new confCap m0).2.2.fault = m0.fault) := by
  rcases Queue.new_spec confCap m0 with ⟨_, q0, n2, n3, _, _, n6, n7, _⟩ | ⟨_, n2, n3⟩
  · left
    obtain ⟨_, h2, h3⟩ := history_nofault ops q0 (Queue.new confCap m0).2.2 n3
    obtain ⟨g1, g2⟩ := Queue.destroy_ledger (runQ q0 (Queue.new confCap m0).2.2 ops).2.1
      (runQ q0 (Queue.new confCap m0).2.2 ops).2.2 (by rw [h3, n6]; omega)
    exact ⟨q0, n2, by rw [g1, h3, n6]; omega, by rw [g2, h2, n7]⟩
  · exact Or.inr ⟨n2, n3.1, n3.2.1⟩

/-- **(c) callbacks**: `cc_queue_foreach` and `cc_queue_destroy_cb` hand each held element to the callback
exactly once (in iteration order: the log is the abstraction); `destroy_cb` then releases all three
blocks through the configured triple (Q2) -/
theorem callbacks_visit_each_once (q : Queue) (m : Mem) (hi : q.Inv) (hlive : 3 ≤ m.live) :
    (q.foreach m).1 = q.abs ∧ (q.foreach m).2 = m ∧ (q.destroyCb m).1 = q.abs ∧
    (q.destroyCb m).2.live = m.live - 3 ∧ (q.destroyCb m).2.fault = m.fault := by
  obtain ⟨f1, f2⟩ := Deque.foreach_spec q.d m hi
  obtain ⟨g1, g2⟩ := Deque.destroy_ledger q.d.removeAll m (by omega)
  obtain ⟨k1, k2, _, _⟩ := Deque.free_of_pos (q.d.removeAll.destroy m) (by omega)
  unfold Queue.foreach Queue.destroyCb
  simp only [f2]
  exact ⟨f1, trivial, f1, by omega, by rw [k2, g2]⟩

end CC.Properties.C06Queue
