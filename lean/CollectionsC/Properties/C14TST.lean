import CollectionsC.Properties.C11
import CollectionsC.Proofs.TSTCross
/-! # C14 (TST table part): only the allocators the table was given

`Table.triple` is the copy of `mem_alloc / mem_calloc / mem_free` the C struct keeps: `.conf` after
`cc_tsttable_new_conf` (the caller's triple), `.libc` after `cc_tsttable_new` (`conf_init` puts
`malloc/calloc/free` there).  Every allocation and release of the model goes through
`Mem.allocT t.triple` / `Mem.freeT t.triple`.  `SameOther tr m m'` (Proofs/TSTCross.lean) says that
everything belonging to the *other* triple is untouched — these statements are falsifiable: a model
function that used `Mem.alloc` (or `.libc`) directly would break them.  The harness checks the same
on the real library (`libc=a0 f0 llive=0` for conf sessions, `a0 f0 live=…` unchanged for default
sessions; `--wrap=malloc/calloc/free`). -/
namespace CC.Properties.C14TST
open CC CC.TST
open CC.Spec.StrMap (Op Out IOp)

variable {cmp : Cmp}

/-- **conf_uses_only_conf**: for a table built with the configured triple no call (constructor, table
operations, iterator calls, destructor) touches the C-library counters — no event, no live block -/
theorem conf_uses_only_conf (t : Table) (h : t.triple = .conf) (k : Key) (v : Nat) (it : Iter) (iop : IOp)
    (mem : Mem) :
    (∀ x, x = (t.add cmp k v mem).2.2 ∨ x = (t.remove cmp k mem).2.2.2 ∨ x = (t.removeAll mem).2 ∨
        x = (t.destroy mem) ∨ x = (t.iterOp cmp it iop mem).2.2.2 ∨ x = (iterAll t mem).2 →
      x.libc = mem.libc ∧ x.liveLibc = mem.liveLibc ∧ x.lalloc = mem.lalloc ∧ x.lfree = mem.lfree) := by
  have key : ∀ x, SameOther t.triple mem x →
      x.libc = mem.libc ∧ x.liveLibc = mem.liveLibc ∧ x.lalloc = mem.lalloc ∧ x.lfree = mem.lfree := by
    intro x hx; rw [h] at hx; exact hx
  intro x hx
  rcases hx with rfl | rfl | rfl | rfl | rfl | rfl
  · exact key _ (Table.add_sameOther t k v mem)
  · exact key _ (Table.remove_sameOther t k mem)
  · exact key _ (Table.removeAll_sameOther t mem)
  · exact key _ (Table.destroy_sameOther t mem)
  · exact key _ (Table.iterOp_sameOther t it iop mem)
  · exact key _ (sameOther_iterAll t mem)

theorem new_conf_uses_only_conf (mem : Mem) :
    (Table.new .conf mem).2.2.libc = mem.libc ∧ (Table.new .conf mem).2.2.liveLibc = mem.liveLibc ∧
    (∀ t, (Table.new .conf mem).2.1 = some t → t.triple = .conf) := by
  have h := Table.new_sameOther .conf mem
  refine ⟨h.1, h.2.1, ?_⟩
  intro t ht; unfold Table.new at ht; simp only [] at ht; split at ht <;> simp at ht; rw [← ht]

/-- **default_uses_only_libc**: for a table built by `cc_tsttable_new` no call touches the configured
ledger — no live block, no event, no refusal, the schedule is not even consulted -/
theorem default_uses_only_libc (t : Table) (h : t.triple = .libc) (k : Key) (v : Nat) (it : Iter) (iop : IOp)
    (mem : Mem) :
    (∀ x, x = (t.add cmp k v mem).2.2 ∨ x = (t.remove cmp k mem).2.2.2 ∨ x = (t.removeAll mem).2 ∨
        x = (t.destroy mem) ∨ x = (t.iterOp cmp it iop mem).2.2.2 ∨ x = (iterAll t mem).2 →
      x.live = mem.live ∧ x.nalloc = mem.nalloc ∧ x.nfree = mem.nfree ∧ x.nrefused = mem.nrefused ∧
      x.sched = mem.sched) ∧
    (t.add cmp k v mem).1 = .ok := by
  have key : ∀ x, SameOther t.triple mem x → x.live = mem.live ∧ x.nalloc = mem.nalloc ∧ x.nfree = mem.nfree ∧
      x.nrefused = mem.nrefused ∧ x.sched = mem.sched := by
    intro x hx; rw [h] at hx; exact hx
  refine ⟨?_, Table.add_libc_ok t k v mem h⟩
  intro x hx
  rcases hx with rfl | rfl | rfl | rfl | rfl | rfl
  · exact key _ (Table.add_sameOther t k v mem)
  · exact key _ (Table.remove_sameOther t k mem)
  · exact key _ (Table.removeAll_sameOther t mem)
  · exact key _ (Table.destroy_sameOther t mem)
  · exact key _ (Table.iterOp_sameOther t it iop mem)
  · exact key _ (sameOther_iterAll t mem)

theorem new_default_uses_only_libc (mem : Mem) :
    (Table.new .libc mem).1 = .ok ∧ (Table.new .libc mem).2.2.live = mem.live ∧
    (Table.new .libc mem).2.2.sched = mem.sched ∧ (Table.new .libc mem).2.2.liveLibc = mem.liveLibc + 1 := by
  simp [Table.new, Mem.allocT]

/-- **inherits_triple**: every operation hands the triple on unchanged (there are no derived containers;
this is what keeps a whole history on one allocator) -/
theorem triple_preserved (t : Table) (op : Op) (mem : Mem) : (t.step cmp op mem).2.1.triple = t.triple :=
  Table.step_triple t op mem

/-- **libc_invariant** lifted to histories (table calls and iterator sessions, every schedule): the
counters of the other triple are where they were — cumulative form, because `Mem.begin` clears the
per-call event counters at every `add` -/
theorem history_uses_only_own_triple (t : Table) (ops : List Op) (mem : Mem) :
    (t.triple = .conf → (t.run cmp ops mem).2.2.libc = mem.libc ∧ (t.run cmp ops mem).2.2.liveLibc = mem.liveLibc) ∧
    (t.triple = .libc → (t.run cmp ops mem).2.2.live = mem.live) ∧
    (t.run cmp ops mem).2.1.triple = t.triple := by
  have h := Table.run_sameOtherC (cmp := cmp) t ops mem
  refine ⟨fun hc => ?_, fun hl => ?_, Table.run_triple t ops mem⟩
  · rw [hc] at h; exact h
  · rw [hl] at h; exact h

/-- construct (conf) … any history … destroy as a whole: the C library allocator is never involved -/
theorem lifetime_uses_only_conf (m0 : Mem) (ops : List Op) (t : Table) (h : (Table.new .conf m0).2.1 = some t) :
    ((t.run cmp ops (Table.new .conf m0).2.2).2.1.destroy (t.run cmp ops (Table.new .conf m0).2.2).2.2).libc = m0.libc ∧
    ((t.run cmp ops (Table.new .conf m0).2.2).2.1.destroy (t.run cmp ops (Table.new .conf m0).2.2).2.2).liveLibc =
      m0.liveLibc := by
  have ht := (new_conf_uses_only_conf m0).2.2 t h
  have h1 := new_conf_uses_only_conf m0
  have h2 := (history_uses_only_own_triple (cmp := cmp) t ops (Table.new .conf m0).2.2)
  have h3 := Table.destroy_sameOther (t.run cmp ops (Table.new .conf m0).2.2).2.1 (t.run cmp ops (Table.new .conf m0).2.2).2.2
  rw [h2.2.2, ht] at h3
  have h4 := h2.1 ht
  exact ⟨by rw [h3.1, h4.1, h1.1], by rw [h3.2.1, h4.2, h1.2.1]⟩

/-- **allocator_independent**: `add` depends on the ledger only through the refusal schedule — two
allocators that refuse the same requests give the same status and the same table (a pool that does
not run out behaves exactly like malloc) -/
theorem add_allocator_independent (t : Table) (k : Key) (v : Nat) (mem mem' : Mem) (h : mem.sched = mem'.sched) :
    (t.add cmp k v mem).1 = (t.add cmp k v mem').1 ∧ (t.add cmp k v mem).2.1 = (t.add cmp k v mem').2.1 :=
  Table.add_sched t k v mem mem' h

/-- every operation of a history: outputs and resulting table are the same on any two ledgers.  No
hypothesis on the schedules is needed **because `Op.add k v sched` carries the schedule of the call and
`Table.step` installs it with `Mem.begin`, overwriting the incoming `mem.sched`**; the hypothesis-carrying
form for a bare `add` is `add_allocator_independent`.  The same for whole histories. -/
theorem allocator_independent (t : Table) (op : Op) (mem mem' : Mem) :
    (t.step cmp op mem).1 = (t.step cmp op mem').1 ∧ (t.step cmp op mem).2.1 = (t.step cmp op mem').2.1 :=
  Table.step_indep t op mem mem'

theorem history_allocator_independent (t : Table) (ops : List Op) (mem mem' : Mem) :
    (t.run cmp ops mem).1 = (t.run cmp ops mem').1 ∧ (t.run cmp ops mem).2.1 = (t.run cmp ops mem').2.1 :=
  Table.run_indep t ops mem mem'

/-! non-vacuity: the same insertion on a conf table and on a default table moves different counters -/
example :
    ((Table.mk 0 .nil .conf).add cmpSigned [97] 1 {}).2.2 = { live := 2, nalloc := 2 } ∧
    ((Table.mk 0 .nil .libc).add cmpSigned [97] 1 {}).2.2 = { libc := 2, lalloc := 2, liveLibc := 2 } := by
  decide

end CC.Properties.C14TST
