import CollectionsC.Properties.C11
import CollectionsC.Proofs.TSTCross
/-! # C14 (TST table part): only the configured allocators

The model routes every `mem_alloc` / `mem_calloc` / `mem_free` of `cc_tsttable.c` through `Mem.alloc` /
`Mem.free`; `Mem.libc` counts events that bypass the configured triple.  The harness checks the same
on the real library (`libc=a0 f0` in every `mem` section, `--wrap=malloc/calloc/free`). -/
namespace CC.Properties.C14TST
open CC CC.TST
open CC.Spec.StrMap (Op Out IOp)

variable {cmp : Cmp}

/-- **libc_invariant**, constructor / every operation / destructor / iterator calls — for every state,
key and schedule -/
theorem new_libc_invariant (mem : Mem) : (Table.new mem).2.2.libc = mem.libc := Table.new_libc mem

theorem libc_invariant (t : Table) (op : Op) (mem : Mem) : (t.step cmp op mem).2.2.libc = mem.libc :=
  Table.step_libc t op mem

theorem destroy_libc_invariant (t : Table) (mem : Mem) : (t.destroy mem).libc = mem.libc := Table.destroy_libc t mem

theorem iter_libc_invariant (t : Table) (it : Iter) (op : IOp) (mem : Mem) :
    (t.iterOp it op mem).2.2.2.libc = mem.libc := Table.iterOp_libc t it op mem

/-- lifted to histories and iterator programs -/
theorem history_libc_invariant (t : Table) (ops : List Op) (mem : Mem) : (t.run cmp ops mem).2.2.libc = mem.libc :=
  Table.run_libc t ops mem

theorem iter_history_libc_invariant (t : Table) (it : Iter) (ops : List IOp) (mem : Mem) :
    (t.iterRun it ops mem).2.2.2.libc = mem.libc := Table.iterRun_libc t it ops mem

/-- construct … destroy as a whole -/
theorem lifetime_libc_invariant (m0 : Mem) (ops : List Op) (t : Table) :
    ((t.run cmp ops (Table.new m0).2.2).2.1.destroy (t.run cmp ops (Table.new m0).2.2).2.2).libc = m0.libc := by
  rw [destroy_libc_invariant, history_libc_invariant, new_libc_invariant]

/-- **allocator_independent**: `add` depends on the ledger only through the refusal schedule — two
allocators that refuse the same requests give the same status and the same table (a pool that does
not run out behaves exactly like malloc) -/
theorem add_allocator_independent (t : Table) (k : Key) (v : Nat) (mem mem' : Mem) (h : mem.sched = mem'.sched) :
    (t.add cmp k v mem).1 = (t.add cmp k v mem').1 ∧ (t.add cmp k v mem).2.1 = (t.add cmp k v mem').2.1 :=
  Table.add_sched t k v mem mem' h

/-- every operation (an `add` carries its schedule): outputs and resulting table are the same on any
two ledgers; the same for whole histories -/
theorem allocator_independent (t : Table) (op : Op) (mem mem' : Mem) :
    (t.step cmp op mem).1 = (t.step cmp op mem').1 ∧ (t.step cmp op mem).2.1 = (t.step cmp op mem').2.1 :=
  Table.step_indep t op mem mem'

theorem history_allocator_independent (t : Table) (ops : List Op) (mem mem' : Mem) :
    (t.run cmp ops mem).1 = (t.run cmp ops mem').1 ∧ (t.run cmp ops mem).2.1 = (t.run cmp ops mem').2.1 :=
  Table.run_indep t ops mem mem'

end CC.Properties.C14TST
