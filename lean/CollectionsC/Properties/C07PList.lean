import CollectionsC.Proofs.PListIter
import CollectionsC.Proofs.PListIterProg2
import CollectionsC.Properties.C04PList
/-! # C07 / C06 (pointer level) — iterator programs of CC_List do not corrupt the links and never hold a dangling node

`C07List.lean` proves that iterator programs yield what the ideal cursor yields, on the sequence-level model, where a node is a
position.  Here the ascending iterator `CC_ListIter` runs on the pointer-level model (`Model/PList.lean`): its fields `last` and
`next` are **node ids**, exactly as in the C struct, and the calls are the pointer surgery of the C text (`piterStep`:
`cc_list_iter_next`, `cc_list_iter_add` = `link_after(last, new)` + `tail` exactly when the new node has no successor,
`cc_list_iter_remove` = `unlinkn(last)`, `cc_list_iter_replace`).

For **every program** of `next`/`add`/`remove`/`replace` calls, every refusal schedule, from `cc_list_iter_init` on any
represented list:
* the list stays represented — well-formed: `next` and `prev` agree, `head`/`tail` are the ends — so `mirror` holds after every
  call ("mutation through an iterator does not corrupt the list", C07);
* `iter->last` and `iter->next` are NULL or name a node **of the list**, which is live in the heap — never a released node
  ("no dangling link", C06; in particular `remove` after `add`s, `add` after `next` hit the end, repeated `add`s behind one
  yielded element — defect L6 — are all inside).
`cc_list_iter_add` without a current element is outside the documented contract and is not executed (as in the harness).
The Lean driver runs `piterStep` for the `it_*` operations (node ids, no positions), so L3 ties this model to the C code.
The descending iterator has its own program theorem (`diter_program_safe`); the zip iterator has the one-call theorems of
`C04PList` (`zip_*_links`).  The zip theorems are about two **distinct** lists (`Repr2`: disjoint node sets); a zip iterator over the same list is
not forbidden by the headers and corrupts memory in the library — known finding `KF-list-zip-same-list` (C06/C07), witnesses
`corpus/{list,slist}/defect_zip_same_list_*.ops`; it is kept out of every generator stream. -/
namespace CC.Properties.C07PList
open CC CC.PList

/-- the state between two calls of an iterator program: the list is represented, all its nodes are older than the serial
counter, and the iterator fields point into the list (`PItInv`) -/
theorem iter_init_inv (s : St) (l : Hdr) (cs : List Cell) (r : Repr s.heap l cs) (hb : ∀ y, y ∈ idsOf cs → y < s.fresh) :
    ProgInv s l (piterInit l) cs := ⟨r, hb, piterInit_inv r⟩

/-- **one call** keeps the invariant -/
theorem iter_step_inv (s : St) (l : Hdr) (it : PIter) (op : PIOp) (m : Mem) (cs : List Cell) (I : ProgInv s l it cs) :
    ∃ cs', ProgInv (piterStep s l it op m).2.1 (piterStep s l it op m).2.2.1 (piterStep s l it op m).2.2.2.1 cs' :=
  piterStep_inv s l it op m cs I

/-- **whole programs**: after any program the list is well-formed, both traversal directions agree, and the iterator fields
name live nodes of the list or are NULL -/
theorem iter_program_safe (ops : List PIOp) (s : St) (l : Hdr) (cs : List Cell) (m : Mem) (r : Repr s.heap l cs)
    (hb : ∀ y, y ∈ idsOf cs → y < s.fresh) :
    WF (piterRun s l (piterInit l) ops m).1.heap (piterRun s l (piterInit l) ops m).2.1 ∧
    bwd (piterRun s l (piterInit l) ops m).1.heap (piterRun s l (piterInit l) ops m).2.1 =
      (fwd (piterRun s l (piterInit l) ops m).1.heap (piterRun s l (piterInit l) ops m).2.1).reverse ∧
    (∀ n, (piterRun s l (piterInit l) ops m).2.2.1.last = some n → ((piterRun s l (piterInit l) ops m).1.heap n).isSome) ∧
    (∀ n, (piterRun s l (piterInit l) ops m).2.2.1.next = some n → ((piterRun s l (piterInit l) ops m).1.heap n).isSome) ∧
    ∃ cs', Repr (piterRun s l (piterInit l) ops m).1.heap (piterRun s l (piterInit l) ops m).2.1 cs' ∧
      (∀ n, (piterRun s l (piterInit l) ops m).2.2.1.last = some n → n ∈ idsOf cs') ∧
      (∀ n, (piterRun s l (piterInit l) ops m).2.2.1.next = some n → n ∈ idsOf cs') := by
  obtain ⟨cs', I⟩ := piterRun_inv ops s l (piterInit l) m cs (iter_init_inv s l cs r hb)
  obtain ⟨d1, d2⟩ := I.no_dangling
  exact ⟨⟨cs', I.repr⟩, PList.mirror ⟨cs', I.repr⟩, fun n h => (d1 n h).2, fun n h => (d2 n h).2,
    cs', I.repr, fun n h => (d1 n h).1, fun n h => (d2 n h).1⟩

/-- … in particular from every list state reachable by a history of list operations (`C04PList.history_refines`) -/
theorem iter_program_safe_after_history (P : Spec.LSeq.Params) (t1 t2 : Triple) (hist : List POp) (ops : List PIOp) (m m' : Mem) :
    WF (piterRun (prun P (C04PList.fresh t1 t2) hist m).2.1.st (prun P (C04PList.fresh t1 t2) hist m).2.1.l1
        (piterInit (prun P (C04PList.fresh t1 t2) hist m).2.1.l1) ops m').1.heap
      (piterRun (prun P (C04PList.fresh t1 t2) hist m).2.1.st (prun P (C04PList.fresh t1 t2) hist m).2.1.l1
        (piterInit (prun P (C04PList.fresh t1 t2) hist m).2.1.l1) ops m').2.1 := by
  obtain ⟨c1, c2, I, _⟩ := prun_refines P hist (C04PList.fresh t1 t2) [] [] m (C04PList.fresh_inv t1 t2)
  exact (iter_program_safe ops _ _ c1 m' I.rep.r1 I.b1).1

/-! ## the descending iterator -/

/-- **whole programs of the descending iterator** (`cc_list_diter_next/add/remove/replace`; `pditerStep`: `next` follows `prev`,
`add` links the new node in front of `last` — `head` when `index == 0` — and makes it `last`): after any program, any refusal
schedule, from `cc_list_diter_init` on any represented list, the list is well-formed, mirrored, and `last`/`next` name live
nodes of the list or are NULL -/
theorem diter_program_safe (ops : List PIOp) (s : St) (l : Hdr) (cs : List Cell) (m : Mem) (r : Repr s.heap l cs)
    (hb : ∀ y, y ∈ idsOf cs → y < s.fresh) :
    WF (pditerRun s l (pditerInit l) ops m).1.heap (pditerRun s l (pditerInit l) ops m).2.1 ∧
    bwd (pditerRun s l (pditerInit l) ops m).1.heap (pditerRun s l (pditerInit l) ops m).2.1 =
      (fwd (pditerRun s l (pditerInit l) ops m).1.heap (pditerRun s l (pditerInit l) ops m).2.1).reverse ∧
    ∃ cs', Repr (pditerRun s l (pditerInit l) ops m).1.heap (pditerRun s l (pditerInit l) ops m).2.1 cs' ∧
      (∀ n, (pditerRun s l (pditerInit l) ops m).2.2.1.last = some n →
        n ∈ idsOf cs' ∧ ((pditerRun s l (pditerInit l) ops m).1.heap n).isSome) ∧
      (∀ n, (pditerRun s l (pditerInit l) ops m).2.2.1.next = some n →
        n ∈ idsOf cs' ∧ ((pditerRun s l (pditerInit l) ops m).1.heap n).isSome) := by
  obtain ⟨cs', I⟩ := pditerRun_inv ops s l (pditerInit l) m cs (pditerInit_inv r hb)
  exact ⟨⟨cs', I.repr⟩, PList.mirror ⟨cs', I.repr⟩, cs', I.repr, I.no_dangling⟩

/-- non-vacuity: descending over `[1, 5]`: yield 5, add 2 in front of it, add 3 in front of that, remove the node added last,
yield 1 (the head), add 9 in front of the head, replace -/
example :
    (fwd (pditerRun (prun ⟨fun _ => true, Spec.LSeq.cmpNum⟩ (C04PList.fresh .conf .conf) [.addLast 1, .addLast 5] {}).2.1.st
        (prun ⟨fun _ => true, Spec.LSeq.cmpNum⟩ (C04PList.fresh .conf .conf) [.addLast 1, .addLast 5] {}).2.1.l1
        (pditerInit (prun ⟨fun _ => true, Spec.LSeq.cmpNum⟩ (C04PList.fresh .conf .conf) [.addLast 1, .addLast 5] {}).2.1.l1)
        [.next, .add 2, .add 3, .remove, .next, .add 9, .replace 7] {}).1.heap
      (pditerRun (prun ⟨fun _ => true, Spec.LSeq.cmpNum⟩ (C04PList.fresh .conf .conf) [.addLast 1, .addLast 5] {}).2.1.st
        (prun ⟨fun _ => true, Spec.LSeq.cmpNum⟩ (C04PList.fresh .conf .conf) [.addLast 1, .addLast 5] {}).2.1.l1
        (pditerInit (prun ⟨fun _ => true, Spec.LSeq.cmpNum⟩ (C04PList.fresh .conf .conf) [.addLast 1, .addLast 5] {}).2.1.l1)
        [.next, .add 2, .add 3, .remove, .next, .add 9, .replace 7] {}).2.1) = [7, 1, 2, 5] := by decide

/-! ## Non-vacuity: the L6 program (`next; add; add; add`), then a removal of the yielded element and more traversal -/
example :
    (fwd (piterRun (prun ⟨fun _ => true, Spec.LSeq.cmpNum⟩ (C04PList.fresh .conf .conf) [.addLast 1, .addLast 5] {}).2.1.st
        (prun ⟨fun _ => true, Spec.LSeq.cmpNum⟩ (C04PList.fresh .conf .conf) [.addLast 1, .addLast 5] {}).2.1.l1
        (piterInit (prun ⟨fun _ => true, Spec.LSeq.cmpNum⟩ (C04PList.fresh .conf .conf) [.addLast 1, .addLast 5] {}).2.1.l1)
        [.next, .add 2, .add 3, .remove, .next, .next, .add 9, .add 8, .replace 7] {}).1.heap
      (piterRun (prun ⟨fun _ => true, Spec.LSeq.cmpNum⟩ (C04PList.fresh .conf .conf) [.addLast 1, .addLast 5] {}).2.1.st
        (prun ⟨fun _ => true, Spec.LSeq.cmpNum⟩ (C04PList.fresh .conf .conf) [.addLast 1, .addLast 5] {}).2.1.l1
        (piterInit (prun ⟨fun _ => true, Spec.LSeq.cmpNum⟩ (C04PList.fresh .conf .conf) [.addLast 1, .addLast 5] {}).2.1.l1)
        [.next, .add 2, .add 3, .remove, .next, .next, .add 9, .add 8, .replace 7] {}).2.1) = [3, 2, 7, 8, 9] := by decide

end CC.Properties.C07PList
