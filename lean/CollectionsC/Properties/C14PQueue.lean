import CollectionsC.Properties.C10
import CollectionsC.Proofs.PQueueCross
/-! # C14 (priority queue part): only the allocator triple the queue was configured with is used

The model's queue carries its triple (`.conf` for `cc_pqueue_new_conf`, `.libc` for `cc_pqueue_new`)
and every allocation/release goes through `Mem.allocT/freeT q.triple`.  `Mem.otherSame m m' t` says
that `m'` differs from `m` only in the counters that belong to triple `t`. -/
namespace CC.Properties.C14PQueue
open CC CC.Spec
open CC.Spec.PQ (Op Out)

/-- every step touches only the ledger counters of the queue's own triple -/
theorem step_uses_own_triple {cmp : Nat → Nat → Int} (tp : TotalPreorder cmp) (grow : Nat → Nat)
    (q : PQueue) (op : Op) (m : Mem) (h : PQueue.Inv' cmp q) (hl : 2 ≤ m.liveT q.triple) :
    Mem.otherSame m (PQueue.step cmp grow q op m).2.2 q.triple := by
  cases op with
  | push x => exact PQueue.push_other tp grow q x m h (by omega)
  | top =>
    rcases PQueue.top_spec tp q m h with ⟨_, e⟩ | ⟨x, e, _⟩ <;> simp only [PQueue.step, e] <;>
      exact Mem.otherSame_refl _ _
  | pop =>
    rcases PQueue.pop_spec tp q m h with ⟨_, e⟩ | ⟨x, _, _, _, _, _, _, e⟩
    · simp only [PQueue.step, e]; exact Mem.otherSame_refl _ _
    · simp only [PQueue.step, e]; exact Mem.otherSame_refl _ _

theorem history_uses_own_triple {cmp : Nat → Nat → Int} (tp : TotalPreorder cmp) (grow : Nat → Nat)
    (ops : List Op) (q : PQueue) (m : Mem) (h : PQueue.Inv' cmp q) (hl : 2 ≤ m.liveT q.triple) :
    Mem.otherSame m (PQueue.run cmp grow q ops m).2.2 q.triple := by
  induction ops generalizing q m with
  | nil => exact Mem.otherSame_refl _ _
  | cons op ops ih =>
    obtain ⟨_, h2, ht, h3, _⟩ := C10.step_refines tp grow q op m h hl
    have h1 := step_uses_own_triple tp grow q op m h hl
    have := ih (PQueue.step cmp grow q op m).2.1 (PQueue.step cmp grow q op m).2.2 h2 (by rw [ht]; omega)
    rw [ht] at this
    simp only [PQueue.run]
    exact Mem.otherSame_trans h1 this

/-- **conf uses only conf**: a queue built by `cc_pqueue_new_conf` never causes a C-library
allocation or release — the C-library event counters and its live count never move (falsifiable: a
model call through `.libc` would increment `libc`, see `Mem.allocT_libc_counts`) -/
theorem conf_uses_only_conf {cmp : Nat → Nat → Int} (tp : TotalPreorder cmp) (grow : Nat → Nat)
    (ops : List Op) (q : PQueue) (m : Mem) (h : PQueue.Inv' cmp q) (ht : q.triple = .conf) (hl : 2 ≤ m.live) :
    (PQueue.run cmp grow q ops m).2.2.libc = m.libc ∧ (PQueue.run cmp grow q ops m).2.2.liveLibc = m.liveLibc ∧
    (PQueue.run cmp grow q ops m).2.2.lalloc = m.lalloc ∧ (PQueue.run cmp grow q ops m).2.2.lfree = m.lfree := by
  have := history_uses_own_triple tp grow ops q m h (by rw [ht]; exact hl)
  rw [ht] at this
  exact this

/-- **default uses only libc**: a queue built by `cc_pqueue_new` never touches the configured
allocator — its live count, event counters, refusal counter and schedule never move — and no push
can be refused -/
theorem default_uses_only_libc {cmp : Nat → Nat → Int} (tp : TotalPreorder cmp) (grow : Nat → Nat)
    (ops : List Op) (q : PQueue) (m : Mem) (h : PQueue.Inv' cmp q) (ht : q.triple = .libc) (hl : 2 ≤ m.liveLibc) :
    (PQueue.run cmp grow q ops m).2.2.live = m.live ∧ (PQueue.run cmp grow q ops m).2.2.nalloc = m.nalloc ∧
    (PQueue.run cmp grow q ops m).2.2.nfree = m.nfree ∧ (PQueue.run cmp grow q ops m).2.2.nrefused = m.nrefused ∧
    (PQueue.run cmp grow q ops m).2.2.sched = m.sched := by
  have := history_uses_own_triple tp grow ops q m h (by rw [ht]; exact hl)
  rw [ht] at this
  exact this

theorem default_never_refused {cmp : Nat → Nat → Int} (tp : TotalPreorder cmp) (grow : Nat → Nat)
    (q : PQueue) (x : Nat) (m : Mem) (h : PQueue.Inv' cmp q) (ht : q.triple = .libc) (hl : 2 ≤ m.liveLibc) :
    (PQueue.push cmp grow q x m).1 ≠ .errAlloc := by
  rcases PQueue.push_spec tp grow q x m h (by rw [ht]; exact Nat.lt_of_lt_of_le (by decide) hl) with ⟨e, _⟩ | ⟨⟨⟨_, e⟩ | e, _⟩⟩
  · rw [e]; simp
  · rw [ht] at e; cases e
  · rw [e]; simp

/-- the constructor and the destructors use the triple they are given / the queue carries, and
the constructed queue carries exactly the triple of its configuration -/
theorem new_destroy_use_own_triple (cap : Nat) (exGe : Nat → Bool) (t : Triple) (q : PQueue) (m : Mem) :
    Mem.otherSame m (PQueue.new cap exGe t m).2.2 t ∧ (∀ q', (PQueue.new cap exGe t m).2.1 = some q' → q'.triple = t) ∧
    Mem.otherSame m (q.destroy m) q.triple ∧ Mem.otherSame m (q.destroyCb m).2 q.triple := by
  refine ⟨?_, ?_, ?_, ?_⟩
  · unfold PQueue.new
    split
    · exact Mem.otherSame_refl _ _
    · split
      · exact Mem.otherSame_refl _ _
      · dsimp only
        split
        · exact Mem.otherSame_allocT m t
        · split
          · exact Mem.otherSame_trans (Mem.otherSame_trans (Mem.otherSame_allocT m t) (Mem.otherSame_allocT _ t))
              (Mem.otherSame_freeT _ t)
          · exact Mem.otherSame_trans (Mem.otherSame_allocT m t) (Mem.otherSame_allocT _ t)
  · intro q' hq'
    unfold PQueue.new at hq'
    split at hq'
    · cases hq'
    · split at hq'
      · cases hq'
      · dsimp only at hq'
        split at hq'
        · cases hq'
        · split at hq'
          · cases hq'
          · simp only [Option.some.injEq] at hq'; rw [← hq']
  · exact Mem.otherSame_trans (Mem.otherSame_freeT m q.triple) (Mem.otherSame_freeT _ q.triple)
  · simp only [PQueue.destroyCb, PQueue.destroy]
    exact Mem.otherSame_trans (Mem.otherSame_trans (Mem.otherSame_check m _ q.triple) (Mem.otherSame_freeT _ q.triple))
      (Mem.otherSame_freeT _ q.triple)

/-- **allocator independent** (step): status, out-value and resulting queue depend on the ledger
only through its refusal schedule, and so does the schedule that is left — hence the statement chains -/
theorem allocator_independent (cmp : Nat → Nat → Int) (grow : Nat → Nat) (q : PQueue) (op : Op) (m m' : Mem)
    (hs : m.sched = m'.sched) :
    (PQueue.step cmp grow q op m).1 = (PQueue.step cmp grow q op m').1 ∧
    (PQueue.step cmp grow q op m).2.1 = (PQueue.step cmp grow q op m').2.1 ∧
    (PQueue.step cmp grow q op m).2.2.sched = (PQueue.step cmp grow q op m').2.2.sched := by
  cases op with
  | push x =>
    have := PQueue.push_indep cmp grow q x m m' hs
    simp only [PQueue.step, this.1, this.2.1]; exact ⟨trivial, trivial, this.2.2⟩
  | top =>
    have := PQueue.top_indep q m m'
    refine ⟨by simp only [PQueue.step, this.1, this.2], rfl, ?_⟩
    simp only [PQueue.step, PQueue.top]; split <;> simp [hs]
  | pop =>
    have := PQueue.pop_indep cmp q m m'
    refine ⟨by simp only [PQueue.step, this.1, this.2.1], by simp only [PQueue.step, this.2.2], ?_⟩
    exact PQueue.pop_sched cmp q m m' hs

/-- **allocator independent** (history): two ledgers with the same schedule give the same statuses,
out-values and final queue for every history — the queue runs on a pool exactly as on malloc as
long as the pool refuses the same calls (in particular: none) -/
theorem history_allocator_independent (cmp : Nat → Nat → Int) (grow : Nat → Nat) (ops : List Op) (q : PQueue)
    (m m' : Mem) (hs : m.sched = m'.sched) :
    (PQueue.run cmp grow q ops m).1 = (PQueue.run cmp grow q ops m').1 ∧
    (PQueue.run cmp grow q ops m).2.1 = (PQueue.run cmp grow q ops m').2.1 := by
  induction ops generalizing q m m' with
  | nil => exact ⟨rfl, rfl⟩
  | cons op ops ih =>
    obtain ⟨h1, h2, h3⟩ := allocator_independent cmp grow q op m m' hs
    simp only [PQueue.run]
    rw [h1, h2]
    have := ih (PQueue.step cmp grow q op m').2.1 (PQueue.step cmp grow q op m).2.2 (PQueue.step cmp grow q op m').2.2 h3
    rw [this.1, this.2]
    exact ⟨rfl, rfl⟩

/-- the constructor too: same schedule, same status and same queue -/
theorem new_allocator_independent (cap : Nat) (exGe : Nat → Bool) (t : Triple) (m m' : Mem) (hs : m.sched = m'.sched) :
    (PQueue.new cap exGe t m).1 = (PQueue.new cap exGe t m').1 ∧ (PQueue.new cap exGe t m).2.1 = (PQueue.new cap exGe t m').2.1 := by
  have a1 := Mem.allocT_sched_congr m m' t hs
  have a2 := Mem.allocT_sched_congr (m.allocT t).2 (m'.allocT t).2 t a1.2
  unfold PQueue.new
  split
  · exact ⟨rfl, rfl⟩
  · split
    · exact ⟨rfl, rfl⟩
    · dsimp only
      rw [a1.1, a2.1]
      cases (m'.allocT t).1 <;> cases ((m'.allocT t).2.allocT t).1 <;> exact ⟨rfl, rfl⟩

/-! Non-vacuity: the two triples are distinguishable in the ledger -/
example : (({} : Mem).allocT .libc).2.libc = 1 ∧ (({} : Mem).allocT .conf).2.libc = 0 ∧
    (({} : Mem).allocT .conf).2.live = 1 := by decide

end CC.Properties.C14PQueue
