import CollectionsC.Properties.C10
import CollectionsC.Proofs.PQueueCross
/-! # C14 (priority queue part): only the configured allocator triple is used -/
namespace CC.Properties.C14PQueue
open CC CC.Spec
open CC.Spec.PQ (Op Out)

/-- constructor and destructors: every allocation and release goes through the configured triple
(the C-library counter of the ledger never moves) -/
theorem new_destroy_libc_invariant (cap : Nat) (exGe : Nat → Bool) (q : PQueue) (m : Mem) :
    (PQueue.new cap exGe m).2.2.libc = m.libc ∧ (q.destroy m).libc = m.libc ∧ (q.destroyCb m).2.libc = m.libc := by
  refine ⟨?_, ?_, ?_⟩
  · unfold PQueue.new
    split
    · rfl
    · split
      · rfl
      · dsimp only
        cases h1 : m.alloc.1
        · simp [(PQueue.alloc_false_fields m h1).2.2.1]
        · cases h2 : m.alloc.2.alloc.1
          · simp [(PQueue.free_fields _).2.2.1, (PQueue.alloc_false_fields _ h2).2.2.1, (PQueue.alloc_true_fields m h1).2.2.1]
          · simp [(PQueue.alloc_true_fields _ h2).2.2.1, (PQueue.alloc_true_fields m h1).2.2.1]
  · simp [PQueue.destroy, (PQueue.free_fields _).2.2.1]
  · simp [PQueue.destroyCb, PQueue.destroy, (PQueue.free_fields _).2.2.1]

/-- every operation of a history keeps the C-library counter: push (with growth), top, pop -/
theorem step_libc_invariant {cmp : Nat → Nat → Int} (tp : TotalPreorder cmp) (grow : Nat → Nat) (hg : PQueue.GrowOk grow)
    (q : PQueue) (op : Op) (m : Mem) (h : PQueue.Inv' cmp q) (hl : 2 ≤ m.live) :
    (PQueue.step cmp grow q op m).2.2.libc = m.libc := by
  cases op with
  | push x => exact PQueue.push_libc tp grow hg q x m h (by omega)
  | top =>
    rcases PQueue.top_spec tp q m h with ⟨_, e⟩ | ⟨x, e, _⟩ <;> simp only [PQueue.step, e]
  | pop =>
    rcases PQueue.pop_spec tp q m h with ⟨_, e⟩ | ⟨x, _, _, _, _, _, _, e⟩
    · simp only [PQueue.step, e]
    · simp only [PQueue.step, e]

theorem history_libc_invariant {cmp : Nat → Nat → Int} (tp : TotalPreorder cmp) (grow : Nat → Nat) (hg : PQueue.GrowOk grow)
    (ops : List Op) (q : PQueue) (m : Mem) (h : PQueue.Inv' cmp q) (hl : 2 ≤ m.live) :
    (PQueue.run cmp grow q ops m).2.2.libc = m.libc := by
  induction ops generalizing q m with
  | nil => rfl
  | cons op ops ih =>
    obtain ⟨_, h2, h3, _⟩ := C10.step_refines tp grow hg q op m h hl
    simp only [PQueue.run]
    rw [ih _ _ h2 (by omega), step_libc_invariant tp grow hg q op m h hl]

/-- **allocator independent**: the status, the out-value and the resulting queue of every operation
depend on the ledger only through its refusal schedule — the queue behaves on a pool exactly as on
malloc as long as the pool does not refuse -/
theorem allocator_independent (cmp : Nat → Nat → Int) (grow : Nat → Nat) (q : PQueue) (op : Op) (m m' : Mem)
    (hs : m.sched = m'.sched) :
    (PQueue.step cmp grow q op m).1 = (PQueue.step cmp grow q op m').1 ∧
    (PQueue.step cmp grow q op m).2.1 = (PQueue.step cmp grow q op m').2.1 := by
  cases op with
  | push x =>
    have := PQueue.push_indep cmp grow q x m m' hs
    simp only [PQueue.step, this.1, this.2.1]; exact ⟨trivial, trivial⟩
  | top =>
    have := PQueue.top_indep q m m'
    simp only [PQueue.step, this.1, this.2]; exact ⟨trivial, trivial⟩
  | pop =>
    have := PQueue.pop_indep cmp q m m'
    simp only [PQueue.step, this.1, this.2.1, this.2.2]; exact ⟨trivial, trivial⟩

/-- the constructor too: same schedule, same status and same queue -/
theorem new_allocator_independent (cap : Nat) (exGe : Nat → Bool) (m m' : Mem) (hs : m.sched = m'.sched) :
    (PQueue.new cap exGe m).1 = (PQueue.new cap exGe m').1 ∧ (PQueue.new cap exGe m).2.1 = (PQueue.new cap exGe m').2.1 := by
  have a1 := PQueue.alloc_sched_congr m m' hs
  have a2 := PQueue.alloc_sched_congr m.alloc.2 m'.alloc.2 a1.2
  unfold PQueue.new
  split
  · exact ⟨rfl, rfl⟩
  · split
    · exact ⟨rfl, rfl⟩
    · dsimp only
      rw [a1.1, a2.1]
      cases m'.alloc.1 <;> cases m'.alloc.2.alloc.1 <;> exact ⟨rfl, rfl⟩

end CC.Properties.C14PQueue
