import CollectionsC.Proofs.ListAlloc
import CollectionsC.Properties.C07List
import CollectionsC.Properties.C15List
import CollectionsC.Properties.C18List
/-! # C08 (lists) — a failed allocation is atomic: error status, nothing changed, nothing leaked

Statements and closing proofs for `cc_list.c` and `cc_slist.c`.

Every allocating path is covered: one node (`add`, `add_first`, `add_last`, `add_at`, iterator `add`),
the node loop of `add_all`/`add_all_at` (`link_all_externally`: a refusal at the k-th node releases the
k−1 copies made so far), the array of `to_array`/`sort`, the second node of a zip-iterator `add` (the
first one is released again), and the builders `sublist`/`copy_*`/`filter` (header, then one node per
element; a refusal destroys the partial result).

Quantifiers: all states satisfying the invariant with their blocks live, all operations and
arguments, **every** allocator schedule (`m.sched` is arbitrary: the k-th call refused for every k,
several refusals, …).  "A refusal fired" is `m.nrefused < m'.nrefused` (the ledger's refusal counter). -/
namespace CC.Properties.C08List
open CC CC.Chain CC.ListHistory
open CC.Spec
open CC.Spec.LSeq (Op Out Params)

/-! ## the status is `CC_ERR_ALLOC` exactly when a refusal fired -/

theorem dlist_refused_iff (P : Params) (s : Chain × Chain) (op : Op) (m : Mem) (h : PairOk s m) :
    (DList.step P s op m).1.st = some .errAlloc ↔ m.nrefused < (DList.step P s op m).2.2.nrefused := by
  have hs : s = (ofList s.1.abs, ofList s.2.abs) := by rw [← h.1.eq, ← h.2.1.eq]
  obtain ⟨a', b', ok⟩ := DList.step_ok P s.1.abs s.2.abs m h.2.2 op
  rw [← hs] at ok
  exact ok.refused_iff

theorem slist_refused_iff (P : Params) (s : Chain × Chain) (op : Op) (m : Mem) (h : PairOk s m) :
    (SList.step P s op m).1.st = some .errAlloc ↔ m.nrefused < (SList.step P s op m).2.2.nrefused := by
  have hs : s = (ofList s.1.abs, ofList s.2.abs) := by rw [← h.1.eq, ← h.2.1.eq]
  obtain ⟨a', b', ok⟩ := SList.step_ok P s.1.abs s.2.abs m h.2.2 op
  rw [← hs] at ok
  exact ok.refused_iff

/-- builders (`sublist`, `copy_shallow`, `copy_deep`, `filter` of both lists) -/
theorem builder_refused_iff (add : List Nat) (m : Mem) :
    (DList.builderResult add m).1 = .errAlloc ↔ m.nrefused < (DList.builderResult add m).2.2.nrefused :=
  DList.builderResult_refused_iff add m

/-! ## atomicity -/

/-- a refused step reports `CC_ERR_ALLOC` and nothing else, leaves **both lists physically unchanged**
(nodes, `size`, `head`, `tail` — in particular `abs`), keeps the invariant and the ledger
consistent: `live` is what it was (every block obtained before the refusal was released again),
no fault -/
theorem dlist_atomic (P : Params) (s : Chain × Chain) (op : Op) (m : Mem) (h : PairOk s m)
    (he : (DList.step P s op m).1.st = some .errAlloc) :
    (DList.step P s op m).1 = { st := some .errAlloc } ∧ (DList.step P s op m).2.1 = s ∧
    (DList.step P s op m).2.2.live = m.live ∧ (DList.step P s op m).2.2.fault = m.fault ∧
    PairOk (DList.step P s op m).2.1 (DList.step P s op m).2.2 := by
  have r := C04.dlist_step_refines P s op m h
  exact ⟨(r.2.1 he).1, (r.2.1 he).2.1, (r.2.1 he).2.2, r.2.2.2.1, r.1⟩

theorem slist_atomic (P : Params) (s : Chain × Chain) (op : Op) (m : Mem) (h : PairOk s m)
    (he : (SList.step P s op m).1.st = some .errAlloc) :
    (SList.step P s op m).1 = { st := some .errAlloc } ∧ (SList.step P s op m).2.1 = s ∧
    (SList.step P s op m).2.2.live = m.live ∧ (SList.step P s op m).2.2.fault = m.fault ∧
    PairOk (SList.step P s op m).2.1 (SList.step P s op m).2.2 := by
  have r := C04.slist_step_refines P s op m h
  exact ⟨(r.2.1 he).1, (r.2.1 he).2.1, (r.2.1 he).2.2, r.2.2.2.1, r.1⟩

/-- a refused iterator `add` leaves the list **and the cursor** unchanged (ascending and descending
iterator of `cc_list.c`, iterator of `cc_slist.c`); `live` unchanged -/
theorem iter_add_refused (xs : List Nat) (x : Nat) (m : Mem) (hr : m.alloc.1 = false) :
    (∀ (c : LSeq.Cursor) (it : DList.Iter) (k : Nat), DList.ItRel xs c it → c.cur = some k → c.pos = k + 1 →
      DList.iterAdd (ofList xs) it x m = (.errAlloc, ofList xs, it, m.alloc.2)) ∧
    (∀ (c : LSeq.Cursor) (it : DList.Iter) (k : Nat), DList.DitRel xs c it → c.cur = some k → c.pos = k →
      DList.diterAdd (ofList xs) it x m = (.errAlloc, ofList xs, it, m.alloc.2)) ∧
    (∀ (c : LSeq.Cursor) (it : SList.Iter) (k : Nat), SList.ItRel xs c it → c.cur = some k →
      SList.iterAdd (ofList xs) it x m = (.errAlloc, ofList xs, it, m.alloc.2)) ∧
    m.alloc.2.live = m.live := by
  refine ⟨?_, ?_, ?_, (Mem.alloc_fst_false m hr).1⟩
  · intro c it k h hc hp
    obtain ⟨it', e, _⟩ := DList.iterAdd_ofList xs c it x k m h hc hp
    rw [e]; simp [hr]
  · intro c it k h hc hp
    obtain ⟨it', e, _⟩ := DList.diterAdd_ofList xs c it x k m h hc hp
    rw [e]; simp [hr]
  · intro c it k h hc
    obtain ⟨it', e, _⟩ := SList.iterAdd_ofList xs c it x k m h hc
    rw [e]; simp [hr]

/-- a zip-iterator `add` refused at the first or at the second node leaves both lists and the
cursor unchanged; the first node of a half-done `add` is released again (`live` unchanged) -/
theorem zip_add_refused (xs ys : List Nat) (c : LSeq.Cursor) (z : DList.ZipIter) (x1 x2 k : Nat) (m : Mem)
    (h : DList.ZipRel xs ys c z) (hc : c.cur = some k) (hp : c.pos = k + 1)
    (hr : m.alloc.1 = false ∨ m.alloc.2.alloc.1 = false) :
    (DList.zipAdd (ofList xs) (ofList ys) z x1 x2 m).1 = .errAlloc ∧
    (DList.zipAdd (ofList xs) (ofList ys) z x1 x2 m).2.1 = ofList xs ∧
    (DList.zipAdd (ofList xs) (ofList ys) z x1 x2 m).2.2.1 = ofList ys ∧
    (DList.zipAdd (ofList xs) (ofList ys) z x1 x2 m).2.2.2.1 = z ∧
    (DList.zipAdd (ofList xs) (ofList ys) z x1 x2 m).2.2.2.2.live = m.live := by
  obtain ⟨z', e, _⟩ := DList.zipAdd_ofList xs ys c z x1 x2 k m h hc hp
  rw [e]
  by_cases h1 : m.alloc.1 = true
  · have h2 : m.alloc.2.alloc.1 = false := by
      rcases hr with hr | hr
      · rw [h1] at hr; cases hr
      · exact hr
    have e1 := Mem.alloc_fst_true m h1
    have e2 := Mem.alloc_fst_false m.alloc.2 h2
    have e3 := Mem.free_live m.alloc.2.alloc.2 (by omega)
    have ev : (if m.alloc.1 = true then
        (if m.alloc.2.alloc.1 = true then
          (Stat.ok, ofList (LSeq.zitAdd false xs ys c x1 x2).1, ofList (LSeq.zitAdd false xs ys c x1 x2).2.1, z', m.alloc.2.alloc.2)
        else (Stat.errAlloc, ofList xs, ofList ys, z, m.alloc.2.alloc.2.free))
      else (Stat.errAlloc, ofList xs, ofList ys, z, m.alloc.2)) = (Stat.errAlloc, ofList xs, ofList ys, z, m.alloc.2.alloc.2.free) := by
      rw [if_pos h1, if_neg (by rw [h2]; simp)]
    rw [ev]
    exact ⟨rfl, rfl, rfl, rfl, by show m.alloc.2.alloc.2.free.live = m.live; omega⟩
  · have h1' : m.alloc.1 = false := by simpa using h1
    rw [if_neg h1]
    exact ⟨rfl, rfl, rfl, rfl, (Mem.alloc_fst_false m h1').1⟩

/-- refused builders produce **no object** and give every block back; refused array-based sorts
leave the list unchanged -/
theorem builder_and_sort_atomic (add : List Nat) (l : Chain) (h : l.Inv) (m : Mem)
    {cmp : Nat → Nat → Int} {sortFn : List Nat → List Nat} (hq : C18List.SortFnSpec cmp sortFn) :
    ((DList.builderResult add m).1 = .errAlloc → (DList.builderResult add m).2.1 = none ∧ (DList.builderResult add m).2.2.live = m.live) ∧
    (l.abs ≠ [] → m.alloc.1 = false → (DList.sort sortFn l m).1 = .errAlloc ∧ (DList.sort sortFn l m).2.1 = l ∧ (DList.sort sortFn l m).2.2.live = m.live) ∧
    (l.abs.length ≠ 1 → m.alloc.1 = false → (SList.sort sortFn l m).1 = .errAlloc ∧ (SList.sort sortFn l m).2.1 = l ∧ (SList.sort sortFn l m).2.2.live = m.live) := by
  have d := C18List.dlist_sort_correct hq l m h
  have s := C18List.slist_sort_correct hq l m h
  exact ⟨(C15List.builder_result add m).2.2.2.2,
    fun h1 h2 => ⟨(d.2.2.2.2.1 h1 h2).1, (d.2.2.2.2.1 h1 h2).2, d.2.2.1⟩,
    fun h1 h2 => ⟨(s.2.2.2.2.1 h1 h2).1, (s.2.2.2.2.1 h1 h2).2, s.2.2.1⟩⟩

/-! ## the container stays fully usable: the failed call might never have happened -/

/-- **continue** (doubly linked): after a refused operation the lists are in the very state they
were in, so whatever history follows produces the same outputs and the same states as it would
have produced without the failed call — compared under any ledger that will answer the coming
allocator calls the same way -/
theorem dlist_continue (P : Params) (s : Chain × Chain) (op : Op) (m : Mem) (h : PairOk s m)
    (he : (DList.step P s op m).1.st = some .errAlloc) (ops : List Op) (m2 : Mem) (h2 : PairOk s m2)
    (hs : m2.sched = (DList.step P s op m).2.2.sched) :
    (DList.run P (DList.step P s op m).2.1 ops (DList.step P s op m).2.2).1 = (DList.run P s ops m2).1 ∧
    (DList.run P (DList.step P s op m).2.1 ops (DList.step P s op m).2.2).2.1 = (DList.run P s ops m2).2.1 := by
  obtain ⟨_, hst, _, _, hp⟩ := dlist_atomic P s op m h he
  rw [hst] at hp ⊢
  rw [dlist_run_eq, dlist_run_eq]
  have := run_indep (C04.dlist_step_refines P) (DList.step_indep P) ops s _ m2 hp h2 hs.symm
  exact ⟨this.1, this.2.1⟩

theorem slist_continue (P : Params) (s : Chain × Chain) (op : Op) (m : Mem) (h : PairOk s m)
    (he : (SList.step P s op m).1.st = some .errAlloc) (ops : List Op) (m2 : Mem) (h2 : PairOk s m2)
    (hs : m2.sched = (SList.step P s op m).2.2.sched) :
    (SList.run P (SList.step P s op m).2.1 ops (SList.step P s op m).2.2).1 = (SList.run P s ops m2).1 ∧
    (SList.run P (SList.step P s op m).2.1 ops (SList.step P s op m).2.2).2.1 = (SList.run P s ops m2).2.1 := by
  obtain ⟨_, hst, _, _, hp⟩ := slist_atomic P s op m h he
  rw [hst] at hp ⊢
  rw [slist_run_eq, slist_run_eq]
  have := run_indep (C04.slist_step_refines P) (SList.step_indep P) ops s _ m2 hp h2 hs.symm
  exact ⟨this.1, this.2.1⟩

/-- **whole histories**: under any refusal schedule the outputs and final contents are those of the
ideal lists on which exactly the refused operations did not happen (`C04.*_history_refines_skipping`,
restated for the reader of this property) -/
theorem history_skips_refused (P : Params) (ops : List Op) (s : Chain × Chain) (m : Mem) (h : PairOk s m) :
    ((DList.run P s ops m).1 = (LSeq.runSkipping true P (s.1.abs, s.2.abs) ops ((DList.run P s ops m).1.map (·.st))).1 ∧
     ((DList.run P s ops m).2.1.1.abs, (DList.run P s ops m).2.1.2.abs) =
       (LSeq.runSkipping true P (s.1.abs, s.2.abs) ops ((DList.run P s ops m).1.map (·.st))).2) ∧
    ((SList.run P s ops m).1 = (LSeq.runSkipping false P (s.1.abs, s.2.abs) ops ((SList.run P s ops m).1.map (·.st))).1 ∧
     ((SList.run P s ops m).2.1.1.abs, (SList.run P s ops m).2.1.2.abs) =
       (LSeq.runSkipping false P (s.1.abs, s.2.abs) ops ((SList.run P s ops m).1.map (·.st))).2) :=
  ⟨⟨(C04.dlist_history_refines_skipping P ops s m h).1, (C04.dlist_history_refines_skipping P ops s m h).2.1⟩,
   ⟨(C04.slist_history_refines_skipping P ops s m h).1, (C04.slist_history_refines_skipping P ops s m h).2.1⟩⟩

/-! ## Non-vacuity: a schedule that refuses the second copy of `add_all` -/
example : (DList.step ⟨fun _ => true, LSeq.cmpNum⟩ (ofList [1], ofList [7, 8, 9]) .addAll { live := 4, sched := [false, true] }).1.st = some .errAlloc ∧
    (DList.step ⟨fun _ => true, LSeq.cmpNum⟩ (ofList [1], ofList [7, 8, 9]) .addAll { live := 4, sched := [false, true] }).2.2.live = 4 := by decide

end CC.Properties.C08List
