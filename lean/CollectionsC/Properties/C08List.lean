import CollectionsC.Proofs.ListAlloc
import CollectionsC.Properties.C07List
import CollectionsC.Properties.C15List
import CollectionsC.Properties.C18List
/-! # C08 (lists) — a failed allocation is atomic: error status, nothing changed, nothing leaked

Statements and closing proofs for `cc_list.c` and `cc_slist.c`.

Every allocating path is covered: the header (`new`), one node (`add`, `add_first`, `add_last`, `add_at`, iterator `add`),
the node loop of `add_all`/`add_all_at` (`link_all_externally`: a refusal at the k-th node releases the
k−1 copies made so far), the array of `to_array`/`sort`, the second node of a zip-iterator `add` (the
first one is released again), and the builders `sublist`/`copy_*`/`filter` (header, then one node per
element; a refusal destroys the partial result).

Quantifiers: all states satisfying the invariant with their blocks live, every assignment of
allocator triples to the lists (only the configured allocator can refuse; a list on the C library
triple never reports `CC_ERR_ALLOC`, see `C14List`), all operations and arguments, **every**
allocator schedule (`m.sched` is arbitrary: the k-th call refused for every k,
several refusals, …).  "A refusal fired" is `m.nrefused < m'.nrefused` (the ledger's refusal counter). -/
namespace CC.Properties.C08List
open CC CC.Chain CC.ListHistory
open CC.Spec
open CC.Spec.LSeq (Op Out Params)

/-! ## the status is `CC_ERR_ALLOC` exactly when a refusal fired -/

theorem dlist_refused_iff (P : Params) (s : Chain × Chain) (op : Op) (m : Mem) (h : PairOk s m)
    (hc : SpliceOk s.1.triple s.2.triple op) :
    (DList.step P s op m).1.st = some .errAlloc ↔ m.nrefused < (DList.step P s op m).2.2.nrefused :=
  (C04.dlist_step_refines P s op m h hc).2.2.2.2.2.2.2.2

theorem slist_refused_iff (P : Params) (s : Chain × Chain) (op : Op) (m : Mem) (h : PairOk s m)
    (hc : SpliceOk s.1.triple s.2.triple op) :
    (SList.step P s op m).1.st = some .errAlloc ↔ m.nrefused < (SList.step P s op m).2.2.nrefused :=
  (C04.slist_step_refines P s op m h hc).2.2.2.2.2.2.2.2

/-- builders (`sublist`, `copy_shallow`, `copy_deep`, `filter` of both lists) -/
theorem builder_refused_iff (t : Triple) (add : List Nat) (m : Mem) :
    (DList.builderResult t add m).1 = .errAlloc ↔ m.nrefused < (DList.builderResult t add m).2.2.nrefused :=
  DList.builderResult_refused_iff t add m

/-! ## atomicity -/

/-- **constructors** `cc_list_new(_conf)` / `cc_slist_new(_conf)`: the status is `CC_ERR_ALLOC` exactly when
the header was refused; then no object exists and no `liveT` moved; otherwise an empty list in
canonical state on the requested triple, one block obtained from it; never a fault -/
theorem new_atomic (t : Triple) (m : Mem) :
    ((DList.new t m).1 = .errAlloc ↔ m.nrefused < (DList.new t m).2.2.nrefused) ∧
    ((DList.new t m).1 = .errAlloc → (DList.new t m).2.1 = none ∧ ∀ t', (DList.new t m).2.2.liveT t' = m.liveT t') ∧
    ((DList.new t m).1 ≠ .errAlloc → (DList.new t m).1 = .ok ∧ (DList.new t m).2.1 = some (ofList t []) ∧
      ∀ t', (DList.new t m).2.2.liveT t' = m.liveT t' + (if t = t' then 1 else 0)) ∧
    (DList.new t m).2.2.fault = m.fault ∧ SList.new t m = DList.new t m := by
  have hn := Mem.allocT_nrefused m t
  have hs : SList.new t m = DList.new t m := by rw [SList.new_eq, DList.new_eq]
  by_cases ha : (m.allocT t).1 = true
  · have e := Mem.allocT_all_true m t ha
    have hv : DList.new t m = (.ok, some (ofList t []), (m.allocT t).2) := by rw [DList.new_eq, if_pos ha]
    rw [ha] at hn
    rw [hs, hv]
    refine ⟨⟨fun c => (by cases c), fun c => ?_⟩, fun c => (by cases c), fun _ => ⟨rfl, rfl, e.2.2⟩, e.1, rfl⟩
    simp only [if_true] at hn c; omega
  · have ha' : (m.allocT t).1 = false := by simpa using ha
    have e := Mem.allocT_all_false m t ha'
    have hv : DList.new t m = (.errAlloc, none, (m.allocT t).2) := by rw [DList.new_eq, if_neg ha]
    rw [ha'] at hn
    rw [hs, hv]
    refine ⟨⟨fun _ => ?_, fun _ => rfl⟩, fun _ => ⟨rfl, e.2.2⟩, fun c => absurd rfl c, e.1, rfl⟩
    simp only [Bool.false_eq_true, if_false] at hn ⊢; omega

/-- a refused step reports `CC_ERR_ALLOC` and nothing else, leaves **both lists physically unchanged**
(nodes, `size`, `head`, `tail`, triple — in particular `abs`), keeps the invariant and the ledger
consistent: every `liveT` is what it was (every block obtained before the refusal was released
again, through the allocator that handed it out), no fault -/
theorem dlist_atomic (P : Params) (s : Chain × Chain) (op : Op) (m : Mem) (h : PairOk s m)
    (hc : SpliceOk s.1.triple s.2.triple op)
    (he : (DList.step P s op m).1.st = some .errAlloc) :
    (DList.step P s op m).1 = { st := some .errAlloc } ∧ (DList.step P s op m).2.1 = s ∧
    (∀ t, (DList.step P s op m).2.2.liveT t = m.liveT t) ∧ (DList.step P s op m).2.2.fault = m.fault ∧
    PairOk (DList.step P s op m).2.1 (DList.step P s op m).2.2 := by
  have r := C04.dlist_step_refines P s op m h hc
  exact ⟨(r.2.2.1 he).1, (r.2.2.1 he).2.1, (r.2.2.1 he).2.2, r.2.2.2.2.1, r.1⟩

theorem slist_atomic (P : Params) (s : Chain × Chain) (op : Op) (m : Mem) (h : PairOk s m)
    (hc : SpliceOk s.1.triple s.2.triple op)
    (he : (SList.step P s op m).1.st = some .errAlloc) :
    (SList.step P s op m).1 = { st := some .errAlloc } ∧ (SList.step P s op m).2.1 = s ∧
    (∀ t, (SList.step P s op m).2.2.liveT t = m.liveT t) ∧ (SList.step P s op m).2.2.fault = m.fault ∧
    PairOk (SList.step P s op m).2.1 (SList.step P s op m).2.2 := by
  have r := C04.slist_step_refines P s op m h hc
  exact ⟨(r.2.2.1 he).1, (r.2.2.1 he).2.1, (r.2.2.1 he).2.2, r.2.2.2.2.1, r.1⟩

/-- a refused iterator `add` leaves the list **and the cursor** unchanged (ascending and descending
iterator of `cc_list.c`, iterator of `cc_slist.c`); every `liveT` unchanged -/
theorem iter_add_refused (t : Triple) (xs : List Nat) (x : Nat) (m : Mem) (hr : (m.allocT t).1 = false) :
    (∀ (c : LSeq.Cursor) (it : DList.Iter) (k : Nat), DList.ItRel xs c it → c.cur = some k →
      DList.iterAdd (ofList t xs) it x m = (.errAlloc, ofList t xs, it, (m.allocT t).2)) ∧
    (∀ (c : LSeq.Cursor) (it : DList.Iter) (k : Nat), DList.DitRel xs c it → c.cur = some k →
      DList.diterAdd (ofList t xs) it x m = (.errAlloc, ofList t xs, it, (m.allocT t).2)) ∧
    (∀ (c : LSeq.Cursor) (it : SList.Iter) (k : Nat), SList.ItRel xs c it → c.cur = some k →
      SList.iterAdd (ofList t xs) it x m = (.errAlloc, ofList t xs, it, (m.allocT t).2)) ∧
    (∀ t', (m.allocT t).2.liveT t' = m.liveT t') := by
  refine ⟨?_, ?_, ?_, (Mem.allocT_all_false m t hr).2.2⟩
  · intro c it k h hc
    obtain ⟨it', e, _⟩ := DList.iterAdd_ofList (t := t) xs c it x k m h hc
    rw [e]; simp [hr]
  · intro c it k h hc
    obtain ⟨it', e, _⟩ := DList.diterAdd_ofList (t := t) xs c it x k m h hc
    rw [e]; simp [hr]
  · intro c it k h hc
    obtain ⟨it', e, _⟩ := SList.iterAdd_ofList (t := t) xs c it x k m h hc
    rw [e]; simp [hr]

/-- ledger of a zip `add` refused at the first or at the second node: every `liveT` is what it was
(the first node of a half-done `add` goes back through the first list's triple), no fault -/
theorem zip_refused_ledger (t t2 : Triple) (m : Mem) :
    ((m.allocT t).1 = false → (m.allocT t).2.fault = m.fault ∧ ∀ t', (m.allocT t).2.liveT t' = m.liveT t') ∧
    ((m.allocT t).1 = true → ((m.allocT t).2.allocT t2).1 = false →
      (((m.allocT t).2.allocT t2).2.freeT t).fault = m.fault ∧ ∀ t', (((m.allocT t).2.allocT t2).2.freeT t).liveT t' = m.liveT t') := by
  refine ⟨fun h1 => ⟨(Mem.allocT_all_false m t h1).1, (Mem.allocT_all_false m t h1).2.2⟩, fun h1 h2 => ?_⟩
  have e1 := Mem.allocT_all_true m t h1
  have e2 := Mem.allocT_all_false _ t2 h2
  have e3 := Mem.freeT_all ((m.allocT t).2.allocT t2).2 t (by rw [e2.2.2, e1.2.2]; simp)
  refine ⟨by rw [e3.1, e2.1, e1.1], fun t' => ?_⟩
  have := e3.2.2 t'; have := e2.2.2 t'; have := e1.2.2 t'; omega

/-- a zip-iterator `add` of `cc_list.c` refused at the first or at the second node leaves both lists
and the cursor unchanged; every `liveT` unchanged -/
theorem dlist_zip_add_refused (t t2 : Triple) (xs ys : List Nat) (c : LSeq.Cursor) (z : DList.ZipIter) (x1 x2 k : Nat) (m : Mem)
    (h : DList.ZipRel xs ys c z) (hc : c.cur = some k)
    (hr : (m.allocT t).1 = false ∨ ((m.allocT t).2.allocT t2).1 = false) :
    (DList.zipAdd (ofList t xs) (ofList t2 ys) z x1 x2 m).1 = .errAlloc ∧
    (DList.zipAdd (ofList t xs) (ofList t2 ys) z x1 x2 m).2.1 = ofList t xs ∧
    (DList.zipAdd (ofList t xs) (ofList t2 ys) z x1 x2 m).2.2.1 = ofList t2 ys ∧
    (DList.zipAdd (ofList t xs) (ofList t2 ys) z x1 x2 m).2.2.2.1 = z ∧
    (DList.zipAdd (ofList t xs) (ofList t2 ys) z x1 x2 m).2.2.2.2.fault = m.fault ∧
    (∀ t', (DList.zipAdd (ofList t xs) (ofList t2 ys) z x1 x2 m).2.2.2.2.liveT t' = m.liveT t') := by
  obtain ⟨z', e, _⟩ := DList.zipAdd_ofList (t := t) (t2 := t2) xs ys c z x1 x2 k m h hc
  obtain ⟨l1, l2⟩ := zip_refused_ledger t t2 m
  rw [e]
  by_cases h1 : (m.allocT t).1 = true
  · have h2 : ((m.allocT t).2.allocT t2).1 = false := by
      rcases hr with hr | hr
      · rw [h1] at hr; cases hr
      · exact hr
    rw [if_pos h1, if_neg (by rw [h2]; simp)]
    exact ⟨rfl, rfl, rfl, rfl, (l2 h1 h2).1, (l2 h1 h2).2⟩
  · have h1' : (m.allocT t).1 = false := by simpa using h1
    rw [if_neg h1]
    exact ⟨rfl, rfl, rfl, rfl, (l1 h1').1, (l1 h1').2⟩

/-- the same for the zip iterator of `cc_slist.c` -/
theorem slist_zip_add_refused (t t2 : Triple) (xs ys : List Nat) (c : LSeq.Cursor) (z : SList.ZipIter) (x1 x2 k : Nat) (m : Mem)
    (h : SList.ZipRel xs ys c z) (hc : c.cur = some k)
    (hr : (m.allocT t).1 = false ∨ ((m.allocT t).2.allocT t2).1 = false) :
    (SList.zipAdd (ofList t xs) (ofList t2 ys) z x1 x2 m).1 = .errAlloc ∧
    (SList.zipAdd (ofList t xs) (ofList t2 ys) z x1 x2 m).2.1 = ofList t xs ∧
    (SList.zipAdd (ofList t xs) (ofList t2 ys) z x1 x2 m).2.2.1 = ofList t2 ys ∧
    (SList.zipAdd (ofList t xs) (ofList t2 ys) z x1 x2 m).2.2.2.1 = z ∧
    (SList.zipAdd (ofList t xs) (ofList t2 ys) z x1 x2 m).2.2.2.2.fault = m.fault ∧
    (∀ t', (SList.zipAdd (ofList t xs) (ofList t2 ys) z x1 x2 m).2.2.2.2.liveT t' = m.liveT t') := by
  obtain ⟨z', e, _⟩ := SList.zipAdd_ofList (t := t) (t2 := t2) xs ys c z x1 x2 k m h hc
  obtain ⟨l1, l2⟩ := zip_refused_ledger t t2 m
  rw [e]
  by_cases h1 : (m.allocT t).1 = true
  · have h2 : ((m.allocT t).2.allocT t2).1 = false := by
      rcases hr with hr | hr
      · rw [h1] at hr; cases hr
      · exact hr
    rw [if_pos h1, if_neg (by rw [h2]; simp)]
    exact ⟨rfl, rfl, rfl, rfl, (l2 h1 h2).1, (l2 h1 h2).2⟩
  · have h1' : (m.allocT t).1 = false := by simpa using h1
    rw [if_neg h1]
    exact ⟨rfl, rfl, rfl, rfl, (l1 h1').1, (l1 h1').2⟩

/-- refused builders produce **no object** and give every block back; refused array-based sorts
leave the list unchanged -/
theorem builder_and_sort_atomic (add : List Nat) (l : Chain) (h : l.Inv) (m : Mem)
    {cmp : Nat → Nat → Int} {sortFn : List Nat → List Nat} (hq : C18List.SortFnSpec cmp sortFn) :
    ((DList.builderResult l.triple add m).1 = .errAlloc →
      (DList.builderResult l.triple add m).2.1 = none ∧ (DList.builderResult l.triple add m).2.2.liveT l.triple = m.liveT l.triple ∧
      Mem.Frame l.triple m (DList.builderResult l.triple add m).2.2) ∧
    (l.abs ≠ [] → (m.allocT l.triple).1 = false →
      (DList.sort sortFn l m).1 = .errAlloc ∧ (DList.sort sortFn l m).2.1 = l ∧ ∀ t, (DList.sort sortFn l m).2.2.liveT t = m.liveT t) ∧
    (l.abs.length ≠ 1 → (m.allocT l.triple).1 = false →
      (SList.sort sortFn l m).1 = .errAlloc ∧ (SList.sort sortFn l m).2.1 = l ∧ ∀ t, (SList.sort sortFn l m).2.2.liveT t = m.liveT t) := by
  have d := C18List.dlist_sort_correct hq l m h
  have s := C18List.slist_sort_correct hq l m h
  have b := C15List.builder_result l.triple add m
  exact ⟨fun he => ⟨(b.2.2.2.2 he).1, (b.2.2.2.2 he).2, b.2.1⟩,
    fun h1 h2 => ⟨(d.2.2.2.2.2.1 h1 h2).1, (d.2.2.2.2.2.1 h1 h2).2, d.2.2.2.1⟩,
    fun h1 h2 => ⟨(s.2.2.2.2.2.1 h1 h2).1, (s.2.2.2.2.2.1 h1 h2).2, s.2.2.2.1⟩⟩

/-! ## the container stays fully usable: the failed call might never have happened -/

/-- **continue** (doubly linked): after a refused operation the lists are in the very state they
were in, so whatever history follows produces the same outputs and the same states as it would
have produced without the failed call — compared under any ledger that will answer the coming
allocator calls the same way -/
theorem dlist_continue (P : Params) (s : Chain × Chain) (op : Op) (m : Mem) (h : PairOk s m)
    (hc : SpliceOk s.1.triple s.2.triple op)
    (he : (DList.step P s op m).1.st = some .errAlloc) (ops : List Op) (hcc : Compat s ops) (m2 : Mem) (h2 : PairOk s m2)
    (hs : m2.sched = (DList.step P s op m).2.2.sched) :
    (DList.run P (DList.step P s op m).2.1 ops (DList.step P s op m).2.2).1 = (DList.run P s ops m2).1 ∧
    (DList.run P (DList.step P s op m).2.1 ops (DList.step P s op m).2.2).2.1 = (DList.run P s ops m2).2.1 := by
  obtain ⟨_, hst, _, _, hp⟩ := dlist_atomic P s op m h hc he
  rw [hst] at hp ⊢
  rw [dlist_run_eq, dlist_run_eq]
  have := run_indep (C04.dlist_step_refines P) (DList.step_indep P) ops s _ m2 hp h2 hcc hs.symm
  exact ⟨this.1, this.2.1⟩

theorem slist_continue (P : Params) (s : Chain × Chain) (op : Op) (m : Mem) (h : PairOk s m)
    (hc : SpliceOk s.1.triple s.2.triple op)
    (he : (SList.step P s op m).1.st = some .errAlloc) (ops : List Op) (hcc : Compat s ops) (m2 : Mem) (h2 : PairOk s m2)
    (hs : m2.sched = (SList.step P s op m).2.2.sched) :
    (SList.run P (SList.step P s op m).2.1 ops (SList.step P s op m).2.2).1 = (SList.run P s ops m2).1 ∧
    (SList.run P (SList.step P s op m).2.1 ops (SList.step P s op m).2.2).2.1 = (SList.run P s ops m2).2.1 := by
  obtain ⟨_, hst, _, _, hp⟩ := slist_atomic P s op m h hc he
  rw [hst] at hp ⊢
  rw [slist_run_eq, slist_run_eq]
  have := run_indep (C04.slist_step_refines P) (SList.step_indep P) ops s _ m2 hp h2 hcc hs.symm
  exact ⟨this.1, this.2.1⟩

/-- **whole histories**: under any refusal schedule the outputs and final contents are those of the
ideal lists on which exactly the refused operations did not happen (`C04.*_history_refines_skipping`,
restated for the reader of this property) -/
theorem history_skips_refused (P : Params) (ops : List Op) (s : Chain × Chain) (m : Mem) (h : PairOk s m) (hc : Compat s ops) :
    ((DList.run P s ops m).1 = (LSeq.runSkipping true P (s.1.abs, s.2.abs) ops ((DList.run P s ops m).1.map (·.st))).1 ∧
     ((DList.run P s ops m).2.1.1.abs, (DList.run P s ops m).2.1.2.abs) =
       (LSeq.runSkipping true P (s.1.abs, s.2.abs) ops ((DList.run P s ops m).1.map (·.st))).2) ∧
    ((SList.run P s ops m).1 = (LSeq.runSkipping false P (s.1.abs, s.2.abs) ops ((SList.run P s ops m).1.map (·.st))).1 ∧
     ((SList.run P s ops m).2.1.1.abs, (SList.run P s ops m).2.1.2.abs) =
       (LSeq.runSkipping false P (s.1.abs, s.2.abs) ops ((SList.run P s ops m).1.map (·.st))).2) :=
  ⟨⟨(C04.dlist_history_refines_skipping P ops s m h hc).1, (C04.dlist_history_refines_skipping P ops s m h hc).2.1⟩,
   ⟨(C04.slist_history_refines_skipping P ops s m h hc).1, (C04.slist_history_refines_skipping P ops s m h hc).2.1⟩⟩

/-! ## Non-vacuity: a schedule that refuses the second copy of `add_all` (destination on the configured
allocator, source on the C library) -/
example : (DList.step ⟨fun _ => true, LSeq.cmpNum⟩ (ofList .conf [1], ofList .libc [7, 8, 9]) .addAll
      { live := 1, liveLibc := 3, sched := [false, true] }).1.st = some .errAlloc ∧
    (DList.step ⟨fun _ => true, LSeq.cmpNum⟩ (ofList .conf [1], ofList .libc [7, 8, 9]) .addAll
      { live := 1, liveLibc := 3, sched := [false, true] }).2.2.live = 1 ∧
    (DList.step ⟨fun _ => true, LSeq.cmpNum⟩ (ofList .conf [1], ofList .libc [7, 8, 9]) .addAll
      { live := 1, liveLibc := 3, sched := [false, true] }).2.2.liveLibc = 3 := by decide

end CC.Properties.C08List
