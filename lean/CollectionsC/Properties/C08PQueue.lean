import CollectionsC.Properties.C10
import CollectionsC.Proofs.PQueueCross
import CollectionsC.Properties.C14PQueue
/-! # C08 (priority queue part): a refused allocation is atomic -/
namespace CC.Properties.C08PQueue
open CC CC.Spec
open CC.Spec.PQ (Op Out)

/-- `cc_pqueue_push` reports `CC_ERR_ALLOC` **iff** a refusal fired (the refusal counter moved) — on
either triple: a queue on the C library is never refused, so both sides are false there
(`push_no_refusal`).  `hl` is ledger consistency (constructor establishes, steps preserve). -/
theorem push_refused_iff {cmp : Nat → Nat → Int} (tp : TotalPreorder cmp) (grow : Nat → Nat)
    (q : PQueue) (x : Nat) (m : Mem) (h : PQueue.Inv' cmp q) (hl : 2 ≤ m.liveT q.triple) :
    ((PQueue.push cmp grow q x m).1 = .errAlloc ↔ (PQueue.push cmp grow q x m).2.2.nrefused = m.nrefused + 1) ∧
    ((PQueue.push cmp grow q x m).1 ≠ .errAlloc → (PQueue.push cmp grow q x m).2.2.nrefused = m.nrefused) := by
  rcases PQueue.push_counts tp grow q x m h (by omega) with ⟨k0, k1, _⟩ | ⟨kok, _, _, _, k2, _⟩ | ⟨kerr, _, _, _, k2, _⟩
  · rw [k1]
    have hne : (PQueue.push cmp grow q x m).1 ≠ .errAlloc := by
      rcases k0 with ⟨_, k0⟩ | k0 <;> rw [k0] <;> simp
    exact ⟨⟨fun e => (hne e).elim, fun e => (by omega)⟩, fun _ => rfl⟩
  · rw [k2, kok]
    exact ⟨⟨fun e => (by cases e), fun e => (by omega)⟩, fun _ => rfl⟩
  · rw [k2, kerr]
    exact ⟨⟨fun _ => rfl, fun _ => rfl⟩, fun e => (e rfl).elim⟩

/-- **atomic**: after a refused push every field of the queue is what it was (so the multiset, the
capacity and the buffer are unchanged), the ledger is balanced and nothing faulted -/
theorem push_atomic {cmp : Nat → Nat → Int} (tp : TotalPreorder cmp) (grow : Nat → Nat)
    (q : PQueue) (x : Nat) (m : Mem) (h : PQueue.Inv' cmp q) (hl : 2 ≤ m.liveT q.triple)
    (hst : (PQueue.push cmp grow q x m).1 = .errAlloc) :
    (PQueue.push cmp grow q x m).2.1 = q ∧ (PQueue.push cmp grow q x m).2.2.liveT q.triple = m.liveT q.triple ∧
    (PQueue.push cmp grow q x m).2.2.fault = m.fault :=
  ⟨C10.push_refused_inert tp grow q x m h hl (by rw [hst]; simp),
   (PQueue.push_mem tp grow q x m h (by omega)).1, (PQueue.push_mem tp grow q x m h (by omega)).2⟩

/-- **continue**: a history that starts with a refused push behaves, on the queue, exactly like
the history without that push run from the ledger the refusal left behind -/
theorem refused_push_skipped {cmp : Nat → Nat → Int} (tp : TotalPreorder cmp) (grow : Nat → Nat)
    (q : PQueue) (x : Nat) (ops : List Op) (m : Mem) (h : PQueue.Inv' cmp q) (hl : 2 ≤ m.liveT q.triple)
    (hst : (PQueue.push cmp grow q x m).1 = .errAlloc) :
    (PQueue.run cmp grow q (.push x :: ops) m).1 =
      ⟨.errAlloc, none⟩ :: (PQueue.run cmp grow q ops (PQueue.push cmp grow q x m).2.2).1 ∧
    (PQueue.run cmp grow q (.push x :: ops) m).2.1 = (PQueue.run cmp grow q ops (PQueue.push cmp grow q x m).2.2).2.1 := by
  have hq := (push_atomic tp grow q x m h hl hst).1
  simp only [PQueue.run, PQueue.step, hst, hq]
  exact ⟨trivial, trivial⟩

/-- **continue after a refusal**, for every schedule and a second ledger: if the first push of a
history is refused, the rest of the history behaves — statuses, out-values, final queue — exactly
like the history *without* that push run on any ledger `m'` that has the schedule the refusal left
behind (`m'.sched = remaining schedule`); in particular, once the allocator succeeds again the
queue continues as if the refused call had never been made -/
theorem continue_after_refusal {cmp : Nat → Nat → Int} (tp : TotalPreorder cmp) (grow : Nat → Nat)
    (q : PQueue) (x : Nat) (ops : List Op) (m m' : Mem) (h : PQueue.Inv' cmp q) (hl : 2 ≤ m.liveT q.triple)
    (hst : (PQueue.push cmp grow q x m).1 = .errAlloc) (hs : m'.sched = (PQueue.push cmp grow q x m).2.2.sched) :
    (PQueue.run cmp grow q (.push x :: ops) m).1 = ⟨.errAlloc, none⟩ :: (PQueue.run cmp grow q ops m').1 ∧
    (PQueue.run cmp grow q (.push x :: ops) m).2.1 = (PQueue.run cmp grow q ops m').2.1 := by
  have h1 := refused_push_skipped tp grow q x ops m h hl hst
  have h2 := C14PQueue.history_allocator_independent cmp grow ops q (PQueue.push cmp grow q x m).2.2 m' hs.symm
  rw [h1.1, h1.2, h2.1, h2.2]
  exact ⟨rfl, rfl⟩

/-- with an allocator that does not refuse — an empty schedule, or the C library (`cc_pqueue_new`),
which the harness never refuses — push never reports `CC_ERR_ALLOC` -/
theorem push_no_refusal {cmp : Nat → Nat → Int} (tp : TotalPreorder cmp) (grow : Nat → Nat)
    (q : PQueue) (x : Nat) (m : Mem) (h : PQueue.Inv' cmp q) (hl : 2 ≤ m.liveT q.triple)
    (hs : m.sched = [] ∨ q.triple = .libc) :
    (PQueue.push cmp grow q x m).1 ≠ .errAlloc := by
  rcases PQueue.push_spec tp grow q x m h (by omega) with ⟨e, _⟩ | ⟨⟨⟨_, e⟩ | e, _⟩⟩
  · rw [e]; simp
  · rcases hs with hs | hs
    · rw [(Mem.allocT_nil m q.triple hs).1] at e; cases e
    · rw [hs] at e; cases e
  · rw [e]; simp

/-- the constructor: `CC_ERR_ALLOC` iff the capacity is acceptable and one of its two allocator
calls is refused; then no queue exists and the ledger is balanced -/
theorem new_refused_iff (cap : Nat) (exGe : Nat → Bool) (t : Triple) (m : Mem) :
    (PQueue.new cap exGe t m).1 = .errAlloc ↔
      (¬ (cap = 0 ∨ exGe (Gen.CC_MAX_ELEMENTS / cap) = true) ∧ ¬ cap > Gen.CC_MAX_ELEMENTS / PQueue.ptrSize ∧
       ((m.allocT t).1 = false ∨ ((m.allocT t).2.allocT t).1 = false)) := by
  unfold PQueue.new
  by_cases h1 : (cap = 0 || exGe (Gen.CC_MAX_ELEMENTS / cap)) = true
  · have : cap = 0 ∨ exGe (Gen.CC_MAX_ELEMENTS / cap) = true := by simpa using h1
    simp [h1, this]
  · have h1' : ¬ (cap = 0 ∨ exGe (Gen.CC_MAX_ELEMENTS / cap) = true) := by simpa using h1
    by_cases h2 : cap > Gen.CC_MAX_ELEMENTS / PQueue.ptrSize
    · simp [h1, h2]
    · simp only [h1, h2, if_false, h1', not_false_eq_true, true_and]
      cases (m.allocT t).1 <;> cases ((m.allocT t).2.allocT t).1 <;> simp

theorem new_atomic (cmp : Nat → Nat → Int) (cap : Nat) (exGe : Nat → Bool) (t : Triple) (m : Mem)
    (h : (PQueue.new cap exGe t m).1 = .errAlloc) :
    (PQueue.new cap exGe t m).2.1 = none ∧ (PQueue.new cap exGe t m).2.2.liveT t = m.liveT t ∧
    (PQueue.new cap exGe t m).2.2.fault = m.fault :=
  C10.new_refused cmp cap exGe t m (by rw [h]; simp)

/-- `top` and `pop` never call the allocator: the ledger record comes back unchanged -/
theorem top_pop_do_not_allocate {cmp : Nat → Nat → Int} (tp : TotalPreorder cmp) (q : PQueue) (m : Mem)
    (h : PQueue.Inv' cmp q) : (q.top m).2.2 = m ∧ (PQueue.pop cmp q m).2.2.2 = m := by
  constructor
  · rcases PQueue.top_spec tp q m h with ⟨_, e⟩ | ⟨x, e, _⟩ <;> rw [e]
  · rcases PQueue.pop_spec tp q m h with ⟨_, e⟩ | ⟨x, _, _, _, _, _, _, e⟩
    · rw [e]
    · exact e

/-! Non-vacuity: a full queue, a ledger whose next allocator call is refused -/
example : PQueue.Inv' (keyCmp id) { size := 2, capacity := 2, buf := [9, 4] } ∧
    (({ live := 2, sched := [true] } : Mem).allocT Triple.conf).1 = false := by
  refine ⟨⟨by decide, by decide⟩, by decide⟩

end CC.Properties.C08PQueue
