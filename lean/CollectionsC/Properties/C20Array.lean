import CollectionsC.Proofs.ArrayGeometric
import CollectionsC.Proofs.Stack
import CollectionsC.Properties.C01
/-! # C20 (array and stack part) — geometric growth and capacity invariants

Statements only.  `size ≤ capacity ≤ allocated slots` is part of `Arr.Inv`, which every operation
preserves (`history_size_le_capacity`); growth strictly increases the capacity for **every** growth
function (A7), trimming yields `max size 1` and never drops below the element count, contents are
never changed by either.  Re-allocation counts, for every refusal schedule and both allocator triples:

* `appends_realloc_log`: a growth function that at least doubles **on the capacities below the final
  size** costs at most `log2 (size + n) + 1` re-allocations on `n` appends;
* `appends_realloc_geometric`: every expansion factor `≥ 1 + 1/k` (`c + c / k ≤ grow c` below the
  final size; the `capacity + 1` fallback included) costs at most `2k · (log2 (size + n) + 2)`.

The hypotheses are stated on the range `c < size + n` only — a global `∀ c, 2c ≤ grow c` is
incompatible with the byte-size limit and is *not* met by the shipped growth function: the library
computes `(size_t)((float) c * 2.0f)`, and `(float) c` rounds `c` to 24 significant bits, so
`2c ≤ grow c` holds exactly as long as the capacities are representable (`size + n ≤ 2^24 + 1`;
e.g. `grow (2^24 + 1) = 2^25 < 2^25 + 2`), while `c + c / 2 ≤ grow c` holds on the whole range below
`2^63` (the rounding error is at most `c / 2^24`).  `Float32` is opaque to the kernel, so these two
facts about the C float arithmetic are assumptions of the reading of the theorems for the default
factor, not theorems; the correspondence check exercises them on small capacities only. -/
namespace CC.Properties.C20Array
open CC

/-- size ≤ capacity and the block holds `capacity` slots, in every state satisfying the invariant -/
theorem size_le_capacity (a : Arr) (h : a.Inv) : a.size ≤ a.capacity ∧ a.capacity ≤ a.buf.length ∧ 1 ≤ a.capacity :=
  ⟨h.1, h.2.1, h.2.2.1⟩

/-- the buffer's size in bytes never wraps around `size_t`: `capacity * sizeof(void*) ≤ CC_MAX_ELEMENTS`
in every state satisfying the invariant (constructor: A9, `expand_capacity`: A10) -/
theorem capacity_bytes_no_wrap (a : Arr) (h : a.Inv) : a.capacity * 8 ≤ Gen.CC_MAX_ELEMENTS := by
  have := h.2.2.2
  omega

/-- a growth step is refused with `CC_ERR_MAX_CAPACITY`, state untouched and no allocation made,
exactly when the requested capacity would need more than `CC_MAX_ELEMENTS` bytes (A10) -/
theorem growth_at_limit (a : Arr) (m : Mem) (h : a.AtLimit) : a.expandCapacity m = (.errMaxCapacity, a, m) :=
  Arr.expandCapacity_max a m h

/-- **every growth step strictly increases the capacity**, whatever `(size_t)(capacity * exp_factor)`
evaluates to (a product that makes no progress falls back to `capacity + 1`) -/
theorem growth_strict (a : Arr) (m : Mem) (hinv : a.Inv) (h : (a.expandCapacity m).1 = .ok) :
    a.capacity < (a.expandCapacity m).2.1.capacity ∧ (a.expandCapacity m).2.1.abs = a.abs ∧
    (a.expandCapacity m).2.1.buf.length = (a.expandCapacity m).2.1.capacity := by
  obtain ⟨e1, _, _, e4, e5, e6, _⟩ := Arr.expandCapacity_ok a m hinv h
  exact ⟨by rw [e4]; exact e6, e1, by rw [e4, e5]⟩

/-- the requested capacity: the float product when it makes progress, else one more slot -/
theorem new_capacity_cases (a : Arr) (h : a.capacity < Gen.CC_MAX_ELEMENTS / 2) :
    a.newCapacity = if a.grow a.capacity ≤ a.capacity then a.capacity + 1 else a.grow a.capacity := by
  unfold Arr.newCapacity
  simp only [h, if_true]

/-- `add` never shrinks the capacity and changes it only when the array is exactly full -/
theorem add_capacity (a : Arr) (x : Nat) (m : Mem) (hinv : a.Inv) :
    a.capacity ≤ (a.add x m).2.1.capacity ∧
    ((a.add x m).2.1.capacity ≠ a.capacity → a.size = a.capacity ∧ a.capacity < (a.add x m).2.1.capacity) := by
  rcases (Arr.add_spec a x m hinv).1 with ⟨_, _, g⟩ | ⟨_, hsame⟩
  · refine ⟨g.capacity_le, fun hne => ?_⟩
    rcases g.2.2.2.1 with g4 | ⟨g3, g4, g5, _⟩
    · exact absurd g4 hne
    · exact ⟨g3, by omega⟩
  · rw [hsame]; exact ⟨Nat.le_refl _, fun h => absurd rfl h⟩

/-- **trim**: on success the capacity is `max size 1`, never below the element count; contents
unchanged; a refused trim changes nothing -/
theorem trim_capacity (a : Arr) (m : Mem) (hinv : a.Inv) :
    ((a.trimCapacity m).1 = .ok ∧ (a.trimCapacity m).2.1.capacity = max a.size 1 ∧
      (a.trimCapacity m).2.1.size ≤ (a.trimCapacity m).2.1.capacity ∧ (a.trimCapacity m).2.1.abs = a.abs) ∨
    ((a.trimCapacity m).1 = .errAlloc ∧ (a.trimCapacity m).2.1 = a) := by
  rcases (Arr.trimCapacity_spec a m hinv).1 with ⟨ok, h1, _, h3, h4, _⟩ | ⟨e, _, hsame⟩
  · exact Or.inl ⟨ok, h3, h4.1, h1⟩
  · exact Or.inr ⟨e, hsame⟩

/-- **O(log n) re-allocations** for a growth function that at least doubles the capacities below the
final size: appending any list of `n` elements to an array with `size` elements performs at most
`log2 (size + n) + 1` successful allocator calls through the array's triple — for every refusal
schedule, whatever the initial capacity ≥ 1 -/
theorem appends_realloc_log (a : Arr) (xs : List Nat) (m : Mem) (hinv : a.Inv)
    (hd : ∀ c, c < a.size + xs.length → 2 * c ≤ a.grow c) :
    Arr.allocs a.triple (a.addAll xs m).2 - Arr.allocs a.triple m ≤ Nat.log2 (a.size + xs.length) + 1 :=
  (Arr.addAll_realloc_log a xs m hinv hd).1

/-- **every expansion factor > 1**: a growth function that multiplies the capacities below the final
size by at least `1 + 1/k` (`k = 2` for the factor 1.5, `k = 10` for 1.1), falling back to
`capacity + 1` where the product makes no progress, costs at most `2k · (log2 (size + n) + 2)`
successful allocator calls — for every refusal schedule -/
theorem appends_realloc_geometric (k : Nat) (hk : 1 ≤ k) (a : Arr) (xs : List Nat) (m : Mem) (hinv : a.Inv)
    (hd : ∀ c, c < a.size + xs.length → c + c / k ≤ a.grow c) :
    Arr.allocs a.triple (a.addAll xs m).2 - Arr.allocs a.triple m ≤ 2 * k * (Nat.log2 (a.size + xs.length) + 2) :=
  Arr.addAll_realloc_geometric k hk a xs m hinv hd

/-- the successive capacities are the iterates of `capStep grow` (the product, or `capacity + 1`),
one per successful allocation, each step taken at a capacity below `size + n` — for **every** growth
function and refusal schedule -/
theorem appends_capacity_chain (a : Arr) (xs : List Nat) (m : Mem) (hinv : a.Inv) :
    ∃ r, Arr.allocs a.triple (a.addAll xs m).2 = Arr.allocs a.triple m + r ∧
      (a.addAll xs m).1.capacity = Arr.capIter (Arr.capStep a.grow) r a.capacity ∧
      (∀ j, j < r → Arr.capIter (Arr.capStep a.grow) j a.capacity < a.size + xs.length) ∧
      (a.addAll xs m).1.size ≤ (a.addAll xs m).1.capacity := by
  obtain ⟨r, h1, h2, h3, h4⟩ := Arr.addAll_chain xs a m hinv
  exact ⟨r, h1, h2, h3, h4.1⟩

/-- **`trim_minimum`**: the documented minimum `max size 1`, never below the element count, content
and size untouched, whatever the capacity was -/
theorem trim_minimum (a : Arr) (m : Mem) (hinv : a.Inv) (hok : (a.trimCapacity m).1 = .ok) :
    (a.trimCapacity m).2.1.capacity = max a.size 1 ∧ a.size ≤ (a.trimCapacity m).2.1.capacity ∧
    (a.trimCapacity m).2.1.abs = a.abs ∧ (a.trimCapacity m).2.1.size = a.size ∧ (a.trimCapacity m).2.1.Inv := by
  rcases (Arr.trimCapacity_spec a m hinv).1 with ⟨_, h1, h2, h3, h4, _⟩ | ⟨e, _⟩
  · exact ⟨h3, by rw [h3]; omega, h1, h2, h4⟩
  · rw [e] at hok; simp at hok

/-- **the concrete append process is `CC.Growth.appends`** (`Proofs/Growth.lean`): on an allocator
that never refuses, with a growth function that — on the capacities below the final size — at least
doubles and stays below the byte-size limit, `n` appends leave exactly the abstract process's size
and capacity and perform exactly its number of buffer allocations — hence at most
`log2 (size + n) + 1`.  (Hypotheses instantiated below.) -/
theorem appends_is_growth_process (a : Arr) (xs : List Nat) (m : Mem) (hinv : a.Inv) (hs : m.sched = [])
    (hd : ∀ c, c < a.size + xs.length → 2 * c ≤ a.grow c ∧ a.grow c ≤ Gen.CC_MAX_ELEMENTS / 8) :
    (a.addAll xs m).1.size = (Growth.appends a.grow a.size a.capacity xs.length).size ∧
    (a.addAll xs m).1.capacity = (Growth.appends a.grow a.size a.capacity xs.length).cap ∧
    Arr.allocs a.triple (a.addAll xs m).2 - Arr.allocs a.triple m =
      (Growth.appends a.grow a.size a.capacity xs.length).reallocs ∧
    (Growth.appends a.grow a.size a.capacity xs.length).reallocs ≤ Nat.log2 (a.size + xs.length) + 1 := by
  obtain ⟨h1, h2, h3⟩ := Arr.addAll_eq_appends xs a m hinv hs hd
  have h4 := (Arr.addAll_realloc_log a xs m hinv (fun c hc => (hd c hc).1)).1
  exact ⟨h1, h2, by omega, by omega⟩

/-- **`size ≤ capacity ≤ allocated slots ≤ CC_MAX_ELEMENTS / sizeof(void*)` at all times**: in every
state reached by any history of the C01 vocabulary (trims and refused growth steps included) from a
state satisfying the invariant, under every refusal schedule -/
theorem history_size_le_capacity (cfg : Spec.Seq.Cfg) (ops : List Spec.Seq.Op) (a : Arr) (m : Mem) (hinv : a.Inv)
    (hsort : ∀ xs, (cfg.sortFn xs).length = xs.length) :
    (a.run cfg ops m).2.1.size ≤ (a.run cfg ops m).2.1.capacity ∧
    (a.run cfg ops m).2.1.capacity ≤ (a.run cfg ops m).2.1.buf.length ∧
    1 ≤ (a.run cfg ops m).2.1.capacity ∧ (a.run cfg ops m).2.1.capacity * 8 ≤ Gen.CC_MAX_ELEMENTS := by
  have h := (C01.history_refines cfg ops a m hinv hsort).2.2.1
  exact ⟨h.1, h.2.1, h.2.2.1, capacity_bytes_no_wrap _ h⟩

/-- the stack inherits all of it: push = add -/
theorem stack_push_capacity (s : Stack) (x : Nat) (m : Mem) (hinv : s.Inv) :
    s.v.capacity ≤ (s.push x m).2.1.v.capacity ∧ (s.push x m).2.1.v.size ≤ (s.push x m).2.1.v.capacity := by
  rcases (Arr.add_spec s.v x m hinv).1 with ⟨_, _, g⟩ | ⟨_, hsame⟩
  · exact ⟨g.capacity_le, g.2.1⟩
  · simp only [Stack.push]; rw [hsame]; exact ⟨Nat.le_refl _, hinv.1⟩

/-! Non-vacuity.  The hypothesis bundle of `appends_is_growth_process` (and of `appends_realloc_log`)
is met by the factor 2 on any array whose final size stays below a quarter of the limit; the bundle
of `appends_realloc_geometric` by the factor 1.5 (`k = 2`); and a concrete run: five appends to a full
array of capacity 1 re-allocate three times (1 → 2 → 4 → 8), with the factor 1.5 four times
(1 → 2 → 3 → 4 → 6). -/
example (a : Arr) (n : Nat) (hg : a.grow = fun c => 2 * c) (hn : 2 * (a.size + n) ≤ Gen.CC_MAX_ELEMENTS / 8) :
    ∀ c, c < a.size + n → 2 * c ≤ a.grow c ∧ a.grow c ≤ Gen.CC_MAX_ELEMENTS / 8 := by
  intro c hc; rw [hg]; simp only; omega

example : ∀ c, c + c / 2 ≤ (fun c => c * 3 / 2) c := by intro c; simp only; omega

example :
    let a : Arr := Arr.mk 1 1 [7] (fun c => 2 * c) .conf
    a.Inv ∧ ((a.addAll [1, 2, 3, 4, 5] {}).1.size, (a.addAll [1, 2, 3, 4, 5] {}).1.capacity,
      (a.addAll [1, 2, 3, 4, 5] {}).2.nalloc) = (6, 8, 3) ∧
    Growth.appends (fun c => 2 * c) 1 1 5 = ⟨6, 8, 3⟩ ∧ (a.addAll [1, 2, 3, 4, 5] {}).1.abs = [7, 1, 2, 3, 4, 5] := by
  decide

example :
    let a : Arr := Arr.mk 1 1 [7] (fun c => c * 3 / 2) .conf
    ((a.addAll [1, 2, 3, 4] {}).1.size, (a.addAll [1, 2, 3, 4] {}).1.capacity,
      (a.addAll [1, 2, 3, 4] {}).2.nalloc) = (5, 6, 4) ∧
    Arr.capIter (Arr.capStep a.grow) 4 1 = 6 := by decide

end CC.Properties.C20Array
