import CollectionsC.Proofs.ArrayGrowth
import CollectionsC.Proofs.Stack
/-! # C20 (array and stack part) — geometric growth and capacity invariants

Statements only.  `size ≤ capacity ≤ allocated slots` is part of `Arr.Inv`, which every operation
preserves (`C01.step_refines`); here: growth strictly increases the capacity for **every** growth
function (A7), trimming yields `max size 1` and never drops below the element count, contents are
never changed by either, and with a growth function that at least doubles (the default factor 2)
`n` appends cost at most `log2 (size) + 1` re-allocations. -/
namespace CC.Properties.C20Array
open CC

/-- size ≤ capacity and the block holds `capacity` slots, in every state satisfying the invariant -/
theorem size_le_capacity (a : Arr) (h : a.Inv) : a.size ≤ a.capacity ∧ a.capacity ≤ a.buf.length ∧ 1 ≤ a.capacity :=
  ⟨h.1, h.2.1, h.2.2.1⟩

/-- the buffer's size in bytes never wraps around `size_t`: `capacity * sizeof(void*) ≤ CC_MAX_ELEMENTS`
in every state satisfying the invariant (constructor: A9, `expand_capacity`: A10) -/
theorem capacity_bytes_no_wrap (a : Arr) (h : a.Inv) : a.capacity * 8 ≤ Gen.CC_MAX_ELEMENTS := by
  have := h.2.2.2
  omega

/-- a growth step is refused with `CC_ERR_MAX_CAPACITY`, state untouched and no allocation made,
exactly when the requested capacity would need more than `CC_MAX_ELEMENTS` bytes (A10) -/
theorem growth_at_limit (a : Arr) (m : Mem) (h : a.AtLimit) : a.expandCapacity m = (.errMaxCapacity, a, m) :=
  Arr.expandCapacity_max a m h

/-- **every growth step strictly increases the capacity**, whatever `(size_t)(capacity * exp_factor)`
evaluates to (a product that makes no progress falls back to `capacity + 1`) -/
theorem growth_strict (a : Arr) (m : Mem) (hinv : a.Inv) (h : (a.expandCapacity m).1 = .ok) :
    a.capacity < (a.expandCapacity m).2.1.capacity ∧ (a.expandCapacity m).2.1.abs = a.abs ∧
    (a.expandCapacity m).2.1.buf.length = (a.expandCapacity m).2.1.capacity := by
  obtain ⟨e1, _, _, e4, e5, e6, _⟩ := Arr.expandCapacity_ok a m hinv h
  exact ⟨by rw [e4]; exact e6, e1, by rw [e4, e5]⟩

/-- the requested capacity: the float product when it makes progress, else one more slot -/
theorem new_capacity_cases (a : Arr) (h : a.capacity < Gen.CC_MAX_ELEMENTS / 2) :
    a.newCapacity = if a.grow a.capacity ≤ a.capacity then a.capacity + 1 else a.grow a.capacity := by
  unfold Arr.newCapacity
  simp only [h, if_true]

/-- `add` never shrinks the capacity and changes it only when the array is exactly full -/
theorem add_capacity (a : Arr) (x : Nat) (m : Mem) (hinv : a.Inv) :
    a.capacity ≤ (a.add x m).2.1.capacity ∧
    ((a.add x m).2.1.capacity ≠ a.capacity → a.size = a.capacity ∧ a.capacity < (a.add x m).2.1.capacity) := by
  rcases (Arr.add_spec a x m hinv).1 with ⟨_, _, g⟩ | ⟨_, hsame⟩
  · refine ⟨g.capacity_le, fun hne => ?_⟩
    rcases g.2.2.2.1 with g4 | ⟨g3, g4, g5, _⟩
    · exact absurd g4 hne
    · exact ⟨g3, by omega⟩
  · rw [hsame]; exact ⟨Nat.le_refl _, fun h => absurd rfl h⟩

/-- **trim**: on success the capacity is `max size 1`, never below the element count; contents
unchanged; a refused trim changes nothing -/
theorem trim_capacity (a : Arr) (m : Mem) (hinv : a.Inv) :
    ((a.trimCapacity m).1 = .ok ∧ (a.trimCapacity m).2.1.capacity = max a.size 1 ∧
      (a.trimCapacity m).2.1.size ≤ (a.trimCapacity m).2.1.capacity ∧ (a.trimCapacity m).2.1.abs = a.abs) ∨
    ((a.trimCapacity m).1 = .errAlloc ∧ (a.trimCapacity m).2.1 = a) := by
  rcases (Arr.trimCapacity_spec a m hinv).1 with ⟨ok, h1, _, h3, h4, _⟩ | ⟨e, _, hsame⟩
  · exact Or.inl ⟨ok, h3, h4.1, h1⟩
  · exact Or.inr ⟨e, hsame⟩

/-- **O(log n) re-allocations** for a growth function that at least doubles: appending any list of
`n` elements to an array with `size` elements performs at most `log2 (size + n) + 1` successful
allocator calls — and not one more, whatever the initial capacity ≥ 1 -/
theorem appends_realloc_log (a : Arr) (xs : List Nat) (m : Mem) (hinv : a.Inv)
    (hd : ∀ c, 2 * c ≤ a.grow c) :
    (a.addAll xs m).2.nalloc - m.nalloc ≤ Nat.log2 (a.size + xs.length) + 1 :=
  (Arr.addAll_realloc_log a xs m hinv hd).1

/-- **`trim_minimum`**: the documented minimum `max size 1`, never below the element count, content
and size untouched, whatever the capacity was -/
theorem trim_minimum (a : Arr) (m : Mem) (hinv : a.Inv) (hok : (a.trimCapacity m).1 = .ok) :
    (a.trimCapacity m).2.1.capacity = max a.size 1 ∧ a.size ≤ (a.trimCapacity m).2.1.capacity ∧
    (a.trimCapacity m).2.1.abs = a.abs ∧ (a.trimCapacity m).2.1.size = a.size ∧ (a.trimCapacity m).2.1.Inv := by
  rcases (Arr.trimCapacity_spec a m hinv).1 with ⟨_, h1, h2, h3, h4, _⟩ | ⟨e, _⟩
  · exact ⟨h3, by rw [h3]; omega, h1, h2, h4⟩
  · rw [e] at hok; simp at hok

/-- **the concrete append process is `CC.Growth.appends`** (`Proofs/Growth.lean`): on an allocator
that never refuses, with a growth function that at least doubles and stays below the byte-size limit,
`n` appends leave exactly the abstract process's size and capacity and perform exactly its number of
buffer allocations — hence at most `log2 (size + n) + 1` -/
theorem appends_is_growth_process (a : Arr) (xs : List Nat) (m : Mem) (hinv : a.Inv)
    (hs : m.sched = []) (hd : ∀ c, 2 * c ≤ a.grow c) (hb : ∀ c, a.grow c ≤ Gen.CC_MAX_ELEMENTS / 8) :
    (a.addAll xs m).1.size = (Growth.appends a.grow a.size a.capacity xs.length).size ∧
    (a.addAll xs m).1.capacity = (Growth.appends a.grow a.size a.capacity xs.length).cap ∧
    (a.addAll xs m).2.nalloc - m.nalloc = (Growth.appends a.grow a.size a.capacity xs.length).reallocs ∧
    (Growth.appends a.grow a.size a.capacity xs.length).reallocs ≤ Nat.log2 (a.size + xs.length) + 1 := by
  obtain ⟨h1, h2, h3⟩ := Arr.addAll_eq_appends xs a m hinv hs hd hb
  exact ⟨h1, h2, by omega, Growth.reallocs_le_log a.grow hd a.size a.capacity xs.length hinv.1 hinv.2.2.1⟩

/-- the stack inherits all of it: push = add -/
theorem stack_push_capacity (s : Stack) (x : Nat) (m : Mem) (hinv : s.Inv) :
    s.v.capacity ≤ (s.push x m).2.1.v.capacity ∧ (s.push x m).2.1.v.size ≤ (s.push x m).2.1.v.capacity := by
  rcases (Arr.add_spec s.v x m hinv).1 with ⟨_, _, g⟩ | ⟨_, hsame⟩
  · exact ⟨g.capacity_le, g.2.1⟩
  · simp only [Stack.push]; rw [hsame]; exact ⟨Nat.le_refl _, hinv.1⟩

/-! Non-vacuity of the doubling hypothesis: the default factor 2 (`c ↦ 2c`) satisfies it. -/
example : ∀ c, 2 * c ≤ (fun c => 2 * c) c := fun _ => Nat.le_refl _

end CC.Properties.C20Array
