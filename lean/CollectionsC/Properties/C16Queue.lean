import CollectionsC.Properties.C06Queue
/-! # C16 (queue part) — rejected operations are inert

The adapter has no index arguments; its rejected calls are `poll`/`peek` on an empty queue, iterator
`replace` before the first `next`, and a refused `enqueue`. -/
namespace CC.Properties.C16Queue
open CC CC.Properties.C09Queue

/-- **error_is_inert**: any status other than `CC_OK` leaves the whole physical state of the queue (its
inner deque) unchanged, and the ledger balanced -/
theorem error_is_inert (q : Queue) (m : Mem) (op : Op) (hi : q.Inv) (s : Stat)
    (hst : (stepQ q m op).1.st = some s) (hne : s ≠ .ok) :
    (stepQ q m op).2.1 = q ∧ Deque.memSame q.triple (stepQ q m op).2.2 m := by
  refine ⟨?_, (C06Queue.step_safe q m op hi).2.1⟩
  cases op with
  | enqueue x =>
    simp only [stepQ, Queue.enqueue, Option.some.injEq] at hst ⊢
    rcases Deque.addFirst_spec q.d x m hi.1 with ⟨a1, _⟩ | ⟨_, a2, _⟩
    · rw [a1] at hst; exact absurd hst.symm hne
    · cases q; simp only at a2 ⊢; rw [a2]
  | poll =>
    simp only [stepQ, Queue.poll, Option.some.injEq] at hst ⊢
    rw [Deque.removeLast_error_inert q.d m (by rw [hst]; exact hne)]
  | peek => rfl
  | size => rfl

/-- an empty queue: `poll` and `peek` report an error, state and ledger unchanged -/
theorem empty_rejected (q : Queue) (m : Mem) (h : q.d.size = 0) :
    q.poll m = (.errOutOfRange, none, q, m) ∧ q.peek m = (.errOutOfRange, none, m) :=
  empty_inert q m h

/-- and a non-empty queue accepts both -/
theorem nonempty_accepted (q : Queue) (m : Mem) (h : 0 < q.d.size) :
    (q.poll m).1 = .ok ∧ (q.peek m).1 = .ok := by
  have hne : ¬ (q.d.size = 0) := by omega
  unfold Queue.poll Queue.peek Deque.removeLast Deque.getLast
  rw [if_neg hne, if_neg hne]
  exact ⟨rfl, rfl⟩

/-- iterator `replace` before the first `next` (or behind the end of a shrunken queue): rejected, nothing
changes; zip `replace` likewise -/
theorem iterator_error_is_inert (it : Deque.Iter) (q q2 : Queue) (x y : Nat) (m : Mem) :
    ((Queue.iterReplace it q x m).1 ≠ .ok → (Queue.iterReplace it q x m).2.2.1 = q ∧
      (Queue.iterReplace it q x m).2.2.2 = m) ∧
    ((Queue.zipReplace it q q2 x y m).1 ≠ .ok → (Queue.zipReplace it q q2 x y m).2.2.1 = q ∧
      (Queue.zipReplace it q q2 x y m).2.2.2.1 = q2 ∧ (Queue.zipReplace it q q2 x y m).2.2.2.2 = m) := by
  refine ⟨fun h => ?_, fun h => ?_⟩
  · have := Deque.iterReplace_error_inert it q.d x m h
    simp only [Queue.iterReplace, this]
    exact ⟨(by first | rfl | trivial), (by first | rfl | trivial)⟩
  · obtain ⟨a1, a2, a3⟩ := Deque.zipReplace_error_inert it q.d q2.d x y m h
    simp only [Queue.zipReplace, a1, a2, a3]
    exact ⟨(by first | rfl | trivial), (by first | rfl | trivial), (by first | rfl | trivial)⟩

/-- non-vacuity: `poll` on an empty queue -/
example : (stepQ ⟨Deque.mk 0 2 1 1 [0, 0] .conf, .conf⟩ {} .poll).1 = ⟨some .errOutOfRange, none⟩ := by decide

end CC.Properties.C16Queue
