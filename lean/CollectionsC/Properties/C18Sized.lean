import CollectionsC.Properties.C01Sized
import CollectionsC.Proofs.ArraySized9
/-! # C18 (sized array part) — sorting yields an ordered permutation

Statements only, relative to the `qsort` contract: `cc_array_sized_sort` hands the buffer, the
element count and the record size to the C library's `qsort`; `sortFn` stands for what `qsort` does
to the sequence of records (assumed: a rearrangement in which no record compares greater than its
successor).  The model writes `sortFn abs` back record by record at `BUF_ADDR(ar, i)`. -/
namespace CC.Properties.C18Sized
open CC CC.Gen CC.ArraySized

/-- **sort_ordered_permutation**: same multiset of records, pairwise ordered, size and
configuration unchanged, invariant kept, no fault (the checked access covers exactly the first
`size * data_length` bytes) -/
theorem sort_ordered_permutation (a : ArraySized) (sortFn : List Elem → List Elem) (gt : Elem → Elem → Prop) (m : Mem)
    (h : a.Inv) (hperm : ∀ l, (sortFn l).Perm l) (hsorted : ∀ l, (sortFn l).Pairwise (fun x y => ¬ gt x y)) :
    (a.sort sortFn m).1.abs.Perm a.abs ∧ (a.sort sortFn m).1.abs.Pairwise (fun x y => ¬ gt x y) ∧
    (a.sort sortFn m).1.Inv ∧ (a.sort sortFn m).1.size = a.size ∧ (a.sort sortFn m).2 = m := by
  obtain ⟨s1, s2, _, _, _, s6, s7, _⟩ := sort_spec a sortFn m h (hperm a.abs)
  rw [s2]
  exact ⟨hperm a.abs, hsorted a.abs, s1, s6, s7⟩

/-- the instance for **every total-preorder comparator**: with `sortFn := mergeSort le` (`le` total and
transitive: a comparator in the sense of the property, ties allowed) the hypotheses above are theorems,
so the sorted array is an `le`-ordered permutation of the old content -/
theorem sort_total_preorder (a : ArraySized) (le : Elem → Elem → Bool) (m : Mem) (h : a.Inv)
    (htrans : ∀ x y z, le x y = true → le y z = true → le x z = true) (htotal : ∀ x y, (le x y || le y x) = true) :
    (a.sort (fun l => l.mergeSort le) m).1.abs.Perm a.abs ∧
    (a.sort (fun l => l.mergeSort le) m).1.abs.Pairwise (fun x y => le x y = true) ∧
    (a.sort (fun l => l.mergeSort le) m).1.Inv := by
  obtain ⟨s1, s2, _⟩ := sort_spec a (fun l => l.mergeSort le) m h (List.mergeSort_perm _ _)
  rw [s2]
  exact ⟨List.mergeSort_perm _ _, List.pairwise_mergeSort htrans htotal _, s1⟩

/-- **comparators with ties** (total preorders that are not orders): for any key function, sorting by
"key x ≤ key y" (records with equal keys compare equal although their bytes differ) yields a permutation
whose **key sequence is non-decreasing** — exactly what the harness observes tie-invariantly for
`sort cmp=k10` (key `v % 10`): the keys in array order and the multiset of records; nothing is claimed
about the relative order of tied records (`qsort` is not stable by contract) -/
theorem sort_by_key_with_ties (a : ArraySized) (key : Elem → Nat) (m : Mem) (h : a.Inv) :
    let s := (a.sort (fun l => l.mergeSort (fun x y => decide (key x ≤ key y))) m).1
    s.abs.Perm a.abs ∧ (s.abs.map key).Pairwise (· ≤ ·) ∧ s.Inv := by
  obtain ⟨h1, h2, h3⟩ := sort_total_preorder a (fun x y => decide (key x ≤ key y)) m h
    (by intro x y z h1 h2; simp only [decide_eq_true_eq] at *; omega)
    (by intro x y; simp only [Bool.or_eq_true, decide_eq_true_eq]; omega)
  refine ⟨h1, ?_, h3⟩
  rw [List.pairwise_map]
  exact h2.imp (fun hh => by simpa using hh)

/-- the ends are consistent with the content, capacity and element size are untouched, and so is
every record at or above `size` (the dead slots of the buffer) -/
theorem sort_configuration (a : ArraySized) (sortFn : List Elem → List Elem) (m : Mem) (h : a.Inv)
    (hperm : ∀ l, (sortFn l).Perm l) :
    (a.sort sortFn m).1.abs = sortFn a.abs ∧ (a.sort sortFn m).1.capacity = a.capacity ∧
    (a.sort sortFn m).1.dataLen = a.dataLen ∧ (a.sort sortFn m).1.abs.length = a.size ∧
    (∀ k, a.size ≤ k → k < a.capacity → (a.sort sortFn m).1.chunk k = a.chunk k) := by
  obtain ⟨_, s2, s3, _, s5, s6, _, s8⟩ := sort_spec a sortFn m h (hperm a.abs)
  exact ⟨s2, s5, s3, by rw [abs_length, s6], s8⟩

/-- sorting an empty or single-element array changes **nothing**: the whole physical state (dead
slots, capacity) and the ledger are what they were -/
theorem sort_identity_le_one (a : ArraySized) (sortFn : List Elem → List Elem) (m : Mem) (h : a.Inv)
    (hperm : ∀ l, (sortFn l).Perm l) (h1 : a.size ≤ 1) : a.sort sortFn m = (a, m) :=
  sort_le_one_phys a sortFn h hperm h1 m

/-! Non-vacuity of the `qsort` contract: `List.mergeSort` with the total preorder "first byte ≤ first
byte" (not injective: ties) returns a permutation that is pairwise ordered, i.e. satisfies `hperm`
and `hsorted` (with `gt x y := ¬ le x y`). -/
example : ∀ l : List Elem, (l.mergeSort (fun x y => decide (x.headD 0 ≤ y.headD 0))).Perm l :=
  fun l => List.mergeSort_perm l _
example : ∀ l : List Elem, (l.mergeSort (fun x y => decide (x.headD 0 ≤ y.headD 0))).Pairwise
    (fun x y => ¬ ¬ (decide (x.headD 0 ≤ y.headD 0) = true)) := by
  intro l
  have := List.pairwise_mergeSort (le := fun (x y : Elem) => decide (x.headD 0 ≤ y.headD 0))
    (by intro a b c h1 h2; simp only [decide_eq_true_eq] at *; omega)
    (by intro a b; simp only [Bool.or_eq_true, decide_eq_true_eq]; omega) l
  exact this.imp (fun h hn => hn h)

/-! … and a concrete `Inv` state whose records are put in order (here by a rearranging `sortFn` that
`decide` can evaluate): the write-back lands every record at `BUF_ADDR(ar, i)` and keeps `Inv`. -/
example :
    let a : ArraySized := { dataLen := 2, size := 3, capacity := 4, grow := fun c => 2 * c,
                            buf := [3, 0, 2, 0, 1, 0, 205, 205] }
    a.Inv ∧ (a.sort List.reverse {}).1.abs = [[1, 0], [2, 0], [3, 0]] ∧ (a.sort List.reverse {}).1.Inv ∧
    (a.sort List.reverse {}).1.buf = [1, 0, 2, 0, 3, 0, 205, 205] ∧ (a.sort List.reverse {}).2.fault = false := by decide

end CC.Properties.C18Sized
