import CollectionsC.Properties.C01Sized
import CollectionsC.Proofs.ArraySized8
/-! # C18 (sized array part) — sorting yields an ordered permutation

Statements only, relative to the `qsort` contract: `cc_array_sized_sort` hands the buffer, the
element count and the record size to the C library's `qsort`; `sortFn` stands for what `qsort` does
to the sequence of records (assumed: a rearrangement in which no record compares greater than its
successor).  The model writes `sortFn abs` back record by record at `BUF_ADDR(ar, i)`. -/
namespace CC.Properties.C18Sized
open CC CC.Gen CC.ArraySized

/-- **sort_ordered_permutation**: same multiset of records, pairwise ordered, size and
configuration unchanged, invariant kept -/
theorem sort_ordered_permutation (a : ArraySized) (sortFn : List Elem → List Elem) (gt : Elem → Elem → Prop)
    (h : a.Inv) (hperm : ∀ l, (sortFn l).Perm l) (hsorted : ∀ l, (sortFn l).Pairwise (fun x y => ¬ gt x y)) :
    (a.sort sortFn).abs.Perm a.abs ∧ (a.sort sortFn).abs.Pairwise (fun x y => ¬ gt x y) ∧
    (a.sort sortFn).Inv ∧ (a.sort sortFn).size = a.size :=
  C01Sized.C18_sized_sort a sortFn gt h hperm hsorted

/-- the ends are consistent with the content: first and last record of the result are the first and
last of `sortFn abs`, capacity and element size are untouched -/
theorem sort_configuration (a : ArraySized) (sortFn : List Elem → List Elem) (h : a.Inv)
    (hperm : ∀ l, (sortFn l).Perm l) :
    (a.sort sortFn).abs = sortFn a.abs ∧ (a.sort sortFn).capacity = a.capacity ∧
    (a.sort sortFn).dataLen = a.dataLen ∧ (a.sort sortFn).abs.length = a.size := by
  obtain ⟨_, s2, s3, _, s5, s6⟩ := sort_spec a sortFn h (hperm a.abs)
  exact ⟨s2, s5, s3, by rw [abs_length, s6]⟩

/-- sorting an empty or single-element array changes nothing -/
theorem sort_identity_le_one (a : ArraySized) (sortFn : List Elem → List Elem) (h : a.Inv)
    (hperm : ∀ l, (sortFn l).Perm l) (h1 : a.size ≤ 1) : (a.sort sortFn).abs = a.abs :=
  sort_le_one a sortFn h hperm h1

/-! Non-vacuity of the `qsort` contract: `List.mergeSort` with the total preorder "first byte ≤ first
byte" (not injective: ties) returns a permutation that is pairwise ordered, i.e. satisfies `hperm`
and `hsorted` (with `gt x y := ¬ le x y`). -/
example : ∀ l : List Elem, (l.mergeSort (fun x y => decide (x.headD 0 ≤ y.headD 0))).Perm l :=
  fun l => List.mergeSort_perm l _
example : ∀ l : List Elem, (l.mergeSort (fun x y => decide (x.headD 0 ≤ y.headD 0))).Pairwise
    (fun x y => ¬ ¬ (decide (x.headD 0 ≤ y.headD 0) = true)) := by
  intro l
  have := List.pairwise_mergeSort (le := fun (x y : Elem) => decide (x.headD 0 ≤ y.headD 0))
    (by intro a b c h1 h2; simp only [decide_eq_true_eq] at *; omega)
    (by intro a b; simp only [Bool.or_eq_true, decide_eq_true_eq]; omega) l
  exact this.imp (fun h hn => hn h)

/-! … and a concrete `Inv` state whose records are put in order (here by a rearranging `sortFn` that
`decide` can evaluate): the write-back lands every record at `BUF_ADDR(ar, i)` and keeps `Inv`. -/
example :
    let a : ArraySized := { dataLen := 2, size := 3, capacity := 4, grow := fun c => 2 * c,
                            buf := [3, 0, 2, 0, 1, 0, 205, 205] }
    a.Inv ∧ (a.sort List.reverse).abs = [[1, 0], [2, 0], [3, 0]] ∧ (a.sort List.reverse).Inv ∧
    (a.sort List.reverse).buf = [1, 0, 2, 0, 3, 0, 205, 205] := by decide

end CC.Properties.C18Sized
