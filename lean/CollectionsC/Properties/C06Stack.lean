import CollectionsC.Properties.C09Stack
import CollectionsC.Proofs.StackMem
/-! # C06 (stack part) — memory safety and leak freedom of `CC_Stack`

Statements only.  A stack owns three blocks (its header and the two blocks of the inner array).
(a) no call sets `Mem.fault` from a state satisfying the invariant, per call and over histories;
(b) push/pop/peek/size keep `live`; `cc_stack_filter` adds exactly the three blocks of the result or
nothing; constructor → any history → destroy returns `live` to its initial value, for every refusal
schedule; (c) `cc_stack_destroy_cb` and `cc_stack_map` hand every live element to the callback exactly
once, bottom to top. -/
namespace CC.Properties.C06Stack
open CC
open CC.Spec.Seq (SOp Out)

theorem step_nofault_ledger (s : Stack) (op : SOp) (m : Mem) (hinv : s.Inv) :
    (s.step op m).2.2.fault = m.fault ∧ (s.step op m).2.2.live = m.live ∧ (s.step op m).2.1.Inv := by
  obtain ⟨_, _, _, s4, s5, s6, _⟩ := C09Stack.step_refines s op m hinv
  exact ⟨s6, s5, s4⟩

theorem history_nofault (ops : List SOp) (s : Stack) (m : Mem) (hinv : s.Inv)
    (hf : m.fault = false) : (s.run ops m).2.2.fault = false ∧ (s.run ops m).2.1.Inv := by
  obtain ⟨_, _, h3, _, h5⟩ := C09Stack.history_refines ops s m hinv
  exact ⟨by rw [h5]; exact hf, h3⟩

theorem history_ledger (ops : List SOp) (s : Stack) (m : Mem) (hinv : s.Inv) :
    (s.run ops m).2.2.live = m.live := (C09Stack.history_refines ops s m hinv).2.2.2.1

/-- **no leak**: construct, run any interleaving under any refusal schedule, destroy -/
theorem destroy_releases_all (cap : Nat) (grow : Nat → Nat) (exGe : Nat → Bool) (m0 : Mem) (s0 : Stack)
    (hnew : (Stack.new cap grow exGe m0).2.1 = some s0) (ops : List SOp) :
    let r := s0.run ops (Stack.new cap grow exGe m0).2.2
    (r.2.1.destroy r.2.2).live = m0.live ∧ (r.2.1.destroy r.2.2).fault = m0.fault := by
  intro r
  obtain ⟨_, _, _, h4, h5⟩ := C09Stack.new_history_refines cap grow exGe m0 s0 hnew ops
  obtain ⟨d1, d2⟩ := Stack.destroy_spec r.2.1 r.2.2 (by show 3 ≤ (s0.run ops _).2.2.live; omega)
  exact ⟨by rw [d1]; show (s0.run ops _).2.2.live - 3 = _; omega, by rw [d2]; exact h5⟩

/-- a failed construction (refusal of any of the three requests, or an invalid capacity) leaves
nothing behind -/
theorem new_failed_leaves_nothing (cap : Nat) (grow : Nat → Nat) (exGe : Nat → Bool) (m : Mem)
    (h : (Stack.new cap grow exGe m).2.1 = none) :
    (Stack.new cap grow exGe m).2.2.live = m.live ∧ (Stack.new cap grow exGe m).2.2.fault = m.fault := by
  rcases Stack.new_spec cap grow exGe m with ⟨_, _, s3, s4⟩ | ⟨_, r, h1, _⟩
  · exact ⟨s3, s4⟩
  · rw [h1] at h; simp at h

/-- `cc_stack_filter`: three new blocks with the result, none without; never a fault -/
theorem filter_ledger (p : Nat → Bool) (s : Stack) (dgrow : Nat → Nat) (dexGe : Nat → Bool) (m : Mem) (hinv : s.Inv) :
    (s.filter p dgrow dexGe m).2.2.2.live = m.live + (if (s.filter p dgrow dexGe m).2.1.isSome then 3 else 0) ∧
    (s.filter p dgrow dexGe m).2.2.2.fault = m.fault := by
  rcases Stack.filter_spec p s dgrow dexGe m hinv with ⟨_, _, s2, s3⟩ | ⟨_, _, s2, s3, s4⟩ | ⟨_, _, r, h1, _, _, _, _, s3, s4⟩
  · rw [s2, s3]; simp
  · rw [s2]; simp [s3, s4]
  · rw [h1]; simp [s3, s4]

theorem destroy_ledger (s : Stack) (m : Mem) (hlive : 3 ≤ m.live) :
    (s.destroy m).live = m.live - 3 ∧ (s.destroy m).fault = m.fault := Stack.destroy_spec s m

/-- (c) `cc_stack_destroy_cb`: every live element exactly once, bottom to top, then all three
blocks released (the header through the configured allocator — Q2) -/
theorem destroy_cb_visits_each_once (s : Stack) (m : Mem) (hinv : s.Inv) (hlive : 3 ≤ m.live) :
    (s.destroyCb m).1 = s.abs ∧ (s.destroyCb m).2.live = m.live - 3 ∧ (s.destroyCb m).2.fault = m.fault :=
  Stack.destroyCb_spec s m hinv

/-- (c) `cc_stack_map`, and the predicate calls of `cc_stack_filter` -/
theorem map_visits_each_once (s : Stack) (m : Mem) (hinv : s.Inv) : (s.map m).1 = s.abs ∧ (s.map m).2 = m :=
  Arr.map_spec s.v m hinv

/-- iteration and zip iteration read only allocated slots and touch no block -/
theorem iter_nofault (s t : Stack) (it : ArrIter) (c : Spec.Seq.Cursor) (z : Spec.Seq.ZipCursor) (x y : Nat) (m : Mem)
    (hs : s.Inv) (ht : t.Inv) (h1 : Arr.Sim s.v it c) (h2 : Arr.ZSim s.v t.v it z) :
    (s.iterNext it m).2.2.2 = m ∧ (s.iterReplace it x m).2.2.2 = m ∧
    (Stack.zipNext s t it m).2.2.2 = m ∧ (Stack.zipReplace s t it x y m).2.2.2.2 = m :=
  ⟨(C09Stack.iter_next_sim s it c m hs h1).2.2.2, (C09Stack.iter_replace_sim s it c x m hs h1).2.2.2,
   (C09Stack.zip_next_sim s t it z m hs ht h2).2.2.2, (C09Stack.zip_replace_sim s t it z x y m hs ht h2).2.2.2⟩

end CC.Properties.C06Stack
