import CollectionsC.Properties.C09Stack
import CollectionsC.Proofs.StackMem
/-! # C06 (stack part) — memory safety and leak freedom of `CC_Stack`

Statements only.  A stack owns three blocks of its allocator triple (its header and the two blocks
of the inner array; `Stack.Coh`: header and array share the triple, as `cc_stack_new_conf` sets up).
(a) no call sets `Mem.fault` from a state satisfying the invariant, per call and over histories;
(b) push/pop/peek/size keep the triple's block counter and never touch the other allocator;
`cc_stack_filter` adds exactly the three blocks of the result (source's triple) or nothing;
constructor → any history → destroy returns the counter to its initial value, for every refusal
schedule; (c) `cc_stack_destroy_cb` and `cc_stack_map` hand every live element to the callback exactly
once, bottom to top. -/
namespace CC.Properties.C06Stack
open CC
open CC.Spec.Seq (SOp Out)

theorem step_nofault_ledger (s : Stack) (op : SOp) (m : Mem) (hinv : s.Inv) :
    (s.step op m).2.2.fault = m.fault ∧ Arr.own s.v.triple (s.step op m).2.2 = Arr.own s.v.triple m ∧
    Arr.Foreign s.v.triple m (s.step op m).2.2 ∧ (s.step op m).2.1.Inv := by
  obtain ⟨_, _, _, s4, _, s6, _⟩ := C09Stack.step_refines s op m hinv
  obtain ⟨l1, l2, _⟩ := Stack.step_led s op m hinv
  exact ⟨s6, by simpa using l1, l2, s4⟩

theorem history_nofault (ops : List SOp) (s : Stack) (m : Mem) (hinv : s.Inv)
    (hf : m.fault = false) : (s.run ops m).2.2.fault = false ∧ (s.run ops m).2.1.Inv := by
  obtain ⟨_, _, h3, _, h5⟩ := C09Stack.history_refines ops s m hinv
  exact ⟨by rw [h5]; exact hf, h3⟩

theorem history_ledger (ops : List SOp) (s : Stack) (m : Mem) (hinv : s.Inv) :
    Arr.own s.v.triple (s.run ops m).2.2 = Arr.own s.v.triple m ∧ Arr.Foreign s.v.triple m (s.run ops m).2.2 :=
  ⟨(Stack.run_led ops s m hinv).1, (Stack.run_led ops s m hinv).2.1⟩

/-- **no leak**: construct (either triple), run any interleaving under any refusal schedule, destroy -/
theorem destroy_releases_all (cap : Nat) (grow : Nat → Nat) (exGe : Nat → Bool) (m0 : Mem) (t : Triple) (s0 : Stack)
    (hnew : (Stack.new cap grow exGe m0 t).2.1 = some s0) (ops : List SOp) :
    let r := s0.run ops (Stack.new cap grow exGe m0 t).2.2
    Arr.own t (r.2.1.destroy r.2.2) = Arr.own t m0 ∧ (r.2.1.destroy r.2.2).fault = m0.fault := by
  intro r
  obtain ⟨_, _, _, h4, h5, h6, h7⟩ := C09Stack.new_history_refines cap grow exGe m0 t s0 hnew ops
  have h7' : r.2.1.triple = t := h7
  obtain ⟨d1, d2⟩ := Stack.destroy_spec r.2.1 r.2.2 h6 (by rw [h7']; show 3 ≤ Arr.own t (s0.run ops _).2.2; omega)
  rw [h7'] at d1
  exact ⟨by rw [d1]; show Arr.own t (s0.run ops _).2.2 - 3 = _; omega, by rw [d2]; exact h5⟩

/-- a failed construction (refusal of any of the three requests, or an invalid capacity) leaves
nothing behind -/
theorem new_failed_leaves_nothing (cap : Nat) (grow : Nat → Nat) (exGe : Nat → Bool) (m : Mem) (t : Triple)
    (h : (Stack.new cap grow exGe m t).2.1 = none) :
    Arr.own t (Stack.new cap grow exGe m t).2.2 = Arr.own t m ∧ (Stack.new cap grow exGe m t).2.2.fault = m.fault := by
  rcases Stack.new_spec cap grow exGe m t with ⟨_, _, s3, s4⟩ | ⟨_, r, h1, _⟩
  · exact ⟨s3, s4⟩
  · rw [h1] at h; simp at h

/-- `cc_stack_filter`: three new blocks of the source's triple with the result, none without; the
other allocator untouched; never a fault -/
theorem filter_ledger (p : Nat → Bool) (s : Stack) (dgrow : Nat → Nat) (dexGe : Nat → Bool) (m : Mem) (hinv : s.Inv) :
    Arr.own s.triple (s.filter p dgrow dexGe m).2.2.2 =
      Arr.own s.triple m + (if (s.filter p dgrow dexGe m).1 = .ok then 3 else 0) ∧
    Arr.Foreign s.triple m (s.filter p dgrow dexGe m).2.2.2 ∧
    (s.filter p dgrow dexGe m).2.2.2.fault = m.fault := by
  refine ⟨(Stack.filter_led p s dgrow dexGe m).1, (Stack.filter_led p s dgrow dexGe m).2.1, ?_⟩
  rcases Stack.filter_spec p s dgrow dexGe m hinv with ⟨_, _, _, s3⟩ | ⟨_, _, _, _, s4⟩ | ⟨_, _, r, _, _, _, _, _, _, s4⟩
  · rw [s3]
  · exact s4
  · exact s4

theorem destroy_ledger (s : Stack) (m : Mem) (hc : s.Coh) (hlive : 3 ≤ Arr.own s.triple m) :
    Arr.own s.triple (s.destroy m) = Arr.own s.triple m - 3 ∧ (s.destroy m).fault = m.fault ∧
    Arr.Foreign s.triple m (s.destroy m) :=
  ⟨(Stack.destroy_spec s m hc hlive).1, (Stack.destroy_spec s m hc hlive).2, Stack.destroy_foreign s m hc⟩

/-- (c) `cc_stack_destroy_cb`: every live element exactly once, bottom to top, then all three
blocks released (the header through the stack's own triple — Q2) -/
theorem destroy_cb_visits_each_once (s : Stack) (m : Mem) (hinv : s.Inv) (hc : s.Coh) (hlive : 3 ≤ Arr.own s.triple m) :
    (s.destroyCb m).1 = s.abs ∧ Arr.own s.triple (s.destroyCb m).2 = Arr.own s.triple m - 3 ∧
    (s.destroyCb m).2.fault = m.fault :=
  Stack.destroyCb_spec s m hinv hc hlive

/-- (c) `cc_stack_map`, and the predicate calls of `cc_stack_filter` -/
theorem map_visits_each_once (s : Stack) (m : Mem) (hinv : s.Inv) : (s.map m).1 = s.abs ∧ (s.map m).2 = m :=
  Arr.map_spec s.v m hinv

/-- iteration and zip iteration read only allocated slots and touch no block -/
theorem iter_nofault (s t : Stack) (it : ArrIter) (c : Spec.Seq.Cursor) (z : Spec.Seq.ZipCursor) (x y : Nat) (m : Mem)
    (hs : s.Inv) (ht : t.Inv) (h1 : Arr.Sim s.v it c) (h2 : Arr.ZSim s.v t.v it z) :
    (s.iterNext it m).2.2.2 = m ∧ (s.iterReplace it x m).2.2.2 = m ∧
    (Stack.zipNext s t it m).2.2.2 = m ∧ (Stack.zipReplace s t it x y m).2.2.2.2 = m :=
  ⟨(C09Stack.iter_next_sim s it c m hs h1).2.2.2, (C09Stack.iter_replace_sim s it c x m hs h1).2.2.2,
   (C09Stack.zip_next_sim s t it z m hs ht h2).2.2.2, (C09Stack.zip_replace_sim s t it z x y m hs ht h2).2.2.2⟩

/-! Non-vacuity: a stack on the configured triple, eleven pushes (three growth steps), a filter and
the destruction of both stacks: the configured counter returns to zero, the C library is never used. -/
example :
    ((Stack.new 2 (fun c => 2 * c) (fun _ => false) {} .conf).2.1.map fun s =>
      let h := s.run ((List.range 11).map fun i => SOp.push (2 * i)) (Stack.new 2 (fun c => 2 * c) (fun _ => false) {} .conf).2.2
      let f := h.2.1.filter (fun v => v % 4 == 0) (fun c => 2 * c) (fun _ => false) h.2.2
      (h.2.1.abs.length, h.2.2.live, f.1 == Stat.ok, f.2.2.2.live, f.2.2.2.liveLibc, f.2.2.2.fault)) =
    some (11, 3, true, 6, 0, false) := by
  decide

example :
    ((Stack.new 2 (fun c => 2 * c) (fun _ => false) {} .conf).2.1.bind fun s =>
      let h := s.run ((List.range 11).map fun i => SOp.push (2 * i)) (Stack.new 2 (fun c => 2 * c) (fun _ => false) {} .conf).2.2
      let f := h.2.1.filter (fun v => v % 4 == 0) (fun c => 2 * c) (fun _ => false) h.2.2
      f.2.1.map fun g => ((g.destroy (h.2.1.destroy f.2.2.2)).live, g.abs)) =
    some (0, [0, 4, 8, 12, 16, 20]) := by
  decide

end CC.Properties.C06Stack
