import CollectionsC.Properties.C10
import CollectionsC.Proofs.PQueueCross
import CollectionsC.Proofs.PQueueGeometric
/-! # C20 (priority queue part): growth and capacity invariants -/
namespace CC.Properties.C20PQueue
open CC CC.Spec
open CC.Spec.PQ (Op Out)

/-- in every state satisfying the invariant: `size ≤ capacity`, the buffer block has exactly
`capacity` slots, the capacity is at least 1 and its byte size `capacity * sizeof(void*)` is
representable (`capacity ≤ CC_MAX_ELEMENTS / sizeof(void*)`) -/
theorem size_le_capacity (cmp : Nat → Nat → Int) (q : PQueue) (h : PQueue.Inv' cmp q) :
    q.size ≤ q.capacity ∧ q.buf.length = q.capacity ∧ 1 ≤ q.capacity ∧
    q.capacity ≤ Gen.CC_MAX_ELEMENTS / PQueue.ptrSize :=
  ⟨h.1.1, h.1.2.1.symm, h.1.2.2.1, h.2⟩

/-- … and these hold in every state reachable from the constructor by any history, for every growth
law and every refusal schedule -/
theorem reachable_size_le_capacity {cmp : Nat → Nat → Int} (tp : TotalPreorder cmp) (grow : Nat → Nat)
    (cap : Nat) (exGe : Nat → Bool) (t : Triple) (m0 : Mem) (q0 : PQueue)
    (hnew : (PQueue.new cap exGe t m0).2.1 = some q0) (ops : List Op) :
    let q := (PQueue.run cmp grow q0 ops (PQueue.new cap exGe t m0).2.2).2.1
    q.size ≤ q.capacity ∧ q.buf.length = q.capacity ∧ 1 ≤ q.capacity ∧
    q.capacity ≤ Gen.CC_MAX_ELEMENTS / PQueue.ptrSize :=
  size_le_capacity cmp _ (C10.new_history_refines tp grow cap exGe t m0 q0 hnew ops).2.1

/-- **growth is strict**, whatever the growth law answers (a float product that makes no progress
falls back to `capacity + 1`): a successful `expand_capacity` strictly increases the capacity, keeps
the size and the first `size` slots, and the new byte size does not wrap -/
theorem growth_strict (cmp : Nat → Nat → Int) (grow : Nat → Nat) (q : PQueue) (m : Mem)
    (h : PQueue.Inv' cmp q) (hl : 0 < m.liveT q.triple) (hok : (PQueue.expandCapacity grow q m).1 = .ok) :
    q.capacity < (PQueue.expandCapacity grow q m).2.1.capacity ∧
    (PQueue.expandCapacity grow q m).2.1.size = q.size ∧
    (∀ j, j < q.size → (PQueue.expandCapacity grow q m).2.1.buf.get j = q.buf.get j) ∧
    (PQueue.expandCapacity grow q m).2.1.capacity * PQueue.ptrSize < 2 ^ 64 := by
  obtain ⟨_, e2, e3, _, e5, _⟩ := PQueue.expand_spec_get cmp grow q m h hl hok
  exact ⟨e3, e2, e5, PQueue.expand_ok_bytes grow q m hok⟩

/-- a push never shrinks the capacity; it changes it only when the queue is full -/
theorem capacity_monotone {cmp : Nat → Nat → Int} (tp : TotalPreorder cmp) (grow : Nat → Nat)
    (q : PQueue) (x : Nat) (m : Mem) (h : PQueue.Inv' cmp q) (hl : 0 < m.liveT q.triple) :
    q.capacity ≤ (PQueue.push cmp grow q x m).2.1.capacity ∧
    (q.size < q.capacity → (PQueue.push cmp grow q x m).2.1.capacity = q.capacity ∧ (PQueue.push cmp grow q x m).2.2 = m) := by
  rw [PQueue.push_eq]
  by_cases hfull : q.size ≥ q.capacity
  · simp only [hfull, if_true]
    rcases PQueue.expand_spec cmp grow q m h hl with ⟨e1, e2, e3, e4, _⟩ | ⟨e1, e2, _⟩
    · have : ((PQueue.expandCapacity grow q m).1 != .ok) = false := by rw [e1]; rfl
      simp only [this, Bool.false_eq_true, if_false]
      have hroom : (PQueue.expandCapacity grow q m).2.1.size < (PQueue.expandCapacity grow q m).2.1.capacity := by
        have := h.1.1; omega
      rw [(PQueue.storeSift_spec tp _ x (PQueue.expandCapacity grow q m).2.2 e2 hroom).2.2.2.2.1]
      exact ⟨by omega, fun hh => by omega⟩
    · have : ((PQueue.expandCapacity grow q m).1 != .ok) = true := by
        rcases e1 with ⟨e1, _⟩ | e1 <;> rw [e1] <;> rfl
      simp only [this, if_true]
      rw [e2]; exact ⟨Nat.le_refl _, fun hh => by omega⟩
  · simp only [hfull, if_false]
    have hs := PQueue.storeSift_spec tp q x m h (by omega)
    rw [hs.2.2.2.2.1, hs.2.2.2.2.2]
    exact ⟨Nat.le_refl _, fun _ => ⟨rfl, rfl⟩⟩

/-- **O(log n) re-allocations**: with a growth law that at least doubles **on the capacities below
the final size** (the shipped `(size_t)((float)c * 2.0f)` does so as long as the capacities are
representable as `float`, i.e. below `2^24 + 1`; a global `∀ c, 2c ≤ grow c` is met by no
`size_t`-valued function), pushing any `n` elements onto a queue holding `size` elements performs at
most `log2 (size + n) + 1` successful allocator calls — counted on the queue's own triple
(`nalloc` for `cc_pqueue_new_conf`, `lalloc` for `cc_pqueue_new`), for every refusal schedule.
`hl` is ledger consistency: the queue's blocks are live (constructor establishes, steps preserve). -/
theorem appends_realloc_log {cmp : Nat → Nat → Int} (tp : TotalPreorder cmp) (grow : Nat → Nat)
    (q : PQueue) (xs : List Nat) (m : Mem) (hd : ∀ c, c < q.size + xs.length → 2 * c ≤ grow c)
    (h : PQueue.Inv' cmp q) (hl : 2 ≤ m.liveT q.triple) :
    (PQueue.pushAll cmp grow q xs m).2.allocsT q.triple - m.allocsT q.triple ≤ Nat.log2 (q.size + xs.length) + 1 :=
  PQueue.pushAll_realloc_log tp grow q xs m hd h (by omega)

/-- **every expansion factor > 1**: a growth law that multiplies the capacities below the final size
by at least `1 + 1/k` (`c + c / k ≤ grow c`: `k = 2` for the factor 1.5, `k = 10` for 1.1), falling
back to `capacity + 1` where the product makes no progress, costs at most
`2k · (log2 (size + n) + 2)` successful allocator calls on `n` pushes — on either triple, for every
refusal schedule (port of `C20Array.appends_realloc_geometric`) -/
theorem appends_realloc_geometric {cmp : Nat → Nat → Int} (tp : TotalPreorder cmp) (grow : Nat → Nat)
    (k : Nat) (hk : 1 ≤ k) (q : PQueue) (xs : List Nat) (m : Mem) (h : PQueue.Inv' cmp q)
    (hl : 2 ≤ m.liveT q.triple) (hd : ∀ c, c < q.size + xs.length → c + c / k ≤ grow c) :
    (PQueue.pushAll cmp grow q xs m).2.allocsT q.triple - m.allocsT q.triple ≤ 2 * k * (Nat.log2 (q.size + xs.length) + 2) :=
  PQueue.pushAll_realloc_geometric tp grow k hk q xs m h (by omega) hd

/-- the successive capacities are the iterates of `capStep grow` (the product, or `capacity + 1`),
one per successful allocation, each growth step taken at a capacity below `size + n` — for every
growth law, refusal schedule and triple -/
theorem appends_capacity_chain {cmp : Nat → Nat → Int} (tp : TotalPreorder cmp) (grow : Nat → Nat)
    (q : PQueue) (xs : List Nat) (m : Mem) (h : PQueue.Inv' cmp q) (hl : 2 ≤ m.liveT q.triple) :
    ∃ r, (PQueue.pushAll cmp grow q xs m).2.allocsT q.triple = m.allocsT q.triple + r ∧
      (PQueue.pushAll cmp grow q xs m).1.capacity = PQueue.capIter (PQueue.capStep grow) r q.capacity ∧
      (∀ j, j < r → PQueue.capIter (PQueue.capStep grow) j q.capacity < q.size + xs.length) := by
  obtain ⟨r, h1, h2, h3, _⟩ := PQueue.pushAll_chain tp grow q.triple xs q m h rfl (by omega)
  exact ⟨r, h1, h2, h3⟩

/-- from the constructor the ledger hypothesis is discharged: the bounds hold for the queue
`cc_pqueue_new_conf`/`cc_pqueue_new` returns, on its own triple -/
theorem new_appends_realloc_geometric {cmp : Nat → Nat → Int} (tp : TotalPreorder cmp) (grow : Nat → Nat)
    (k : Nat) (hk : 1 ≤ k) (cap : Nat) (exGe : Nat → Bool) (t : Triple) (m0 : Mem) (q0 : PQueue)
    (hnew : (PQueue.new cap exGe t m0).2.1 = some q0) (xs : List Nat) (hd : ∀ c, c < xs.length → c + c / k ≤ grow c) :
    let m1 := (PQueue.new cap exGe t m0).2.2
    (PQueue.pushAll cmp grow q0 xs m1).2.allocsT t - m1.allocsT t ≤ 2 * k * (Nat.log2 xs.length + 2) := by
  intro m1
  rcases PQueue.new_spec cmp cap exGe t m0 with ⟨_, e, _⟩ | ⟨_, e, _⟩ | ⟨q, _, e, hinv, habs, _, htr, hlive, _⟩
  · rw [e] at hnew; cases hnew
  · rw [e] at hnew; cases hnew
  · rw [e] at hnew
    have hq : q = q0 := Option.some.inj hnew
    subst hq
    have hsz : q.size = 0 := by
      have : q.abs.length = 0 := by rw [habs]; rfl
      simpa [PQueue.abs] using this
    have := appends_realloc_geometric tp grow k hk q xs m1 hinv (by rw [htr]; simp only [m1]; omega)
      (by rw [hsz]; simpa using hd)
    rw [htr, hsz] at this
    simpa using this

/-! Non-vacuity of the hypothesis of `appends_realloc_geometric`: the factor 1.5 (`k = 2`) and the
factor 1.1 (`k = 10`), as integer growth laws -/
example : (∀ c, c + c / 2 ≤ (fun c => c * 3 / 2) c) ∧ (∀ c, c + c / 10 ≤ (fun c => c * 11 / 10) c) := by
  constructor <;> intro c <;> simp only <;> omega

/-! Non-vacuity of the whole hypothesis bundle of `appends_realloc_log`: a comparator that is a total
preorder, the growth law `c ↦ 2c` (which satisfies the hypothesis on any range), a full heap
satisfying the invariant, a ledger in which its two blocks are live — on either triple. -/
example : TotalPreorder (keyCmp id) ∧ (∀ c, c < 3 + 5 → 2 * c ≤ (fun c => 2 * c) c) ∧
    PQueue.Inv' (keyCmp id) { size := 3, capacity := 3, buf := [9, 4, 7] } ∧
    2 ≤ ({ live := 2 } : Mem).liveT Triple.conf ∧ 2 ≤ ({ liveLibc := 2 } : Mem).liveT Triple.libc :=
  ⟨keyCmp_totalPreorder id, fun _ _ => Nat.le_refl _, ⟨by decide, by decide⟩, by decide, by decide⟩

end CC.Properties.C20PQueue
