import CollectionsC.Properties.C10
import CollectionsC.Proofs.PQueueCross
/-! # C20 (priority queue part): growth and capacity invariants -/
namespace CC.Properties.C20PQueue
open CC CC.Spec
open CC.Spec.PQ (Op Out)

/-- in every state satisfying the invariant: `size ≤ capacity`, the buffer block has exactly
`capacity` slots, the capacity is at least 1 and at most `CC_MAX_ELEMENTS` -/
theorem size_le_capacity (cmp : Nat → Nat → Int) (q : PQueue) (h : PQueue.Inv' cmp q) :
    q.size ≤ q.capacity ∧ q.buf.length = q.capacity ∧ 1 ≤ q.capacity ∧ q.capacity ≤ Gen.CC_MAX_ELEMENTS :=
  ⟨h.1.1, h.1.2.1.symm, h.1.2.2.1, h.2⟩

/-- … and these hold in every state reachable from the constructor by any history -/
theorem reachable_size_le_capacity {cmp : Nat → Nat → Int} (tp : TotalPreorder cmp) (grow : Nat → Nat)
    (hg : PQueue.GrowOk grow) (cap : Nat) (exGe : Nat → Bool) (hex : exGe 0 = true) (m0 : Mem) (q0 : PQueue)
    (hnew : (PQueue.new cap exGe m0).2.1 = some q0) (ops : List Op) :
    let q := (PQueue.run cmp grow q0 ops (PQueue.new cap exGe m0).2.2).2.1
    q.size ≤ q.capacity ∧ q.buf.length = q.capacity ∧ 1 ≤ q.capacity ∧ q.capacity ≤ Gen.CC_MAX_ELEMENTS :=
  size_le_capacity cmp _ (C10.new_history_refines tp grow hg cap exGe hex m0 q0 hnew ops).2.1

/-- **growth is strict**: a successful `expand_capacity` strictly increases the capacity, keeps the
size and the first `size` slots, and the new byte size does not wrap -/
theorem growth_strict (cmp : Nat → Nat → Int) (grow : Nat → Nat) (hg : PQueue.GrowOk grow) (q : PQueue) (m : Mem)
    (h : PQueue.Inv' cmp q) (hl : 0 < m.live) (hok : (PQueue.expandCapacity grow q m).1 = .ok) :
    q.capacity < (PQueue.expandCapacity grow q m).2.1.capacity ∧
    (PQueue.expandCapacity grow q m).2.1.size = q.size ∧
    (∀ j, j < q.size → (PQueue.expandCapacity grow q m).2.1.buf.get j = q.buf.get j) ∧
    (PQueue.expandCapacity grow q m).2.1.capacity * PQueue.ptrSize < 2 ^ 64 := by
  obtain ⟨_, e2, e3, _, e5, _⟩ := PQueue.expand_spec_get cmp grow q m hg h hl hok
  exact ⟨e3, e2, e5, PQueue.expand_ok_bytes grow q m hok⟩

/-- a step never shrinks the capacity; push grows it only when the queue is full -/
theorem capacity_monotone {cmp : Nat → Nat → Int} (tp : TotalPreorder cmp) (grow : Nat → Nat) (hg : PQueue.GrowOk grow)
    (q : PQueue) (x : Nat) (m : Mem) (h : PQueue.Inv' cmp q) (hl : 0 < m.live) :
    q.capacity ≤ (PQueue.push cmp grow q x m).2.1.capacity ∧
    (q.size < q.capacity → (PQueue.push cmp grow q x m).2.1.capacity = q.capacity ∧ (PQueue.push cmp grow q x m).2.2 = m) := by
  rcases PQueue.push_counts tp grow hg q x m h hl with ⟨_, k1, k2⟩ | ⟨_, kfull, _, _, _, k3⟩ | ⟨_, kfull, _, _, _, k3⟩
  · exact ⟨by omega, fun _ => ⟨k2, k1⟩⟩
  · have hge : q.capacity ≤ PQueue.newCapacity grow q := by
      have hc := h.2
      unfold PQueue.newCapacity; dsimp only
      split
      · split <;> omega
      · omega
    exact ⟨by omega, fun hh => by omega⟩
  · rw [k3]; exact ⟨Nat.le_refl _, fun hh => by omega⟩

/-- **O(log n) re-allocations**: with a growth law that at least doubles (the default factor 2),
pushing any `n` elements onto a queue holding `size` elements performs at most
`log2 (size + n) + 1` successful allocator calls, whatever the initial capacity ≥ 1 -/
theorem appends_realloc_log {cmp : Nat → Nat → Int} (tp : TotalPreorder cmp) (grow : Nat → Nat) (hg : PQueue.GrowOk grow)
    (hd : ∀ c, 2 * c ≤ grow c) (q : PQueue) (xs : List Nat) (m : Mem) (h : PQueue.Inv' cmp q) (hl : 0 < m.live) :
    (PQueue.pushAll cmp grow q xs m).2.nalloc - m.nalloc ≤ Nat.log2 (q.size + xs.length) + 1 :=
  PQueue.pushAll_realloc_log tp grow hg hd q xs m h hl

end CC.Properties.C20PQueue
