import CollectionsC.Properties.C19
/-! # C16 (ring buffer part): the only rejected call is dequeue on an empty buffer -/
namespace CC.Properties.C16Rbuf
open CC

/-- any step that reports an error leaves the whole physical state (and the ledger) unchanged -/
theorem error_is_inert (r : Rbuf) (op : Spec.Fifo.Op) (m : Mem) (st : Stat)
    (h : (r.step op m).1.st = some st) (he : st ≠ .ok) :
    (r.step op m).2.1 = r ∧ (r.step op m).2.2 = m := by
  cases op with
  | enqueue x => simp [Rbuf.step] at h
  | dequeue =>
    simp only [Rbuf.step, Rbuf.dequeue] at h ⊢
    split at h
    · simp_all
    · simp at h; exact absurd h.symm he

/-- dequeue on an empty buffer is rejected -/
theorem empty_rejected (r : Rbuf) (m : Mem) (h : r.size = 0) : (r.dequeue m).1 = .errOutOfRange := by
  simp [Rbuf.dequeue, h]

/-- `cc_rbuf_peek` with an index outside `[0, capacity)` (negative included) returns 0 without
touching the buffer; inside the range it reads an allocated slot (no fault under the invariant) -/
theorem peek_out_of_range (r : Rbuf) (i : Int) (m : Mem) (h : i < 0 ∨ (r.cap : Int) ≤ i) :
    r.peek i m = (0, m) := by
  unfold Rbuf.peek
  have : i < 0 ∨ r.cap ≤ i.toNat := by
    rcases h with h | h
    · exact Or.inl h
    · right; omega
  simp [this]

theorem peek_in_range_nofault (r : Rbuf) (i : Int) (m : Mem) (hinv : r.Inv) (h0 : 0 ≤ i) (h1 : i < r.cap) :
    (r.peek i m).2 = m ∧ (r.peek i m).1 = r.buf.get i.toNat := by
  obtain ⟨_, hl, _⟩ := hinv
  unfold Rbuf.peek
  have : ¬ (i < 0 ∨ r.cap ≤ i.toNat) := by omega
  have hb : decide (i.toNat < r.buf.length) = true := by simp; omega
  simp [this, hb]

end CC.Properties.C16Rbuf
