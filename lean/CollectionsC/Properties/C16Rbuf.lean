import CollectionsC.Properties.C19
/-! # C16 (ring buffer part): the only rejected call is dequeue on an empty buffer -/
namespace CC.Properties.C16Rbuf
open CC

/-- any step that reports an error leaves the whole physical state (and the ledger) unchanged -/
theorem error_is_inert (r : Rbuf) (op : Spec.Fifo.Op) (m : Mem) (st : Stat)
    (h : (r.step op m).1.st = some st) (he : st ≠ .ok) :
    (r.step op m).2.1 = r ∧ (r.step op m).2.2 = m := by
  cases op with
  | enqueue x => simp [Rbuf.step] at h
  | dequeue =>
    simp only [Rbuf.step, Rbuf.dequeue] at h ⊢
    split at h
    · simp_all
    · simp at h; exact absurd h.symm he

/-- dequeue on an empty buffer is rejected -/
theorem empty_rejected (r : Rbuf) (m : Mem) (h : r.size = 0) : (r.dequeue m).1 = .errOutOfRange := by
  simp [Rbuf.dequeue, h]

end CC.Properties.C16Rbuf
