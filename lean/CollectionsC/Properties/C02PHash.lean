import CollectionsC.Proofs.PHashWF
import CollectionsC.Proofs.PHashSet
import CollectionsC.Properties.C02
/-! # C02 (pointer level) — the raw `next` links and the bucket array of CC_HashTable

`Properties/C02.lean` works on the bucket-list model `CC.HashTable`, in which a chain *is* a `List Entry`: that a chain is
acyclic, NULL-terminated and disjoint from the other chains is true there by the shape of the state.  This file closes that
gap for `src/cc_hashtable.c`.  `Model/PHash.lean` is a **pointer-level** model: a heap of `TableEntry` nodes (`key`, `value`,
`hash`, raw `next` id), the bucket array of head ids, an allocation counter handing out entry ids; `cc_hashtable_add` /
`add_null_key` (chain scan, `replace->value = val`, head insertion), `get`, `remove` / `remove_null_key` (scan with the `prev`
pointer, `table->buckets[i] = next` or `prev->next = next`, release), `resize` with `move_entries` (the relinking loop
`next = e->next; e->next = dest[idx]; dest[idx] = e; e = next`), `remove_all`, `destroy` and the iterator (`bucket_index`,
`prev_entry`, `next_entry` as ids) are the pointer surgery of the C text.  Chain loops take `fresh` (number of ids ever
handed out) as fuel; running out of fuel faults.

Proved here (statements and closing proofs only; helpers: `Proofs/PHashBase.lean`, `PHash.lean`, `PHashResize.lean`,
`PHashClear.lean`, `PHashIter.lean`, `PHashWF.lean`):
* `WF` and what it means node by node (`wf_means`): every bucket heads a NULL-terminated chain of live entries, no entry occurs
  twice in all chains together (acyclic, pairwise disjoint), every live entry is in a chain (hence in exactly one), in the
  bucket its cached hash selects, the cached hash is the hash of the key, no two live entries carry the same key;
* every operation preserves `WF` and **commutes with the bucket-list model**: reading the table off the heap (`toTable`, i.e.
  `toBuckets` per slot) after the pointer operation is the bucket-list operation on the table read before, with the same
  status, out-value and ledger — hence, by `C02`, the pointer-level histories refine the ideal map (`history_refines_ideal`);
* `remove` releases exactly the entry it unlinked and touches key/value/hash of no other (`remove_frees_exactly_unlinked`);
  `add` allocates at most the entry with the next serial number and releases none (`add_allocates_at_most_one`); `resize`
  allocates the new bucket array, releases the old one, and relinks every entry without allocating, releasing or changing one
  (`resize_moves_entries_only`); `remove_all` releases every entry (`remove_all_commutes`);
* iterator (H3 at pointer level): after `iter_init`, and after any program of `iter_next` / `iter_remove` calls, the saved ids
  `prev_entry` / `next_entry` are NULL or name live entries; `iter_remove` releases exactly the entry `prev_entry` names, sets
  `prev_entry = NULL`, and is rejected when `prev_entry` is NULL; every program commutes with the iterator of the bucket-list
  model, which names entries by keys (`iter_program_commutes`).

Tie to the code: `harness/shim_hashtable.c` / `shim_hashset.c` print after every operation every entry as
`bucket:id:key:next_id` (ids = allocation order, assigned at first sight) and the iterator as `bucket_index/prev id/next id`; the
Lean drivers run `Model/PHash.lean` alongside the bucket-list model and print the same from the heap, so L3 compares link
structure and entry identity on every run, and the `inv=` flag carries `shapeOk`, `toTable pm = model`, equal ledgers and equal
iterators.  The hash *set* wrapper at pointer level (`PSet`, `Proofs/PHashSet.lean`) is proved below (`set_history_refines_ideal`,
`set_iter_program_refines_ideal`); `shapeOk` as a run-time check of `Shape` is only executed.  The hash clauses of C20 are
restated on the pointer-level model at the end (`c20_*`).

Hypotheses: `WF c t` (established by `new_establishes_wf`, preserved by everything); for the iterator `ItWF t it` (established by
`iter_init_valid`, preserved by `iter_next` / `iter_remove`, invalidated — as in C — by table mutations outside the iterator). -/
namespace CC.Properties.C02PHash
open CC CC.HT CC.Spec CC.PHash

/-- **What `WF` means node by node**: ghost id lists `idss`, one per bucket slot, such that bucket `i` heads the NULL-terminated
chain `idss[i]` of live entries (`IsChain`); no id occurs twice in all chains together (every chain is acyclic, no entry is in
two chains); the live entries are exactly the chained ones; ids come from the allocation counter; an entry of chain `i` has
`hash & (capacity-1) = i` and caches the hash of its key; no two live entries carry the same key; `size` counts the entries. -/
theorem wf_means (c : HCfg) (t : PTable) (h : WF c t) : ∃ idss : List (List Nat),
    idss.length = t.buckets.length ∧ t.buckets.length = t.capacity ∧
    (∀ i, IsChain t.heap (t.bucket i) (idss.getD i [])) ∧
    idss.flatten.Nodup ∧
    (∀ id, (t.heap.get id).isSome = true ↔ id ∈ idss.flatten) ∧
    (∀ id, id ∈ idss.flatten → id < t.fresh) ∧
    (∀ i id, id ∈ idss.getD i [] → i < t.capacity ∧ (nd t.heap id).hash &&& (t.capacity - 1) = i ∧
      (nd t.heap id).hash = keyHash c (nd t.heap id).key) ∧
    (∀ a b, (t.heap.get a).isSome = true → (t.heap.get b).isSome = true → (nd t.heap a).key = (nd t.heap b).key → a = b) ∧
    t.size = idss.flatten.length := h.means

/-- a chain (`IsChain`) is NULL-terminated and walks through live entries along the raw `next` fields: the head pointer is the
first id, the `next` field of every entry is the following id, the `next` field of the last entry is NULL -/
theorem chain_links (h : Heap) (p : Option Nat) (pre post : List Nat) (id : Nat) (hc : IsChain h p (pre ++ id :: post)) :
    (h.get id).isSome = true ∧ (nd h id).next = post.head? ∧ p = (pre ++ id :: post).head? :=
  ⟨IsSeg.live hc id (by simp), (IsChain.next_eq hc).1, IsChain.head hc⟩

/-- `cc_hashtable_new_conf` builds a well-formed table with an empty heap, and is the bucket-list constructor -/
theorem new_establishes_wf (c : HCfg) (initCap : Nat) (tr : Triple) (m : Mem) :
    ((PTable.new c initCap tr m).1, (PTable.new c initCap tr m).2.1.map PTable.toTable, (PTable.new c initCap tr m).2.2) =
        HashTable.new c initCap tr m ∧
    ∀ t, (PTable.new c initCap tr m).2.1 = some t → WF c t := new_wf c initCap tr m

/-- **add preserves WF and commutes** with `HashTable.add` (growth loop, replace in place or head insertion) -/
theorem add_commutes (c : HCfg) (t : PTable) (h : WF c t) (key : Option Nat) (v : Nat) (m : Mem) :
    WF c (t.add c key v m).2.1 ∧
    ((t.add c key v m).1, PTable.toTable (t.add c key v m).2.1, (t.add c key v m).2.2) = (PTable.toTable t).add c key v m :=
  ⟨(add_wf c h key v m).1, (add_wf c h key v m).2.1⟩

/-- `add` (including every `resize` of its growth loop) releases no entry and allocates at most the entry with the next
serial number -/
theorem add_allocates_at_most_one (c : HCfg) (t : PTable) (h : WF c t) (key : Option Nat) (v : Nat) (m : Mem) :
    (∀ id, id ≠ t.fresh → ((t.add c key v m).2.1.heap.get id).isSome = (t.heap.get id).isSome) ∧
    t.fresh ≤ (t.add c key v m).2.1.fresh ∧ (t.add c key v m).2.1.fresh ≤ t.fresh + 1 :=
  (add_wf c h key v m).2.2

/-- **get / contains_key commute** (the chain scan along `next` finds what `chainFind` finds) -/
theorem get_commutes (c : HCfg) (t : PTable) (h : WF c t) (key : Option Nat) (m : Mem) :
    t.get c key m = (PTable.toTable t).get c key m ∧ t.containsKey c key m = (PTable.toTable t).containsKey c key m :=
  ⟨get_wf c h key m, containsKey_wf c h key m⟩

/-- **remove preserves WF and commutes** with `HashTable.remove` -/
theorem remove_commutes (c : HCfg) (t : PTable) (h : WF c t) (key : Option Nat) (m : Mem) :
    WF c (t.remove c key m).2.2.1 ∧
    ((t.remove c key m).1, (t.remove c key m).2.1, PTable.toTable (t.remove c key m).2.2.1, (t.remove c key m).2.2.2) =
        (PTable.toTable t).remove c key m := remove_wf c h key m

/-- **remove frees exactly the unlinked entry**: a successful removal names a live entry `id` with the requested key; afterwards
exactly `id` is gone from the heap, key/value/hash of every other entry are untouched, no id is handed out, and the ledger
records one release through the table's triple.  An unsuccessful removal changes nothing. -/
theorem remove_frees_exactly_unlinked (c : HCfg) (t : PTable) (h : WF c t) (key : Option Nat) (m : Mem) :
    ((t.remove c key m).1 = .ok → ∃ id, (t.heap.get id).isSome = true ∧ (nd t.heap id).key = key ∧
      (∀ y, ((t.remove c key m).2.2.1.heap.get y).isSome = (decide (y ≠ id) && (t.heap.get y).isSome)) ∧
      (∀ y, y ≠ id → toEntry (nd (t.remove c key m).2.2.1.heap y) = toEntry (nd t.heap y)) ∧
      (t.remove c key m).2.2.1.fresh = t.fresh ∧ (t.remove c key m).2.2.2 = m.freeT t.triple) ∧
    ((t.remove c key m).1 ≠ .ok → (t.remove c key m).2.2.1 = t ∧ (t.remove c key m).2.2.2 = m) := by
  obtain ⟨idss, hs⟩ := h.1
  obtain ⟨_, hno, hok⟩ := PHash.remove_spec c hs key m (h.geo.index_lt _)
  refine ⟨fun hst => ?_, hno⟩
  obtain ⟨hm, idss', id, hu⟩ := hok hst
  exact ⟨id, hu.was_live, hu.key_eq, hu.live, hu.same, hu.fresh, hm⟩

/-- **resize preserves WF and commutes** with `HashTable.resize` (the call `resize(capacity << 1)` of `cc_hashtable_add`) -/
theorem resize_commutes (c : HCfg) (t : PTable) (h : WF c t) (m : Mem) :
    WF c (t.resize c (t.capacity <<< 1) m).2.1 ∧
    ((t.resize c (t.capacity <<< 1) m).1, PTable.toTable (t.resize c (t.capacity <<< 1) m).2.1,
      (t.resize c (t.capacity <<< 1) m).2.2) = (PTable.toTable t).resize c ((PTable.toTable t).capacity <<< 1) m :=
  ⟨(resize_wf c h m).1, (resize_wf c h m).2.1⟩

/-- **resize moves every entry without allocating or freeing entries**: the set of live entries, key/value/hash of every
entry and the allocation counter are unchanged; a successful resize performs exactly one allocation (the new bucket array)
and one release (the old one) through the table's triple; an unsuccessful one leaves the table alone. -/
theorem resize_moves_entries_only (c : HCfg) (t : PTable) (h : WF c t) (m : Mem) :
    (∀ y, ((t.resize c (t.capacity <<< 1) m).2.1.heap.get y).isSome = (t.heap.get y).isSome) ∧
    (∀ y, toEntry (nd (t.resize c (t.capacity <<< 1) m).2.1.heap y) = toEntry (nd t.heap y)) ∧
    (t.resize c (t.capacity <<< 1) m).2.1.fresh = t.fresh ∧
    ((t.resize c (t.capacity <<< 1) m).1 = .ok →
      (t.resize c (t.capacity <<< 1) m).2.2 = (m.allocT t.triple).2.freeT t.triple) ∧
    ((t.resize c (t.capacity <<< 1) m).1 ≠ .ok → (t.resize c (t.capacity <<< 1) m).2.1 = t) :=
  (resize_wf c h m).2.2

/-- **remove_all preserves WF, commutes**, and releases every entry (the heap is empty afterwards) -/
theorem remove_all_commutes (c : HCfg) (t : PTable) (h : WF c t) (m : Mem) :
    WF c (t.removeAll m).1 ∧
    (PTable.toTable (t.removeAll m).1, (t.removeAll m).2) = (PTable.toTable t).removeAll m ∧
    (∀ y, (t.removeAll m).1.heap.get y = none) := by
  obtain ⟨idss, hs⟩ := h.1
  exact ⟨(removeAll_wf c h m).1, (removeAll_wf c h m).2, (removeAll_spec hs h.geo.len m).2.2.1⟩

/-- **destroy commutes** (same ledger: every entry, the bucket array, the header) -/
theorem destroy_commutes (c : HCfg) (t : PTable) (h : WF c t) (m : Mem) :
    t.destroy m = (PTable.toTable t).destroy m := destroy_wf c h m

/-- **histories commute**: any history of add / get / contains_key / remove / remove_all run on the heap gives the outputs,
insertion failures and ledger of the same history on the bucket-list model, ends in the table that model ends in, and is
well-formed at the end (hence at every prefix) -/
theorem history_commutes (c : HCfg) (ops : List Map.Op) (t : PTable) (h : WF c t) (m : Mem) :
    WF c (t.run c ops m).2.2.1 ∧
    ((t.run c ops m).1, (t.run c ops m).2.1, PTable.toTable (t.run c ops m).2.2.1, (t.run c ops m).2.2.2) =
        (PTable.toTable t).run c ops m := run_wf c ops h m

/-- **pointer-level histories refine the ideal map** (`C02.history_refines` through `history_commutes`): statuses and
out-values are those of the ideal map, the entries chained on the heap at the end are the ideal map's content, the ledger is
balanced and fault-free -/
theorem history_refines_ideal (c : HCfg) (ops : List Map.Op) (t : PTable) (m : Mem) (sp : Map)
    (h : WF c t) (hl : t.size + 2 ≤ liveOf m t.triple) (hs : (PTable.toTable t).abs.Perm sp) :
    (t.run c ops m).1 = (Map.run sp ops (t.run c ops m).2.1).1 ∧
    (PTable.toTable (t.run c ops m).2.2.1).abs.Perm (Map.run sp ops (t.run c ops m).2.1).2 ∧
    WF c (t.run c ops m).2.2.1 ∧
    liveOf (t.run c ops m).2.2.2 t.triple + t.size = liveOf m t.triple + (t.run c ops m).2.2.1.size ∧
    (t.run c ops m).2.2.2.fault = m.fault := by
  obtain ⟨w, e⟩ := run_wf c ops h m
  have r := C02.history_refines c ops (PTable.toTable t) m sp h.2 hl hs
  rw [← e] at r
  exact ⟨r.1, r.2.1, w, r.2.2.2.1, r.2.2.2.2⟩

/-! ### iterator -/

/-- `iter_init`: the saved ids are valid (`next_entry` is the head of the first non-empty chain) and the iterator is the
bucket-list model's -/
theorem iter_init_valid (c : HCfg) (t : PTable) (h : WF c t) (m : Mem) :
    ItWF t (t.iterInit m).1 ∧ (t.toIter (t.iterInit m).1, (t.iterInit m).2) = (PTable.toTable t).iterInit m :=
  iterInit_wf c h m

/-- a valid iterator's saved ids are NULL or name live entries -/
theorem iter_ids_live (t : PTable) (it : PIter) (h : ItWF t it) :
    (∀ id, it.prev = some id → (t.heap.get id).isSome = true) ∧ (∀ id, it.next = some id → (t.heap.get id).isSome = true) :=
  h.live

/-- **one iterator call** (`iter_next` or `iter_remove`) preserves `WF` and validity and commutes with the call on the
bucket-list model (which names entries by their keys) -/
theorem iter_step_commutes (c : HCfg) (t : PTable) (h : WF c t) (it : PIter) (hit : ItWF t it) (op : HashTable.IterOp) (m : Mem) :
    WF c (piterStep c t it op m).2.1 ∧ ItWF (piterStep c t it op m).2.1 (piterStep c t it op m).2.2.1 ∧
    ((piterStep c t it op m).1, PTable.toTable (piterStep c t it op m).2.1,
      (piterStep c t it op m).2.1.toIter (piterStep c t it op m).2.2.1, (piterStep c t it op m).2.2.2) =
        HashTable.iterStep c (PTable.toTable t) (t.toIter it) op m := piterStep_wf c h it hit op m

/-- **H3 at pointer level.**  `iter_remove` with `prev_entry = NULL` is rejected and changes nothing.  Otherwise, when it
succeeds, the entry released is exactly the one `prev_entry` named, `prev_entry` is NULL afterwards, `next_entry` is
unchanged and still names a live entry (or is NULL), and the ledger records one release. -/
theorem iter_remove_h3 (c : HCfg) (t : PTable) (h : WF c t) (it : PIter) (hit : ItWF t it) (m : Mem) :
    (it.prev = none → t.iterRemove c it m = (.errKeyNotFound, none, t, it, m)) ∧
    ((t.iterRemove c it m).1 = .ok → ∃ id, it.prev = some id ∧
      (t.iterRemove c it m).2.2.2.1 = { it with prev := none } ∧
      (∀ y, ((t.iterRemove c it m).2.2.1.heap.get y).isSome = (decide (y ≠ id) && (t.heap.get y).isSome)) ∧
      (∀ n, it.next = some n → ((t.iterRemove c it m).2.2.1.heap.get n).isSome = true) ∧
      (t.iterRemove c it m).2.2.2.2 = m.freeT t.triple) ∧
    ((t.iterRemove c it m).1 ≠ .ok → (t.iterRemove c it m).2.2.1 = t ∧ (t.iterRemove c it m).2.2.2.1 = it ∧
      (t.iterRemove c it m).2.2.2.2 = m) := by
  obtain ⟨idss, hs, hok⟩ := hit
  have hk := keysDistinct_of_inv hs h.2
  obtain ⟨_, idss', hs', hok', hno, hyes⟩ := iterRemove_spec c hs h.geo hk it hok m
  refine ⟨fun hp => by unfold PTable.iterRemove; rw [hp], fun hst => ?_, fun hst => ?_⟩
  · obtain ⟨id, hp, hit', hm, hu⟩ := hyes hst
    refine ⟨id, hp, hit', hu.live, fun n hn => ?_, hm⟩
    have : (t.iterRemove c it m).2.2.2.1.next = some n := by rw [hit']; exact hn
    exact hs'.mem_live _ n (hok'.next_in n this)
  · obtain ⟨a, b, c', _⟩ := hno hst
    exact ⟨a, b, c'⟩

/-- **iterator programs**: any sequence of `iter_next` / `iter_remove` calls (remove before the first next, repeated remove,
remove after END included) from a valid iterator keeps the table well-formed and the saved ids valid — NULL or live — and
yields the outputs, table, iterator and ledger of the same program on the bucket-list model -/
theorem iter_program_commutes (c : HCfg) (ops : List HashTable.IterOp) (t : PTable) (h : WF c t) (it : PIter) (hit : ItWF t it) (m : Mem) :
    WF c (piterRun c ops t it m).2.1 ∧ ItWF (piterRun c ops t it m).2.1 (piterRun c ops t it m).2.2.1 ∧
    ((piterRun c ops t it m).1, PTable.toTable (piterRun c ops t it m).2.1,
      (piterRun c ops t it m).2.1.toIter (piterRun c ops t it m).2.2.1, (piterRun c ops t it m).2.2.2) =
        HashTable.iterRun c ops (PTable.toTable t) (t.toIter it) m := piterRun_wf c ops h it hit m


/-! ### the hash set at pointer level

`PSet` (`Proofs/PHashSet.lean`): `cc_hashset_add / remove / contains / remove_all / size` and the set iterator as thin calls
into the pointer-level table with the dummy value `(int*) 1`, exactly as `src/cc_hashset.c` forwards to `cc_hashtable_*`. -/

/-- **every set operation preserves `WF` and commutes** with `Model/HashSet.lean` on the set read off the heap -/
theorem set_step_commutes (c : HCfg) (s : PSet) (h : s.WF c) (op : Set.Op) (m : Mem) :
    (s.step c op m).2.1.WF c ∧
    ((s.step c op m).1, (s.step c op m).2.1.toSet, (s.step c op m).2.2) = s.toSet.step c op m := PSet.step_wf c h op m

/-- **set histories commute** -/
theorem set_history_commutes (c : HCfg) (ops : List Set.Op) (s : PSet) (h : s.WF c) (m : Mem) :
    (s.run c ops m).2.2.1.WF c ∧
    ((s.run c ops m).1, (s.run c ops m).2.1, (s.run c ops m).2.2.1.toSet, (s.run c ops m).2.2.2) = s.toSet.run c ops m :=
  PSet.run_wf c ops h m

/-- **any history of set operations on the pointer-level model behaves like an ideal finite set**: statuses and answers are
those of the ideal set (told which insertions were refused), the elements chained on the heap at the end are the ideal set's,
`WF` holds at the end, the ledger is balanced — one entry block per element (`live + size` is conserved) — and fault-free -/
theorem set_history_refines_ideal (c : HCfg) (ops : List Set.Op) (s : PSet) (m : Mem) (sp : Set)
    (h : s.WF c) (hl : s.size + 3 ≤ liveOf m s.triple) (hs : s.toSet.abs.Perm sp) :
    (s.run c ops m).1 = (Set.run sp ops (s.run c ops m).2.1).1 ∧
    (s.run c ops m).2.2.1.toSet.abs.Perm (Set.run sp ops (s.run c ops m).2.1).2 ∧
    (s.run c ops m).2.2.1.WF c ∧
    liveOf (s.run c ops m).2.2.2 s.triple + s.size = liveOf m s.triple + (s.run c ops m).2.2.1.size ∧
    (s.run c ops m).2.2.2.fault = m.fault := by
  obtain ⟨w, e⟩ := PSet.run_wf c ops h m
  have r := C02.set_history_refines c ops s.toSet m sp h.2 hl hs
  rw [← e] at r
  exact ⟨r.1, r.2.1, w, r.2.2.2.1, r.2.2.2.2⟩

/-- **set iterator programs commute**: any sequence of `cc_hashset_iter_next` / `cc_hashset_iter_remove` calls from a valid
iterator keeps the table well-formed and the saved ids NULL-or-live, and is the same program on `Model/HashSet.lean` -/
theorem set_iter_program_commutes (c : HCfg) (prog : List HashTable.IterOp) (s : PSet) (h : s.WF c) (it : PIter)
    (hit : ItWF s.table it) (m : Mem) :
    PHash.WF c (PSet.iterRun c prog s it m).2.1.table ∧
    ItWF (PSet.iterRun c prog s it m).2.1.table (PSet.iterRun c prog s it m).2.2.1 ∧
    (PSet.iterRun c prog s it m).2.1.triple = s.triple ∧
    ((PSet.iterRun c prog s it m).1, (PSet.iterRun c prog s it m).2.1.toSet,
      (PSet.iterRun c prog s it m).2.1.table.toIter (PSet.iterRun c prog s it m).2.2.1, (PSet.iterRun c prog s it m).2.2.2) =
        HashSet.iterRun c prog s.toSet (s.table.toIter it) m := PSet.iterRun_wf c prog h.table it hit m

/-- **set iterator programs refine the ideal set cursor**: from `cc_hashset_iter_init`, any program of next / remove calls
yields what the ideal cursor over the ideal set yields, leaves the ideal set's elements on the heap, a well-formed set, saved
ids that are NULL or live, and a balanced, fault-free ledger -/
theorem set_iter_program_refines_ideal (c : HCfg) (prog : List HashTable.IterOp) (s : PSet) (m : Mem)
    (h : s.WF c) (hl : s.size + 3 ≤ liveOf m s.triple) :
    (PSet.iterRun c prog s (s.iterInit m).1 m).1 = ((HashSet.SCursor.mk s.toSet.abs none).run s.toSet.abs prog).1 ∧
    (PSet.iterRun c prog s (s.iterInit m).1 m).2.1.toSet.abs = ((HashSet.SCursor.mk s.toSet.abs none).run s.toSet.abs prog).2.2 ∧
    (PSet.iterRun c prog s (s.iterInit m).1 m).2.1.WF c ∧
    ItLive (PSet.iterRun c prog s (s.iterInit m).1 m).2.1.table (PSet.iterRun c prog s (s.iterInit m).1 m).2.2.1 ∧
    (PSet.iterRun c prog s (s.iterInit m).1 m).2.2.2.fault = m.fault ∧
    liveOf (PSet.iterRun c prog s (s.iterInit m).1 m).2.2.2 s.triple + s.size =
      liveOf m s.triple + (PSet.iterRun c prog s (s.iterInit m).1 m).2.1.size := by
  obtain ⟨iw, ei⟩ := iterInit_wf c h.table m
  obtain ⟨w, iw2, _, e⟩ := PSet.iterRun_wf c prog h.table (s.iterInit m).1 iw m
  have r := HashSet.iterRun_refines c prog s.toSet m h.2 hl
  have hit : s.table.toIter (s.iterInit m).1 = (s.toSet.iterInit m).1 := congrArg Prod.fst ei
  rw [← hit, ← e] at r
  exact ⟨r.1, r.2.1, ⟨w.1, r.2.2.1⟩, iw2.live, r.2.2.2.1, r.2.2.2.2.1⟩


/-! ### C20's hash clauses on the pointer-level model -/

/-- the capacity of a well-formed heap table is a power of two (at most `2^31`) and the bucket array has that many slots -/
theorem c20_capacity_pow_two (c : HCfg) (t : PTable) (h : WF c t) :
    (∃ k, k < 32 ∧ t.capacity = 2 ^ k) ∧ t.buckets.length = t.capacity := ⟨h.2.1, h.geo.len⟩

/-- after every successful insertion `size ≤ (size_t)(capacity × load_factor)` -/
theorem c20_load_bound_after_insert (c : HCfg) (t : PTable) (h : WF c t) (key : Option Nat) (v : Nat) (m : Mem)
    (hok : (t.add c key v m).1 = .ok) :
    (t.add c key v m).2.1.size ≤ c.thr (t.add c key v m).2.1.capacity := by
  obtain ⟨w, e, _⟩ := add_wf c h key v m
  have hs := (HashTable.add_spec c (PTable.toTable t) key v m h.2).2.1
  rw [← e] at hs
  have hthr : (PTable.toTable (t.add c key v m).2.1).threshold = c.thr (PTable.toTable (t.add c key v m).2.1).capacity := w.2.2.2.2.2.2
  have := (hs hok).2.1
  rw [hthr] at this
  exact this

/-- a successful `resize(capacity << 1)` doubles the capacity (and the bucket array) and re-derives the threshold -/
theorem c20_resize_doubles (c : HCfg) (t : PTable) (h : WF c t) (m : Mem)
    (hok : (t.resize c (t.capacity <<< 1) m).1 = .ok) :
    (t.resize c (t.capacity <<< 1) m).2.1.capacity = 2 * t.capacity ∧
    (t.resize c (t.capacity <<< 1) m).2.1.buckets.length = 2 * t.capacity ∧
    (t.resize c (t.capacity <<< 1) m).2.1.threshold = c.thr (2 * t.capacity) := by
  have w := (resize_wf c h m).1
  have hcap : (t.resize c (t.capacity <<< 1) m).2.1.capacity = 2 * t.capacity := by
    have hmax : t.capacity ≠ Gen.MAX_POW_TWO := by
      intro hm
      have : (t.resize c (t.capacity <<< 1) m).1 = .errMaxCapacity := by unfold PTable.resize; rw [if_pos hm]
      rw [this] at hok; cases hok
    have hspec := HashTable.resize_spec c (PTable.toTable t) m h.2 hmax
    simp only at hspec
    have he : ((t.resize c (t.capacity <<< 1) m).1, PTable.toTable (t.resize c (t.capacity <<< 1) m).2.1,
        (t.resize c (t.capacity <<< 1) m).2.2) = (PTable.toTable t).resize c (t.capacity <<< 1) m := (resize_wf c h m).2.1
    rw [show (PTable.toTable t).capacity = t.capacity from rfl, ← he] at hspec
    cases ha : (m.allocT t.triple).1 with
    | false =>
      have := hspec.1 ha
      simp only [Prod.mk.injEq] at this
      rw [this.1] at hok; cases hok
    | true => exact (hspec.2 ha).2.2.2.2.1
  have hthr : (PTable.toTable (t.resize c (t.capacity <<< 1) m).2.1).threshold =
      c.thr (PTable.toTable (t.resize c (t.capacity <<< 1) m).2.1).capacity := w.2.2.2.2.2.2
  refine ⟨hcap, by rw [w.geo.len, hcap], ?_⟩
  have : (t.resize c (t.capacity <<< 1) m).2.1.threshold = c.thr (t.resize c (t.capacity <<< 1) m).2.1.capacity := hthr
  rw [this, hcap]

/-! ### non-vacuity -/

/-- constant hash (everything in one chain), load factor 3/4 -/
def exCfg : HCfg := ⟨fun _ => 7, fun cap => cap * 3 / 4, fun cap => cap * 2⟩

/-- the table built by the constructor and three insertions (one resize on the way) -/
def exTable : PTable :=
  match (PTable.new exCfg 2 .conf {}).2.1 with
  | some t => (t.run exCfg [.add (some 1) 11, .add (some 2) 12, .add none 13] { live := 2 }).2.2.1
  | none => { capacity := 0, size := 0, threshold := 0, buckets := [] }

/-- the hypotheses are satisfiable: the constructor yields a table, it is well-formed, so is every table reached from it -/
example : WF exCfg exTable := by
  obtain ⟨_, hn⟩ := new_establishes_wf exCfg 2 .conf {}
  have hsome : (PTable.new exCfg 2 .conf {}).2.1 = some
      { capacity := 2, size := 0, threshold := 1, buckets := [none, none], triple := .conf } := rfl
  unfold exTable
  rw [hsome]
  exact (history_commutes exCfg _ _ (hn _ hsome) _).1

/-- the raw links of that table: after the resize the two moved entries are relinked in reverse, the NULL key sits alone in
bucket 0 -/
example : exTable.capacity = 4 ∧ exTable.buckets = [some 2, none, none, some 1] ∧ exTable.fresh = 3 ∧
    (nd exTable.heap 1).next = some 0 ∧ (nd exTable.heap 0).next = none ∧ (nd exTable.heap 2).next = none ∧
    exTable.shapeOk = true := by decide

example : (PTable.toTable exTable).abs = [(none, 13), (some 2, 12), (some 1, 11)] := by decide

/-- removal inside a chain (`prev->next = next`): entry 0 is unlinked from `3 → 1 → 0` … -/
example : let r := exTable.remove exCfg (some 1) { live := 5 }
    r.1 = .ok ∧ r.2.1 = some 11 ∧ (r.2.2.1.heap.get 0).isSome = false ∧ (nd r.2.2.1.heap 1).next = none ∧
    r.2.2.1.shapeOk = true := by decide

/-- … and an iterator program with a rejected and an accepted `iter_remove`: ids stay live-or-NULL -/
example : let it0 := (exTable.iterInit {}).1
    let r := piterRun exCfg [.remove, .next, .remove, .remove, .next] exTable it0 { live := 5 }
    r.1.map (·.1) = [.errKeyNotFound, .ok, .ok, .errKeyNotFound, .ok] ∧ r.2.2.1.prev = some 1 ∧ r.2.2.1.next = some 0 ∧
    (r.2.1.heap.get 2).isSome = false ∧ r.2.1.shapeOk = true := by decide

/-- a pointer-level set: the example table with every value the dummy is not at hand, so build one from the constructor -/
def exSet : PSet :=
  match (PTable.new exCfg 2 .conf {}).2.1 with
  | some t => (PSet.run exCfg ⟨t, .conf⟩ [.add (some 1), .add (some 2), .add none, .add (some 1)] { live := 3 }).2.2.1
  | none => ⟨{ capacity := 0, size := 0, threshold := 0, buckets := [] }, .conf⟩

example : exSet.WF exCfg := by
  obtain ⟨_, hn⟩ := new_establishes_wf exCfg 2 .conf {}
  have hsome : (PTable.new exCfg 2 .conf {}).2.1 = some
      { capacity := 2, size := 0, threshold := 1, buckets := [none, none], triple := .conf } := rfl
  unfold exSet
  rw [hsome]
  have w := hn _ hsome
  exact (set_history_commutes exCfg _ ⟨_, .conf⟩ ⟨w.1, w.2, (by decide), rfl⟩ _).1

example : exSet.size = 3 ∧ exSet.toSet.abs = [none, some 1, some 2] ∧ exSet.table.shapeOk = true := by decide

example : let r := PSet.iterRun exCfg [.next, .remove, .remove, .next] exSet (exSet.iterInit {}).1 { live := 6 }
    r.1 = [(.ok, some none), (.ok, none), (.errKeyNotFound, none), (.ok, some (some 1))] ∧ r.2.1.size = 2 := by decide

end CC.Properties.C02PHash
