import CollectionsC.Proofs.StaticPool
/-! # C12 — CC_StaticPool hands out disjoint in-bounds blocks with exact accounting

Statements only (helpers in `Proofs/StaticPool.lean`).  The concrete model `CC.SPoolCore`
(`Model/StaticPool.lean`) has the fields of `struct cc_static_pool_s` with pointers written as
offsets from the region start, and the bytes of the region; `CC.StaticPool` adds the ghost list of
live blocks.  The abstract spec `CC.Spec.SPool` is that list with one roll-back slot.

Quantifiers: every pool size, every request size in ℕ (so every `size_t` value: 0, exact fit,
size+1, `SIZE_MAX`), every pointer argument of `free`, every history of
malloc/calloc/free/reset/user writes.

Documented preconditions: the pool size is a `size_t` value (`size < 2^64`; needed so that a
`calloc` whose product overflows `size_t` — which the library answers with NULL — also does not
fit in the spec's sense), and user writes stay inside the region (`OpOk`).

Two things the model cannot falsify, by construction: (1) addresses are *relative to the region
start* (`low_ptr = data_buf + offset`, computed once in `cc_static_pool_new`), so a wrong use of
`offset` there is visible to the harness (canaries before the region, `WALK=region-start`) but not
to these theorems; (2) a zero-length block has the address of the block that follows it, so
`malloc 0; malloc 4; free(first pointer)` rolls back the 4-byte block — pointer identity is all the
C code (and the model) can compare. -/
namespace CC.Properties.C12
open CC CC.Spec
open CC.Spec.SPool (Op)

/-- precondition of one operation on a pool of `size` bytes -/
def OpOk (size : Nat) : Op → Prop
  | .write off n _ => off + n ≤ size
  | _ => True

/-- One step of the concrete model refines one step of the block-list spec: same returned
pointer, abstraction commutes, invariant preserved, size fixed, and no checked access faults
(the `memset` of calloc and the user's writes stay inside the region; nothing is allocated). -/
theorem step_refines (s : StaticPool) (op : Op) (m : Mem) (h : s.Inv) (hsz : s.core.size < sizeMod)
    (hop : OpOk s.core.size op) :
    (s.step op m).1 = (s.abs.step op).1 ∧ (s.step op m).2.1.abs = (s.abs.step op).2 ∧
    (s.step op m).2.1.Inv ∧ (s.step op m).2.1.core.size = s.core.size ∧ (s.step op m).2.2 = m := by
  have hsize : ∀ t : StaticPool, t.abs = (s.abs.step op).2 → t.core.size = s.core.size := by
    intro t ht
    have : t.abs.size = (s.abs.step op).2.size := by rw [ht]
    rw [show t.abs.size = t.core.size from rfl] at this
    rw [this]
    cases op <;> simp only [SPool.step, SPool.malloc, SPool.calloc, SPool.release, SPool.reset, SPool.write]
    · split <;> rfl
    · split <;> rfl
    · split
      · split <;> rfl
      · rfl
    · rfl
    · rfl
  cases op with
  | malloc n =>
    have hr := StaticPool.malloc_refines s n h
    exact ⟨hr.1, hr.2, StaticPool.malloc_inv s n h, hsize _ hr.2, rfl⟩
  | calloc c k =>
    have hr := StaticPool.calloc_refines s c k m h hsz
    exact ⟨hr.1, hr.2, StaticPool.calloc_inv s c k m h, hsize _ hr.2, StaticPool.calloc_nofault s c k m h⟩
  | release p =>
    have hr := StaticPool.release_refines s p h
    exact ⟨rfl, hr, StaticPool.release_inv s p h, hsize _ hr, rfl⟩
  | reset => exact ⟨rfl, rfl, StaticPool.reset_inv s h, rfl, rfl⟩
  | write off n v => exact ⟨rfl, rfl, StaticPool.write_inv s off n v m h, rfl, StaticPool.write_nofault s off n v m h hop⟩

/-- **C12, all histories.** From any state satisfying the invariant, every history whose operations
respect `OpOk` returns exactly the pointers of the block-list spec and ends in a state whose
abstraction is the spec's final state; the memory ledger is untouched and nothing faults. -/
theorem history_refines (ops : List Op) (s : StaticPool) (m : Mem) (h : s.Inv) (hsz : s.core.size < sizeMod)
    (hops : ∀ op ∈ ops, OpOk s.core.size op) :
    (s.run ops m).1 = (s.abs.run ops).1 ∧ (s.run ops m).2.1.abs = (s.abs.run ops).2 ∧
    (s.run ops m).2.1.Inv ∧ (s.run ops m).2.2 = m := by
  induction ops generalizing s m with
  | nil => exact ⟨rfl, rfl, h, rfl⟩
  | cons op ops ih =>
    obtain ⟨h1, h2, h3, h4, h5⟩ := step_refines s op m h hsz (hops op (List.mem_cons_self ..))
    have ih' := ih (s.step op m).2.1 (s.step op m).2.2 h3 (by rw [h4]; exact hsz)
      (by intro o ho; rw [h4]; exact hops o (List.mem_cons_of_mem _ ho))
    simp only [StaticPool.run, SPool.run]
    rw [h2] at ih'
    refine ⟨?_, ih'.2.1, ih'.2.2.1, ?_⟩
    · rw [h1, ih'.1]
    · rw [ih'.2.2.2, h5]

/-- **C12 from the constructor**, with the accounting functions of the public API: after any
history on a fresh pool over a `size`-byte region, `used_bytes`/`free_bytes` are the spec's. -/
theorem new_history_refines (size : Nat) (bytes : Buf Nat) (hb : bytes.length = size) (hsz : size < sizeMod)
    (m : Mem) (ops : List Op) (hops : ∀ op ∈ ops, OpOk size op) :
    ((StaticPool.new size bytes).run ops m).1 = ((SPool.init size bytes).run ops).1 ∧
    ((StaticPool.new size bytes).run ops m).2.1.abs = ((SPool.init size bytes).run ops).2 ∧
    ((StaticPool.new size bytes).run ops m).2.1.core.usedBytes = ((SPool.init size bytes).run ops).2.used ∧
    ((StaticPool.new size bytes).run ops m).2.1.core.freeBytes = ((SPool.init size bytes).run ops).2.free ∧
    ((StaticPool.new size bytes).run ops m).2.2 = m := by
  have hi := StaticPool.new_inv size bytes hb
  have := history_refines ops (StaticPool.new size bytes) m hi hsz hops
  rw [StaticPool.new_abs] at this
  refine ⟨this.1, this.2.1, ?_, ?_, this.2.2.2⟩
  · rw [StaticPool.used_abs _ this.2.2.1, this.2.1]
  · rw [StaticPool.free_abs _ this.2.2.1, this.2.1]

/-- The C-visible part of every operation is computed from the C fields alone: the ghost block
list never influences a returned pointer or a stored field. -/
theorem ghost_irrelevant (s : StaticPool) (m : Mem) :
    (∀ n, (s.malloc n).1 = (s.core.malloc n).1 ∧ (s.malloc n).2.core = (s.core.malloc n).2) ∧
    (∀ c k, (s.calloc c k m).1 = (s.core.calloc c k m).1 ∧ (s.calloc c k m).2.1.core = (s.core.calloc c k m).2.1) ∧
    (∀ p, (s.release p).core = s.core.release p) ∧ s.reset.core = s.core.reset :=
  ⟨fun n => StaticPool.malloc_core s n, fun c k => ⟨(StaticPool.calloc_core s c k m).1, (StaticPool.calloc_core s c k m).2.1⟩,
   fun p => StaticPool.release_core s p, rfl⟩

/-! ## The property in its own vocabulary (facts about the block-list spec) -/

/-- well-formedness (blocks tile `[0, used)`, `used ≤ size`) is preserved by every operation -/
theorem spec_wf_step (s : SPool) (op : Op) (h : s.WF) : (s.step op).2.WF := by
  obtain ⟨h1, h2, h3⟩ := h
  cases op with
  | malloc n =>
    simp only [SPool.step, SPool.malloc]
    split
    · refine ⟨⟨rfl, h1⟩, ?_, h3⟩
      simp only [SPool.used, blocksLen] at *; omega
    · exact ⟨h1, h2, h3⟩
  | calloc c k =>
    simp only [SPool.step, SPool.calloc]
    split
    · refine ⟨⟨rfl, h1⟩, ?_, by simpa using h3⟩
      simp only [SPool.used, blocksLen] at *; omega
    · exact ⟨h1, h2, h3⟩
  | release p =>
    simp only [SPool.step, SPool.release]
    split
    · split
      · rename_i _ hb _
        rw [hb] at h1
        refine ⟨h1.2, ?_, h3⟩
        simp only [SPool.used, blocksLen, hb] at *; omega
      · exact ⟨h1, h2, h3⟩
    · exact ⟨h1, h2, h3⟩
  | reset => exact ⟨trivial, by simp [SPool.step, SPool.reset, SPool.used, blocksLen], h3⟩
  | write off n v => exact ⟨h1, h2, by simpa [SPool.step, SPool.write] using h3⟩

theorem spec_wf_run (ops : List Op) (s : SPool) (h : s.WF) : (s.run ops).2.WF := by
  induction ops generalizing s with
  | nil => exact h
  | cons op ops ih => exact ih _ (spec_wf_step s op h)

theorem spec_init_wf (size : Nat) (bytes : List Nat) (hb : bytes.length = size) : (SPool.init size bytes).WF :=
  ⟨trivial, Nat.zero_le _, hb⟩

/-- every live block lies inside the region and the live blocks are pairwise disjoint -/
theorem live_blocks_contained_disjoint (s : SPool) (h : s.WF) :
    (∀ b ∈ s.blocks, b.1 + b.2 ≤ s.size) ∧ s.blocks.Pairwise fun a b => disjoint a b := by
  refine ⟨?_, layout_pairwise _ h.1⟩
  intro b hb
  have := layout_bound _ h.1 b hb
  have := h.2.1
  simp only [SPool.used] at this; omega

/-- a non-NULL `malloc` result is a block inside the region that shares no byte with any live
block; it becomes the newest live block; nothing else changes -/
theorem malloc_block (s : SPool) (n p : Nat) (h : s.WF) (hp : (s.malloc n).1 = some p) :
    p + n ≤ s.size ∧ (∀ b ∈ s.blocks, disjoint (p, n) b) ∧
    (s.malloc n).2.blocks = (p, n) :: s.blocks ∧ (s.malloc n).2.bytes = s.bytes ∧ (s.malloc n).2.size = s.size := by
  by_cases hfit : n ≤ s.size - s.used
  · simp only [SPool.malloc, hfit, if_true, Option.some.injEq] at hp ⊢
    subst hp
    have hu := h.2.1
    refine ⟨by omega, ?_, by simp⟩
    intro b hb
    have := layout_bound _ h.1 b hb
    right; simp only [SPool.used]; omega
  · simp [SPool.malloc, hfit] at hp

/-- absolute form: with the region at address `buffer + offset` and its end representable
(`buffer + offset + size < 2^64`, which the caller's buffer guarantees), the block's first and last
address computed in `size_t` arithmetic do not wrap and lie inside `[buffer+offset, buffer+offset+size)` -/
theorem malloc_block_absolute (s : SPool) (n p buffer offset : Nat) (h : s.WF) (hp : (s.malloc n).1 = some p)
    (hend : buffer + offset + s.size < 2 ^ 64) :
    (buffer + offset + p) % 2 ^ 64 = buffer + offset + p ∧ (buffer + offset + p + n) % 2 ^ 64 = buffer + offset + p + n ∧
    buffer + offset ≤ (buffer + offset + p) % 2 ^ 64 ∧ (buffer + offset + p + n) % 2 ^ 64 ≤ buffer + offset + s.size := by
  have := (malloc_block s n p h hp).1
  rw [Nat.mod_eq_of_lt (by omega), Nat.mod_eq_of_lt (by omega)]
  omega

/-- a non-NULL `calloc` result is such a block too, every byte of it reads 0, and no byte outside
it changes (in particular no byte of another live block) -/
theorem calloc_block (s : SPool) (c k p : Nat) (h : s.WF) (hp : (s.calloc c k).1 = some p) :
    p + c * k ≤ s.size ∧ (∀ b ∈ s.blocks, disjoint (p, c * k) b) ∧
    (s.calloc c k).2.blocks = (p, c * k) :: s.blocks ∧
    (∀ i, i < c * k → (s.calloc c k).2.bytes.getD (p + i) 0 = 0) ∧
    (∀ j, j < s.size → ¬ (p ≤ j ∧ j < p + c * k) → (s.calloc c k).2.bytes.getD j 0 = s.bytes.getD j 0) := by
  by_cases hfit : c * k ≤ s.size - s.used
  · simp only [SPool.calloc, hfit, if_true, Option.some.injEq] at hp ⊢
    subst hp
    have hu := h.2.1
    have hl := h.2.2
    refine ⟨by omega, ?_, by simp, ?_, ?_⟩
    · intro b hb
      have := layout_bound _ h.1 b hb
      right; simp only [SPool.used]; omega
    · intro i hi
      rw [getD_fillBytes _ _ _ _ _ (by omega)]
      simp; omega
    · intro j hj hout
      rw [getD_fillBytes _ _ _ _ _ (by omega)]
      simp [hout]
  · simp [SPool.calloc, hfit] at hp

/-- **End to end on the concrete model.** Run any history `ops₁` on a fresh pool over a `size`-byte
region; in the state reached, every non-NULL result of `malloc n` (resp. `calloc c k`) is a block
inside the region that shares no byte with any block that is live at that moment, and every live
block lies inside the region. -/
theorem new_history_blocks_safe (size : Nat) (bytes : Buf Nat) (hb : bytes.length = size) (hsz : size < sizeMod)
    (m : Mem) (ops₁ : List Op) (hops : ∀ op ∈ ops₁, OpOk size op) :
    let s := ((StaticPool.new size bytes).run ops₁ m).2.1
    (∀ b ∈ s.blocks, b.1 + b.2 ≤ size) ∧ s.blocks.Pairwise (fun a b => disjoint a b) ∧
    (∀ n p, (s.malloc n).1 = some p → p + n ≤ size ∧ ∀ b ∈ s.blocks, disjoint (p, n) b) ∧
    (∀ c k p m', (s.calloc c k m').1 = some p → p + c * k ≤ size ∧ (∀ b ∈ s.blocks, disjoint (p, c * k) b) ∧
      (∀ i, i < c * k → (s.calloc c k m').2.1.core.bytes.getD (p + i) 0 = 0) ∧
      (∀ j, j < size → ¬ (p ≤ j ∧ j < p + c * k) → (s.calloc c k m').2.1.core.bytes.getD j 0 = s.core.bytes.getD j 0)) := by
  intro s
  have hi := StaticPool.new_inv size bytes hb
  have hh := history_refines ops₁ (StaticPool.new size bytes) m hi hsz hops
  have hinv : s.Inv := hh.2.2.1
  have hwf := StaticPool.abs_wf s hinv
  have hsize : s.abs.size = size := by
    show ((StaticPool.new size bytes).run ops₁ m).2.1.abs.size = size
    rw [hh.2.1, SPool.run_size]; rfl
  have hscore : s.core.size = size := hsize
  have hl := live_blocks_contained_disjoint s.abs hwf
  refine ⟨fun b hb' => by have := hl.1 b hb'; rw [hsize] at this; exact this, hl.2, ?_, ?_⟩
  · intro n p hp
    have hr := StaticPool.malloc_refines s n hinv
    rw [hr.1] at hp
    have := malloc_block s.abs n p hwf hp
    rw [hsize] at this
    exact ⟨this.1, this.2.1⟩
  · intro c k p m' hp
    have hr := StaticPool.calloc_refines s c k m' hinv (by rw [hscore]; exact hsz)
    rw [hr.1] at hp
    have := calloc_block s.abs c k p hwf hp
    rw [hsize] at this
    have hb : (s.calloc c k m').2.1.core.bytes = (s.abs.calloc c k).2.bytes := by rw [← hr.2]; rfl
    exact ⟨this.1, this.2.1, fun i hi => by rw [hb]; exact this.2.2.2.1 i hi,
      fun j hj hout => by rw [hb]; exact this.2.2.2.2 j hj hout⟩

/-- a request that does not fit returns NULL and changes nothing — for every request size -/
theorem nofit_null_unchanged (s : SPool) (n : Nat) (h : s.free < n) : s.malloc n = (none, s) := by
  unfold SPool.malloc; simp only [SPool.free] at h
  have : ¬ n ≤ s.size - s.used := by omega
  simp [this]

theorem calloc_nofit_null_unchanged (s : SPool) (c k : Nat) (h : s.free < c * k) : s.calloc c k = (none, s) := by
  unfold SPool.calloc; simp only [SPool.free] at h
  have : ¬ c * k ≤ s.size - s.used := by omega
  simp [this]

/-- … and a request that fits is never refused (size 0 and the exact fit included) -/
theorem fit_nonnull (s : SPool) (n : Nat) (h : n ≤ s.free) : (s.malloc n).1 = some s.used := by
  unfold SPool.malloc; simp only [SPool.free] at h; simp [h]

/-- `used + free = size` -/
theorem used_plus_free (s : SPool) (h : s.WF) : s.used + s.free = s.size := by
  have := h.2.1; simp only [SPool.free]; omega

/-- `used` is the total length of the live blocks -/
theorem used_is_sum (s : SPool) : s.used = (s.blocks.map (·.2)).sum := by
  unfold SPool.used
  induction s.blocks with
  | nil => rfl
  | cons b bs ih => simp [blocksLen, ih]

/-- … and on the C field: in every state satisfying the invariant `used_bytes()` — `free_ptr - low_ptr`,
which the code never computes from a block list — is the sum of the lengths of the live blocks -/
theorem used_bytes_is_sum (s : StaticPool) (h : s.Inv) : s.core.usedBytes = (s.blocks.map (·.2)).sum := by
  rw [StaticPool.used_abs s h, used_is_sum]; rfl

/-- freeing the most recent block restores the previous state: live blocks, used/free bytes,
region content and the address the next allocation returns are those before the allocation.
**Not literally "the exact previous state"**: the one roll-back slot is now empty (`undo := false`),
and that is observable through the API — see `rollback_slot_observable` below.  This is the reading
of C12 documented in DESIGN.md ("one roll-back slot, not a stack"); the C code keeps a single
`high_ptr`, so a second `free` of the block below cannot be honoured. -/
theorem release_newest_restores (s : SPool) (n p : Nat) (hp : (s.malloc n).1 = some p) :
    (s.malloc n).2.release (some p) = { s with undo := false } ∧
    ((s.malloc n).2.release (some p)).used = s.used ∧ ((s.malloc n).2.release (some p)).free = s.free ∧
    ∀ k, (((s.malloc n).2.release (some p)).malloc k).1 = (s.malloc k).1 := by
  have h1 : (s.malloc n).2.release (some p) = { s with undo := false } := by
    by_cases hfit : n ≤ s.size - s.used
    · simp only [SPool.malloc, hfit, if_true, Option.some.injEq] at hp ⊢
      subst hp; simp [SPool.release]
    · simp [SPool.malloc, hfit] at hp
  rw [h1]; exact ⟨rfl, rfl, rfl, fun k => by
    simp only [SPool.malloc, SPool.used]; by_cases hk : k ≤ s.size - blocksLen s.blocks <;> simp [hk]⟩

/-- the `calloc` variant: freeing the block a `calloc` just returned restores blocks, accounting and
the next address; the region content keeps the zeros that were written -/
theorem release_newest_calloc_restores (s : SPool) (c k p : Nat) (hp : (s.calloc c k).1 = some p) :
    (s.calloc c k).2.release (some p) = { s with undo := false, bytes := fillBytes s.bytes s.used (c * k) 0 } ∧
    ((s.calloc c k).2.release (some p)).used = s.used ∧ ((s.calloc c k).2.release (some p)).free = s.free ∧
    ∀ j, (((s.calloc c k).2.release (some p)).malloc j).1 = (s.malloc j).1 := by
  have h1 : (s.calloc c k).2.release (some p) = { s with undo := false, bytes := fillBytes s.bytes s.used (c * k) 0 } := by
    by_cases hfit : c * k ≤ s.size - s.used
    · simp only [SPool.calloc, hfit, if_true, Option.some.injEq] at hp ⊢
      subst hp; simp [SPool.release]
    · simp [SPool.calloc, hfit] at hp
  rw [h1]; exact ⟨rfl, rfl, rfl, fun j => by
    simp only [SPool.malloc, SPool.used]; by_cases hj : j ≤ s.size - blocksLen s.blocks <;> simp [hj]⟩

/-- the emptied roll-back slot is observable: `malloc 3; malloc 2; free(2nd); free(1st)` leaves 3
bytes used, whereas `malloc 3; free(1st)` leaves 0 — after rolling back the second block the first
one cannot be given back any more (one slot, not a stack) -/
theorem rollback_slot_observable :
    let s0 := SPool.init 8 (List.replicate 8 0)
    ((((s0.malloc 3).2.malloc 2).2.release (some 3)).release (some 0)).used = 3 ∧
    ((s0.malloc 3).2.release (some 0)).used = 0 := by decide

/-- one roll-back slot, not a stack: once it is used, no `free` changes anything until the next
successful allocation -/
theorem release_slot_empty (s : SPool) (p : Option Nat) (h : s.undo = false) : s.release p = s := by
  unfold SPool.release; simp [h]

/-- freeing any pointer other than the most recent block's address (NULL included) changes nothing -/
theorem release_other_unchanged (s : SPool) (p : Option Nat)
    (h : ∀ b rest, s.blocks = b :: rest → p ≠ some b.1) : s.release p = s := by
  unfold SPool.release
  split
  · rename_i b rest a _ hb
    have := h b rest hb
    simp only [ne_eq, Option.some.injEq] at this
    simp [this]
  · rfl

/-- reset restores the initial state (the region content is not part of the pool's state) -/
theorem reset_is_initial (s : SPool) : s.reset = SPool.init s.size s.bytes := rfl

/-- a `calloc` whose product does not fit in `size_t` returns NULL and changes nothing (the
overflow guard in front of the multiplication) -/
theorem calloc_overflow_null (s : StaticPool) (c k : Nat) (m : Mem) (h : 2 ^ 64 ≤ c * k) :
    s.calloc c k m = (none, s, m) := StaticPool.calloc_overflow s c k m h

/-! ## Physical inertness in the concrete model -/

/-- NULL from `malloc`/`calloc`: every field (and the ghost list) is unchanged -/
theorem null_inert (s : StaticPool) (m : Mem) :
    (∀ n, (s.malloc n).1 = none → (s.malloc n).2 = s) ∧
    (∀ c k, (s.calloc c k m).1 = none → (s.calloc c k m).2.1 = s) :=
  ⟨fun n h => StaticPool.malloc_inert s n h, fun c k h => StaticPool.calloc_inert s c k m h⟩

/-- `free` of any pointer other than `high_ptr`: every field is unchanged -/
theorem release_inert (s : StaticPool) (p : Option Nat) (hp : p ≠ some s.core.high) : s.release p = s :=
  StaticPool.release_inert s p hp

/-! ## Pools larger than 4 GiB (the `giant=1` correspondence stream)

The driver runs such pools with an empty byte list and never writes: the operations of those
histories commute with replacing the region content, and the byte-free invariant it checks gives the
full invariant for every region content of the right length. -/

/-- malloc / free / reset do not read or write the region content -/
theorem region_content_irrelevant (s : StaticPool) (b : Buf Nat) :
    (∀ n, (s.withBytes b).malloc n = ((s.malloc n).1, (s.malloc n).2.withBytes b)) ∧
    (∀ p, (s.withBytes b).release p = (s.release p).withBytes b) ∧
    (s.withBytes b).reset = s.reset.withBytes b :=
  ⟨StaticPool.malloc_withBytes s b, StaticPool.release_withBytes s b, StaticPool.reset_withBytes s b⟩

/-- the byte-free invariant is the invariant of the pool over any region of the right length -/
theorem giant_invariant (s : StaticPool) (b : Buf Nat) (hb : b.length = s.core.size) :
    s.InvNoBytes ↔ (s.withBytes b).Inv :=
  ⟨fun h => StaticPool.inv_withBytes s b h hb, fun h => (StaticPool.invNoBytes_withBytes s b).1 (StaticPool.invNoBytes_of_inv _ h)⟩

/-- a request that takes the used count to 2^32 and beyond is served exactly like a small one: the
pool of 6 GiB hands out 2^32 bytes at offset 0, then 1 GiB at offset 2^32, refuses 1 GiB + 1 and
reports 5 GiB used -/
example :
    let s := StaticPool.new (6 * 2 ^ 30) []
    let s1 := (s.malloc (2 ^ 32)).2
    let s2 := (s1.malloc (2 ^ 30)).2
    (s.malloc (2 ^ 32)).1 = some 0 ∧ (s1.malloc (2 ^ 30)).1 = some (2 ^ 32) ∧
    (s2.malloc (2 ^ 30 + 1)).1 = none ∧ s2.core.usedBytes = 5 * 2 ^ 30 ∧ s2.core.freeBytes = 2 ^ 30 ∧ s2.InvNoBytes := by
  decide

/-! ## Non-vacuity: a pool with two live blocks, the newest still in the roll-back slot -/
example :
    let s : StaticPool := { core := { size := 8, free := 5, high := 2, bytes := [1, 1, 2, 2, 2, 238, 238, 238] },
                            blocks := [(2, 3), (0, 2)], undo := true }
    s.Inv ∧ s.abs.WF ∧ (s.malloc 3).1 = some 5 ∧ (s.malloc 4).1 = none ∧ (s.release (some 2)).core.free = 2 := by
  refine ⟨by decide, ?_, by decide, by decide, by decide⟩
  exact StaticPool.abs_wf _ (by decide)

end CC.Properties.C12
