import CollectionsC.Proofs.ListTraverse
import CollectionsC.Proofs.ListPrograms
import CollectionsC.Properties.C04
/-! # C07 (lists) — iterators traverse completely and in order; one-step mutation is safe

Statements and closing proofs (helpers: `Proofs/DListIter.lean`, `Proofs/SListIter.lean`,
`Proofs/ListTraverse.lean`).

The iterator models keep the C cursor fields (`CC_ListIter`: `index/last/next`; descending: the same
struct walked through `prev`; `CC_SListIter`: `index/current/prev/next`; the zip iterators: one such
cursor per list).  Each is related to the **ideal cursor** `Spec.LSeq.Cursor` (`pos` = number of
elements passed / still ahead, `cur` = position the mutators act on) by a simulation relation
(`ItRel`, `DitRel`, `ZipRel`); every iterator call from related states returns what the ideal cursor
returns and re-establishes the relation — for every list content, every cursor position, every
element value and every allocator state.

Contract hypothesis (the `@note`s of the API): `iter_add` is called with an element yielded and not
removed (`cur = some k`).  Nothing else: any number of `add`s may follow one `next` — for the ascending
and the zip iterator of the doubly linked list this holds since the repair of defect L6 (`tail` is set
exactly when the new node has no successor; the former `index == size` test pointed `tail` into the middle on
the second `add` at the end); see `dlist_repeated_add` below for the witness. -/
namespace CC.Properties.C07List
open CC CC.Chain
open CC.Spec

/-! ## Complete traversal -/

/-- **A fresh ascending iterator over a doubly linked list yields every element exactly once, in
order, then reports the end** — for every list state satisfying the invariant; no allocation, no
fault (the ledger is returned unchanged). -/
theorem dlist_iter_traverses (l : Chain) (h : l.Inv) (m : Mem) :
    (DList.iterNexts l l.abs.length (DList.iterInit l) m).1 = l.abs.map (fun v => (Stat.ok, some v)) ∧
    (DList.iterNexts l l.abs.length (DList.iterInit l) m).2.2 = m ∧
    (DList.iterNext l (DList.iterNexts l l.abs.length (DList.iterInit l) m).2.1 m).1 = .iterEnd := by
  rw [h.eq]; simp only [ofList_abs]
  generalize l.triple = t
  have r := DList.iterNexts_refines (t := t) l.abs l.abs.length _ _ m (DList.iterInit_rel (t := t) l.abs)
  have s := LSeqT.nexts_spec l.abs l.abs.length LSeq.itNew (by simp [LSeq.itNew])
  refine ⟨by rw [r.1, s.1]; simp [LSeq.itNew], r.2.2, ?_⟩
  obtain ⟨it', e, _⟩ := DList.iterNext_ofList (t := t) l.abs _ _ m r.2.1
  rw [e]
  exact (LSeqT.next_end_iff l.abs _ (by rw [s.2]; simp [LSeq.itNew])).2 (by rw [s.2]; simp [LSeq.itNew])

/-- **A fresh descending iterator yields the exact reverse, then the end.** -/
theorem dlist_diter_traverses (l : Chain) (h : l.Inv) (m : Mem) :
    (DList.diterNexts l l.abs.length (DList.diterInit l) m).1 = l.abs.reverse.map (fun v => (Stat.ok, some v)) ∧
    (DList.diterNexts l l.abs.length (DList.diterInit l) m).2.2 = m ∧
    (DList.diterNext l (DList.diterNexts l l.abs.length (DList.diterInit l) m).2.1 m).1 = .iterEnd := by
  rw [h.eq]; simp only [ofList_abs]
  generalize l.triple = t
  have r := DList.diterNexts_refines (t := t) l.abs l.abs.length _ _ m (DList.diterInit_rel (t := t) l.abs)
  have s := LSeqT.dnexts_spec l.abs l.abs.length (LSeq.ditNew l.abs) (by simp [LSeq.ditNew]) (by simp [LSeq.ditNew])
  refine ⟨by rw [r.1, s.1]; simp [LSeq.ditNew, List.take_of_length_le], r.2.2, ?_⟩
  obtain ⟨it', e, _⟩ := DList.diterNext_ofList (t := t) l.abs _ _ m r.2.1
  rw [e]
  exact (LSeqT.dnext_end_iff l.abs _ (by rw [s.2]; simp [LSeq.ditNew])).2 (by rw [s.2]; simp [LSeq.ditNew])

/-- **A zip iterator advances both lists in lock-step and stops at the shorter one.** -/
theorem dlist_zip_traverses (l1 l2 : Chain) (h1 : l1.Inv) (h2 : l2.Inv) (m : Mem) :
    (DList.zipNexts l1 l2 (min l1.abs.length l2.abs.length) (DList.zipInit l1 l2) m).1 =
      (l1.abs.zip l2.abs).map (fun v => (Stat.ok, some v)) ∧
    (DList.zipNext l1 l2 (DList.zipNexts l1 l2 (min l1.abs.length l2.abs.length) (DList.zipInit l1 l2) m).2.1 m).1 = .iterEnd := by
  rw [h1.eq, h2.eq]; simp only [ofList_abs]
  generalize l1.triple = t
  generalize l2.triple = t2
  have r := DList.zipNexts_refines (t := t) (t2 := t2) l1.abs l2.abs (min l1.abs.length l2.abs.length) _ _ m (DList.zipInit_rel (t := t) (t2 := t2) l1.abs l2.abs)
  have s := LSeqT.znexts_spec l1.abs l2.abs (min l1.abs.length l2.abs.length) LSeq.itNew
    (by simp [LSeq.itNew]; omega) (by simp [LSeq.itNew]; omega)
  refine ⟨?_, ?_⟩
  · rw [r.1, s.1]
    simp only [LSeq.itNew, List.drop_zero]
    rw [List.take_of_length_le (by simp [List.length_zip])]
  · obtain ⟨z', e, _⟩ := DList.zipNext_ofList (t := t) (t2 := t2) l1.abs l2.abs _ _ m r.2.1
    rw [e]
    exact (LSeqT.znext_end_iff l1.abs l2.abs _ (by rw [s.2]; simp [LSeq.itNew]; omega) (by rw [s.2]; simp [LSeq.itNew]; omega)).2
      (by rw [s.2]; simp [LSeq.itNew])

/-- the singly linked list: a fresh iterator yields every element once, in order, then the end -/
theorem slist_iter_traverses (l : Chain) (h : l.Inv) (m : Mem) :
    (SList.iterNexts l l.abs.length (SList.iterInit l) m).1 = l.abs.map (fun v => (Stat.ok, some v)) ∧
    (SList.iterNexts l l.abs.length (SList.iterInit l) m).2.2 = m ∧
    (SList.iterNext l (SList.iterNexts l l.abs.length (SList.iterInit l) m).2.1 m).1 = .iterEnd := by
  rw [h.eq]; simp only [ofList_abs]
  generalize l.triple = t
  have r := SList.iterNexts_refines (t := t) l.abs l.abs.length _ _ m (SList.iterInit_rel (t := t) l.abs)
  have s := LSeqT.nexts_spec l.abs l.abs.length LSeq.itNew (by simp [LSeq.itNew])
  refine ⟨by rw [r.1, s.1]; simp [LSeq.itNew], r.2.2, ?_⟩
  obtain ⟨it', e, _⟩ := SList.iterNext_ofList (t := t) l.abs _ _ m r.2.1
  rw [e]
  exact (LSeqT.next_end_iff l.abs _ (by rw [s.2]; simp [LSeq.itNew])).2 (by rw [s.2]; simp [LSeq.itNew])

/-- the singly linked zip iterator -/
theorem slist_zip_traverses (l1 l2 : Chain) (h1 : l1.Inv) (h2 : l2.Inv) (m : Mem) :
    (SList.zipNexts l1 l2 (min l1.abs.length l2.abs.length) (SList.zipInit l1 l2) m).1 =
      (l1.abs.zip l2.abs).map (fun v => (Stat.ok, some v)) ∧
    (SList.zipNext l1 l2 (SList.zipNexts l1 l2 (min l1.abs.length l2.abs.length) (SList.zipInit l1 l2) m).2.1 m).1 = .iterEnd := by
  rw [h1.eq, h2.eq]; simp only [ofList_abs]
  generalize l1.triple = t
  generalize l2.triple = t2
  have r := SList.zipNexts_refines (t := t) (t2 := t2) l1.abs l2.abs (min l1.abs.length l2.abs.length) _ _ m (SList.zipInit_rel (t := t) (t2 := t2) l1.abs l2.abs)
  have s := LSeqT.znexts_spec l1.abs l2.abs (min l1.abs.length l2.abs.length) LSeq.itNew
    (by simp [LSeq.itNew]; omega) (by simp [LSeq.itNew]; omega)
  refine ⟨?_, ?_⟩
  · rw [r.1, s.1]
    simp only [LSeq.itNew, List.drop_zero]
    rw [List.take_of_length_le (by simp [List.length_zip])]
  · obtain ⟨z', e, _⟩ := SList.zipNext_ofList (t := t) (t2 := t2) l1.abs l2.abs _ _ m r.2.1
    rw [e]
    exact (LSeqT.znext_end_iff l1.abs l2.abs _ (by rw [s.2]; simp [LSeq.itNew]; omega) (by rw [s.2]; simp [LSeq.itNew]; omega)).2
      (by rw [s.2]; simp [LSeq.itNew])

/-! ## One-step mutation: the concrete cursors simulate the ideal cursor

Every list works through its own allocator triple `t` (`t2` for the second list of a zip iterator):
`remove` releases the node through it, `add` obtains the node from it. -/

/-- **Ascending iterator of `cc_list.c`**: `next`, `remove`, `replace`, `add` and `index` from related
states return exactly what the ideal cursor returns, end in the canonical state of the ideal
content (so the list invariant — size, both ends — holds and all other elements are intact) and
re-establish the relation; `remove` releases exactly one block, `add` obtains exactly one, a
refused `add` changes nothing. -/
theorem dlist_iter_simulation (t : Triple) (xs : List Nat) (c : LSeq.Cursor) (it : DList.Iter) (m : Mem) (h : DList.ItRel xs c it) :
    (∃ it', DList.iterNext (ofList t xs) it m = ((LSeq.itNext xs c).1, (LSeq.itNext xs c).2.1, it', m) ∧
      DList.ItRel xs (LSeq.itNext xs c).2.2 it') ∧
    (∃ it', DList.iterRemove (ofList t xs) it m =
        ((LSeq.itRemove xs c).1, (LSeq.itRemove xs c).2.1, ofList t (LSeq.itRemove xs c).2.2.1, it',
         if (LSeq.itRemove xs c).1 = .ok then m.freeT t else m) ∧
      DList.ItRel (LSeq.itRemove xs c).2.2.1 (LSeq.itRemove xs c).2.2.2 it') ∧
    (∀ x, DList.iterReplace (ofList t xs) it x m =
        ((LSeq.itReplace xs c x).1, (LSeq.itReplace xs c x).2.1, ofList t (LSeq.itReplace xs c x).2.2, m) ∧
      DList.ItRel (LSeq.itReplace xs c x).2.2 c it) ∧
    (∀ x k, c.cur = some k →
      ∃ it', DList.iterAdd (ofList t xs) it x m =
        (if (m.allocT t).1 then (.ok, ofList t (LSeq.itAdd false xs c x).1, it', (m.allocT t).2) else (.errAlloc, ofList t xs, it, (m.allocT t).2)) ∧
      DList.ItRel (LSeq.itAdd false xs c x).1 (LSeq.itAdd false xs c x).2 it') ∧
    DList.iterIndex it = LSeq.itIndex c :=
  ⟨DList.iterNext_ofList xs c it m h, DList.iterRemove_ofList xs c it m h, fun x => DList.iterReplace_ofList xs c it x m h,
   fun x k hc => DList.iterAdd_ofList xs c it x k m h hc, DList.iterIndex_rel xs c it h⟩

/-- **Descending iterator of `cc_list.c`.** -/
theorem dlist_diter_simulation (t : Triple) (xs : List Nat) (c : LSeq.Cursor) (it : DList.Iter) (m : Mem) (h : DList.DitRel xs c it) :
    (∃ it', DList.diterNext (ofList t xs) it m = ((LSeq.ditNext xs c).1, (LSeq.ditNext xs c).2.1, it', m) ∧
      DList.DitRel xs (LSeq.ditNext xs c).2.2 it') ∧
    (∃ it', DList.diterRemove (ofList t xs) it m =
        ((LSeq.ditRemove xs c).1, (LSeq.ditRemove xs c).2.1, ofList t (LSeq.ditRemove xs c).2.2.1, it',
         if (LSeq.ditRemove xs c).1 = .ok then m.freeT t else m) ∧
      DList.DitRel (LSeq.ditRemove xs c).2.2.1 (LSeq.ditRemove xs c).2.2.2 it') ∧
    (∀ x, DList.iterReplace (ofList t xs) it x m =
        ((LSeq.itReplace xs c x).1, (LSeq.itReplace xs c x).2.1, ofList t (LSeq.itReplace xs c x).2.2, m) ∧
      DList.DitRel (LSeq.itReplace xs c x).2.2 c it) ∧
    (∀ x k, c.cur = some k →
      ∃ it', DList.diterAdd (ofList t xs) it x m =
        (if (m.allocT t).1 then (.ok, ofList t (LSeq.ditAdd xs c x).1, it', (m.allocT t).2) else (.errAlloc, ofList t xs, it, (m.allocT t).2)) ∧
      DList.DitRel (LSeq.ditAdd xs c x).1 (LSeq.ditAdd xs c x).2 it') ∧
    DList.diterIndex it = LSeq.ditIndex c :=
  ⟨DList.diterNext_ofList xs c it m h, DList.diterRemove_ofList xs c it m h, fun x => DList.diterReplace_ofList xs c it x m h,
   fun x k hc => DList.diterAdd_ofList xs c it x k m h hc, DList.diterIndex_rel xs c it h⟩

/-- **Zip iterator of `cc_list.c`** over two lists, each on its own triple (a refused second node
releases the first one again, through the first list's triple). -/
theorem dlist_zip_simulation (t t2 : Triple) (xs ys : List Nat) (c : LSeq.Cursor) (z : DList.ZipIter) (m : Mem) (h : DList.ZipRel xs ys c z) :
    (∃ z', DList.zipNext (ofList t xs) (ofList t2 ys) z m = ((LSeq.zitNext xs ys c).1, (LSeq.zitNext xs ys c).2.1, z', m) ∧
      DList.ZipRel xs ys (LSeq.zitNext xs ys c).2.2 z') ∧
    (∃ z', DList.zipRemove (ofList t xs) (ofList t2 ys) z m =
        ((LSeq.zitRemove xs ys c).1, (LSeq.zitRemove xs ys c).2.1, ofList t (LSeq.zitRemove xs ys c).2.2.1,
         ofList t2 (LSeq.zitRemove xs ys c).2.2.2.1, z', if (LSeq.zitRemove xs ys c).1 = .ok then (m.freeT t).freeT t2 else m) ∧
      DList.ZipRel (LSeq.zitRemove xs ys c).2.2.1 (LSeq.zitRemove xs ys c).2.2.2.1 (LSeq.zitRemove xs ys c).2.2.2.2 z') ∧
    (∀ x1 x2, DList.zipReplace (ofList t xs) (ofList t2 ys) z x1 x2 m =
        ((LSeq.zitReplace xs ys c x1 x2).1, (LSeq.zitReplace xs ys c x1 x2).2.1,
         ofList t (LSeq.zitReplace xs ys c x1 x2).2.2.1, ofList t2 (LSeq.zitReplace xs ys c x1 x2).2.2.2, m) ∧
      DList.ZipRel (LSeq.zitReplace xs ys c x1 x2).2.2.1 (LSeq.zitReplace xs ys c x1 x2).2.2.2 c z) ∧
    (∀ x1 x2 k, c.cur = some k →
      ∃ z', DList.zipAdd (ofList t xs) (ofList t2 ys) z x1 x2 m =
        (if (m.allocT t).1 then
           (if ((m.allocT t).2.allocT t2).1 then
              (.ok, ofList t (LSeq.zitAdd false xs ys c x1 x2).1, ofList t2 (LSeq.zitAdd false xs ys c x1 x2).2.1, z',
               ((m.allocT t).2.allocT t2).2)
            else (.errAlloc, ofList t xs, ofList t2 ys, z, ((m.allocT t).2.allocT t2).2.freeT t))
         else (.errAlloc, ofList t xs, ofList t2 ys, z, (m.allocT t).2)) ∧
      DList.ZipRel (LSeq.zitAdd false xs ys c x1 x2).1 (LSeq.zitAdd false xs ys c x1 x2).2.1 (LSeq.zitAdd false xs ys c x1 x2).2.2 z') ∧
    DList.zipIndex z = LSeq.itIndex c :=
  ⟨DList.zipNext_ofList xs ys c z m h, DList.zipRemove_ofList xs ys c z m h,
   fun x1 x2 => DList.zipReplace_ofList xs ys c z x1 x2 m h,
   fun x1 x2 k hc => DList.zipAdd_ofList xs ys c z x1 x2 k m h hc, DList.zipIndex_rel xs ys c z h⟩

/-- **Iterator of `cc_slist.c`** (an added element becomes the current one; no further
precondition than a current element, because `current`/`prev` are re-pointed — fix S2). -/
theorem slist_iter_simulation (t : Triple) (xs : List Nat) (c : LSeq.Cursor) (it : SList.Iter) (m : Mem) (h : SList.ItRel xs c it) :
    (∃ it', SList.iterNext (ofList t xs) it m = ((LSeq.itNext xs c).1, (LSeq.itNext xs c).2.1, it', m) ∧
      SList.ItRel xs (LSeq.itNext xs c).2.2 it') ∧
    (∃ it', SList.iterRemove (ofList t xs) it m =
        ((LSeq.itRemove xs c).1, (LSeq.itRemove xs c).2.1, ofList t (LSeq.itRemove xs c).2.2.1, it',
         if (LSeq.itRemove xs c).1 = .ok then m.freeT t else m) ∧
      SList.ItRel (LSeq.itRemove xs c).2.2.1 (LSeq.itRemove xs c).2.2.2 it') ∧
    (∀ x, SList.iterReplace (ofList t xs) it x m =
        ((LSeq.itReplace xs c x).1, (LSeq.itReplace xs c x).2.1, ofList t (LSeq.itReplace xs c x).2.2, m) ∧
      SList.ItRel (LSeq.itReplace xs c x).2.2 c it) ∧
    (∀ x k, c.cur = some k → 
      ∃ it', SList.iterAdd (ofList t xs) it x m =
        (if (m.allocT t).1 then (.ok, ofList t (LSeq.itAdd true xs c x).1, it', (m.allocT t).2) else (.errAlloc, ofList t xs, it, (m.allocT t).2)) ∧
      SList.ItRel (LSeq.itAdd true xs c x).1 (LSeq.itAdd true xs c x).2 it') ∧
    SList.iterIndex it = LSeq.itIndex c :=
  ⟨SList.iterNext_ofList xs c it m h, SList.iterRemove_ofList xs c it m h, fun x => SList.iterReplace_ofList xs c it x m h,
   fun x k hc => SList.iterAdd_ofList xs c it x k m h hc, SList.iterIndex_rel xs c it h⟩

/-- **Zip iterator of `cc_slist.c`.** -/
theorem slist_zip_simulation (t t2 : Triple) (xs ys : List Nat) (c : LSeq.Cursor) (z : SList.ZipIter) (m : Mem) (h : SList.ZipRel xs ys c z) :
    (∃ z', SList.zipNext (ofList t xs) (ofList t2 ys) z m = ((LSeq.zitNext xs ys c).1, (LSeq.zitNext xs ys c).2.1, z', m) ∧
      SList.ZipRel xs ys (LSeq.zitNext xs ys c).2.2 z') ∧
    (∃ z', SList.zipRemove (ofList t xs) (ofList t2 ys) z m =
        ((LSeq.zitRemove xs ys c).1, (LSeq.zitRemove xs ys c).2.1, ofList t (LSeq.zitRemove xs ys c).2.2.1,
         ofList t2 (LSeq.zitRemove xs ys c).2.2.2.1, z', if (LSeq.zitRemove xs ys c).1 = .ok then (m.freeT t).freeT t2 else m) ∧
      SList.ZipRel (LSeq.zitRemove xs ys c).2.2.1 (LSeq.zitRemove xs ys c).2.2.2.1 (LSeq.zitRemove xs ys c).2.2.2.2 z') ∧
    (∀ x1 x2, SList.zipReplace (ofList t xs) (ofList t2 ys) z x1 x2 m =
        ((LSeq.zitReplace xs ys c x1 x2).1, (LSeq.zitReplace xs ys c x1 x2).2.1,
         ofList t (LSeq.zitReplace xs ys c x1 x2).2.2.1, ofList t2 (LSeq.zitReplace xs ys c x1 x2).2.2.2, m) ∧
      SList.ZipRel (LSeq.zitReplace xs ys c x1 x2).2.2.1 (LSeq.zitReplace xs ys c x1 x2).2.2.2 c z) ∧
    (∀ x1 x2 k, c.cur = some k → 
      ∃ z', SList.zipAdd (ofList t xs) (ofList t2 ys) z x1 x2 m =
        (if (m.allocT t).1 then
           (if ((m.allocT t).2.allocT t2).1 then
              (.ok, ofList t (LSeq.zitAdd true xs ys c x1 x2).1, ofList t2 (LSeq.zitAdd true xs ys c x1 x2).2.1, z',
               ((m.allocT t).2.allocT t2).2)
            else (.errAlloc, ofList t xs, ofList t2 ys, z, ((m.allocT t).2.allocT t2).2.freeT t))
         else (.errAlloc, ofList t xs, ofList t2 ys, z, (m.allocT t).2)) ∧
      SList.ZipRel (LSeq.zitAdd true xs ys c x1 x2).1 (LSeq.zitAdd true xs ys c x1 x2).2.1 (LSeq.zitAdd true xs ys c x1 x2).2.2 z') ∧
    SList.zipIndex z = LSeq.itIndex c :=
  ⟨SList.zipNext_ofList xs ys c z m h, SList.zipRemove_ofList xs ys c z m h,
   fun x1 x2 => SList.zipReplace_ofList xs ys c z x1 x2 m h,
   fun x1 x2 k hc => SList.zipAdd_ofList xs ys c z x1 x2 k m h hc, SList.zipIndex_rel xs ys c z h⟩

/-! ## Whole iterator programs

`Proofs/ListPrograms.lean`: `IOp`/`ZOp` are the iterator calls, `DList.iterRun`/`zipRun` … run a
program on the model, `LSeqP.run`/`zrun` on the ideal cursor.  The ideal run is guided by the refusals
the model reports (a refused `add` did not happen) and returns, as its third component, whether
**every call respected the documented contract** — `add` only with a current element (one was yielded and
not removed since; repeated `add`s behind one yielded element are inside the contract).  The relation
`IterSim`/`DiterSim`/`ZipSim` at the end says: the list is in the canonical state of the ideal
content (hence the invariant), the cursors are related, no fault was raised, the other allocator was
not touched, and the ledger moved exactly with the length. -/

/-- **programs over the ascending iterator of `cc_list.c`**, any refusal schedule -/
theorem dlist_iter_program (t : Triple) (l : Chain) (h : l.Inv) (ht : l.triple = t) (m : Mem) (ops : List IOp)
    (hlive : l.abs.length ≤ m.liveT t)
    (hl : (LSeqP.run false false (l.abs, LSeq.itNew) ops ((DList.iterRun false (l, DList.iterInit l, m) ops).1.map stFlag)).2.2 = true) :
    (DList.iterRun false (l, DList.iterInit l, m) ops).1 =
      (LSeqP.run false false (l.abs, LSeq.itNew) ops ((DList.iterRun false (l, DList.iterInit l, m) ops).1.map stFlag)).1 ∧
    DList.IterSim t m l.abs.length
      (LSeqP.run false false (l.abs, LSeq.itNew) ops ((DList.iterRun false (l, DList.iterInit l, m) ops).1.map stFlag)).2.1
      (DList.iterRun false (l, DList.iterInit l, m) ops).2 := by
  have e := h.eq
  rw [ht] at e
  generalize l.abs = xs at *
  subst e
  exact DList.iter_program _ xs LSeq.itNew _ m ops (DList.iterInit_rel xs) hlive hl

/-- **programs over the descending iterator of `cc_list.c`** -/
theorem dlist_diter_program (t : Triple) (l : Chain) (h : l.Inv) (ht : l.triple = t) (m : Mem) (ops : List IOp)
    (hlive : l.abs.length ≤ m.liveT t)
    (hl : (LSeqP.run false true (l.abs, LSeq.ditNew l.abs) ops ((DList.iterRun true (l, DList.diterInit l, m) ops).1.map stFlag)).2.2 = true) :
    (DList.iterRun true (l, DList.diterInit l, m) ops).1 =
      (LSeqP.run false true (l.abs, LSeq.ditNew l.abs) ops ((DList.iterRun true (l, DList.diterInit l, m) ops).1.map stFlag)).1 ∧
    DList.DiterSim t m l.abs.length
      (LSeqP.run false true (l.abs, LSeq.ditNew l.abs) ops ((DList.iterRun true (l, DList.diterInit l, m) ops).1.map stFlag)).2.1
      (DList.iterRun true (l, DList.diterInit l, m) ops).2 := by
  have e := h.eq
  rw [ht] at e
  generalize l.abs = xs at *
  subst e
  exact DList.diter_program _ xs (LSeq.ditNew xs) _ m ops (DList.diterInit_rel xs) hlive hl

/-- **programs over the zip iterator of `cc_list.c`**, the two lists on any two triples -/
theorem dlist_zip_program (l1 l2 : Chain) (h1 : l1.Inv) (h2 : l2.Inv) (m : Mem) (ops : List ZOp)
    (hlive : ∀ t', ownedBy l1.triple l2.triple l1.abs l2.abs t' ≤ m.liveT t')
    (hl : (LSeqP.zrun false (l1.abs, l2.abs, LSeq.itNew) ops ((DList.zipRun (l1, l2, DList.zipInit l1 l2, m) ops).1.map zFlag)).2.2 = true) :
    (DList.zipRun (l1, l2, DList.zipInit l1 l2, m) ops).1 =
      (LSeqP.zrun false (l1.abs, l2.abs, LSeq.itNew) ops ((DList.zipRun (l1, l2, DList.zipInit l1 l2, m) ops).1.map zFlag)).1 ∧
    DList.ZipSim l1.triple l2.triple m l1.abs l2.abs
      (LSeqP.zrun false (l1.abs, l2.abs, LSeq.itNew) ops ((DList.zipRun (l1, l2, DList.zipInit l1 l2, m) ops).1.map zFlag)).2.1
      (DList.zipRun (l1, l2, DList.zipInit l1 l2, m) ops).2 := by
  have e1 := h1.eq
  have e2 := h2.eq
  generalize l1.abs = xs at *
  generalize l2.abs = ys at *
  generalize l1.triple = t at *
  generalize l2.triple = t2 at *
  subst e1 e2
  exact DList.zip_program t t2 xs ys LSeq.itNew _ m ops (DList.zipInit_rel xs ys) hlive hl

/-- **programs over the iterator of `cc_slist.c`** -/
theorem slist_iter_program (t : Triple) (l : Chain) (h : l.Inv) (ht : l.triple = t) (m : Mem) (ops : List IOp)
    (hlive : l.abs.length ≤ m.liveT t)
    (hl : (LSeqP.run true false (l.abs, LSeq.itNew) ops ((SList.iterRun (l, SList.iterInit l, m) ops).1.map stFlag)).2.2 = true) :
    (SList.iterRun (l, SList.iterInit l, m) ops).1 =
      (LSeqP.run true false (l.abs, LSeq.itNew) ops ((SList.iterRun (l, SList.iterInit l, m) ops).1.map stFlag)).1 ∧
    SList.IterSim t m l.abs.length
      (LSeqP.run true false (l.abs, LSeq.itNew) ops ((SList.iterRun (l, SList.iterInit l, m) ops).1.map stFlag)).2.1
      (SList.iterRun (l, SList.iterInit l, m) ops).2 := by
  have e := h.eq
  rw [ht] at e
  generalize l.abs = xs at *
  subst e
  exact SList.iter_program _ xs LSeq.itNew _ m ops (SList.iterInit_rel xs) hlive hl

/-- **programs over the zip iterator of `cc_slist.c`** -/
theorem slist_zip_program (l1 l2 : Chain) (h1 : l1.Inv) (h2 : l2.Inv) (m : Mem) (ops : List ZOp)
    (hlive : ∀ t', ownedBy l1.triple l2.triple l1.abs l2.abs t' ≤ m.liveT t')
    (hl : (LSeqP.zrun true (l1.abs, l2.abs, LSeq.itNew) ops ((SList.zipRun (l1, l2, SList.zipInit l1 l2, m) ops).1.map zFlag)).2.2 = true) :
    (SList.zipRun (l1, l2, SList.zipInit l1 l2, m) ops).1 =
      (LSeqP.zrun true (l1.abs, l2.abs, LSeq.itNew) ops ((SList.zipRun (l1, l2, SList.zipInit l1 l2, m) ops).1.map zFlag)).1 ∧
    SList.ZipSim l1.triple l2.triple m l1.abs l2.abs
      (LSeqP.zrun true (l1.abs, l2.abs, LSeq.itNew) ops ((SList.zipRun (l1, l2, SList.zipInit l1 l2, m) ops).1.map zFlag)).2.1
      (SList.zipRun (l1, l2, SList.zipInit l1 l2, m) ops).2 := by
  have e1 := h1.eq
  have e2 := h2.eq
  generalize l1.abs = xs at *
  generalize l2.abs = ys at *
  generalize l1.triple = t at *
  generalize l2.triple = t2 at *
  subst e1 e2
  exact SList.zip_program t t2 xs ys LSeq.itNew _ m ops (SList.zipInit_rel xs ys) hlive hl

/-- a program is legal by construction when it never calls `add`; e.g. "remove every yielded element"
and "replace every yielded element" need no side condition -/
theorem legal_without_add (follow dsc : Bool) : ∀ (ops : List IOp) (s : List Nat × LSeq.Cursor) (fl : List Bool),
    (∀ op, op ∈ ops → ∀ x, op ≠ .add x) → (LSeqP.run follow dsc s ops fl).2.2 = true
  | [], _, _, _ => rfl
  | op :: ops, s, fl, h => by
    have ih := legal_without_add follow dsc ops (LSeqP.step follow dsc s op (fl.headD false)).2 fl.tail
      (fun o ho => h o (List.mem_cons_of_mem _ ho))
    have hop := h op List.mem_cons_self
    simp only [LSeqP.run, specRun, Bool.and_eq_true] at ih ⊢
    refine ⟨?_, ih⟩
    cases op <;> first | rfl | exact absurd rfl (hop _)

/-! ## The property in its own vocabulary: laws of the ideal cursor -/

/-- directly after the element at position `p` was yielded: `remove` returns it, removes exactly it,
and the traversal continues over precisely the elements not yet visited; `index` is `p` -/
theorem cursor_remove_law (xs : List Nat) (p : Nat) (hp : p < xs.length) :
    LSeq.itIndex ⟨p + 1, some p⟩ = p ∧
    LSeq.itRemove xs ⟨p + 1, some p⟩ = (.ok, some (xs.getD p 0), xs.eraseIdx p, ⟨p, none⟩) ∧
    (xs.eraseIdx p).drop p = xs.drop (p + 1) ∧ (xs.eraseIdx p).take p = xs.take p ∧
    (xs.eraseIdx p).length + 1 = xs.length := by
  refine ⟨by simp [LSeq.itIndex], by simp [LSeq.itRemove], ?_, ?_, by rw [List.length_eraseIdx, if_pos hp]; omega⟩
  · rw [List.eraseIdx_eq_take_drop_succ, List.drop_append_of_le_length (by simp; omega)]
    simp [List.length_take, Nat.min_eq_left (Nat.le_of_lt hp)]
  · rw [List.eraseIdx_eq_take_drop_succ, List.take_append_of_le_length (by simp; omega)]
    simp [List.take_take]

/-- … `add` inserts directly behind the yielded element; the elements not yet visited are untouched -/
theorem cursor_add_law (follow : Bool) (xs : List Nat) (p x : Nat) (hp : p < xs.length) :
    (LSeq.itAdd follow xs ⟨p + 1, some p⟩ x).1 = xs.insertIdx (p + 1) x ∧
    (LSeq.itAdd follow xs ⟨p + 1, some p⟩ x).2.pos = p + 2 ∧
    (xs.insertIdx (p + 1) x).drop (p + 2) = xs.drop (p + 1) ∧ (xs.insertIdx (p + 1) x).take (p + 1) = xs.take (p + 1) ∧
    (xs.insertIdx (p + 1) x).getD (p + 1) 0 = x := by
  have hle : p + 1 ≤ xs.length := hp
  refine ⟨rfl, rfl, ?_, ?_, ?_⟩
  · apply ext_getD
    · simp [List.length_insertIdx, hle]
    · intro j hj
      simp only [List.length_drop, List.length_insertIdx, hle, if_true] at hj
      simp only [List.getD_eq_getElem?_getD, List.getElem?_drop]
      rw [List.getElem?_insertIdx]
      rw [if_neg (by omega), if_neg (by omega)]
      congr 2; omega
  · apply ext_getD
    · simp [List.length_insertIdx, hle]; omega
    · intro j hj
      simp only [List.length_take, List.length_insertIdx, hle, if_true] at hj
      simp only [List.getD_eq_getElem?_getD, List.getElem?_take]
      by_cases hjp : j < p + 1
      · rw [if_pos hjp, if_pos hjp, List.getElem?_insertIdx, if_pos hjp]
      · omega
  · simp only [List.getD_eq_getElem?_getD]
    rw [List.getElem?_insertIdx, if_neg (by omega)]; simp [hle]

/-- … `replace` returns the yielded element and changes exactly that position -/
theorem cursor_replace_law (xs : List Nat) (p x : Nat) (hp : p < xs.length) :
    LSeq.itReplace xs ⟨p + 1, some p⟩ x = (.ok, some (xs.getD p 0), xs.set p x) ∧ (xs.set p x).length = xs.length ∧
    (∀ j, j ≠ p → (xs.set p x).getD j 0 = xs.getD j 0) ∧ (xs.set p x).getD p 0 = x := by
  refine ⟨by simp [LSeq.itReplace], by simp, ?_, ?_⟩
  · intro j hj; rw [getD_set]; rw [if_neg (by intro c; exact hj c.1.symm)]
  · rw [getD_set, if_pos ⟨rfl, hp⟩]

/-! ## Non-vacuity: a cursor in the middle of a list satisfies the relation -/
example : DList.ItRel [5, 6, 7] ⟨2, some 1⟩ ⟨2, some 1, some 2⟩ :=
  ⟨rfl, rfl, rfl, by decide, by intro k h; cases h; decide⟩

/-- a program with an insertion and a removal respects the contract (third component) and runs on
the model as on the ideal cursor; so does the same program with a second `add` for the same yielded element -/
example :
    (LSeqP.run false false ([5, 6, 7], LSeq.itNew) [.next, .add 9, .next, .remove, .index] [false, false, false, false, false]).2.2 = true ∧
    (LSeqP.run false false ([5, 6, 7], LSeq.itNew) [.next, .add 9, .add 8] [false, false, false]).2.2 = true ∧
    (DList.iterRun false (ofList .libc [5, 6, 7], DList.iterInit (ofList .libc [5, 6, 7]), { liveLibc := 3 })
      [.next, .add 9, .next, .remove, .index]).2.1.abs = [5, 9, 7] := by decide

/-- **regression witness of defect L6** (`add 1; next; iter_add 2; iter_add 3`): the second `iter_add` links its node
directly behind the yielded element, in front of the node added before; the list is `[1, 3, 2]` in canonical state, in
particular `tail` is the node of `2` (the old `index == size` test pointed it at the node of `3`); the zip iterator
likewise on both lists -/
theorem dlist_repeated_add :
    (DList.iterRun false (ofList .libc [1], DList.iterInit (ofList .libc [1]), { liveLibc := 1 }) [.next, .add 2, .add 3]).2.1 =
      ofList .libc [1, 3, 2] ∧
    (DList.zipRun (ofList .libc [1], ofList .conf [4, 5], DList.zipInit (ofList .libc [1]) (ofList .conf [4, 5]), { liveLibc := 1, live := 2 })
      [.next, .add 2 6, .add 3 7]).2.1 = ofList .libc [1, 3, 2] ∧
    (DList.zipRun (ofList .libc [1], ofList .conf [4, 5], DList.zipInit (ofList .libc [1]) (ofList .conf [4, 5]), { liveLibc := 1, live := 2 })
      [.next, .add 2 6, .add 3 7]).2.2.1 = ofList .conf [4, 7, 6, 5] := by decide

end CC.Properties.C07List
