import CollectionsC.Proofs.ArrayBulk
/-! # C18 (array part) — `cc_array_sort` yields an ordered permutation

Statements only.  `cc_array_sort` hands the buffer, the element count and the element width to the C
library's `qsort`.  `qsort` is **assumed**, not verified: its behaviour is the parameter
`sortFn : List Nat → List Nat` with the specification `QsortSpec le sortFn` (the result is a
permutation of the input and pairwise ordered by the comparator `le`).  What is proved about the
code: exactly the `size` live slots are handed over and written back (right buffer, right length),
nothing else changes. -/
namespace CC.Properties.C18Array
open CC

/-- the assumed contract of `qsort` under a total-preorder comparator -/
def QsortSpec (le : Nat → Nat → Bool) (sortFn : List Nat → List Nat) : Prop :=
  ∀ xs, (sortFn xs).Perm xs ∧ (sortFn xs).Pairwise (fun a b => le a b = true)

/-- the content after `cc_array_sort` is exactly what the sorting routine makes of the old content;
size, capacity, block and configuration are untouched; no allocation, no fault -/
theorem sort_refines (sortFn : List Nat → List Nat) (a : Arr) (m : Mem) (hinv : a.Inv)
    (hlen : (sortFn a.abs).length = a.abs.length) :
    (a.sort sortFn m).1.abs = sortFn a.abs ∧ (a.sort sortFn m).1.size = a.size ∧
    (a.sort sortFn m).1.capacity = a.capacity ∧ (a.sort sortFn m).1.Inv ∧ (a.sort sortFn m).2 = m := by
  obtain ⟨r1, r2, r3, r4⟩ := Arr.sort_spec sortFn a m hinv hlen
  exact ⟨r1, r3, r2.1, r2.inv hinv (by omega), r4⟩

/-- **ordered permutation**: same multiset of elements, no element greater than its successor -/
theorem sort_ordered_permutation (le : Nat → Nat → Bool) (sortFn : List Nat → List Nat)
    (hq : QsortSpec le sortFn) (a : Arr) (m : Mem) (hinv : a.Inv) :
    (a.sort sortFn m).1.abs.Perm a.abs ∧
    (a.sort sortFn m).1.abs.Pairwise (fun x y => le x y = true) ∧
    (∀ x, (a.sort sortFn m).1.abs.count x = a.abs.count x) := by
  obtain ⟨hp, ho⟩ := hq a.abs
  obtain ⟨r1, _⟩ := sort_refines sortFn a m hinv hp.length_eq
  rw [r1]
  exact ⟨hp, ho, fun x => hp.count_eq x⟩

/-- sorting an empty or single-element array changes nothing -/
theorem sort_small (le : Nat → Nat → Bool) (sortFn : List Nat → List Nat) (hq : QsortSpec le sortFn)
    (a : Arr) (m : Mem) (hinv : a.Inv) (h : a.size ≤ 1) : (a.sort sortFn m).1.abs = a.abs := by
  obtain ⟨hp, _⟩ := hq a.abs
  obtain ⟨r1, _⟩ := sort_refines sortFn a m hinv hp.length_eq
  rw [r1]
  match hx : a.abs with
  | [] => rw [hx] at hp; exact List.perm_nil.1 hp
  | [x] => rw [hx] at hp; exact List.perm_singleton.1 hp
  | x :: y :: t =>
    have := congrArg List.length hx
    simp at this; omega

/-- the assumption is satisfiable: a merge sort meets `QsortSpec` for any total preorder -/
theorem mergeSort_meets_spec (le : Nat → Nat → Bool)
    (htrans : ∀ a b c, le a b = true → le b c = true → le a c = true)
    (htotal : ∀ a b, (le a b || le b a) = true) : QsortSpec le (fun xs => xs.mergeSort le) :=
  fun xs => ⟨List.mergeSort_perm xs le, List.pairwise_mergeSort htrans htotal xs⟩

/-! Non-vacuity: an array with ties and a dead slot, sorted by a (kernel-reducible, stable) insertion
sort for the preorder "compare modulo 10"; below, `List.mergeSort` meets `QsortSpec` for that preorder -/
example :
    let a : Arr := Arr.mk 4 5 [21, 3, 11, 2, 99] (fun c => 2 * c) .conf
    let ins : List Nat → List Nat := fun xs => xs.foldr (fun x acc =>
      acc.takeWhile (fun y => y % 10 < x % 10) ++ x :: acc.dropWhile (fun y => y % 10 < x % 10)) []
    a.Inv ∧ (a.sort ins {}).1.abs = [21, 11, 2, 3] ∧ (a.sort ins {}).1.buf = [21, 11, 2, 3, 99] ∧
    (a.sort ins {}).1.Inv ∧ (a.sort ins {}).2.fault = false := by decide

example : QsortSpec (fun x y => decide (x % 10 ≤ y % 10)) (fun xs => xs.mergeSort (fun x y => decide (x % 10 ≤ y % 10))) :=
  mergeSort_meets_spec _ (fun a b c h1 h2 => by simp at *; omega) (fun a b => by simp; omega)

end CC.Properties.C18Array
