import CollectionsC.Properties.C11
import CollectionsC.Proofs.TSTCross
/-! # C06 (TST table part): memory safety and leak freedom

`Mem.fault` is set by a dangling node address, by running out of iterator fuel or by a free with nothing
live; `Mem.live` counts the blocks obtained through the configured triple.  The table owns
`1 + nodes + marked` blocks (header, one per node, one per entry: `Table.Owns`, `Node.owned`).
The structural facts hold for **every** key, the empty one included (X5 is a functional defect only);
the iterator-program facts need the full invariant `Good`, hence `_partial`. -/
namespace CC.Properties.C06TST
open CC CC.TST
open CC.Spec (StrMap)
open CC.Spec.StrMap (Op Out IOp)

variable {cmp : Cmp}

/-- (a) **no operation faults**, with any key: the invariant is kept and the fault flag is untouched -/
theorem nofault (t : Table) (op : Op) (mem : Mem) (hi : t.Inv cmp) (hl : t.Owns mem) :
    (t.step cmp op mem).2.2.fault = mem.fault ∧ (t.step cmp op mem).2.1.Inv cmp :=
  ⟨(Table.step_struct t op mem hi hl).2.1, (Table.step_struct t op mem hi hl).1⟩

/-- (b) **ledger, per step**: the change of `live` is the change of the number of blocks the table owns
(`add` of a new key: chain nodes + entry; `remove`: entry + pruned nodes; `remove_all`: everything) -/
theorem ledger (t : Table) (op : Op) (mem : Mem) (hi : t.Inv cmp) (hl : t.Owns mem) :
    (t.step cmp op mem).2.2.live + t.root.owned = mem.live + (t.step cmp op mem).2.1.root.owned ∧
    (t.step cmp op mem).2.1.Owns (t.step cmp op mem).2.2 :=
  ⟨(Table.step_struct t op mem hi hl).2.2, Table.step_owns t op mem hi hl⟩

/-- (a) lifted to histories, for every key set and every refusal schedule -/
theorem history_nofault (ops : List Op) (t : Table) (mem : Mem) (hi : t.Inv cmp) (hl : t.Owns mem) :
    (t.run cmp ops mem).2.2.fault = mem.fault ∧ (t.run cmp ops mem).2.1.Inv cmp ∧
    (t.run cmp ops mem).2.2.live + t.root.owned = mem.live + (t.run cmp ops mem).2.1.root.owned :=
  ⟨(Table.run_struct t ops mem hi hl).2.1, (Table.run_struct t ops mem hi hl).1, (Table.run_struct t ops mem hi hl).2.2⟩

/-- (b) **construct, any history, destroy: `live` is back to its initial value and nothing faulted** —
every node and entry block is released exactly once, whatever the allocator refused on the way. -/
theorem destroy_releases_all (m0 : Mem) (ops : List Op) :
    ∀ t, (Table.new m0).2.1 = some t →
      ((t.run cmp ops (Table.new m0).2.2).2.1.destroy (t.run cmp ops (Table.new m0).2.2).2.2).live = m0.live ∧
      ((t.run cmp ops (Table.new m0).2.2).2.1.destroy (t.run cmp ops (Table.new m0).2.2).2.2).fault = m0.fault := by
  intro t ht
  have hn := Table.new_spec m0
  have hok : (Table.new m0).1 = .ok := by
    by_cases h : (Table.new m0).1 = .ok
    · exact h
    · have := (hn.2.1 h).2.1; rw [ht] at this; cases this
  obtain ⟨h1, h2⟩ := hn.1 hok
  rw [ht] at h1; simp only [Option.some.injEq] at h1; subst h1
  have hi : (Table.mk 0 .nil).Inv cmp := ⟨rfl, trivial, trivial⟩
  have hl : (Table.mk 0 .nil).Owns (Table.new m0).2.2 := by unfold Table.Owns; simp; omega
  have hr := Table.run_struct (cmp := cmp) ⟨0, .nil⟩ ops _ hi hl
  have hl' : ((Table.mk 0 .nil).run cmp ops (Table.new m0).2.2).2.1.Owns ((Table.mk 0 .nil).run cmp ops (Table.new m0).2.2).2.2 := by
    unfold Table.Owns at hl ⊢; have := hr.2.2; simp at this hl ⊢; omega
  have hd := Table.destroy_spec _ _ hr.1.1 hl'
  refine ⟨?_, by rw [hd.2, hr.2.1, hn.2.2]⟩
  rw [hd.1]; have := hr.2.2; simp at this; omega

/-- a refused constructor leaves nothing behind -/
theorem new_refused_releases_all (m0 : Mem) (h : (Table.new m0).1 ≠ .ok) :
    (Table.new m0).2.1 = none ∧ (Table.new m0).2.2.live = m0.live ∧ (Table.new m0).2.2.fault = m0.fault :=
  ⟨((Table.new_spec m0).2.1 h).2.1, ((Table.new_spec m0).2.1 h).2.2, (Table.new_spec m0).2.2⟩

/-- **`remove` frees the entry block** (and every pruned node): strictly fewer owned blocks, `live` drops
by exactly that amount (defect X1 was: the entry was never freed) -/
theorem remove_frees_entry_partial (hc : CmpLaw cmp) (t : Table) (k : Key) (mem : Mem) (v : Nat)
    (hk : k ≠ []) (hg : t.Good cmp) (hl : t.Owns mem) (hp : t.abs.get k = some v) :
    (t.remove cmp k mem).2.2.1.root.owned < t.root.owned ∧
    (t.remove cmp k mem).2.2.2.live + t.root.owned = mem.live + (t.remove cmp k mem).2.2.1.root.owned ∧
    (t.remove cmp k mem).2.2.2.fault = mem.fault := by
  have h := C11.remove_refines_partial hc t k mem v hk hg hl hp
  exact ⟨h.2.2.2.2.2.1, h.2.2.2.2.1, h.2.2.2.2.2.2⟩

/-- **`remove_all` frees every node and every entry block** -/
theorem removeAll_frees_all (t : Table) (mem : Mem) (hi : t.Inv cmp) (hl : t.Owns mem) :
    (t.removeAll mem).1 = ⟨0, .nil⟩ ∧ (t.removeAll mem).2.live + t.root.owned = mem.live ∧
    (t.removeAll mem).2.fault = mem.fault := by
  have h := Table.removeAll_spec t mem hi.1 hl
  refine ⟨h.1, ?_, h.2.2.1⟩
  rw [h.2.1]; unfold Table.Owns at hl; omega

/-- `iter_next` / `iter_remove` programs: no fault (no dangling node address although `iter_remove`
frees nodes the iterator has passed; the fuel bound `2·nodes + 2` always suffices), ledger kept -/
theorem iter_history_nofault_partial (hc : CmpLaw cmp) (ops : List IOp) (t : Table) (mem : Mem)
    (hg : t.Good cmp) (hl : t.Owns mem) (hlegal : StrMap.legalProg false ops = true) :
    (t.iterRun (iterInit t) ops mem).2.2.2.fault = mem.fault ∧ (t.iterRun (iterInit t) ops mem).2.1.Good cmp :=
  ⟨(C11.iter_init_program_refines_partial hc ops t mem hg hl hlegal).2.2.2.2,
   (C11.iter_init_program_refines_partial hc ops t mem hg hl hlegal).2.2.2.1⟩

/-- (c) the only callback variants of this container are `foreach_key` / `foreach_value`: each held
pair is handed to the callback exactly once (callback log = `abs`, in first-arrival pre-order) -/
theorem foreach_visits_each_once (t : Table) (mem : Mem) :
    (iterAll t mem).1 = t.abs.items ∧ (iterAll t mem).2 = mem := by
  rw [iterAll_eq]; exact ⟨rfl, rfl⟩

end CC.Properties.C06TST
