import CollectionsC.Properties.C11
import CollectionsC.Proofs.TSTCross
/-! # C06 (TST table part): memory safety and leak freedom

`Mem.fault` is set by a dangling node address, by running out of iterator fuel or by a free with nothing
live; `Mem.liveT t.triple` counts the blocks obtained through the table's allocator triple (`live` for
`cc_tsttable_new_conf`, `liveLibc` for `cc_tsttable_new`).  The table owns `1 + nodes + marked` blocks
(header, one per node, one per entry: `Table.Owns`, `Node.owned`).
`StructOK cmp t mem t' mem'` (Proofs/TSTCross.lean) bundles: structural invariant of `t'`, `fault`
unchanged, same triple, and the **exact** ledger equation
`mem'.liveT + owned t = mem.liveT + owned t'` — a leaked block falsifies it.
All of this holds for **every** key, the empty one included (X5 is a functional defect only), for table
calls and for whole iterator sessions (`Op.iterate`: `iter_init` then any `iter_next` / `iter_remove` /
query calls, repeated removes included). -/
namespace CC.Properties.C06TST
open CC CC.TST
open CC.Spec (StrMap)
open CC.Spec.StrMap (Op Out IOp)

variable {cmp : Cmp}

/-- (a) **no operation faults**, with any key: the invariant is kept and the fault flag is untouched -/
theorem nofault (t : Table) (op : Op) (mem : Mem) (hi : t.Inv cmp) (hl : t.Owns mem) :
    (t.step cmp op mem).2.2.fault = mem.fault ∧ (t.step cmp op mem).2.1.Inv cmp :=
  ⟨(Table.step_struct t op mem hi hl).2.1, (Table.step_struct t op mem hi hl).1⟩

/-- (b) **ledger, per step** (exact): the change of the live-block counter is the change of the number
of blocks the table owns (`add` of a new key: chain nodes + entry; `remove` / `iter_remove`: entry +
pruned nodes; `remove_all`: everything) -/
theorem ledger (t : Table) (op : Op) (mem : Mem) (hi : t.Inv cmp) (hl : t.Owns mem) :
    (t.step cmp op mem).2.2.liveT t.triple + t.root.owned =
      mem.liveT t.triple + (t.step cmp op mem).2.1.root.owned ∧
    (t.step cmp op mem).2.1.Owns (t.step cmp op mem).2.2 :=
  ⟨(Table.step_struct t op mem hi hl).2.2.2, (Table.step_struct t op mem hi hl).owns hl⟩

/-- one call of an iterator session: exact ledger, no fault (no dangling node address although
`iter_remove` frees nodes the iterator has passed; the fuel bound `2·nodes + 2` always suffices) -/
theorem iter_call_ledger (t : Table) (it : Iter) (op : IOp) (mem : Mem) (todo : List (Path × Entry))
    (hi : t.Inv cmp) (hl : t.Owns mem) (hok : IterOk t.root it todo) (hcm : it.curMarked t.root) :
    StructOK cmp t mem (t.iterOp cmp it op mem).2.1 (t.iterOp cmp it op mem).2.2.2 :=
  (Table.iterOp_struct t it op mem todo hi hl hok hcm).1

/-- (a)+(b) lifted to histories (iterator sessions included), for every key set and refusal schedule -/
theorem history_nofault (ops : List Op) (t : Table) (mem : Mem) (hi : t.Inv cmp) (hl : t.Owns mem) :
    (t.run cmp ops mem).2.2.fault = mem.fault ∧ (t.run cmp ops mem).2.1.Inv cmp ∧
    (t.run cmp ops mem).2.2.liveT t.triple + t.root.owned =
      mem.liveT t.triple + (t.run cmp ops mem).2.1.root.owned :=
  ⟨(Table.run_struct t ops mem hi hl).2.1, (Table.run_struct t ops mem hi hl).1,
   (Table.run_struct t ops mem hi hl).2.2.2⟩

/-- (b) **construct (either constructor), any history, destroy: the live-block counter is back to its
initial value and nothing faulted** — every node and entry block is released exactly once, whatever
the allocator refused on the way. -/
theorem destroy_releases_all (tr : Triple) (m0 : Mem) (ops : List Op) :
    ∀ t, (Table.new tr m0).2.1 = some t →
      ((t.run cmp ops (Table.new tr m0).2.2).2.1.destroy (t.run cmp ops (Table.new tr m0).2.2).2.2).liveT tr =
        m0.liveT tr ∧
      ((t.run cmp ops (Table.new tr m0).2.2).2.1.destroy (t.run cmp ops (Table.new tr m0).2.2).2.2).fault =
        m0.fault := by
  intro t ht
  have hn := Table.new_spec tr m0
  have hok : (Table.new tr m0).1 = .ok := by
    by_cases h : (Table.new tr m0).1 = .ok
    · exact h
    · have := (hn.2.1 h).2.1; rw [ht] at this; cases this
  obtain ⟨h1, h2⟩ := hn.1 hok
  rw [ht] at h1; simp only [Option.some.injEq] at h1; subst h1
  have hi : (Table.mk 0 .nil tr).Inv cmp := ⟨rfl, trivial, trivial⟩
  have hl : (Table.mk 0 .nil tr).Owns (Table.new tr m0).2.2 := by unfold Table.Owns; simp; omega
  obtain ⟨r1, r2, r3, r4⟩ := Table.run_struct (cmp := cmp) ⟨0, .nil, tr⟩ ops _ hi hl
  have hl' := (Table.run_struct (cmp := cmp) ⟨0, .nil, tr⟩ ops _ hi hl).owns hl
  have hd := Table.destroy_spec _ _ r1.1 hl'
  rw [r3] at hd
  simp only [owned_nil] at r4
  unfold Table.Owns at hl'
  rw [r3] at hl'
  dsimp only at hd r4 hl' h2
  refine ⟨?_, by rw [hd.2, r2, hn.2.2]⟩
  rw [hd.1]; omega

/-- a refused constructor leaves nothing behind -/
theorem new_refused_releases_all (tr : Triple) (m0 : Mem) (h : (Table.new tr m0).1 ≠ .ok) :
    (Table.new tr m0).2.1 = none ∧ (Table.new tr m0).2.2.liveT tr = m0.liveT tr ∧
    (Table.new tr m0).2.2.fault = m0.fault :=
  ⟨((Table.new_spec tr m0).2.1 h).2.1, ((Table.new_spec tr m0).2.1 h).2.2, (Table.new_spec tr m0).2.2⟩

/-- **`remove` frees the entry block** (and every pruned node): strictly fewer owned blocks, the counter
drops by exactly that amount (defect X1 was: the entry was never freed) -/
theorem remove_frees_entry_partial (hc : CmpLaw cmp) (t : Table) (k : Key) (mem : Mem) (v : Nat)
    (hk : k ≠ []) (hg : t.Good cmp) (hl : t.Owns mem) (hp : t.abs.get k = some v) :
    (t.remove cmp k mem).2.2.1.root.owned < t.root.owned ∧
    (t.remove cmp k mem).2.2.2.liveT t.triple + t.root.owned =
      mem.liveT t.triple + (t.remove cmp k mem).2.2.1.root.owned ∧
    (t.remove cmp k mem).2.2.2.fault = mem.fault := by
  have h := C11.remove_refines_partial hc t k mem v hk hg hl hp
  exact ⟨h.2.2.2.2.2.1, h.2.2.2.2.1, h.2.2.2.2.2.2⟩

/-- **`iter_remove` frees the entry block** of the yielded element (and every pruned node) -/
theorem iter_remove_frees_entry (t : Table) (it : Iter) (w : Bool) (mem : Mem) (todo : List (Path × Entry))
    (p : Path) (e : Entry) (hl : t.Owns mem) (hat : IterAt t.root it todo) (hadv : it.adv = false)
    (hcur : it.cur = some p) (hd : (t.root.sub p).data? = some e) :
    (iterRemove t it w mem).2.2.1.root.owned < t.root.owned ∧
    (iterRemove t it w mem).2.2.2.2.liveT t.triple + t.root.owned =
      mem.liveT t.triple + (iterRemove t it w mem).2.2.1.root.owned := by
  obtain ⟨_, _, h3, h4, _, _⟩ := iterRemove_ok t it w mem todo p e hat hadv hcur hd
  obtain ⟨_, _, q3, _, q6⟩ := remAt_spec t.triple t.root p mem e hd (by unfold Table.Owns at hl; omega)
  rw [h3, h4]; exact ⟨q6, q3⟩

/-- **`remove_all` frees every node and every entry block** -/
theorem removeAll_frees_all (t : Table) (mem : Mem) (hi : t.Inv cmp) (hl : t.Owns mem) :
    (t.removeAll mem).1 = { t with size := 0, root := .nil } ∧
    (t.removeAll mem).2.liveT t.triple + t.root.owned = mem.liveT t.triple ∧
    (t.removeAll mem).2.fault = mem.fault := by
  have h := Table.removeAll_spec t mem hi.1 hl
  refine ⟨h.1, ?_, h.2.2⟩
  rw [h.2.1]; unfold Table.Owns at hl; omega

/-- (c) the only callback variants of this container are `foreach_key` / `foreach_value`: each held
pair is handed to the callback exactly once (callback log = `abs`, in first-arrival pre-order) -/
theorem foreach_visits_each_once (t : Table) (mem : Mem) :
    (iterAll t mem).1 = t.abs.items ∧ (iterAll t mem).2 = mem := by
  rw [iterAll_eq]; exact ⟨rfl, rfl⟩

/-! non-vacuity: a concrete table with nested prefixes, its ledger, and a session that removes through
the iterator -/
example : C11.nestedTable.Inv cmpSigned ∧ C11.nestedTable.Owns { live := 7 } ∧
    (C11.nestedTable.step cmpSigned (.iterate [.next, .next, .remove true, .remove false, .next]) { live := 7 }).2.2.live = 5 := by
  refine ⟨by decide, by unfold Table.Owns; decide, by decide⟩

end CC.Properties.C06TST
