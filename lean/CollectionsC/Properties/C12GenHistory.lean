import CollectionsC.Properties.C12Gen
import CollectionsC.Properties.C12
/-! # C12 — histories on the *translated text* of `src/cc_static_pool.c`

`C12Gen` proves function by function that the definitions regenerated from the C source on every build
agree with the hand-written model `StaticPool`.  This file lifts that to whole histories run **on the
generated definitions themselves** (`GenF.cc_static_pool_malloc/calloc/free/reset` chained call after
call, their `fault` results or-ed together): from the image (at any base address `b`) of any model state
satisfying the invariant, every returned pointer is the model's pointer shifted by `b`, the final record
is the image of the model's final state (bytes included), and no call has undefined behaviour.  The
allocator properties proved about `StaticPool` histories (`Properties/C12.lean`) therefore hold of the
chained translated text.  Client writes into blocks (`Op.write`) are not functions of the C file and are
not part of these histories. -/
namespace CC.Properties.C12Gen
open CC
open CC.Spec.SPool (Op)

/-- the calls the C file offers that change the pool -/
inductive COp where
  | malloc (n : Nat)
  | calloc (count sz : Nat)
  | release (p : Option Nat)      -- model pointer (offset); the call receives `at_ b p`
  | reset
  deriving Repr, DecidableEq

def COp.toOp : COp → Op
  | .malloc n => .malloc n
  | .calloc c k => .calloc c k
  | .release p => .release p
  | .reset => .reset

/-- a history executed on the generated functions at base address `b`: returned pointers, final record,
and whether some call had undefined behaviour -/
def genRun (b : Nat) : List COp → GenF.cc_static_pool_s → List GenF.Ptr × GenF.cc_static_pool_s × Bool
  | [], g => ([], g, false)
  | .malloc n :: ops, g =>
    let r := GenF.cc_static_pool_malloc n g
    let rs := genRun b ops r.2.1
    (r.1 :: rs.1, rs.2.1, r.2.2 || rs.2.2)
  | .calloc c k :: ops, g =>
    let r := GenF.cc_static_pool_calloc c k g
    let rs := genRun b ops r.2.1
    (r.1 :: rs.1, rs.2.1, r.2.2 || rs.2.2)
  | .release p :: ops, g =>
    let rs := genRun b ops (GenF.cc_static_pool_free (at_ b p) g)
    (none :: rs.1, rs.2.1, rs.2.2)
  | .reset :: ops, g =>
    let rs := genRun b ops (GenF.cc_static_pool_reset g)
    (none :: rs.1, rs.2.1, rs.2.2)

/-- **History agreement on the translated text.** -/
theorem gen_history_agrees (b : Nat) (ops : List COp) (s : StaticPool) (m : Mem) (h : s.Inv) :
    genRun b ops (ofCoreAt b s.core) =
      ((s.run (ops.map COp.toOp) m).1.map (at_ b), ofCoreAt b (s.run (ops.map COp.toOp) m).2.1.core, false) := by
  induction ops generalizing s m with
  | nil => rfl
  | cons op ops ih =>
    cases op with
    | malloc n =>
      have a := (spool_malloc_agrees b s n h).1
      have ih' := ih (s.malloc n).2 m (StaticPool.malloc_inv s n h)
      simp only [genRun, List.map_cons, COp.toOp, StaticPool.run, StaticPool.step, a, ih', Bool.false_or]
    | calloc c k =>
      have a := (spool_calloc_agrees b s c k m h).1
      have ih' := ih (s.calloc c k m).2.1 (s.calloc c k m).2.2 (StaticPool.calloc_inv s c k m h)
      simp only [genRun, List.map_cons, COp.toOp, StaticPool.run, StaticPool.step, a, ih', Bool.false_or]
    | release p =>
      have a := (spool_free_agrees b s p).1
      have ih' := ih (s.release p) m (StaticPool.release_inv s p h)
      simp only [genRun, List.map_cons, COp.toOp, StaticPool.run, StaticPool.step, a, ih']
      rfl
    | reset =>
      have a := (spool_reset_agrees b s).1
      have ih' := ih s.reset m (StaticPool.reset_inv s h)
      simp only [genRun, List.map_cons, COp.toOp, StaticPool.run, StaticPool.step, a, ih']
      rfl

/-- no call of any history on the translated text has undefined behaviour, and reading the final record
back gives the model's final C-visible state -/
theorem gen_history_safe (b : Nat) (ops : List COp) (s : StaticPool) (m : Mem) (h : s.Inv) :
    (genRun b ops (ofCoreAt b s.core)).2.2 = false ∧
    toCore (genRun b ops (ofCoreAt b s.core)).2.1 = (s.run (ops.map COp.toOp) m).2.1.core := by
  rw [gen_history_agrees b ops s m h]
  exact ⟨rfl, toCore_ofCoreAt _ _⟩

/-- **C12 on the translated text**: the pointers returned by the chained generated calls are exactly
the block-list spec's pointers shifted by the base address, for every history whose operations respect
`OpOk` (the documented preconditions of `C12.history_refines`), and no call has undefined behaviour. -/
theorem gen_history_refines (b : Nat) (ops : List COp) (s : StaticPool) (h : s.Inv) (hsz : s.core.size < sizeMod)
    (hops : ∀ op ∈ ops.map COp.toOp, C12.OpOk s.core.size op) :
    (genRun b ops (ofCoreAt b s.core)).1 = (s.abs.run (ops.map COp.toOp)).1.map (at_ b) ∧
    (genRun b ops (ofCoreAt b s.core)).2.2 = false := by
  rw [gen_history_agrees b ops s {} h]
  exact ⟨by rw [(C12.history_refines _ s {} h hsz hops).1], rfl⟩

/-- non-vacuity: an 8-byte pool at address 2 with one live 3-byte block; the chained translated calls
`calloc(2,2)`, `malloc(6)` (does not fit), `free(last block)`, `malloc(1)`, `reset`, `malloc(8)` return
addresses 5, NULL, –, 5, –, 2 and never fault -/
example :
    let s : StaticPool := { core := { size := 8, free := 3, high := 0, bytes := [1, 1, 1, 1, 1, 1, 1, 1] },
                            blocks := [(0, 3)], undo := true }
    s.Inv ∧
    (genRun 2 [.calloc 2 2, .malloc 6, .release (some 3), .malloc 1, .reset, .malloc 8] (ofCoreAt 2 s.core)).1 =
      [some 5, none, none, some 5, none, some 2] ∧
    (genRun 2 [.calloc 2 2, .malloc 6, .release (some 3), .malloc 1, .reset, .malloc 8] (ofCoreAt 2 s.core)).2.2 = false := by
  decide

end CC.Properties.C12Gen
