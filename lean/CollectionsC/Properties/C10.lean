import CollectionsC.Proofs.PQueue
import CollectionsC.Proofs.PQueueSafe
/-! # C10 — CC_PQueue always yields a maximal element and conserves its contents

Statements only (helpers in `Proofs/PQueue.lean`).  The concrete model `CC.PQueue`
(`Model/PQueue.lean`) has the fields `size`, `capacity`, `buffer` of `struct cc_pqueue_s` and the
allocator triple it was configured with; the sift-up loop of `cc_pqueue_push` and the recursive
`cc_pqueue_heapify` are written with the index macros generated from the C source
(`CC.Gen.ccParent/ccLeft/ccRight`).  The abstract spec `CC.Spec.PQ` is a multiset of elements with
`top`/`pop` specified as relations: any maximal element is admissible (ties in any order).

Quantifiers: every comparator `cmp` that is a total preorder (`Spec.TotalPreorder`: duplicates and
ties between distinguishable elements included), every element value, every capacity ≥ 1 the
constructor accepts, **every** growth law `grow : ℕ → ℕ` (the driver instantiates
`grow c = (size_t)((float)c * exp_factor)`; no assumption on it is needed: a result that is too
small falls back to `capacity + 1`, one that is too large is answered with `CC_ERR_MAX_CAPACITY`;
in C the cast `(size_t)(capacity * exp_factor)` is undefined behaviour when the float product is
≥ 2^64 — `grow` is a total function, so the theorems cover such factors with *some* value of the
cast, which is what every compiler we know produces, but the C standard does not promise it),
every interleaving of push/top/pop, every allocator schedule, both allocator triples.

Documented preconditions: `TotalPreorder cmp` (the comparator contract) and ledger consistency: the
queue's two blocks are live in the ledger of its triple (`2 ≤ m.liveT q.triple`; the constructor
establishes it, every step preserves it). -/
namespace CC.Properties.C10
open CC CC.Spec
open CC.Spec.PQ (Op Out IsMax Step Run pushed popped)

/-- One step of the concrete model is an admissible step of the multiset spec, keeps the
invariant (heap order, `size ≤ capacity = buffer length`, representable byte size) and the triple,
keeps the ledger balanced and touches no slot outside the buffer.  For `push` this includes
*atomicity*: when the growth is refused the status is `CC_ERR_ALLOC` and the multiset is unchanged.
(`push_status_iff` says exactly when a push is blocked.) -/
theorem step_refines {cmp : Nat → Nat → Int} (tp : TotalPreorder cmp) (grow : Nat → Nat)
    (q : PQueue) (op : Op) (m : Mem) (h : PQueue.Inv' cmp q) (hl : 2 ≤ m.liveT q.triple) :
    Step cmp q.abs op (PQueue.step cmp grow q op m).1 (PQueue.step cmp grow q op m).2.1.abs ∧
    PQueue.Inv' cmp (PQueue.step cmp grow q op m).2.1 ∧ (PQueue.step cmp grow q op m).2.1.triple = q.triple ∧
    (PQueue.step cmp grow q op m).2.2.liveT q.triple = m.liveT q.triple ∧
    (PQueue.step cmp grow q op m).2.2.fault = m.fault := by
  have htr := PQueue.step_triple cmp grow q op m
  cases op with
  | push x =>
    have hm := PQueue.push_mem tp grow q x m h (by omega)
    rcases PQueue.push_spec tp grow q x m h (by omega) with ⟨e1, e2, e3, _⟩ | ⟨e1, e2⟩
    · refine ⟨Or.inl ⟨?_, e3⟩, e2, htr, hm.1, hm.2⟩
      simp only [PQueue.step, e1]
    · refine ⟨Or.inr ⟨?_, ?_⟩, ?_, htr, hm.1, hm.2⟩
      · rcases e1 with ⟨e1, _⟩ | e1
        · left; simp only [PQueue.step, e1]
        · right; simp only [PQueue.step, e1]
      · simp only [PQueue.step, e2]; exact List.Perm.refl _
      · simp only [PQueue.step, e2]; exact h
  | top =>
    rcases PQueue.top_spec tp q m h with ⟨e1, e2⟩ | ⟨x, e1, e2⟩
    · simp only [PQueue.step, e2]
      exact ⟨⟨List.Perm.refl _, Or.inl ⟨e1, by first | rfl | trivial⟩⟩, h, by first | rfl | trivial, by first | rfl | trivial, by first | rfl | trivial⟩
    · simp only [PQueue.step, e1]
      exact ⟨⟨List.Perm.refl _, Or.inr ⟨x, by first | rfl | trivial, e2⟩⟩, h, by first | rfl | trivial, by first | rfl | trivial, by first | rfl | trivial⟩
  | pop =>
    rcases PQueue.pop_spec tp q m h with ⟨e1, e2⟩ | ⟨x, e1, e2, e3, e4, e5, _, e7⟩
    · simp only [PQueue.step, e2]
      exact ⟨Or.inl ⟨e1, by first | rfl | trivial, e1⟩, h, by first | rfl | trivial, by first | rfl | trivial, by first | rfl | trivial⟩
    · refine ⟨Or.inr ⟨x, ?_, e3, e4⟩, e5, htr, by simp only [PQueue.step, e7], by simp only [PQueue.step, e7]⟩
      simp only [PQueue.step, e1, e2]

/-- **C10, all histories.** From any state satisfying the invariant, the outputs of every history
are an admissible run of the multiset spec ending in the multiset the final state holds; the
invariant holds at the end, the ledger is balanced and nothing faulted — for every schedule. -/
theorem history_refines {cmp : Nat → Nat → Int} (tp : TotalPreorder cmp) (grow : Nat → Nat)
    (ops : List Op) (q : PQueue) (m : Mem) (h : PQueue.Inv' cmp q) (hl : 2 ≤ m.liveT q.triple) :
    Run cmp q.abs ops (PQueue.run cmp grow q ops m).1 (PQueue.run cmp grow q ops m).2.1.abs ∧
    PQueue.Inv' cmp (PQueue.run cmp grow q ops m).2.1 ∧ (PQueue.run cmp grow q ops m).2.1.triple = q.triple ∧
    (PQueue.run cmp grow q ops m).2.2.liveT q.triple = m.liveT q.triple ∧
    (PQueue.run cmp grow q ops m).2.2.fault = m.fault := by
  induction ops generalizing q m with
  | nil => exact ⟨⟨rfl, rfl⟩, h, rfl, rfl, rfl⟩
  | cons op ops ih =>
    obtain ⟨h1, h2, ht, h3, h4⟩ := step_refines tp grow q op m h hl
    have ih' := ih (PQueue.step cmp grow q op m).2.1 (PQueue.step cmp grow q op m).2.2 h2 (by rw [ht]; omega)
    rw [ht] at ih'
    simp only [PQueue.run]
    refine ⟨⟨_, _, _, rfl, h1, ih'.1⟩, ih'.2.1, ih'.2.2.1, by rw [ih'.2.2.2.1, h3], by rw [ih'.2.2.2.2, h4]⟩

/-- **C10 from the constructor**: any capacity ≥ 1 accepted by `cc_pqueue_new_conf` (triple `.conf`)
or `cc_pqueue_new` (triple `.libc`), any history; afterwards `destroy` returns the ledger of the
queue's triple to where it started. -/
theorem new_history_refines {cmp : Nat → Nat → Int} (tp : TotalPreorder cmp) (grow : Nat → Nat)
    (cap : Nat) (exGe : Nat → Bool) (t : Triple) (m0 : Mem) (q0 : PQueue)
    (hnew : (PQueue.new cap exGe t m0).2.1 = some q0) (ops : List Op) :
    let m1 := (PQueue.new cap exGe t m0).2.2
    Run cmp [] ops (PQueue.run cmp grow q0 ops m1).1 (PQueue.run cmp grow q0 ops m1).2.1.abs ∧
    PQueue.Inv' cmp (PQueue.run cmp grow q0 ops m1).2.1 ∧
    ((PQueue.run cmp grow q0 ops m1).2.1.destroy (PQueue.run cmp grow q0 ops m1).2.2).liveT t = m0.liveT t ∧
    ((PQueue.run cmp grow q0 ops m1).2.1.destroy (PQueue.run cmp grow q0 ops m1).2.2).fault = m0.fault := by
  intro m1
  rcases PQueue.new_spec cmp cap exGe t m0 with ⟨_, e, _⟩ | ⟨_, e, _⟩ | ⟨q, _, e, hinv, habs, _, htr, hlive, hfault, _⟩
  · rw [e] at hnew; cases hnew
  · rw [e] at hnew; cases hnew
  · rw [e] at hnew
    have hq : q = q0 := Option.some.inj hnew
    subst hq
    have hh := history_refines tp grow ops q m1 hinv (by rw [htr]; simp only [m1]; omega)
    rw [habs, htr] at hh
    have hl2 : 2 ≤ (PQueue.run cmp grow q ops m1).2.2.liveT t := by rw [hh.2.2.2.1]; simp only [m1]; omega
    have f1 := Mem.freeT_pos (PQueue.run cmp grow q ops m1).2.2 t (by omega)
    have f2 := Mem.freeT_pos ((PQueue.run cmp grow q ops m1).2.2.freeT t) t (by rw [f1.1]; omega)
    refine ⟨hh.1, hh.2.1, ?_, ?_⟩
    · simp only [PQueue.destroy, hh.2.2.1]
      rw [f2.1, f1.1, hh.2.2.2.1]; simp only [m1]; omega
    · simp only [PQueue.destroy, hh.2.2.1]
      rw [f2.2.1, f1.2.1, hh.2.2.2.2]; exact hfault

/-- a refused constructor (or an invalid capacity) yields no queue and a balanced ledger -/
theorem new_refused (cmp : Nat → Nat → Int) (cap : Nat) (exGe : Nat → Bool) (t : Triple) (m : Mem)
    (h : (PQueue.new cap exGe t m).1 ≠ .ok) :
    (PQueue.new cap exGe t m).2.1 = none ∧ (PQueue.new cap exGe t m).2.2.liveT t = m.liveT t ∧
    (PQueue.new cap exGe t m).2.2.fault = m.fault := by
  rcases PQueue.new_spec cmp cap exGe t m with ⟨_, e, em⟩ | ⟨_, e, e2, e3, _⟩ | ⟨q, e, _⟩
  · rw [em]; exact ⟨e, rfl, rfl⟩
  · exact ⟨e, e2, e3⟩
  · exact (h e).elim

/-- an accepted capacity is ≥ 1 and its buffer size in bytes, `capacity * sizeof(void*)`, does not
wrap around `size_t` (the constructor rejects larger capacities) -/
theorem new_capacity_bytes (cap : Nat) (exGe : Nat → Bool) (t : Triple) (m : Mem) (h : (PQueue.new cap exGe t m).1 = .ok) :
    0 < cap ∧ cap * PQueue.ptrSize < 2 ^ 64 := PQueue.new_ok_bytes cap exGe t m h

/-- a successful growth also keeps `capacity * sizeof(void*)` representable; a growth whose new
capacity would not be is answered with `CC_ERR_MAX_CAPACITY` before anything is allocated
(covered by `push_refused_inert`: the queue is unchanged) -/
theorem growth_capacity_bytes (grow : Nat → Nat) (q : PQueue) (m : Mem)
    (h : (PQueue.expandCapacity grow q m).1 = .ok) :
    (PQueue.expandCapacity grow q m).2.1.capacity * PQueue.ptrSize < 2 ^ 64 := PQueue.expand_ok_bytes grow q m h

/-- **When a push is blocked** (this pins down the error alternative that `Step` leaves open): in
every state satisfying the invariant, push succeeds exactly when there is room or the queue may
still grow (new capacity at most `CC_MAX_ELEMENTS / sizeof(void*)`) and the allocator grants the
buffer; it reports `CC_ERR_MAX_CAPACITY` exactly when the queue is full and the new capacity would
exceed that limit; and `CC_ERR_ALLOC` exactly when the queue is full, may grow, and the allocator
refuses.  No other status exists. -/
theorem push_status_iff {cmp : Nat → Nat → Int} (tp : TotalPreorder cmp) (grow : Nat → Nat)
    (q : PQueue) (x : Nat) (m : Mem) (h : PQueue.Inv' cmp q) (hl : 2 ≤ m.liveT q.triple) :
    ((PQueue.push cmp grow q x m).1 = .ok ↔
      (q.size < q.capacity ∨
        (PQueue.newCapacity grow q ≤ Gen.CC_MAX_ELEMENTS / PQueue.ptrSize ∧ (m.allocT q.triple).1 = true))) ∧
    ((PQueue.push cmp grow q x m).1 = .errMaxCapacity ↔
      (q.size = q.capacity ∧ PQueue.newCapacity grow q > Gen.CC_MAX_ELEMENTS / PQueue.ptrSize)) ∧
    ((PQueue.push cmp grow q x m).1 = .errAlloc ↔
      (q.size = q.capacity ∧ PQueue.newCapacity grow q ≤ Gen.CC_MAX_ELEMENTS / PQueue.ptrSize ∧
        (m.allocT q.triple).1 = false)) :=
  PQueue.push_status_iff tp grow q x m h (by omega)

/-- … at history level: the characterisation holds in every state a history from the constructor
reaches (so along a run, a push is blocked only by a refusal that fired or by the capacity limit) -/
theorem reachable_push_status {cmp : Nat → Nat → Int} (tp : TotalPreorder cmp) (grow : Nat → Nat)
    (cap : Nat) (exGe : Nat → Bool) (t : Triple) (m0 : Mem) (q0 : PQueue)
    (hnew : (PQueue.new cap exGe t m0).2.1 = some q0) (ops : List Op) (x : Nat) :
    let q := (PQueue.run cmp grow q0 ops (PQueue.new cap exGe t m0).2.2).2.1
    let m := (PQueue.run cmp grow q0 ops (PQueue.new cap exGe t m0).2.2).2.2
    ((PQueue.push cmp grow q x m).1 = .ok ↔
      (q.size < q.capacity ∨
        (PQueue.newCapacity grow q ≤ Gen.CC_MAX_ELEMENTS / PQueue.ptrSize ∧ (m.allocT q.triple).1 = true))) ∧
    ((PQueue.push cmp grow q x m).1 ≠ .ok → (PQueue.push cmp grow q x m).2.1 = q) := by
  intro q m
  rcases PQueue.new_spec cmp cap exGe t m0 with ⟨_, e, _⟩ | ⟨_, e, _⟩ | ⟨q', _, e, hinv, _, _, htr, hlive, _⟩
  · rw [e] at hnew; cases hnew
  · rw [e] at hnew; cases hnew
  · rw [e] at hnew
    have hq : q' = q0 := Option.some.inj hnew
    subst hq
    have hh := history_refines tp grow ops q' (PQueue.new cap exGe t m0).2.2 hinv (by rw [htr]; omega)
    have hl : 2 ≤ m.liveT q.triple := by
      show 2 ≤ (PQueue.run cmp grow q' ops (PQueue.new cap exGe t m0).2.2).2.2.liveT (PQueue.run cmp grow q' ops (PQueue.new cap exGe t m0).2.2).2.1.triple
      rw [hh.2.2.1, hh.2.2.2.1, htr]; omega
    refine ⟨(push_status_iff tp grow q x m hh.2.1 hl).1, fun hne => ?_⟩
    rcases PQueue.push_spec tp grow q x m hh.2.1 (by omega) with ⟨e1, _⟩ | ⟨_, e2⟩
    · exact (hne e1).elim
    · exact e2

/-- **Refused growth is atomic** in the strongest sense: status `CC_ERR_ALLOC` (or
`CC_ERR_MAX_CAPACITY`) means that every field of the queue is unchanged -/
theorem push_refused_inert {cmp : Nat → Nat → Int} (tp : TotalPreorder cmp) (grow : Nat → Nat)
    (q : PQueue) (x : Nat) (m : Mem) (h : PQueue.Inv' cmp q) (hl : 2 ≤ m.liveT q.triple)
    (hst : (PQueue.push cmp grow q x m).1 ≠ .ok) : (PQueue.push cmp grow q x m).2.1 = q := by
  rcases PQueue.push_spec tp grow q x m h (by omega) with ⟨e1, _⟩ | ⟨_, e2⟩
  · exact (hst e1).elim
  · exact e2

/-- `cc_pqueue_pop(pq, NULL)`: the same model function with the store `*out = tmp` skipped — same
status, same resulting queue, same ledger; only the element is not reported -/
theorem pop_null_out (cmp : Nat → Nat → Int) (q : PQueue) (m : Mem) :
    (PQueue.popOut cmp q false m).1 = (PQueue.pop cmp q m).1 ∧ (PQueue.popOut cmp q false m).2.1 = none ∧
    (PQueue.popOut cmp q false m).2.2 = (PQueue.pop cmp q m).2.2 := PQueue.popOut_false cmp q m

/-- **Pop until empty** (concrete model): from any state satisfying the invariant, `size` pops
return every held element exactly once, in non-increasing priority order -/
theorem drain_sorted {cmp : Nat → Nat → Int} (tp : TotalPreorder cmp) (q : PQueue) (h : PQueue.Inv' cmp q) :
    (PQueue.drain cmp q.size q).Perm q.abs ∧ (PQueue.drain cmp q.size q).Pairwise (fun a b => 0 ≤ cmp a b) :=
  PQueue.drain_spec tp q.size q h (Nat.le_refl _)

/-- **Memory safety does not depend on the comparator.** For *every* `cmp` — not a total preorder,
not transitive, constant, anything — and every history, from the structural part of the invariant
alone (`size ≤ capacity = buffer length ≤ CC_MAX_ELEMENTS / sizeof(void*)`): no operation reads or
writes a slot outside the buffer (`fault` unchanged: the bounds tests of the sift-up loop and of
`heapify`, which reads children only below `size`), the shape is kept and the ledger of the queue's
triple stays balanced.  A broken comparator can destroy heap order, never memory. -/
theorem history_safe (cmp : Nat → Nat → Int) (grow : Nat → Nat) (ops : List Op) (q : PQueue) (m : Mem)
    (h : PQueue.Shape q) (hl : 2 ≤ m.liveT q.triple) :
    PQueue.Shape (PQueue.run cmp grow q ops m).2.1 ∧ (PQueue.run cmp grow q ops m).2.2.fault = m.fault ∧
    (PQueue.run cmp grow q ops m).2.2.liveT q.triple = m.liveT q.triple :=
  PQueue.run_safe cmp grow ops q m h (by omega)

/-- … from the constructor, for every comparator, capacity, growth law, schedule and triple -/
theorem new_history_safe (cmp : Nat → Nat → Int) (grow : Nat → Nat) (cap : Nat) (exGe : Nat → Bool) (t : Triple)
    (m0 : Mem) (q0 : PQueue) (hnew : (PQueue.new cap exGe t m0).2.1 = some q0) (ops : List Op) :
    (PQueue.run cmp grow q0 ops (PQueue.new cap exGe t m0).2.2).2.2.fault = m0.fault ∧
    PQueue.Shape (PQueue.run cmp grow q0 ops (PQueue.new cap exGe t m0).2.2).2.1 := by
  rcases PQueue.new_spec (keyCmp id) cap exGe t m0 with ⟨_, e, _⟩ | ⟨_, e, _⟩ | ⟨q, _, e, hinv, _, _, htr, hlive, hfault, _⟩
  · rw [e] at hnew; cases hnew
  · rw [e] at hnew; cases hnew
  · rw [e] at hnew
    have hq : q = q0 := Option.some.inj hnew
    subst hq
    have := history_safe cmp grow ops q (PQueue.new cap exGe t m0).2.2 (PQueue.inv_shape _ q hinv) (by rw [htr]; omega)
    exact ⟨by rw [this.2.1, hfault], this.1⟩

/-- **Multiset = pushes − pops, for every history from the constructor** (hence for every prefix of
a history): what the queue holds plus what the pops returned is, as a multiset, what was pushed
successfully -/
theorem new_history_conservation {cmp : Nat → Nat → Int} (tp : TotalPreorder cmp) (grow : Nat → Nat)
    (cap : Nat) (exGe : Nat → Bool) (t : Triple) (m0 : Mem) (q0 : PQueue)
    (hnew : (PQueue.new cap exGe t m0).2.1 = some q0) (ops : List Op) :
    let r := PQueue.run cmp grow q0 ops (PQueue.new cap exGe t m0).2.2
    (r.2.1.abs ++ popped ops r.1).Perm (pushed ops r.1) := by
  intro r
  have hh := new_history_refines tp grow cap exGe t m0 q0 hnew ops
  simpa using Spec.PQFacts.conservation ops [] r.1 r.2.1.abs hh.1

/-- **Pop until empty, on `PQueue.run`**: from any state satisfying the invariant, the history of
`size` pops (on the real, threaded ledger) succeeds every time, returns every held element exactly
once in non-increasing priority order, and leaves the queue empty -/
theorem pop_until_empty {cmp : Nat → Nat → Int} (tp : TotalPreorder cmp) (grow : Nat → Nat)
    (q : PQueue) (m : Mem) (h : PQueue.Inv' cmp q) (hl : 2 ≤ m.liveT q.triple) :
    let r := PQueue.run cmp grow q (List.replicate q.size .pop) m
    (r.1.all fun o => o.st == .ok) = true ∧ (r.1.filterMap (·.val)).Perm q.abs ∧
    (r.1.filterMap (·.val)).Pairwise (fun a b => 0 ≤ cmp a b) ∧ r.2.1.abs = [] := by
  intro r
  have hh := history_refines tp grow (List.replicate q.size .pop) q m h hl
  have hlen : q.abs.length = q.size := by simp [PQueue.abs]
  have := Spec.PQFacts.pop_all_sorted q.size q.abs hlen r.1 r.2.1.abs hh.1
  exact ⟨this.2.1, this.2.2.1, this.2.2.2, this.1⟩

/-- … and after any history from the constructor: push/pop in any interleaving, then `size` pops on
the same run return, in non-increasing order, exactly what is still held -/
theorem new_history_pop_until_empty {cmp : Nat → Nat → Int} (tp : TotalPreorder cmp) (grow : Nat → Nat)
    (cap : Nat) (exGe : Nat → Bool) (t : Triple) (m0 : Mem) (q0 : PQueue)
    (hnew : (PQueue.new cap exGe t m0).2.1 = some q0) (ops : List Op) :
    let r := PQueue.run cmp grow q0 ops (PQueue.new cap exGe t m0).2.2
    let d := PQueue.run cmp grow r.2.1 (List.replicate r.2.1.size .pop) r.2.2
    (d.1.all fun o => o.st == .ok) = true ∧ (d.1.filterMap (·.val) ++ popped ops r.1).Perm (pushed ops r.1) ∧
    (d.1.filterMap (·.val)).Pairwise (fun a b => 0 ≤ cmp a b) ∧ d.2.1.abs = [] := by
  intro r d
  rcases PQueue.new_spec cmp cap exGe t m0 with ⟨_, e, _⟩ | ⟨_, e, _⟩ | ⟨q, _, e, hinv, habs, _, htr, hlive, _⟩
  · rw [e] at hnew; cases hnew
  · rw [e] at hnew; cases hnew
  · rw [e] at hnew
    have hq : q = q0 := Option.some.inj hnew
    subst hq
    have hh := history_refines tp grow ops q (PQueue.new cap exGe t m0).2.2 hinv (by rw [htr]; omega)
    have hl : 2 ≤ r.2.2.liveT r.2.1.triple := by
      show 2 ≤ (PQueue.run cmp grow q ops (PQueue.new cap exGe t m0).2.2).2.2.liveT
        (PQueue.run cmp grow q ops (PQueue.new cap exGe t m0).2.2).2.1.triple
      rw [hh.2.2.1, hh.2.2.2.1, htr]; omega
    have hp := pop_until_empty tp grow r.2.1 r.2.2 hh.2.1 hl
    have hc := new_history_conservation tp grow cap exGe t m0 q e ops
    exact ⟨hp.1, (List.Perm.append_right _ hp.2.1).trans hc, hp.2.2.1, hp.2.2.2⟩

/-- **End to end**: construct a queue, run *any* history, then pop until empty: the elements that come
out are in non-increasing priority order and, together with the elements the history's own pops
returned, they are exactly (as a multiset) the elements the history pushed successfully -/
theorem new_history_then_drain {cmp : Nat → Nat → Int} (tp : TotalPreorder cmp) (grow : Nat → Nat)
    (cap : Nat) (exGe : Nat → Bool) (t : Triple) (m0 : Mem) (q0 : PQueue)
    (hnew : (PQueue.new cap exGe t m0).2.1 = some q0) (ops : List Op) :
    let r := PQueue.run cmp grow q0 ops (PQueue.new cap exGe t m0).2.2
    (PQueue.drain cmp r.2.1.size r.2.1 ++ popped ops r.1).Perm (pushed ops r.1) ∧
    (PQueue.drain cmp r.2.1.size r.2.1).Pairwise (fun a b => 0 ≤ cmp a b) := by
  intro r
  have hh := new_history_refines tp grow cap exGe t m0 q0 hnew ops
  have hd := PQueue.drain_spec tp r.2.1.size r.2.1 hh.2.1 (Nat.le_refl _)
  have hc := Spec.PQFacts.conservation ops [] r.1 r.2.1.abs hh.1
  refine ⟨?_, hd.2⟩
  exact (List.Perm.append_right _ hd.1).trans (by simpa using hc)

/-! ## The property in its own vocabulary (facts about the multiset spec) -/

/-- ties only: two admissible answers of `top`/`pop` have the same priority -/
theorem max_tied {cmp : Nat → Nat → Int} (items : List Nat) (x y : Nat) (hx : IsMax cmp items x)
    (hy : IsMax cmp items y) : 0 ≤ cmp x y ∧ 0 ≤ cmp y x :=
  ⟨hx.2 y hy.1, hy.2 x hx.1⟩

/-- maximality is a property of the multiset, not of the order in which it is listed -/
theorem isMax_perm {cmp : Nat → Nat → Int} (l₁ l₂ : List Nat) (hp : l₁.Perm l₂) (x : Nat) (h : IsMax cmp l₁ x) :
    IsMax cmp l₂ x :=
  ⟨hp.mem_iff.1 h.1, fun y hy => h.2 y (hp.mem_iff.2 hy)⟩

/-- **Conservation.** In every admissible run, what is held at the end plus what was popped is,
as a multiset, what was held at the start plus what was pushed: contents = pushes − pops. -/
theorem conservation {cmp : Nat → Nat → Int} (ops : List Op) (items : List Nat) (outs : List Out)
    (items' : List Nat) (h : Run cmp items ops outs items') :
    (items' ++ popped ops outs).Perm (items ++ pushed ops outs) :=
  Spec.PQFacts.conservation ops items outs items' h

/-- **Pop until empty** (spec level): in every admissible run of `n = |items|` pops, every pop
succeeds, the values returned are a permutation of `items` in non-increasing priority order, and
the queue ends empty. -/
theorem pop_all_sorted {cmp : Nat → Nat → Int} (n : Nat) (items : List Nat) (hn : items.length = n)
    (outs : List Out) (items' : List Nat) (h : Run cmp items (List.replicate n .pop) outs items') :
    items' = [] ∧ (outs.all fun o => o.st == .ok) = true ∧
    (outs.filterMap (·.val)).Perm items ∧ (outs.filterMap (·.val)).Pairwise (fun a b => 0 ≤ cmp a b) :=
  Spec.PQFacts.pop_all_sorted n items hn outs items' h

/-- the deterministic instance the driver prints (first maximal element in list order) is an
admissible behaviour -/
theorem maxOf_isMax {cmp : Nat → Nat → Int} (tp : TotalPreorder cmp) (items : List Nat) :
    (items = [] ∧ PQ.maxOf cmp items = none) ∨ (∃ x, PQ.maxOf cmp items = some x ∧ IsMax cmp items x) :=
  Spec.PQFacts.maxOf_isMax tp items

theorem popFirst_admissible {cmp : Nat → Nat → Int} (tp : TotalPreorder cmp) (items : List Nat) :
    Step cmp items .pop (PQ.popFirst cmp items).1 (PQ.popFirst cmp items).2 := by
  rcases maxOf_isMax tp items with ⟨e1, e2⟩ | ⟨x, e1, e2⟩
  · left; subst e1; simp [PQ.popFirst, PQ.maxOf]
  · right
    refine ⟨x, by simp [PQ.popFirst, e1], e2, ?_⟩
    simp only [PQ.popFirst, e1]
    exact List.perm_cons_erase e2.1

/-- the harness comparators (numeric order; order of `v % 10`) satisfy the comparator contract -/
theorem harness_comparators_total_preorder (key : Nat → Nat) : TotalPreorder (keyCmp key) :=
  keyCmp_totalPreorder key

/-- … and so does `cmp=diff`, the 64-bit difference clamped to `int` (values 2^31, 2^32, 2^63 apart
are ordered correctly; a comparator that truncates the difference would not satisfy the contract) -/
theorem diff_comparator_total_preorder : TotalPreorder diffCmp := diffCmp_totalPreorder

/-! ## Non-vacuity: a heap with ties between distinguishable elements (priority = `v % 10`) -/
example :
    let cmp := keyCmp (· % 10)
    let q : PQueue := { size := 5, capacity := 6, buf := [27, 7, 13, 3, 23, 0] }
    PQueue.Inv' cmp q ∧ q.abs = [27, 7, 13, 3, 23] ∧ cmp 27 7 = 0 ∧ IsMax cmp q.abs 27 ∧ IsMax cmp q.abs 7 := by
  refine ⟨⟨by decide, by decide⟩, by decide, by decide, ⟨by decide, by decide⟩, ⟨by decide, by decide⟩⟩

end CC.Properties.C10
