import CollectionsC.Proofs.DequeQueue
import CollectionsC.Proofs.DequeCross
/-! # C09 (queue half) — CC_Queue is FIFO

Statements and closing proofs only.  `CC.Queue` (`Model/Queue.lean`) mirrors `src/cc_queue.c`: a header
pointing to a `CC_Deque`, `enqueue = add_first`, `poll = remove_last`, `peek = get_last`, iteration =
the deque iterator.  The abstract spec `Spec.QueueSpec.Fifo` keeps the elements oldest first: `enqueue`
appends, `poll` takes the head.  The simulation relation is `q.abs = f.items.reverse` (the adapter
iterates newest first).  Quantifiers: every capacity 2^k, every ring layout (wrapped, exactly full),
every value, every history; growth steps and wrap-arounds are covered because the deque theorems hold
for every layout.  Neither `add_first` nor `remove_last` reaches finding D3, so nothing here is partial.
Whole traversals, iterator `replace` and the zip iterator of the adapter: `Properties/C07Queue.lean`
(`traversal_complete`, `replace_refines`, `zip_refines`). -/
namespace CC.Properties.C09Queue
open CC CC.Spec CC.Spec.QueueSpec

inductive Op where
  | enqueue (x : Nat) | poll | peek | size

structure Out where
  st  : Option Stat
  val : Option Nat
  deriving DecidableEq, Repr

/-- the ideal FIFO -/
def stepF (f : Fifo) : Op → Out × Fifo
  | .enqueue x => (⟨some .ok, none⟩, f.enqueue x)
  | .poll => let r := f.poll; (⟨some r.1, r.2.1⟩, r.2.2)
  | .peek => let r := f.peek; (⟨some r.1, r.2⟩, f)
  | .size => (⟨none, some f.size⟩, f)

/-- the concrete model -/
def stepQ (q : Queue) (m : Mem) : Op → Out × Queue × Mem
  | .enqueue x => let r := q.enqueue x m; (⟨some r.1, none⟩, r.2.1, r.2.2)
  | .poll => let r := q.poll m; (⟨some r.1, r.2.1⟩, r.2.2.1, r.2.2.2)
  | .peek => let r := q.peek m; (⟨some r.1, r.2.1⟩, q, r.2.2)
  | .size => (⟨none, some q.size⟩, q, m)

/-- simulation relation: the deque content, front to back, is the FIFO content newest first -/
def Sim (q : Queue) (f : Fifo) : Prop := q.Inv ∧ q.abs = f.items.reverse

/-! ## the ideal FIFO on its iteration view -/

theorem removeLast_reverse (l : List Nat) :
    DequeSpec.removeLast l.reverse =
      match l with
      | [] => (.errOutOfRange, none, [])
      | x :: xs => (.ok, some x, xs.reverse) := by
  cases l with
  | nil => rfl
  | cons x xs => simp [DequeSpec.removeLast]

theorem getLast_reverse (l : List Nat) :
    DequeSpec.getLast l.reverse =
      match l with
      | [] => (.errOutOfRange, none)
      | x :: _ => (.ok, some x) := by
  cases l with
  | nil => rfl
  | cons x xs => simp [DequeSpec.getLast]

/-- **One step.**  From related states, an operation either behaves exactly like the ideal FIFO and
ends in related states (ledger balanced on the queue's triple, nothing faulted), or it is an `enqueue` into
a full ring whose growth was refused: `CC_ERR_ALLOC`, queue physically unchanged. -/
theorem step_refines (q : Queue) (f : Fifo) (m : Mem) (op : Op) (h : Sim q f) :
    ((stepQ q m op).1 = (stepF f op).1 ∧ Sim (stepQ q m op).2.1 (stepF f op).2 ∧
      Deque.memSame q.triple (stepQ q m op).2.2 m) ∨
    ((∃ x, op = .enqueue x) ∧ (stepQ q m op).1 = ⟨some .errAlloc, none⟩ ∧ (stepQ q m op).2.1 = q ∧
      Deque.memSame q.triple (stepQ q m op).2.2 m ∧
      ((m.allocT q.triple).1 = false ∨ (q.d.cap = Gen.MAX_POW_TWO ∧ q.d.size = q.d.cap))) := by
  obtain ⟨⟨hi, htr⟩, habs⟩ := h
  have habs' : q.d.abs = f.items.reverse := habs
  rw [← htr]
  cases op with
  | enqueue x =>
    rcases Deque.addFirst_spec q.d x m hi with ⟨a1, a2, a3, a4, _⟩ | ⟨a1, a2, a3, a4, a5⟩
    · left
      simp only [stepQ, stepF, Queue.enqueue, a1]
      refine ⟨(by first | rfl | trivial), ⟨⟨a2, ?_⟩, ?_⟩, a4⟩
      · show (q.d.addFirst x m).2.1.triple = q.triple
        rw [Deque.addFirst_triple, htr]
      · show (q.d.addFirst x m).2.1.abs = _
        rw [a3, habs']; simp [Fifo.enqueue]
    · right
      simp only [stepQ, Queue.enqueue, a1]
      refine ⟨⟨x, rfl⟩, (by first | rfl | trivial), ?_, a3, a5.imp id (fun h => ⟨h, a4⟩)⟩
      cases q; simp only at a2 ⊢; rw [a2]
  | poll =>
    obtain ⟨a1, a2, a3, a4, a5, _⟩ := Deque.removeLast_spec q.d m hi
    have hl : q.d.size = q.d.abs.length := by simp
    rw [hl, ← Deque.spec_removeLast_eq, habs', removeLast_reverse] at a1 a2 a3
    have htr' : (q.d.removeLast m).2.2.1.triple = q.triple := by rw [Deque.removeLast_triple, htr]
    left
    simp only [stepQ, stepF, Queue.poll, Fifo.poll]
    cases hitems : f.items with
    | nil =>
      rw [hitems] at a1 a2 a3
      simp only at a1 a2 a3
      rw [a1, a2]
      exact ⟨(by first | rfl | trivial), ⟨⟨a4, htr'⟩, by show (q.d.removeLast m).2.2.1.abs = _; rw [a3, hitems]; rfl⟩,
        by rw [a5]; exact Deque.memSame_refl _ m⟩
    | cons y ys =>
      rw [hitems] at a1 a2 a3
      simp only at a1 a2 a3
      rw [a1, a2]
      exact ⟨(by first | rfl | trivial), ⟨⟨a4, htr'⟩, by show (q.d.removeLast m).2.2.1.abs = _; rw [a3]⟩,
        by rw [a5]; exact Deque.memSame_refl _ m⟩
  | peek =>
    obtain ⟨a1, a2, a3⟩ := Deque.getLast_spec q.d m hi
    rw [habs', getLast_reverse] at a1 a2
    left
    simp only [stepQ, stepF, Queue.peek, Fifo.peek]
    cases hitems : f.items with
    | nil =>
      rw [hitems] at a1 a2
      simp only at a1 a2
      rw [a1, a2]
      exact ⟨(by first | rfl | trivial), ⟨⟨hi, htr⟩, habs⟩, by rw [a3]; exact Deque.memSame_refl _ m⟩
    | cons y ys =>
      rw [hitems] at a1 a2
      simp only at a1 a2
      rw [a1, a2]
      exact ⟨(by first | rfl | trivial), ⟨⟨hi, htr⟩, habs⟩, by rw [a3]; exact Deque.memSame_refl _ m⟩
  | size =>
    left
    refine ⟨?_, ⟨⟨hi, htr⟩, habs⟩, Deque.memSame_refl _ m⟩
    simp only [stepQ, stepF, Queue.size, Fifo.size]
    have : q.d.size = q.d.abs.length := by simp
    rw [this, habs']; simp

theorem step_triple (q : Queue) (m : Mem) (op : Op) : (stepQ q m op).2.1.triple = q.triple := by
  cases op <;> rfl

/-! ## histories, every refusal schedule -/

def runF (f : Fifo) : List Op → List Out × Fifo
  | [] => ([], f)
  | op :: ops => let r := stepF f op; let rs := runF r.2 ops; (r.1 :: rs.1, rs.2)

def runQ (q : Queue) (m : Mem) : List Op → List Out × Queue × Mem
  | [] => ([], q, m)
  | op :: ops => let r := stepQ q m op; let rs := runQ r.2.1 r.2.2 ops; (r.1 :: rs.1, rs.2.1, rs.2.2)

/-- the model reported `CC_ERR_ALLOC` for this call -/
def blocked (q : Queue) (m : Mem) (op : Op) : Bool := (stepQ q m op).1.st == some .errAlloc

/-- the ideal FIFO, told which calls were blocked -/
def stepB (f : Fifo) (ob : Op × Bool) : Out × Fifo :=
  if ob.2 then (⟨some .errAlloc, none⟩, f) else stepF f ob.1

def runB (f : Fifo) : List (Op × Bool) → List Out × Fifo
  | [] => ([], f)
  | ob :: obs => let r := stepB f ob; let rs := runB r.2 obs; (r.1 :: rs.1, rs.2)

/-- which calls of a history the model blocks (along its own run) -/
def flags (q : Queue) (m : Mem) : List Op → List Bool
  | [] => []
  | op :: ops => blocked q m op :: flags (stepQ q m op).2.1 (stepQ q m op).2.2 ops

theorem stepF_never_errAlloc (f : Fifo) (op : Op) : (stepF f op).1.st ≠ some .errAlloc := by
  cases op with
  | enqueue x => simp [stepF]
  | poll => simp only [stepF, Fifo.poll]; cases f.items <;> simp
  | peek => simp only [stepF, Fifo.peek]; cases f.items <;> simp
  | size => simp [stepF]

/-- **the blocked set is pinned down**: only an `enqueue` into a full ring can be blocked, and exactly
when the allocator of the queue's triple refuses or the capacity limit is reached -/
theorem blocked_iff (q : Queue) (f : Fifo) (m : Mem) (op : Op) (h : Sim q f) :
    blocked q m op = true ↔ (∃ x, op = .enqueue x) ∧ q.d.size = q.d.cap ∧
      (q.d.cap = Gen.MAX_POW_TWO ∨ (m.allocT q.triple).1 = false) := by
  unfold blocked
  rw [beq_iff_eq, ← h.1.2]
  cases op with
  | enqueue x =>
    simp only [stepQ, Queue.enqueue, Option.some.injEq]
    rw [(Deque.errAlloc_iff q.d m x 0 h.1.1).2.1]
    constructor
    · rintro ⟨a, b⟩; exact ⟨⟨x, rfl⟩, a, b⟩
    · rintro ⟨_, a, b⟩; exact ⟨a, b⟩
  | poll =>
    constructor
    · intro hb
      rcases step_refines q f m .poll h with ⟨s1, _⟩ | ⟨⟨x, e⟩, _⟩
      · rw [s1] at hb; exact absurd hb (stepF_never_errAlloc f .poll)
      · cases e
    · rintro ⟨⟨x, e⟩, _⟩; cases e
  | peek =>
    constructor
    · intro hb
      rcases step_refines q f m .peek h with ⟨s1, _⟩ | ⟨⟨x, e⟩, _⟩
      · rw [s1] at hb; exact absurd hb (stepF_never_errAlloc f .peek)
      · cases e
    · rintro ⟨⟨x, e⟩, _⟩; cases e
  | size =>
    constructor
    · intro hb; simp [stepQ] at hb
    · rintro ⟨⟨x, e⟩, _⟩; cases e

/-- **C09 (queue), all interleavings, every refusal schedule.**  Any enqueue/poll/peek/size interleaving of
any length on the model — from any ring layout, under any allocator behaviour — returns exactly what the
ideal FIFO returns when told which enqueues were blocked (`flags`, pinned down by `blocked_iff`); blocked
enqueues report `CC_ERR_ALLOC` and change nothing.  This crosses any number of growth steps, refused growth
steps and wrap-arounds. -/
theorem history_refines_sched (ops : List Op) (q : Queue) (f : Fifo) (m : Mem) (h : Sim q f) :
    (runQ q m ops).1 = (runB f (ops.zip (flags q m ops))).1 ∧
    Sim (runQ q m ops).2.1 (runB f (ops.zip (flags q m ops))).2 ∧
    Deque.memSame q.triple (runQ q m ops).2.2 m := by
  induction ops generalizing q f m with
  | nil => exact ⟨rfl, h, Deque.memSame_refl _ m⟩
  | cons op ops ih =>
    have htr := step_triple q m op
    simp only [runQ, flags, List.zip_cons_cons, runB]
    cases hb : blocked q m op
    · simp only [stepB, Bool.false_eq_true, if_false]
      rcases step_refines q f m op h with ⟨s1, s2, s3⟩ | ⟨_, s1, _⟩
      · obtain ⟨r1, r2, r3⟩ := ih (stepQ q m op).2.1 (stepF f op).2 (stepQ q m op).2.2 s2
        rw [htr] at r3
        exact ⟨by rw [s1, r1], r2, Deque.memSame_trans r3 s3⟩
      · exfalso
        unfold blocked at hb
        rw [s1] at hb; simp at hb
    · simp only [stepB, if_true]
      rcases step_refines q f m op h with ⟨s1, _⟩ | ⟨_, s1, s2, s3, _⟩
      · exfalso
        unfold blocked at hb
        rw [beq_iff_eq, s1] at hb
        exact stepF_never_errAlloc f op hb
      · obtain ⟨r1, r2, r3⟩ := ih (stepQ q m op).2.1 f (stepQ q m op).2.2 (by rw [s2]; exact h)
        rw [htr] at r3
        exact ⟨by rw [s1, r1], r2, Deque.memSame_trans r3 s3⟩

theorem stepF_size_le (f : Fifo) (op : Op) : (stepF f op).2.items.length ≤ f.items.length + 1 := by
  cases op with
  | enqueue x => simp [stepF, Fifo.enqueue]
  | poll => simp only [stepF, Fifo.poll]; cases h : f.items <;> simp [h] <;> omega
  | peek => simp [stepF]
  | size => simp [stepF]

/-- **Corollary: no enqueue is blocked** when the allocator never refuses (C-library triple or exhausted
schedule) and the occupancy stays below `MAX_POW_TWO`: the model then equals the plain ideal FIFO -/
theorem history_refines (ops : List Op) (q : Queue) (f : Fifo) (m : Mem) (h : Sim q f)
    (hn : Deque.neverRefuses q.triple m) (hbound : f.items.length + ops.length ≤ Gen.MAX_POW_TWO) :
    (runQ q m ops).1 = (runF f ops).1 ∧ Sim (runQ q m ops).2.1 (runF f ops).2 ∧
    Deque.memSame q.triple (runQ q m ops).2.2 m := by
  induction ops generalizing q f m with
  | nil => exact ⟨rfl, h, Deque.memSame_refl _ m⟩
  | cons op ops ih =>
    simp only [List.length_cons] at hbound
    have htr := step_triple q m op
    rcases step_refines q f m op h with ⟨s1, s2, s3⟩ | ⟨_, _, _, _, s5⟩
    · have hlen := stepF_size_le f op
      obtain ⟨r1, r2, r3⟩ := ih (stepQ q m op).2.1 (stepF f op).2 (stepQ q m op).2.2 s2
        (by rw [htr]; exact Deque.memD_neverRefuses s3 hn) (by omega)
      simp only [runQ, runF]
      rw [htr] at r3
      exact ⟨by rw [s1, r1], r2, Deque.memSame_trans r3 s3⟩
    · exfalso
      rcases s5 with s5 | ⟨s5, s6⟩
      · have := (Deque.allocT_of_neverRefuses q.triple m hn).1
        rw [s5] at this; exact absurd this (by decide)
      · have h1 : q.d.size = f.items.length := by
          have := congrArg List.length h.2
          simpa [Queue.abs] using this
        omega

/-- **from the constructor**, every configured capacity, either constructor (`cc_queue_new_conf` /
`cc_queue_new`); the queue owns exactly three blocks on its triple throughout -/
theorem new_history_refines (confCap : Nat) (t : Triple) (m0 : Mem) (hn : Deque.neverRefuses t m0) (ops : List Op)
    (hbound : ops.length ≤ Gen.MAX_POW_TWO) :
    ∃ q0, (Queue.new confCap t m0).2.1 = some q0 ∧ (Queue.new confCap t m0).1 = .ok ∧
      (runQ q0 (Queue.new confCap t m0).2.2 ops).1 = (runF {} ops).1 ∧
      Sim (runQ q0 (Queue.new confCap t m0).2.2 ops).2.1 (runF {} ops).2 ∧
      Deque.memRel t 3 (runQ q0 (Queue.new confCap t m0).2.2 ops).2.2 m0 := by
  rcases Queue.new_spec confCap t m0 with ⟨n1, q0, n2, n3, n4, _, n6, n7⟩ | ⟨n1, _, n3⟩
  · obtain ⟨r1, r2, r3⟩ := history_refines ops q0 {} _ ⟨n3, by rw [n4]; rfl⟩
      (by rw [n6]; exact Deque.memD_neverRefuses n7 hn) (by simpa using hbound)
    rw [n6] at r3
    exact ⟨q0, n2, n1, r1, r2, Deque.memRel_same r3 n7⟩
  · exfalso
    -- with a never-refusing allocator the constructor cannot report CC_ERR_ALLOC
    have h1 := Deque.allocT_of_neverRefuses t m0 hn
    rcases Deque.new_spec confCap t (m0.allocT t).2 with ⟨_, d, k2, _⟩ | ⟨_, _, _, k4⟩
    · have : (Queue.new confCap t m0).1 = .ok := by simp [Queue.new, h1.1, k2]
      rw [this] at n1; exact absurd n1 (by decide)
    · have h2 := Deque.allocT_of_neverRefuses t _ h1.2.1
      have h3 := Deque.allocT_of_neverRefuses t _ h2.2.1
      rcases k4 with k4 | k4
      · rw [k4] at h2; exact absurd h2.1 (by decide)
      · rw [k4] at h3; exact absurd h3.1 (by decide)

/-- **from the constructor, every refusal schedule**: any configured capacity, either constructor, any
allocator behaviour from the first call on.  Either the constructor is refused (`CC_ERR_ALLOC`, no object,
balanced ledger), or it yields an empty queue on the given triple and *every* interleaving on it, under
whatever schedule remains, refines the FIFO told which enqueues were blocked; three blocks owned throughout -/
theorem new_history_refines_sched (confCap : Nat) (t : Triple) (m0 : Mem) (ops : List Op) :
    ((Queue.new confCap t m0).1 = .errAlloc ∧ (Queue.new confCap t m0).2.1 = none ∧
      Deque.memSame t (Queue.new confCap t m0).2.2 m0) ∨
    (∃ q0, (Queue.new confCap t m0).2.1 = some q0 ∧ (Queue.new confCap t m0).1 = .ok ∧ q0.triple = t ∧
      (runQ q0 (Queue.new confCap t m0).2.2 ops).1 =
        (runB {} (ops.zip (flags q0 (Queue.new confCap t m0).2.2 ops))).1 ∧
      Sim (runQ q0 (Queue.new confCap t m0).2.2 ops).2.1
        (runB {} (ops.zip (flags q0 (Queue.new confCap t m0).2.2 ops))).2 ∧
      Deque.memRel t 3 (runQ q0 (Queue.new confCap t m0).2.2 ops).2.2 m0) := by
  rcases Queue.new_spec confCap t m0 with ⟨n1, q0, n2, n3, n4, _, n6, n7⟩ | ⟨n1, n2, n3⟩
  · right
    obtain ⟨r1, r2, r3⟩ := history_refines_sched ops q0 {} (Queue.new confCap t m0).2.2 ⟨n3, by rw [n4]; rfl⟩
    rw [n6] at r3
    exact ⟨q0, n2, n1, n6, r1, r2, Deque.memRel_same r3 n7⟩
  · exact Or.inl ⟨n1, n2, n3⟩

/-! ## the property in its own vocabulary (facts about the ideal FIFO) -/

/-- values enqueued by a history, in order -/
def enqueued : List Op → List Nat
  | [] => []
  | .enqueue x :: ops => x :: enqueued ops
  | _ :: ops => enqueued ops

/-- values returned by the successful polls of a history, in order -/
def polled : List Op → List Out → List Nat
  | .poll :: ops, ⟨some .ok, some v⟩ :: outs => v :: polled ops outs
  | _ :: ops, _ :: outs => polled ops outs
  | _, _ => []

/-- **FIFO order.**  Over any history, what was in the queue followed by everything enqueued equals
everything polled followed by what is left: `poll` returns the least recently enqueued element not yet
polled, each element exactly once, and nothing is lost or invented. -/
theorem spec_fifo (ops : List Op) (f : Fifo) :
    f.items ++ enqueued ops = polled ops (runF f ops).1 ++ (runF f ops).2.items := by
  induction ops generalizing f with
  | nil => simp [enqueued, polled, runF]
  | cons op ops ih =>
    cases op with
    | enqueue x =>
      have := ih (f.enqueue x)
      simp only [runF, stepF, enqueued, polled]
      simp only [Fifo.enqueue, List.append_assoc, List.singleton_append] at this
      exact this
    | poll =>
      simp only [runF, stepF, enqueued, Fifo.poll]
      cases hitems : f.items with
      | nil =>
        simp only [polled]
        have := ih f
        rw [hitems] at this
        exact this
      | cons y ys =>
        simp only [polled]
        have := ih ⟨ys⟩
        simp only at this
        rw [List.cons_append, this]; rfl
    | peek =>
      simp only [runF, stepF, enqueued]
      have := ih f
      cases hp : f.peek with
      | mk st v => cases st <;> cases v <;> simp only [polled] <;> exact this
    | size =>
      simp only [runF, stepF, enqueued, polled]
      exact ih f

/-- **size = insertions − successful removals, over a whole history** -/
theorem spec_size_history (ops : List Op) (f : Fifo) :
    f.size + (enqueued ops).length = (polled ops (runF f ops).1).length + (runF f ops).2.size := by
  have := congrArg List.length (spec_fifo ops f)
  simpa [Fifo.size] using this

/-- values of the enqueues that were executed (not blocked), in order -/
def enqueuedB : List (Op × Bool) → List Nat
  | [] => []
  | (.enqueue x, false) :: obs => x :: enqueuedB obs
  | _ :: obs => enqueuedB obs

/-- **FIFO order with refusals**: the same law for the FIFO that is told which enqueues were blocked — a
blocked enqueue contributes nothing, everything else is as in `spec_fifo` -/
theorem spec_fifo_blocked (obs : List (Op × Bool)) (f : Fifo) :
    f.items ++ enqueuedB obs = polled (obs.map (·.1)) (runB f obs).1 ++ (runB f obs).2.items := by
  induction obs generalizing f with
  | nil => simp [enqueuedB, polled, runB]
  | cons ob obs ih =>
    obtain ⟨op, b⟩ := ob
    cases b with
    | true =>
      have := ih f
      cases op <;> simp only [runB, stepB, if_true, enqueuedB, List.map_cons, polled] <;> exact this
    | false =>
      simp only [runB, stepB, Bool.false_eq_true, if_false, List.map_cons]
      cases op with
      | enqueue x =>
        have := ih (f.enqueue x)
        simp only [stepF, enqueuedB, polled]
        simp only [Fifo.enqueue, List.append_assoc, List.singleton_append] at this
        exact this
      | poll =>
        simp only [stepF, enqueuedB, Fifo.poll]
        cases hitems : f.items with
        | nil =>
          simp only [polled]
          have := ih f
          rw [hitems] at this
          exact this
        | cons y ys =>
          simp only [polled]
          have := ih ⟨ys⟩
          simp only at this
          rw [List.cons_append, this]; rfl
      | peek =>
        simp only [stepF, enqueuedB]
        have := ih f
        cases hp : f.peek with
        | mk st v => cases st <;> cases v <;> simp only [polled] <;> exact this
      | size =>
        simp only [stepF, enqueuedB, polled]
        exact ih f

theorem flags_length (ops : List Op) (q : Queue) (m : Mem) : (flags q m ops).length = ops.length := by
  induction ops generalizing q m with
  | nil => rfl
  | cons op ops ih => simp only [flags, List.length_cons]; rw [ih]

/-- **FIFO on the concrete queue, every refusal schedule** (`spec_fifo` transported to the model): over any
interleaving on `cc_queue.c`'s model, from any ring layout and under any allocator behaviour, what was in the
queue (oldest first) followed by every enqueue that was not blocked equals everything the model's `poll`
calls returned followed by what the queue still holds — `poll` returns the least recently enqueued element
not yet polled, through any number of growth steps, refused growth steps and wrap-arounds -/
theorem fifo_model (ops : List Op) (q : Queue) (f : Fifo) (m : Mem) (h : Sim q f) :
    f.items ++ enqueuedB (ops.zip (flags q m ops)) =
      polled ops (runQ q m ops).1 ++ (runQ q m ops).2.1.abs.reverse := by
  obtain ⟨r1, r2, _⟩ := history_refines_sched ops q f m h
  have hlen := flags_length ops q m
  have hmap : (ops.zip (flags q m ops)).map (·.1) = ops := by
    rw [List.map_fst_zip (by omega)]
  have := spec_fifo_blocked (ops.zip (flags q m ops)) f
  rw [hmap, ← r1] at this
  rw [this, r2.2]; simp

/-- **size = executed insertions − successful removals, on the concrete queue, every schedule** -/
theorem size_history_model (ops : List Op) (q : Queue) (f : Fifo) (m : Mem) (h : Sim q f) :
    q.size + (enqueuedB (ops.zip (flags q m ops))).length =
      (polled ops (runQ q m ops).1).length + (runQ q m ops).2.1.size := by
  have := congrArg List.length (fifo_model ops q f m h)
  have hq : q.size = f.items.length := by
    have := congrArg List.length h.2; simpa [Queue.abs, Queue.size] using this
  simp only [List.length_append, List.length_reverse] at this
  simp only [Queue.size] at hq ⊢
  have hfin : (runQ q m ops).2.1.abs.length = (runQ q m ops).2.1.d.size := by simp [Queue.abs]
  omega

/-- `peek` shows exactly the element the next `poll` returns, and does not remove it -/
theorem spec_peek_poll (f : Fifo) : f.peek.1 = f.poll.1 ∧ f.peek.2 = f.poll.2.1 := by
  unfold Fifo.peek Fifo.poll; cases f.items <;> exact ⟨rfl, rfl⟩

/-- size = insertions minus successful removals (one step at a time) -/
theorem spec_size (f : Fifo) (x : Nat) :
    (f.enqueue x).size = f.size + 1 ∧ (f.poll.1 = .ok → f.poll.2.2.size + 1 = f.size) ∧
    (f.poll.1 ≠ .ok → f.poll.2.2 = f ∧ f.size = 0) := by
  refine ⟨by simp [Fifo.enqueue, Fifo.size], ?_, ?_⟩
  · unfold Fifo.poll Fifo.size; cases f.items <;> simp
  · unfold Fifo.poll Fifo.size; cases h : f.items <;> simp

/-- `poll`/`peek` on an empty queue: error, and the concrete state is physically unchanged -/
theorem empty_inert (q : Queue) (m : Mem) (h : q.d.size = 0) :
    q.poll m = (.errOutOfRange, none, q, m) ∧ q.peek m = (.errOutOfRange, none, m) := by
  unfold Queue.poll Queue.peek Deque.removeLast Deque.getLast
  rw [if_pos h, if_pos h]
  exact ⟨rfl, rfl⟩

/-- iteration and `foreach` observe exactly the live elements (newest first): the callback sequence is
the abstraction, and the queue iterator is the deque iterator over it -/
theorem iteration_observes (q : Queue) (f : Fifo) (m : Mem) (it : Deque.Iter) (h : Sim q f) :
    (q.foreach m).1 = f.items.reverse ∧ (q.foreach m).2 = m ∧
    (Queue.iterNext it q m).1 = (DequeSpec.curNext f.items.reverse it.cur).1 ∧
    (Queue.iterNext it q m).2.1 = (DequeSpec.curNext f.items.reverse it.cur).2.1 ∧
    (Queue.iterNext it q m).2.2.1.cur = (DequeSpec.curNext f.items.reverse it.cur).2.2 := by
  obtain ⟨⟨hi, _⟩, habs⟩ := h
  have habs' : q.d.abs = f.items.reverse := habs
  obtain ⟨f1, f2⟩ := Deque.foreach_spec q.d m hi
  obtain ⟨i1, i2, i3, _⟩ := Deque.iterNext_spec it q.d m hi
  rw [habs'] at f1 i1 i2 i3
  exact ⟨f1, f2, i1, i2, i3⟩

/-- the hypotheses are satisfiable by a non-trivial state: a wrapped, exactly full ring -/
example : Sim ⟨Deque.mk 4 4 3 3 [12, 13, 14, 11] .conf, .conf⟩ ⟨[14, 13, 12, 11]⟩ := by
  refine ⟨by decide, by decide⟩

/-- non-vacuity of the every-schedule statements: a wrapped, exactly full ring; the first growth is refused,
the second succeeds, then the queue is drained and polled once more on empty — outputs, blocked flags and
ledger as the theorems say -/
example :
    (runQ ⟨Deque.mk 4 4 3 3 [12, 13, 14, 11] .conf, .conf⟩ { sched := [true, false], live := 3 }
      [.enqueue 5, .enqueue 6, .poll, .poll, .poll, .poll, .poll, .poll]).1 =
      [⟨some .errAlloc, none⟩, ⟨some .ok, none⟩, ⟨some .ok, some 14⟩, ⟨some .ok, some 13⟩, ⟨some .ok, some 12⟩,
       ⟨some .ok, some 11⟩, ⟨some .ok, some 6⟩, ⟨some .errOutOfRange, none⟩] ∧
    flags ⟨Deque.mk 4 4 3 3 [12, 13, 14, 11] .conf, .conf⟩ { sched := [true, false], live := 3 }
      [.enqueue 5, .enqueue 6, .poll] = [true, false, false] ∧
    (runQ ⟨Deque.mk 4 4 3 3 [12, 13, 14, 11] .conf, .conf⟩ { sched := [true, false], live := 3 }
      [.enqueue 5, .enqueue 6, .poll]).2.2.live = 3 := by decide

end CC.Properties.C09Queue
