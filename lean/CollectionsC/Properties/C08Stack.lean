import CollectionsC.Properties.C09Stack
import CollectionsC.Proofs.StackMem
import CollectionsC.Proofs.ArrayNamed
/-! # C08 (stack part) — a refused allocation is atomic for `CC_Stack`

Statements only.  For push (the only allocating call of the push/pop/peek/size vocabulary), the
wrapped constructor and `cc_stack_filter`, and **every** schedule: `CC_ERR_ALLOC` is reported iff a
refusal fired (`Mem.nrefused` advanced, by exactly one); then the whole state is unchanged,
constructors/builders yield no object, and the block counter of the stack's triple is what it was
(the wrapped constructor frees the header when the inner array cannot be built — `cc_stack_new_conf`;
the filter destroys its partial result — Q3); the history continues as if the call had not been made. -/
namespace CC.Properties.C08Stack
open CC
open CC.Spec.Seq (SOp Out)

theorem refused_iff (s : Stack) (op : SOp) (m : Mem) (hinv : s.Inv) :
    ((s.step op m).1.st = some .errAlloc ↔ (s.step op m).2.2.nrefused = m.nrefused + 1) ∧
    ((s.step op m).1.st ≠ some .errAlloc → (s.step op m).2.2.nrefused = m.nrefused) := by
  have l2 := (Stack.step_led s op m hinv).2.2.1
  by_cases h : (s.step op m).1.st = some .errAlloc
  · simp only [h, decide_true, if_true] at l2
    exact ⟨⟨fun _ => l2, fun _ => h⟩, fun hn => absurd h hn⟩
  · simp only [h, decide_false] at l2
    exact ⟨⟨fun hh => absurd hh h, fun hh => by simp at l2; omega⟩, fun _ => by simpa using l2⟩

/-- a call that reports any error (a blocked push, pop/peek on the empty stack) leaves the whole
state and the ledger balance alone -/
theorem atomic (s : Stack) (op : SOp) (m : Mem) (hinv : s.Inv) (st : Stat)
    (h1 : (s.step op m).1.st = some st) (h2 : st ≠ .ok) :
    (s.step op m).2.1 = s ∧ (s.step op m).2.2.live = m.live ∧ (s.step op m).2.2.fault = m.fault ∧
    Arr.own s.v.triple (s.step op m).2.2 = Arr.own s.v.triple m := by
  obtain ⟨_, _, _, _, s5, s6, s7⟩ := C09Stack.step_refines s op m hinv
  exact ⟨Stack.ext_v (s7 st h1 h2) (Stack.step_inv s op m hinv).2.2, s5, s6, by simpa using (Stack.step_led s op m hinv).1⟩

/-- a refused push in particular: `CC_ERR_ALLOC`, state unchanged -/
theorem push_refused (s : Stack) (x : Nat) (m : Mem) (hfull : s.v.size = s.v.capacity)
    (hlim : ¬ s.v.AtLimit) (hr : (m.allocT s.v.triple).1 = false) :
    (s.push x m).1 = .errAlloc ∧ (s.push x m).2.1 = s ∧ (s.push x m).2.2.live = m.live := by
  obtain ⟨a1, a2, a3⟩ := Arr.add_atomic s.v x m hfull hlim hr
  exact ⟨a1, by simp only [Stack.push]; rw [a2], a3⟩

theorem history_refused_count (ops : List SOp) (s : Stack) (m : Mem) (hinv : s.Inv) :
    (s.run ops m).2.2.nrefused =
      m.nrefused + ((s.run ops m).1.filter (fun o => decide (o.st = some .errAlloc))).length :=
  (Stack.run_led ops s m hinv).2.2.1

/-- wrapped constructor: `CC_ERR_ALLOC` iff a refusal fired; any failure yields no object and a
balanced ledger (the header is released when the inner constructor fails) -/
theorem new_refused_iff_atomic (cap : Nat) (grow : Nat → Nat) (exGe : Nat → Bool) (m : Mem) (t : Triple) :
    ((Stack.new cap grow exGe m t).1 = .errAlloc ↔ (Stack.new cap grow exGe m t).2.2.nrefused = m.nrefused + 1) ∧
    ((Stack.new cap grow exGe m t).1 ≠ .ok → (Stack.new cap grow exGe m t).2.1 = none ∧
      Arr.own t (Stack.new cap grow exGe m t).2.2 = Arr.own t m ∧ (Stack.new cap grow exGe m t).2.2.fault = m.fault) := by
  refine ⟨(Stack.new_led cap grow exGe m t).nrefused_iff.1, fun h => ?_⟩
  rcases Stack.new_spec cap grow exGe m t with ⟨_, s2, s3, s4⟩ | ⟨ok, _⟩
  · exact ⟨s2, s3, s4⟩
  · exact absurd ok h

/-- `cc_stack_filter`: `CC_ERR_ALLOC` iff a refusal fired (in the header, the inner array, or any
growth step of the result); any failure yields no object and a balanced ledger; the source is not
touched (it is not part of the result) -/
theorem filter_refused_iff_atomic (p : Nat → Bool) (s : Stack) (dgrow : Nat → Nat) (dexGe : Nat → Bool) (m : Mem)
    (hinv : s.Inv) :
    ((s.filter p dgrow dexGe m).1 = .errAlloc ↔ (s.filter p dgrow dexGe m).2.2.2.nrefused = m.nrefused + 1) ∧
    ((s.filter p dgrow dexGe m).1 ≠ .ok → (s.filter p dgrow dexGe m).2.1 = none ∧
      Arr.own s.triple (s.filter p dgrow dexGe m).2.2.2 = Arr.own s.triple m ∧
      (s.filter p dgrow dexGe m).2.2.2.fault = m.fault) := by
  refine ⟨(Stack.filter_led p s dgrow dexGe m).nrefused_iff.1, fun h => ?_⟩
  rcases Stack.filter_spec p s dgrow dexGe m hinv with ⟨_, _, s2, s3⟩ | ⟨_, _, s2, s3, s4⟩ | ⟨ok, _⟩
  · rw [s3]; exact ⟨s2, rfl, rfl⟩
  · exact ⟨s2, s3, s4⟩
  · exact absurd ok h

/-- **continue**, every schedule: after a blocked push the rest of the interleaving yields, from the
unchanged stack and under any ledger holding the remaining schedule, exactly what it would have
yielded had the push not been attempted -/
theorem continue_after_refusal (ops : List SOp) (s : Stack) (x : Nat) (m m' : Mem) (hinv : s.Inv)
    (hb : (s.push x m).1 ≠ .ok) (hm' : m'.sched = (s.push x m).2.2.sched) :
    ((s.push x m).2.1.run ops (s.push x m).2.2).1 = (s.run ops m').1 ∧
    ((s.push x m).2.1.run ops (s.push x m).2.2).2.1 = (s.run ops m').2.1 := by
  obtain ⟨sp, _, _⟩ := Arr.add_spec s.v x m hinv
  have hsame : (s.push x m).2.1 = s := by
    rcases sp with ⟨ok, _⟩ | ⟨_, hs⟩
    · exact absurd ok hb
    · exact Stack.ext_v hs rfl
  have := Stack.run_indep ops s (s.push x m).2.2 m' hinv hm'.symm
  rw [hsame]
  exact ⟨this.1, this.2.1⟩

/-! Non-vacuity: a full stack, the allocator refusing the growth step, then serving it -/
example :
    let s : Stack := ⟨Arr.mk 2 2 [5, 6] (fun c => 2 * c) .conf, .conf⟩
    let r := s.push 7 { sched := [true], live := 3 }
    s.Inv ∧ r.1 = .errAlloc ∧ r.2.1.abs = [5, 6] ∧ r.2.2.live = 3 ∧ r.2.2.nrefused = 1 ∧ r.2.2.fault = false ∧
    (r.2.1.push 7 r.2.2).1 = .ok ∧ (r.2.1.push 7 r.2.2).2.1.abs = [5, 6, 7] := by decide

end CC.Properties.C08Stack
