import CollectionsC.Proofs.ArrayUncond
/-! # C07 (array part) — array iterators traverse completely and in order; one-step mutation is safe

Statements only (helpers: `Proofs/ArrayIter.lean`, `Proofs/ArrayStep.lean`).  The concrete cursor is
`CC_ArrayIter`'s `index/last_removed`; the ideal cursor is `(done, todo)` of `Spec/SeqSpec.lean`
(`done ++ todo` is the content, the last element of `done` is the one yielded last).  `Arr.Sim a it c`
says the ideal cursor splits the content of `a` at the concrete index.

Quantifiers: every array state satisfying the invariant (any fill level, any capacity), every
iterator-driving program over next/remove/add/replace/index — not only contract-respecting ones —
every element, every allocator schedule, every growth function.

The zip theorems speak of two *distinct* arrays (`Arr.ZSim a1 a2`).  The library also accepts the same
array on both sides; the model then threads one state through both halves of each call
(`Arr.zipRemove1/zipAdd1/zipReplace1`), the correspondence check drives such iterators against the ideal
list, and `C08Array.zipAdd_same_array_all_or_nothing` proves the one clause that matters there (two
elements or none, invariant kept — A11).  There is no ideal-cursor theorem for aliased zips. -/
namespace CC.Properties.C07Array
open CC
open CC.Spec.Seq (IterOp Cursor ZipCursor Out ZipOp ZOut)

/-- `cc_array_iter_init`: everything is still to visit -/
theorem iter_init (a : Arr) : Arr.Sim a {} { done := [], todo := a.abs, removed := false } := Arr.sim_init a

/-- **every iterator program refines the ideal cursor**: same reports, same final content and
cursor position; blocked `iter_add` calls (refused growth) leave array and cursor untouched -/
theorem program_refines (ops : List IterOp) (a : Arr) (it : ArrIter) (c : Cursor) (m : Mem) (hinv : a.Inv)
    (hs : Arr.Sim a it c) :
    (a.iterRun it ops m).1 = (c.run ops ((a.iterRun it ops m).1.map Out.blocked)).1 ∧
    Arr.Sim (a.iterRun it ops m).2.1 (a.iterRun it ops m).2.2.1 (c.run ops ((a.iterRun it ops m).1.map Out.blocked)).2 ∧
    (a.iterRun it ops m).2.1.Inv ∧
    (a.iterRun it ops m).2.2.2.live = m.live ∧ (a.iterRun it ops m).2.2.2.fault = m.fault := by
  induction ops generalizing a it c m with
  | nil => exact ⟨rfl, hs, hinv, rfl, rfl⟩
  | cons op ops ih =>
    obtain ⟨s1, s2, s3, s4, s5, s6, _⟩ := Arr.iterStep_sim a it c op m hinv hs
    obtain ⟨i1, i2, i3, i5, i6⟩ := ih (a.iterStep it op m).2.1 (a.iterStep it op m).2.2.1 _ (a.iterStep it op m).2.2.2
      s4 s2
    simp only [Arr.iterRun, Cursor.run, List.map_cons, List.headD_cons, List.tail_cons]
    exact ⟨by rw [← i1, ← s1], i2, i3, by rw [i5, s5], by rw [i6, s6]⟩

/-! ## the single calls (restated from the helper file) -/

/-- next: yields the next unvisited element; `CC_ITER_END` exactly when nothing is left — whatever
the fill level -/
theorem next_sim (a : Arr) (it : ArrIter) (c : Cursor) (m : Mem) (hinv : a.Inv) (hs : Arr.Sim a it c) :
    (a.iterNext it m).1 = c.next.1 ∧ (a.iterNext it m).2.1 = c.next.2.1 ∧
    Arr.Sim a (a.iterNext it m).2.2.1 c.next.2.2 ∧ (a.iterNext it m).2.2.2 = m :=
  Arr.iterNext_sim a it c m hinv hs

/-- remove: exactly the element yielded last goes (A4: the cursor steps back, so nothing is skipped) -/
theorem remove_sim (a : Arr) (it : ArrIter) (c : Cursor) (m : Mem) (hinv : a.Inv) (hs : Arr.Sim a it c) :
    (a.iterRemove it m).1 = c.remove.1 ∧ (a.iterRemove it m).2.1 = c.remove.2.1 ∧
    Arr.Sim (a.iterRemove it m).2.2.1 (a.iterRemove it m).2.2.2.1 c.remove.2.2 ∧
    (a.iterRemove it m).2.2.2.2 = m := by
  obtain ⟨r1, r2, r3, _, _, r6, _⟩ := Arr.iterRemove_sim a it c m hinv hs
  exact ⟨r1, r2, r3, r6⟩

/-- add: inserts directly after the element yielded last and steps over it; blocked → array and
cursor unchanged (A5) -/
theorem add_sim (a : Arr) (it : ArrIter) (c : Cursor) (x : Nat) (m : Mem) (hinv : a.Inv)
    (hs : Arr.Sim a it c) :
    ((a.iterAdd it x m).1 = .ok ∧ Arr.Sim (a.iterAdd it x m).2.1 (a.iterAdd it x m).2.2.1 (c.add x).2) ∨
    (((a.iterAdd it x m).1 = .errAlloc ∨ (a.iterAdd it x m).1 = .errMaxCapacity) ∧
      (a.iterAdd it x m).2.1 = a ∧ (a.iterAdd it x m).2.2.1 = it) := by
  rcases (Arr.iterAdd_sim a it c x m hinv hs).1 with ⟨ok, hsim, _⟩ | ⟨hb, h1, h2⟩
  · exact Or.inl ⟨ok, hsim⟩
  · refine Or.inr ⟨?_, h1, h2⟩
    rcases hb.1 with ⟨h, _⟩ | ⟨h, _⟩
    · exact Or.inl h
    · exact Or.inr h

/-- **when `iter_add` may be blocked**: only on an exactly full array, with `CC_ERR_ALLOC` only when the
array's own allocator refused the growth step, with `CC_ERR_MAX_CAPACITY` only at the capacity limit
(this pins the `blocked` oracle of `program_refines`, step by step) -/
theorem add_blocked_only_if (a : Arr) (it : ArrIter) (c : Cursor) (x : Nat) (m : Mem) (hinv : a.Inv)
    (hs : Arr.Sim a it c) (h : (a.iterAdd it x m).1 ≠ .ok) :
    a.size = a.capacity ∧
    (((a.iterAdd it x m).1 = .errAlloc ∧ (m.allocT a.triple).1 = false) ∨
     ((a.iterAdd it x m).1 = .errMaxCapacity ∧ a.AtLimit)) := by
  rcases (Arr.iterAdd_sim a it c x m hinv hs).1 with ⟨ok, _⟩ | ⟨hb, _⟩
  · exact absurd ok h
  · exact ⟨hb.2, hb.1⟩

/-- **the ledger of an iterator program, for either allocator triple**: re-allocating insertions
included, the live-block count of the array's own triple is what it was, the other allocator's counters
are untouched, hence both `live` and `liveLibc` are balanced; the triple is kept -/
theorem program_ledger (ops : List IterOp) (a : Arr) (it : ArrIter) (c : Cursor) (m : Mem) (hinv : a.Inv)
    (hs : Arr.Sim a it c) :
    Arr.own a.triple (a.iterRun it ops m).2.2.2 = Arr.own a.triple m ∧
    Arr.Foreign a.triple m (a.iterRun it ops m).2.2.2 ∧
    (a.iterRun it ops m).2.2.2.live = m.live ∧ (a.iterRun it ops m).2.2.2.liveLibc = m.liveLibc ∧
    (a.iterRun it ops m).2.1.triple = a.triple := by
  obtain ⟨l1, l2, l3⟩ := Arr.iterRun_led ops a it c m hinv hs
  obtain ⟨b1, b2⟩ := Arr.iterRun_balanced ops a it c m hinv hs
  exact ⟨l1, l2, b1, b2, l3⟩

/-- replace: exactly the element yielded last is replaced; size and every other element intact -/
theorem replace_sim (a : Arr) (it : ArrIter) (c : Cursor) (x : Nat) (m : Mem) (hinv : a.Inv) (hs : Arr.Sim a it c) :
    (a.iterReplace it x m).1 = (c.replace x).1 ∧ (a.iterReplace it x m).2.1 = (c.replace x).2.1 ∧
    Arr.Sim (a.iterReplace it x m).2.2.1 it (c.replace x).2.2 ∧
    (a.iterReplace it x m).2.2.1.size = a.size ∧ (a.iterReplace it x m).2.2.2 = m := by
  obtain ⟨r1, r2, r3, _, r5, r6, _⟩ := Arr.iterReplace_sim a it c x m hinv hs
  exact ⟨r1, r2, r3, r5, r6⟩

/-- index: the current position of the element yielded last -/
theorem index_sim (a : Arr) (it : ArrIter) (c : Cursor) (hs : Arr.Sim a it c) : Arr.iterIndex it = c.index :=
  Arr.iterIndex_sim a it c hs

/-! ## zip iterator -/

theorem zip_init (a1 a2 : Arr) :
    Arr.ZSim a1 a2 {} { done1 := [], todo1 := a1.abs, done2 := [], todo2 := a2.abs, removed := false } :=
  Arr.zsim_init a1 a2

/-- zip next: the pair at the common position; stops at the shorter array -/
theorem zip_next_sim (a1 a2 : Arr) (it : ArrIter) (z : ZipCursor) (m : Mem) (h1 : a1.Inv) (h2 : a2.Inv)
    (hs : Arr.ZSim a1 a2 it z) :
    (Arr.zipNext a1 a2 it m).1 = z.next.1 ∧ (Arr.zipNext a1 a2 it m).2.1 = z.next.2.1 ∧
    Arr.ZSim a1 a2 (Arr.zipNext a1 a2 it m).2.2.1 z.next.2.2 ∧ (Arr.zipNext a1 a2 it m).2.2.2 = m :=
  Arr.zipNext_sim a1 a2 it z m h1 h2 hs

theorem zip_remove_sim (a1 a2 : Arr) (it : ArrIter) (z : ZipCursor) (m : Mem) (h1 : a1.Inv) (h2 : a2.Inv)
    (hs : Arr.ZSim a1 a2 it z) :
    (Arr.zipRemove a1 a2 it m).1 = z.remove.1 ∧ (Arr.zipRemove a1 a2 it m).2.1 = z.remove.2.1 ∧
    Arr.ZSim (Arr.zipRemove a1 a2 it m).2.2.1 (Arr.zipRemove a1 a2 it m).2.2.2.1 (Arr.zipRemove a1 a2 it m).2.2.2.2.1 z.remove.2.2 ∧
    (Arr.zipRemove a1 a2 it m).2.2.2.2.2 = m := by
  obtain ⟨r1, r2, r3, _, _, _, _, r8, _⟩ := Arr.zipRemove_sim a1 a2 it z m h1 h2 hs
  exact ⟨r1, r2, r3, r8⟩

theorem zip_replace_sim (a1 a2 : Arr) (it : ArrIter) (z : ZipCursor) (x y : Nat) (m : Mem) (h1 : a1.Inv) (h2 : a2.Inv)
    (hs : Arr.ZSim a1 a2 it z) :
    (Arr.zipReplace a1 a2 it x y m).1 = (z.replace x y).1 ∧ (Arr.zipReplace a1 a2 it x y m).2.1 = (z.replace x y).2.1 ∧
    Arr.ZSim (Arr.zipReplace a1 a2 it x y m).2.2.1 (Arr.zipReplace a1 a2 it x y m).2.2.2.1 it (z.replace x y).2.2 ∧
    (Arr.zipReplace a1 a2 it x y m).2.2.2.2 = m := by
  obtain ⟨r1, r2, r3, _, _, _, _, r8, _⟩ := Arr.zipReplace_sim a1 a2 it z x y m h1 h2 hs
  exact ⟨r1, r2, r3, r8⟩

/-- zip add: a pair is inserted after the pair yielded last; when either array cannot make room,
`CC_ERR_ALLOC`, both contents and the cursor unchanged (A8) -/
theorem zip_add_sim (a1 a2 : Arr) (it : ArrIter) (z : ZipCursor) (x y : Nat) (m : Mem) (h1 : a1.Inv) (h2 : a2.Inv)
    (hs : Arr.ZSim a1 a2 it z) :
    ((Arr.zipAdd a1 a2 it x y m).1 = .ok ∧
      Arr.ZSim (Arr.zipAdd a1 a2 it x y m).2.1 (Arr.zipAdd a1 a2 it x y m).2.2.1 (Arr.zipAdd a1 a2 it x y m).2.2.2.1 (z.add x y).2) ∨
    ((Arr.zipAdd a1 a2 it x y m).1 = .errAlloc ∧ (Arr.zipAdd a1 a2 it x y m).2.1.abs = a1.abs ∧
      (Arr.zipAdd a1 a2 it x y m).2.2.1 = a2 ∧ (Arr.zipAdd a1 a2 it x y m).2.2.2.1 = it) := by
  rcases (Arr.zipAdd_sim a1 a2 it z x y m h1 h2 hs).1 with ⟨ok, hsim, _⟩ | ⟨e, b1, _, _, _, _, _, b2, b3, _⟩
  · exact Or.inl ⟨ok, hsim⟩
  · exact Or.inr ⟨e, b1, b2, b3⟩

theorem zip_index_sim (a1 a2 : Arr) (it : ArrIter) (z : ZipCursor) (hs : Arr.ZSim a1 a2 it z) :
    Arr.iterIndex it = z.index := Arr.zipIndex_sim a1 a2 it z hs

/-- **every zip-iterator program refines the ideal lock-step cursor**: for every program over
zip next/remove/add/replace/index on two arrays (not only contract-respecting ones), every refusal
schedule and every pair of growth functions: same reports, both final contents and the cursor position
as the ideal run (told which `zip_iter_add` calls were blocked), both invariants preserved, ledger
balanced, no fault.  A blocked `zip_iter_add` leaves both contents and the cursor untouched (A8). -/
theorem zip_program_refines (ops : List ZipOp) (a1 a2 : Arr) (it : ArrIter) (z : ZipCursor) (m : Mem)
    (h1 : a1.Inv) (h2 : a2.Inv) (hs : Arr.ZSim a1 a2 it z) :
    (Arr.zipRun a1 a2 it ops m).1 = (z.run ops ((Arr.zipRun a1 a2 it ops m).1.map ZOut.blocked)).1 ∧
    Arr.ZSim (Arr.zipRun a1 a2 it ops m).2.1 (Arr.zipRun a1 a2 it ops m).2.2.1 (Arr.zipRun a1 a2 it ops m).2.2.2.1
      (z.run ops ((Arr.zipRun a1 a2 it ops m).1.map ZOut.blocked)).2 ∧
    (Arr.zipRun a1 a2 it ops m).2.1.Inv ∧ (Arr.zipRun a1 a2 it ops m).2.2.1.Inv ∧
    (Arr.zipRun a1 a2 it ops m).2.2.2.2.live = m.live ∧ (Arr.zipRun a1 a2 it ops m).2.2.2.2.fault = m.fault := by
  induction ops generalizing a1 a2 it z m with
  | nil => exact ⟨rfl, hs, h1, h2, rfl, rfl⟩
  | cons op ops ih =>
    obtain ⟨s1, s2, s3, s4, _, _, s7, s8, _⟩ := Arr.zipStep_sim a1 a2 it z op m h1 h2 hs
    obtain ⟨i1, i2, i3, i4, i5, i6⟩ := ih (Arr.zipStep a1 a2 it op m).2.1 (Arr.zipStep a1 a2 it op m).2.2.1
      (Arr.zipStep a1 a2 it op m).2.2.2.1 _ (Arr.zipStep a1 a2 it op m).2.2.2.2 s3 s4 s2
    simp only [Arr.zipRun, ZipCursor.run, List.map_cons, List.headD_cons, List.tail_cons]
    exact ⟨by rw [← i1, ← s1], i2, i3, i4, by rw [i5, s7], by rw [i6, s8]⟩

/-- **the ledger of a zip program over two arrays of any allocator triples** (equal or mixed): every
growth step allocates and frees through its own array's triple, so both `live` and `liveLibc` are what
they were -/
theorem zip_program_ledger (ops : List ZipOp) (a1 a2 : Arr) (it : ArrIter) (z : ZipCursor) (m : Mem)
    (h1 : a1.Inv) (h2 : a2.Inv) (hs : Arr.ZSim a1 a2 it z) :
    (Arr.zipRun a1 a2 it ops m).2.2.2.2.live = m.live ∧ (Arr.zipRun a1 a2 it ops m).2.2.2.2.liveLibc = m.liveLibc ∧
    (Arr.zipRun a1 a2 it ops m).2.2.2.2.fault = m.fault :=
  ⟨(zip_program_refines ops a1 a2 it z m h1 h2 hs).2.2.2.2.1, Arr.zipRun_liveLibc ops a1 a2 it z m h1 h2 hs,
   (zip_program_refines ops a1 a2 it z m h1 h2 hs).2.2.2.2.2⟩

/-- a zip call that reports an error — nothing yielded yet, already removed, end reached, growth
refused — leaves both contents, the second array and the cursor as they were -/
theorem zip_error_is_inert (op : ZipOp) (a1 a2 : Arr) (it : ArrIter) (z : ZipCursor) (m : Mem)
    (h1 : a1.Inv) (h2 : a2.Inv) (hs : Arr.ZSim a1 a2 it z) (st : Stat)
    (e1 : (Arr.zipStep a1 a2 it op m).1.st = some st) (e2 : st ≠ .ok) :
    (Arr.zipStep a1 a2 it op m).2.1.abs = a1.abs ∧ (Arr.zipStep a1 a2 it op m).2.2.1 = a2 ∧
    (Arr.zipStep a1 a2 it op m).2.2.2.1 = it :=
  (Arr.zipStep_sim a1 a2 it z op m h1 h2 hs).2.2.2.2.2.2.2.2 st e1 e2

/-! ## The property in its own vocabulary (facts about the ideal cursor) -/

/-- a fresh cursor driven by `next` alone yields every element exactly once, in order, then the end -/
theorem spec_traversal (done xs : List Nat) :
    ((Cursor.mk done xs false).run (List.replicate (xs.length + 1) .next) []).1 =
      xs.map (fun x => ({ st := some .ok, val := some x } : Out)) ++ [{ st := some .iterEnd }] := by
  induction xs generalizing done with
  | nil => simp [Cursor.run, Cursor.step, Cursor.next]
  | cons x xs ih =>
    have := ih (done ++ [x])
    simp only [List.length_cons, List.replicate_succ, Cursor.run, Cursor.step, Cursor.next,
      List.tail_nil, List.map_cons, List.cons_append, List.cons.injEq, true_and] at this ⊢
    exact this

/-- in the concrete model: `size + 1` calls of `iter_next` on a fresh iterator over any array yield
exactly its content in index order, then `CC_ITER_END` -/
theorem traversal_complete (a : Arr) (m : Mem) (hinv : a.Inv) :
    (a.iterRun {} (List.replicate (a.size + 1) .next) m).1 =
      a.abs.map (fun x => ({ st := some .ok, val := some x } : Out)) ++ [{ st := some .iterEnd }] := by
  have h := (program_refines (List.replicate (a.size + 1) .next) a {} _ m hinv (iter_init a)).1
  have hb : ∀ (c : Cursor) (n : Nat) (bl : List (Option Stat)),
      (c.run (List.replicate n .next) bl).1 = (c.run (List.replicate n .next) []).1 := by
    intro c n
    induction n generalizing c with
    | zero => intro bl; rfl
    | succ n ih =>
      intro bl
      simp only [List.replicate_succ, Cursor.run, Cursor.step]
      rw [ih _ bl.tail, ih _ ([] : List (Option Stat)).tail]
  rw [h, hb]
  have := spec_traversal [] a.abs
  rwa [Arr.abs_length] at this

/-- mutations through the cursor never touch the elements still to be visited, and only `next`
consumes them: the traversal continues over precisely the original elements not yet visited -/
theorem spec_todo_untouched (c : Cursor) (op : IterOp) (blk : Option Stat) :
    (c.step op blk).2.todo = c.todo ∨ (op = .next ∧ ∃ x, c.todo = x :: (c.step op blk).2.todo) := by
  cases op with
  | next =>
    simp only [Cursor.step, Cursor.next]
    cases h : c.todo with
    | nil => left; simp [h]
    | cons x t => right; simp
  | remove =>
    left; simp only [Cursor.step, Cursor.remove]
    split
    · rfl
    · split <;> rfl
  | add x => left; simp only [Cursor.step, Cursor.add]; split <;> rfl
  | replace x => left; simp only [Cursor.step, Cursor.replace]; split <;> rfl
  | index => left; rfl

/-- a successful remove takes away exactly the element yielded last; add puts the new element
right behind it; replace swaps it; size changes by −1 / +1 / 0 -/
theorem spec_mutations (d t : List Nat) (y x : Nat) :
    (Cursor.mk (d ++ [y]) t false).remove = (.ok, some y, Cursor.mk d t true) ∧
    ((Cursor.mk (d ++ [y]) t false).add x).2.content = d ++ [y] ++ [x] ++ t ∧
    ((Cursor.mk (d ++ [y]) t false).replace x).2.2.content = d ++ [x] ++ t ∧
    (Cursor.mk (d ++ [y]) t false).index = d.length := by
  simp [Cursor.remove, Cursor.add, Cursor.replace, Cursor.content, Cursor.index, Spec.Seq.wdec]

/-! ## Non-vacuity: an exactly full array (size = capacity = 3), a program with an insertion that must
re-allocate, a removal, a replacement and the index query -/
example :
    let a : Arr := Arr.mk 3 3 [10, 20, 30] (fun c => 2 * c) .conf
    let r := a.iterRun {} [.next, .add 15, .next, .remove, .index, .next, .replace 99, .next] { live := 2 }
    a.Inv ∧ r.1.map (·.val) = [some 10, none, some 20, some 20, some 1, some 30, some 30, none] ∧
    r.1.getLast?.map (·.st) = some (some .iterEnd) ∧ r.2.1.abs = [10, 15, 99] ∧ r.2.1.capacity = 6 ∧
    r.2.1.Inv ∧ r.2.2.2.fault = false ∧ r.2.2.2.live = 2 := by
  decide

/-! a zip program over a full array of 3 and an array of 2 with spare room: next, add (first array
grows 3 → 6), next, remove, replace (after a removal it hits the pair *before* the removed one, as the
ideal cursor says), next (end: the shorter array is exhausted) -/
example :
    let a1 : Arr := Arr.mk 3 3 [10, 20, 30] (fun c => 2 * c) .conf
    let a2 : Arr := Arr.mk 2 4 [1, 2, 0, 0] (fun c => 2 * c) .conf
    let r := Arr.zipRun a1 a2 {} [.next, .add 15 5, .next, .remove, .index, .replace 7 7, .next] { live := 4 }
    a1.Inv ∧ a2.Inv ∧
    r.1.map (·.val) = [some (10, 1), none, some (20, 2), some (20, 2), none, some (15, 5), none] ∧
    r.1.map (·.idx) = [none, none, none, none, some 1, none, none] ∧
    r.1.map (·.st) = [some .ok, some .ok, some .ok, some .ok, none, some .ok, some .iterEnd] ∧
    r.2.1.abs = [10, 7, 30] ∧ r.2.2.1.abs = [1, 7] ∧ r.2.1.capacity = 6 ∧ r.2.2.1.capacity = 4 ∧
    r.2.2.2.2.fault = false ∧ r.2.2.2.2.live = 4 := by
  decide

end CC.Properties.C07Array